(* The non-rational curve derivative evaluator A3.2 (CurveEvaluator.derivatives, Model.Derivs.curve_derivs) returns, for
   ALL degrees, the analytic derivatives of the curve  C(x) = sum_i N_{i,p}(x) P_i  (EvalR.curve_def), coordinate-wise,
   on every non-empty knot span of the domain, for every requested order (also above the degree).
   Same development as Proofs/DerivLinkCurve.v (degrees 1..5) with the bounded link ders_is_dN_deg_le_5 replaced by
   the general theorem DersGeneral.ders_general. *)
From Coq Require Import List Reals Lra Lia Arith Bool.
From NV Require Import Scalar.Ops Model.Common Model.Basis Model.Knots Model.Eval Model.Degree Model.Derivs
  Proofs.Boehm Proofs.BasisR Proofs.BasisOneR Proofs.DerivAnalytic Proofs.EvalR Proofs.DerivLink Proofs.DerivLinkCurve
  Proofs.DersGeneral.
Import ListNotations.
Open Scope R_scope.

Section CurveDerivs.
Variables (U : list R) (P : list (list R)) (p dim : nat).
Hypothesis Usorted : sortedR U.
Hypothesis Hwf : wf_net P dim.
Hypothesis Hp : (p < length P)%nat.
Hypothesis HL : length U = (length P + p + 1)%nat.

Theorem curve_derivs_is_dN_sum_general u order k :
  knR U p <= u < knR U (length P) -> (k <= order)%nat ->
  let CK := curve_derivs Rops dim p U P u order in
  length (nth k CK []) = dim /\
  forall d, (d < dim)%nat -> nth d (nth k CK []) 0 = curve_dk U p P k d u.
Proof.
  intros Hu Hk. cbn zeta. set (n := length P) in *.
  unfold curve_derivs. fold n. rewrite nth_map_seq_g by lia. cbn [Nat.add].
  destruct (Nat.leb_spec k (Nat.min p order)) as [Hkd|Hkd].
  - destruct (span_facts U u p n Hp ltac:(lia) Hu) as [Hk1 Hk2].
    set (span := find_span_linear Rops p U n u) in *.
    destruct (curve_point_at_sum dim p P span (nth k (basis_function_ders Rops p U span u (Nat.min p order)) []) Hwf
                ltac:(lia) ltac:(lia)) as [HLr Hn]. cbn zeta in *.
    split; [exact HLr|]. intros d Hd. rewrite Hn by exact Hd.
    unfold curve_dk. fold n. rewrite (sumf_window _ (span - p) (S p) n); try lia.
    + apply sumf_ext. intros j Hj. f_equal.
      apply (ders_general U span p Usorted); try assumption; lia.
    + intros i Hi. rewrite (dNa_outside U k p i u span Usorted ltac:(lia) Hk2) by lia. ring.
    + intros i Hi. rewrite (dNa_outside U k p i u span Usorted ltac:(lia) Hk2) by lia. ring.
  - split; [apply vzero_length|]. intros d Hd. rewrite vzero_nth.
    unfold curve_dk. symmetry. apply sumf_zero. intros i _. rewrite dNa_above_degree by lia. ring.
Qed.

(* object level (BSpline.Curve.derivatives with the default evaluator, non-rational) *)
Corollary Curve_derivatives_is_dN_sum_general normalize u order CK k d :
  Curve_derivatives Rops normalize false false dim p U P u order = Ok CK ->
  knR U p <= u < knR U (length P) -> (k <= order)%nat -> (d < dim)%nat ->
  nth d (nth k CK []) 0 = curve_dk U p P k d u.
Proof.
  unfold Curve_derivatives. destruct (andb normalize _); [discriminate|].
  intros E Hu Hk Hd. injection E as <-.
  apply (curve_derivs_is_dN_sum_general u order k Hu Hk). exact Hd.
Qed.

(* ---- analytic meaning ---- *)
Let Vs := Ufun_sorted U Usorted.

Lemma curve_dk_iterated_g s k d :
  kth_deriv_on (Ufun U s) (Ufun U (S s)) k (fun x => curve_def U p P d x) (fun x => curve_dk U p P k d x).
Proof.
  induction k as [|k IH]; cbn [kth_deriv_on].
  - intros x _. reflexivity.
  - exists (fun x => curve_dk U p P k d x). split; [exact IH|]. intros x Hx.
    unfold curve_dk. apply (curve_dN_is_kth_derivative (Ufun U) Vs s). exact Hx.
Qed.

Section Span.
Variable s : nat.                       (* a knot span of the domain *)
Hypothesis Hs : (p <= s < length P)%nat.

Let Es : Ufun U s = knR U s. Proof. apply Ufun_in. lia. Qed.
Let Es1 : Ufun U (S s) = knR U (s + 1). Proof. rewrite Ufun_in by lia. f_equal. lia. Qed.
Let dom x : knR U s <= x < knR U (s + 1) -> knR U p <= x < knR U (length P).
Proof.
  intros Hx. assert (knR U p <= knR U s) by (apply Usorted; lia).
  assert (knR U (s + 1) <= knR U (length P)) by (apply Usorted; lia). lra.
Qed.

(* coordinate d of CK[k], as a function of the parameter, is a k-th iterated analytic derivative of
   coordinate d of the curve on the open span (U_s, U_{s+1}) *)
Theorem curve_derivs_is_true_derivative_general order k d : (k <= order)%nat -> (d < dim)%nat ->
  kth_deriv_on (knR U s) (knR U (s + 1)) k
    (fun x => curve_def U p P d x)
    (fun x => nth d (nth k (curve_derivs Rops dim p U P x order) []) 0).
Proof.
  intros Hk Hd.
  apply (kth_deriv_on_ext _ _ _ _ (fun x => curve_dk U p P k d x)).
  - intros x Hx. apply (curve_derivs_is_dN_sum_general x order k); [apply dom; lra|exact Hk|exact Hd].
  - rewrite <- Es, <- Es1. apply curve_dk_iterated_g.
Qed.

(* one step: CK[k+1](u) is the derivative at u of x |-> CK[k](x), coordinate-wise, inside the span *)
Theorem curve_derivs_consecutive_general order k d u : (S k <= order)%nat -> (d < dim)%nat ->
  knR U s < u < knR U (s + 1) ->
  derivable_pt_lim (fun x => nth d (nth k (curve_derivs Rops dim p U P x order) []) 0) u
                   (nth d (nth (S k) (curve_derivs Rops dim p U P u order) []) 0).
Proof.
  intros Hk Hd Hu.
  apply (dl_local (fun x => curve_dk U p P k d x) _ (knR U s) (knR U (s + 1))); [exact Hu| |].
  - intros y Hy. symmetry.
    apply (curve_derivs_is_dN_sum_general y order k); [apply dom; lra|lia|exact Hd].
  - rewrite (proj2 (curve_derivs_is_dN_sum_general u order (S k) ltac:(apply dom; lra) Hk) d Hd).
    unfold curve_dk. apply (curve_dN_is_kth_derivative (Ufun U) Vs s). rewrite Es, Es1. exact Hu.
Qed.

(* right derivative on the half-open span, in particular at the knot U_s *)
Theorem curve_derivs_right_derivative_general order k d u : (S k <= order)%nat -> (d < dim)%nat ->
  knR U s <= u < knR U (s + 1) ->
  right_derivable_pt_lim (fun x => nth d (nth k (curve_derivs Rops dim p U P x order) []) 0) u
                         (nth d (nth (S k) (curve_derivs Rops dim p U P u order) []) 0).
Proof.
  intros Hk Hd Hu.
  apply (rdl_local (fun x => curve_dk U p P k d x) _ (knR U (s + 1))); [lra| |].
  - intros y Hy. symmetry.
    apply (curve_derivs_is_dN_sum_general y order k); [apply dom; lra|lia|exact Hd].
  - rewrite (proj2 (curve_derivs_is_dN_sum_general u order (S k) ltac:(apply dom; lra) Hk) d Hd).
    unfold curve_dk. apply (curve_dN_right_derivative (Ufun U) Vs s). rewrite Es, Es1. exact Hu.
Qed.

(* first derivative of the evaluated point: CK[1] is the derivative of x |-> curve_point x *)
Corollary curve_tangent_is_derivative_general order d u : (1 <= order)%nat -> (d < dim)%nat ->
  knR U s < u < knR U (s + 1) ->
  derivable_pt_lim (fun x => nth d (curve_point Rops dim p U P x) 0) u
                   (nth d (nth 1 (curve_derivs Rops dim p U P u order) []) 0).
Proof.
  intros Ho Hd Hu.
  apply (dl_local (fun x => curve_def U p P d x) _ (knR U s) (knR U (s + 1))); [exact Hu| |].
  - intros y Hy. symmetry.
    apply (curve_point_is_definition U P p dim y Usorted Hwf Hp HL); [apply dom; lra|exact Hd].
  - rewrite (proj2 (curve_derivs_is_dN_sum_general u order 1 ltac:(apply dom; lra) Ho) d Hd).
    unfold curve_dk, curve_def.
    apply (curve_dN_is_kth_derivative (Ufun U) Vs s 0). rewrite Es, Es1. exact Hu.
Qed.
End Span.
End CurveDerivs.

Check curve_derivs_is_dN_sum_general.
Check Curve_derivatives_is_dN_sum_general.
Check curve_derivs_is_true_derivative_general.
Check curve_derivs_consecutive_general.
Check curve_derivs_right_derivative_general.
Check curve_tangent_is_derivative_general.

Print Assumptions curve_derivs_is_dN_sum_general.
Print Assumptions Curve_derivatives_is_dN_sum_general.
Print Assumptions curve_derivs_is_true_derivative_general.
Print Assumptions curve_derivs_consecutive_general.
Print Assumptions curve_derivs_right_derivative_general.
Print Assumptions curve_tangent_is_derivative_general.

(* ------------------------------------------------------------------------------------------------ *)
(* The closed right end of the domain.  At u = U_n (n = number of control points) the span search returns the last  *)
(* span n-1 and A3.2 evaluates the polynomial pieces of that span at its right knot: the returned vectors are the    *)
(* one-sided (left) derivatives of each other, i.e. the left-hand limits of the derivatives inside the last span.    *)
Definition left_derivable_pt_lim (f : R -> R) (x l : R) : Prop :=
  forall eps : R, 0 < eps ->
  exists delta : R, 0 < delta /\
    forall h : R, h < 0 -> - delta < h -> Rabs ((f (x + h) - f x) / h - l) < eps.

Lemma dl_local_left (g f : R -> R) a x l :
  a < x -> (forall y, a < y <= x -> g y = f y) ->
  derivable_pt_lim g x l -> left_derivable_pt_lim f x l.
Proof.
  intros Hx Hfg Hg eps Heps. destruct (Hg eps Heps) as [delta Hd].
  exists (Rmin delta (x - a)). split.
  { apply Rmin_pos; [apply cond_pos | lra]. }
  intros h Hh Hlt.
  assert (H1 : - delta < h) by (eapply Rle_lt_trans; [|exact Hlt]; apply Ropp_le_contravar, Rmin_l).
  assert (H2 : - (x - a) < h) by (eapply Rle_lt_trans; [|exact Hlt]; apply Ropp_le_contravar, Rmin_r).
  rewrite <- (Hfg (x + h)) by lra. rewrite <- (Hfg x) by lra.
  apply Hd; [lra|]. rewrite Rabs_left by exact Hh. lra.
Qed.

Lemma dNk_above_degree (V : nat -> R) s : forall j p i x, (p < j)%nat -> dNk V s j p i x = 0.
Proof.
  induction j as [|j IH]; intros p i x H; [lia|].
  destruct p as [|q]; [reflexivity|]. rewrite dNk_SS, !IH by lia. unfold Rdiv. ring.
Qed.

Section CurveEnd.
Variables (U : list R) (P : list (list R)) (p dim : nat).
Hypothesis Usorted : sortedR U.
Hypothesis Hwf : wf_net P dim.
Hypothesis Hp : (p < length P)%nat.
Hypothesis HL : length U = (length P + p + 1)%nat.

(* the k-th derivative of the polynomial piece of the curve on span s (only the p+1 active control points) *)
Definition curve_dk_piece (s k d : nat) (x : R) : R :=
  sumf (fun j => dNk (Ufun U) s k p (s - p + j) x * coord P (s - p + j) d) (S p).

Lemma curve_dk_piece_deriv s k d x :
  derivable_pt_lim (curve_dk_piece s k d) x (curve_dk_piece s (S k) d x).
Proof.
  unfold curve_dk_piece.
  apply (sumf_deriv (fun j y => dNk (Ufun U) s k p (s - p + j) y) (fun j y => dNk (Ufun U) s (S k) p (s - p + j) y)
                    (fun j => coord P (s - p + j) d)).
  intros j. apply dNk_deriv. apply Ufun_sorted. exact Usorted.
Qed.

(* [G] every degree, every u >= U_p (inside the domain, at its closed right end, or beyond), every order and k <= order:
   A3.2 returns the k-th derivative of the polynomial piece of the span found by the span search *)
Theorem curve_derivs_is_piece u order k d :
  knR U p <= u -> (k <= order)%nat -> (d < dim)%nat ->
  nth d (nth k (curve_derivs Rops dim p U P u order) []) 0
  = curve_dk_piece (find_span_linear Rops p U (length P) u) k d u.
Proof.
  intros Hu Hk Hd. set (n := length P) in *.
  pose proof (find_span_linear_spec U u p n Hp ltac:(lia) Hu) as Hsp. cbv zeta in Hsp.
  destruct Hsp as (Hs1 & _ & _).
  unfold curve_derivs. fold n. rewrite nth_map_seq_g by lia. cbn [Nat.add].
  set (span := find_span_linear Rops p U n u) in *.
  destruct (Nat.leb_spec k (Nat.min p order)) as [Hkd|Hkd].
  - destruct (curve_point_at_sum dim p P span (nth k (basis_function_ders Rops p U span u (Nat.min p order)) []) Hwf
                ltac:(lia) ltac:(lia)) as [_ Hn]. cbn zeta in Hn.
    rewrite Hn by exact Hd. unfold curve_dk_piece. apply sumf_ext. intros j Hj. f_equal.
    apply (ders_general_pieces U span p Usorted); lia.
  - rewrite vzero_nth. unfold curve_dk_piece. symmetry. apply sumf_zero. intros j _.
    rewrite dNk_above_degree by lia. ring.
Qed.

(* the span search on (U_{n-1}, U_n] *)
Lemma find_span_last u : knR U (length P - 1) < u <= knR U (length P) ->
  find_span_linear Rops p U (length P) u = (length P - 1)%nat.
Proof.
  intros [Hu1 Hu2]. set (n := length P) in *.
  assert (Hpu : knR U p <= u). { assert (knR U p <= knR U (n - 1)) by (apply Usorted; lia). lra. }
  pose proof (find_span_linear_spec U u p n Hp ltac:(lia) Hpu) as Hsp. cbv zeta in Hsp.
  destruct Hsp as (Hs1 & Hs2 & [Hs3|[Hs3 _]]); [|exact Hs3].
  set (k := find_span_linear Rops p U n u) in *.
  destruct (Nat.eq_dec k (n - 1)) as [E|E]; [exact E|exfalso].
  assert (knR U (S k) <= knR U (n - 1)) by (apply Usorted; lia). lra.
Qed.

(* [G] at the closed right end: CK[k+1](U_n) is the left derivative at U_n of x |-> CK[k](x), coordinate-wise *)
Theorem curve_derivs_left_derivative_at_end order k d :
  (S k <= order)%nat -> (d < dim)%nat -> knR U (length P - 1) < knR U (length P) ->
  left_derivable_pt_lim (fun x => nth d (nth k (curve_derivs Rops dim p U P x order) []) 0) (knR U (length P))
                        (nth d (nth (S k) (curve_derivs Rops dim p U P (knR U (length P)) order) []) 0).
Proof.
  intros Hk Hd Hne. set (n := length P) in *.
  assert (Hpn : knR U p <= knR U (n - 1)) by (apply Usorted; lia).
  apply (dl_local_left (curve_dk_piece (n - 1) k d) _ (knR U (n - 1))); [exact Hne| |].
  - intros y Hy. rewrite curve_derivs_is_piece by (try assumption; try lia; lra).
    fold n. rewrite find_span_last by (fold n; exact Hy). reflexivity.
  - rewrite curve_derivs_is_piece by (try assumption; try lia; lra).
    fold n. rewrite find_span_last by (fold n; lra). apply curve_dk_piece_deriv.
Qed.

(* and inside the last span the piece is the curve: so CK[k](U_n) is the left-hand limit of the k-th derivative *)
Theorem curve_derivs_piece_is_dk u k d :
  knR U p <= u < knR U (length P) ->
  curve_dk_piece (find_span_linear Rops p U (length P) u) k d u = curve_dk U p P k d u.
Proof.
  intros Hu. set (n := length P) in *.
  destruct (span_facts U u p n Hp ltac:(lia) Hu) as [Hk1 Hk2].
  set (span := find_span_linear Rops p U n u) in *.
  unfold curve_dk, curve_dk_piece. fold n. rewrite (sumf_window _ (span - p) (S p) n); try lia.
  - apply sumf_ext. intros j Hj. f_equal. symmetry.
    apply (dN_eq_dNk (Ufun U) (Ufun_sorted U Usorted) span).
    replace (S span) with (span + 1)%nat by lia. rewrite !Ufun_in by lia. exact Hk2.
  - intros i Hi. rewrite (dNa_outside U k p i u span Usorted ltac:(lia) Hk2) by lia. ring.
  - intros i Hi. rewrite (dNa_outside U k p i u span Usorted ltac:(lia) Hk2) by lia. ring.
Qed.
End CurveEnd.

Check curve_derivs_is_piece.
Check curve_derivs_left_derivative_at_end.
Print Assumptions curve_derivs_is_piece.
Print Assumptions curve_derivs_left_derivative_at_end.
