(* C05 for surfaces: operations.refine_knotvector (models refine_surf_u, refine_surf_v, refine_surf) leaves every
   surface point unchanged.  The new net is column-wise / row-wise A5.4 (same gather / flip_ctrlpts_u scatter as
   knot insertion); the knot vector is taken from the last column / row and is the same for all of them. *)
From Coq Require Import List Reals Lra Lia Arith Bool Permutation.
From NV Require Import Scalar.Ops Model.Common Model.Basis Model.KnotIns Model.InsertKnot Model.KnotRefine
  Proofs.Boehm Proofs.BasisR Proofs.KnotInsR Proofs.InsertKnotR Proofs.InsertDirR Proofs.KnotRefineR
  Proofs.RefineGenS Proofs.RefineGenI Proofs.RefineGeneral Proofs.RefineDefault Proofs.RefineOp Proofs.RefineParam
  Proofs.RefineLiftG.
Import ListNotations.
Local Open Scope nat_scope.

(* number of new control points: structural, no hypothesis on the points *)
Lemma refine_pts_length tol p U (P : list (list R)) X : refine_ok tol p U (length P) X ->
  length (fst (refine_pts Rops tol p U P X)) = length P + length X.
Proof.
  intros [H1 [H2 [H3 [H4 [H5 [H6 [H7 [H8 _]]]]]]]].
  pose proof (refine_pts_spec tol p U P X 0 H1 H2 H3 H4 H5 H6 H7 H8) as H.
  destruct (refine_pts Rops tol p U P X) as [Q V]. cbn [fst]. tauto.
Qed.

Definition surf_dims (g : surf (T:=R)) (dim : nat) : Prop :=
  forall i, i < s_sv g * s_su g -> length (getp (s_P g) i) = dim.

Lemma col_u_length (g : surf (T:=R)) j : length (col_u g j) = s_su g.
Proof. unfold col_u. rewrite map_length, seq_length. reflexivity. Qed.
Lemma row_v_length (g : surf (T:=R)) i : length (row_v g i) = s_sv g.
Proof. unfold row_v. rewrite map_length, seq_length. reflexivity. Qed.

Lemma col_u_dims (g : surf (T:=R)) dim j : surf_dims g dim -> j < s_sv g ->
  forall i, i < length (col_u g j) -> length (getp (col_u g j) i) = dim.
Proof.
  intros Hd Hj i Hi. rewrite col_u_length in Hi. unfold col_u, getp at 1. rewrite nth_map_seq by exact Hi. apply Hd. nia.
Qed.
Lemma row_v_dims (g : surf (T:=R)) dim i : surf_dims g dim -> i < s_su g ->
  forall j, j < length (row_v g i) -> length (getp (row_v g i) j) = dim.
Proof.
  intros Hd Hi j Hj. rewrite row_v_length in Hj. unfold row_v, getp at 1. rewrite nth_map_seq by exact Hj. apply Hd. nia.
Qed.

(* ---------- u direction ---------- *)
Section U.
Variables (tol : R) (g : surf (T:=R)) (X : list R) (dim : nat).
Hypothesis HX : refine_ok tol (s_pu g) (s_Uu g) (s_su g) X.
Hypothesis Hdim : surf_dims g dim.

Let F (j : nat) := fst (refine_pts Rops tol (s_pu g) (s_Uu g) (col_u g j) X).
Let V := snd (refine_pts Rops tol (s_pu g) (s_Uu g) (col_u g (Nat.pred (s_sv g))) X).
Let n' := s_su g + length X.
Let Pn := flip_ctrlpts_u (flat_map F (seq 0 (s_sv g))) n' (s_sv g).

Lemma F_length j : length (F j) = n'.
Proof. unfold F, n'. rewrite refine_pts_length by (rewrite col_u_length; exact HX). rewrite col_u_length. reflexivity. Qed.

Lemma V_all j : snd (refine_pts Rops tol (s_pu g) (s_Uu g) (col_u g j) X) = V.
Proof. unfold V, refine_pts. apply refine_kv_indep. rewrite !col_u_length. reflexivity. Qed.

Lemma Pn_col i j : i < n' -> j < s_sv g -> getp Pn (j + s_sv g * i) = getp (F j) i.
Proof.
  intros Hi Hj. unfold Pn, flip_ctrlpts_u.
  set (tmp := flat_map F (seq 0 (s_sv g))).
  unfold getp at 1.
  rewrite (nth_flat_map_const (fun i0 => map (fun j0 => getp tmp (i0 + j0 * n')) (seq 0 (s_sv g))) (s_sv g)); auto.
  2:{ intros. rewrite map_length, seq_length. reflexivity. }
  rewrite nth_map_seq by exact Hj.
  replace (i + j * n') with (i + n' * j) by lia.
  unfold tmp, getp. apply (nth_flat_map_const F n'); auto. intros. apply F_length.
Qed.

Lemma F_spec j : j < s_sv g ->
  (forall w, w < n' -> length (getp (F j) w) = dim) /\
  (forall c t, c < dim -> curve_pt (s_pu g) V (F j) c t = curve_pt (s_pu g) (s_Uu g) (col_u g j) c t).
Proof.
  intros Hj.
  assert (HXj : refine_ok tol (s_pu g) (s_Uu g) (length (col_u g j)) X) by (rewrite col_u_length; exact HX).
  pose proof (refine_pts_ok tol (s_pu g) (s_Uu g) (col_u g j) X dim HXj (col_u_dims g dim j Hdim Hj)) as H.
  pose proof (V_all j) as HV. pose proof (F_length j) as HL. unfold F in *.
  destruct (refine_pts Rops tol (s_pu g) (s_Uu g) (col_u g j) X) as [Q Vj]. cbn [fst snd] in *. subst Vj.
  destruct H as [_ [_ [_ [_ [A5 A6]]]]]. split; [|exact A6]. intros w Hw. apply A5. lia.
Qed.

Theorem refine_surf_u_X :
  let g' := mkS (s_pu g) (s_pv g) V (s_Uv g) n' (s_sv g) Pn in
  surf_dims g' dim /\ forall c tu tv, c < dim -> surf_pt g' c tu tv = surf_pt g c tu tv.
Proof.
  cbv zeta. split.
  - intros idx Hidx. cbn [s_su s_sv s_P] in *.
    assert (Hsv : 0 < s_sv g) by (destruct (s_sv g); [lia|lia]).
    assert (E : idx = idx mod s_sv g + s_sv g * (idx / s_sv g)) by (rewrite Nat.add_comm; apply Nat.div_mod; lia).
    assert (Hj : idx mod s_sv g < s_sv g) by (apply Nat.mod_upper_bound; lia).
    assert (Hi : idx / s_sv g < n') by (apply Nat.div_lt_upper_bound; lia).
    rewrite E, Pn_col by assumption. apply F_spec; assumption.
  - intros c tu tv Hc. apply (surf_lift_u g V n' Pn F dim).
    + intros j _. apply F_length.
    + intros j Hj. apply F_spec. exact Hj.
    + intros i j Hi Hj. apply Pn_col; assumption.
    + exact Hc.
Qed.
End U.

(* ---------- v direction ---------- *)
Section V.
Variables (tol : R) (g : surf (T:=R)) (X : list R) (dim : nat).
Hypothesis HX : refine_ok tol (s_pv g) (s_Uv g) (s_sv g) X.
Hypothesis Hdim : surf_dims g dim.

Let F (i : nat) := fst (refine_pts Rops tol (s_pv g) (s_Uv g) (row_v g i) X).
Let V := snd (refine_pts Rops tol (s_pv g) (s_Uv g) (row_v g (Nat.pred (s_su g))) X).
Let n' := s_sv g + length X.
Let Pn := flat_map F (seq 0 (s_su g)).

Lemma Fv_length i : length (F i) = n'.
Proof. unfold F, n'. rewrite refine_pts_length by (rewrite row_v_length; exact HX). rewrite row_v_length. reflexivity. Qed.

Lemma Vv_all i : snd (refine_pts Rops tol (s_pv g) (s_Uv g) (row_v g i) X) = V.
Proof. unfold V, refine_pts. apply refine_kv_indep. rewrite !row_v_length. reflexivity. Qed.

Lemma Pn_row i j : i < s_su g -> j < n' -> getp Pn (j + n' * i) = getp (F i) j.
Proof. intros Hi Hj. unfold Pn, getp. apply (nth_flat_map_const F n'); auto. intros. apply Fv_length. Qed.

Lemma Fv_spec i : i < s_su g ->
  (forall w, w < n' -> length (getp (F i) w) = dim) /\
  (forall c t, c < dim -> curve_pt (s_pv g) V (F i) c t = curve_pt (s_pv g) (s_Uv g) (row_v g i) c t).
Proof.
  intros Hi.
  assert (HXi : refine_ok tol (s_pv g) (s_Uv g) (length (row_v g i)) X) by (rewrite row_v_length; exact HX).
  pose proof (refine_pts_ok tol (s_pv g) (s_Uv g) (row_v g i) X dim HXi (row_v_dims g dim i Hdim Hi)) as H.
  pose proof (Vv_all i) as HV. pose proof (Fv_length i) as HL. unfold F in *.
  destruct (refine_pts Rops tol (s_pv g) (s_Uv g) (row_v g i) X) as [Q Vi]. cbn [fst snd] in *. subst Vi.
  destruct H as [_ [_ [_ [_ [A5 A6]]]]]. split; [|exact A6]. intros w Hw. apply A5. lia.
Qed.

Theorem refine_surf_v_X :
  let g' := mkS (s_pu g) (s_pv g) (s_Uu g) V (s_su g) n' Pn in
  surf_dims g' dim /\ forall c tu tv, c < dim -> surf_pt g' c tu tv = surf_pt g c tu tv.
Proof.
  cbv zeta. split.
  - intros idx Hidx. cbn [s_su s_sv s_P] in *.
    assert (Hn : 0 < n') by (destruct n'; lia).
    assert (E : idx = idx mod n' + n' * (idx / n')) by (rewrite Nat.add_comm; apply Nat.div_mod; lia).
    assert (Hj : idx mod n' < n') by (apply Nat.mod_upper_bound; lia).
    assert (Hi : idx / n' < s_su g) by (apply Nat.div_lt_upper_bound; lia).
    rewrite E, Pn_row by assumption. apply Fv_spec; assumption.
  - intros c tu tv Hc. apply (surf_lift_v g V n' Pn F dim).
    + intros i _. apply Fv_length.
    + intros i Hi. apply Fv_spec. exact Hi.
    + intros i j Hi Hj. apply Pn_row; assumption.
    + exact Hc.
Qed.
End V.

(* ---------- the operation ---------- *)
Theorem refine_surf_u_correct tol (g : surf (T:=R)) d dim :
  default_ok tol (s_pu g) (s_Uu g) (s_su g) d -> surf_dims g dim ->
  let '(g', raised) := refine_surf_u Rops tol g d in
  (raised = true -> g' = g) /\
  s_pu g' = s_pu g /\ s_pv g' = s_pv g /\ s_Uv g' = s_Uv g /\ s_sv g' = s_sv g /\
  surf_dims g' dim /\ forall c tu tv, c < dim -> surf_pt g' c tu tv = surf_pt g c tu tv.
Proof.
  intros Hok Hdim. unfold refine_surf_u.
  destruct (refine_plan Rops tol true (s_pu g) (s_Uu g) None [] d) as [X| |] eqn:Hplan; try (repeat split; auto; fail).
  destruct (default_refine_ok tol _ _ _ _ X Hok Hplan) as [_ HX].
  pose proof (refine_surf_u_X tol g X dim HX Hdim) as H. cbv zeta in H.
  pose proof (refine_pts_length tol (s_pu g) (s_Uu g) (col_u g (Nat.pred (s_sv g))) X
                ltac:(rewrite col_u_length; exact HX)) as HL. rewrite col_u_length in HL.
  unfold col_u in *.
  destruct (refine_pts Rops tol (s_pu g) (s_Uu g) (map (fun u_ => getp (s_P g) (Nat.pred (s_sv g) + s_sv g * u_)) (seq 0 (s_su g))) X)
    as [Q0 V0] eqn:E0. cbn [fst snd] in *. rewrite HL.
  destruct H as [A1 A2]. split; [discriminate|]. repeat (split; [reflexivity|]). split; assumption.
Qed.

Theorem refine_surf_v_correct tol (g : surf (T:=R)) d dim :
  default_ok tol (s_pv g) (s_Uv g) (s_sv g) d -> surf_dims g dim ->
  let '(g', raised) := refine_surf_v Rops tol g d in
  (raised = true -> g' = g) /\
  s_pu g' = s_pu g /\ s_pv g' = s_pv g /\ s_Uu g' = s_Uu g /\ s_su g' = s_su g /\
  surf_dims g' dim /\ forall c tu tv, c < dim -> surf_pt g' c tu tv = surf_pt g c tu tv.
Proof.
  intros Hok Hdim. unfold refine_surf_v.
  destruct (refine_plan Rops tol true (s_pv g) (s_Uv g) None [] d) as [X| |] eqn:Hplan; try (repeat split; auto; fail).
  destruct (default_refine_ok tol _ _ _ _ X Hok Hplan) as [_ HX].
  pose proof (refine_surf_v_X tol g X dim HX Hdim) as H. cbv zeta in H.
  pose proof (refine_pts_length tol (s_pv g) (s_Uv g) (row_v g (Nat.pred (s_su g))) X
                ltac:(rewrite row_v_length; exact HX)) as HL. rewrite row_v_length in HL.
  unfold row_v in *.
  destruct (refine_pts Rops tol (s_pv g) (s_Uv g) (map (fun v => getp (s_P g) (v + s_sv g * Nat.pred (s_su g))) (seq 0 (s_sv g))) X)
    as [Q0 V0] eqn:E0. cbn [fst snd] in *. rewrite HL.
  destruct H as [A1 A2]. split; [discriminate|]. repeat (split; [reflexivity|]). split; assumption.
Qed.

(* both directions in sequence, any subset selected by the densities (0 = not selected) *)
Theorem refine_surf_correct tol check (g : surf (T:=R)) params dim :
  (dens params 0 <> 0 -> default_ok tol (s_pu g) (s_Uu g) (s_su g) (dens params 0)) ->
  (dens params 1 <> 0 -> default_ok tol (s_pv g) (s_Uv g) (s_sv g) (dens params 1)) ->
  surf_dims g dim ->
  let g' := fst (refine_surf Rops tol check g params) in
  surf_dims g' dim /\ forall c tu tv, c < dim -> surf_pt g' c tu tv = surf_pt g c tu tv.
Proof.
  intros Hu Hv Hdim. cbv zeta. unfold refine_surf.
  destruct (andb check _); [cbn [fst]; split; auto|].
  assert (H1 : let '(g1, r1) := (if Nat.eqb (dens params 0) 0 then (g, false) else refine_surf_u Rops tol g (dens params 0)) in
               s_pv g1 = s_pv g /\ s_Uv g1 = s_Uv g /\ s_sv g1 = s_sv g /\
               surf_dims g1 dim /\ forall c tu tv, c < dim -> surf_pt g1 c tu tv = surf_pt g c tu tv).
  { destruct (Nat.eqb_spec (dens params 0) 0) as [E|E]; [repeat split; auto|].
    pose proof (refine_surf_u_correct tol g (dens params 0) dim (Hu E) Hdim) as H.
    destruct (refine_surf_u Rops tol g (dens params 0)) as [g1 r1]. tauto. }
  destruct (if Nat.eqb (dens params 0) 0 then (g, false) else refine_surf_u Rops tol g (dens params 0)) as [g1 r1].
  destruct H1 as [B1 [B2 [B3 [B4 B5]]]].
  destruct r1; [cbn [fst]; split; assumption|].
  destruct (Nat.eqb_spec (dens params 1) 0) as [E|E]; [cbn [fst]; split; assumption|].
  assert (Hv1 : default_ok tol (s_pv g1) (s_Uv g1) (s_sv g1) (dens params 1)) by (rewrite B1, B2, B3; exact (Hv E)).
  pose proof (refine_surf_v_correct tol g1 (dens params 1) dim Hv1 B4) as H.
  destruct (refine_surf_v Rops tol g1 (dens params 1)) as [g2 r2]. cbn [fst].
  destruct H as [_ [_ [_ [_ [_ [C1 C2]]]]]]. split; [exact C1|]. intros c tu tv Hc. rewrite C2 by exact Hc. apply B5. exact Hc.
Qed.

Print Assumptions refine_surf_correct.
