(* C11, least squares: the normal-equation matrix N^T N of fitting.approximate_curve (knot vector of Eqs 9.68/9.69,
   compute_knot_vector2; strictly increasing parameters 0 = u_0 < .. < u_{r-1} = 1; degree p >= 1; number of control
   points p + 2 <= c <= r - 1) has only non-zero Doolittle pivots.  Hence approximate_curve always returns, and its
   interior control points minimise the summed squared residual, without any hypothesis on the pivots.

   Chain: the knots of Eq 9.69 bracket the parameters (kv2_bracket), are sorted (kv2_sorted) and satisfy the
   Schoenberg-Whitney conditions for the interior functions with the interior parameters of index
   sigma(j) = max(j, ceil((j-p) r / (c-p)))  (sw_left, sw_right)
   -> the square row-submatrix has positive leading minors (BsplineTP), so non-zero pivots and a trivial kernel (PosDefLU)
   -> N has a trivial kernel, N^T N is positive definite, its Doolittle pivots are non-zero (PosDefLU.gram_pivots_nonzero). *)
From Coq Require Import List Reals Lra Lia Arith Bool.
From NV Require Import Scalar.Ops Model.Common Model.Basis Model.Knots Model.Eval Model.LinAlg Model.Fit
  Proofs.Boehm Proofs.BasisR Proofs.BasisOneR Proofs.KnotsR Proofs.EvalR Proofs.LinAlgSums Proofs.LinAlgR Proofs.LinAlgSolve
  Proofs.LinAlgPivot Proofs.LinAlgDet Proofs.LinAlgSDD Proofs.LinAlgDetGen Proofs.FitR
  Proofs.BsplinePos Proofs.CollocDet Proofs.BsplineTP Proofs.CollocationLU Proofs.PosDefLU.
Import ListNotations.
Open Scope R_scope.

(* ---- floors and ceilings *)
Lemma floor_bounds Q r j : (2 <= Q -> Q < r -> 1 <= j <= Q - 1 -> 1 <= (j * r) / Q <= r - 2)%nat.
Proof.
  intros HQ Hr Hj. assert (Hq0 : Q <> 0%nat) by lia.
  pose proof (Nat.div_mod (j * r) Q Hq0) as D. pose proof (Nat.mod_upper_bound (j * r) Q Hq0) as M.
  set (ii := (j * r / Q)%nat) in *. set (m := ((j * r) mod Q)%nat) in *.
  split.
  - destruct ii; [|lia]. assert (1 * r <= j * r)%nat by (apply Nat.mul_le_mono_r; lia). lia.
  - destruct (le_lt_dec ii (r - 2)) as [H|H]; [exact H|exfalso].
    assert (Q * (r - 1) <= Q * ii)%nat by (apply Nat.mul_le_mono_l; lia).
    assert (j * r <= (Q - 1) * r)%nat by (apply Nat.mul_le_mono_r; lia).
    destruct r as [|r']; [lia|]. destruct Q as [|Q']; [lia|].
    replace (S r' - 1)%nat with r' in * by lia. replace (S Q' - 1)%nat with Q' in * by lia. nia.
Qed.
Lemma floor_step Q r a : (Q <> 0 -> Q <= r -> a / Q + 1 <= (a + r) / Q)%nat.
Proof.
  intros HQ Hr.
  pose proof (Nat.div_mod a Q HQ) as D1. pose proof (Nat.mod_upper_bound a Q HQ) as M1.
  pose proof (Nat.div_mod (a + r) Q HQ) as D2. pose proof (Nat.mod_upper_bound (a + r) Q HQ) as M2.
  set (x1 := (a / Q)%nat) in *. set (x2 := ((a + r) / Q)%nat) in *.
  destruct (le_lt_dec (x1 + 1) x2) as [H|H]; [exact H|exfalso].
  assert (Q * x2 <= Q * x1)%nat by (apply Nat.mul_le_mono_l; lia). lia.
Qed.
Lemma ceil_spec Q a : (Q <> 0 -> a <= Q * ((a + Q - 1) / Q) <= a + Q - 1)%nat.
Proof.
  intros HQ. pose proof (Nat.div_mod (a + Q - 1) Q HQ) as D. pose proof (Nat.mod_upper_bound (a + Q - 1) Q HQ) as M.
  set (w := ((a + Q - 1) / Q)%nat) in *. lia.
Qed.
Lemma floor_le_ceil Q a : (Q <> 0 -> a / Q <= (a + Q - 1) / Q)%nat.
Proof. intros HQ. apply Nat.div_le_mono; lia. Qed.
Lemma ceil_step Q r a : (Q <> 0 -> Q <= r -> (a + Q - 1) / Q + 1 <= (a + r + Q - 1) / Q)%nat.
Proof. intros HQ Hr. replace (a + r + Q - 1)%nat with ((a + Q - 1) + r)%nat by lia. apply floor_step; assumption. Qed.
Lemma ceil_le Q a n : (Q <> 0 -> a <= Q * n -> (a + Q - 1) / Q <= n)%nat.
Proof.
  intros HQ H. pose proof (ceil_spec Q a HQ) as [_ C]. set (w := ((a + Q - 1) / Q)%nat) in *.
  destruct (le_lt_dec w n) as [L|L]; [exact L|exfalso]. assert (Q * (n + 1) <= Q * w)%nat by (apply Nat.mul_le_mono_l; lia). lia.
Qed.
(* strict upper bound used for Schoenberg-Whitney on the right *)
Lemma ceil_upper Q r p j : (2 <= Q -> Q < r -> 1 <= p -> p <= j -> (((j - p) * r + Q - 1) / Q + 1) * Q < (j + 1) * r)%nat.
Proof.
  intros HQ Hr Hp Hj. assert (Hq0 : Q <> 0%nat) by lia.
  pose proof (ceil_spec Q ((j - p) * r) Hq0) as [_ C]. set (w := (((j - p) * r + Q - 1) / Q)%nat) in *.
  assert (E : ((j + 1) * r = (j - p) * r + (p + 1) * r)%nat).
  { rewrite <- Nat.mul_add_distr_r. f_equal. lia. }
  assert (2 * r <= (p + 1) * r)%nat by (apply Nat.mul_le_mono_r; lia). lia.
Qed.
Lemma floor_strict Q a s : (Q <> 0 -> (s + 1) * Q < a -> s + 1 <= a / Q /\ (s + 1 = a / Q -> 0 < a mod Q))%nat.
Proof.
  intros HQ H. pose proof (Nat.div_mod a Q HQ) as D. pose proof (Nat.mod_upper_bound a Q HQ) as M.
  set (x := (a / Q)%nat) in *. set (m := (a mod Q)%nat) in *.
  split.
  - destruct (le_lt_dec (s + 1) x) as [L|L]; [exact L|exfalso]. assert (Q * x <= Q * s)%nat by (apply Nat.mul_le_mono_l; lia). lia.
  - intros E. rewrite <- E in D. lia.
Qed.
Lemma range_aux Q r a : (2 <= Q -> Q <= r -> a <= Q - 2 -> a * r <= Q * (r - 2))%nat.
Proof.
  intros HQ Hr Ha. assert (a * r <= (Q - 2) * r)%nat by (apply Nat.mul_le_mono_r; exact Ha).
  destruct Q as [|[|Q']]; lia.
Qed.

Section Approx.
Variables (p r c : nat) (params : list R).
Hypothesis Hp : (1 <= p)%nat.
Hypothesis Hc : (p + 2 <= c)%nat.
Hypothesis Hr : (c < r)%nat.
Hypothesis HL : length params = r.
Hypothesis H0 : nth 0 params 0 = 0.
Hypothesis H1 : nth (r - 1) params 0 = 1.
Hypothesis Hinc : forall i, (S i < r)%nat -> nth i params 0 < nth (S i) params 0.

Definition ub (i : nat) : R := nth i params 0.
Definition akv : list R := compute_knot_vector2 Rops p r c params.
Definition aU : nat -> R := Ufun akv.
Notation q := (c - p)%nat.
Notation kv := akv. Notation U := aU.

Lemma ub_strict : forall b a, (a < b)%nat -> (b < r)%nat -> ub a < ub b.
Proof.
  induction b as [|b IH]; intros a Hab Hb; [lia|].
  destruct (Nat.eq_dec a b) as [->|]; [apply Hinc; lia|].
  apply Rlt_trans with (ub b); [apply IH; lia|apply Hinc; lia].
Qed.
Lemma ub_mono a b : (a <= b)%nat -> (b < r)%nat -> ub a <= ub b.
Proof. intros Hab Hb. destruct (Nat.eq_dec a b) as [->|]; [lra|]. left. apply ub_strict; lia. Qed.
Lemma ub_range i : (i < r)%nat -> 0 <= ub i <= 1.
Proof.
  intros Hi. pose proof (ub_mono 0 i ltac:(lia) Hi). pose proof (ub_mono i (r - 1) ltac:(lia) ltac:(lia)).
  unfold ub in *. lra.
Qed.
Lemma ub_interior i : (0 < i < r - 1)%nat -> 0 < ub i < 1.
Proof.
  intros Hi. pose proof (ub_strict i 0 ltac:(lia) ltac:(lia)). pose proof (ub_strict (r - 1) i ltac:(lia) ltac:(lia)).
  unfold ub in *. lra.
Qed.

(* ---- the knot vector of Eqs 9.68 / 9.69 *)
Lemma kv2_len : length kv = (c + p + 1)%nat.
Proof.
  unfold kv, compute_knot_vector2. cbv zeta. rewrite !app_length, !repeat_length, map_length, seq_length. lia.
Qed.
Lemma kv2_zero i : (i <= p)%nat -> knR kv i = 0.
Proof.
  intro Hi. unfold kv, compute_knot_vector2, kn. cbv zeta. rsimp. rewrite app_nth1 by (rewrite repeat_length; lia). apply nth_repeat.
Qed.
Lemma kv2_one i : (c <= i < c + p + 1)%nat -> knR kv i = 1.
Proof.
  intro Hi. unfold kv, compute_knot_vector2, kn. cbv zeta. rsimp.
  rewrite app_nth2 by (rewrite repeat_length; lia). rewrite repeat_length.
  rewrite app_nth2 by (rewrite map_length, seq_length; lia). rewrite map_length, seq_length.
  apply nth_repeat_lt'. lia.
Qed.
Lemma kv2_mid i : (S p <= i < c)%nat ->
  knR kv i = (1 - INR (((i - p) * r) mod q) / INR q) * ub (Nat.pred (((i - p) * r) / q))
             + INR (((i - p) * r) mod q) / INR q * ub (((i - p) * r) / q).
Proof.
  intro Hi. unfold kv, compute_knot_vector2, kn, ub. cbv zeta. rsimp.
  rewrite app_nth2 by (rewrite repeat_length; lia). rewrite repeat_length.
  rewrite app_nth1 by (rewrite map_length, seq_length; lia).
  rewrite nth_map_seq by lia. replace (1 + (i - S p))%nat with (i - p)%nat by lia. rewrite !ofnat_INR. reflexivity.
Qed.

(* knot p + j (0 < j < q) lies in [ub (ii-1), ub ii), ii = floor(j r / q), strictly above ub (ii-1) unless q | j r *)
Lemma kv2_bracket i : (S p <= i < c)%nat ->
  let ii := (((i - p) * r) / q)%nat in let m := (((i - p) * r) mod q)%nat in
  (1 <= ii <= r - 2)%nat /\ ub (ii - 1) <= knR kv i < ub ii /\ ((0 < m)%nat -> ub (ii - 1) < knR kv i).
Proof.
  intros Hi ii m. rewrite kv2_mid by exact Hi. fold ii. fold m.
  assert (Hq0 : (q <> 0)%nat) by lia.
  assert (Hdm : ((i - p) * r = q * ii + m)%nat) by (apply Nat.div_mod; exact Hq0).
  assert (Hm : (m < q)%nat) by (apply Nat.mod_upper_bound; exact Hq0).
  assert (Hii : (1 <= ii <= r - 2)%nat) by (unfold ii; apply floor_bounds; lia).
  split; [exact Hii|].
  replace (Nat.pred ii) with (ii - 1)%nat by lia.
  pose proof (ub_strict ii (ii - 1) ltac:(lia) ltac:(lia)) as Hab.
  set (a := ub (ii - 1)) in *. set (b := ub ii) in *.
  assert (Hqpos : 0 < INR q) by (apply lt_0_INR; lia).
  set (al := INR m / INR q).
  assert (Hal : 0 <= al < 1).
  { unfold al. apply frac_range; [apply pos_INR|apply lt_INR; exact Hm]. }
  split; [split; nra|].
  intros Hmp. assert (0 < al) by (unfold al; apply frac_pos; [apply lt_0_INR; exact Hmp|exact Hqpos]). nra.
Qed.

Lemma kv2_val_range i : (i < c + p + 1)%nat -> 0 <= knR kv i <= 1.
Proof.
  intros Hi. destruct (le_lt_dec i p) as [H|H]; [rewrite kv2_zero by exact H; lra|].
  destruct (le_lt_dec c i) as [H'|H']; [rewrite kv2_one by lia; lra|].
  destruct (kv2_bracket i ltac:(lia)) as (Hii & [B1 B2] & _).
  pose proof (ub_range (((i - p) * r) / q - 1) ltac:(lia)). pose proof (ub_range (((i - p) * r) / q) ltac:(lia)). lra.
Qed.
Lemma kv2_step i : (S i < c + p + 1)%nat -> knR kv i <= knR kv (S i).
Proof.
  intros Hi. destruct (le_lt_dec i p) as [H|H]; [rewrite (kv2_zero i) by exact H; apply kv2_val_range; lia|].
  destruct (le_lt_dec c (S i)) as [H'|H']; [rewrite (kv2_one (S i)) by lia; apply kv2_val_range; lia|].
  destruct (kv2_bracket i ltac:(lia)) as (Hii & [_ B2] & _).
  destruct (kv2_bracket (S i) ltac:(lia)) as (Hii' & [B1' _] & _).
  set (ii := (((i - p) * r) / q)%nat) in *. set (ii' := (((S i - p) * r) / q)%nat) in *.
  assert (Hq0 : (q <> 0)%nat) by lia.
  assert (Hstep : (ii + 1 <= ii')%nat).
  { unfold ii, ii'. replace (S i - p)%nat with ((i - p) + 1)%nat by lia.
    rewrite Nat.mul_add_distr_r, Nat.mul_1_l. apply floor_step; lia. }
  pose proof (ub_mono ii (ii' - 1) ltac:(lia) ltac:(lia)). lra.
Qed.
Lemma kv2_sorted : sortedR kv.
Proof. apply pairwise_sortedR. intros i Hi. rewrite kv2_len in Hi. apply kv2_step, Hi. Qed.
Lemma aU_sorted : sortedF U.
Proof. intros i. apply Ufun_sorted, kv2_sorted. Qed.
Lemma aU_val i : (i < c + p + 1)%nat -> U i = knR kv i.
Proof. intros Hi. unfold U. apply Ufun_in. rewrite kv2_len. exact Hi. Qed.

(* ---- Schoenberg-Whitney for the interior functions 1 .. c-2 with interior parameters *)
Definition cl (j : nat) : nat := (((j - p) * r + q - 1) / q)%nat.
Definition sigma (j : nat) : nat := Nat.max j (cl j).

Lemma cl_spec j : ((j - p) * r <= q * cl j <= (j - p) * r + q - 1)%nat.
Proof. unfold cl. apply ceil_spec. lia. Qed.
Lemma cl_small j : (j <= p)%nat -> cl j = 0%nat.
Proof. intros H. unfold cl. replace (j - p)%nat with 0%nat by lia. cbn [Nat.mul Nat.add]. apply Nat.div_small. lia. Qed.
Lemma sigma_strict j : (sigma j < sigma (S j))%nat.
Proof.
  unfold sigma. destruct (le_lt_dec p j) as [H|H].
  - assert (cl j + 1 <= cl (S j))%nat; [|lia].
    unfold cl. replace (S j - p)%nat with ((j - p) + 1)%nat by lia.
    rewrite Nat.mul_add_distr_r, Nat.mul_1_l. apply ceil_step; lia.
  - rewrite (cl_small j) by lia. lia.
Qed.
Lemma sigma_lt : forall b a, (a < b)%nat -> (sigma a < sigma b)%nat.
Proof.
  induction b as [|b IH]; intros a Hab; [lia|]. pose proof (sigma_strict b).
  destruct (Nat.eq_dec a b) as [->|]; [assumption|]. specialize (IH a ltac:(lia)). lia.
Qed.
Lemma sigma_range j : (1 <= j <= c - 2)%nat -> (1 <= sigma j <= r - 2)%nat.
Proof.
  intros Hj. unfold sigma.
  assert (cl j <= r - 2)%nat; [|lia].
  unfold cl. apply ceil_le; [lia|]. apply range_aux; lia.
Qed.
Lemma sigma_upper j : (1 <= j)%nat -> ((sigma j + 1) * q < (j + 1) * r)%nat.
Proof.
  intros Hj. unfold sigma.
  assert (A : ((j + 1) * q < (j + 1) * r)%nat) by (apply Nat.mul_lt_mono_pos_l; lia).
  destruct (le_lt_dec p j) as [H|H].
  - pose proof (ceil_upper q r p j ltac:(lia) ltac:(lia) Hp H) as B. fold (cl j) in B.
    destruct (Nat.max_spec j (cl j)) as [[_ ->]|[_ ->]]; assumption.
  - rewrite (cl_small j) by lia. rewrite Nat.max_0_r. exact A.
Qed.

(* U_j < ub (sigma j) *)
Lemma sw_left j : (1 <= j <= c - 2)%nat -> U j < ub (sigma j).
Proof.
  intros Hj. pose proof (sigma_range j Hj) as Hs. rewrite aU_val by lia.
  destruct (le_lt_dec j p) as [H|H].
  - rewrite kv2_zero by exact H. apply ub_interior. lia.
  - destruct (kv2_bracket j ltac:(lia)) as (Hii & [_ B2] & _).
    set (ii := (((j - p) * r) / q)%nat) in *.
    assert (ii <= sigma j)%nat.
    { unfold sigma. assert (ii <= cl j)%nat by (unfold ii, cl; apply floor_le_ceil; lia). lia. }
    pose proof (ub_mono ii (sigma j) ltac:(lia) ltac:(lia)). lra.
Qed.
(* ub (sigma j) < U_{j+p+1} *)
Lemma sw_right j : (1 <= j <= c - 2)%nat -> ub (sigma j) < U (j + p + 1)%nat.
Proof.
  intros Hj. pose proof (sigma_range j Hj) as Hs. rewrite aU_val by lia.
  destruct (le_lt_dec c (j + p + 1)) as [H|H].
  - rewrite kv2_one by lia. apply ub_interior. lia.
  - destruct (kv2_bracket (j + p + 1) ltac:(lia)) as (Hii & [B1 _] & B3).
    replace (j + p + 1 - p)%nat with (j + 1)%nat in * by lia.
    set (ii := (((j + 1) * r) / q)%nat) in *. set (m := (((j + 1) * r) mod q)%nat) in *.
    destruct (floor_strict q ((j + 1) * r) (sigma j) ltac:(lia) (sigma_upper j ltac:(lia))) as [Hle Hm]. fold ii in Hle, Hm. fold m in Hm.
    destruct (Nat.eq_dec (sigma j + 1) ii) as [E|Hne].
    + specialize (B3 (Hm E)). replace (ii - 1)%nat with (sigma j) in B3 by lia. exact B3.
    + pose proof (ub_strict (ii - 1) (sigma j) ltac:(lia) ltac:(lia)). lra.
Qed.

(* ---- the interior collocation matrix has a trivial kernel *)
Lemma interior_kernel (x : nat -> R) :
  (forall i, (i < r - 2)%nat -> sumR 0 (c - 2) (fun j => N U p (S j) (ub (S i)) * x j) = 0) ->
  forall j, (j < c - 2)%nat -> x j = 0.
Proof.
  intros HK.
  set (k := (c - 2)%nat).
  set (t := fun l => ub (sigma (S l))).
  set (B := map (fun l => map (fun j => N U p (S j) (t l)) (seq 0 k)) (seq 0 k)).
  assert (LB : length B = k) by (unfold B; rewrite map_length, seq_length; reflexivity).
  assert (EB : forall l j, (l < k)%nat -> (j < k)%nat -> g2 B l j = N U p (S j) (t l)).
  { intros l j Hl Hj. unfold B. rewrite (get2_map_seq' (fun l j => N U p (S j) (t l))) by assumption. reflexivity. }
  assert (Hpiv : forall i, (i < length B)%nat -> g2 (snd (doolittle Rops B)) i i <> 0).
  { apply doolittle_pivots_from_minors. intros m Hm. rewrite LB in Hm.
    assert (0 < leibF (S m) (fun j i => g2 B i j)); [|lra].
    rewrite (leibF_ext (S m) _ (fun j i => N U p (S j) (t i))) by (intros j i Hj Hi; apply EB; lia).
    apply (collocation_minor_pos p (S m) U t S Hp aU_sorted).
    - intros i Hi. unfold t. apply ub_strict; [apply sigma_lt; lia|]. pose proof (sigma_range (S (S i)) ltac:(unfold k in *; lia)). lia.
    - intros i Hi. unfold t. pose proof (sigma_range (S i) ltac:(unfold k in *; lia)) as Hs.
      destruct (find_span_fun U c (ub (sigma (S i)))) as (s & _ & Hsp); [|exists s; exact Hsp].
      rewrite !aU_val by lia. rewrite kv2_zero, kv2_one by lia. pose proof (ub_interior (sigma (S i)) ltac:(lia)). lra.
    - intros j Hj. lia.
    - intros j Hj. apply (N_pos U aU_sorted). left. unfold t. split.
      + apply sw_left. unfold k in *. lia.
      + replace (S j + p + 1)%nat with (S j + p + 1)%nat by lia. apply sw_right. unfold k in *. lia. }
  intros j Hj. apply (doolittle_trivial_kernel B x Hpiv); [|rewrite LB; exact Hj].
  intros l Hl. rewrite LB in *.
  pose proof (sigma_range (S l) ltac:(unfold k in *; lia)) as Hs.
  rewrite <- (HK (sigma (S l) - 1)%nat ltac:(lia)).
  apply sumr_ext. intros j' Hj'. rewrite EB by lia. unfold t. replace (S (sigma (S l) - 1)) with (sigma (S l)) by lia. reflexivity.
Qed.

(* ---- the model's matrices *)
Definition aN : list (list R) := approx_N Rops p c kv params r.
Lemma aN_rect : rect (r - 2) (c - 2) aN.
Proof. unfold aN, approx_N. apply (rect_map_seq (fun i j => basis_function_one Rops p kv j (nth i params 0))). Qed.
Lemma aN_entry i j : (i < r - 2)%nat -> (j < c - 2)%nat -> g2 aN i j = N U p (S j) (ub (S i)).
Proof.
  intros Hi Hj. unfold aN, approx_N.
  rewrite (get2_map_seq' (fun i j => basis_function_one Rops p kv j (nth i params 0))) by assumption.
  cbn [Nat.add]. fold (ub (S i)).
  apply bf_one_is_cox_de_boor_interior; [apply kv2_sorted|rewrite kv2_len; lia|].
  rewrite kv2_len. rewrite kv2_zero by lia. rewrite kv2_one by lia. apply ub_interior. lia.
Qed.

(* [G] the normal-equation matrix of approximate_curve has only non-zero Doolittle pivots *)
Theorem normal_matrix_pivots_nonzero : forall i, (i < c - 2)%nat ->
  g2 (snd (doolittle Rops (mmul Rops (transpose Rops aN) aN))) i i <> 0.
Proof.
  apply (gram_pivots_nonzero aN (r - 2) (c - 2) aN_rect); try lia.
  intros x HK. apply interior_kernel. intros i Hi. rewrite <- (HK i Hi).
  apply sumr_ext. intros j Hj. rewrite aN_entry by lia. reflexivity.
Qed.
End Approx.

(* ------------------------------------------------------------------ statements without the section *)
(* [G] every degree p >= 1, every p + 2 <= c <= r - 1: no zero pivot in the normal equations of approximate_curve *)
Theorem approx_normal_pivots_nonzero : forall (p r c : nat) (params : list R), (1 <= p)%nat -> (p + 2 <= c)%nat -> (c < r)%nat ->
  length params = r -> nth 0 params 0 = 0 -> nth (r - 1) params 0 = 1 ->
  (forall i, (S i < r)%nat -> nth i params 0 < nth (S i) params 0) ->
  forall i, (i < c - 2)%nat ->
    let Nm := approx_N Rops p c (compute_knot_vector2 Rops p r c params) params r in
    g2 (snd (doolittle Rops (mmul Rops (transpose Rops Nm) Nm))) i i <> 0.
Proof. intros p r c params Hp Hc Hr HL H0 H1 Hinc i Hi. exact (normal_matrix_pivots_nonzero p r c params Hp Hc Hr HL H0 H1 Hinc i Hi). Qed.
Print Assumptions approx_normal_pivots_nonzero.

(* [G] Schoenberg-Whitney for the knot vector of Eq 9.69: interior function j = 1 .. c-2 has the interior parameter
   sigma j strictly inside its support, and sigma is strictly increasing *)
Theorem knot_vector2_schoenberg_whitney : forall (p r c : nat) (params : list R), (1 <= p)%nat -> (p + 2 <= c)%nat -> (c < r)%nat ->
  length params = r -> nth 0 params 0 = 0 -> nth (r - 1) params 0 = 1 ->
  (forall i, (S i < r)%nat -> nth i params 0 < nth (S i) params 0) ->
  let kv := compute_knot_vector2 Rops p r c params in
  sortedR kv /\ length kv = (c + p + 1)%nat /\
  (forall j, (sigma p r c j < sigma p r c (S j))%nat) /\
  forall j, (1 <= j <= c - 2)%nat -> (1 <= sigma p r c j <= r - 2)%nat /\
    nth j kv 0 < nth (sigma p r c j) params 0 < nth (j + p + 1) kv 0.
Proof.
  intros p r c params Hp Hc Hr HL H0 H1 Hinc kv.
  split; [exact (kv2_sorted p r c params Hp Hc Hr HL H0 H1 Hinc)|]. split; [exact (kv2_len p r c params Hp Hc Hr HL)|].
  split; [exact (sigma_strict p r c params Hp Hc Hr HL)|].
  intros j Hj. split; [exact (sigma_range p r c params Hp Hc Hr HL j Hj)|].
  pose proof (sw_left p r c params Hp Hc Hr HL H0 H1 Hinc j Hj) as A. pose proof (sw_right p r c params Hp Hc Hr HL H0 H1 Hinc j Hj) as B.
  unfold aU, ub in A, B. rewrite Ufun_in in A, B by (rewrite (kv2_len p r c params Hp Hc Hr HL); lia). exact (conj A B).
Qed.

(* [G] C11, least squares: approximate_curve on data with strictly positive chords, degree p >= 1 and p + 2 <= c <= r - 1 control
   points returns, keeps the end points, and every coordinate of the interior control points minimises the summed squared residual.
   No hypothesis on the pivots. *)
Theorem approximate_curve_least_squares_unconditional : forall (pts : list (list R)) (p c dim : nat) (cds : list R),
  let r := length pts in
  length cds = (r - 1)%nat -> (1 <= p)%nat -> (p + 2 <= c)%nat -> (c < r)%nat -> rect r dim pts -> (forall x, In x cds -> 0 < x) ->
  exists uk X, compute_params_curve Rops cds = Ok uk /\
    approximate_curve Rops pts p c cds = Ok ([nth 0 pts []] ++ X ++ [nth (r - 1) pts []], compute_knot_vector2 Rops p r c uk) /\
    rect (c - 2) dim X /\
    let kv := compute_knot_vector2 Rops p r c uk in
    let Nm := approx_N Rops p c kv uk r in let Rk := approx_Rk Rops p c kv uk pts in
    forall d (X' : nat -> R), (d < dim)%nat ->
      sumR 0 (r - 2) (fun i => (sumR 0 (c - 2) (fun k => g2 Nm i k * g2 X k d) - g2 Rk i d) * (sumR 0 (c - 2) (fun k => g2 Nm i k * g2 X k d) - g2 Rk i d))
      <= sumR 0 (r - 2) (fun i => (sumR 0 (c - 2) (fun k => g2 Nm i k * X' k) - g2 Rk i d) * (sumR 0 (c - 2) (fun k => g2 Nm i k * X' k) - g2 Rk i d)).
Proof.
  intros pts p c dim cds r Hcd Hp Hc Hr Hpts Hpos.
  assert (Hnn : forall x, In x cds -> 0 <= x) by (intros x Hx; left; apply Hpos, Hx).
  assert (Hsum : 0 < sumT Rops cds).
  { apply sumT_pos; [|exact Hpos]. intros E. rewrite E in Hcd. cbn in Hcd. lia. }
  apply approximate_curve_correct; try assumption; try lia.
  intros uk Euk.
  destruct (params_spec cds Hnn Hsum) as (uk' & Euk' & Luk & U0 & U1 & _ & Ustrict & _).
  rewrite Euk in Euk'. injection Euk' as <-.
  fold r. apply approx_normal_pivots_nonzero; try assumption.
  - lia.
  - replace (r - 1)%nat with (length cds) by lia. exact U1.
  - intros i Hi. apply (Ustrict Hpos). lia.
Qed.
Print Assumptions approximate_curve_least_squares_unconditional.
