(* Lemmas about Model.KnotIns / Model.InsertKnot: functional-array folds, the specification of
   knot_insertion_kv, the shape of the control net after knot_insertion, and the closed form of a single
   insertion (num = 1).  Everything here is generic in the scalar type (no field laws needed). *)
From Coq Require Import List Arith Bool Lia Permutation.
From NV Require Import Scalar.Ops Model.Common Model.Basis Model.KnotIns Model.InsertKnot.
Import ListNotations.

(* ---------- functional arrays ---------- *)
Lemma upd_length {A} (l : list A) i x : length (upd l i x) = length l.
Proof. revert i; induction l as [|a l IH]; intros [|i]; cbn; auto. Qed.

Lemma nth_upd_same {A} (l : list A) i x d : i < length l -> nth i (upd l i x) d = x.
Proof. revert i; induction l as [|a l IH]; intros [|i] H; cbn in *; try lia; auto. apply IH; lia. Qed.

Lemma nth_upd_other {A} (l : list A) i j x d : i <> j -> nth j (upd l i x) d = nth j l d.
Proof.
  revert i j; induction l as [|a l IH]; intros [|i] [|j] H; cbn; auto; try lia.
Qed.

Lemma upd_overflow {A} (l : list A) i x : length l <= i -> upd l i x = l.
Proof. revert i; induction l as [|a l IH]; intros [|i] H; cbn in *; auto; try lia. f_equal. apply IH; lia. Qed.

Lemma nth_upd {A} (l : list A) i j x d :
  nth j (upd l i x) d = if andb (Nat.eqb j i) (Nat.ltb i (length l)) then x else nth j l d.
Proof.
  destruct (Nat.eqb_spec j i) as [->|Hne]; cbn [andb].
  - destruct (Nat.ltb_spec i (length l)).
    + apply nth_upd_same; auto.
    + rewrite upd_overflow by lia. reflexivity.
  - apply nth_upd_other; auto.
Qed.

Lemma seq_S_end a n : seq a (S n) = seq a n ++ [a + n].
Proof. rewrite seq_S. reflexivity. Qed.

(* writes whose position and value do not depend on the array *)
Lemma fold_upd_length {A} (f : nat -> nat) (g : nat -> A) l0 : forall is_,
  length (fold_left (fun nw i => upd nw (f i) (g i)) is_ l0) = length l0.
Proof. intros is_; revert l0; induction is_ as [|i is_ IH]; intros l0; cbn; auto. rewrite IH, upd_length; auto. Qed.

Lemma nth_fold_upd_shift {A} (c : nat) (g : nat -> A) d : forall n a l0 j,
  nth j (fold_left (fun nw i => upd nw (i + c) (g i)) (seq a n) l0) d =
  if andb (andb (Nat.leb (a + c) j) (Nat.ltb j (a + n + c))) (Nat.ltb j (length l0)) then g (j - c) else nth j l0 d.
Proof.
  induction n as [|n IH]; intros a l0 j.
  - cbn [seq fold_left]. destruct (Nat.leb_spec (a + c) j); destruct (Nat.ltb_spec j (a + 0 + c)); cbn [andb]; auto; lia.
  - rewrite seq_S_end, fold_left_app. cbn [fold_left]. rewrite nth_upd, fold_upd_length, IH.
    destruct (Nat.eqb_spec j (a + n + c)) as [->|Hne]; cbn [andb].
    + destruct (Nat.ltb_spec (a + n + c) (length l0)); cbn [andb].
      * destruct (Nat.leb_spec (a + c) (a + n + c)); destruct (Nat.ltb_spec (a + n + c) (a + S n + c)); try lia.
        cbn [andb]. f_equal. lia.
      * destruct (Nat.leb_spec (a + c) (a + n + c)); destruct (Nat.ltb_spec (a + n + c) (a + n + c));
        destruct (Nat.ltb_spec (a + n + c) (a + S n + c)); cbn [andb]; auto; lia.
    + destruct (Nat.leb_spec (a + c) j); destruct (Nat.ltb_spec j (a + n + c)); destruct (Nat.ltb_spec j (a + S n + c));
      cbn [andb]; auto; lia.
Qed.

Lemma fold_left_ext {A B} (f g : A -> B -> A) : (forall a b, f a b = g a b) -> forall l a, fold_left f l a = fold_left g l a.
Proof. intros H l; induction l as [|b l IH]; intros a; cbn; auto. rewrite H. apply IH. Qed.

Lemma nth_fold_upd_copy {A} (g : nat -> A) d n a l0 j :
  nth j (fold_left (fun nw i => upd nw i (g i)) (seq a n) l0) d =
  if andb (andb (Nat.leb a j) (Nat.ltb j (a + n))) (Nat.ltb j (length l0)) then g j else nth j l0 d.
Proof.
  rewrite (fold_left_ext _ (fun nw i => upd nw (i + 0) (g i))) by (intros; rewrite Nat.add_0_r; reflexivity).
  rewrite nth_fold_upd_shift. rewrite !Nat.add_0_r, Nat.sub_0_r. reflexivity.
Qed.

Lemma nth_firstn_lt {A} (l : list A) : forall n i d, i < n -> nth i (firstn n l) d = nth i l d.
Proof. induction l as [|a l IH]; intros [|n] [|i] d H; cbn; auto; try lia. apply IH; lia. Qed.
Lemma nth_skipn_add {A} (l : list A) : forall n i d, nth i (skipn n l) d = nth (n + i) l d.
Proof. induction l as [|a l IH]; intros [|n] i d; cbn; auto. destruct i; auto. Qed.
Lemma nth_repeat_lt {A} (a d : A) : forall m i, i < m -> nth i (repeat a m) d = a.
Proof. induction m as [|m IH]; intros [|i] H; cbn; auto; try lia. apply IH; lia. Qed.

(* ---------- knot_insertion_kv: U with r copies of u after index k ---------- *)
Section KV.
Context {T : Type}.
Implicit Types (U : list T) (u : T).

Lemma kv_length U u k r : length (knot_insertion_kv U u k r) = length U + r.
Proof.
  unfold knot_insertion_kv. rewrite !app_length, repeat_length.
  pose proof (firstn_skipn (S k) U) as H. apply (f_equal (@length T)) in H. rewrite app_length in H. lia.
Qed.

Lemma kv_nth U u k r i d : k < length U ->
  nth i (knot_insertion_kv U u k r) d = if Nat.leb i k then nth i U d else if Nat.leb i (k + r) then u else nth (i - r) U d.
Proof.
  intros Hk. unfold knot_insertion_kv.
  assert (Hf : length (firstn (S k) U) = S k) by (rewrite firstn_length; lia).
  destruct (Nat.leb_spec i k).
  - rewrite app_nth1 by lia. apply nth_firstn_lt. lia.
  - rewrite app_nth2 by lia. rewrite Hf.
    destruct (Nat.leb_spec i (k + r)).
    + rewrite app_nth1 by (rewrite repeat_length; lia). apply nth_repeat_lt. lia.
    + rewrite app_nth2 by (rewrite repeat_length; lia). rewrite repeat_length, nth_skipn_add. f_equal. lia.
Qed.

Lemma kv_perm U u k r : Permutation (knot_insertion_kv U u k r) (repeat u r ++ U).
Proof.
  unfold knot_insertion_kv. rewrite <- (firstn_skipn (S k) U) at 3.
  rewrite app_assoc. rewrite app_assoc. apply Permutation_app_tail. apply Permutation_app_comm.
Qed.
End KV.

(* ---------- the in-place lerp scan over the local array ---------- *)
Definition scan_step {A} (dA : A) (h : nat -> A -> A -> A) (tp : list A) (i : nat) : list A :=
  upd tp i (h i (nth i tp dA) (nth (S i) tp dA)).
Section Scan.
Context {A : Type} (dA : A) (h : nat -> A -> A -> A).
Notation stepf := (scan_step dA h).

Lemma scan_length : forall is_ tp, length (fold_left stepf is_ tp) = length tp.
Proof. induction is_ as [|i is_ IH]; intros tp; cbn; auto. rewrite IH. apply upd_length. Qed.

Lemma scan_nth : forall n tp0 m, n <= length tp0 ->
  nth m (fold_left stepf (seq 0 n) tp0) dA = if Nat.ltb m n then h m (nth m tp0 dA) (nth (S m) tp0 dA) else nth m tp0 dA.
Proof.
  induction n as [|n IH]; intros tp0 m Hn.
  - cbn. reflexivity.
  - rewrite seq_S_end, fold_left_app. cbn [fold_left]. unfold scan_step at 1. cbn [Nat.add].
    rewrite nth_upd, scan_length. rewrite !IH by lia.
    destruct (Nat.ltb_spec n n); try lia. destruct (Nat.ltb_spec (S n) n); try lia.
    destruct (Nat.eqb_spec m n) as [->|Hne]; cbn [andb].
    + destruct (Nat.ltb_spec n (length tp0)); try lia. destruct (Nat.ltb_spec n (S n)); try lia. reflexivity.
    + destruct (Nat.ltb_spec m n); destruct (Nat.ltb_spec m (S n)); auto; lia.
Qed.
End Scan.

Lemma fold_left_inv_in {A B} (I : A -> Prop) (f : A -> B -> A) : forall l a,
  I a -> (forall a b, In b l -> I a -> I (f a b)) -> I (fold_left f l a).
Proof.
  induction l as [|b l IH]; intros a Ha Hstep; cbn; auto.
  apply IH. apply Hstep; [left; reflexivity|exact Ha]. intros a' b' Hin. apply Hstep. right; exact Hin.
Qed.

(* ---------- knot_insertion_g: size and frame (general num) ---------- *)
Section Frame.
Context {T : Type} (K : ops T) {A : Type} (lerpA : T -> A -> A -> A) (dA : A).
Variables (p : nat) (U : list T) (P : list A) (u : T) (num s k : nat).
Hypothesis Hsp : s <= p.
Hypothesis Hpk : p <= k.
Hypothesis Hk : k < length P.
Hypothesis Hnum : num <= p - s.
Notation getA := (getA dA).
Notation res_ := (knot_insertion_g K lerpA dA p U P u num s k).

Lemma ki_frame :
  length res_ = length P + num /\
  (forall i, i <= k - p -> getA res_ i = getA P i) /\
  (forall i, k - s <= i -> i < length P -> getA res_ (i + num) = getA P i).
Proof.
  unfold knot_insertion_g.
  set (np := length P).
  set (new0 := repeat dA (np + num)).
  set (new1 := fold_left (fun nw i => upd nw i (getA P i)) (seq 0 (S (k - p))) new0).
  set (new2 := fold_left (fun nw i => upd nw (i + num) (getA P i)) (seq (k - s) (np - (k - s))) new1).
  set (temp0 := map (fun i => getA P (k - p + i)) (seq 0 (S (p - s)))).
  set (body := fun (st : list A * list A) (j : nat) => _).
  assert (Hlen2 : length new2 = np + num).
  { unfold new2, new1, new0. rewrite !fold_upd_length. apply repeat_length. }
  assert (Hn2a : forall i, i <= k - p -> nth i new2 dA = getA P i).
  { intros i Hi. unfold new2. rewrite nth_fold_upd_shift.
    destruct (Nat.leb_spec (k - s + num) i); cbn [andb]; [|].
    - destruct (Nat.eq_dec num 0) as [->|Hn0].
      + (* num = 0: the shifted copy writes the same values *)
        destruct (Nat.ltb_spec i (k - s + (np - (k - s)) + 0)); cbn [andb].
        * destruct (Nat.ltb_spec i (length new1)); [f_equal; lia|].
          unfold new1 in *. rewrite fold_upd_length in *. unfold new0 in *. rewrite repeat_length in *. lia.
        * lia.
      + lia.
    - unfold new1. rewrite nth_fold_upd_copy. unfold new0. rewrite repeat_length.
      destruct (Nat.leb_spec 0 i); destruct (Nat.ltb_spec i (0 + S (k - p))); destruct (Nat.ltb_spec i (np + num)); cbn [andb]; auto; lia. }
  assert (Hn2b : forall i, k - s <= i -> i < np -> nth (i + num) new2 dA = getA P i).
  { intros i Hi Hi2. unfold new2. rewrite nth_fold_upd_shift.
    unfold new1. rewrite fold_upd_length. unfold new0. rewrite repeat_length.
    destruct (Nat.leb_spec (k - s + num) (i + num)); destruct (Nat.ltb_spec (i + num) (k - s + (np - (k - s)) + num));
    destruct (Nat.ltb_spec (i + num) (np + num)); cbn [andb]; try lia. f_equal. lia. }
  (* the loop only writes strictly inside (k-p, k-s+num) *)
  set (I := fun (st : list A * list A) => length (fst st) = np + num /\
             forall i, (i <= k - p \/ k - s + num <= i) -> nth i (fst st) dA = nth i new2 dA).
  assert (HI : I (fold_left body (seq 1 num) (new2, temp0))).
  { apply fold_left_inv_in.
    - split; auto.
    - intros [nw tp] j Hin [HL HF]. apply in_seq in Hin. cbn [fst] in *. unfold body, I. cbn [fst].
      split.
      + rewrite !upd_length. exact HL.
      + intros i Hi. rewrite !nth_upd_other by lia. apply HF. exact Hi. }
  destruct (fold_left body (seq 1 num) (new2, temp0)) as [new3 temp] eqn:E.
  destruct HI as [HL HF]. cbn [fst] in *.
  split; [|split].
  - rewrite fold_upd_length. exact HL.
  - intros i Hi. unfold InsertKnot.getA at 1. rewrite nth_fold_upd_copy.
    destruct (Nat.leb_spec (S (k - p + num)) i); cbn [andb]; try lia.
    rewrite HF by lia. apply Hn2a. exact Hi.
  - intros i Hi Hi2. unfold InsertKnot.getA at 1. rewrite nth_fold_upd_copy.
    destruct (Nat.ltb_spec (i + num) (S (k - p + num) + (k - s - S (k - p + num)))); try lia.
    + destruct (Nat.leb_spec (S (k - p + num)) (i + num)); cbn [andb]; try lia.
      rewrite HF by lia. apply Hn2b; auto.
    + rewrite Bool.andb_false_r. cbn [andb]. rewrite HF by lia. apply Hn2b; auto.
Qed.
End Frame.

(* ---------- closed form of a single insertion (num = 1) ---------- *)
Section Single.
Context {T : Type} (K : ops T) {A : Type} (lerpA : T -> A -> A -> A) (dA : A).
Variables (p : nat) (U : list T) (P : list A) (u : T) (s k : nat).
Hypothesis Hsp : s < p.
Hypothesis Hpk : p <= k.
Hypothesis Hk : k < length P.
Notation getA := (getA dA).

Theorem knot_insertion_g1_nth i :
  getA (knot_insertion_g K lerpA dA p U P u 1 s k) i =
  if Nat.leb i (k - p) then getA P i
  else if Nat.leb i (k - s) then lerpA (ins_alpha K U u k (i - (k - p + 1)) (k - p + 1)) (getA P (i - 1)) (getA P i)
  else getA P (i - 1).
Proof.
  destruct (ki_frame K lerpA dA p U P u 1 s k ltac:(lia) Hpk Hk ltac:(lia)) as [HL [Ha Hb]].
  destruct (Nat.leb_spec i (k - p)) as [H1|H1]; [apply Ha; exact H1|].
  destruct (Nat.leb_spec i (k - s)) as [H2|H2].
  2:{ destruct (Nat.ltb_spec (i - 1) (length P)) as [H3|H3].
      - replace i with (i - 1 + 1) at 1 by lia. apply Hb; lia.
      - unfold InsertKnot.getA. rewrite !nth_overflow; auto; lia. }
  (* the window k-p < i <= k-s *)
  unfold knot_insertion_g.
  set (np := length P).
  set (new0 := repeat dA (np + 1)).
  set (new1 := fold_left (fun nw i => upd nw i (getA P i)) (seq 0 (S (k - p))) new0).
  set (new2 := fold_left (fun nw i => upd nw (i + 1) (getA P i)) (seq (k - s) (np - (k - s))) new1).
  set (temp0 := map (fun i => getA P (k - p + i)) (seq 0 (S (p - s)))).
  change (seq 1 1) with [1]. cbn [fold_left].
  set (L := k - p + 1).
  set (h := fun i x y => lerpA (ins_alpha K U u k i L) x y).
  change (fold_left _ (seq 0 (S (p - 1 - s))) temp0) with (fold_left (scan_step dA h) (seq 0 (S (p - 1 - s))) temp0).
  set (temp' := fold_left (scan_step dA h) (seq 0 (S (p - 1 - s))) temp0).
  assert (Hl0 : length temp0 = S (p - s)) by (unfold temp0; rewrite map_length, seq_length; reflexivity).
  assert (Ht0 : forall m, m <= p - s -> nth m temp0 dA = getA P (k - p + m)).
  { intros m Hm. unfold temp0.
    rewrite (nth_indep _ dA (getA P (k - p + 0))) by (rewrite map_length, seq_length; lia).
    rewrite (map_nth (fun i => getA P (k - p + i)) (seq 0 (S (p - s))) 0 m).
    rewrite seq_nth by lia. reflexivity. }
  assert (Ht' : forall m, m < p - s -> nth m temp' dA = h m (getA P (k - p + m)) (getA P (k - p + S m))).
  { intros m Hm. unfold temp'. rewrite scan_nth by lia.
    destruct (Nat.ltb_spec m (S (p - 1 - s))); try lia. rewrite !Ht0 by lia. reflexivity. }
  assert (Hlen2 : length new2 = np + 1).
  { unfold new2, new1, new0. rewrite !fold_upd_length. apply repeat_length. }
  unfold InsertKnot.getA at 1. rewrite nth_fold_upd_copy. rewrite !upd_length.
  assert (Hgoal : nth (i - L) temp' dA = lerpA (ins_alpha K U u k (i - L) L) (getA P (i - 1)) (getA P i)).
  { rewrite Ht' by (unfold L; lia). unfold h, L. f_equal; f_equal; lia. }
  replace (k + 1 - 1 - s) with (k - s) by lia.
  destruct (Nat.leb_spec (S L) i); cbn [andb].
  - destruct (Nat.ltb_spec i (S L + (k - s - S L))); cbn [andb].
    + destruct (Nat.ltb_spec i (length new2)); try lia. exact Hgoal.
    + (* i = k - s *)
      assert (i = k - s) by (unfold L in *; lia). subst i.
      rewrite nth_upd_same by (rewrite upd_length; lia).
      rewrite <- Hgoal. unfold InsertKnot.getA. f_equal. unfold L. lia.
  - (* i = L *)
    assert (i = L) by (unfold L in *; lia). subst i.
    destruct (Nat.eq_dec L (k - s)) as [E|E].
    + rewrite <- E. rewrite nth_upd_same by (rewrite upd_length; lia).
      rewrite <- Hgoal. unfold InsertKnot.getA. f_equal. unfold L in *. lia.
    + rewrite nth_upd_other by lia. rewrite nth_upd_same by lia.
      rewrite <- Hgoal. unfold InsertKnot.getA. f_equal. lia.
Qed.

Lemma knot_insertion_g1_length : length (knot_insertion_g K lerpA dA p U P u 1 s k) = S (length P).
Proof. destruct (ki_frame K lerpA dA p U P u 1 s k ltac:(lia) Hpk Hk ltac:(lia)) as [HL _]. lia. Qed.
End Single.

Lemma combine_nth_lt {A B} (l : list A) : forall (l' : list B) n x y, n < length l -> n < length l' ->
  nth n (combine l l') (x, y) = (nth n l x, nth n l' y).
Proof. induction l as [|a l IH]; intros [|b l'] [|n] x y H1 H2; cbn in *; try lia; auto. apply IH; lia. Qed.

(* ---------- the point instance: KnotIns.knot_insertion ---------- *)
Section Points.
Context {T : Type} (K : ops T).

Lemma knot_insertion_is_g p U (P : list (list T)) u num s k :
  knot_insertion K p U P u num s k = knot_insertion_g K (lerp K) [] p U P u num s k.
Proof. reflexivity. Qed.

Lemma knot_insertion_frame p U (P : list (list T)) u num s k :
  s <= p -> p <= k -> k < length P -> num <= p - s ->
  length (knot_insertion K p U P u num s k) = length P + num /\
  (forall i, i <= k - p -> getp (knot_insertion K p U P u num s k) i = getp P i) /\
  (forall i, k - s <= i -> i < length P -> getp (knot_insertion K p U P u num s k) (i + num) = getp P i).
Proof. intros. rewrite knot_insertion_is_g. apply (ki_frame K (lerp K) []); auto. Qed.

Theorem knot_insertion1_nth p U (P : list (list T)) u s k i :
  s < p -> p <= k -> k < length P ->
  getp (knot_insertion K p U P u 1 s k) i =
  if Nat.leb i (k - p) then getp P i
  else if Nat.leb i (k - s) then lerp K (ins_alpha K U u k (i - (k - p + 1)) (k - p + 1)) (getp P (i - 1)) (getp P i)
  else getp P (i - 1).
Proof. intros. rewrite knot_insertion_is_g. apply (knot_insertion_g1_nth K (lerp K) []); auto. Qed.

Lemma knot_insertion1_length p U (P : list (list T)) u s k :
  s < p -> p <= k -> k < length P -> length (knot_insertion K p U P u 1 s k) = S (length P).
Proof. intros. rewrite knot_insertion_is_g. apply (knot_insertion_g1_length K (lerp K) []); auto. Qed.

Lemma knot_insertion_kv_nth (U : list T) u k r i : k < length U ->
  kn K (knot_insertion_kv U u k r) i = if Nat.leb i k then kn K U i else if Nat.leb i (k + r) then u else kn K U (i - r).
Proof. intros. unfold kn. apply kv_nth; auto. Qed.

(* coordinates of a lerp *)
Lemma lerp_nth alpha (a b : list T) c : c < length a -> c < length b ->
  nth c (lerp K alpha a b) (o0 K) = oadd K (omul K alpha (nth c b (o0 K))) (omul K (osub K (o1 K) alpha) (nth c a (o0 K))).
Proof.
  intros Ha Hb. unfold lerp.
  set (f := fun ab : T * T => oadd K (omul K alpha (snd ab)) (omul K (osub K (o1 K) alpha) (fst ab))).
  rewrite (nth_indep _ (o0 K) (f (o0 K, o0 K))) by (rewrite map_length, combine_length; lia).
  rewrite (map_nth f). rewrite combine_nth_lt by lia. reflexivity.
Qed.
Lemma lerp_length alpha (a b : list T) : length (lerp K alpha a b) = Nat.min (length a) (length b).
Proof. unfold lerp. rewrite map_length, combine_length. reflexivity. Qed.
End Points.

(* ---------- an inadmissible single-direction insertion is rejected and leaves the object unchanged ---------- *)
From Coq Require Import ZArith.
(* object state after a wrapper call that may have raised: the old state when it raised *)
Definition okor_ {A} (r : res A) (d : A) : A := match r with Ok a => a | _ => d end.
Section Reject.
Context {T : Type} (K : ops T).

Lemma nums_ok_nat pdim (l : list nat) : length l = pdim -> nums_ok pdim (map Z.of_nat l) = true.
Proof.
  intros H. unfold nums_ok. rewrite map_length, H, Nat.eqb_refl. cbn [andb].
  apply forallb_forall. intros z Hz. apply in_map_iff in Hz. destruct Hz as [n [<- _]].
  apply Bool.negb_true_iff. apply Z.ltb_ge. lia.
Qed.

Lemma dir_prep_reject tol p U size u num :
  p - find_multiplicity K tol u U < num -> dir_prep K tol true p U size (Some u) num = Some None.
Proof.
  intros H. unfold dir_prep. destruct (Nat.eqb_spec num 0); [lia|]. cbn [andb].
  destruct (Nat.ltb_spec (p - find_multiplicity K tol u U) num); [reflexivity|lia].
Qed.

Lemma dir_prep_none tol check p U size num : dir_prep K tol check p U size None num = None.
Proof. reflexivity. Qed.

Theorem insert_knot_curve_rejected tol c u num :
  c_p c - find_multiplicity K tol u (c_U c) < num ->
  insert_knot_curve K tol true c [Some u] [Z.of_nat num] = (c, true).
Proof.
  intros H. unfold insert_knot_curve.
  change [Z.of_nat num] with (map Z.of_nat [num]).
  rewrite (nums_ok_nat 1 [num]) by reflexivity. cbn [andb negb map]. unfold numat, parat. cbn [nth].
  rewrite Nat2Z.id. rewrite dir_prep_reject by exact H. reflexivity.
Qed.

Theorem insert_knot_surf_rejected_u tol g u num nv :
  s_pu g - find_multiplicity K tol u (s_Uu g) < num ->
  insert_knot_surf K tol true g [Some u; None] [Z.of_nat num; Z.of_nat nv] = (g, true).
Proof.
  intros H. unfold insert_knot_surf.
  change [Z.of_nat num; Z.of_nat nv] with (map Z.of_nat [num; nv]).
  rewrite (nums_ok_nat 2 [num; nv]) by reflexivity. cbn [andb negb map]. unfold numat, parat. cbn [nth].
  rewrite Nat2Z.id. rewrite dir_prep_reject by exact H. reflexivity.
Qed.

Theorem insert_knot_surf_rejected_v tol g v num nu :
  s_pv g - find_multiplicity K tol v (s_Uv g) < num ->
  insert_knot_surf K tol true g [None; Some v] [Z.of_nat nu; Z.of_nat num] = (g, true).
Proof.
  intros H. unfold insert_knot_surf.
  change [Z.of_nat nu; Z.of_nat num] with (map Z.of_nat [nu; num]).
  rewrite (nums_ok_nat 2 [nu; num]) by reflexivity. cbn [andb negb map]. unfold numat, parat. cbn [nth].
  rewrite !Nat2Z.id. rewrite dir_prep_none. rewrite dir_prep_reject by exact H. reflexivity.
Qed.

Theorem insert_knot_vol_rejected_u tol g u num nv nw :
  v_pu g - find_multiplicity K tol u (v_Uu g) < num ->
  insert_knot_vol K tol true g [Some u; None; None] [Z.of_nat num; Z.of_nat nv; Z.of_nat nw] = (g, true).
Proof.
  intros H. unfold insert_knot_vol.
  change [Z.of_nat num; Z.of_nat nv; Z.of_nat nw] with (map Z.of_nat [num; nv; nw]).
  rewrite (nums_ok_nat 3 [num; nv; nw]) by reflexivity. cbn [andb negb map]. unfold numat, parat. cbn [nth].
  rewrite Nat2Z.id. rewrite dir_prep_reject by exact H. reflexivity.
Qed.

Theorem insert_knot_vol_rejected_v tol g v num nu nw :
  v_pv g - find_multiplicity K tol v (v_Uv g) < num ->
  insert_knot_vol K tol true g [None; Some v; None] [Z.of_nat nu; Z.of_nat num; Z.of_nat nw] = (g, true).
Proof.
  intros H. unfold insert_knot_vol.
  change [Z.of_nat nu; Z.of_nat num; Z.of_nat nw] with (map Z.of_nat [nu; num; nw]).
  rewrite (nums_ok_nat 3 [nu; num; nw]) by reflexivity. cbn [andb negb map]. unfold numat, parat. cbn [nth].
  rewrite !Nat2Z.id. rewrite dir_prep_none. rewrite dir_prep_reject by exact H. reflexivity.
Qed.

Theorem insert_knot_vol_rejected_w tol g w num nu nv :
  v_pw g - find_multiplicity K tol w (v_Uw g) < num ->
  insert_knot_vol K tol true g [None; None; Some w] [Z.of_nat nu; Z.of_nat nv; Z.of_nat num] = (g, true).
Proof.
  intros H. unfold insert_knot_vol.
  change [Z.of_nat nu; Z.of_nat nv; Z.of_nat num] with (map Z.of_nat [nu; nv; num]).
  rewrite (nums_ok_nat 3 [nu; nv; num]) by reflexivity. cbn [andb negb map]. unfold numat, parat. cbn [nth].
  rewrite !Nat2Z.id. rewrite !dir_prep_none. rewrite dir_prep_reject by exact H. reflexivity.
Qed.

(* the object wrappers: whatever the outcome (exception of the parameter check, or the swallowed
   GeomdlException of the operation) the object state is the old one *)
Theorem curve_wrapper_rejected tol norm c u num :
  c_p c - find_multiplicity K tol u (c_U c) < num ->
  okor_ (curve_insert_knot K tol norm c (Some u) (Z.of_nat num) true) c = c.
Proof.
  intros H. unfold curve_insert_knot. destruct (andb norm _); [reflexivity|].
  rewrite insert_knot_curve_rejected by exact H. reflexivity.
Qed.
End Reject.

(* ---------- the accepted case of operations.insert_knot on a surface, u direction ---------- *)
Section Accept.
Context {T : Type} (K : ops T).
Theorem insert_knot_surf_accept_u_gen tol (g : surf (T:=T)) t num :
  1 <= num -> num <= s_pu g - find_multiplicity K tol t (s_Uu g) ->
  insert_knot_surf K tol true g [Some t; None] [Z.of_nat num; 0%Z] =
  (mkS (s_pu g) (s_pv g) (knot_insertion_kv (s_Uu g) t (find_span_linear K (s_pu g) (s_Uu g) (s_su g) t) num) (s_Uv g)
       (s_su g + num) (s_sv g)
       (surf_net_u K g t num (find_multiplicity K tol t (s_Uu g)) (find_span_linear K (s_pu g) (s_Uu g) (s_su g) t)), false).
Proof.
  intros H1 H2. unfold insert_knot_surf.
  change [Z.of_nat num; 0%Z] with (map Z.of_nat [num; 0]).
  rewrite (nums_ok_nat 2 [num; 0]) by reflexivity. cbn [andb negb map]. unfold numat, parat. cbn [nth].
  rewrite Nat2Z.id. unfold dir_prep at 1.
  destruct (Nat.eqb_spec num 0); [lia|]. cbn [andb].
  destruct (Nat.ltb_spec (s_pu g - find_multiplicity K tol t (s_Uu g)) num); [lia|].
  cbn [s_pv s_Uv s_sv]. reflexivity.
Qed.
End Accept.

Section AcceptCurve.
Context {T : Type} (K : ops T).
Theorem insert_knot_curve_accept tol (c : curve (T:=T)) t num :
  1 <= num -> num <= c_p c - find_multiplicity K tol t (c_U c) ->
  insert_knot_curve K tol true c [Some t] [Z.of_nat num] =
  (mkC (c_p c) (knot_insertion_kv (c_U c) t (find_span_linear K (c_p c) (c_U c) (length (c_P c)) t) num)
       (knot_insertion K (c_p c) (c_U c) (c_P c) t num (find_multiplicity K tol t (c_U c))
          (find_span_linear K (c_p c) (c_U c) (length (c_P c)) t)), false).
Proof.
  intros H1 H2. unfold insert_knot_curve.
  change [Z.of_nat num] with (map Z.of_nat [num]).
  rewrite (nums_ok_nat 1 [num]) by reflexivity. cbn [andb negb map]. unfold numat, parat. cbn [nth].
  rewrite Nat2Z.id. unfold dir_prep.
  destruct (Nat.eqb_spec num 0); [lia|]. cbn [andb].
  destruct (Nat.ltb_spec (c_p c - find_multiplicity K tol t (c_U c)) num); [lia|]. reflexivity.
Qed.
End AcceptCurve.
