(* C18: convex hull of the active control points, bounding box, clamped end points, chord <= polyline. *)
From Coq Require Import List Reals Lra Lia Arith Bool.
From NV Require Import Scalar.Ops Model.Common Model.Basis Model.Knots Model.Eval Model.Homog Model.Hull
  Proofs.BasisR Proofs.LinComb Proofs.HomogR.
Import ListNotations.
Open Scope R_scope.

(* ---- partition of unity / non-negativity on a CLOSED non-empty span  U_span <= u <= U_{span+1}, U_span < U_{span+1}
        (the evaluators use the last span at the right end of the domain) ---- *)
Section BC.
Variables (U : list R) (u : R) (span : nat).
Hypothesis Usorted : sortedR U.
Hypothesis Hspan : knR U span <= u <= knR U (span + 1).
Hypothesis Hne : knR U span < knR U (span + 1).

Lemma denom_pos_c j r : (r < j)%nat -> (j <= span)%nat -> (span + j < length U)%nat ->
  0 < Basis.right Rops U span u (S r) + Basis.left Rops U span u (j-r).
Proof.
  intros Hr Hj HL. unfold Basis.left, Basis.right. rsimp.
  assert (knR U (span + 1 - (j - r)) <= knR U span) by (apply Usorted; lia).
  assert (knR U (span + 1) <= knR U (span + S r)) by (apply Usorted; lia).
  lra.
Qed.
Lemma right_nonneg_c r : (span + S r < length U)%nat -> 0 <= Basis.right Rops U span u (S r).
Proof. intros. unfold Basis.right. rsimp. assert (knR U (span + 1) <= knR U (span + S r)) by (apply Usorted; lia). lra. Qed.
Lemma left_nonneg_c j : (1 <= j)%nat -> (span + 1 < length U)%nat -> 0 <= Basis.left Rops U span u j.
Proof. intros. unfold Basis.left. rsimp. assert (knR U (span + 1 - j) <= knR U span) by (apply Usorted; lia). lra. Qed.

Lemma inner_sum_c j : (j <= span)%nat -> (span + j < length U)%nat -> forall Nold r saved, (r + length Nold = j)%nat ->
  sumT Rops (Basis.inner Rops U span u j r Nold saved) = saved + sumT Rops Nold.
Proof.
  intros Hj HL. induction Nold as [|x rest IH]; intros r saved Hlen'; cbn [Basis.inner sumT]; rsimp.
  - lra.
  - rewrite IH by (simpl in Hlen'; lia).
    assert (0 < Basis.right Rops U span u (S r) + Basis.left Rops U span u (j-r)) by (apply denom_pos_c; simpl in Hlen'; lia).
    field. lra.
Qed.
Lemma inner_length_c j : forall l r s, length (Basis.inner Rops U span u j r l s) = S (length l).
Proof. induction l; simpl; intros; auto. Qed.
Lemma bf_length_c p : length (basis_function Rops p U span u) = S p.
Proof. induction p; simpl; auto. rewrite inner_length_c, IHp. reflexivity. Qed.

Theorem bf_partition_unity_closed p : (p <= span)%nat -> (span + p < length U)%nat -> sumT Rops (basis_function Rops p U span u) = 1.
Proof.
  induction p; intros Hp HL; cbn [basis_function].
  - cbn. lra.
  - rewrite inner_sum_c; try lia. rewrite IHp; try lia. rsimp. lra. rewrite bf_length_c. lia.
Qed.

Lemma inner_nonneg_c j : (1 <= j <= span)%nat -> (span + j < length U)%nat -> forall Nold r saved, (r + length Nold = j)%nat ->
  0 <= saved -> Forall (fun x => 0 <= x) Nold -> Forall (fun x => 0 <= x) (Basis.inner Rops U span u j r Nold saved).
Proof.
  intros Hj HL. induction Nold as [|x rest IH]; intros r saved Hlen Hs HN; cbn [Basis.inner].
  - constructor; auto.
  - cbn [length] in Hlen. apply Forall_cons_iff in HN; destruct HN as [Hx Hrest].
    assert (Hd : 0 < Basis.right Rops U span u (S r) + Basis.left Rops U span u (j-r)) by (apply denom_pos_c; lia).
    assert (Hr : 0 <= Basis.right Rops U span u (S r)) by (apply right_nonneg_c; lia).
    assert (Hl : 0 <= Basis.left Rops U span u (j - r)) by (apply left_nonneg_c; lia).
    rsimp.
    assert (Ht : 0 <= x / (Basis.right Rops U span u (S r) + Basis.left Rops U span u (j - r))).
    { apply Rmult_le_pos; [exact Hx|]. left. apply Rinv_0_lt_compat. exact Hd. }
    constructor.
    + apply Rplus_le_le_0_compat; [exact Hs|]. apply Rmult_le_pos; lra.
    + apply IH; try lia; auto. apply Rmult_le_pos; lra.
Qed.

Theorem bf_nonneg_closed p : (p <= span)%nat -> (span + p < length U)%nat ->
  Forall (fun x => 0 <= x) (basis_function Rops p U span u).
Proof.
  induction p; intros Hp HL; cbn [basis_function].
  - constructor; [rsimp; lra|constructor].
  - apply inner_nonneg_c; try lia.
    + rewrite bf_length_c. lia.
    + rsimp. lra.
    + apply IHp; lia.
Qed.

(* the form used with the accumulation loops: coefficients indexed 0..p *)
Lemma bf_coeffs p : (p <= span)%nat -> (span + p < length U)%nat ->
  let Ns := basis_function Rops p U span u in
  Sg (fun i => nth i Ns 0) (seq 0 (S p)) = 1 /\ forall i, 0 <= nth i Ns 0.
Proof.
  intros Hp HL Ns. split.
  - rewrite <- (bf_length_c p). fold Ns. rewrite <- sumT_Sg. apply bf_partition_unity_closed; assumption.
  - intros i. destruct (lt_dec i (length Ns)) as [Hi|Hi].
    + pose proof (bf_nonneg_closed p Hp HL) as HF. rewrite Forall_forall in HF. apply HF. apply nth_In. exact Hi.
    + rewrite nth_overflow by lia. lra.
Qed.
End BC.

(* ---- the span chosen by the evaluator is a closed non-empty span containing u ---- *)
Definition in_domain (p : nat) (U : list R) (n : nat) (u : R) : Prop :=
  knR U p <= u <= knR U n /\ knR U (n - 1) < knR U n.

Lemma span_closed U u p n : sortedR U -> (p < n)%nat -> (n < length U)%nat -> in_domain p U n u ->
  let k := find_span_linear Rops p U n u in
  (p <= k < n)%nat /\ knR U k <= u <= knR U (k + 1) /\ knR U k < knR U (k + 1).
Proof.
  intros Hs Hn HL [[Hlo Hhi] Hlast] k.
  destruct (find_span_linear_spec U u p n Hn HL Hlo) as [Hk [H1 H2]]. fold k in Hk, H1, H2.
  split; [exact Hk|]. replace (k + 1)%nat with (S k) by lia.
  destruct H2 as [H2|[H2 H3]].
  - split; lra.
  - subst k. rewrite H2 in *. replace (S (n - 1)) with n by lia. split; lra.
Qed.

(* ---- curves ---- *)
Section Curve.
Variables (dim p : nat) (U : list R) (P : list (list R)) (u : R).
Hypothesis Usorted : sortedR U.
Hypothesis Hn : (p < length P)%nat.
Hypothesis HL : (length P + p < length U)%nat.
Hypothesis Hdim : Forall (fun q => length q = dim) P.
Hypothesis Hu : in_domain p U (length P) u.

Lemma pt_at_len i : (i < length P)%nat -> length (pt_at P i) = dim.
Proof. intros Hi. rewrite Forall_forall in Hdim. apply Hdim. apply nth_In. exact Hi. Qed.

(* every linear functional of C(u) lies between its extreme values on the active control points *)
Theorem curve_point_hull_linfun phi lo hi : linfun dim phi ->
  Forall (fun q => lo <= phi q <= hi) (find_ctrlpts_curve Rops p U P u) ->
  lo <= phi (curve_point Rops dim p U P u) <= hi.
Proof.
  intros Hphi Hact. unfold curve_point, find_ctrlpts_curve in *.
  destruct (span_closed U u p (length P) Usorted Hn ltac:(lia) Hu) as [Hk [Hc Hne]].
  set (k := find_span_linear Rops p U (length P) u) in *.
  destruct (bf_coeffs U u k Usorted Hc Hne p ltac:(lia) ltac:(lia)) as [Hsum Hpos].
  rewrite curve_point_at_fold. apply lincomb_bounds; auto.
  - intros i Hi. apply in_seq in Hi. apply pt_at_len. lia.
  - intros i Hi. rewrite Forall_forall in Hact. apply Hact. unfold active_curve. apply in_map_iff. exists i. auto.
Qed.

(* separating directions d *)
Theorem curve_point_in_hull (d : list R) lo hi : length d = dim ->
  Forall (fun q => lo <= vdot Rops d q <= hi) (find_ctrlpts_curve Rops p U P u) ->
  lo <= vdot Rops d (curve_point Rops dim p U P u) <= hi.
Proof. intros Hd. apply curve_point_hull_linfun. apply linfun_vdot. exact Hd. Qed.
End Curve.

(* ---- surfaces (tensor product: the loop of the loop) ---- *)
Lemma idx2_lt a b su sv : (a < sv)%nat -> (b < su)%nat -> (a + sv * b < su * sv)%nat.
Proof. intros. nia. Qed.
Lemma idx3_lt a b c su sv sw : (a < sv)%nat -> (b < su)%nat -> (c < sw)%nat -> (a + sv * (b + su * c) < su * sv * sw)%nat.
Proof. intros. assert (b + su * c < su * sw)%nat by nia. nia. Qed.

Section Surface.
Variables (dim pu pv su sv : nat) (Uu Uv : list R) (P : list (list R)) (u v : R).
Hypothesis Usorted : sortedR Uu.
Hypothesis Vsorted : sortedR Uv.
Hypothesis Hnu : (pu < su)%nat.
Hypothesis Hnv : (pv < sv)%nat.
Hypothesis HLu : (su + pu < length Uu)%nat.
Hypothesis HLv : (sv + pv < length Uv)%nat.
Hypothesis HP : length P = (su * sv)%nat.
Hypothesis Hdim : Forall (fun q => length q = dim) P.
Hypothesis Hu : in_domain pu Uu su u.
Hypothesis Hv : in_domain pv Uv sv v.

Lemma pt_at_len2 i : (i < su * sv)%nat -> length (pt_at P i) = dim.
Proof. intros Hi. rewrite Forall_forall in Hdim. apply Hdim. apply nth_In. lia. Qed.

Theorem surface_point_hull_linfun phi lo hi : linfun dim phi ->
  Forall (Forall (fun q => lo <= phi q <= hi)) (find_ctrlpts_surface Rops pu pv Uu Uv su sv P u v) ->
  lo <= phi (surface_point Rops dim pu pv Uu Uv su sv P u v) <= hi.
Proof.
  intros Hphi Hact. unfold surface_point, find_ctrlpts_surface in *.
  destruct (span_closed Uu u pu su Usorted Hnu ltac:(lia) Hu) as [Hku [Hcu Hneu]].
  destruct (span_closed Uv v pv sv Vsorted Hnv ltac:(lia) Hv) as [Hkv [Hcv Hnev]].
  set (ku := find_span_linear Rops pu Uu su u) in *. set (kv := find_span_linear Rops pv Uv sv v) in *.
  destruct (bf_coeffs Uu u ku Usorted Hcu Hneu pu ltac:(lia) ltac:(lia)) as [Hsu Hposu].
  destruct (bf_coeffs Uv v kv Vsorted Hcv Hnev pv ltac:(lia) ltac:(lia)) as [Hsv Hposv].
  rewrite surface_point_at_fold.
  assert (Hlen : forall k l, In k (seq 0 (S pu)) -> In l (seq 0 (S pv)) -> length (pt_at P (kv - pv + l + sv * (ku - pu + k))) = dim).
  { intros k l Hk Hl. apply in_seq in Hk, Hl. apply pt_at_len2. apply idx2_lt; lia. }
  apply lincomb_bounds; auto.
  - intros k Hk. apply lincomb_length. intros l Hl. apply Hlen; assumption.
  - intros k Hk. apply lincomb_bounds; auto.
    intros l Hl. rewrite Forall_forall in Hact.
    assert (Hrow : In (map (fun l => pt_at P (kv - pv + l + sv * (ku - pu + k))) (seq 0 (S pv))) (active_surface pu pv sv P ku kv)).
    { unfold active_surface. apply in_map_iff. exists k. auto. }
    specialize (Hact _ Hrow). rewrite Forall_forall in Hact. apply Hact. apply in_map_iff. exists l. auto.
Qed.

Theorem surface_point_in_hull (d : list R) lo hi : length d = dim ->
  Forall (Forall (fun q => lo <= vdot Rops d q <= hi)) (find_ctrlpts_surface Rops pu pv Uu Uv su sv P u v) ->
  lo <= vdot Rops d (surface_point Rops dim pu pv Uu Uv su sv P u v) <= hi.
Proof. intros Hd. apply surface_point_hull_linfun. apply linfun_vdot. exact Hd. Qed.
End Surface.

(* ---- volumes ---- *)
Lemma volume_point_fold dim pu pv pw Uu Uv Uw su sv sw P u v w :
  volume_point Rops dim pu pv pw Uu Uv Uw su sv sw P u v w =
  let ku := find_span_linear Rops pu Uu su u in
  let kv := find_span_linear Rops pv Uv sv v in
  let kw := find_span_linear Rops pw Uw sw w in
  fold_axpy (fun a => nth a (basis_function Rops pu Uu ku u) 0)
    (fun a => fold_axpy (fun b => nth b (basis_function Rops pv Uv kv v) 0)
       (fun b => fold_axpy (fun c => nth c (basis_function Rops pw Uw kw w) 0)
          (fun c => pt_at P ((kv - pv) + b + sv * ((ku - pu) + a + su * ((kw - pw) + c))))
          (seq 0 (S pw)) (vzero Rops dim))
       (seq 0 (S pv)) (vzero Rops dim))
    (seq 0 (S pu)) (vzero Rops dim).
Proof. reflexivity. Qed.

Section Volume.
Variables (dim pu pv pw su sv sw : nat) (Uu Uv Uw : list R) (P : list (list R)) (u v w : R).
Hypothesis Usorted : sortedR Uu.
Hypothesis Vsorted : sortedR Uv.
Hypothesis Wsorted : sortedR Uw.
Hypothesis Hnu : (pu < su)%nat.
Hypothesis Hnv : (pv < sv)%nat.
Hypothesis Hnw : (pw < sw)%nat.
Hypothesis HLu : (su + pu < length Uu)%nat.
Hypothesis HLv : (sv + pv < length Uv)%nat.
Hypothesis HLw : (sw + pw < length Uw)%nat.
Hypothesis HP : length P = (su * sv * sw)%nat.
Hypothesis Hdim : Forall (fun q => length q = dim) P.
Hypothesis Hu : in_domain pu Uu su u.
Hypothesis Hv : in_domain pv Uv sv v.
Hypothesis Hw : in_domain pw Uw sw w.

Lemma pt_at_len3 i : (i < su * sv * sw)%nat -> length (pt_at P i) = dim.
Proof. intros Hi. rewrite Forall_forall in Hdim. apply Hdim. apply nth_In. lia. Qed.

Theorem volume_point_hull_linfun phi lo hi : linfun dim phi ->
  Forall (fun q => lo <= phi q <= hi)
    (active_volume pu pv pw su sv P (find_span_linear Rops pu Uu su u) (find_span_linear Rops pv Uv sv v) (find_span_linear Rops pw Uw sw w)) ->
  lo <= phi (volume_point Rops dim pu pv pw Uu Uv Uw su sv sw P u v w) <= hi.
Proof.
  intros Hphi Hact. rewrite volume_point_fold. cbv zeta.
  destruct (span_closed Uu u pu su Usorted Hnu ltac:(lia) Hu) as [Hku [Hcu Hneu]].
  destruct (span_closed Uv v pv sv Vsorted Hnv ltac:(lia) Hv) as [Hkv [Hcv Hnev]].
  destruct (span_closed Uw w pw sw Wsorted Hnw ltac:(lia) Hw) as [Hkw [Hcw Hnew]].
  set (ku := find_span_linear Rops pu Uu su u) in *. set (kv := find_span_linear Rops pv Uv sv v) in *.
  set (kw := find_span_linear Rops pw Uw sw w) in *.
  destruct (bf_coeffs Uu u ku Usorted Hcu Hneu pu ltac:(lia) ltac:(lia)) as [Hsu Hposu].
  destruct (bf_coeffs Uv v kv Vsorted Hcv Hnev pv ltac:(lia) ltac:(lia)) as [Hsv Hposv].
  destruct (bf_coeffs Uw w kw Wsorted Hcw Hnew pw ltac:(lia) ltac:(lia)) as [Hsw Hposw].
  assert (Hlen : forall a b c, In a (seq 0 (S pu)) -> In b (seq 0 (S pv)) -> In c (seq 0 (S pw)) ->
            length (pt_at P (kv - pv + b + sv * (ku - pu + a + su * (kw - pw + c)))) = dim).
  { intros a b c Ha Hb Hc. apply in_seq in Ha, Hb, Hc. apply pt_at_len3. apply idx3_lt; lia. }
  apply lincomb_bounds; auto.
  - intros a Ha. apply lincomb_length. intros b Hb. apply lincomb_length. intros c Hc. apply Hlen; assumption.
  - intros a Ha. apply lincomb_bounds; auto.
    + intros b Hb. apply lincomb_length. intros c Hc. apply Hlen; assumption.
    + intros b Hb. apply lincomb_bounds; auto.
      intros c Hc. rewrite Forall_forall in Hact. apply Hact. unfold active_volume.
      apply in_flat_map. exists a. split; [exact Ha|]. apply in_flat_map. exists b. split; [exact Hb|].
      apply in_map_iff. exists c. auto.
Qed.

Theorem volume_point_in_hull (d : list R) lo hi : length d = dim ->
  Forall (fun q => lo <= vdot Rops d q <= hi)
    (active_volume pu pv pw su sv P (find_span_linear Rops pu Uu su u) (find_span_linear Rops pv Uv sv v) (find_span_linear Rops pw Uw sw w)) ->
  lo <= vdot Rops d (volume_point Rops dim pu pv pw Uu Uv Uw su sv sw P u v w) <= hi.
Proof. intros Hd. apply volume_point_hull_linfun. apply linfun_vdot. exact Hd. Qed.
End Volume.

(* ---- rational shapes: homogeneous evaluation followed by the projection, positive weights ---- *)
Lemma linfun_const0 dim : linfun dim (fun _ => 0).
Proof. split; intros; lra. Qed.
Lemma linfun_opp dim phi : linfun dim phi -> linfun dim (fun x => - phi x).
Proof. intros [H0 H]. split; [rewrite H0; lra|]. intros. rewrite H by assumption. lra. Qed.

Section Weighted.
Variables (dim : nat) (P : list (list R)) (W : list R).
Hypothesis HW : length W = length P.
Hypothesis Hdim : Forall (fun q => length q = dim) P.
Hypothesis Wpos : Forall (fun w => 0 < w) W.
Let Pw := hom_combine Rops P W.

Lemma Pw_len i : (i < length P)%nat -> length (pt_at Pw i) = S dim.
Proof.
  intros Hi. unfold Pw. rewrite pt_at_hom by assumption. rewrite hom_point_length. f_equal.
  rewrite Forall_forall in Hdim. apply Hdim. apply nth_In. exact Hi.
Qed.
Lemma W_pos i : (i < length P)%nat -> 0 < nth i W 0.
Proof. intros Hi. rewrite Forall_forall in Wpos. apply Wpos. apply nth_In. lia. Qed.
Lemma lift_at phi a i : linfun dim phi -> (i < length P)%nat ->
  phi (removelast (pt_at Pw i)) + a * last (pt_at Pw i) 0 = nth i W 0 * (phi (pt_at P i) + a).
Proof.
  intros Hl Hi. unfold Pw. rewrite pt_at_hom by assumption. apply (lift_hom dim); [assumption|].
  rewrite Forall_forall in Hdim. apply Hdim. apply nth_In. exact Hi.
Qed.
(* the three facts project_bounds needs, for one active homogeneous point *)
Lemma lift_lo phi lo hi i : linfun dim phi -> (i < length P)%nat -> lo <= phi (pt_at P i) <= hi ->
  0 <= phi (removelast (pt_at Pw i)) + (- lo) * last (pt_at Pw i) 0.
Proof. intros Hl Hi Hb. rewrite lift_at by assumption. pose proof (W_pos i Hi). apply Rmult_le_pos; lra. Qed.
Lemma lift_hi phi lo hi i : linfun dim phi -> (i < length P)%nat -> lo <= phi (pt_at P i) <= hi ->
  0 <= (fun x => - phi x) (removelast (pt_at Pw i)) + hi * last (pt_at Pw i) 0.
Proof.
  intros Hl Hi Hb. cbv beta. rewrite (lift_at (fun x => - phi x)) by (try apply linfun_opp; assumption).
  pose proof (W_pos i Hi). apply Rmult_le_pos; lra.
Qed.
Lemma lift_w i : (i < length P)%nat -> 0 < (fun _ : list R => 0) (removelast (pt_at Pw i)) + 1 * last (pt_at Pw i) 0.
Proof. intros Hi. cbv beta. rewrite (lift_at (fun _ => 0)) by (try apply linfun_const0; assumption). pose proof (W_pos i Hi). lra. Qed.

Section RCurve.
Variables (p : nat) (U : list R) (u : R).
Hypothesis Usorted : sortedR U.
Hypothesis Hn : (p < length P)%nat.
Hypothesis HL : (length P + p < length U)%nat.
Hypothesis Hu : in_domain p U (length P) u.

Theorem rational_curve_point_hull_linfun phi lo hi : linfun dim phi ->
  Forall (fun q => lo <= phi q <= hi) (find_ctrlpts_curve Rops p U P u) ->
  lo <= phi (project Rops (curve_point Rops (S dim) p U Pw u)) <= hi.
Proof.
  intros Hphi Hact. unfold curve_point, find_ctrlpts_curve in *.
  assert (HPw : length Pw = length P) by (apply hom_combine_length; assumption). rewrite HPw.
  destruct (span_closed U u p (length P) Usorted Hn ltac:(lia) Hu) as [Hk [Hc Hne]].
  set (k := find_span_linear Rops p U (length P) u) in *.
  destruct (bf_coeffs U u k Usorted Hc Hne p ltac:(lia) ltac:(lia)) as [Hsum Hpos].
  rewrite curve_point_at_fold.
  assert (Hlen : forall i, In i (seq 0 (S p)) -> length (pt_at Pw (k - p + i)) = S dim).
  { intros i Hi. apply in_seq in Hi. apply Pw_len. lia. }
  assert (Hb : forall i, In i (seq 0 (S p)) -> lo <= phi (pt_at P (k - p + i)) <= hi).
  { intros i Hi. rewrite Forall_forall in Hact. apply Hact. unfold active_curve. apply in_map_iff. exists i. auto. }
  apply (project_bounds dim); auto.
  - apply lincomb_length. exact Hlen.
  - pose proof (lincomb_pos (S dim) (fun i => nth i (basis_function Rops p U k u) 0) (fun i => pt_at Pw (k - p + i))
      (fun v => (fun _ => 0) (removelast v) + 1 * last v 0) (seq 0 (S p)) (linfun_lift dim _ 1 (linfun_const0 dim)) Hlen) as Hq.
    cbv beta in Hq. rewrite Rplus_0_l, Rmult_1_l in Hq. apply Hq; auto.
    intros i Hi. apply in_seq in Hi. pose proof (lift_w (k - p + i) ltac:(lia)) as Hw'. cbv beta in Hw'. lra.
  - apply (lincomb_nonneg (S dim) _ _ (fun v => phi (removelast v) + - lo * last v 0)); auto.
    + apply linfun_lift. exact Hphi.
    + intros i Hi. apply (lift_lo phi lo hi); auto. apply in_seq in Hi. lia.
  - apply (lincomb_nonneg (S dim) _ _ (fun v => (fun x => - phi x) (removelast v) + hi * last v 0)); auto.
    + apply (linfun_lift dim (fun x => - phi x)). apply linfun_opp. exact Hphi.
    + intros i Hi. apply (lift_hi phi lo hi); auto. apply in_seq in Hi. lia.
Qed.

Theorem rational_curve_point_in_hull (d : list R) lo hi : length d = dim ->
  Forall (fun q => lo <= vdot Rops d q <= hi) (find_ctrlpts_curve Rops p U P u) ->
  lo <= vdot Rops d (project Rops (curve_point Rops (S dim) p U Pw u)) <= hi.
Proof. intros Hd. apply rational_curve_point_hull_linfun. apply linfun_vdot. exact Hd. Qed.
End RCurve.

Section RSurface.
Variables (pu pv su sv : nat) (Uu Uv : list R) (u v : R).
Hypothesis Usorted : sortedR Uu.
Hypothesis Vsorted : sortedR Uv.
Hypothesis Hnu : (pu < su)%nat.
Hypothesis Hnv : (pv < sv)%nat.
Hypothesis HLu : (su + pu < length Uu)%nat.
Hypothesis HLv : (sv + pv < length Uv)%nat.
Hypothesis HP : length P = (su * sv)%nat.
Hypothesis Hu : in_domain pu Uu su u.
Hypothesis Hv : in_domain pv Uv sv v.

Theorem rational_surface_point_hull_linfun phi lo hi : linfun dim phi ->
  Forall (Forall (fun q => lo <= phi q <= hi)) (find_ctrlpts_surface Rops pu pv Uu Uv su sv P u v) ->
  lo <= phi (project Rops (surface_point Rops (S dim) pu pv Uu Uv su sv Pw u v)) <= hi.
Proof.
  intros Hphi Hact. unfold surface_point, find_ctrlpts_surface in *.
  destruct (span_closed Uu u pu su Usorted Hnu ltac:(lia) Hu) as [Hku [Hcu Hneu]].
  destruct (span_closed Uv v pv sv Vsorted Hnv ltac:(lia) Hv) as [Hkv [Hcv Hnev]].
  set (ku := find_span_linear Rops pu Uu su u) in *. set (kv := find_span_linear Rops pv Uv sv v) in *.
  destruct (bf_coeffs Uu u ku Usorted Hcu Hneu pu ltac:(lia) ltac:(lia)) as [Hsu Hposu].
  destruct (bf_coeffs Uv v kv Vsorted Hcv Hnev pv ltac:(lia) ltac:(lia)) as [Hsv Hposv].
  rewrite surface_point_at_fold.
  assert (Hidx : forall k l, In k (seq 0 (S pu)) -> In l (seq 0 (S pv)) -> (kv - pv + l + sv * (ku - pu + k) < length P)%nat).
  { intros k l Hk Hl. apply in_seq in Hk, Hl. rewrite HP. apply idx2_lt; lia. }
  assert (Hlen : forall k l, In k (seq 0 (S pu)) -> In l (seq 0 (S pv)) -> length (pt_at Pw (kv - pv + l + sv * (ku - pu + k))) = S dim).
  { intros k l Hk Hl. apply Pw_len. apply Hidx; assumption. }
  assert (Hb : forall k l, In k (seq 0 (S pu)) -> In l (seq 0 (S pv)) -> lo <= phi (pt_at P (kv - pv + l + sv * (ku - pu + k))) <= hi).
  { intros k l Hk Hl. rewrite Forall_forall in Hact.
    assert (Hrow : In (map (fun l => pt_at P (kv - pv + l + sv * (ku - pu + k))) (seq 0 (S pv))) (active_surface pu pv sv P ku kv)).
    { unfold active_surface. apply in_map_iff. exists k. auto. }
    specialize (Hact _ Hrow). rewrite Forall_forall in Hact. apply Hact. apply in_map_iff. exists l. auto. }
  assert (Hinner : forall k, In k (seq 0 (S pu)) ->
     length (fold_axpy (fun l => nth l (basis_function Rops pv Uv kv v) 0) (fun l => pt_at Pw (kv - pv + l + sv * (ku - pu + k))) (seq 0 (S pv)) (vzero Rops (S dim))) = S dim).
  { intros k Hk. apply lincomb_length. intros l Hl. apply Hlen; assumption. }
  apply (project_bounds dim); auto.
  - apply lincomb_length. exact Hinner.
  - set (psiw := fun v : list R => (fun _ : list R => 0) (removelast v) + 1 * last v 0).
    assert (Hlf : linfun (S dim) psiw) by apply (linfun_lift dim _ 1 (linfun_const0 dim)).
    match goal with |- 0 < last ?V 0 => assert (Hq : 0 < psiw V); [|unfold psiw in Hq; lra] end.
    apply lincomb_pos; [exact Hlf|exact Hinner|intros; apply Hposu|exact Hsu|].
    intros k Hk. apply lincomb_pos; [exact Hlf|intros l Hl; apply Hlen; assumption|intros; apply Hposv|exact Hsv|].
    intros l Hl. unfold psiw. apply lift_w. apply Hidx; assumption.
  - set (psi := fun v : list R => phi (removelast v) + - lo * last v 0).
    assert (Hlf : linfun (S dim) psi) by (apply linfun_lift; exact Hphi).
    change (0 <= psi (fold_axpy (fun k => nth k (basis_function Rops pu Uu ku u) 0)
       (fun k => fold_axpy (fun l => nth l (basis_function Rops pv Uv kv v) 0) (fun l => pt_at Pw (kv - pv + l + sv * (ku - pu + k)))
          (seq 0 (S pv)) (vzero Rops (S dim))) (seq 0 (S pu)) (vzero Rops (S dim)))).
    apply lincomb_nonneg; [exact Hlf|exact Hinner|intros; apply Hposu|].
    intros k Hk. apply lincomb_nonneg; [exact Hlf|intros l Hl; apply Hlen; assumption|intros; apply Hposv|].
    intros l Hl. unfold psi. apply (lift_lo phi lo hi); auto.
  - set (psi := fun v : list R => (fun x => - phi x) (removelast v) + hi * last v 0).
    assert (Hlf : linfun (S dim) psi) by (apply (linfun_lift dim (fun x => - phi x)); apply linfun_opp; exact Hphi).
    change (0 <= psi (fold_axpy (fun k => nth k (basis_function Rops pu Uu ku u) 0)
       (fun k => fold_axpy (fun l => nth l (basis_function Rops pv Uv kv v) 0) (fun l => pt_at Pw (kv - pv + l + sv * (ku - pu + k)))
          (seq 0 (S pv)) (vzero Rops (S dim))) (seq 0 (S pu)) (vzero Rops (S dim)))).
    apply lincomb_nonneg; [exact Hlf|exact Hinner|intros; apply Hposu|].
    intros k Hk. apply lincomb_nonneg; [exact Hlf|intros l Hl; apply Hlen; assumption|intros; apply Hposv|].
    intros l Hl. unfold psi. apply (lift_hi phi lo hi); auto.
Qed.

Theorem rational_surface_point_in_hull (d : list R) lo hi : length d = dim ->
  Forall (Forall (fun q => lo <= vdot Rops d q <= hi)) (find_ctrlpts_surface Rops pu pv Uu Uv su sv P u v) ->
  lo <= vdot Rops d (project Rops (surface_point Rops (S dim) pu pv Uu Uv su sv Pw u v)) <= hi.
Proof. intros Hd. apply rational_surface_point_hull_linfun. apply linfun_vdot. exact Hd. Qed.
End RSurface.

Section RVolume.
Variables (pu pv pw su sv sw : nat) (Uu Uv Uw : list R) (u v w : R).
Hypothesis Usorted : sortedR Uu.
Hypothesis Vsorted : sortedR Uv.
Hypothesis Wsorted : sortedR Uw.
Hypothesis Hnu : (pu < su)%nat.
Hypothesis Hnv : (pv < sv)%nat.
Hypothesis Hnw : (pw < sw)%nat.
Hypothesis HLu : (su + pu < length Uu)%nat.
Hypothesis HLv : (sv + pv < length Uv)%nat.
Hypothesis HLw : (sw + pw < length Uw)%nat.
Hypothesis HP : length P = (su * sv * sw)%nat.
Hypothesis Hu : in_domain pu Uu su u.
Hypothesis Hv : in_domain pv Uv sv v.
Hypothesis Hw : in_domain pw Uw sw w.

Theorem rational_volume_point_hull_linfun phi lo hi : linfun dim phi ->
  Forall (fun q => lo <= phi q <= hi)
    (active_volume pu pv pw su sv P (find_span_linear Rops pu Uu su u) (find_span_linear Rops pv Uv sv v) (find_span_linear Rops pw Uw sw w)) ->
  lo <= phi (project Rops (volume_point Rops (S dim) pu pv pw Uu Uv Uw su sv sw Pw u v w)) <= hi.
Proof.
  intros Hphi Hact. rewrite volume_point_fold. cbv zeta.
  destruct (span_closed Uu u pu su Usorted Hnu ltac:(lia) Hu) as [Hku [Hcu Hneu]].
  destruct (span_closed Uv v pv sv Vsorted Hnv ltac:(lia) Hv) as [Hkv [Hcv Hnev]].
  destruct (span_closed Uw w pw sw Wsorted Hnw ltac:(lia) Hw) as [Hkw [Hcw Hnew]].
  set (ku := find_span_linear Rops pu Uu su u) in *. set (kv := find_span_linear Rops pv Uv sv v) in *.
  set (kw := find_span_linear Rops pw Uw sw w) in *.
  destruct (bf_coeffs Uu u ku Usorted Hcu Hneu pu ltac:(lia) ltac:(lia)) as [Hsu Hposu].
  destruct (bf_coeffs Uv v kv Vsorted Hcv Hnev pv ltac:(lia) ltac:(lia)) as [Hsv Hposv].
  destruct (bf_coeffs Uw w kw Wsorted Hcw Hnew pw ltac:(lia) ltac:(lia)) as [Hsw Hposw].
  assert (Hidx : forall a b c, In a (seq 0 (S pu)) -> In b (seq 0 (S pv)) -> In c (seq 0 (S pw)) ->
            (kv - pv + b + sv * (ku - pu + a + su * (kw - pw + c)) < length P)%nat).
  { intros a b c Ha Hb Hc. apply in_seq in Ha, Hb, Hc. rewrite HP. apply idx3_lt; lia. }
  assert (Hlen : forall a b c, In a (seq 0 (S pu)) -> In b (seq 0 (S pv)) -> In c (seq 0 (S pw)) ->
            length (pt_at Pw (kv - pv + b + sv * (ku - pu + a + su * (kw - pw + c)))) = S dim).
  { intros a b c Ha Hb Hc. apply Pw_len. apply Hidx; assumption. }
  assert (Hbd : forall a b c, In a (seq 0 (S pu)) -> In b (seq 0 (S pv)) -> In c (seq 0 (S pw)) ->
            lo <= phi (pt_at P (kv - pv + b + sv * (ku - pu + a + su * (kw - pw + c)))) <= hi).
  { intros a b c Ha Hb Hc. rewrite Forall_forall in Hact. apply Hact. unfold active_volume.
    apply in_flat_map. exists a. split; [exact Ha|]. apply in_flat_map. exists b. split; [exact Hb|].
    apply in_map_iff. exists c. auto. }
  assert (Hin1 : forall a b, In a (seq 0 (S pu)) -> In b (seq 0 (S pv)) ->
     length (fold_axpy (fun c => nth c (basis_function Rops pw Uw kw w) 0)
          (fun c => pt_at Pw (kv - pv + b + sv * (ku - pu + a + su * (kw - pw + c)))) (seq 0 (S pw)) (vzero Rops (S dim))) = S dim).
  { intros a b Ha Hb. apply lincomb_length. intros c Hc. apply Hlen; assumption. }
  assert (Hin2 : forall a, In a (seq 0 (S pu)) ->
     length (fold_axpy (fun b => nth b (basis_function Rops pv Uv kv v) 0)
       (fun b => fold_axpy (fun c => nth c (basis_function Rops pw Uw kw w) 0)
          (fun c => pt_at Pw (kv - pv + b + sv * (ku - pu + a + su * (kw - pw + c)))) (seq 0 (S pw)) (vzero Rops (S dim)))
       (seq 0 (S pv)) (vzero Rops (S dim))) = S dim).
  { intros a Ha. apply lincomb_length. intros b Hb. apply Hin1; assumption. }
  apply (project_bounds dim); auto.
  - apply lincomb_length. exact Hin2.
  - set (psiw := fun v : list R => (fun _ : list R => 0) (removelast v) + 1 * last v 0).
    assert (Hlf : linfun (S dim) psiw) by apply (linfun_lift dim _ 1 (linfun_const0 dim)).
    match goal with |- 0 < last ?V 0 => assert (Hq : 0 < psiw V); [|unfold psiw in Hq; lra] end.
    apply lincomb_pos; [exact Hlf|exact Hin2|intros; apply Hposu|exact Hsu|].
    intros a Ha. apply lincomb_pos; [exact Hlf|intros b Hb; apply Hin1; assumption|intros; apply Hposv|exact Hsv|].
    intros b Hb. apply lincomb_pos; [exact Hlf|intros c Hc; apply Hlen; assumption|intros; apply Hposw|exact Hsw|].
    intros c Hc. unfold psiw. apply lift_w. apply Hidx; assumption.
  - set (psi := fun v : list R => phi (removelast v) + - lo * last v 0).
    assert (Hlf : linfun (S dim) psi) by (apply linfun_lift; exact Hphi).
    change (0 <= psi (fold_axpy (fun a => nth a (basis_function Rops pu Uu ku u) 0)
    (fun a => fold_axpy (fun b => nth b (basis_function Rops pv Uv kv v) 0)
       (fun b => fold_axpy (fun c => nth c (basis_function Rops pw Uw kw w) 0)
          (fun c => pt_at Pw ((kv - pv) + b + sv * ((ku - pu) + a + su * ((kw - pw) + c))))
          (seq 0 (S pw)) (vzero Rops (S dim)))
       (seq 0 (S pv)) (vzero Rops (S dim)))
    (seq 0 (S pu)) (vzero Rops (S dim)))).
    apply lincomb_nonneg; [exact Hlf|exact Hin2|intros; apply Hposu|].
    intros a Ha. apply lincomb_nonneg; [exact Hlf|intros b Hb; apply Hin1; assumption|intros; apply Hposv|].
    intros b Hb. apply lincomb_nonneg; [exact Hlf|intros c Hc; apply Hlen; assumption|intros; apply Hposw|].
    intros c Hc. unfold psi. apply (lift_lo phi lo hi); auto.
  - set (psi := fun v : list R => (fun x => - phi x) (removelast v) + hi * last v 0).
    assert (Hlf : linfun (S dim) psi) by (apply (linfun_lift dim (fun x => - phi x)); apply linfun_opp; exact Hphi).
    change (0 <= psi (fold_axpy (fun a => nth a (basis_function Rops pu Uu ku u) 0)
    (fun a => fold_axpy (fun b => nth b (basis_function Rops pv Uv kv v) 0)
       (fun b => fold_axpy (fun c => nth c (basis_function Rops pw Uw kw w) 0)
          (fun c => pt_at Pw ((kv - pv) + b + sv * ((ku - pu) + a + su * ((kw - pw) + c))))
          (seq 0 (S pw)) (vzero Rops (S dim)))
       (seq 0 (S pv)) (vzero Rops (S dim)))
    (seq 0 (S pu)) (vzero Rops (S dim)))).
    apply lincomb_nonneg; [exact Hlf|exact Hin2|intros; apply Hposu|].
    intros a Ha. apply lincomb_nonneg; [exact Hlf|intros b Hb; apply Hin1; assumption|intros; apply Hposv|].
    intros b Hb. apply lincomb_nonneg; [exact Hlf|intros c Hc; apply Hlen; assumption|intros; apply Hposw|].
    intros c Hc. unfold psi. apply (lift_hi phi lo hi); auto.
Qed.
End RVolume.
End Weighted.
