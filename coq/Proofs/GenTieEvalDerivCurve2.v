(* Tie: generated evaluators.CurveEvaluator2.derivatives (A3.4: basis_function_all + the derivative control points of A3.3)
   =  Model/Derivs.v curve_derivs2, for every scalar instance.  No law of the scalar operations is used. *)
From Coq Require Import List ZArith Arith Bool Lia QArith.
From NV Require Import Scalar.Ops Model.Common Model.Basis Model.Knots Model.Eval Model.Degree Model.Derivs
  Gen.Prelude Gen.PreludeExt Gen.Linalg Gen.Helpers Gen.HelpersB Gen.HelpersC Gen.Evaluators
  Proofs.GenTieLib Proofs.GenTieLib2 Proofs.GenTieKnots Proofs.GenTieSpan Proofs.GenTieBasis Proofs.GenTieDerivCpts
  Proofs.GenTieEvalLib Proofs.GenTieEvalCurve Proofs.GenTieBasisAll Proofs.GenTieEvalDerivCurve.
Import ListNotations.
Local Open Scope nat_scope.

Lemma gmapM_map {A B C} (f : B -> gres C) (g : A -> B) (l : list A) : gmapM f (map g l) = gmapM (fun x => f (g x)) l.
Proof. induction l; simpl; auto. now rewrite IHl. Qed.

Lemma combine_map_r {A B C} (g : B -> C) (a : list A) (b : list B) :
  combine a (map g b) = map (fun ab => (fst ab, g (snd ab))) (combine a b).
Proof. revert b; induction a as [|x a IH]; intros [|y b]; simpl; auto. now rewrite IH. Qed.

Section Tie.
Context {T : Type} (K : ops T).

(* acc[:] = [a + (tbl[j][i] * b) for a, b in zip(acc, pt)] where tbl[j][i] and the coordinates of pt are None-or-float slots *)
Lemma gmapM_axpy_opt (tbl : list (list (option T))) (j i : Z) (row : list (option T)) (cv : T) (acc pt : list T) :
  znth tbl j = GOk row -> znth row i = GOk (Some cv) ->
  gmapM (fun '(a, b) => do r <- znth tbl j ;; do v <- znth r i ;; do v' <- py_unopt v ;; do b' <- py_unopt b ;;
                         GOk (oadd K a (omul K v' b'))) (combine acc (map Some pt)) = GOk (axpy K cv pt acc).
Proof.
  intros H1 H2. rewrite combine_map_r, gmapM_map. rewrite <- axpy_map.
  apply gmapM_ok. intros [a b] _. cbn [fst snd]. rewrite H1. cbn [gbind]. rewrite H2. reflexivity.
Qed.

(* wf: as for derivatives; in addition dimension >= 0 (the None placeholders of curve_deriv_cpts are counted with it) *)
Theorem CurveEvaluator2_derivatives_tie_gen (func : Z -> list T -> Z -> T -> gres Z) (dd : geomdata T)
    (p : nat) (U : list T) (P : list (list T)) (u : T) (order : nat) :
  curve_dd dd p U P -> p < length P -> length P + p <= length U -> (0 <= eval_dim dd)%Z ->
  func (Z.of_nat p) U (Z.of_nat (length P)) u = GOk (Z.of_nat (Basis.find_span_linear K p U (length P) u)) ->
  Evaluators.CurveEvaluator2_derivatives K func dd u (Z.of_nat order) =
  GOk (curve_derivs2 K (Z.to_nat (eval_dim dd)) p U P u order).
Proof.
  intros (Hd & Hk & Hs & Hc) Hp Hl Hdim Hf.
  unfold Evaluators.CurveEvaluator2_derivatives. cbv zeta. fold (eval_dim dd).
  rewrite (znth_hd _ _ Hd), (znth_hd _ _ Hk), (znth_hd _ _ Hs). cbn [gbind].
  rewrite Hc, Hf. cbn [gbind].
  rewrite zmin_nat. unfold curve_derivs2.
  set (du := Nat.min p order). set (span := Basis.find_span_linear K p U (length P) u).
  set (dim := Z.to_nat (eval_dim dd)).
  assert (Bs : p <= span < length P) by (apply find_span_linear_bounds; exact Hp).
  rewrite basis_function_all_tie by lia. cbn [gbind].
  set (all := Basis.basis_function_all K p U span u).
  replace (eval_dim dd) with (Z.of_nat dim) at 1 by (unfold dim; lia).
  replace (Z.of_nat span - Z.of_nat p)%Z with (Z.of_nat (span - p)) by lia.
  rewrite curve_deriv_cpts_tie by (unfold du; lia). cbn [gbind].
  replace (span - (span - p)) with p by lia.
  rewrite model_rows. replace (span - (span - p)) with p by lia.
  set (rm := rowm K p U P (span - p) p).
  replace (Z.of_nat order + 1)%Z with (Z.of_nat (S order)) by lia.
  replace (Z.of_nat du + 1)%Z with (Z.of_nat (S du)) by lia.
  rewrite zeros_vzero, map_const_zrange, Nat2Z.id. fold dim.
  rewrite !zrange_0_nat, gfor_map.
  rewrite (gfor_fill [] _ (fun k => fold_left (fun acc j => axpy K (bfall_get K all j (p - k)) (pt_at (rm k) j) acc)
                                       (seq 0 (S (p - k))) (vzero K dim))).
  - cbn [gbind]. f_equal.
    rewrite skipn_repeat.
    replace (S order) with (S du + (order - du)) at 2 by (unfold du; lia).
    rewrite seq_app, map_app. f_equal.
    + apply map_seq_ext. intros k Hk_. destruct (Nat.leb_spec k du); [|lia].
      rewrite (nth_map_lt _ _ k 0) by (rewrite seq_length; lia). rewrite seq_nth by lia. reflexivity.
    + replace (S order - S du) with (order - du) by lia.
      rewrite <- (seq_length (order - du) (0 + S du)) at 1. rewrite <- map_const_seq by exact (fun x : nat => x).
      apply map_seq_ext. intros k Hk_. destruct (Nat.leb_spec k du); [lia|reflexivity].
  - rewrite repeat_length. unfold du. lia.
  - intros k CK Hk_ HL Hrest. rewrite repeat_length in HL.
    assert (Hkp : k <= p) by (unfold du in *; lia).
    replace (Z.of_nat p - Z.of_nat k + 1)%Z with (Z.of_nat (S (p - k))) by lia.
    rewrite zrange_0_nat, gfor_map.
    rewrite (gfor_row [] _ _ k (fun row j => axpy K (bfall_get K all j (p - k)) (pt_at (rm k) j) row)).
    + rewrite Hrest by lia. rewrite nth_repeat_lt by (unfold du in *; lia). reflexivity.
    + unfold du in *. lia.
    + intros j M' Hj HM'. apply in_seq in Hj.
      rewrite (znth_nat M' k []) by (unfold du in *; lia). cbn [gbind].
      unfold injPK. rewrite (znth_nat _ k []) by (rewrite !map_length, seq_length; lia). cbn [gbind].
      rewrite (nth_map_lt _ _ k []) by (rewrite map_length, seq_length; lia).
      rewrite (nth_map_lt _ _ k 0) by (rewrite seq_length; lia). rewrite seq_nth by lia. cbn [plus]. fold (rm k).
      assert (Lr : length (rm k) = S p - k) by apply rowm_length.
      rewrite (znth_nat _ j []) by (rewrite injrow_length; lia). cbn [gbind].
      rewrite nth_injrow by lia.
      replace (Z.of_nat p - Z.of_nat k)%Z with (Z.of_nat (p - k)) by lia.
      rewrite (gmapM_axpy_opt (inj_bfall K p all) (Z.of_nat j) (Z.of_nat (p - k)) (nth j (inj_bfall K p all) [])
                 (bfall_get K all j (p - k))).
      * cbn [gbind]. rewrite zset_nat by (unfold du in *; lia). reflexivity.
      * apply znth_nat. unfold inj_bfall. rewrite map_length, seq_length. lia.
      * rewrite (znth_nat _ (p - k) None).
        -- rewrite nth_inj_bfall by lia. destruct (Nat.leb_spec j (p - k)); [reflexivity|lia].
        -- unfold inj_bfall. rewrite (nth_map_lt _ _ j 0) by (rewrite seq_length; lia). rewrite map_length, seq_length. lia.
Qed.

Theorem CurveEvaluator2_derivatives_tie (dd : geomdata T) (p : nat) (U : list T) (P : list (list T)) (u : T) (order : nat) :
  curve_dd dd p U P -> p < length P -> length P + p <= length U -> (0 <= eval_dim dd)%Z ->
  Evaluators.CurveEvaluator2_derivatives K (Helpers.find_span_linear K) dd u (Z.of_nat order) =
  GOk (curve_derivs2 K (Z.to_nat (eval_dim dd)) p U P u order).
Proof. intros. apply CurveEvaluator2_derivatives_tie_gen; auto. apply find_span_linear_tie. lia. Qed.
End Tie.

Definition CurveEvaluator2_derivatives_tie_R := @CurveEvaluator2_derivatives_tie _ Rops.
Definition CurveEvaluator2_derivatives_tie_Q := @CurveEvaluator2_derivatives_tie _ Qops.

(* ---- non-vacuity: the curve of GenTieEvalCurve.v, u = 3/10, order 4 (> degree); the values are what geomdl returns (and what
   CurveEvaluator.derivatives returns: GenTieEvalDerivCurve.v) ---- *)
Local Open Scope Q_scope.
Example CurveEvaluator2_derivatives_ex :
  Evaluators.CurveEvaluator2_derivatives Qops (Helpers.find_span_linear Qops) (exdd false) (3#10) 4 =
    GOk (curve_derivs2 Qops 3 3 exU exP (3#10) 4)
  /\ curve_derivs2 Qops 3 3 exU exP (3#10) 4 =
     [[799#250; 511#250; 181#125]; [54#25; -294#25; -48#25]; [-288#5; -432#5; -144#5]; [768; 1152; 384]; [0; 0; 0]].
Proof. split; vm_compute; reflexivity. Qed.
