(* Ties: generated compatibility.combine_ctrlpts_weights (+ the weights=None variant), separate_ctrlpts_weights,
   generate_ctrlptsw, generate_ctrlpts_weights, generate_ctrlptsw2d, generate_ctrlpts2d_weights = Model/Weights.v.
   ALL inputs: the model's Crash is the IndexError of an empty point or the ZeroDivisionError of a zero weight, whichever the
   first offending point raises (first_err).  No law of the scalar operations is used. *)
From Coq Require Import List ZArith Arith Bool Lia QArith.
From NV Require Import Scalar.Ops Model.Common Model.Weights Gen.Prelude Gen.PreludeExt Gen.Compatibility
  Proofs.GenTieLib Proofs.GenTieLib2.
Import ListNotations.
Local Open Scope nat_scope.

(* ---- append loops whose body raises on some elements ---- *)
(* the error of the first element that is not ok *)
Definition first_err {A} (ok : A -> bool) (err : A -> gerr) (l : list A) : gerr :=
  match find (fun x => negb (ok x)) l with Some x => err x | None => IndexError end.

Lemma find_forallb {A} (ok : A -> bool) (l : list A) :
  forallb ok l = match find (fun x => negb (ok x)) l with None => true | Some _ => false end.
Proof. induction l as [|a l IH]; simpl; auto. destruct (ok a); simpl; auto. Qed.

Lemma first_err_const {A} (ok : A -> bool) (e : gerr) (l : list A) : forallb ok l = false -> first_err ok (fun _ => e) l = e.
Proof. rewrite find_forallb. unfold first_err. destruct (find _ l); auto. discriminate. Qed.

Lemma first_err_ext {A} (ok : A -> bool) (e1 e2 : A -> gerr) (l : list A) :
  (forall x, In x l -> ok x = false -> e1 x = e2 x) -> first_err ok e1 l = first_err ok e2 l.
Proof.
  intros H. unfold first_err. destruct (find _ l) eqn:E; auto.
  apply find_some in E. destruct E as [Hin Hb]. apply H; auto. now destruct (ok a).
Qed.

Lemma gfor_append_chk {A B} (ok : A -> bool) (gm : A -> B) (err : A -> gerr) (l : list A) (f : A -> list B -> gres (list B)) :
  (forall x acc, In x l -> f x acc = if ok x then GOk (acc ++ [gm x]) else GErr (err x)) ->
  forall acc, gfor l f acc = if forallb ok l then GOk (acc ++ map gm l) else GErr (first_err ok err l).
Proof.
  unfold first_err. induction l as [|a l IH]; intros H acc; simpl.
  - now rewrite app_nil_r.
  - rewrite H by (simpl; auto). destruct (ok a); simpl; auto.
    rewrite IH by (intros; apply H; simpl; auto). destruct (forallb ok l); auto. now rewrite <- app_assoc.
Qed.

(* the same with two lists that grow together *)
Lemma gfor_append2_chk {A B C} (ok : A -> bool) (g1 : A -> B) (g2 : A -> C) (err : A -> gerr) (l : list A)
  (f : A -> list B * list C -> gres (list B * list C)) :
  (forall x a b, In x l -> f x (a, b) = if ok x then GOk (a ++ [g1 x], b ++ [g2 x]) else GErr (err x)) ->
  forall a b, gfor l f (a, b) = if forallb ok l then GOk (a ++ map g1 l, b ++ map g2 l) else GErr (first_err ok err l).
Proof.
  unfold first_err. induction l as [|x l IH]; intros H a b; simpl.
  - now rewrite !app_nil_r.
  - rewrite H by (simpl; auto). destruct (ok x); simpl; auto.
    rewrite IH by (intros; apply H; simpl; auto). destruct (forallb ok l); auto. now rewrite <- !app_assoc.
Qed.

(* ---- indexing from the end ---- *)
Lemma zset_neg {A} (l : list A) k v : 1 <= k <= length l -> zset l (- Z.of_nat k) v = GOk (upd l (length l - k) v).
Proof. intros H. unfold zset. rewrite zidx_neg by auto. now rewrite list_upd_eq. Qed.

Lemma zset_last {A} (l : list A) v : l <> [] -> zset l (-1) v = GOk (upd l (length l - 1) v).
Proof.
  intros H. change (-1)%Z with (- Z.of_nat 1)%Z. apply zset_neg. destruct l; [congruence|simpl; lia].
Qed.

Lemma znth_nil_last {A} : znth (@nil A) (-1) = GErr IndexError.
Proof. reflexivity. Qed.

Lemma upd_last_map {A B} (f : A -> B) (l : list A) (w : B) :
  l <> [] -> upd (map f l) (length l - 1) w = map f (removelast l) ++ [w].
Proof.
  induction l as [|a [|b r] IH]; intros H; [congruence|reflexivity|].
  replace (length (a :: b :: r) - 1) with (S (length (b :: r) - 1)) by (simpl; lia).
  change (removelast (a :: b :: r)) with (a :: removelast (b :: r)).
  cbn [map upd app]. f_equal. apply IH. discriminate.
Qed.

Lemma removelast_firstn_len' {A} (l : list A) : removelast l = firstn (length l - 1) l.
Proof.
  induction l as [|a [|b r] IH]; simpl; auto.
  simpl in IH. rewrite IH. now rewrite Nat.sub_0_r.
Qed.

Lemma zslice_to_m1 {A} (l : list A) : zslice_to l (-1) = removelast l.
Proof.
  unfold zslice_to, zclamp. change (-1 <? 0)%Z with true. cbv iota.
  rewrite removelast_firstn_len'. f_equal. lia.
Qed.

Section Tie.
Context {T : Type} (K : ops T).
Notation "0" := (o0 K).

Lemma lastw_last (pt : list T) : lastw K pt = last pt 0.
Proof. reflexivity. Qed.

(* ---- combine_ctrlpts_weights: total ---- *)
Lemma combine_loop (l : list (list T * T)) (acc : list (list T)) :
  gfor l (fun '(pt, w) ctrlptsw =>
    let temp := map (fun c => omul K c w) pt in let temp := temp ++ [w] in let ctrlptsw := ctrlptsw ++ [temp] in GOk ctrlptsw) acc
  = GOk (acc ++ map (fun pw => wpt K (fst pw) (snd pw)) l).
Proof.
  revert acc; induction l as [|[pt w] l IH]; intros acc; simpl.
  - now rewrite app_nil_r.
  - rewrite IH. now rewrite <- app_assoc.
Qed.

Theorem combine_ctrlpts_weights_tie (P : list (list T)) (W : list T) :
  Compatibility.combine_ctrlpts_weights K P W = GOk (combine_cw K P W).
Proof.
  unfold Compatibility.combine_ctrlpts_weights. cbn [gbind]. rewrite combine_loop. reflexivity.
Qed.

(* weights=None: unit weights, i.e. Weights.to_rational (convert.bspline_to_nurbs on the level of control points) *)
Theorem combine_ctrlpts_weights_none_tie (P : list (list T)) :
  Compatibility.combine_ctrlpts_weights__weights_none K P = GOk (combine_cw K P (ones K (length P))).
Proof.
  unfold Compatibility.combine_ctrlpts_weights__weights_none.
  rewrite map_const_zrange. unfold zlen. rewrite Nat2Z.id. rewrite combine_loop. reflexivity.
Qed.

Corollary combine_ctrlpts_weights_none_to_rational (P : list (list T)) :
  Compatibility.combine_ctrlpts_weights__weights_none K P = GOk (to_rational K P).
Proof. apply combine_ctrlpts_weights_none_tie. Qed.

(* ---- generate_ctrlptsw: IndexError <-> Crash (an empty point) ---- *)
Definition nonempty (pt : list T) : bool := negb (Nat.eqb (length pt) 0).

Lemma gen_w_step (cpt : list T) (acc : list (list T)) :
  (do temp <- gmapM (fun pt => do v_1 <- znth cpt (-1) ;; GOk (omul K pt v_1)) cpt ;;
   do v_3 <- znth cpt (-1) ;;
   do temp <- zset temp (-1) v_3 ;;
   let new_ctrlpts := acc ++ [temp] in GOk new_ctrlpts)
  = if nonempty cpt then GOk (acc ++ [gen_w_pt K cpt]) else GErr IndexError.
Proof.
  destruct cpt as [|c0 r]; [reflexivity|]. set (cpt := c0 :: r).
  assert (Hne : cpt <> []) by discriminate.
  rewrite (gmapM_ok _ (fun c => omul K c (lastw K cpt))).
  2:{ intros c _. rewrite (znth_last cpt 0) by auto. reflexivity. }
  cbn [gbind]. rewrite (znth_last cpt 0) by auto. cbn [gbind].
  rewrite zset_last by (subst cpt; discriminate). rewrite map_length. cbn [gbind].
  rewrite upd_last_map by auto. reflexivity.
Qed.

Lemma gen_w_loop (P acc : list (list T)) :
  gfor P (fun cpt new_ctrlpts =>
    do temp <- gmapM (fun pt => do v_1 <- znth cpt (-1) ;; GOk (omul K pt v_1)) cpt ;;
    do v_3 <- znth cpt (-1) ;;
    do temp <- zset temp (-1) v_3 ;;
    let new_ctrlpts := new_ctrlpts ++ [temp] in GOk new_ctrlpts) acc
  = if forallb nonempty P then GOk (acc ++ map (gen_w_pt K) P) else GErr IndexError.
Proof.
  rewrite (gfor_append_chk nonempty (gen_w_pt K) (fun _ => IndexError)).
  - destruct (forallb nonempty P) eqn:E; auto. now rewrite first_err_const.
  - intros cpt a _. apply gen_w_step.
Qed.

Theorem generate_ctrlptsw_tie (P : list (list T)) :
  Compatibility.generate_ctrlptsw K P = res_to_gres (fun x => x) ValueError IndexError (Weights.generate_ctrlptsw K P).
Proof.
  unfold Compatibility.generate_ctrlptsw, Weights.generate_ctrlptsw. cbn [gbind]. rewrite gen_w_loop.
  fold nonempty. destruct (forallb nonempty P); reflexivity.
Qed.

Theorem generate_ctrlptsw2d_tie (G : list (list (list T))) :
  Compatibility.generate_ctrlptsw2d K G = res_to_gres (fun x => x) ValueError IndexError (Weights.generate_ctrlptsw2d K G).
Proof.
  unfold Compatibility.generate_ctrlptsw2d, Weights.generate_ctrlptsw2d. cbn [gbind].
  rewrite (gfor_append_chk (forallb nonempty) (map (gen_w_pt K)) (fun _ => IndexError)).
  - fold nonempty. destruct (forallb (forallb nonempty) G) eqn:E; cbn [gbind res_to_gres app]; auto.
    now rewrite first_err_const.
  - intros row a _. cbn [gbind]. rewrite gen_w_loop. destruct (forallb nonempty row); reflexivity.
Qed.

(* ---- generate_ctrlpts_weights: IndexError (empty point) or ZeroDivisionError (zero weight) <-> Crash ---- *)
Definition div_ok (pt : list T) : bool := andb (negb (Nat.eqb (length pt) 0)) (negb (isz0 K (lastw K pt))).
Definition div_err (pt : list T) : gerr := match pt with [] => IndexError | _ => ZeroDivisionError end.

Lemma gen_u_step (cpt : list T) (acc : list (list T)) :
  (do temp <- gmapM (fun pt => do v_1 <- znth cpt (-1) ;; do v_2 <- odiv_chk K pt v_1 ;; GOk v_2) cpt ;;
   do v_4 <- znth cpt (-1) ;;
   do temp <- zset temp (-1) v_4 ;;
   let new_ctrlpts := acc ++ [temp] in GOk new_ctrlpts)
  = if div_ok cpt then GOk (acc ++ [gen_u_pt K cpt]) else GErr (div_err cpt).
Proof.
  destruct cpt as [|c0 r]; [reflexivity|]. set (cpt := c0 :: r).
  assert (Hne : cpt <> []) by discriminate.
  unfold div_ok. change (negb (Nat.eqb (length cpt) 0)) with true. cbn [andb].
  unfold isz0. destruct (oeqb K (lastw K cpt) 0) eqn:Ez; cbn [negb].
  - (* the first coordinate already raises *)
    subst cpt. cbn [gmapM]. rewrite (znth_last (c0 :: r) 0) by auto. cbn [gbind].
    unfold odiv_chk. rewrite lastw_last in Ez. rewrite Ez. reflexivity.
  - rewrite (gmapM_ok _ (fun c => odiv K c (lastw K cpt))).
    2:{ intros c _. rewrite (znth_last cpt 0) by auto. cbn [gbind]. unfold odiv_chk.
        rewrite lastw_last in Ez. rewrite Ez. reflexivity. }
    cbn [gbind]. rewrite (znth_last cpt 0) by auto. cbn [gbind].
    rewrite zset_last by (subst cpt; discriminate). rewrite map_length. cbn [gbind].
    rewrite upd_last_map by auto. reflexivity.
Qed.

Lemma gen_u_loop (P acc : list (list T)) :
  gfor P (fun cpt new_ctrlpts =>
    do temp <- gmapM (fun pt => do v_1 <- znth cpt (-1) ;; do v_2 <- odiv_chk K pt v_1 ;; GOk v_2) cpt ;;
    do v_4 <- znth cpt (-1) ;;
    do temp <- zset temp (-1) v_4 ;;
    let new_ctrlpts := new_ctrlpts ++ [temp] in GOk new_ctrlpts) acc
  = if forallb div_ok P then GOk (acc ++ map (gen_u_pt K) P) else GErr (first_err div_ok div_err P).
Proof.
  apply (gfor_append_chk div_ok (gen_u_pt K) div_err). intros cpt a _. apply gen_u_step.
Qed.

Theorem generate_ctrlpts_weights_tie (P : list (list T)) :
  Compatibility.generate_ctrlpts_weights K P =
  res_to_gres (fun x => x) ValueError (first_err div_ok div_err P) (Weights.generate_ctrlpts_weights K P).
Proof.
  unfold Compatibility.generate_ctrlpts_weights, Weights.generate_ctrlpts_weights. cbn [gbind]. rewrite gen_u_loop.
  fold div_ok. destruct (forallb div_ok P); reflexivity.
Qed.

Definition row_err (row : list (list T)) : gerr := first_err div_ok div_err row.

Theorem generate_ctrlpts2d_weights_tie (G : list (list (list T))) :
  Compatibility.generate_ctrlpts2d_weights K G =
  res_to_gres (fun x => x) ValueError (first_err (forallb div_ok) row_err G) (Weights.generate_ctrlpts2d_weights K G).
Proof.
  unfold Compatibility.generate_ctrlpts2d_weights, Weights.generate_ctrlpts2d_weights. cbn [gbind].
  rewrite (gfor_append_chk (forallb div_ok) (map (gen_u_pt K)) row_err).
  - fold div_ok. destruct (forallb (forallb div_ok) G); reflexivity.
  - intros row a _. cbn [gbind]. rewrite gen_u_loop. destruct (forallb div_ok row); reflexivity.
Qed.

(* ---- separate_ctrlpts_weights ---- *)
Lemma sep_step (ptw : list T) (a : list (list T)) (b : list T) :
  (do temp <- gmapM (fun pw => do v_1 <- znth ptw (-1) ;; do v_2 <- odiv_chk K pw v_1 ;; GOk v_2) (zslice_to ptw (-1)) ;;
   let ctrlpts := a ++ [temp] in
   do v_4 <- znth ptw (-1) ;;
   let weights := b ++ [v_4] in GOk (ctrlpts, weights))
  = if sep_pt_ok K ptw then GOk (a ++ [unw K ptw], b ++ [lastw K ptw]) else GErr (div_err ptw).
Proof.
  rewrite zslice_to_m1.
  destruct ptw as [|c0 [|c1 r]]; [reflexivity|reflexivity|]. set (ptw := c0 :: c1 :: r).
  assert (Hne : ptw <> []) by discriminate.
  unfold sep_pt_ok. fold ptw. unfold isz0. destruct (oeqb K (lastw K ptw) 0) eqn:Ez; cbn [negb].
  - change (removelast ptw) with (c0 :: removelast (c1 :: r)). cbn [gmapM].
    rewrite (znth_last ptw 0) by auto. cbn [gbind]. unfold odiv_chk. rewrite lastw_last in Ez. rewrite Ez. reflexivity.
  - rewrite (gmapM_ok _ (fun c => odiv K c (lastw K ptw))).
    2:{ intros c _. rewrite (znth_last ptw 0) by auto. cbn [gbind]. unfold odiv_chk.
        rewrite lastw_last in Ez. rewrite Ez. reflexivity. }
    cbn [gbind]. rewrite (znth_last ptw 0) by auto. reflexivity.
Qed.

Theorem separate_ctrlpts_weights_tie (Pw : list (list T)) :
  Compatibility.separate_ctrlpts_weights K Pw =
  res_to_gres (fun x => x) ValueError (first_err (sep_pt_ok K) div_err Pw) (Weights.separate_res K Pw).
Proof.
  unfold Compatibility.separate_ctrlpts_weights, Weights.separate_res, separate_cw. cbn [gbind].
  rewrite (gfor_append2_chk (sep_pt_ok K) (unw K) (lastw K) div_err).
  - destruct (forallb (sep_pt_ok K) Pw); reflexivity.
  - intros ptw a b _. apply sep_step.
Qed.

(* the shape the property files use: whenever the model succeeds, the generated code returns the same value; whenever the model
   crashes, the generated code raises IndexError or ZeroDivisionError *)
Lemma first_err_div (ok : list T -> bool) (P : list (list T)) :
  first_err ok div_err P = IndexError \/ first_err ok div_err P = ZeroDivisionError.
Proof. unfold first_err. destruct (find _ P) as [[|c r]|]; simpl; auto. Qed.

Corollary separate_ctrlpts_weights_ok (Pw : list (list T)) r :
  Weights.separate_res K Pw = Ok r -> Compatibility.separate_ctrlpts_weights K Pw = GOk r.
Proof. intros H. rewrite separate_ctrlpts_weights_tie, H. reflexivity. Qed.

Corollary separate_ctrlpts_weights_crash (Pw : list (list T)) :
  Weights.separate_res K Pw = Crash ->
  Compatibility.separate_ctrlpts_weights K Pw = GErr IndexError \/ Compatibility.separate_ctrlpts_weights K Pw = GErr ZeroDivisionError.
Proof.
  intros H. rewrite separate_ctrlpts_weights_tie, H. cbn [res_to_gres].
  destruct (first_err_div (sep_pt_ok K) Pw) as [-> | ->]; auto.
Qed.

Corollary generate_ctrlpts_weights_ok (P : list (list T)) r :
  Weights.generate_ctrlpts_weights K P = Ok r -> Compatibility.generate_ctrlpts_weights K P = GOk r.
Proof. intros H. rewrite generate_ctrlpts_weights_tie, H. reflexivity. Qed.
End Tie.

(* ---- instances ---- *)
Require Import Reals.
Definition combine_ctrlpts_weights_tie_R := @combine_ctrlpts_weights_tie R Rops.
Definition combine_ctrlpts_weights_tie_Q := @combine_ctrlpts_weights_tie Q Qops.
Definition combine_ctrlpts_weights_none_tie_R := @combine_ctrlpts_weights_none_tie R Rops.
Definition combine_ctrlpts_weights_none_tie_Q := @combine_ctrlpts_weights_none_tie Q Qops.
Definition separate_ctrlpts_weights_tie_R := @separate_ctrlpts_weights_tie R Rops.
Definition separate_ctrlpts_weights_tie_Q := @separate_ctrlpts_weights_tie Q Qops.
Definition separate_ctrlpts_weights_ok_R := @separate_ctrlpts_weights_ok R Rops.
Definition separate_ctrlpts_weights_ok_Q := @separate_ctrlpts_weights_ok Q Qops.
Definition generate_ctrlptsw_tie_R := @generate_ctrlptsw_tie R Rops.
Definition generate_ctrlptsw_tie_Q := @generate_ctrlptsw_tie Q Qops.
Definition generate_ctrlptsw2d_tie_R := @generate_ctrlptsw2d_tie R Rops.
Definition generate_ctrlptsw2d_tie_Q := @generate_ctrlptsw2d_tie Q Qops.
Definition generate_ctrlpts_weights_tie_R := @generate_ctrlpts_weights_tie R Rops.
Definition generate_ctrlpts_weights_tie_Q := @generate_ctrlpts_weights_tie Q Qops.
Definition generate_ctrlpts2d_weights_tie_R := @generate_ctrlpts2d_weights_tie R Rops.
Definition generate_ctrlpts2d_weights_tie_Q := @generate_ctrlpts2d_weights_tie Q Qops.

(* ---- examples at Qops (the values geomdl returns) ---- *)
Local Open Scope Q_scope.
Definition exP : list (list Q) := [[1; 2; 3]; [4; 5; 6]; [7; 8; 9]].
Definition exW : list Q := [1 # 2; 2; 4].
Example combine_ex :
  Compatibility.combine_ctrlpts_weights Qops exP exW = GOk [[1 # 2; 1; 3 # 2; 1 # 2]; [8; 10; 12; 2]; [28; 32; 36; 4]]
  /\ combine_cw Qops exP exW = [[1 # 2; 1; 3 # 2; 1 # 2]; [8; 10; 12; 2]; [28; 32; 36; 4]].
Proof. split; vm_compute; reflexivity. Qed.
Example combine_none_ex :
  Compatibility.combine_ctrlpts_weights__weights_none Qops exP = GOk [[1; 2; 3; 1]; [4; 5; 6; 1]; [7; 8; 9; 1]].
Proof. vm_compute. reflexivity. Qed.
Example separate_ex :
  Compatibility.separate_ctrlpts_weights Qops [[1 # 2; 1; 3 # 2; 1 # 2]; [8; 10; 12; 2]; [28; 32; 36; 4]] = GOk (exP, exW)
  /\ Weights.separate_res Qops [[1 # 2; 1; 3 # 2; 1 # 2]; [8; 10; 12; 2]; [28; 32; 36; 4]] = Ok (exP, exW).
Proof. split; vm_compute; reflexivity. Qed.
(* a zero weight: ZeroDivisionError <-> Crash; an empty point: IndexError <-> Crash; a point that is only a weight: fine *)
Example separate_zero_weight_ex :
  Compatibility.separate_ctrlpts_weights Qops [[1; 2; 1]; [3; 4; 0]; []] = GErr ZeroDivisionError
  /\ Weights.separate_res Qops [[1; 2; 1]; [3; 4; 0]; []] = Crash
  /\ Compatibility.separate_ctrlpts_weights Qops [[1; 2; 1]; []; [3; 4; 0]] = GErr IndexError
  /\ Compatibility.separate_ctrlpts_weights Qops [[0]] = GOk ([[]], [0]).
Proof. split; [|split; [|split]]; vm_compute; reflexivity. Qed.
Example generate_ctrlptsw_ex :
  Compatibility.generate_ctrlptsw Qops [[1; 2; 3; 1 # 2]; [4; 5; 6; 2]] = GOk [[1 # 2; 1; 3 # 2; 1 # 2]; [8; 10; 12; 2]]
  /\ Weights.generate_ctrlptsw Qops [[1; 2; 3; 1 # 2]; [4; 5; 6; 2]] = Ok [[1 # 2; 1; 3 # 2; 1 # 2]; [8; 10; 12; 2]].
Proof. split; vm_compute; reflexivity. Qed.
Example generate_ctrlpts_weights_ex :
  Compatibility.generate_ctrlpts_weights Qops [[1 # 2; 1; 3 # 2; 1 # 2]; [8; 10; 12; 2]] = GOk [[1; 2; 3; 1 # 2]; [4; 5; 6; 2]]
  /\ Weights.generate_ctrlpts_weights Qops [[1 # 2; 1; 3 # 2; 1 # 2]; [8; 10; 12; 2]] = Ok [[1; 2; 3; 1 # 2]; [4; 5; 6; 2]]
  /\ Compatibility.generate_ctrlpts_weights Qops [[1; 1]; [2; 0]] = GErr ZeroDivisionError
  /\ Weights.generate_ctrlpts_weights Qops [[1; 1]; [2; 0]] = Crash.
Proof. split; [|split; [|split]]; vm_compute; reflexivity. Qed.
Example generate_2d_ex :
  Compatibility.generate_ctrlptsw2d Qops [[[1; 2; 2]; [3; 4; 1 # 2]]; [[5; 6; 1]; [7; 8; 3]]]
    = GOk [[[2; 4; 2]; [3 # 2; 2; 1 # 2]]; [[5; 6; 1]; [21; 24; 3]]]
  /\ Compatibility.generate_ctrlpts2d_weights Qops [[[2; 4; 2]; [3 # 2; 2; 1 # 2]]; [[5; 6; 1]; [21; 24; 3]]]
    = GOk [[[1; 2; 2]; [3; 4; 1 # 2]]; [[5; 6; 1]; [7; 8; 3]]]
  /\ Weights.generate_ctrlptsw2d Qops [[[1; 2; 2]; [3; 4; 1 # 2]]; [[5; 6; 1]; [7; 8; 3]]]
    = Ok [[[2; 4; 2]; [3 # 2; 2; 1 # 2]]; [[5; 6; 1]; [21; 24; 3]]].
Proof. split; [|split]; vm_compute; reflexivity. Qed.
