(* Real-number facts about Model/Voxel.v: a voxel is marked filled exactly when some point lies in its padded half-open
   box; the voxels of the generated grid are [corner, corner + steps]; find_ctrlpts returns the active window of the span. *)
From Coq Require Import List Arith Bool Lia Reals Lra Psatz.
From NV Require Import Scalar.Ops Model.Common Model.Basis Model.Geom2D Model.Voxel Proofs.Boehm Proofs.BasisR Proofs.Geom2DR.
Import ListNotations.
Open Scope R_scope.

Definition in_padded_box (tol x0 y0 z0 x1 y1 z1 : R) (p : R * R * R) : Prop :=
  let '(px, py, pz) := p in
  x0 - tol <= px < x1 + tol /\ y0 - tol <= py < y1 + tol /\ z0 - tol <= pz < z1 + tol.
Definition pt3 (p : R * R * R) : list R := let '(a, b, c) := p in [a; b; c].

Lemma mul_nonneg_iff a e : 0 < e -> (0 <= a * e <-> 0 <= a).
Proof. intros He. split; intros H; nra. Qed.
Lemma mul_lt_sq_iff a e : 0 < e -> (a * e < e * e <-> a < e).
Proof. intros He. split; intros H; nra. Qed.

Lemma vox_test_spec tol x0 y0 z0 x1 y1 z1 p :
  x0 - tol < x1 + tol -> y0 - tol < y1 + tol -> z0 - tol < z1 + tol ->
  let bbox := [[x0; y0; z0]; [x1; y1; z1]] in
  let bbmin := vox_bbmin Rops tol bbox in let bbmax := vox_bbmax Rops tol bbox in
  let i := [List.nth 0 bbmax 0 - List.nth 0 bbmin 0; 0; 0] in
  let j := [0; List.nth 1 bbmax 0 - List.nth 1 bbmin 0; 0] in
  let k := [0; 0; List.nth 2 bbmax 0 - List.nth 2 bbmin 0] in
  vox_test Rops bbmin i j k (vdot Rops i i) (vdot Rops j j) (vdot Rops k k) (pt3 p) = true <->
  in_padded_box tol x0 y0 z0 x1 y1 z1 p.
Proof.
  intros Hx Hy Hz. destruct p as [[px py] pz]. cbv zeta.
  unfold vox_test, vox_bbmin, vox_bbmax, pt3, in_padded_box, vdot, vsub. cbn [List.nth map combine fst snd sumT]. rsimp.
  rewrite !andb_true_iff, !Rltb_true, !Rleb_true.
  set (ex := x1 + tol - (x0 - tol)). set (ey := y1 + tol - (y0 - tol)). set (ez := z1 + tol - (z0 - tol)).
  assert (0 < ex) by (subst ex; lra). assert (0 < ey) by (subst ey; lra). assert (0 < ez) by (subst ez; lra).
  replace ((px - (x0 - tol)) * ex + ((py - (y0 - tol)) * 0 + ((pz - (z0 - tol)) * 0 + 0))) with ((px - (x0 - tol)) * ex) by ring.
  replace ((px - (x0 - tol)) * 0 + ((py - (y0 - tol)) * ey + ((pz - (z0 - tol)) * 0 + 0))) with ((py - (y0 - tol)) * ey) by ring.
  replace ((px - (x0 - tol)) * 0 + ((py - (y0 - tol)) * 0 + ((pz - (z0 - tol)) * ez + 0))) with ((pz - (z0 - tol)) * ez) by ring.
  replace (ex * ex + (0 * 0 + (0 * 0 + 0))) with (ex * ex) by ring.
  replace (0 * 0 + (ey * ey + (0 * 0 + 0))) with (ey * ey) by ring.
  replace (0 * 0 + (0 * 0 + (ez * ez + 0))) with (ez * ez) by ring.
  rewrite !mul_nonneg_iff, !mul_lt_sq_iff by assumption.
  subst ex ey ez. split; intros; lra.
Qed.

(* [G] is_point_inside_voxel returns 1 exactly when some point lies in the padded half-open box
   [min - tol, max + tol) of the voxel, and 0 otherwise *)
Theorem voxel_filled_iff_some_point_inside tol x0 y0 z0 x1 y1 z1 (pts : list (R * R * R)) :
  x0 - tol < x1 + tol -> y0 - tol < y1 + tol -> z0 - tol < z1 + tol ->
  let r := is_point_inside_voxel Rops tol [[x0; y0; z0]; [x1; y1; z1]] (map pt3 pts) in
  (r = 1%nat <-> exists p, In p pts /\ in_padded_box tol x0 y0 z0 x1 y1 z1 p) /\ (r = 1%nat \/ r = 0%nat).
Proof.
  intros Hx Hy Hz. cbv zeta. unfold is_point_inside_voxel.
  match goal with |- context [existsb ?f ?l] => destruct (existsb f l) eqn:E end.
  - split; [|left; reflexivity]. split; [intros _|reflexivity].
    apply existsb_exists in E. destruct E as [q [Hq Ht]]. apply in_map_iff in Hq. destruct Hq as [p [Ep Hp]]. subst q.
    exists p. split; [exact Hp|]. apply (vox_test_spec tol x0 y0 z0 x1 y1 z1 p Hx Hy Hz). exact Ht.
  - split; [|right; reflexivity]. split; [discriminate|]. intros [p [Hp Hin]]. exfalso.
    match type of E with existsb ?f ?l = false => assert (Et : existsb f l = true) end.
    { apply existsb_exists. exists (pt3 p). split; [apply in_map; exact Hp|].
      apply (vox_test_spec tol x0 y0 z0 x1 y1 z1 p Hx Hy Hz). exact Hin. }
    rewrite Et in E. discriminate.
Qed.

(* [G] the in/out flags are computed voxel by voxel, identically in the single- and the multi-process variant *)
Theorem find_inouts_mp_eq_st (T : Type) (K : ops T) n tol grid pts : find_inouts_mp K n tol grid pts = find_inouts_st K tol grid pts.
Proof. reflexivity. Qed.
Theorem find_inouts_pointwise tol grid pts i :
  (i < length grid)%nat ->
  List.nth i (find_inouts_st Rops tol grid pts) 0%nat = is_point_inside_voxel Rops tol (List.nth i grid []) pts.
Proof.
  intros Hi. unfold find_inouts_st.
  rewrite (nth_indep _ 0%nat (is_point_inside_voxel Rops tol [] pts)) by (rewrite map_length; exact Hi).
  apply (map_nth (fun bb => is_point_inside_voxel Rops tol bb pts)).
Qed.

(* ------------------------------------------------------------------ find_ctrlpts *)
(* [G] the returned points are P[span-p], ..., P[span] (p+1 points starting at span - p) ... *)
Theorem find_ctrlpts_curve_window p (U : list R) (P : list (list R)) t :
  find_ctrlpts_curve Rops p U P t =
  map (fun i => List.nth (find_span_linear Rops p U (length P) t - p + i) P []) (seq 0 (S p)).
Proof. reflexivity. Qed.
Theorem find_ctrlpts_surface_window pu pv (Uu Uv : list R) su sv (P : list (list R)) tu tv :
  find_ctrlpts_surface Rops pu pv Uu Uv su sv P tu tv =
  map (fun k => map (fun l => List.nth ((find_span_linear Rops pv Uv sv tv - pv + l) + sv * (find_span_linear Rops pu Uu su tu - pu + k)) P [])
                    (seq 0 (S pv))) (seq 0 (S pu)).
Proof. reflexivity. Qed.

(* ... and these are exactly the control points whose basis function can be non-zero at t: every Cox-de Boor function
   N_{i,p} with i outside [span-p, span] vanishes at t (t in the half-open domain [U_p, U_n)) *)
Theorem find_ctrlpts_is_active_window (U : list R) (t : R) (p n : nat) :
  sortedR U -> (p < n)%nat -> (n < length U)%nat -> knR U p <= t < knR U n ->
  let k := find_span_linear Rops p U n t in
  (p <= k < n)%nat /\ forall i, (i < n)%nat -> N (Ufun U) p i t <> 0 -> (k - p <= i <= k)%nat.
Proof.
  intros Hs Hn HL [Ht1 Ht2]. cbv zeta.
  destruct (find_span_linear_spec U t p n Hn HL Ht1) as [Hk [Hle Hlt]]. cbv zeta in *.
  set (k := find_span_linear Rops p U n t) in *.
  split; [exact Hk|]. intros i Hi Hne.
  assert (Hlt' : t < knR U (S k)) by (destruct Hlt as [H|[_ H]]; [exact H|lra]).
  assert (HU : forall j, Ufun U j <= Ufun U (S j)) by (apply Ufun_sorted; exact Hs).
  destruct (le_lt_dec i k) as [Hik|Hik]; [destruct (le_lt_dec (k - p) i) as [Hpi|Hpi]; [lia|]|]; exfalso; apply Hne.
  - (* i + p + 1 <= k : the support [U_i, U_{i+p+1}) ends before t *)
    apply N_support; [exact HU|]. right.
    assert (Ufun U (i + p + 1) <= Ufun U k) by (apply U_mono; [exact HU|lia]).
    rewrite (Ufun_in U k) in H by lia. lra.
  - (* k < i : the support starts after t *)
    apply N_support; [exact HU|]. left.
    assert (Ufun U (S k) <= Ufun U i) by (apply U_mono; [exact HU|lia]).
    rewrite (Ufun_in U (S k)) in H by lia. lra.
Qed.

(* ------------------------------------------------------------------ the voxel grid covers the bounding box *)
(* consecutive values are at most `step` apart and the last one is >= stop *)
Fixpoint chain (step stop : R) (v : R) (l : list R) : Prop :=
  match l with
  | [] => stop <= v
  | w :: r => w <= v + step /\ v <= w /\ chain step stop w r
  end.

Lemma frange_loop_chain x0 stop step : 0 <= step -> forall fuel i x l,
  x = x0 + i * step ->
  frange_loop Rops fuel x0 stop step (step / 2) i x = Some l -> chain step stop x l.
Proof.
  intros Hs. induction fuel as [|f IH]; intros i x l Hx H; [discriminate|].
  cbn [frange_loop] in H. rsimp. unfold Rltb in H.
  destruct (Rlt_dec (x + step / 2) stop) as [Hlt|Hge].
  - destruct (frange_loop Rops f x0 stop step (step / 2) (i + 1) (x0 + (i + 1) * step)) as [l'|] eqn:E; [|discriminate].
    inversion H; subst l. cbn [chain]. rewrite Hx. repeat split; try nra.
    apply (IH (i + 1) (x0 + (i + 1) * step) l' eq_refl E).
  - destruct (Rlt_dec x stop) as [Hl|Hl]; inversion H; subst l; cbn [chain]; repeat split; lra.
Qed.

Lemma chain_cover step stop : 0 <= step -> forall l v p, chain step stop v l -> v <= p <= stop ->
  exists w, In w (v :: l) /\ w <= p <= w + step.
Proof.
  intros Hs. induction l as [|w r IH]; intros v p Hc Hp; cbn [chain] in Hc.
  - exists v. split; [left; reflexivity|]. lra.
  - destruct Hc as [H1 [H2 H3]]. destruct (Rle_dec w p) as [Hw|Hw].
    + destruct (IH w p H3 (conj Hw (proj2 Hp))) as [u [Hu Hpu]]. exists u. split; [right; exact Hu|exact Hpu].
    + exists v. split; [left; reflexivity|]. lra.
Qed.

Lemma frange_cover fuel start stop step vals p : 0 <= step ->
  frange Rops fuel start stop step = Ok vals -> start <= p <= stop ->
  exists w, In w vals /\ w <= p <= w + step.
Proof.
  intros Hs H Hp. unfold frange in H. unfold o2 in H. rsimp.
  replace (1 + 1) with 2 in H by lra.
  destruct (frange_loop Rops fuel start stop step (step / 2) 0 start) as [l|] eqn:E; [|discriminate].
  inversion H; subst vals.
  apply (chain_cover step stop Hs l start p); [|exact Hp].
  apply (frange_loop_chain start stop step Hs fuel 0 start l); [lra|exact E].
Qed.

Lemma vmin3_nonneg a b c : 0 <= a -> 0 <= b -> 0 <= c -> 0 <= vmin3 Rops [a; b; c].
Proof.
  intros. unfold vmin3, omin. cbn [hd tl fold_left]. cbn [oleb Rops]. unfold Rleb.
  destruct (Rle_dec a b); [destruct (Rle_dec a c)|destruct (Rle_dec b c)]; assumption.
Qed.

(* [G] every point of the bounding box lies in some voxel [corner, corner + steps] of the generated grid
   (cuboid and cube voxels alike; the grid may overhang the box) *)
Theorem voxel_grid_covers_bbox fuel x0 y0 z0 x1 y1 z1 sz cubes g px py pz :
  x0 <= x1 -> y0 <= y1 -> z0 <= z1 ->
  generate_voxel_grid Rops fuel [[x0; y0; z0]; [x1; y1; z1]] sz cubes = Ok g ->
  x0 <= px <= x1 -> y0 <= py <= y1 -> z0 <= pz <= z1 ->
  exists a b c ea eb ec, In [[a; b; c]; [a + ea; b + eb; c + ec]] g /\
    a <= px <= a + ea /\ b <= py <= b + eb /\ c <= pz <= c + ec.
Proof.
  intros Hx Hy Hz H Hpx Hpy Hpz. unfold generate_voxel_grid in H.
  destruct (orb _ _) eqn:Esz; [discriminate|].
  apply orb_false_iff in Esz. destruct Esz as [E0 Esz]. apply orb_false_iff in Esz. destruct Esz as [E1 E2].
  apply Nat.leb_gt in E0, E1, E2.
  cbv zeta in H. cbn [List.nth seq map] in H. rsimp.
  set (s0 := (x1 - x0) / ofnat Rops (List.nth 0 sz 0%nat - 1)) in *.
  set (s1 := (y1 - y0) / ofnat Rops (List.nth 1 sz 0%nat - 1)) in *.
  set (s2 := (z1 - z0) / ofnat Rops (List.nth 2 sz 0%nat - 1)) in *.
  assert (Hpos : forall n : nat, (1 < n)%nat -> 0 < ofnat Rops (n - 1)).
  { intros n Hn. replace (ofnat Rops (n - 1)) with (INR (n - 1)).
    - apply lt_0_INR. lia.
    - clear. induction (n - 1)%nat as [|m IH]; [reflexivity|]. cbn [ofnat]. rsimp. rewrite <- IH, S_INR. reflexivity. }
  assert (P0 : 0 <= s0) by (subst s0; apply Rmult_le_pos; [lra|left; apply Rinv_0_lt_compat, Hpos, E0]).
  assert (P1 : 0 <= s1) by (subst s1; apply Rmult_le_pos; [lra|left; apply Rinv_0_lt_compat, Hpos, E1]).
  assert (P2 : 0 <= s2) by (subst s2; apply Rmult_le_pos; [lra|left; apply Rinv_0_lt_compat, Hpos, E2]).
  set (steps := if cubes then repeat (vmin3 Rops [s0; s1; s2]) 3 else [s0; s1; s2]) in *.
  assert (Hst : exists ea eb ec, steps = [ea; eb; ec] /\ 0 <= ea /\ 0 <= eb /\ 0 <= ec).
  { subst steps. destruct cubes.
    - exists (vmin3 Rops [s0; s1; s2]), (vmin3 Rops [s0; s1; s2]), (vmin3 Rops [s0; s1; s2]).
      pose proof (vmin3_nonneg s0 s1 s2 P0 P1 P2). auto.
    - exists s0, s1, s2. auto. }
  destruct Hst as [ea [eb [ec [Est [Pa [Pb Pc]]]]]]. rewrite Est in H. cbn [List.nth] in H.
  destruct (frange Rops fuel x0 x1 ea) as [r0| |] eqn:F0; try discriminate.
  destruct (frange Rops fuel y0 y1 eb) as [r1| |] eqn:F1; try discriminate.
  destruct (frange Rops fuel z0 z1 ec) as [r2| |] eqn:F2; try discriminate.
  cbn [res_bind] in H. inversion H; subst g; clear H.
  destruct (frange_cover fuel x0 x1 ea r0 px Pa F0 Hpx) as [a [Ia Ha]].
  destruct (frange_cover fuel y0 y1 eb r1 py Pb F1 Hpy) as [b [Ib Hb]].
  destruct (frange_cover fuel z0 z1 ec r2 pz Pc F2 Hpz) as [c [Ic Hc]].
  exists a, b, c, ea, eb, ec. split; [|auto].
  apply in_flat_map. exists a. split; [exact Ia|]. apply in_flat_map. exists b. split; [exact Ib|].
  apply in_map_iff. exists c. split; [|exact Ic]. reflexivity.
Qed.
