(* Real-number facts about the planar predicates and ray queries of Model/Geom2D.v:
   is_left = twice the signed area; ray.intersect parameters / status; winding number of a rectangle;
   convex hull: subset of the input, strict left turns. *)
From Coq Require Import List Arith Bool Lia Reals Lra Psatz ZArith Nsatz.
From NV Require Import Scalar.Ops Model.Common Model.Geom2D.
Import ListNotations.
Open Scope R_scope.

(* ------------------------------------------------------------------ boolean comparisons of Rops *)
Lemma Rleb_true a b : Rleb a b = true <-> a <= b.
Proof. unfold Rleb. destruct (Rle_dec a b); split; intros; try lra; congruence. Qed.
Lemma Rleb_false a b : Rleb a b = false <-> b < a.
Proof. unfold Rleb. destruct (Rle_dec a b); split; intros; try lra; congruence. Qed.
Lemma Rltb_true a b : Rltb a b = true <-> a < b.
Proof. unfold Rltb. destruct (Rlt_dec a b); split; intros; try lra; congruence. Qed.
Lemma Rltb_false a b : Rltb a b = false <-> b <= a.
Proof. unfold Rltb. destruct (Rlt_dec a b); split; intros; try lra; congruence. Qed.
Lemma oabs_R x : oabs Rops x = Rabs x.
Proof.
  unfold oabs, oneg. rsimp. unfold Rleb. destruct (Rle_dec 0 x).
  - rewrite Rabs_right; lra.
  - rewrite Rabs_left; lra.
Qed.

(* ------------------------------------------------------------------ is_left *)
(* [G] is_left(P0,P1,P2) is twice the signed area of the triangle (shoelace formula): > 0 iff P2 is left of P0->P1 *)
Theorem is_left_twice_signed_area x0 y0 x1 y1 x2 y2 :
  is_left Rops [x0; y0] [x1; y1] [x2; y2] = x0 * y1 - x1 * y0 + (x1 * y2 - x2 * y1) + (x2 * y0 - x0 * y2).
Proof. unfold is_left, cx, cy. cbn [List.nth]. rsimp. ring. Qed.
Theorem is_left_antisym x0 y0 x1 y1 x2 y2 :
  is_left Rops [x1; y1] [x0; y0] [x2; y2] = - is_left Rops [x0; y0] [x1; y1] [x2; y2] /\
  is_left Rops [x1; y1] [x2; y2] [x0; y0] = is_left Rops [x0; y0] [x1; y1] [x2; y2].
Proof. unfold is_left, cx, cy. cbn [List.nth]. rsimp. split; ring. Qed.
Theorem is_left_translate x0 y0 x1 y1 x2 y2 a b :
  is_left Rops [x0 + a; y0 + b] [x1 + a; y1 + b] [x2 + a; y2 + b] = is_left Rops [x0; y0] [x1; y1] [x2; y2].
Proof. unfold is_left, cx, cy. cbn [List.nth]. rsimp. ring. Qed.

(* ------------------------------------------------------------------ ray.intersect *)
Lemma vector_is_zero3 tol a b c :
  vector_is_zero Rops tol [a; b; c] = true <-> (Rabs a < tol /\ Rabs b < tol /\ Rabs c < tol).
Proof.
  unfold vector_is_zero. cbn [forallb]. rewrite !oabs_R. cbn [oltb Rops]. rewrite !andb_true_iff, !Rltb_true. tauto.
Qed.

(* [G, by definition] meaning of the status: COLINEAR iff every component of d1 x d2 is below the tolerance;
   otherwise INTERSECT iff the two evaluated points are closer than tol, else SKEW *)
Theorem intersect3d_status tol r1 r2 :
  let '(t1, t2, st) := intersect3d Rops tol r1 r2 in
  (st = COLINEAR <-> vector_is_zero Rops tol (cross3 Rops (ray_d Rops r1) (ray_d Rops r2)) = true) /\
  (st = INTERSECT -> dist2 Rops (ray_eval Rops r1 t1) (ray_eval Rops r2 t2) < tol * tol) /\
  (st = SKEW -> tol * tol <= dist2 Rops (ray_eval Rops r1 t1) (ray_eval Rops r2 t2)).
Proof.
  unfold intersect3d.
  destruct (vector_is_zero Rops tol (cross3 Rops (ray_d Rops r1) (ray_d Rops r2))) eqn:E.
  - repeat split; intros; try discriminate; reflexivity.
  - match goal with |- context [oltb Rops ?a ?b] => destruct (oltb Rops a b) eqn:E2 end; cbn [oltb Rops] in E2.
    + apply Rltb_true in E2. rsimp. repeat split; intros; try discriminate; assumption.
    + apply Rltb_false in E2. rsimp. repeat split; intros; try discriminate; assumption.
Qed.

(* [G] proportional directions (parallel or coincident lines, or a degenerate ray) are reported COLINEAR *)
Theorem intersect3d_parallel_colinear tol px py pz dx dy dz qx qy qz lam :
  0 < tol ->
  let r1 := ([px; py; pz], [px + dx; py + dy; pz + dz]) in
  let r2 := ([qx; qy; qz], [qx + lam * dx; qy + lam * dy; qz + lam * dz]) in
  snd (intersect3d Rops tol r1 r2) = COLINEAR.
Proof.
  intros Ht. cbv zeta. unfold intersect3d.
  assert (E : vector_is_zero Rops tol (cross3 Rops (ray_d Rops ([px; py; pz], [px + dx; py + dy; pz + dz]))
                 (ray_d Rops ([qx; qy; qz], [qx + lam * dx; qy + lam * dy; qz + lam * dz]))) = true).
  { unfold ray_d, cross3, vsub, cx, cy, cz. cbn [fst snd combine map List.nth]. rsimp.
    apply vector_is_zero3.
    replace ((py + dy - py) * (qz + lam * dz - qz) - (pz + dz - pz) * (qy + lam * dy - qy)) with 0 by ring.
    replace ((pz + dz - pz) * (qx + lam * dx - qx) - (px + dx - px) * (qz + lam * dz - qz)) with 0 by ring.
    replace ((px + dx - px) * (qy + lam * dy - qy) - (py + dy - py) * (qx + lam * dx - qx)) with 0 by ring.
    rewrite Rabs_R0. lra. }
  rewrite E. reflexivity.
Qed.

Lemma mul_div_cancel a b : b <> 0 -> a * b / b = a.
Proof. intros H. field. exact H. Qed.

(* [G] 3-D (and, through the homogeneous embedding, 2-D): if the direction cross product is not below the tolerance and
   the two lines meet, ray1(s1) = ray2(s2), then intersect returns exactly (s1, s2, INTERSECT): the parameters are the
   unique ones whose points coincide on both rays *)
Theorem intersect3d_meeting tol p1x p1y p1z p2x p2y p2z q1x q1y q1z q2x q2y q2z s1 s2 :
  0 < tol ->
  let r1 := ([p1x; p1y; p1z], [p2x; p2y; p2z]) in
  let r2 := ([q1x; q1y; q1z], [q2x; q2y; q2z]) in
  vector_is_zero Rops tol (cross3 Rops (ray_d Rops r1) (ray_d Rops r2)) = false ->
  ray_eval Rops r1 s1 = ray_eval Rops r2 s2 ->
  intersect3d Rops tol r1 r2 = (s1, s2, INTERSECT).
Proof.
  intros Ht. cbv zeta. intros Hz Hm. unfold intersect3d. rewrite Hz.
  unfold ray_eval, ray_d, ray_p, vadd, vsub in Hm. cbn [fst snd combine map] in Hm. rsimp.
  injection Hm as E1 E2 E3.
  unfold ray_d, ray_p, cross3, vsub, vdot, cx, cy, cz in *. cbn [fst snd combine map List.nth sumT] in *. rsimp.
  set (c1 := (p2y - p1y) * (q2z - q1z) - (p2z - p1z) * (q2y - q1y)) in *.
  set (c2 := (p2z - p1z) * (q2x - q1x) - (p2x - p1x) * (q2z - q1z)) in *.
  set (c3 := (p2x - p1x) * (q2y - q1y) - (p2y - p1y) * (q2x - q1x)) in *.
  assert (Hcc : c1 * c1 + (c2 * c2 + (c3 * c3 + 0)) <> 0).
  { destruct (vector_is_zero Rops tol [c1; c2; c3]) eqn:Ez; [discriminate|].
    assert (Hn : ~ (Rabs c1 < tol /\ Rabs c2 < tol /\ Rabs c3 < tol)).
    { intro Hc. apply vector_is_zero3 in Hc. congruence. }
    intro H0. apply Hn.
    assert (c1 = 0 /\ c2 = 0 /\ c3 = 0) as [Z1 [Z2 Z3]] by (repeat split; nra).
    rewrite Z1, Z2, Z3, Rabs_R0. lra. }
  assert (T1 : ((q1y - p1y) * (q2z - q1z) - (q1z - p1z) * (q2y - q1y)) * c1 +
               (((q1z - p1z) * (q2x - q1x) - (q1x - p1x) * (q2z - q1z)) * c2 +
                (((q1x - p1x) * (q2y - q1y) - (q1y - p1y) * (q2x - q1x)) * c3 + 0)) =
               s1 * (c1 * c1 + (c2 * c2 + (c3 * c3 + 0)))).
  { subst c1 c2 c3. nsatz. }
  assert (T2 : ((q1y - p1y) * (p2z - p1z) - (q1z - p1z) * (p2y - p1y)) * c1 +
               (((q1z - p1z) * (p2x - p1x) - (q1x - p1x) * (p2z - p1z)) * c2 +
                (((q1x - p1x) * (p2y - p1y) - (q1y - p1y) * (p2x - p1x)) * c3 + 0)) =
               s2 * (c1 * c1 + (c2 * c2 + (c3 * c3 + 0)))).
  { subst c1 c2 c3. nsatz. }
  rewrite T1, T2.
  rewrite !(mul_div_cancel _ _ Hcc).
  unfold dist2, ray_eval, ray_d, ray_p, vadd, vsub, vdot. cbn [fst snd combine map sumT]. rsimp.
  rewrite E1, E2, E3.
  assert (Hd : (q1x + (q2x - q1x) * s2 - (q1x + (q2x - q1x) * s2)) * (q1x + (q2x - q1x) * s2 - (q1x + (q2x - q1x) * s2)) +
               ((q1y + (q2y - q1y) * s2 - (q1y + (q2y - q1y) * s2)) * (q1y + (q2y - q1y) * s2 - (q1y + (q2y - q1y) * s2)) +
                ((q1z + (q2z - q1z) * s2 - (q1z + (q2z - q1z) * s2)) * (q1z + (q2z - q1z) * s2 - (q1z + (q2z - q1z) * s2)) + 0)) = 0) by ring.
  rewrite Hd. unfold Rltb. destruct (Rlt_dec 0 (tol * tol)) as [|Hn]; [reflexivity|]. exfalso. apply Hn. nra.
Qed.

(* [G] 2-D rays: non-parallel lines always meet; the returned parameters are the unique solution of
   p1 + t1 d1 = p2 + t2 d2 and the status is INTERSECT *)
Theorem intersect_2d_params tol a1 b1 a2 b2 c1 d1 c2 d2 :
  0 < tol ->
  let D := (a2 - a1) * (d2 - d1) - (b2 - b1) * (c2 - c1) in
  tol <= Rabs D ->
  let t1 := ((c1 - a1) * (d2 - d1) - (d1 - b1) * (c2 - c1)) / D in
  let t2 := ((c1 - a1) * (b2 - b1) - (d1 - b1) * (a2 - a1)) / D in
  intersect Rops tol ([a1; b1], [a2; b2]) ([c1; d1], [c2; d2]) = Ok (t1, t2, INTERSECT) /\
  ray_eval Rops ([a1; b1], [a2; b2]) t1 = ray_eval Rops ([c1; d1], [c2; d2]) t2.
Proof.
  intros Ht D HD t1 t2.
  assert (HD0 : D <> 0). { intro E. rewrite E, Rabs_R0 in HD. lra. }
  assert (Hev : ray_eval Rops ([a1; b1], [a2; b2]) t1 = ray_eval Rops ([c1; d1], [c2; d2]) t2).
  { unfold ray_eval, ray_d, ray_p, vadd, vsub. cbn [fst snd combine map]. rsimp.
    f_equal; [|f_equal]; subst t1 t2 D; field; exact HD0. }
  split; [|exact Hev].
  unfold intersect, ray_dim, hom. cbn [fst snd length Nat.eqb negb app]. rsimp.
  rewrite (intersect3d_meeting tol a1 b1 1 a2 b2 1 c1 d1 1 c2 d2 1 t1 t2 Ht); [reflexivity| |].
  - destruct (vector_is_zero Rops tol _) eqn:Ez; [|reflexivity]. exfalso.
    unfold ray_d, cross3, vsub, cx, cy, cz in Ez. cbn [fst snd combine map List.nth] in Ez. rsimp.
    apply vector_is_zero3 in Ez. destruct Ez as [_ [_ Ez]]. fold D in Ez. lra.
  - unfold ray_eval, ray_d, ray_p, vadd, vsub in *. cbn [fst snd combine map] in *. rsimp.
    injection Hev as E1 E2. rewrite E1, E2. f_equal. f_equal. f_equal. ring.
Qed.

(* ------------------------------------------------------------------ winding number of an axis-parallel rectangle *)
Lemma wn_edge_horizontal x y ax bx h : wn_edge Rops [x; y] [ax; h] [bx; h] = 0%Z.
Proof.
  unfold wn_edge, cy. cbn [List.nth]. cbn [oleb oltb Rops]. unfold Rleb, Rltb.
  destruct (Rle_dec h y); destruct (Rlt_dec y h); try reflexivity; lra.
Qed.
Lemma wn_edge_up x y a y0 y1 : y0 < y1 ->
  wn_edge Rops [x; y] [a; y0] [a; y1] = (if Rle_dec y0 y then if Rlt_dec y y1 then if Rlt_dec x a then 1 else 0 else 0 else 0)%Z.
Proof.
  intros H. unfold wn_edge, is_left, cx, cy. cbn [List.nth]. rsimp. unfold Rleb, Rltb.
  destruct (Rle_dec y0 y); destruct (Rlt_dec y y1); try reflexivity.
  - destruct (Rlt_dec x a); destruct (Rlt_dec 0 ((a - a) * (y - y0) - (x - a) * (y1 - y0))); try reflexivity; exfalso; nra.
  - destruct (Rle_dec y1 y); [lra|reflexivity].
  - destruct (Rle_dec y1 y); [lra|reflexivity].
Qed.
Lemma wn_edge_down x y a y0 y1 : y0 < y1 ->
  wn_edge Rops [x; y] [a; y1] [a; y0] = (if Rle_dec y0 y then if Rlt_dec y y1 then if Rlt_dec x a then -1 else 0 else 0 else 0)%Z.
Proof.
  intros H. unfold wn_edge, is_left, cx, cy. cbn [List.nth]. rsimp. unfold Rleb, Rltb.
  destruct (Rle_dec y1 y); destruct (Rle_dec y0 y); destruct (Rlt_dec y y1); try reflexivity; try lra.
  - destruct (Rlt_dec y y0); [lra|reflexivity].
  - destruct (Rlt_dec x a); destruct (Rlt_dec ((a - a) * (y - y1) - (x - a) * (y0 - y1)) 0); try reflexivity; exfalso; nra.
Qed.

(* [G] counter-clockwise rectangle [x0,x1] x [y0,y1]: the winding test is true exactly on the half-open rectangle, in
   particular (points off the boundary) true for strictly interior and false for strictly exterior points *)
Theorem wn_rectangle x0 x1 y0 y1 x y : x0 < x1 -> y0 < y1 ->
  wn_poly Rops [x; y] [[x0; y0]; [x1; y0]; [x1; y1]; [x0; y1]; [x0; y0]] = true <->
  (x0 <= x < x1 /\ y0 <= y < y1).
Proof.
  intros Hx Hy. unfold wn_poly. cbn [wn_count].
  rewrite !wn_edge_horizontal, wn_edge_up, wn_edge_down by assumption.
  destruct (Rle_dec y0 y); destruct (Rlt_dec y y1); destruct (Rlt_dec x x1); destruct (Rlt_dec x x0);
    cbn; split; intros; try discriminate; try lra; try reflexivity.
Qed.
Corollary wn_rectangle_off_boundary x0 x1 y0 y1 x y : x0 < x1 -> y0 < y1 ->
  ((x0 < x < x1 /\ y0 < y < y1) -> wn_poly Rops [x; y] [[x0; y0]; [x1; y0]; [x1; y1]; [x0; y1]; [x0; y0]] = true) /\
  ((x < x0 \/ x1 < x \/ y < y0 \/ y1 < y) -> wn_poly Rops [x; y] [[x0; y0]; [x1; y0]; [x1; y1]; [x0; y1]; [x0; y0]] = false).
Proof.
  intros Hx Hy. pose proof (wn_rectangle x0 x1 y0 y1 x y Hx Hy) as W. split; intros H.
  - apply W. lra.
  - destruct (wn_poly Rops [x; y] _) eqn:E; [|reflexivity]. destruct W as [W1 _]. specialize (W1 eq_refl). lra.
Qed.
(* the clockwise rectangle gives the same answer (winding number -1) *)
Theorem wn_rectangle_cw x0 x1 y0 y1 x y : x0 < x1 -> y0 < y1 ->
  wn_poly Rops [x; y] [[x0; y0]; [x0; y1]; [x1; y1]; [x1; y0]; [x0; y0]] = true <->
  (x0 <= x < x1 /\ y0 <= y < y1).
Proof.
  intros Hx Hy. unfold wn_poly. cbn [wn_count].
  rewrite !wn_edge_horizontal, wn_edge_up, wn_edge_down by assumption.
  destruct (Rle_dec y0 y); destruct (Rlt_dec y y1); destruct (Rlt_dec x x1); destruct (Rlt_dec x x0);
    cbn; split; intros; try discriminate; try lra; try reflexivity.
Qed.

(* ------------------------------------------------------------------ convex hull *)
Section Hull.
Notation pt := (list R).

Lemma in_insert_pt (p x : pt) l : In x (insert_pt Rops p l) <-> x = p \/ In x l.
Proof.
  induction l as [|q l IH]; simpl.
  - split; intros [H|[]]; left; congruence.
  - destruct (pt_ltb Rops p q); simpl; [split; intros [H|H]; auto; left; congruence|]. rewrite IH. tauto.
Qed.
Lemma in_sort_pts (x : pt) l : In x (sort_pts Rops l) <-> In x l.
Proof.
  unfold sort_pts. induction l as [|p l IH]; simpl; [tauto|]. rewrite in_insert_pt, IH. split; intros [H|H]; auto.
Qed.
Lemma in_pop_nonleft (x r : pt) stk : In x (pop_nonleft Rops stk r) -> In x stk.
Proof.
  induction stk as [|h1 tl IH]; cbn [pop_nonleft]; [auto|].
  destruct tl as [|h2 tl']; [auto|].
  match goal with |- context [if ?c then _ else _] => destruct c end; [auto|]. intros H. right. apply IH. exact H.
Qed.
Lemma in_keep_left (x r : pt) stk : In x (keep_left Rops stk r) -> x = r \/ In x stk.
Proof.
  unfold keep_left. destruct (pop_nonleft Rops stk r) as [|h s] eqn:E.
  - simpl. intros [H|[]]; auto.
  - destruct (pt_eqb Rops h r).
    + intros H. right. apply (in_pop_nonleft x r). rewrite E. exact H.
    + simpl. intros [H|H]; auto. right. apply (in_pop_nonleft x r). rewrite E. exact H.
Qed.
Lemma in_fold_keep_left (x : pt) pts : forall stk, In x (fold_left (keep_left Rops) pts stk) -> In x pts \/ In x stk.
Proof.
  induction pts as [|p pts IH]; intros stk H; simpl in *; [auto|].
  apply IH in H. destruct H as [H|H]; [auto|]. apply in_keep_left in H. destruct H; auto.
Qed.
Lemma in_half_hull (x : pt) pts : In x (half_hull Rops pts) -> In x pts.
Proof.
  unfold half_hull. rewrite <- in_rev. intros H. apply in_fold_keep_left in H. destruct H as [H|[]]. exact H.
Qed.
Lemma in_removelast {A} (x : A) l : In x (removelast l) -> In x l.
Proof.
  induction l as [|a l IH]; simpl; [tauto|]. destruct l as [|b l]; [tauto|]. intros [H|H]; auto.
Qed.
Lemma in_tl {A} (x : A) l : In x (tl l) -> In x l.
Proof. destruct l; simpl; auto. Qed.

(* [G] every vertex of the returned hull is one of the input points *)
Theorem hull_subset (points : list pt) x : In x (convex_hull Rops points) -> In x points.
Proof.
  unfold convex_hull. rewrite in_app_iff. intros [H|H].
  - apply in_half_hull in H. apply (proj1 (in_sort_pts _ _)) in H. exact H.
  - apply in_removelast, in_tl, in_half_hull in H. rewrite <- in_rev in H. apply (proj1 (in_sort_pts _ _)) in H. exact H.
Qed.

(* consecutive triples of the stack (head = most recent) make strict left turns *)
Fixpoint left_chain (stk : list pt) : Prop :=
  match stk with
  | h1 :: tl => match tl with
                | h2 :: tl' => match tl' with
                               | h3 :: _ => 0 < is_left Rops h3 h2 h1 /\ left_chain tl
                               | [] => True
                               end
                | [] => True
                end
  | [] => True
  end.
Lemma left_chain_tl h stk : left_chain (h :: stk) -> left_chain stk.
Proof. destruct stk as [|h2 [|h3 t]]; simpl; tauto. Qed.
Lemma pop_nonleft_spec r : forall stk, left_chain stk ->
  let s := pop_nonleft Rops stk r in
  left_chain s /\ match s with h1 :: h2 :: _ => 0 < is_left Rops h2 h1 r | _ => True end.
Proof.
  induction stk as [|h1 tl IH]; intros Hc; cbn [pop_nonleft].
  - simpl. auto.
  - destruct tl as [|h2 tl'].
    + simpl. auto.
    + cbn [oltb Rops o0]. destruct (Rltb 0 (is_left Rops h2 h1 r)) eqn:E.
      * apply Rltb_true in E. cbv zeta. split; [exact Hc|exact E].
      * apply IH. eapply left_chain_tl. exact Hc.
Qed.
Lemma keep_left_chain r stk : left_chain stk -> left_chain (keep_left Rops stk r).
Proof.
  intros Hc. unfold keep_left. pose proof (pop_nonleft_spec r stk Hc) as [H1 H2]. cbv zeta in *.
  destruct (pop_nonleft Rops stk r) as [|h s]; [simpl; auto|].
  destruct (pt_eqb Rops h r); [exact H1|].
  destruct s as [|h2 s']; [simpl; auto|]. cbn [left_chain]. split; [exact H2|exact H1].
Qed.
Lemma fold_keep_left_chain pts : forall stk, left_chain stk -> left_chain (fold_left (keep_left Rops) pts stk).
Proof. induction pts as [|p pts IH]; intros stk H; simpl; [exact H|]. apply IH. apply keep_left_chain. exact H. Qed.

(* [G] both half hulls (lower: sorted input, upper: reversed input) turn strictly left at every vertex *)
Theorem hull_strict_left_turns (points : list pt) :
  left_chain (rev (half_hull Rops (sort_pts Rops points))) /\
  left_chain (rev (half_hull Rops (rev (sort_pts Rops points)))).
Proof.
  unfold half_hull. rewrite !rev_involutive. split; apply fold_keep_left_chain; simpl; auto.
Qed.
End Hull.
