(* History independence of the repaired lru_cache state machine: every routine's answer after any
   sequence of calls equals its answer in a fresh process.  Polymorphic in the scalar (no real-number axioms). *)
From Coq Require Import List Arith Bool Lia.
From NV Require Import Scalar.Ops Model.Common Model.LinAlg.
Import ListNotations.

Section Hist.
Context {T : Type} (K : ops T).

(* every memoised object is the identity matrix of its key *)
Definition cache_ok (c : @cache T) : Prop := forall n m, cache_find c n = Some m -> m = matrix_identity K n.

Lemma find_remove (c : @cache T) n k m : cache_find (cache_remove c n) k = Some m -> cache_find c k = Some m.
Proof.
  induction c as [|[k0 m0] c IH]; cbn [cache_remove filter cache_find fst]; [discriminate|].
  destruct (Nat.eqb_spec k0 n) as [->|Hne]; cbn [negb].
  - intros H. destruct (Nat.eqb_spec n k) as [->|Hnk].
    + exfalso. clear IH. induction c as [|[k1 m1] c IHc]; cbn [cache_remove filter cache_find fst] in H; [discriminate|].
      destruct (Nat.eqb_spec k1 k) as [->|H1]; cbn [negb] in H; [auto|].
      cbn [cache_find] in H. destruct (Nat.eqb_spec k1 k); [contradiction|auto].
    + apply IH, H.
  - cbn [cache_find]. destruct (Nat.eqb k0 k); [auto|apply IH].
Qed.
Lemma find_firstn (c : @cache T) j k m : cache_find (firstn j c) k = Some m -> cache_find c k = Some m.
Proof.
  revert j. induction c as [|[k0 m0] c IH]; intros [|j]; cbn [firstn cache_find]; try discriminate.
  destruct (Nat.eqb k0 k); [auto|apply IH].
Qed.
Lemma cache_get_ok c n : cache_ok c ->
  fst (cache_get K c n) = matrix_identity K n /\ cache_ok (snd (cache_get K c n)).
Proof.
  intros Hc. unfold cache_get. destruct (cache_find c n) as [m|] eqn:E; cbn [fst snd].
  - assert (Hm : m = matrix_identity K n) by (apply Hc, E). split; [exact Hm|].
    intros k m' H. cbn [cache_find] in H. destruct (Nat.eqb_spec n k) as [->|Hne].
    + injection H as <-. exact Hm.
    + apply Hc. apply (find_remove c n k m'), H.
  - split; [reflexivity|]. intros k m' H. apply find_firstn in H. cbn [cache_find] in H.
    destruct (Nat.eqb_spec n k) as [->|Hne]; [inversion H; reflexivity|apply Hc, H].
Qed.
Lemma cache_ok_nil : cache_ok [].
Proof. intros n m H. discriminate. Qed.

Lemma step_fixed_spec c op : cache_ok c ->
  snd (step_fixed K c op) = fresh K op /\ cache_ok (fst (step_fixed K c op)).
Proof.
  intros Hc. unfold fresh, step_fixed. destruct (op_size op) as [n|]; cbn [fst snd]; [|split; [reflexivity|exact Hc]].
  destruct (cache_get_ok c n Hc) as [E1 E2]. destruct (cache_get_ok [] n cache_ok_nil) as [F1 _].
  split; [|exact E2]. unfold cache_get in F1 |- *. cbn [cache_find fst] in F1 |- *.
  fold (cache_get K c n). rewrite E1. reflexivity.
Qed.

(* [G] all call sequences, all sizes, all matrices *)
Theorem history_independent_from c ops : cache_ok c -> run_seq (step_fixed K) c ops = map (fresh K) ops.
Proof.
  revert c. induction ops as [|op ops IH]; intros c Hc; [reflexivity|].
  cbn [run_seq map]. destruct (step_fixed_spec c op Hc) as [E1 E2]. rewrite E1, (IH _ E2). reflexivity.
Qed.
Theorem history_independent ops : run_seq (step_fixed K) [] ops = map (fresh K) ops.
Proof. apply history_independent_from, cache_ok_nil. Qed.
End Hist.
