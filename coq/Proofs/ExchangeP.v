(* C14: generic lemmas for Model.Exchange at the real instance: monadic maps, weighting / unweighting,
   validated setters, layers, flips under map. *)
From Coq Require Import List Arith Bool Lia Reals Lra String.
From NV Require Import Scalar.Ops Model.Common Model.Knots Model.Layout Model.Exchange Proofs.LayoutP Proofs.LayoutR.
Import ListNotations.
Open Scope list_scope.
Notation length := List.length (only parsing).

(* ------------------------------------------------------------------ mapM / mapO *)
Lemma mapM_ok {X Y} (f : X -> res Y) (g : X -> Y) l : (forall x, In x l -> f x = Ok (g x)) -> mapM f l = Ok (map g l).
Proof.
  induction l as [|x l IH]; intros H; [reflexivity|]. cbn [mapM map].
  rewrite (H x) by (left; reflexivity). cbn [res_bind]. rewrite IH by (intros; apply H; right; assumption). reflexivity.
Qed.
Lemma mapO_ok {X Y} (f : X -> option Y) (g : X -> Y) l : (forall x, In x l -> f x = Some (g x)) -> mapO f l = Some (map g l).
Proof.
  induction l as [|x l IH]; intros H; [reflexivity|]. cbn [mapO map].
  rewrite (H x) by (left; reflexivity). rewrite IH by (intros; apply H; right; assumption). reflexivity.
Qed.
Lemma flat_map_some {X} (l : list X) : flat_map (fun o : option X => match o with Some c => [c] | None => [] end) (map Some l) = l.
Proof. induction l as [|x l IH]; [reflexivity|]. cbn. rewrite IH. reflexivity. Qed.

(* ------------------------------------------------------------------ lists *)
Lemma last_indep {X} (l : list X) d d' : l <> [] -> last l d = last l d'.
Proof. induction l as [|x [|y r] IH]; intros H; [contradiction|reflexivity|]. apply IH. discriminate. Qed.
Lemma removelast_app1 {X} (l : list X) x : removelast (l ++ [x]) = l.
Proof. rewrite removelast_app by discriminate. cbn. apply app_nil_r. Qed.
Lemma last_app1 {X} (l : list X) x d : last (l ++ [x]) d = x.
Proof. apply last_last. Qed.
Lemma split_last {X} (p : list X) d : p <> [] -> p = removelast p ++ [last p d].
Proof. intros H. apply app_removelast_last. exact H. Qed.
Lemma map_id_in {X} (f : X -> X) l : (forall x, In x l -> f x = x) -> map f l = l.
Proof. induction l as [|x l IH]; intros H; [reflexivity|]. cbn. rewrite H by (left; reflexivity). rewrite IH; [reflexivity|]. intros; apply H; right; assumption. Qed.
Lemma forallb_true_in {X} (f : X -> bool) l : (forall x, In x l -> f x = true) -> forallb f l = true.
Proof. intros H. apply forallb_forall. exact H. Qed.
Lemma existsb_false_in {X} (f : X -> bool) l : (forall x, In x l -> f x = false) -> existsb f l = false.
Proof.
  induction l as [|x l IH]; intros H; [reflexivity|]. cbn. rewrite H by (left; reflexivity).
  rewrite IH; [reflexivity|]. intros; apply H; right; assumption.
Qed.

(* layers *)
Lemma layers_concat {X} (L : list (list X)) n : (forall l, In l L -> length l = n) -> layers (length L) n (List.concat L) = L.
Proof.
  intros H. unfold layers. apply nth_ext with (d := []) (d' := []); [rewrite map_length, seq_length; reflexivity|].
  intros i Hi. rewrite map_length, seq_length in Hi. rewrite nth_map_seq by exact Hi.
  revert i Hi. induction L as [|l L IH]; intros i Hi; [cbn in Hi; lia|].
  cbn [List.concat]. assert (Hl : length l = n) by (apply H; left; reflexivity).
  destruct i as [|i].
  - rewrite Nat.mul_0_r. cbn [skipn nth]. rewrite firstn_app, Hl, Nat.sub_diag. cbn [firstn]. rewrite app_nil_r.
    rewrite <- Hl. apply firstn_all.
  - cbn [nth]. replace (n * S i) with (length l + n * i) by (rewrite Hl; lia).
    rewrite skipn_app. rewrite skipn_all2 by lia. cbn [app].
    replace (length l + n * i - length l) with (n * i) by lia.
    apply IH; [intros; apply H; right; assumption|cbn in Hi; lia].
Qed.
Lemma layers_length_each {X} sw n (P : list X) : length P = n * sw -> forall l, In l (layers sw n P) -> length l = n.
Proof.
  intros HL l Hin. unfold layers in Hin. apply in_map_iff in Hin. destruct Hin as (i & <- & Hi). apply in_seq in Hi.
  rewrite firstn_length, skipn_length. nia.
Qed.
Lemma concat_layers {X} sw n (P : list X) : length P = n * sw -> List.concat (layers sw n P) = P.
Proof.
  revert P. induction sw as [|sw IH]; intros P HL.
  - destruct P; [reflexivity|cbn in HL; lia].
  - unfold layers. rewrite seq_S, map_app, concat_app. cbn [map List.concat]. rewrite app_nil_r.
    transitivity (firstn (n * sw) P ++ skipn (n * sw) P); [|apply firstn_skipn]. f_equal.
    + assert (E : map (fun i => firstn n (skipn (n * i) P)) (seq 0 sw) = layers sw n (firstn (n * sw) P)).
      { unfold layers. apply map_ext_in. intros i Hi. apply in_seq in Hi.
        rewrite skipn_firstn_comm. rewrite firstn_firstn. f_equal. nia. }
      rewrite E. apply IH. rewrite firstn_length. nia.
    + cbn [plus]. apply firstn_all2. rewrite skipn_length. nia.
Qed.
Lemma layers_map {X Y} (g : X -> Y) sw n (P : list X) : layers sw n (map g P) = map (map g) (layers sw n P).
Proof. unfold layers. rewrite map_map. apply map_ext. intros i. rewrite skipn_map, firstn_map. reflexivity. Qed.
Lemma layers_count {X} sw n (P : list X) : length (layers sw n P) = sw.
Proof. unfold layers. rewrite map_length, seq_length. reflexivity. Qed.

(* tab2 under map; flips under map *)
Lemma tab2_map {X Y} (g : X -> Y) a b (h : nat -> nat -> X) : map g (tab2 a b h) = tab2 a b (fun i j => g (h i j)).
Proof.
  unfold tab2. induction (seq 0 a) as [|i l IH]; [reflexivity|]. cbn [flat_map]. rewrite map_app, IH, map_map. reflexivity.
Qed.
Lemma flip_ctrlpts_u_map {X Y} (g : X -> Y) dx dy (P : list X) su sv : length P = su * sv ->
  flip_ctrlpts_u dy (map g P) su sv = map g (flip_ctrlpts_u dx P su sv).
Proof.
  intros HL. unfold flip_ctrlpts_u. rewrite tab2_map. apply (tab2_ext dy). intros i j Hi Hj. unfold at_.
  assert (Hlt : i + j * su < length P) by nia.
  rewrite nth_indep with (d' := g dx) by (rewrite map_length; exact Hlt). apply map_nth.
Qed.

(* ------------------------------------------------------------------ real instance *)
Section R.
Open Scope R_scope.
Notation K := Rops.

Lemma combine_w_ones (P : list (list R)) : combine_w K P (ones K (length P)) = map (fun p => p ++ [1]) P.
Proof.
  unfold combine_w, ones. induction P as [|p P IH]; [reflexivity|]. cbn [length repeat combine map fst snd]. rewrite IH. f_equal. f_equal.
  rsimp. apply map_id_in. intros x _. apply Rmult_1_r.
Qed.
Lemma sep_pts_app1 (P : list (list R)) : sep_pts K (map (fun p => p ++ [1]) P) = P.
Proof.
  unfold sep_pts. rewrite map_map. apply map_id_in. intros p _. unfold lastc. rewrite removelast_app1, last_app1.
  rsimp. apply map_id_in. intros x _. unfold Rdiv. rewrite Rinv_1. apply Rmult_1_r.
Qed.
Definition pt_ok (p : list R) : Prop := p <> [] /\ lastc K p <> 0.
Lemma combine_w_sep (P : list (list R)) : (forall p, In p P -> pt_ok p) -> combine_w K (sep_pts K P) (sep_ws K P) = P.
Proof.
  unfold combine_w, sep_pts, sep_ws. induction P as [|p P IH]; intros H; [reflexivity|].
  cbn [map combine fst snd]. rewrite IH by (intros; apply H; right; assumption). f_equal.
  destruct (H p (or_introl eq_refl)) as [Hne Hw]. rewrite map_map. unfold lastc in *. rsimp.
  rewrite (split_last p 0 Hne) at 3. f_equal. apply map_id_in. intros x _. field. exact Hw.
Qed.
Lemma gen_w_unw (P : list (list R)) : (forall p, In p P -> pt_ok p) -> gen_ctrlptsw K (gen_ctrlpts_weights K P) = P.
Proof.
  intros H. unfold gen_ctrlptsw, gen_ctrlpts_weights. rewrite map_map. apply map_id_in. intros p Hp.
  destruct (H p Hp) as [Hne Hw]. unfold lastc in *. rewrite removelast_app1, last_app1. rsimp. rewrite map_map.
  rewrite (split_last p 0 Hne) at 3. f_equal. apply map_id_in. intros x _. field. exact Hw.
Qed.
Lemma gen_ctrlpts_weights_length (P : list (list R)) : length (gen_ctrlpts_weights K P) = length P.
Proof. apply map_length. Qed.

(* homogeneous form of any stored net *)
Definition homogR (rat : bool) (pts : list (list R)) : list (list R) := if rat then pts else map (fun p => p ++ [1]) pts.
Lemma homog_homogR rat pts : homog K rat pts = homogR rat pts.
Proof. unfold homog, homogR. destruct rat; [reflexivity|apply combine_w_ones]. Qed.
Lemma homogR_length rat pts : length (homogR rat pts) = length pts.
Proof. unfold homogR. destruct rat; [reflexivity|apply map_length]. Qed.

(* well-formed stored points: non-empty net of points of one length, stored length + (1 if polynomial) >= minlen, non-zero weights *)
Definition wf_pts (rat : bool) (minlen : nat) (pts : list (list R)) : Prop :=
  pts <> [] /\ (forall p, In p pts -> length p = length (hd [] pts)) /\
  (minlen <= length (hd [] pts) + (if rat then 0 else 1))%nat /\ (0 < length (hd [] pts))%nat /\
  (rat = true -> forall p, In p pts -> lastc K p <> 0).
Lemma wf_homog_ok rat minlen pts : wf_pts rat minlen pts -> forall p, In p (homogR rat pts) -> pt_ok p.
Proof.
  intros (Hne & Hlen & Hmin & Hpos & Hw) p Hp. unfold homogR in Hp. destruct rat.
  - split; [|apply Hw; auto]. intros ->. specialize (Hlen [] Hp). cbn in Hlen. lia.
  - apply in_map_iff in Hp. destruct Hp as (q & <- & _). split; [destruct q; discriminate|]. unfold lastc. rewrite last_app1. rsimp. lra.
Qed.
Lemma wf_homog_lens rat minlen pts : wf_pts rat minlen pts ->
  homogR rat pts <> [] /\ (minlen <= length (hd [] (homogR rat pts)))%nat /\
  forall p, In p (homogR rat pts) -> length p = length (hd [] (homogR rat pts)).
Proof.
  intros (Hne & Hlen & Hmin & Hpos & Hw). unfold homogR. destruct rat.
  - split; [exact Hne|]. split; [lia|exact Hlen].
  - destruct pts as [|p0 pts]; [contradiction|]. cbn [map hd] in *. split; [discriminate|]. rewrite app_length. cbn [length]. split; [lia|].
    intros p Hp. change (In p (map (fun p => p ++ [1]) (p0 :: pts))) in Hp. apply in_map_iff in Hp. destruct Hp as (q & <- & Hq).
    rewrite app_length. cbn [length]. rewrite (Hlen q Hq). reflexivity.
Qed.

Lemma set_pts_ok minlen degs sizes (pts : list (list R)) :
  (forall dg, In dg degs -> dg <> 0%nat) -> (forall ds, In ds (combine degs sizes) -> (fst ds + 1 <= snd ds)%nat) ->
  pts <> [] -> (minlen <= length (hd [] pts))%nat -> (forall p, In p pts -> length p = length (hd [] pts)) ->
  set_pts minlen degs sizes pts = Ok pts.
Proof.
  intros Hd Hs Hne Hmin Hlen. unfold set_pts.
  rewrite existsb_false_in by (intros dg H; apply Nat.eqb_neq; apply Hd; exact H).
  rewrite existsb_false_in by (intros ds H; apply Nat.ltb_ge; apply Hs; exact H).
  destruct pts as [|p0 pts]; [contradiction|]. cbn [hd] in *.
  destruct (Nat.ltb_spec (length p0) minlen) as [|_]; [lia|].
  rewrite forallb_true_in; [reflexivity|]. intros p Hp. apply Nat.eqb_eq. apply Hlen. exact Hp.
Qed.

(* knot vectors: accepted by check and already normalised *)
Definition wf_kv (p : nat) (U : list R) (n : nat) : Prop := check K p U n = Ok true /\ hd 0 U = 0 /\ last U 0 = 1.
Lemma normalize_id (U : list R) : U <> [] -> hd 0 U = 0 -> last U 0 = 1 -> normalize K U = Ok U.
Proof.
  intros Hne Hh Hl. destruct U as [|f U]; [contradiction|]. cbn [hd] in Hh. subst f. unfold normalize.
  rewrite Hl. f_equal. apply map_id_in. intros k _. rsimp. field.
Qed.
Lemma set_kv_ok p U n : wf_kv p U n -> set_kv K p U n = Ok U.
Proof.
  intros (Hc & Hh & Hl). unfold set_kv. rewrite Hc. cbn [res_bind]. apply normalize_id; auto.
  intros ->. cbn in Hc. discriminate.
Qed.
Lemma set_delta_ok x : 0 < x < 1 -> set_delta K x = Ok x.
Proof.
  intros [H0 H1]. unfold set_delta. rsimp. unfold Rleb.
  destruct (Rle_dec x 0); [lra|]. destruct (Rle_dec 1 x); [lra|]. reflexivity.
Qed.
Lemma set_degree_ok n : n <> 0%nat -> set_degree n = Ok n.
Proof. intros H. unfold set_degree. destruct (Nat.eqb_spec n 0); [contradiction|reflexivity]. Qed.
Lemma set_size_ok n : n <> 0%nat -> set_size n = Ok n.
Proof. intros H. unfold set_size. destruct (Nat.eqb_spec n 0); [contradiction|reflexivity]. Qed.
End R.
