(* Ties: generated helpers.knot_insertion_kv / knot_insertion_alpha / knot_insertion = Model/KnotIns.v, for every
   scalar instance. *)
From Coq Require Import List ZArith Arith Bool Lia QArith.
From NV Require Import Scalar.Ops Model.Common Model.Basis Model.KnotIns Gen.Prelude Gen.Helpers
  Proofs.GenTieLib Proofs.GenTieSpan.
Import ListNotations.
Local Open Scope nat_scope.

Section Tie.
Context {T : Type} (K : ops T).
Notation kn := (kn K).
Notation "0" := (o0 K).

(* ================= knot_insertion_kv ================= *)
(* wf: span < len(knotvector) (the first loop copies knotvector[0..span]) *)
Theorem knot_insertion_kv_tie (U : list T) (u : T) (span r : nat) :
  span < length U ->
  Helpers.knot_insertion_kv K U u (Z.of_nat span) (Z.of_nat r) = GOk (KnotIns.knot_insertion_kv U u span r).
Proof.
  intros Hs. unfold Helpers.knot_insertion_kv, KnotIns.knot_insertion_kv.
  rewrite map_const_zrange. unfold zlen.
  replace (Z.to_nat (Z.of_nat (length U) + Z.of_nat r)) with (length U + r) by lia.
  replace (Z.of_nat span + 1)%Z with (Z.of_nat (S span)) by lia.
  replace (Z.of_nat r + 1)%Z with (Z.of_nat (S r)) by lia.
  rewrite zrange_0_nat, zrange_1_nat, zrange_nat.
  set (n := length U) in *.
  (* first loop *)
  match goal with |- context [gfor (map Z.of_nat (seq O (S span))) ?ff ?s0] =>
    destruct (gfor_seq_inv (fun j kv => length kv = n + r /\ (forall i, i < j -> nth i kv 0 = nth i U 0)) ff (S span) O)
      with (s := s0) as (kv1 & E1 & L1 & H1)
  end.
  { intros j kv Hj (Hl & Hn). cbn [gbind].
    rewrite (znth_Z U _ 0) by lia. cbn [gbind]. rewrite zset_Z by lia. cbn [gbind]. rewrite !Nat2Z.id.
    eexists. split; [reflexivity|]. rewrite upd_length. split; auto.
    intros i Hi. rewrite nth_upd. destruct (Nat.eqb_spec j i) as [->|Hne].
    - destruct (Nat.ltb_spec i (length kv)); [auto|lia].
    - apply Hn. lia. }
  { rewrite repeat_length. split; auto. intros i Hi. lia. }
  rewrite E1. cbn [gbind]. clear E1.
  (* second loop *)
  match goal with |- context [gfor (map Z.of_nat (seq 1 r)) ?ff ?s0] =>
    destruct (gfor_seq_inv (fun j kv => length kv = n + r /\ (forall i, i <= span -> nth i kv 0 = nth i U 0)
                                        /\ (forall i, 1 <= i < j -> nth (span + i) kv 0 = u)) ff r 1)
      with (s := s0) as (kv2 & E2 & L2 & H2 & H2')
  end.
  { intros j kv Hj (Hl & Hn & Hu). cbn [gbind].
    rewrite zset_Z by lia. cbn [gbind].
    replace (Z.to_nat (Z.of_nat span + Z.of_nat j)) with (span + j) by lia.
    eexists. split; [reflexivity|]. rewrite upd_length. repeat split; auto.
    - intros i Hi. rewrite nth_upd_other by lia. auto.
    - intros i Hi. rewrite nth_upd. destruct (Nat.eqb_spec (span + j) (span + i)) as [E|Hne].
      + destruct (Nat.ltb_spec (span + i) (length kv)); [auto|lia].
      + apply Hu. lia. }
  { repeat split; auto. - intros i Hi. apply H1. lia. - intros i Hi. lia. }
  rewrite E2. cbn [gbind]. clear E2.
  (* third loop *)
  match goal with |- context [gfor (map Z.of_nat (seq (S span) (n - S span))) ?ff ?s0] =>
    destruct (gfor_seq_inv (fun j kv => length kv = n + r /\ (forall i, i <= span -> nth i kv 0 = nth i U 0)
                                        /\ (forall i, 1 <= i <= r -> nth (span + i) kv 0 = u)
                                        /\ (forall i, span < i < j -> nth (i + r) kv 0 = nth i U 0)) ff (n - S span) (S span))
      with (s := s0) as (kv3 & E3 & L3 & H3 & H3' & H3'')
  end.
  { intros j kv Hj (Hl & Hn & Hu & Hc). cbn [gbind].
    rewrite (znth_Z U _ 0) by lia. cbn [gbind]. rewrite zset_Z by lia. cbn [gbind]. rewrite Nat2Z.id.
    replace (Z.to_nat (Z.of_nat j + Z.of_nat r)) with (j + r) by lia.
    eexists. split; [reflexivity|]. rewrite upd_length. repeat split; auto.
    - intros i Hi. rewrite nth_upd_other by lia. auto.
    - intros i Hi. rewrite nth_upd_other by lia. auto.
    - intros i Hi. rewrite nth_upd. destruct (Nat.eqb_spec (j + r) (i + r)) as [E|Hne].
      + replace i with j by lia. destruct (Nat.ltb_spec (j + r) (length kv)); [auto|lia].
      + apply Hc. lia. }
  { repeat split; auto. - intros i Hi. apply H2'. lia. - intros i Hi. lia. }
  rewrite E3. cbn [gbind]. clear E3. f_equal.
  replace (S span + (n - S span)) with n in H3'' by lia.
  (* the resulting array is the model's list *)
  apply nth_ext with (d := 0) (d' := 0).
  - rewrite L3, !app_length, firstn_length, repeat_length, skipn_length. fold n. lia.
  - intros i Hi. rewrite L3 in Hi.
    destruct (Nat.le_gt_cases i span).
    + rewrite app_nth1 by (rewrite firstn_length; fold n; lia). rewrite nth_firstn_lt by lia. apply H3; lia.
    + rewrite app_nth2 by (rewrite firstn_length; fold n; lia). rewrite firstn_length. fold n.
      replace (Nat.min (S span) n) with (S span) by lia.
      destruct (Nat.le_gt_cases i (span + r)).
      * rewrite app_nth1 by (rewrite repeat_length; lia). rewrite nth_repeat_lt by lia.
        replace i with (span + (i - span)) by lia. apply H3'. lia.
      * rewrite app_nth2 by (rewrite repeat_length; lia). rewrite repeat_length, nth_skipn_add.
        replace i with ((i - r) + r) at 1 by lia. rewrite H3'' by lia. f_equal. lia.
Qed.

(* ================= knot_insertion_alpha ================= *)
Theorem knot_insertion_alpha_tie (u : T) (U : list T) (k i L : nat) :
  L + i < length U -> i + k + 1 < length U ->
  Helpers.knot_insertion_alpha K u U (Z.of_nat k) (Z.of_nat i) (Z.of_nat L) = GOk (ins_alpha K U u k i L).
Proof.
  intros H1 H2. unfold Helpers.knot_insertion_alpha, ins_alpha.
  rewrite !(znth_Z U _ 0) by lia. cbn [gbind].
  replace (Z.to_nat (Z.of_nat L + Z.of_nat i)) with (L + i) by lia.
  replace (Z.to_nat (Z.of_nat i + Z.of_nat k + 1)) with (S (i + k)) by lia.
  reflexivity.
Qed.

(* ================= knot_insertion ================= *)
Lemma Forall_upd {A} (Q : A -> Prop) (l : list A) i x : Forall Q l -> Q x -> Forall Q (upd l i x).
Proof. intros H Hx. revert i; induction H; intros [|i]; simpl; auto. Qed.

Lemma lerp_nonempty alpha (a b : list T) : a <> [] -> b <> [] -> lerp K alpha a b <> [].
Proof. intros Ha Hb. destruct a; [congruence|]. destruct b; [congruence|]. discriminate. Qed.

Lemma lerp_gen alpha (a b : list T) :
  map (fun '(elem1, elem2) => oadd K (omul K alpha elem2) (omul K (osub K (o1 K) alpha) elem1)) (combine a b) = lerp K alpha a b.
Proof. unfold lerp. apply map_ext. intros [x y]. reflexivity. Qed.

Definition padded (s : nat) (tG tM : list (list T)) (p : nat) : Prop :=
  tG = tM ++ repeat [] s /\ length tM = S (p - s) /\ Forall (fun pt => pt <> []) tM.

(* wf: the guard of the callers (degree <= span, s + num <= degree) plus the index ranges the code reads; every control
   point is a non-empty list (the code tests isinstance(temp[i][0], float)); len(ctrlpts) <= len(knotvector) because the
   default of the `span` keyword, find_span_linear(degree, knotvector, len(ctrlpts), u), is evaluated even when span is given *)
Theorem knot_insertion_tie (p : nat) (U : list T) (P : list (list T)) (u : T) (num s k : nat) :
  p <= k -> s + num <= p -> k - s < length P -> length P <= length U -> k + p < length U + s ->
  Forall (fun pt => pt <> []) P ->
  Helpers.knot_insertion K (Z.of_nat p) U P u (Z.of_nat num) (Z.of_nat s) (Z.of_nat k) =
  GOk (KnotIns.knot_insertion K p U P u num s k).
Proof.
  intros Hpk Hsn Hks HPU HkU Hne. unfold Helpers.knot_insertion, KnotIns.knot_insertion.
  rewrite find_multiplicity_tie. cbn [gbind]. unfold zlen.
  rewrite find_span_linear_tie by lia. cbn [gbind].
  rewrite !map_const_zrange.
  set (np := length P) in *.
  replace (Z.to_nat (Z.of_nat np + Z.of_nat num)) with (np + num) by lia.
  replace (Z.to_nat (Z.of_nat p + 1)) with (S p) by lia.
  replace (Z.of_nat k - Z.of_nat p + 1)%Z with (Z.of_nat (S (k - p))) by lia.
  replace (Z.of_nat k - Z.of_nat s)%Z with (Z.of_nat (k - s)) by lia.
  replace (Z.of_nat p - Z.of_nat s + 1)%Z with (Z.of_nat (S (p - s))) by lia.
  replace (Z.of_nat num + 1)%Z with (Z.of_nat (S num)) by lia.
  replace (Z.of_nat k - Z.of_nat p + Z.of_nat num + 1)%Z with (Z.of_nat (S (k - p + num))) by lia.
  rewrite !zrange_0_nat, zrange_1_nat, !zrange_nat.
  (* copy ctrlpts[0 .. k-p] *)
  match goal with |- context [gfor (map Z.of_nat (seq O (S (k - p)))) ?ff ?s0] =>
    destruct (gfor_seq_fold (fun (_ : nat) (a b : list (list T)) => a = b /\ length b = np + num) ff
                (fun nw i => upd nw i (getp P i)) (S (k - p)) O) with (s := s0) (s' := s0) as (nw1 & E1 & -> & L1)
  end.
  { intros i nw nw' Hi [<- Hl]. cbn [gbind].
    rewrite (znth_Z P _ []) by (fold np; lia). cbn [gbind]. rewrite zset_Z by lia. cbn [gbind]. rewrite !Nat2Z.id.
    eexists. split; [reflexivity|]. rewrite upd_length. auto. }
  { rewrite repeat_length. auto. }
  rewrite E1. cbn [gbind]. clear E1.
  set (new1 := fold_left (fun nw i => upd nw i (getp P i)) (seq O (S (k - p))) (repeat [] (np + num))) in *.
  (* copy ctrlpts[k-s .. np-1] shifted by num *)
  match goal with |- context [gfor (map Z.of_nat (seq (k - s) (np - (k - s)))) ?ff ?s0] =>
    destruct (gfor_seq_fold (fun (_ : nat) (a b : list (list T)) => a = b /\ length b = np + num) ff
                (fun nw i => upd nw (i + num) (getp P i)) (np - (k - s)) (k - s)) with (s := s0) (s' := s0) as (nw2 & E2 & -> & L2)
  end.
  { intros i nw nw' Hi [<- Hl]. cbn [gbind].
    rewrite (znth_Z P _ []) by (fold np; lia). cbn [gbind]. rewrite zset_Z by lia. cbn [gbind]. rewrite !Nat2Z.id.
    replace (Z.to_nat (Z.of_nat i + Z.of_nat num)) with (i + num) by lia.
    eexists. split; [reflexivity|]. rewrite upd_length. auto. }
  { auto. }
  rewrite E2. cbn [gbind]. clear E2.
  set (new2 := fold_left (fun nw i => upd nw (i + num) (getp P i)) (seq (k - s) (np - (k - s))) new1) in *.
  (* the local array temp *)
  set (temp0 := map (fun i => getp P (k - p + i)) (seq O (S (p - s)))).
  match goal with |- context [gfor (map Z.of_nat (seq O (S (p - s)))) ?ff ?s0] =>
    destruct (gfor_seq_inv (fun j (tp : list (list T)) => length tp = S p
                              /\ (forall i, i < j -> nth i tp [] = getp P (k - p + i))
                              /\ (forall i, j <= i -> nth i tp [] = [])) ff (S (p - s)) O) with (s := s0) as (tG0 & E3 & Lt & Ht1 & Ht2)
  end.
  { intros i tp Hi (Hl & Ha & Hb). cbn [gbind].
    rewrite (znth_Z P _ []) by (fold np; lia). cbn [gbind]. rewrite zset_Z by lia. cbn [gbind]. rewrite !Nat2Z.id.
    replace (Z.to_nat (Z.of_nat k - Z.of_nat p + Z.of_nat i)) with (k - p + i) by lia.
    eexists. split; [reflexivity|]. rewrite upd_length. repeat split; auto.
    - intros i' Hi'. rewrite nth_upd. destruct (Nat.eqb_spec i i') as [->|Hn].
      + destruct (Nat.ltb_spec i' (length tp)); [reflexivity|lia].
      + apply Ha. lia.
    - intros i' Hi'. rewrite nth_upd_other by lia. apply Hb. lia. }
  { rewrite repeat_length. repeat split; auto; try lia.
    intros i _. destruct (Nat.lt_ge_cases i (S p)); [apply nth_repeat_lt; auto|apply nth_overflow; rewrite repeat_length; lia]. }
  rewrite E3. cbn [gbind]. clear E3.
  assert (Pad0 : padded s tG0 temp0 p).
  { unfold padded, temp0. rewrite map_length, seq_length. repeat split; auto.
    - apply nth_ext with (d := []) (d' := []).
      + rewrite app_length, map_length, seq_length, repeat_length. lia.
      + intros i Hi. destruct (Nat.lt_ge_cases i (S (p - s))).
        * rewrite app_nth1 by (rewrite map_length, seq_length; lia).
          rewrite Ht1 by lia. rewrite (nth_indep _ [] (getp P (k - p + O))) by (rewrite map_length, seq_length; lia).
          rewrite (map_nth (fun i => getp P (k - p + i)) (seq O (S (p - s))) O i). rewrite seq_nth by lia. reflexivity.
        * rewrite app_nth2 by (rewrite map_length, seq_length; lia). rewrite map_length, seq_length.
          rewrite Ht2 by lia. symmetry. apply nth_repeat_lt. lia.
    - apply Forall_forall. intros pt Hin. apply in_map_iff in Hin. destruct Hin as (i & <- & Hi). apply in_seq in Hi.
      unfold getp. rewrite Forall_forall in Hne. apply Hne. apply nth_In. fold np. lia. }
  clearbody temp0. clear Lt Ht1 Ht2.
  (* the insertion loop *)
  match goal with |- context [gfor (map Z.of_nat (seq 1 num)) ?ff ?s0] =>
    match goal with |- context [fold_left ?gg (seq 1 num) ?s0'] =>
      destruct (gfor_seq_fold (fun (_ : nat) (a : list (list T) * list (list T)) (b : list (list T) * list (list T)) =>
                    snd a = fst b /\ length (fst b) = np + num /\ padded s (fst a) (snd b) p) ff gg num 1)
        with (s := s0) (s' := s0') as ([tG nwG] & E4 & R4a & R4b & R4c)
    end
  end.
  { intros j [tG nwG] [nwM tM] Hj (Hnw & Hl & (HtG & HtM & Hpt)). simpl in Hnw, Hl, HtG, HtM, Hpt. subst nwG tG.
    cbn [gbind].
    replace (Z.of_nat p - Z.of_nat j - Z.of_nat s + 1)%Z with (Z.of_nat (S (p - j - s))) by lia.
    rewrite zrange_0_nat.
    replace (Z.of_nat k - Z.of_nat p + Z.of_nat j)%Z with (Z.of_nat (k - p + j)) by lia.
    match goal with |- context [gfor (map Z.of_nat (seq O (S (p - j - s)))) ?ff ?s0] =>
      destruct (gfor_seq_fold (fun (_ : nat) (a b : list (list T)) => padded s a b p) ff
                  (fun tp i => upd tp i (lerp K (ins_alpha K U u k i (k - p + j)) (getp tp i) (getp tp (S i))))
                  (S (p - j - s)) O) with (s := s0) (s' := tM) as (tG' & E5 & (HtG' & HtM' & Hpt'))
    end.
    { intros i tG tM' Hi (HtG & HtM' & Hpt'). subst tG. cbn [gbind].
      rewrite knot_insertion_alpha_tie by lia. cbn [gbind].
      assert (Hi0 : nth i tM' [] <> []).
      { rewrite Forall_forall in Hpt'. apply Hpt'. apply nth_In. lia. }
      rewrite !(znth_Z (tM' ++ repeat [] s) _ []) by (rewrite app_length, repeat_length; lia). cbn [gbind].
      rewrite Nat2Z.id. replace (Z.to_nat (Z.of_nat i + 1)) with (S i) by lia.
      rewrite !app_nth1 by lia.
      rewrite (znth_Z (nth i tM' []) _ 0) by (destruct (nth i tM' []); [congruence|simpl; lia]). cbn [gbind].
      rewrite zset_Z by (rewrite app_length, repeat_length; lia). cbn [gbind]. rewrite Nat2Z.id.
      rewrite lerp_gen. rewrite upd_app_l by lia.
      eexists. split; [reflexivity|]. unfold padded, getp. rewrite upd_length. repeat split; auto.
      apply Forall_upd; auto. apply lerp_nonempty; auto.
      rewrite Forall_forall in Hpt'. apply Hpt'. apply nth_In. lia. }
    { unfold padded. auto. }
    rewrite E5. cbn [gbind]. subst tG'.
    set (tM2 := fold_left _ (seq O (S (p - j - s))) tM) in *.
    rewrite !(znth_Z (tM2 ++ repeat [] s) _ []) by (rewrite app_length, repeat_length; lia). cbn [gbind].
    rewrite !app_nth1 by lia.
    rewrite zset_Z by lia. cbn [gbind]. rewrite zset_Z by (rewrite upd_length; lia). cbn [gbind].
    change (Z.to_nat 0) with O. rewrite Nat2Z.id.
    replace (Z.to_nat (Z.of_nat p - Z.of_nat j - Z.of_nat s)) with (p - j - s) by lia.
    replace (Z.to_nat (Z.of_nat k + Z.of_nat num - Z.of_nat j - Z.of_nat s)) with (k + num - j - s) by lia.
    eexists. split; [reflexivity|]. simpl. rewrite !upd_length. unfold padded, getp. repeat split; auto. }
  { simpl. auto. }
  rewrite E4. cbn [gbind]. clear E4.
  match goal with |- context [fold_left ?gg (seq 1 num) ?s0'] => destruct (fold_left gg (seq 1 num) s0') as [new3 tM] end.
  simpl in R4a, R4b, R4c. subst nwG. destruct R4c as (-> & HtM & _).
  (* the remaining points *)
  replace (Z.of_nat k - Z.of_nat p + Z.of_nat num)%Z with (Z.of_nat (k - p + num)) by lia.
  match goal with |- context [gfor (map Z.of_nat (seq (S (k - p + num)) ?len)) ?ff ?s0] =>
    destruct (gfor_seq_fold (fun (_ : nat) (a b : list (list T)) => a = b /\ length b = np + num) ff
                (fun nw i => upd nw i (getp tM (i - (k - p + num)))) len (S (k - p + num))) with (s := s0) (s' := s0) as (nw5 & E5 & -> & _)
  end.
  { intros i nw nw' Hi [<- Hl]. cbn [gbind].
    rewrite (znth_Z (tM ++ repeat [] s) _ []) by (rewrite app_length, repeat_length; lia). cbn [gbind].
    replace (Z.to_nat (Z.of_nat i - Z.of_nat (k - p + num))) with (i - (k - p + num)) by lia.
    rewrite app_nth1 by lia.
    rewrite zset_Z by lia. cbn [gbind]. rewrite Nat2Z.id.
    eexists. split; [reflexivity|]. rewrite upd_length. auto. }
  { auto. }
  rewrite E5. reflexivity.
Qed.
End Tie.

Definition knot_insertion_kv_tie_R := @knot_insertion_kv_tie _ Rops.
Definition knot_insertion_kv_tie_Q := @knot_insertion_kv_tie _ Qops.
Definition knot_insertion_tie_R := @knot_insertion_tie _ Rops.
Definition knot_insertion_tie_Q := @knot_insertion_tie _ Qops.

(* ---- non-vacuity ---- *)
Local Open Scope Q_scope.
Definition exU : list Q := [0; 0; 0; 0; 1#4; 1#2; 1#2; 3#4; 1; 1; 1; 1].
Definition exP : list (list Q) := [[0; 0]; [1; 2]; [2; 3]; [3; 3]; [4; 1]; [5; 0]; [6; 2]; [7; 3]].
Example knot_insertion_kv_ex :
  Helpers.knot_insertion_kv Qops exU (3#10) 4 2 = GOk [0; 0; 0; 0; 1#4; 3#10; 3#10; 1#2; 1#2; 3#4; 1; 1; 1; 1]
  /\ KnotIns.knot_insertion_kv exU (3#10) 4 2 = [0; 0; 0; 0; 1#4; 3#10; 3#10; 1#2; 1#2; 3#4; 1; 1; 1; 1].
Proof. split; vm_compute; reflexivity. Qed.
(* two insertions of 3/10 (s = 0, span 4), and one insertion of the double knot 1/2 (s = 2, span 6) *)
Example knot_insertion_ex :
  Helpers.knot_insertion Qops 3 exU exP (3#10) 2 0 4 = GOk (KnotIns.knot_insertion Qops 3 exU exP (3#10) 2 0 4)
  /\ KnotIns.knot_insertion Qops 3 exU exP (3#10) 2 0 4 =
     [[0; 0]; [1; 2]; [8#5; 13#5]; [11#5; 71#25]; [27#10; 74#25]; [31#10; 14#5]; [4; 1]; [5; 0]; [6; 2]; [7; 3]]
  /\ Helpers.knot_insertion Qops 3 exU exP (1#2) 1 2 6 = GOk (KnotIns.knot_insertion Qops 3 exU exP (1#2) 1 2 6)
  /\ (3 <= 4 /\ 0 + 2 <= 3 /\ 4 - 0 < length exP /\ length exP <= length exU /\ 4 + 3 < length exU + 0)%nat.
Proof. repeat split; try (vm_compute; reflexivity); unfold exU, exP; simpl; lia. Qed.
