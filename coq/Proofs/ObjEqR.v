(* C19/C12 link: a deep copy (Model/Obj.v) compares equal to its source under the repaired __eq__ (Model/Equal.v). *)
From Coq Require Import List Reals.
From NV Require Import Scalar.Ops Model.Common Model.Equal Model.Obj Proofs.EqualR.

Theorem deepcopy_eq (tol : R) (o : @obj R) (fresh : nat) : (0 < tol)%R ->
  shape_eq Rops tol (shape_of o) (shape_of (deepcopy fresh o)) = true /\
  shape_eq Rops tol (shape_of (deepcopy fresh o)) (shape_of o) = true.
Proof. intro H. split; apply (eq_refl_R tol (shape_of o) H). Qed.
