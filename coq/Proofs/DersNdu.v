(* The ndu table of helpers.basis_function_ders (first phase of Algorithm A2.3), all degrees:
     upper triangle incl. diagonal:  ndu[r][j] = N_{span-j+r, j}(u)                    (r <= j <= p)
     lower triangle:                 ndu[j][r] = right[r+1] + left[j-r]
                                               = U_{span+r+1} - U_{span+1-(j-r)}       (r < j <= p)
   The upper triangle is DersRow0.ndu_upper + BasisR.bf_is_cox_de_boor_list; the lower triangle (knot differences)
   is a second invariant over the same double fold.
   Second reading (ndu_table_spec_pieces): for EVERY real u (no condition on u or on the knots) the upper triangle
   holds the polynomial pieces Nk of the span (DerivAnalytic.v) - A2.2 and the Cox-de Boor recursion of the pieces are
   the same formal computation (bf_is_piece). *)
From Coq Require Import List Reals Lra Lia Arith Bool.
From NV Require Import Scalar.Ops Model.Common Model.Basis Proofs.Boehm Proofs.BfN Proofs.BasisR Proofs.DersRow0
                       Proofs.DerivAnalytic.
Import ListNotations.
Open Scope R_scope.

(* ------------------------------------------------------------------------------------------------ *)
(* A2.2 computes the polynomial pieces Nk of span [span] (DerivAnalytic.v) at EVERY u: a formal identity of the two
   recursions (same expressions, x / 0 = 0), no hypothesis on the knots or on u *)
Section A22Pieces.
Variable V : nat -> R.
Variables (span : nat) (u : R).
Notation Nn := (Nk V span).

Lemma inner_piece q : (S q <= span)%nat ->
  forall rest r0 saved, (r0 + length rest = S q)%nat ->
  (forall m, (m < length rest)%nat -> nth m rest 0 = Nn q (span - q + r0 + m) u) ->
  saved = (u - V (span - S q + r0)) / (V (span - S q + r0 + S q) - V (span - S q + r0)) * Nn q (span - S q + r0) u ->
  forall m, (m <= length rest)%nat ->
    nth m (BfN.inner V span u (S q) r0 rest saved) 0 = Nn (S q) (span - S q + r0 + m) u.
Proof.
  intros Hq. induction rest as [|x rest IH]; intros r0 saved Hlen Hnth Hsaved m Hm.
  - cbn [BfN.inner length] in *. assert (m = 0%nat) by lia. subst m. cbn [nth].
    replace (span - S q + r0 + 0)%nat with span by lia.
    replace (span - S q + r0)%nat with span in Hsaved by lia.
    cbn [Nk]. rewrite (Nk_support V span q (S span) u) by lia. rewrite Hsaved. ring.
  - cbn [BfN.inner]. cbn [length] in *.
    set (i := (span - S q + r0)%nat) in *.
    assert (Hx : x = Nn q (S i) u).
    { specialize (Hnth 0%nat ltac:(lia)). cbn [nth] in Hnth. rewrite Hnth. f_equal. lia. }
    assert (Hd : BfN.right V span u (S r0) + BfN.left V span u (S q - r0) = V (i + S q + 1)%nat - V (S i)).
    { unfold BfN.right, BfN.left. replace (span + S r0)%nat with (i + S q + 1)%nat by lia.
      replace (span + 1 - (S q - r0))%nat with (S i) by lia. ring. }
    assert (Hr : BfN.right V span u (S r0) = V (i + S q + 1)%nat - u) by (unfold BfN.right; f_equal; f_equal; lia).
    assert (Hl : BfN.left V span u (S q - r0) = u - V (S i)) by (unfold BfN.left; f_equal; f_equal; lia).
    rewrite Hd, Hr, Hl, Hx.
    destruct m as [|m'].
    + cbn [nth]. replace (i + 0)%nat with i by lia. cbn [Nk]. rewrite Hsaved. unfold Rdiv. ring.
    + cbn [nth]. replace (i + S m')%nat with (span - S q + S r0 + m')%nat by lia.
      apply IH; try lia.
      * intros m2 Hm2. specialize (Hnth (S m2) ltac:(lia)). cbn [nth] in Hnth. rewrite Hnth. f_equal. lia.
      * replace (span - S q + S r0)%nat with (S i) by lia.
        replace (S i + S q)%nat with (i + S q + 1)%nat by lia. unfold Rdiv. ring.
Qed.

Theorem bf_is_piece p : (p <= span)%nat ->
  forall r, (r <= p)%nat -> nth r (BfN.bf V span u p) 0 = Nn p (span - p + r) u.
Proof.
  induction p as [|q IH]; intros Hp r Hr.
  - assert (r = 0%nat) by lia. subst r. cbn [BfN.bf nth Nk]. replace (span - 0 + 0)%nat with span by lia.
    rewrite Nat.eqb_refl. reflexivity.
  - cbn [BfN.bf]. replace (span - S q + r)%nat with (span - S q + 0 + r)%nat by lia.
    apply inner_piece; try lia.
    + rewrite BfN.bf_length. lia.
    + intros m Hm. rewrite BfN.bf_length in Hm. rewrite IH by lia. f_equal. lia.
    + rewrite (Nk_support V span q (span - S q + 0) u) by lia. ring.
    + rewrite BfN.bf_length. lia.
Qed.
End A22Pieces.

Section Ndu.
Variables (U : list R) (span : nat) (u : R).
Notation lft := (Basis.left Rops U span u).
Notation rgt := (Basis.right Rops U span u).
Notation body := (DersRow0.body U span u).
Notation column := (DersRow0.column U span u).

(* the inner loop of column j after m steps: writes (j, b) and (b, j) for b < m only; (j, b) holds the knot difference *)
Lemma body_fold n j : (0 < j < n)%nat -> forall m, (m <= j)%nat -> forall nd sv, wf nd n ->
  let res := fold_left (body j) (seq 0 m) (nd, sv) in
  wf (fst res) n /\
  (forall a b, ~ ((a = j /\ b < m) \/ (b = j /\ a < m))%nat -> get2 Rops (fst res) a b = get2 Rops nd a b) /\
  (forall b, (b < m)%nat -> get2 Rops (fst res) j b = rgt (S b) + lft (j - b)).
Proof.
  intros Hj. induction m as [|m IH]; intros Hm nd sv Hwf.
  - cbn [seq fold_left fst]. repeat split; try apply Hwf. intros b Hb. lia.
  - destruct (IH ltac:(lia) nd sv Hwf) as (W & Fr & Lo). clear IH.
    rewrite seq_S, fold_left_app. cbn [fold_left Nat.add].
    destruct (fold_left (body j) (seq 0 m) (nd, sv)) as [ndm svm]. cbn [fst snd] in *.
    unfold DersRow0.body. cbn [fst].
    set (d := oadd Rops (rgt (S m)) (lft (j - m))).
    set (nd1 := set2 ndm j m d).
    set (v := oadd Rops svm (omul Rops (rgt (S m)) (odiv Rops (get2 Rops nd1 m (Nat.pred j)) d))).
    assert (W1 : wf nd1 n) by (apply set2_wf; exact W).
    split; [apply set2_wf; exact W1|]. split.
    + intros a b Hnt. unfold nd1. rewrite !get2_set2_other.
      * apply Fr. lia.
      * intros E. injection E as <- <-. apply Hnt. left. lia.
      * intros E. injection E as <- <-. apply Hnt. right. lia.
    + intros b Hb. rewrite get2_set2_other by (intros E; injection E; lia).
      destruct (Nat.eq_dec b m) as [->|Hne].
      * unfold nd1. rewrite (get2_set2_same _ n) by (auto; lia). reflexivity.
      * unfold nd1. rewrite get2_set2_other by (intros E; injection E; lia). apply Lo. lia.
Qed.

(* lower triangle up to row j holds the knot differences *)
Definition lower (T : list (list R)) (n j : nat) : Prop :=
  wf T n /\ forall j' b, (j' <= j)%nat -> (b < j')%nat -> get2 Rops T j' b = rgt (S b) + lft (j' - b).

Lemma column_lower n j T : (S j < n)%nat -> lower T n j -> lower (column T (S j)) n (S j).
Proof.
  intros Hj [Hwf Hlo]. unfold DersRow0.column.
  destruct (body_fold n (S j) ltac:(lia) (S j) (le_n _) T (o0 Rops) Hwf) as (W & Fr & Lo).
  destruct (fold_left (body (S j)) (seq 0 (S j)) (T, o0 Rops)) as [T' saved]. cbn [fst snd] in *.
  split; [apply set2_wf; exact W|].
  intros j' b Hj' Hb. rewrite get2_set2_other by (intros E; injection E; lia).
  destruct (Nat.eq_dec j' (S j)) as [->|Hne].
  - apply Lo. exact Hb.
  - rewrite Fr by lia. apply Hlo; lia.
Qed.

Lemma columns_lower n : forall m j T, (j + m < n)%nat -> lower T n j -> lower (fold_left column (seq (S j) m) T) n (j + m).
Proof.
  induction m as [|m IH]; intros j T Hn HT; cbn [seq fold_left].
  - rewrite Nat.add_0_r. exact HT.
  - replace (j + S m)%nat with (S j + m)%nat by lia. apply IH; [lia|]. apply column_lower; [lia|exact HT].
Qed.

Theorem ndu_lower p : lower (ndu_table Rops p U span u) (S p) p.
Proof.
  rewrite ndu_table_fold. apply (columns_lower (S p) p 0%nat); [lia|].
  split; [apply mk2_wf|]. intros j' b Hj' Hb. lia.
Qed.

(* the table is a full (p+1) x (p+1) array *)
Lemma ndu_wf p : wf (ndu_table Rops p U span u) (S p).
Proof. apply ndu_lower. Qed.

(* ---- (1) the specification of the table ---- *)
Theorem ndu_table_spec p :
  sortedR U -> knR U span <= u < knR U (span + 1) ->
  (p <= span)%nat -> (span + p < length U)%nat -> (span + 1 < length U)%nat ->
  (forall r j, (r <= j)%nat -> (j <= p)%nat ->
     get2 Rops (ndu_table Rops p U span u) r j = N (Ufun U) j (span - j + r) u) /\
  (forall r j, (r < j)%nat -> (j <= p)%nat ->
     get2 Rops (ndu_table Rops p U span u) j r = Ufun U (span + r + 1) - Ufun U (span + 1 - (j - r))).
Proof.
  intros Hs Hu Hp HL HL1. split.
  - intros r j Hr Hj. destruct (ndu_upper U span u p) as [_ Hup]. rewrite Hup by lia.
    apply (bf_is_cox_de_boor_list U u span Hs Hu); lia.
  - intros r j Hr Hj. destruct (ndu_lower p) as [_ Hlo]. rewrite Hlo by lia.
    unfold Basis.left, Basis.right. rsimp. rewrite !Ufun_in by lia.
    replace (span + S r)%nat with (span + r + 1)%nat by lia. ring.
Qed.

(* the same table read as polynomial pieces of the span: no condition on u (nor on the knots) *)
Theorem ndu_table_spec_pieces p :
  (p <= span)%nat -> (span + p < length U)%nat -> (span + 1 < length U)%nat ->
  (forall r j, (r <= j)%nat -> (j <= p)%nat ->
     get2 Rops (ndu_table Rops p U span u) r j = Nk (Ufun U) span j (span - j + r) u) /\
  (forall r j, (r < j)%nat -> (j <= p)%nat ->
     get2 Rops (ndu_table Rops p U span u) j r = Ufun U (span + r + 1) - Ufun U (span + 1 - (j - r))).
Proof.
  intros Hp HL HL1. split.
  - intros r j Hr Hj. destruct (ndu_upper U span u p) as [_ Hup]. rewrite Hup by lia.
    rewrite bf_Ufun by lia. apply bf_is_piece; lia.
  - intros r j Hr Hj. destruct (ndu_lower p) as [_ Hlo]. rewrite Hlo by lia.
    unfold Basis.left, Basis.right. rsimp. rewrite !Ufun_in by lia.
    replace (span + S r)%nat with (span + r + 1)%nat by lia. ring.
Qed.
End Ndu.

Print Assumptions ndu_table_spec.
Print Assumptions ndu_table_spec_pieces.
