(* Sign facts about the Cox-de Boor functions N U p i (Proofs/Boehm.v) on a sorted knot function U : nat -> R:
   non-negativity, strict positivity on the open support and at a left end of full multiplicity, vanishing at a
   left end of lower multiplicity, value 1 at a knot of multiplicity p.  Used by Proofs/BsplineTP.v. *)
From Coq Require Import Reals Lra Lia Arith Bool.
From NV Require Import Proofs.Boehm.
Open Scope R_scope.

Section Pos.
Variable U : nat -> R.
Hypothesis Usorted : forall i, U i <= U (S i).
Notation Um := (U_mono U Usorted).

Lemma U_lt_idx a b : U a < U b -> (a < b)%nat.
Proof. intros H. destruct (le_lt_dec b a) as [Hle|Hlt]; [|exact Hlt]. pose proof (Um b a Hle). lra. Qed.

Lemma N_pos_support p i u : N U p i u <> 0 -> U i <= u < U (i + p + 1).
Proof.
  intros H. split.
  - destruct (Rle_dec (U i) u) as [Hle|Hn]; [exact Hle|]. exfalso. apply H. apply (N_support U Usorted). left. lra.
  - destruct (Rlt_dec u (U (i + p + 1))) as [Hlt|Hn]; [exact Hlt|]. exfalso. apply H. apply (N_support U Usorted). right. lra.
Qed.

Lemma term_nonneg (a d x : R) : 0 <= x -> (x <> 0 -> 0 <= a /\ 0 < d) -> 0 <= a / d * x.
Proof.
  intros Hx H. destruct (Req_dec x 0) as [E|Hne]; [rewrite E; lra|].
  destruct (H Hne) as [Ha Hd]. apply Rmult_le_pos; [|exact Hx].
  unfold Rdiv. apply Rmult_le_pos; [exact Ha|]. left. apply Rinv_0_lt_compat. exact Hd.
Qed.

(* [G] non-negativity *)
Lemma N_nonneg p : forall i u, 0 <= N U p i u.
Proof.
  induction p as [|q IH]; intros i u; cbn [N].
  - unfold ind. destruct (Rle_dec (U i) u); [destruct (Rlt_dec u (U (S i)))|]; lra.
  - apply Rplus_le_le_0_compat; apply term_nonneg; try apply IH.
    + intros Hne. apply N_pos_support in Hne. replace (i + S q)%nat with (i + q + 1)%nat by lia. lra.
    + intros Hne. apply N_pos_support in Hne. replace (i + S q + 1)%nat with (S i + q + 1)%nat by lia. lra.
Qed.

Lemma N_pos_range p i u : 0 < N U p i u -> U i <= u < U (i + p + 1).
Proof. intros H. apply N_pos_support. lra. Qed.

(* [G] at a left end of multiplicity <= p the function vanishes *)
Lemma N_left_end p : forall i, U i < U (i + p) -> N U p i (U i) = 0.
Proof.
  induction p as [|q IH]; intros i H.
  - rewrite Nat.add_0_r in H. lra.
  - cbn [N]. replace (U i - U i) with 0 by ring.
    assert (E : N U q (S i) (U i) = 0).
    { destruct (Rlt_dec (U i) (U (S i))) as [Hlt|Hn].
      - apply (N_support U Usorted). left. exact Hlt.
      - assert (Ee : U (S i) = U i) by (pose proof (Usorted i); lra).
        rewrite <- Ee. apply IH. rewrite Ee. replace (S i + q)%nat with (i + S q)%nat by lia. exact H. }
    rewrite E. unfold Rdiv. ring.
Qed.
Lemma N_pos_left_end p i : 0 < N U p i (U i) -> U (i + p) = U i.
Proof.
  intros H. destruct (Rlt_dec (U i) (U (i + p))) as [Hlt|Hn].
  - rewrite N_left_end in H by exact Hlt. lra.
  - pose proof (Um i (i + p)%nat ltac:(lia)). lra.
Qed.

(* [G] p+1 equal knots U_i = .. = U_{i+p} = x < U_{i+p+1}: the function is 1 at x *)
Lemma N_all_equal p : forall i x, U i = x -> U (i + p) = x -> x < U (i + p + 1) -> N U p i x = 1.
Proof.
  induction p as [|q IH]; intros i x H0 H1 H2.
  - cbn [N]. unfold ind. replace (i + 0 + 1)%nat with (S i) in H2 by lia.
    destruct (Rle_dec (U i) x); [destruct (Rlt_dec x (U (S i)))|]; lra.
  - cbn [N]. rewrite H0. replace (x - x) with 0 by ring.
    assert (E1 : U (S i) = x).
    { pose proof (Usorted i). pose proof (Um (S i) (i + S q)%nat ltac:(lia)). lra. }
    rewrite (IH (S i) x).
    + rewrite E1. unfold Rdiv. rewrite Rmult_0_l, Rmult_0_l, Rplus_0_l, Rmult_1_r.
      apply Rinv_r. lra.
    + exact E1.
    + replace (S i + q)%nat with (i + S q)%nat by lia. exact H1.
    + replace (S i + q + 1)%nat with (i + S q + 1)%nat by lia. exact H2.
Qed.

(* [G] strict positivity: inside the open support, or at a left end of multiplicity p+1 *)
Lemma N_pos p : forall i x,
  (U i < x < U (i + p + 1)) \/ (U i = x /\ U (i + p) = x /\ x < U (i + p + 1)) -> 0 < N U p i x.
Proof.
  induction p as [|q IH]; intros i x H.
  - destruct H as [H|(H0 & H1 & H2)]; [|rewrite (N_all_equal 0 i x) by assumption; lra].
    cbn [N]. unfold ind. replace (i + 0 + 1)%nat with (S i) in H by lia.
    destruct (Rle_dec (U i) x); [destruct (Rlt_dec x (U (S i)))|]; lra.
  - destruct H as [H|(H0 & H1 & H2)]; [|rewrite (N_all_equal (S q) i x) by assumption; lra].
    cbn [N]. replace (i + S q + 1)%nat with (i + q + 2)%nat in * by lia.
    replace (i + S q)%nat with (i + q + 1)%nat by lia.
    assert (T1 : 0 <= (x - U i) / (U (i + q + 1) - U i) * N U q i x).
    { apply term_nonneg; [apply N_nonneg|]. intros Hne. apply N_pos_support in Hne. lra. }
    assert (T2 : 0 <= (U (i + q + 2) - x) / (U (i + q + 2) - U (S i)) * N U q (S i) x).
    { apply term_nonneg; [apply N_nonneg|]. intros Hne. apply N_pos_support in Hne.
      replace (S i + q + 1)%nat with (i + q + 2)%nat in Hne by lia. lra. }
    destruct (Rlt_dec x (U (i + q + 1))) as [Hlt|Hge].
    + assert (P : 0 < N U q i x) by (apply IH; left; lra).
      assert (0 < (x - U i) / (U (i + q + 1) - U i) * N U q i x); [|lra].
      apply Rmult_lt_0_compat; [|exact P]. unfold Rdiv. apply Rmult_lt_0_compat; [lra|]. apply Rinv_0_lt_compat. lra.
    + pose proof (Um (S i) (i + q + 1)%nat ltac:(lia)) as M1.
      assert (P : 0 < N U q (S i) x).
      { apply IH. replace (S i + q + 1)%nat with (i + q + 2)%nat by lia. replace (S i + q)%nat with (i + q + 1)%nat by lia.
        destruct (Rlt_dec (U (S i)) x) as [Hl|Hn]; [left; lra|right]. lra. }
      assert (0 < (U (i + q + 2) - x) / (U (i + q + 2) - U (S i)) * N U q (S i) x); [|lra].
      apply Rmult_lt_0_compat; [|exact P]. unfold Rdiv. apply Rmult_lt_0_compat; [lra|]. apply Rinv_0_lt_compat. lra.
Qed.

(* [G] a knot x of multiplicity >= p: U_{r+1} = .. = U_{r+p} = x < U_{r+p+1}.  Function r is 1 at x, all others vanish *)
Lemma N_one_full p r x : (1 <= p)%nat -> U (r + 1) = x -> U (r + p) <= x < U (r + p + 1) -> N U p r x = 1.
Proof.
  intros Hp H1 H2.
  assert (Ep : U (r + p) = x) by (pose proof (Um (r + 1) (r + p)%nat ltac:(lia)); lra).
  destruct (Req_dec (U r) x) as [E|Hne]; [apply N_all_equal; [exact E|exact Ep|lra]|].
  destruct p as [|q]; [lia|]. cbn [N].
  rewrite (N_support U Usorted q r x) by (right; replace (r + q + 1)%nat with (r + S q)%nat by lia; lra).
  rewrite (N_all_equal q (S r) x).
  - replace (S r) with (r + 1)%nat by lia. rewrite H1. unfold Rdiv. rewrite Rmult_0_r, Rplus_0_l, Rmult_1_r. apply Rinv_r. lra.
  - replace (S r) with (r + 1)%nat by lia. exact H1.
  - replace (S r + q)%nat with (r + S q)%nat by lia. exact Ep.
  - replace (S r + q + 1)%nat with (r + S q + 1)%nat by lia. lra.
Qed.
Lemma N_zero_full p r x m : (1 <= p)%nat -> U (r + 1) = x -> U (r + p) <= x < U (r + p + 1) -> m <> r -> N U p m x = 0.
Proof.
  intros Hp H1 H2 Hm.
  destruct (lt_dec m r) as [Hlt|Hge].
  - apply (N_support U Usorted). right. pose proof (Um (m + p + 1) (r + p)%nat ltac:(lia)). lra.
  - destruct (le_lt_dec m (r + p)) as [Hle|Hgt].
    + assert (E : U m = x).
      { pose proof (Um (r + 1) m ltac:(lia)). pose proof (Um m (r + p)%nat ltac:(lia)). lra. }
      rewrite <- E. apply N_left_end. pose proof (Um (r + p + 1) (m + p)%nat ltac:(lia)). lra.
    + apply (N_support U Usorted). left. pose proof (Um (r + p + 1) m ltac:(lia)). lra.
Qed.

(* a point of the domain lies in some half-open knot interval *)
Lemma find_span_fun L : forall y, U 0 <= y < U L -> exists s, (s < L)%nat /\ U s <= y < U (S s).
Proof.
  induction L as [|L IH]; intros y H; [lra|].
  destruct (Rlt_dec y (U L)) as [Hlt|Hge].
  - destruct (IH y ltac:(lra)) as (s & Hs & Hy). exists s. split; [lia|exact Hy].
  - exists L. split; [lia|lra].
Qed.
End Pos.
