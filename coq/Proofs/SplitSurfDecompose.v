(* C07, surfaces: operations.decompose_surface (Model/Split.v, directions 'u' = 0, 'v' = 1, 'uv' = 2) returns exactly one
   Bezier patch per non-empty knot interval (per pair of intervals for 'uv'), in order (uv: u outer, v inner, as the
   code concatenates them), each coinciding with the original surface on its interval / rectangle.
   The curve chain argument of Proofs/SplitCount.v is lifted: the split direction of a surface is viewed as the curve
   dcurve p U n (degree, knot vector, size of that direction, dummy net), whose invariant dec_valid drives the loop;
   one step = Proofs/SplitSurf.v (a surface split never fails and both pieces coincide with the original).
   The chain induction is done once, generically in the direction index idx (0 = u, 1 = v). *)
From Coq Require Import List Reals Lra Lia Arith Bool ZArith Sorted Permutation.
From NV Require Import Scalar.Ops Model.Common Model.Basis Model.Knots Model.KnotIns Model.InsertKnot Model.Split
  Proofs.Boehm Proofs.BasisR Proofs.KnotsR Proofs.KnotInsR Proofs.InsertKnotR Proofs.KnotInsN Proofs.InsertNR Proofs.InsertOpR
  Proofs.InsertDirR Proofs.SplitR Proofs.SplitBezier Proofs.SplitLocal Proofs.SplitCoincide Proofs.SplitCount Proofs.SplitSurf.
Import ListNotations.
Open Scope R_scope.

(* ---------------------------------------------------------------- one direction of a surface seen as a curve *)
Definition dcurve (p : nat) (U : list R) (n : nat) : @curve R := mkC p U (repeat [] n).

(* what the knot-vector setter of a new surface does to the knot vector of the direction that is not split *)
Definition norm_kv (V : list R) : list R :=
  map (fun x => (x - knR V 0) / (knR V (length V - 1) - knR V 0)) V.

(* the parameter of a piece (knot vector U of the piece, domain = first .. last knot) that corresponds to x in [lo, hi] *)
Definition apar (U : list R) (lo hi x : R) : R :=
  knR U 0 + (x - lo) / (hi - lo) * (knR U (length U - 1) - knR U 0).

(* break points of a direction: domain start, the distinct interior knots in order, domain end *)
Definition dbreaks (p : nat) (U : list R) (n : nat) : list R :=
  knR U 0 :: dedup (interior_knots p U) ++ [knR U (n + p)].

(* the hypotheses of decompose_count on one direction (degree p, knot vector U, n control points) *)
Definition dir_dec_hyps (tol : R) (p : nat) (U : list R) (n : nat) : Prop :=
  sortedR U /\ length U = S (p + n) /\
  bezier_kv p (firstn (S p) U ++ skipn (length U - S p) U) /\
  (1 <= p)%nat /\ (forall i, (1 <= i < n)%nat -> knR U i < knR U (i + p)) /\
  knots_separated tol U.

Lemma dcurve_len p U n : length (c_P (dcurve p U n)) = n.
Proof. apply repeat_length. Qed.

Lemma dbreaks_breakpoints p U n : breakpoints (dcurve p U n) = dbreaks p U n.
Proof. unfold breakpoints, dbreaks. rewrite dcurve_len. reflexivity. Qed.

Lemma dec_valid_ext tol (c c' : @curve R) :
  c_p c' = c_p c -> c_U c' = c_U c -> length (c_P c') = length (c_P c) -> dec_valid tol c -> dec_valid tol c'.
Proof. intros E1 E2 E3 H. unfold dec_valid in *. rewrite E1, E2, E3. exact H. Qed.

Lemma dir_dec_valid tol p U n : dir_dec_hyps tol p U n -> dec_valid tol (dcurve p U n).
Proof.
  intros (H1 & H2 & H3 & H4 & H5 & H6).
  apply (dec_valid_of_ends tol (dcurve p U n)); rewrite ?dcurve_len; assumption.
Qed.

Lemma dec_valid_keep tol p U n : dec_valid tol (dcurve p U n) -> dir_keep_hyps p U n /\ (0 < n)%nat.
Proof.
  intros (V1 & V2 & V3 & V4 & V5 & V6 & V7 & V8 & V9). rewrite dcurve_len in *. cbn [c_p c_U dcurve] in *.
  split; [|lia]. split; [exact V2|]. split; [lia|]. replace (p + n)%nat with (n + p)%nat by lia. exact V7.
Qed.

(* ---------------------------------------------------------------- the normalised knot vector of the kept direction *)
Lemma norm_kv_len V : length (norm_kv V) = length V.
Proof. apply map_length. Qed.

Lemma norm_kv_nth V i : (i < length V)%nat ->
  knR (norm_kv V) i = (knR V i - knR V 0) / (knR V (length V - 1) - knR V 0).
Proof.
  intros Hi. unfold norm_kv, kn.
  set (f := fun x : R => (x - nth 0 V (o0 Rops)) / (nth (length V - 1) V (o0 Rops) - nth 0 V (o0 Rops))).
  rewrite (nth_indep (map f V) (o0 Rops) (f 0)) by (rewrite map_length; exact Hi).
  rewrite map_nth. reflexivity.
Qed.

Lemma keep_is_norm q V nv : length V = S (q + nv) ->
  map (fun x => (x - knR V 0) / (knR V (q + nv) - knR V 0)) V = norm_kv V.
Proof. intros HL. unfold norm_kv. rewrite HL. replace (S (q + nv) - 1)%nat with (q + nv)%nat by lia. reflexivity. Qed.

Lemma keep_norm q V nv : dir_keep_hyps q V nv ->
  dir_keep_hyps q (norm_kv V) nv /\ knR (norm_kv V) 0 = 0 /\ knR (norm_kv V) (q + nv) = 1.
Proof.
  intros (Hs & HL & Hr).
  assert (E : (length V - 1)%nat = (q + nv)%nat) by lia.
  assert (E0 : knR (norm_kv V) 0 = 0) by (rewrite norm_kv_nth by lia; rewrite E; unfold Rdiv; ring).
  assert (E1 : knR (norm_kv V) (q + nv) = 1) by (rewrite norm_kv_nth by lia; rewrite E; field; lra).
  split; [|split; assumption]. split; [|split].
  - intros i j Hij. rewrite norm_kv_len in Hij. rewrite !norm_kv_nth by lia. rewrite E.
    unfold Rdiv. apply Rmult_le_compat_r; [left; apply Rinv_0_lt_compat; lra|].
    assert (knR V i <= knR V j) by (apply Hs; lia). lra.
  - rewrite norm_kv_len. exact HL.
  - rewrite E0, E1. lra.
Qed.

Lemma norm_kv_idem q V nv : dir_keep_hyps q V nv -> norm_kv (norm_kv V) = norm_kv V.
Proof.
  intros H. destruct (keep_norm q V nv H) as ((_ & HL & _) & E0 & E1).
  unfold norm_kv at 1. rewrite HL. replace (S (q + nv) - 1)%nat with (q + nv)%nat by lia. rewrite E0, E1.
  rewrite <- (map_id (norm_kv V)) at 2. apply map_ext. intros x. field.
Qed.

(* ---------------------------------------------------------------- one step in one direction, in terms of the
   knot vectors and sizes of the pieces of a surface split (skv_left/right, ssize_left/right of Proofs/SplitSurf.v) *)
Section DirStep.
Variables (tol : R) (p : nat) (U : list R) (n : nat).
Hypothesis Hv : dec_valid tol (dcurve p U n).
Hypothesis Hint : (S p < n)%nat.
Let c := dcurve p U n.
Let t := knR U (S p).

Let En : length (c_P c) = n.
Proof. apply dcurve_len. Qed.

Let Hint' : (S (c_p c) < length (c_P c))%nat.
Proof. rewrite En. exact Hint. Qed.

(* rewrite the accessors of c in a fact about c, leaving the pieces split_left/right tol c t alone *)
Ltac cfold H := change (c_p c) with p in H; change (c_U c) with U in H; rewrite ?En in H; fold t in H.

Let EL : c_U (split_left tol c t) = skv_left tol p U n t.
Proof. unfold split_left, skv_left, c, dcurve. cbn [c_p c_U c_P]. rewrite repeat_length. reflexivity. Qed.

Let ER : c_U (split_right tol c t) = skv_right tol p U n t.
Proof. unfold split_right, skv_right, c, dcurve. cbn [c_p c_U c_P]. rewrite repeat_length. reflexivity. Qed.

Let k := find_span_linear Rops p U n t.
Let s := find_multiplicity Rops tol t U.

Lemma ds_ks : (S p <= k < n)%nat /\ (k <= 2 * p)%nat /\ s = (k - p)%nat.
Proof.
  pose proof (st_k tol c Hv Hint') as H1. pose proof (st_k2p tol c Hv Hint') as H2. pose proof (st_s tol c Hv Hint') as H3.
  cfold H1. cfold H2. cfold H3. fold k in H1, H2, H3. fold s in H3. auto.
Qed.

Lemma ds_geom : dir_split_hyps tol p U n t.
Proof.
  pose proof (st_geom tol c Hv Hint') as H. unfold split_geom_hyps in H. cfold H. exact H.
Qed.

Lemma ds_a0t : knR U 0 < t.
Proof. pose proof (st_a0t tol c Hv Hint') as H. cfold H. exact H. Qed.

Lemma ds_tb0 : t < knR U (n + p).
Proof. pose proof (st_tb0 tol c Hv Hint') as H. cfold H. exact H. Qed.

Lemma ds_left_kv : skv_left tol p U n t = repeat 0 (S p) ++ repeat 1 (S p).
Proof. rewrite <- EL. pose proof (st_left_kv tol c Hv Hint') as H. cfold H. exact H. Qed.

Lemma ds_left_size : ssize_left tol p U n t = S p.
Proof. destruct ds_ks as (H1 & H2 & H3). unfold ssize_left. fold k s. lia. Qed.

Lemma ds_right_size : ssize_right tol p U n t = (n + p - k)%nat.
Proof. destruct ds_ks as (H1 & H2 & H3). unfold ssize_right. fold k s. lia. Qed.

Lemma ds_right_len : length (c_P (split_right tol c t)) = ssize_right tol p U n t.
Proof.
  destruct (st_R_shape tol c Hv Hint') as (_ & EP & _). rewrite ds_right_size.
  cfold EP. exact EP.
Qed.

Lemma ds_right_valid : dec_valid tol (dcurve p (skv_right tol p U n t) (ssize_right tol p U n t)).
Proof.
  apply (dec_valid_ext tol (split_right tol c t)); [reflexivity|symmetry; exact ER| |exact (st_right_valid tol c Hv Hint')].
  rewrite dcurve_len. symmetry. exact ds_right_len.
Qed.

Lemma ds_right_shorter : (length (skv_right tol p U n t) < length U)%nat.
Proof.
  destruct ds_ks as (H1 & H2 & H3). destruct (st_R_shape tol c Hv Hint') as (_ & _ & EL' & _).
  cfold EL'. rewrite ER in EL'. rewrite EL'. fold k.
  destruct Hv as (_ & _ & _ & V4 & _). cbn [c_p c_U c_P dcurve] in V4. rewrite repeat_length in V4. lia.
Qed.

Lemma ds_R_ends : knR (skv_right tol p U n t) 0 = 0 /\ knR (skv_right tol p U n t) (ssize_right tol p U n t + p) = 1.
Proof.
  destruct (st_R_ends tol c Hv Hint') as [E0 E1]. cfold E0. cfold E1. rewrite ER in E0, E1. rewrite ds_right_len in E1.
  split; assumption.
Qed.

Lemma ds_dedup : dedup (interior_knots p U) =
  t :: map (psi_ t (knR U (n + p))) (dedup (interior_knots p (skv_right tol p U n t))).
Proof.
  pose proof (st_dedup tol c Hv Hint') as H. cfold H. rewrite ER in H. exact H.
Qed.

Lemma ds_breaks : dbreaks p U n =
  knR U 0 :: map (psi_ t (knR U (n + p))) (dbreaks p (skv_right tol p U n t) (ssize_right tol p U n t)).
Proof.
  unfold dbreaks. rewrite ds_dedup. destruct ds_R_ends as [E0 E1]. rewrite E0, E1.
  cbn [map app]. rewrite map_app. cbn [map].
  replace (psi_ t (knR U (n + p)) 0) with t by (unfold psi_; ring).
  replace (psi_ t (knR U (n + p)) 1) with (knR U (n + p)) by (unfold psi_; ring). reflexivity.
Qed.
End DirStep.

(* ---------------------------------------------------------------- direction accessors (idx = 0: u, otherwise v),
   written as the model's inner function `decompose(srf, idx, split_func_list)` writes them *)
Definition dp (idx : nat) (g : @surf R) : nat := if Nat.eqb idx 0 then s_pu g else s_pv g.
Definition dU (idx : nat) (g : @surf R) : list R := if Nat.eqb idx 0 then s_Uu g else s_Uv g.
Definition dn (idx : nat) (g : @surf R) : nat := if Nat.eqb idx 0 then s_su g else s_sv g.
Definition op (idx : nat) (g : @surf R) : nat := if Nat.eqb idx 0 then s_pv g else s_pu g.
Definition oU (idx : nat) (g : @surf R) : list R := if Nat.eqb idx 0 then s_Uv g else s_Uu g.
Definition on (idx : nat) (g : @surf R) : nat := if Nat.eqb idx 0 then s_sv g else s_su g.
Definition dsplit (tol : R) (idx : nat) (g : @surf R) (t : R) : res (@surf R * @surf R) :=
  if Nat.eqb idx 0 then split_surface_u Rops tol g t else split_surface_v Rops tol g t.
(* surface point with the parameter of the split direction first *)
Definition dpt (idx : nat) (g : @surf R) (c : nat) (x y : R) : R :=
  if Nat.eqb idx 0 then surf_pt g c x y else surf_pt g c y x.

(* l is a chain of splits of g in direction idx *)
Inductive surf_chain (tol : R) (idx : nat) : @surf R -> list (@surf R) -> Prop :=
| schain_done g : interior_knots (dp idx g) (dU idx g) = [] -> surf_chain tol idx g [g]
| schain_step g knot rest g1 g2 l :
    interior_knots (dp idx g) (dU idx g) = knot :: rest ->
    dsplit tol idx g knot = Ok (g1, g2) ->
    surf_chain tol idx g2 l -> surf_chain tol idx g (g1 :: l).

Lemma decompose_surf_loop_chain tol idx : forall fuel g acc l,
  decompose_surf_loop Rops fuel tol idx g acc = Ok l -> exists l', l = rev acc ++ l' /\ surf_chain tol idx g l'.
Proof.
  induction fuel as [|fuel IH]; intros g acc l H; [discriminate|].
  cbn [decompose_surf_loop] in H. cbv zeta in H.
  change (if Nat.eqb idx 0 then s_pu g else s_pv g) with (dp idx g) in H.
  change (if Nat.eqb idx 0 then s_Uu g else s_Uv g) with (dU idx g) in H.
  destruct (interior_knots (dp idx g) (dU idx g)) as [|knot rest] eqn:E.
  - inversion H. exists [g]. split; [cbn [rev]; reflexivity|]. apply schain_done. exact E.
  - change (if Nat.eqb idx 0 then split_surface_u Rops tol g knot else split_surface_v Rops tol g knot)
      with (dsplit tol idx g knot) in H.
    destruct (dsplit tol idx g knot) as [[g1 g2]| |] eqn:E2; try discriminate.
    apply IH in H. destruct H as (l' & -> & Hc). exists (g1 :: l'). split.
    + cbn [rev]. rewrite <- app_assoc. reflexivity.
    + eapply schain_step; eassumption.
Qed.

Theorem decompose_dir_is_chain tol idx g l : decompose_dir Rops tol idx g = Ok l -> surf_chain tol idx g l.
Proof.
  intros H. apply decompose_surf_loop_chain in H. destruct H as (l' & -> & Hc). exact Hc.
Qed.

(* ================================================================ the chain argument, generic in the direction *)
Section Chain.
Variables (tol : R) (idx : nat) (dim : nat).
(* what is known about the control net (sizes / dimensions); a parameter of the argument *)
Variable Dims : @surf R -> Prop.

(* the loop invariant *)
Definition dinv (g : @surf R) : Prop :=
  dec_valid tol (dcurve (dp idx g) (dU idx g) (dn idx g)) /\
  dir_keep_hyps (op idx g) (oU idx g) (on idx g) /\ Dims g.

(* one step (provided per direction by Proofs/SplitSurf.v, see step_ok_u / step_ok_v below) *)
Definition step_ok : Prop := forall g, dinv g -> (S (dp idx g) < dn idx g)%nat ->
  let p := dp idx g in let U := dU idx g in let n := dn idx g in let V := oU idx g in
  let t := knR U (S p) in
  exists g1 g2, dsplit tol idx g t = Ok (g1, g2) /\
    dp idx g1 = p /\ dp idx g2 = p /\ op idx g1 = op idx g /\ op idx g2 = op idx g /\
    dU idx g1 = skv_left tol p U n t /\ dn idx g1 = ssize_left tol p U n t /\
    dU idx g2 = skv_right tol p U n t /\ dn idx g2 = ssize_right tol p U n t /\
    oU idx g1 = norm_kv V /\ oU idx g2 = norm_kv V /\ on idx g1 = on idx g /\ on idx g2 = on idx g /\
    Dims g1 /\ Dims g2 /\
    (forall cc x y, (cc < dim)%nat -> x < t ->
       dpt idx g1 cc ((x - knR U 0) / (t - knR U 0))
                     ((y - knR V 0) / (knR V (op idx g + on idx g) - knR V 0)) = dpt idx g cc x y) /\
    (forall cc x y, (cc < dim)%nat -> t <= x ->
       dpt idx g2 cc ((x - t) / (knR U (n + p) - t))
                     ((y - knR V 0) / (knR V (op idx g + on idx g) - knR V 0)) = dpt idx g cc x y).

(* piece j covers [b_j, b_{j+1}) of the split direction (all of the other direction) and coincides there with the
   original under the affine maps of its own domain onto that strip *)
Definition strips_coincide (g : @surf R) (l : list (@surf R)) : Prop :=
  let bp := dbreaks (dp idx g) (dU idx g) (dn idx g) in
  let V := oU idx g in
  forall j, (j < length l)%nat ->
    (knR (dU idx g) 0 <= nth j bp 0 < nth (S j) bp 0) /\
    forall cc x y, (cc < dim)%nat -> nth j bp 0 <= x < nth (S j) bp 0 ->
      dpt idx (nth j l g) cc (apar (dU idx (nth j l g)) (nth j bp 0) (nth (S j) bp 0) x)
                             (apar (oU idx (nth j l g)) (knR V 0) (knR V (length V - 1)) y) = dpt idx g cc x y.

(* what every piece looks like *)
Definition strip_shape (g q : @surf R) : Prop :=
  dp idx q = dp idx g /\ op idx q = op idx g /\
  dU idx q = repeat (knR (dU idx q) 0) (S (dp idx g)) ++ repeat (knR (dU idx q) (length (dU idx q) - 1)) (S (dp idx g)) /\
  knR (dU idx q) 0 < knR (dU idx q) (length (dU idx q) - 1) /\
  dn idx q = S (dp idx g) /\ on idx q = on idx g /\
  oU idx q = match interior_knots (dp idx g) (dU idx g) with [] => oU idx g | _ => norm_kv (oU idx g) end /\
  Dims q /\
  (interior_knots (dp idx g) (dU idx g) <> [] ->
   knR (dU idx q) 0 = 0 /\ knR (dU idx q) (length (dU idx q) - 1) = 1).

Lemma chain_no_interior g l : surf_chain tol idx g l -> interior_knots (dp idx g) (dU idx g) = [] -> l = [g].
Proof. intros H E. inversion H; subst; [reflexivity|congruence]. Qed.

Hypothesis Hstep : step_ok.

Lemma first_interior g : dinv g -> forall knot rest, interior_knots (dp idx g) (dU idx g) = knot :: rest ->
  (S (dp idx g) < dn idx g)%nat /\ knot = knR (dU idx g) (S (dp idx g)).
Proof.
  intros (Hv & _) knot rest E. destruct Hv as (V1 & V2 & V3 & V4 & _).
  rewrite dcurve_len in V3, V4. cbn [c_p c_U dcurve] in V3, V4.
  pose proof (interior_len (dp idx g) (dU idx g) (dn idx g) V4) as HL. rewrite E in HL. cbn [length] in HL.
  split; [lia|].
  pose proof (interior_nth (dp idx g) (dU idx g) (dn idx g) 0 V4 ltac:(lia)) as H0. rewrite E in H0. cbn [nth] in H0.
  rewrite H0. f_equal. lia.
Qed.

Lemma no_interior g : dinv g -> interior_knots (dp idx g) (dU idx g) = [] ->
  dn idx g = S (dp idx g) /\
  dU idx g = repeat (knR (dU idx g) 0) (S (dp idx g)) ++ repeat (knR (dU idx g) (length (dU idx g) - 1)) (S (dp idx g)) /\
  knR (dU idx g) 0 < knR (dU idx g) (length (dU idx g) - 1).
Proof.
  intros (Hv & _) E. destruct (valid_no_interior tol _ Hv E) as [Hn HU].
  destruct Hv as (V1 & V2 & V3 & V4 & V5 & V6 & V7 & _).
  rewrite dcurve_len in *. cbn [c_p c_U dcurve] in *.
  replace (length (dU idx g) - 1)%nat with (dn idx g + dp idx g)%nat by lia. auto.
Qed.

Lemma dinv_right g g2 : dinv g -> (S (dp idx g) < dn idx g)%nat ->
  dp idx g2 = dp idx g -> op idx g2 = op idx g ->
  dU idx g2 = skv_right tol (dp idx g) (dU idx g) (dn idx g) (knR (dU idx g) (S (dp idx g))) ->
  dn idx g2 = ssize_right tol (dp idx g) (dU idx g) (dn idx g) (knR (dU idx g) (S (dp idx g))) ->
  oU idx g2 = norm_kv (oU idx g) -> on idx g2 = on idx g -> Dims g2 -> dinv g2.
Proof.
  intros (Hv & Hk & _) Hint E1 E2 E3 E4 E5 E6 HD. unfold dinv. rewrite E1, E2, E3, E4, E5, E6.
  split; [exact (ds_right_valid tol _ _ _ Hv Hint)|]. split; [|exact HD].
  apply (keep_norm _ _ _ Hk).
Qed.

Theorem surf_chain_spec : forall g l, surf_chain tol idx g l -> dinv g ->
  length l = S (length (dedup (interior_knots (dp idx g) (dU idx g)))) /\
  Forall (strip_shape g) l /\ strips_coincide g l.
Proof.
  induction 1 as [g E|g knot rest' g1 g2 l E Hs Hc IH]; intros Hinv.
  - (* no interior knot: the surface itself *)
    destruct (no_interior g Hinv E) as (Hn & HU & Hab).
    pose proof Hinv as (Hv & Hk & HD). destruct Hk as (Ks & KL & Kr).
    split; [rewrite E; reflexivity|]. split.
    + constructor; [|constructor]. unfold strip_shape. rewrite E.
      repeat (split; [solve [auto]|]). intros Hne. congruence.
    + intros j Hj. cbn [length] in Hj. assert (j = 0)%nat by lia. subst j.
      unfold dbreaks. rewrite E. cbn [dedup app nth].
      destruct Hv as (V1 & V2 & V3 & V4 & V5 & V6 & V7 & _). rewrite dcurve_len in *. cbn [c_p c_U dcurve] in *.
      split; [lra|]. intros cc x y Hcc Hx. unfold apar. rewrite V4, KL.
      replace (dn idx g + dp idx g + 1 - 1)%nat with (dn idx g + dp idx g)%nat by lia.
      replace (S (op idx g + on idx g) - 1)%nat with (op idx g + on idx g)%nat by lia.
      f_equal; field; lra.
  - (* one split at the first interior knot, then the chain of the right piece *)
    destruct (first_interior g Hinv knot rest' E) as [Hint Hknot]. subst knot.
    pose proof Hinv as (Hv & Hk & HD).
    destruct (Hstep g Hinv Hint) as (g1' & g2' & Hs' & A1 & A2 & A3 & A4 & A5 & A6 & A7 & A8 & A9 & A10 & A11 & A12 &
                                       A13 & A14 & HLeft & HRight).
    cbv zeta in *. rewrite Hs in Hs'. inversion Hs'. subst g1' g2'. clear Hs'.
    set (p := dp idx g) in *. set (U := dU idx g) in *. set (n := dn idx g) in *. set (V := oU idx g) in *.
    set (t := knR U (S p)) in *.
    pose proof (dinv_right g g2 Hinv Hint A2 A4 A7 A8 A10 A12 A14) as Hinv2.
    destruct (IH Hinv2) as (IHlen & IHF & IHco).
    pose proof (ds_dedup tol p U n Hv Hint) as HDd. fold t in HDd.
    pose proof (ds_a0t tol p U n Hv Hint) as Hat. pose proof (ds_tb0 tol p U n Hv Hint) as Htb. fold t in Hat, Htb.
    pose proof (ds_left_kv tol p U n Hv Hint) as HLkv. fold t in HLkv.
    pose proof (ds_left_size tol p U n Hv Hint) as HLsz. fold t in HLsz.
    destruct (keep_norm _ _ _ Hk) as (Hk' & KN0 & KN1). fold V in Hk', KN0, KN1.
    pose proof Hk as (Ks & KL & Kr). fold V in Ks, KL, Kr.
    assert (HUg1 : knR (dU idx g1) 0 = 0 /\ knR (dU idx g1) (length (dU idx g1) - 1) = 1).
    { rewrite A5, HLkv, app_length, !repeat_length. unfold kn. split.
      - rewrite app_nth1 by (rewrite repeat_length; lia). apply nth_repeat_lt. lia.
      - rewrite app_nth2 by (rewrite repeat_length; lia). rewrite repeat_length. apply nth_repeat_lt. lia. }
    destruct HUg1 as [G10 G11].
    destruct (ds_R_ends tol p U n Hv Hint) as [R0 R1]. fold t in R0, R1. rewrite <- A7 in R0, R1. rewrite <- A8 in R1.
    split; [|split].
    + cbn [length]. rewrite IHlen, HDd. cbn [length]. rewrite map_length. rewrite A2, A7. reflexivity.
    + constructor.
      * unfold strip_shape. fold p U V. rewrite E. rewrite G10, G11.
        split; [exact A1|]. split; [exact A3|]. split; [rewrite A5; exact HLkv|]. split; [lra|].
        split; [rewrite A6; exact HLsz|]. split; [exact A11|]. split; [exact A9|]. split; [exact A13|].
        intros _. split; reflexivity.
      * apply Forall_forall. intros q Hq. rewrite Forall_forall in IHF.
        destruct (IHF q Hq) as (B1 & B2 & B3 & B4 & B5 & B6 & B7 & B8 & B9).
        unfold strip_shape. fold p U V. rewrite E. rewrite A2 in B1, B3, B5. fold p in B1, B3, B5.
        split; [exact B1|]. split; [congruence|]. split; [exact B3|]. split; [exact B4|]. split; [exact B5|].
        split; [congruence|].
        destruct (interior_knots (dp idx g2) (dU idx g2)) as [|kk rr] eqn:E2.
        -- pose proof (chain_no_interior _ _ Hc E2) as El. subst l. destruct Hq as [<-|[]].
           split; [exact A10|]. split; [exact B8|]. intros _. split; [exact R0|].
           destruct Hinv2 as ((_ & _ & _ & V4 & _) & _). rewrite dcurve_len in V4. cbn [c_p c_U dcurve] in V4.
           rewrite V4, A2. replace (dn idx g2 + p + 1 - 1)%nat with (dn idx g2 + p)%nat by lia. exact R1.
        -- split; [rewrite B7, A10; apply (norm_kv_idem _ _ _ Hk)|]. split; [exact B8|].
           intros _. apply B9. discriminate.
    + set (b0 := knR U (n + p)) in *.
      assert (Hbp : dbreaks p U n = knR U 0 :: map (psi_ t b0) (dbreaks (dp idx g2) (dU idx g2) (dn idx g2))).
      { rewrite (ds_breaks tol p U n Hv Hint). rewrite A2, A7, A8. reflexivity. }
      set (bsR := dbreaks (dp idx g2) (dU idx g2) (dn idx g2)) in *.
      unfold strips_coincide. cbv zeta. fold p U n V. rewrite Hbp. intros j Hj.
      assert (HbsR : length bsR = S (length l)).
      { unfold bsR, dbreaks. cbn [length]. rewrite app_length. cbn [length]. rewrite IHlen. lia. }
      destruct j as [|j'].
      * (* the Bezier strip cut off on the left *)
        cbn [nth]. rewrite nth_map_lt by lia.
        assert (E0 : nth 0 bsR 0 = 0) by (unfold bsR, dbreaks; cbn [nth]; exact R0).
        rewrite E0. replace (psi_ t b0 0) with t by (unfold psi_; ring).
        split; [lra|]. intros cc x y Hcc Hx.
        rewrite <- (HLeft cc x y Hcc) by lra. unfold apar. rewrite G10, G11, A9, norm_kv_len, KL.
        replace (S (op idx g + on idx g) - 1)%nat with (op idx g + on idx g)%nat by lia.
        rewrite KN0, KN1. f_equal; field; lra.
      * (* a later strip: induction hypothesis on the right piece, mapped back *)
        cbn [length] in Hj. assert (Hj' : (j' < length l)%nat) by lia.
        change (nth (S j') (knR U 0 :: map (psi_ t b0) bsR) 0) with (nth j' (map (psi_ t b0) bsR) 0).
        change (nth (S (S j')) (knR U 0 :: map (psi_ t b0) bsR) 0) with (nth (S j') (map (psi_ t b0) bsR) 0).
        rewrite !nth_map_lt by lia.
        change (nth (S j') (g1 :: l) g) with (nth j' l g).
        rewrite (nth_indep l g g2 Hj').
        destruct (IHco j' Hj') as [[Hr0 Hr1] IHpt]. cbv zeta in Hr0, Hr1, IHpt.
        fold bsR in Hr0, Hr1, IHpt.
        set (q := nth j' l g2) in *.
        set (u := nth j' bsR 0) in *. set (v := nth (S j') bsR 0) in *.
        rewrite R0 in Hr0.
        assert (Hd : 0 < b0 - t) by lra.
        assert (Hpu : t <= psi_ t b0 u) by (unfold psi_; assert (0 <= u * (b0 - t)) by (apply Rmult_le_pos; lra); lra).
        assert (Hpuv : psi_ t b0 u < psi_ t b0 v)
          by (unfold psi_; assert (u * (b0 - t) < v * (b0 - t)) by (apply Rmult_lt_compat_r; lra); lra).
        split; [lra|]. intros cc x y Hcc Hx.
        set (x' := (x - t) / (b0 - t)).
        assert (Hxx : x = psi_ t b0 x') by (unfold psi_, x'; field; lra).
        assert (Hx' : u <= x' < v).
        { split.
          - destruct (Rle_lt_dec u x') as [H1|H1]; [exact H1|exfalso].
            assert (x' * (b0 - t) < u * (b0 - t)) by (apply Rmult_lt_compat_r; lra). unfold psi_ in *. lra.
          - destruct (Rlt_le_dec x' v) as [H1|H1]; [exact H1|exfalso].
            assert (v * (b0 - t) <= x' * (b0 - t)) by (apply Rmult_le_compat_r; lra). unfold psi_ in *. lra. }
        rewrite <- (HRight cc x y Hcc) by lra. fold b0 x'.
        set (y' := (y - knR V 0) / (knR V (op idx g + on idx g) - knR V 0)).
        rewrite <- (IHpt cc x' y' Hcc Hx'). rewrite A10, norm_kv_len, KL.
        replace (S (op idx g + on idx g) - 1)%nat with (op idx g + on idx g)%nat by lia.
        rewrite KN0, KN1. f_equal.
        -- unfold apar. f_equal. f_equal. rewrite Hxx.
           replace (psi_ t b0 x' - psi_ t b0 u) with ((x' - u) * (b0 - t)) by (unfold psi_; ring).
           replace (psi_ t b0 v - psi_ t b0 u) with ((v - u) * (b0 - t)) by (unfold psi_; ring).
           field. split; lra.
        -- unfold apar, y'. field. lra.
Qed.

(* the loop does not run out of fuel and no split is rejected *)
Lemma surf_loop_succeeds : forall fuel g acc, dinv g -> (length (dU idx g) < fuel + 2 * S (dp idx g))%nat ->
  exists l, decompose_surf_loop Rops fuel tol idx g acc = Ok l.
Proof.
  induction fuel as [|fuel IH]; intros g acc Hinv Hf.
  - exfalso. destruct Hinv as ((V1 & V2 & V3 & V4 & _) & _). rewrite dcurve_len in *. cbn [c_p c_U dcurve] in *. lia.
  - cbn [decompose_surf_loop]. cbv zeta.
    change (if Nat.eqb idx 0 then s_pu g else s_pv g) with (dp idx g).
    change (if Nat.eqb idx 0 then s_Uu g else s_Uv g) with (dU idx g).
    destruct (interior_knots (dp idx g) (dU idx g)) as [|knot rest'] eqn:E; [eexists; reflexivity|].
    change (if Nat.eqb idx 0 then split_surface_u Rops tol g knot else split_surface_v Rops tol g knot)
      with (dsplit tol idx g knot).
    destruct (first_interior g Hinv knot rest' E) as [Hint Hknot]. subst knot.
    destruct (Hstep g Hinv Hint) as (g1 & g2 & Hs & A1 & A2 & A3 & A4 & A5 & A6 & A7 & A8 & A9 & A10 & A11 & A12 &
                                     A13 & A14 & _).
    cbv zeta in *. rewrite Hs. apply IH.
    + exact (dinv_right g g2 Hinv Hint A2 A4 A7 A8 A10 A12 A14).
    + rewrite A7, A2. destruct Hinv as (Hv & _). pose proof (ds_right_shorter tol _ _ _ Hv Hint). lia.
Qed.
End Chain.

(* ================================================================ the step in each direction (Proofs/SplitSurf.v) *)
(* the control net: at least one row, all points of dimension dim *)
Definition net_ok (dim : nat) (g : @surf R) : Prop :=
  (0 < s_su g)%nat /\ forall i, (i < s_sv g * s_su g)%nat -> length (getp (s_P g) i) = dim.

Lemma split_index (w i h : nat) : (i < w * h)%nat ->
  (i = i mod w + w * (i / w))%nat /\ (i mod w < w)%nat /\ (i / w < h)%nat.
Proof.
  intros H. assert (Hw : w <> 0%nat) by (intro; subst w; lia).
  split; [rewrite Nat.add_comm; apply Nat.div_mod; exact Hw|]. split; [apply Nat.mod_upper_bound; exact Hw|].
  apply Nat.div_lt_upper_bound; [exact Hw|exact H].
Qed.

Lemma step_ok_u tol dim : step_ok tol 0 dim (net_ok dim).
Proof.
  intros g (Hv & Hk & Hsu & Hdim) Hint.
  cbn [dp dU dn op oU on dpt dsplit Nat.eqb] in *. cbv zeta.
  set (t := knR (s_Uu g) (S (s_pu g))) in *.
  pose proof (ds_geom tol _ _ _ Hv Hint) as Hg. fold t in Hg.
  destruct (ds_ks tol _ _ _ Hv Hint) as (Hk1 & Hk2 & Hk3). fold t in Hk1, Hk2, Hk3.
  pose proof Hk as (_ & KL & _).
  eexists. eexists. split; [apply (split_surface_u_result tol g t Hg Hk)|].
  cbn [s_pu s_pv s_Uu s_Uv s_su s_sv].
  do 8 (split; [reflexivity|]).
  split; [apply (keep_is_norm _ _ _ KL)|]. split; [apply (keep_is_norm _ _ _ KL)|].
  do 2 (split; [reflexivity|]).
  set (k := find_span_linear Rops (s_pu g) (s_Uu g) (s_su g) t) in *.
  set (s := find_multiplicity Rops tol t (s_Uu g)) in *.
  assert (Hcol : forall j, (j < s_sv g)%nat -> forall i, (i < s_su g + (s_pu g - s))%nat ->
            length (getp (knot_insertion Rops (s_pu g) (s_Uu g) (col_u g j) t (s_pu g - s) s k) i) = dim).
  { intros j Hj i Hi. apply (ki_dim Rops (s_pu g) (s_Uu g) (col_u g j) t (s_pu g - s) s k dim); rewrite ?col_len; try lia.
    apply (su_dimcol tol g t dim Hdim j Hj). }
  split; [|split; [|split]].
  - (* the net of the left piece *)
    split; [cbn [s_su]; lia|]. cbn [s_su s_sv s_P]. intros i Hi.
    destruct (split_index _ _ _ Hi) as (Ei & Hj & Hi'). rewrite Ei.
    pose proof (su_Pc1 tol g t _ _ Hi' Hj) as HP. fold k s in HP. rewrite HP.
    pose proof (su_col tol g t Hg (i / s_sv g) (i mod s_sv g)) as HC. fold k s in HC. rewrite HC by lia.
    apply Hcol; [exact Hj|lia].
  - (* the net of the right piece *)
    split; [cbn [s_su]; lia|]. cbn [s_su s_sv s_P]. intros i Hi.
    destruct (split_index _ _ _ Hi) as (Ei & Hj & Hi'). rewrite Ei.
    pose proof (su_Pc2 tol g t _ _ Hi' Hj) as HP. fold k s in HP. rewrite HP.
    pose proof (su_col tol g t Hg (k - s + i / s_sv g) (i mod s_sv g)) as HC. fold k s in HC. rewrite HC by lia.
    apply Hcol; [exact Hj|lia].
  - intros cc x y Hcc Hx. apply (split_surface_u_left tol g t dim Hg Hk Hdim cc x y Hcc Hx).
  - intros cc x y Hcc Hx. apply (split_surface_u_right tol g t dim Hg Hk Hdim cc x y Hcc Hx).
Qed.

Lemma step_ok_v tol dim : step_ok tol 1 dim (net_ok dim).
Proof.
  intros g (Hv & Hk & Hsu & Hdim) Hint.
  cbn [dp dU dn op oU on dpt dsplit Nat.eqb] in *. cbv zeta.
  set (t := knR (s_Uv g) (S (s_pv g))) in *.
  pose proof (ds_geom tol _ _ _ Hv Hint) as Hg. fold t in Hg.
  destruct (ds_ks tol _ _ _ Hv Hint) as (Hk1 & Hk2 & Hk3). fold t in Hk1, Hk2, Hk3.
  pose proof Hk as (_ & KL & _).
  eexists. eexists. split; [apply (split_surface_v_result tol g t Hg Hk Hsu)|].
  cbn [s_pu s_pv s_Uu s_Uv s_su s_sv].
  do 8 (split; [reflexivity|]).
  split; [apply (keep_is_norm _ _ _ KL)|]. split; [apply (keep_is_norm _ _ _ KL)|].
  do 2 (split; [reflexivity|]).
  set (k := find_span_linear Rops (s_pv g) (s_Uv g) (s_sv g) t) in *.
  set (s := find_multiplicity Rops tol t (s_Uv g)) in *.
  assert (Hrow : forall i, (i < s_su g)%nat -> forall j, (j < s_sv g + (s_pv g - s))%nat ->
            length (getp (knot_insertion Rops (s_pv g) (s_Uv g) (row_v g i) t (s_pv g - s) s k) j) = dim).
  { intros i Hi j Hj. apply (ki_dim Rops (s_pv g) (s_Uv g) (row_v g i) t (s_pv g - s) s k dim); rewrite ?row_len; try lia.
    apply (sv_dimrow tol g t dim Hsu Hdim i Hi). }
  split; [|split; [|split]].
  - (* the net of the left piece *)
    split; [exact Hsu|]. cbn [s_su s_sv s_P]. intros i Hi.
    destruct (split_index _ _ _ Hi) as (Ei & Hj & Hi'). rewrite Ei.
    pose proof (sv_Pc1 tol g t _ _ Hi' Hj) as HP. fold k s in HP. rewrite HP.
    pose proof (sv_row tol g t Hg Hsu (i / (k - s + 1)) (i mod (k - s + 1))) as HC. fold k s in HC. rewrite HC by lia.
    apply Hrow; [exact Hi'|lia].
  - (* the net of the right piece *)
    split; [exact Hsu|]. cbn [s_su s_sv s_P]. intros i Hi.
    destruct (split_index _ _ _ Hi) as (Ei & Hj & Hi'). rewrite Ei.
    pose proof (sv_Pc2 tol g t _ _ Hi' Hj) as HP. fold k s in HP. rewrite HP.
    pose proof (sv_row tol g t Hg Hsu (i / (s_sv g + (s_pv g - s) - (k - s)))
                  (k - s + i mod (s_sv g + (s_pv g - s) - (k - s)))) as HC.
    fold k s in HC. rewrite HC by lia.
    apply Hrow; [exact Hi'|lia].
  - intros cc x y Hcc Hx. apply (split_surface_v_left tol g t dim Hg Hk Hsu Hdim cc y x Hcc Hx).
  - intros cc x y Hcc Hx. apply (split_surface_v_right tol g t dim Hg Hk Hsu Hdim cc y x Hcc Hx).
Qed.

(* ================================================================ decompose_surface, one direction *)
(* the number of distinct interior knots, as decompose_count counts them *)
Lemma dedup_count p (U : list R) n ds : sortedR U -> length U = S (p + n) ->
  NoDup ds -> (forall x, In x ds <-> In x (interior_knots p U)) ->
  length (dedup (interior_knots p U)) = length ds.
Proof.
  intros Hs HL Hnd Hin. symmetry. apply Permutation_length. apply NoDup_Permutation; [exact Hnd| |].
  - apply dedup_NoDup. apply (interior_sorted p U n); [lia|exact Hs].
  - intros x. rewrite dedup_In. apply Hin.
Qed.

Lemma dinv_of_hyps tol idx dim g :
  dir_dec_hyps tol (dp idx g) (dU idx g) (dn idx g) -> dir_keep_hyps (op idx g) (oU idx g) (on idx g) ->
  net_ok dim g -> dinv tol idx (net_ok dim) g.
Proof. intros H1 H2 H3. split; [apply dir_dec_valid; exact H1|]. split; assumption. Qed.

Lemma decompose_dir_spec tol idx dim g : step_ok tol idx dim (net_ok dim) -> dinv tol idx (net_ok dim) g ->
  exists l, decompose_dir Rops tol idx g = Ok l /\
    length l = S (length (dedup (interior_knots (dp idx g) (dU idx g)))) /\
    Forall (strip_shape idx (net_ok dim) g) l /\ strips_coincide idx dim g l.
Proof.
  intros Hstep Hinv.
  destruct (surf_loop_succeeds tol idx dim (net_ok dim) Hstep (S (length (s_Uu g) + length (s_Uv g))) g [] Hinv) as [l Hl].
  { unfold dU. destruct (Nat.eqb idx 0); lia. }
  exists l. split; [exact Hl|].
  apply (surf_chain_spec tol idx dim (net_ok dim) Hstep g l); [|exact Hinv].
  apply decompose_dir_is_chain. exact Hl.
Qed.

(* what every patch of a decomposition in u looks like: degrees kept, Bezier in u (p_u + 1 control points in u, u-knot
   vector a^(p_u+1) b^(p_u+1), a < b; exactly 0^(p_u+1) 1^(p_u+1) as soon as a split took place), v-size kept,
   v-knot vector untouched (no split: the patch is the surface) or normalised by the setter *)
Definition u_patch_shape (dim : nat) (g q : @surf R) : Prop :=
  s_pu q = s_pu g /\ s_pv q = s_pv g /\ bezier_kv (s_pu g) (s_Uu q) /\ s_su q = S (s_pu g) /\ s_sv q = s_sv g /\
  s_Uv q = match interior_knots (s_pu g) (s_Uu g) with [] => s_Uv g | _ => norm_kv (s_Uv g) end /\
  net_ok dim q /\
  (interior_knots (s_pu g) (s_Uu g) <> [] -> s_Uu q = repeat 0 (S (s_pu g)) ++ repeat 1 (S (s_pu g))).

Definition v_patch_shape (dim : nat) (g q : @surf R) : Prop :=
  s_pu q = s_pu g /\ s_pv q = s_pv g /\ bezier_kv (s_pv g) (s_Uv q) /\ s_sv q = S (s_pv g) /\ s_su q = s_su g /\
  s_Uu q = match interior_knots (s_pv g) (s_Uv g) with [] => s_Uu g | _ => norm_kv (s_Uu g) end /\
  net_ok dim q /\
  (interior_knots (s_pv g) (s_Uv g) <> [] -> s_Uv q = repeat 0 (S (s_pv g)) ++ repeat 1 (S (s_pv g))).

(* patch j covers the strip [b_j, b_{j+1}) x (everything) and coincides there with the original under the affine maps
   of its own domain (first .. last knot in each direction) onto the strip; b = break points of the u (v) knot vector *)
Definition u_strips_coincide (dim : nat) (g : @surf R) (l : list (@surf R)) : Prop :=
  let bp := dbreaks (s_pu g) (s_Uu g) (s_su g) in
  let V := s_Uv g in
  forall j, (j < length l)%nat ->
    (knR (s_Uu g) 0 <= nth j bp 0 < nth (S j) bp 0) /\
    forall cc x y, (cc < dim)%nat -> nth j bp 0 <= x < nth (S j) bp 0 ->
      surf_pt (nth j l g) cc (apar (s_Uu (nth j l g)) (nth j bp 0) (nth (S j) bp 0) x)
                             (apar (s_Uv (nth j l g)) (knR V 0) (knR V (length V - 1)) y) = surf_pt g cc x y.

Definition v_strips_coincide (dim : nat) (g : @surf R) (l : list (@surf R)) : Prop :=
  let bp := dbreaks (s_pv g) (s_Uv g) (s_sv g) in
  let W := s_Uu g in
  forall j, (j < length l)%nat ->
    (knR (s_Uv g) 0 <= nth j bp 0 < nth (S j) bp 0) /\
    forall cc x y, (cc < dim)%nat -> nth j bp 0 <= y < nth (S j) bp 0 ->
      surf_pt (nth j l g) cc (apar (s_Uu (nth j l g)) (knR W 0) (knR W (length W - 1)) x)
                             (apar (s_Uv (nth j l g)) (nth j bp 0) (nth (S j) bp 0) y) = surf_pt g cc x y.

Lemma strip_bezier idx Dims g q : strip_shape idx Dims g q ->
  bezier_kv (dp idx g) (dU idx q) /\
  (interior_knots (dp idx g) (dU idx g) <> [] -> dU idx q = repeat 0 (S (dp idx g)) ++ repeat 1 (S (dp idx g))).
Proof.
  intros (B1 & B2 & B3 & B4 & B5 & B6 & B7 & B8 & B9). split.
  - eexists. eexists. split; [exact B4|exact B3].
  - intros Hne. destruct (B9 Hne) as [E0 E1]. rewrite E0, E1 in B3. exact B3.
Qed.

(* [G] decompose_surface, direction 'u' *)
Theorem decompose_surface_u tol (g : @surf R) dim :
  dir_dec_hyps tol (s_pu g) (s_Uu g) (s_su g) -> dir_keep_hyps (s_pv g) (s_Uv g) (s_sv g) ->
  (forall i, (i < s_sv g * s_su g)%nat -> length (getp (s_P g) i) = dim) ->
  exists l, decompose_surface Rops tol 0 g = Ok l /\
    length l = S (length (dedup (interior_knots (s_pu g) (s_Uu g)))) /\
    Forall (u_patch_shape dim g) l /\ u_strips_coincide dim g l.
Proof.
  intros Hu Hk Hdim.
  assert (Hinv : dinv tol 0 (net_ok dim) g).
  { apply dinv_of_hyps; [exact Hu|exact Hk|]. split; [|exact Hdim].
    apply (dec_valid_keep tol _ _ _ (dir_dec_valid tol _ _ _ Hu)). }
  destruct (decompose_dir_spec tol 0 dim g (step_ok_u tol dim) Hinv) as (l & Hl & Hlen & HF & Hco).
  exists l. split; [exact Hl|]. split; [exact Hlen|]. split; [|exact Hco].
  eapply Forall_impl; [|exact HF]. intros q Hq. destruct (strip_bezier _ _ _ _ Hq) as [Hb H01].
  destruct Hq as (B1 & B2 & B3 & B4 & B5 & B6 & B7 & B8 & B9). cbn [dp dU dn op oU on Nat.eqb] in *.
  unfold u_patch_shape. auto 10.
Qed.
Print Assumptions decompose_surface_u.

(* [G] decompose_surface, direction 'v' *)
Theorem decompose_surface_v tol (g : @surf R) dim :
  dir_dec_hyps tol (s_pv g) (s_Uv g) (s_sv g) -> dir_keep_hyps (s_pu g) (s_Uu g) (s_su g) -> (0 < s_su g)%nat ->
  (forall i, (i < s_sv g * s_su g)%nat -> length (getp (s_P g) i) = dim) ->
  exists l, decompose_surface Rops tol 1 g = Ok l /\
    length l = S (length (dedup (interior_knots (s_pv g) (s_Uv g)))) /\
    Forall (v_patch_shape dim g) l /\ v_strips_coincide dim g l.
Proof.
  intros Hv Hk Hsu Hdim.
  assert (Hinv : dinv tol 1 (net_ok dim) g).
  { apply dinv_of_hyps; [exact Hv|exact Hk|]. split; [exact Hsu|exact Hdim]. }
  destruct (decompose_dir_spec tol 1 dim g (step_ok_v tol dim) Hinv) as (l & Hl & Hlen & HF & Hco).
  exists l. split; [exact Hl|]. split; [exact Hlen|]. split.
  - eapply Forall_impl; [|exact HF]. intros q Hq. destruct (strip_bezier _ _ _ _ Hq) as [Hb H01].
    destruct Hq as (B1 & B2 & B3 & B4 & B5 & B6 & B7 & B8 & B9). cbn [dp dU dn op oU on Nat.eqb] in *.
    unfold v_patch_shape. auto 10.
  - intros j Hj. destruct (Hco j Hj) as [Hb Hpt]. split; [exact Hb|].
    intros cc x y Hcc Hy. exact (Hpt cc y x Hcc Hy).
Qed.
Print Assumptions decompose_surface_v.

(* ================================================================ decompose_surface, direction 'uv' *)
(* ---- lists ---- *)
Lemma res_concat_map_ok {A B} (f : A -> res (list B)) (P : A -> list B -> Prop) : forall l,
  Forall (fun x => exists r, f x = Ok r /\ P x r) l ->
  exists ls, res_concat_map f l = Ok (concat ls) /\ Forall2 P l ls.
Proof.
  induction l as [|a l IH]; intros H.
  - exists []. split; [reflexivity|constructor].
  - inversion H as [|? ? Ha Hl]; subst. destruct Ha as (r & Er & Pr). destruct (IH Hl) as (ls & Els & F2).
    exists (r :: ls). split; [|constructor; assumption].
    cbn [res_concat_map]. rewrite Er. cbn [res_bind]. rewrite Els. reflexivity.
Qed.

Lemma Forall2_nth_both {A B} (P : A -> B -> Prop) da db : forall l1 l2, Forall2 P l1 l2 ->
  length l1 = length l2 /\ forall i, (i < length l1)%nat -> P (nth i l1 da) (nth i l2 db).
Proof.
  induction 1 as [|a b l1 l2 Hab H IH]; [split; [reflexivity|intros i Hi; cbn in Hi; lia]|].
  destruct IH as [IL IN]. split; [cbn; lia|]. intros [|i] Hi; [exact Hab|]. apply IN. cbn in Hi. lia.
Qed.

Lemma Forall2_in_r {A B} (P : A -> B -> Prop) : forall l1 l2, Forall2 P l1 l2 ->
  forall b, In b l2 -> exists a, In a l1 /\ P a b.
Proof.
  induction 1 as [|a b l1 l2 Hab H IH]; intros b' Hb; [destruct Hb|].
  destruct Hb as [<-|Hb]; [exists a; split; [left; reflexivity|exact Hab]|].
  destruct (IH b' Hb) as (a' & Ha' & Pa'). exists a'. split; [right; exact Ha'|exact Pa'].
Qed.

Lemma length_concat_const {B} (w : nat) : forall (ls : list (list B)),
  Forall (fun r => length r = w) ls -> length (concat ls) = (w * length ls)%nat.
Proof.
  induction ls as [|r ls IH]; intros H; [cbn; lia|]. inversion H; subst. cbn [concat length].
  rewrite app_length, IH by assumption. lia.
Qed.

Lemma nth_concat_const {B} (w : nat) (d : B) : forall (ls : list (list B)) i j,
  Forall (fun r => length r = w) ls -> (i < length ls)%nat -> (j < w)%nat ->
  nth (j + w * i) (concat ls) d = nth j (nth i ls []) d.
Proof.
  induction ls as [|r ls IH]; intros i j H Hi Hj; [cbn in Hi; lia|]. inversion H as [|? ? Hr Hls]; subst.
  cbn [concat]. destruct i as [|i].
  - rewrite Nat.mul_0_r, Nat.add_0_r. cbn [nth]. apply app_nth1. lia.
  - rewrite app_nth2 by nia. cbn [nth]. rewrite <- (IH i j Hls) by (cbn in Hi; lia || exact Hj). f_equal. nia.
Qed.

(* ---- the kept knot vector under an increasing affine map ---- *)
Lemma knR_map (f : R -> R) (V : list R) i : (i < length V)%nat -> knR (map f V) i = f (knR V i).
Proof.
  intros Hi. unfold kn. rewrite (nth_indep (map f V) (o0 Rops) (f (o0 Rops))) by (rewrite map_length; exact Hi).
  apply map_nth.
Qed.

Lemma interior_map (f : R -> R) p V : interior_knots p (map f V) = map f (interior_knots p V).
Proof. unfold interior_knots, slice. rewrite map_length, skipn_map, firstn_map. reflexivity. Qed.

Lemma dbreaks_map (f : R -> R) p V n : (forall x y, f x = f y -> x = y) -> length V = S (p + n) ->
  dbreaks p (map f V) n = map f (dbreaks p V n).
Proof.
  intros Hinj HL. unfold dbreaks. rewrite interior_map, (dedup_map_inj f Hinj), !knR_map by lia.
  cbn [map]. rewrite map_app. reflexivity.
Qed.

Lemma dbreaks_len p V n : length (dbreaks p V n) = S (S (length (dedup (interior_knots p V)))).
Proof. unfold dbreaks. cbn [length]. rewrite app_length. cbn [length]. lia. Qed.

Lemma dec_valid_norm tol p V n : dec_valid tol (dcurve p V n) -> dec_valid tol (dcurve p (norm_kv V) n).
Proof.
  intros Hv. destruct (dec_valid_keep tol p V n Hv) as [Hk Hn].
  destruct (keep_norm p V n Hk) as ((Ws & WL & Wr) & W0 & W1). pose proof Hk as (Ks & KL & Kr).
  destruct Hv as (V1 & V2 & V3 & V4 & V5 & V6 & V7 & V8 & V9). rewrite dcurve_len in *. cbn [c_p c_U dcurve] in *.
  assert (E : (length V - 1 = p + n)%nat) by lia.
  assert (Hd : 0 < knR V (p + n) - knR V 0) by lra.
  assert (Hnth : forall i, (i < length V)%nat -> knR (norm_kv V) i = (knR V i - knR V 0) / (knR V (p + n) - knR V 0)).
  { intros i Hi. rewrite norm_kv_nth, E by exact Hi. reflexivity. }
  unfold dec_valid. rewrite dcurve_len. cbn [c_p c_U dcurve].
  split; [exact V1|]. split; [exact Ws|]. split; [exact V3|]. split; [rewrite norm_kv_len; exact V4|].
  split. { intros i Hi. rewrite !Hnth by lia. rewrite (V5 i Hi). reflexivity. }
  split. { intros i Hi. rewrite !Hnth by lia. rewrite (V6 i Hi). reflexivity. }
  split. { replace (n + p)%nat with (p + n)%nat by lia. rewrite W0, W1. lra. }
  split.
  { intros i Hi. rewrite !Hnth by lia. unfold Rdiv. apply Rmult_lt_compat_r; [apply Rinv_0_lt_compat; lra|].
    pose proof (V8 i Hi). lra. }
  destruct V9 as [Ht0 Hsp]. split; [exact Ht0|]. rewrite norm_kv_len. intros i j Hi Hj HR.
  rewrite !Hnth by lia. f_equal. f_equal. apply (Hsp i j Hi Hj).
  rewrite E, W0, W1 in HR. rewrite !Hnth in HR by lia. rewrite E.
  replace (Rmax 1 (1 - 0)) with 1 in HR by (rewrite Rmax_left; lra).
  set (d := knR V (p + n) - knR V 0) in *.
  replace ((knR V i - knR V 0) / d - (knR V j - knR V 0) / d) with ((knR V i - knR V j) * / d) in HR by (field; lra).
  rewrite Rabs_mult, (Rabs_right (/ d)) in HR by (left; apply Rinv_0_lt_compat; lra).
  assert (H1 : Rabs (knR V i - knR V j) * / d * d <= tol * 1 * d) by (apply Rmult_le_compat_r; lra).
  replace (Rabs (knR V i - knR V j) * / d * d) with (Rabs (knR V i - knR V j)) in H1 by (field; lra).
  assert (H2 : tol * d <= tol * Rmax 1 d) by (apply Rmult_le_compat_l; [exact Ht0|apply Rmax_r]).
  lra.
Qed.

(* the knot vector of the direction that was not split is the old one or its normalisation: in both cases the image
   under an increasing affine map, and the invariant of that direction is kept *)
Lemma kept_affine tol q V nv W : dec_valid tol (dcurve q V nv) -> W = V \/ W = norm_kv V ->
  dec_valid tol (dcurve q W nv) /\
  exists (f : R -> R) (sl : R), 0 < sl /\ (forall x y, f x - f y = sl * (x - y)) /\ W = map f V.
Proof.
  intros Hv [->| ->].
  - split; [exact Hv|]. exists (fun x => x), 1. split; [lra|]. split; [intros; ring|]. symmetry. apply map_id.
  - split; [apply dec_valid_norm; exact Hv|].
    destruct (dec_valid_keep tol q V nv Hv) as [(Ks & KL & Kr) _].
    exists (fun x => (x - knR V 0) / (knR V (length V - 1) - knR V 0)), (/ (knR V (length V - 1) - knR V 0)).
    rewrite KL. replace (S (q + nv) - 1)%nat with (q + nv)%nat by lia.
    split; [apply Rinv_0_lt_compat; lra|]. split; [intros; field; lra|].
    unfold norm_kv. rewrite KL. replace (S (q + nv) - 1)%nat with (q + nv)%nat by lia. reflexivity.
Qed.

Lemma match_nil_cases {A B} (l : list A) (a b : B) (w : B) :
  w = match l with [] => a | _ => b end -> w = a \/ w = b.
Proof. destruct l; auto. Qed.

Lemma map_repeat' {A B} (f : A -> B) x : forall n, map f (repeat x n) = repeat (f x) n.
Proof. induction n as [|n IH]; [reflexivity|]. cbn. rewrite IH. reflexivity. Qed.

Lemma norm_bezier p (U : list R) a b : a < b -> U = repeat a (S p) ++ repeat b (S p) ->
  norm_kv U = repeat 0 (S p) ++ repeat 1 (S p).
Proof.
  intros Hab HU. unfold norm_kv.
  assert (HL : length U = (S p + S p)%nat) by (rewrite HU, app_length, !repeat_length; reflexivity).
  assert (E0 : knR U 0 = a).
  { rewrite HU. unfold kn. rewrite app_nth1 by (rewrite repeat_length; lia). apply nth_repeat_lt. lia. }
  assert (E1 : knR U (length U - 1) = b).
  { rewrite HL. rewrite HU. unfold kn. rewrite app_nth2 by (rewrite repeat_length; lia). rewrite repeat_length.
    apply nth_repeat_lt. lia. }
  rewrite E0, E1. rewrite HU. rewrite map_app, !map_repeat'. f_equal; f_equal; field; lra.
Qed.

Lemma bezier_keep p (U : list R) a b : a < b -> U = repeat a (S p) ++ repeat b (S p) ->
  dir_keep_hyps p U (S p) /\ knR U 0 = a /\ knR U (length U - 1) = b.
Proof.
  intros Hab HU.
  assert (HL : length U = (S p + S p)%nat) by (rewrite HU, app_length, !repeat_length; reflexivity).
  assert (Hn : forall i, (i < S p + S p)%nat -> knR U i = if Nat.ltb i (S p) then a else b).
  { intros i Hi. rewrite HU. unfold kn. destruct (Nat.ltb_spec i (S p)).
    - rewrite app_nth1 by (rewrite repeat_length; lia). apply nth_repeat_lt. lia.
    - rewrite app_nth2 by (rewrite repeat_length; lia). rewrite repeat_length. apply nth_repeat_lt. lia. }
  assert (E0 : knR U 0 = a) by (rewrite Hn by lia; reflexivity).
  assert (E1 : knR U (length U - 1) = b).
  { rewrite HL, Hn by lia. destruct (Nat.ltb_spec (S p + S p - 1) (S p)); [lia|reflexivity]. }
  split; [|split; assumption]. split; [|split].
  - intros i j Hij. rewrite HL in Hij. rewrite !Hn by lia.
    destruct (Nat.ltb_spec i (S p)); destruct (Nat.ltb_spec j (S p)); try lra; lia.
  - rewrite HL. lia.
  - rewrite E0. replace (p + S p)%nat with (length U - 1)%nat by lia. rewrite E1. exact Hab.
Qed.

Lemma aff_inj (f : R -> R) sl : 0 < sl -> (forall x y, f x - f y = sl * (x - y)) -> forall x y, f x = f y -> x = y.
Proof.
  intros Hsl Haff x y E. pose proof (Haff x y) as H. rewrite E in H.
  assert (H0 : sl * (x - y) = 0) by lra. apply Rmult_integral in H0. destruct H0; lra.
Qed.

(* what every patch of the 'uv' decomposition looks like: Bezier in both directions *)
Definition uv_patch_shape (dim : nat) (g r : @surf R) : Prop :=
  s_pu r = s_pu g /\ s_pv r = s_pv g /\ bezier_kv (s_pu g) (s_Uu r) /\ bezier_kv (s_pv g) (s_Uv r) /\
  s_su r = S (s_pu g) /\ s_sv r = S (s_pv g) /\ net_ok dim r.

(* the patches are ordered u outer, v inner (as the code concatenates them): patch number j + nv * i covers the rectangle
   [bu_i, bu_{i+1}) x [bv_j, bv_{j+1}) and coincides there with the original under the affine maps of its own domain *)
Definition uv_patches_coincide (dim : nat) (g : @surf R) (l : list (@surf R)) : Prop :=
  let bu := dbreaks (s_pu g) (s_Uu g) (s_su g) in
  let bv := dbreaks (s_pv g) (s_Uv g) (s_sv g) in
  let nu := S (length (dedup (interior_knots (s_pu g) (s_Uu g)))) in
  let nv := S (length (dedup (interior_knots (s_pv g) (s_Uv g)))) in
  forall i j, (i < nu)%nat -> (j < nv)%nat ->
    (nth i bu 0 < nth (S i) bu 0 /\ nth j bv 0 < nth (S j) bv 0) /\
    forall cc x y, (cc < dim)%nat -> nth i bu 0 <= x < nth (S i) bu 0 -> nth j bv 0 <= y < nth (S j) bv 0 ->
      surf_pt (nth (j + nv * i) l g) cc
        (apar (s_Uu (nth (j + nv * i) l g)) (nth i bu 0) (nth (S i) bu 0) x)
        (apar (s_Uv (nth (j + nv * i) l g)) (nth j bv 0) (nth (S j) bv 0) y) = surf_pt g cc x y.

(* [G] decompose_surface, direction 'uv' *)
Theorem decompose_surface_uv tol (g : @surf R) dim :
  dir_dec_hyps tol (s_pu g) (s_Uu g) (s_su g) -> dir_dec_hyps tol (s_pv g) (s_Uv g) (s_sv g) ->
  (forall i, (i < s_sv g * s_su g)%nat -> length (getp (s_P g) i) = dim) ->
  exists l, decompose_surface Rops tol 2 g = Ok l /\
    length l = (S (length (dedup (interior_knots (s_pu g) (s_Uu g)))) *
                S (length (dedup (interior_knots (s_pv g) (s_Uv g)))))%nat /\
    Forall (uv_patch_shape dim g) l /\ uv_patches_coincide dim g l.
Proof.
  intros Hu Hv Hdim.
  pose proof (dir_dec_valid tol _ _ _ Hu) as Hvu. pose proof (dir_dec_valid tol _ _ _ Hv) as Hvv.
  destruct (dec_valid_keep tol _ _ _ Hvu) as [Hku Hsu]. destruct (dec_valid_keep tol _ _ _ Hvv) as [Hkv Hsv].
  assert (Hinv : dinv tol 0 (net_ok dim) g) by (split; [exact Hvu|split; [exact Hkv|split; assumption]]).
  destruct (decompose_dir_spec tol 0 dim g (step_ok_u tol dim) Hinv) as (gs & Hgs & Hlen & HF & Hco).
  cbn [dp dU dn op oU on Nat.eqb] in Hlen.
  set (nv := S (length (dedup (interior_knots (s_pv g) (s_Uv g))))).
  (* every u-strip satisfies the invariant of the v direction; its v-knot vector is an affine image of the original *)
  assert (HQ : forall q, strip_shape 0 (net_ok dim) g q ->
     dinv tol 1 (net_ok dim) q /\ s_pv q = s_pv g /\
     exists (f : R -> R) (sl : R), 0 < sl /\ (forall x y, f x - f y = sl * (x - y)) /\ s_Uv q = map f (s_Uv g)).
  { intros q (B1 & B2 & B3 & B4 & B5 & B6 & B7 & B8 & B9). cbn [dp dU dn op oU on Nat.eqb] in *.
    destruct (kept_affine tol _ _ _ (s_Uv q) Hvv (match_nil_cases _ _ _ _ B7)) as [Hvq Hf].
    split; [|split; [exact B2|exact Hf]]. split; [|split; [|exact B8]].
    - cbn [dp dU dn Nat.eqb]. rewrite B2, B6. exact Hvq.
    - cbn [op oU on Nat.eqb]. rewrite B1, B5. apply (bezier_keep _ _ _ _ B4 B3). }
  set (Pv := fun (q : @surf R) (r : list (@surf R)) =>
     length r = S (length (dedup (interior_knots (dp 1 q) (dU 1 q)))) /\
     Forall (strip_shape 1 (net_ok dim) q) r /\ strips_coincide 1 dim q r).
  assert (HF' : Forall (fun q => exists r, decompose_dir Rops tol 1 q = Ok r /\ Pv q r) gs).
  { eapply Forall_impl; [|exact HF]. intros q Hq. destruct (HQ q Hq) as [Hinvq _].
    exact (decompose_dir_spec tol 1 dim q (step_ok_v tol dim) Hinvq). }
  destruct (res_concat_map_ok _ Pv gs HF') as (ls & Hls & HF2).
  exists (concat ls). split; [unfold decompose_surface; rewrite Hgs; cbn [res_bind]; exact Hls|].
  pose proof HF as HFa. rewrite Forall_forall in HFa.
  assert (Hw : Forall (fun r => length r = nv) ls).
  { apply Forall_forall. intros r Hr. destruct (Forall2_in_r _ _ _ HF2 r Hr) as (q & Hq & (Hl & _)).
    destruct (HQ q (HFa q Hq)) as (_ & Epv & f & sl & Hsl & Haff & Ef).
    rewrite Hl. cbn [dp dU Nat.eqb]. rewrite Epv, Ef, interior_map, (dedup_map_inj f (aff_inj f sl Hsl Haff)), map_length.
    reflexivity. }
  destruct (Forall2_nth_both Pv g [] gs ls HF2) as [HLs HN].
  split; [rewrite (length_concat_const nv ls Hw), <- HLs, Hlen; apply Nat.mul_comm|]. split.
  - (* shapes *)
    apply Forall_forall. intros r Hr. apply in_concat in Hr. destruct Hr as (lr & Hlr & Hr).
    destruct (Forall2_in_r _ _ _ HF2 lr Hlr) as (q & Hq & (_ & HFr & _)).
    pose proof (HFa q Hq) as Hsq. rewrite Forall_forall in HFr. pose proof (HFr r Hr) as Hsr.
    destruct (strip_bezier _ _ _ _ Hsr) as [Hbv _].
    destruct Hsq as (B1 & B2 & B3 & B4 & B5 & B6 & B7 & B8 & B9).
    destruct Hsr as (C1 & C2 & C3 & C4 & C5 & C6 & C7 & C8 & C9).
    cbn [dp dU dn op oU on Nat.eqb] in *. unfold uv_patch_shape.
    split; [congruence|]. split; [congruence|]. split.
    + destruct (match_nil_cases _ _ _ _ C7) as [E|E]; rewrite E.
      * eexists. eexists. split; [exact B4|exact B3].
      * exists 0, 1. split; [lra|]. apply (norm_bezier _ _ _ _ B4 B3).
    + split; [rewrite <- B2; exact Hbv|]. split; [congruence|]. split; [congruence|exact C8].
  - (* coincidence on the rectangles *)
    unfold uv_patches_coincide. cbv zeta. fold nv. intros i j Hi Hj.
    assert (Hig : (i < length gs)%nat) by lia.
    destruct (HN i Hig) as (Hl_i & HF_i & Hco_i).
    set (q := nth i gs g) in *. set (lr := nth i ls []) in *.
    assert (Hsq : strip_shape 0 (net_ok dim) g q) by (apply HFa; apply nth_In; exact Hig).
    destruct (HQ q Hsq) as (Hinvq & _ & f & sl & Hsl & Haff & Ef).
    assert (Hlr : length lr = nv).
    { rewrite Forall_forall in Hw. apply Hw. apply nth_In. lia. }
    rewrite (nth_concat_const nv g ls i j Hw) by lia. fold lr.
    rewrite (nth_indep lr g q) by lia.
    destruct (Hco i Hig) as [Hbi Hpt_u]. cbn [dp dU dn op oU on dpt Nat.eqb] in Hbi, Hpt_u. fold q in Hpt_u.
    destruct (Hco_i j ltac:(lia)) as [Hbj Hpt_v]. cbn [dp dU dn op oU on dpt Nat.eqb] in Hbj, Hpt_v.
    set (r := nth j lr q) in *.
    destruct Hsq as (B1 & B2 & B3 & B4 & B5 & B6 & B7 & B8 & B9). cbn [dp dU dn op oU on Nat.eqb] in *.
    pose proof Hkv as (_ & KLv & Krv).
    rewrite B2, B6, Ef in Hbj, Hpt_v.
    rewrite (dbreaks_map f _ _ _ (aff_inj f sl Hsl Haff) KLv) in Hbj, Hpt_v.
    set (bu := dbreaks (s_pu g) (s_Uu g) (s_su g)) in *. set (bv := dbreaks (s_pv g) (s_Uv g) (s_sv g)) in *.
    assert (Hbvl : length bv = S nv) by (unfold bv; rewrite dbreaks_len; reflexivity).
    rewrite !nth_map_lt in Hbj, Hpt_v by lia.
    set (ulo := nth i bu 0) in *. set (uhi := nth (S i) bu 0) in *.
    set (vlo := nth j bv 0) in *. set (vhi := nth (S j) bv 0) in *.
    assert (Hv01 : vlo < vhi).
    { destruct Hbj as [_ Hb]. pose proof (Haff vhi vlo) as H1.
      destruct (Rlt_le_dec vlo vhi) as [H|H]; [exact H|exfalso].
      assert (0 <= sl * (vlo - vhi)) by (apply Rmult_le_pos; lra). lra. }
    split; [split; [lra|exact Hv01]|].
    intros cc x y Hcc Hx Hy.
    set (V0 := knR (s_Uv g) 0) in *. set (Vl := knR (s_Uv g) (length (s_Uv g) - 1)) in *.
    assert (HV : V0 < Vl).
    { unfold V0, Vl. rewrite KLv. replace (S (s_pv g + s_sv g) - 1)%nat with (s_pv g + s_sv g)%nat by lia. exact Krv. }
    set (A := knR (s_Uu q) 0) in *. set (B := knR (s_Uu q) (length (s_Uu q) - 1)) in *.
    assert (F1 : apar (s_Uv q) V0 Vl y = f y).
    { unfold apar. rewrite Ef, map_length, !knR_map by lia. fold V0 Vl.
      pose proof (Haff Vl V0) as H1. pose proof (Haff y V0) as H2.
      replace (f Vl - f V0) with (sl * (Vl - V0)) by lra.
      replace (f y) with (f V0 + sl * (y - V0)) by lra. field. lra. }
    assert (F2 : f vlo <= f y < f vhi).
    { pose proof (Haff y vlo) as H1. pose proof (Haff vhi y) as H2.
      assert (0 <= sl * (y - vlo)) by (apply Rmult_le_pos; lra).
      assert (0 < sl * (vhi - y)) by (apply Rmult_lt_0_compat; lra). lra. }
    rewrite <- (Hpt_u cc x y Hcc Hx). rewrite F1.
    rewrite <- (Hpt_v cc (f y) (apar (s_Uu q) ulo uhi x) Hcc F2).
    f_equal.
    + unfold apar. fold A B. field. repeat split; lra.
    + unfold apar. pose proof (Haff y vlo) as H1. pose proof (Haff vhi vlo) as H2.
      replace (f y - f vlo) with (sl * (y - vlo)) by lra. replace (f vhi - f vlo) with (sl * (vhi - vlo)) by lra.
      field. repeat split; lra.
Qed.
Print Assumptions decompose_surface_uv.

(* ---------------------------------------------------------------- counts in the form of decompose_count (lists of the
   distinct interior knots given by the caller), and the trivial case *)
Corollary decompose_surface_count tol (g : @surf R) dim dsu dsv :
  dir_dec_hyps tol (s_pu g) (s_Uu g) (s_su g) -> dir_dec_hyps tol (s_pv g) (s_Uv g) (s_sv g) ->
  (forall i, (i < s_sv g * s_su g)%nat -> length (getp (s_P g) i) = dim) ->
  NoDup dsu -> (forall x, In x dsu <-> In x (interior_knots (s_pu g) (s_Uu g))) ->
  NoDup dsv -> (forall x, In x dsv <-> In x (interior_knots (s_pv g) (s_Uv g))) ->
  exists lu lv luv,
    decompose_surface Rops tol 0 g = Ok lu /\ length lu = S (length dsu) /\
    decompose_surface Rops tol 1 g = Ok lv /\ length lv = S (length dsv) /\
    decompose_surface Rops tol 2 g = Ok luv /\ length luv = (S (length dsu) * S (length dsv))%nat.
Proof.
  intros Hu Hv Hdim Nu Iu Nv Iv.
  pose proof (dir_dec_valid tol _ _ _ Hu) as Hvu. pose proof (dir_dec_valid tol _ _ _ Hv) as Hvv.
  destruct (dec_valid_keep tol _ _ _ Hvu) as [Hku Hsu]. destruct (dec_valid_keep tol _ _ _ Hvv) as [Hkv Hsv].
  destruct (decompose_surface_u tol g dim Hu Hkv Hdim) as (lu & E1 & L1 & _).
  destruct (decompose_surface_v tol g dim Hv Hku Hsu Hdim) as (lv & E2 & L2 & _).
  destruct (decompose_surface_uv tol g dim Hu Hv Hdim) as (luv & E3 & L3 & _).
  pose proof Hu as (Su & Lu & _). pose proof Hv as (Sv & Lv & _).
  rewrite (dedup_count _ _ _ dsu Su Lu Nu Iu) in L1, L3. rewrite (dedup_count _ _ _ dsv Sv Lv Nv Iv) in L2, L3.
  exists lu, lv, luv. auto 10.
Qed.
Print Assumptions decompose_surface_count.

(* no interior knot in the direction: the loop returns the surface itself (no hypotheses) *)
Lemma decompose_dir_no_interior tol idx (g : @surf R) :
  interior_knots (dp idx g) (dU idx g) = [] -> decompose_dir Rops tol idx g = Ok [g].
Proof.
  intros E. unfold decompose_dir. cbn [decompose_surf_loop]. cbv zeta.
  change (if Nat.eqb idx 0 then s_pu g else s_pv g) with (dp idx g).
  change (if Nat.eqb idx 0 then s_Uu g else s_Uv g) with (dU idx g). rewrite E. reflexivity.
Qed.

(* ---------------------------------------------------------------- the hypotheses are satisfiable (exact comparison) *)
Lemma knots_separated_0 (U : list R) : knots_separated 0 U.
Proof.
  split; [lra|]. intros i j _ _ H. rewrite Rmult_0_l in H. apply Rminus_diag_uniq.
  destruct (Req_dec (knR U i - knR U j) 0) as [E|E]; [exact E|]. apply Rabs_pos_lt in E. lra.
Qed.

(* degree 1 x 1, u-knots 0 0 1 2 2 (one interior knot, not normalised), v-knots 0 0 3 3, 3 x 2 points of dimension 1 *)
Definition exS : @surf R := mkS 1 1 [0;0;1;2;2] [0;0;3;3] 3 2 [[0];[1];[2];[4];[3];[5]].

Example decompose_surface_hyps_satisfiable :
  dir_dec_hyps 0 (s_pu exS) (s_Uu exS) (s_su exS) /\ dir_dec_hyps 0 (s_pv exS) (s_Uv exS) (s_sv exS) /\
  (forall i, (i < s_sv exS * s_su exS)%nat -> length (getp (s_P exS) i) = 1%nat) /\
  interior_knots (s_pu exS) (s_Uu exS) = [1].
Proof.
  cbn [s_pu s_pv s_Uu s_Uv s_su s_sv s_P exS].
  split; [|split; [|split]].
  - split; [|split; [reflexivity|split; [|split; [lia|split; [|apply knots_separated_0]]]]].
    + intros i j Hij. cbn [length] in Hij. unfold kn.
      destruct i as [|[|[|[|[|i]]]]]; destruct j as [|[|[|[|[|j]]]]]; try lia; cbn [nth Rops o0]; lra.
    + exists 0, 2. split; [lra|reflexivity].
    + intros i Hi. unfold kn. destruct i as [|[|[|i]]]; try lia; cbn [nth Nat.add Rops o0]; lra.
  - split; [|split; [reflexivity|split; [|split; [lia|split; [|apply knots_separated_0]]]]].
    + intros i j Hij. cbn [length] in Hij. unfold kn.
      destruct i as [|[|[|[|i]]]]; destruct j as [|[|[|[|j]]]]; try lia; cbn [nth Rops o0]; lra.
    + exists 0, 3. split; [lra|reflexivity].
    + intros i Hi. unfold kn. destruct i as [|[|i]]; try lia; cbn [nth Nat.add Rops o0]; lra.
  - intros i Hi. destruct i as [|[|[|[|[|[|i]]]]]]; try lia; reflexivity.
  - reflexivity.
Qed.
