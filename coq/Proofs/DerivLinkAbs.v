(* The link "rows of A2.3 (helpers.basis_function_ders) = the Eq. 2.9 functions dN" as a named proposition per degree,
   so that the curve / rational / surface developments are written once and instantiated
     - with the bounded link (degrees 1..5, Proofs/DerivLink.v) here, and
     - with a general-degree link wherever one is available (Proofs/DerivGeneralInst.v). *)
From Coq Require Import List Reals Lra Lia Arith Bool.
From NV Require Import Scalar.Ops Model.Common Model.Basis Model.Knots Model.Eval Model.Degree Model.Derivs
  Proofs.Boehm Proofs.BasisR Proofs.BasisOneR Proofs.DerivAnalytic Proofs.EvalR Proofs.DerivLink Proofs.DerivLinkCurve.
Import ListNotations.
Open Scope R_scope.

Definition ders_link (p : nat) : Prop :=
  forall (U : list R) (span : nat) (u : R) (order k r : nat),
    sortedR U -> (p <= span)%nat -> (span + p < length U)%nat -> (span + 1 < length U)%nat ->
    knR U span <= u < knR U (span + 1) -> (order <= p)%nat -> (k <= order)%nat -> (r <= p)%nat ->
    nth r (nth k (basis_function_ders Rops p U span u order) []) 0 = dNa (Ufun U) k p (span - p + r) u.

Theorem ders_link_deg_le_5 p : (1 <= p <= 5)%nat -> ders_link p.
Proof.
  intros Hp U span u order k r Hs Hsp HL HL1 Hu Ho Hk Hr.
  rewrite (basis_function_ders_row_order_indep p U span u order p k) by lia.
  apply ders_is_dN_deg_le_5; try assumption; lia.
Qed.

(* A3.2 = sum over all control points of dN * P, from the link (same proof as DerivLinkCurve.curve_derivs_is_dN_sum_deg_le_5) *)
Section CurveOfLink.
Variables (U : list R) (P : list (list R)) (p dim : nat).
Hypothesis Usorted : sortedR U.
Hypothesis Hwf : wf_net P dim.
Hypothesis Hlk : ders_link p.
Hypothesis Hp : (p < length P)%nat.
Hypothesis HL : length U = (length P + p + 1)%nat.

Theorem curve_derivs_is_dN_sum_of_link u order k :
  knR U p <= u < knR U (length P) -> (k <= order)%nat ->
  let CK := curve_derivs Rops dim p U P u order in
  length (nth k CK []) = dim /\
  forall d, (d < dim)%nat -> nth d (nth k CK []) 0 = curve_dk U p P k d u.
Proof.
  intros Hu Hk. cbn zeta. set (n := length P) in *.
  unfold curve_derivs. fold n. rewrite nth_map_seq_g by lia. cbn [Nat.add].
  destruct (Nat.leb_spec k (Nat.min p order)) as [Hkd|Hkd].
  - destruct (span_facts U u p n Hp ltac:(lia) Hu) as [Hk1 Hk2].
    set (span := find_span_linear Rops p U n u) in *.
    destruct (curve_point_at_sum dim p P span (nth k (basis_function_ders Rops p U span u (Nat.min p order)) []) Hwf
                ltac:(lia) ltac:(lia)) as [HLr Hn]. cbn zeta in *.
    split; [exact HLr|]. intros d Hd. rewrite Hn by exact Hd.
    unfold curve_dk. fold n. rewrite (sumf_window _ (span - p) (S p) n); try lia.
    + apply sumf_ext. intros j Hj. f_equal.
      apply Hlk; try assumption; lia.
    + intros i Hi. rewrite (dNa_outside U k p i u span Usorted ltac:(lia) Hk2) by lia. ring.
    + intros i Hi. rewrite (dNa_outside U k p i u span Usorted ltac:(lia) Hk2) by lia. ring.
  - split; [apply vzero_length|]. intros d Hd. rewrite vzero_nth.
    unfold curve_dk. symmetry. apply sumf_zero. intros i _. rewrite dNa_above_degree by lia. ring.
Qed.
End CurveOfLink.

Check ders_link_deg_le_5.
Check curve_derivs_is_dN_sum_of_link.
Print Assumptions ders_link_deg_le_5.
Print Assumptions curve_derivs_is_dN_sum_of_link.
