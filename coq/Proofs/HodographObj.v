(* C02 [G]: the hodograph OBJECTS built by operations.derivative_curve / operations.derivative_surface
   (Model.Derivs.derivative_curve / derivative_surface, as repaired by /verif/fixes/C02-hodograph-keep-parametrization.diff)
   evaluate to the derivatives of the input shape.

   Curves.  For a B-spline curve of degree p >= 1 (the real code raises for p = 1, known finding hodograph-curve-degree-1:
   degree 0 cannot be represented; the model and the theorems below cover p = 1 too) on a sorted knot vector U with n control
   points (length U = n + p + 1) the model returns (p-1, U[1:-1], Q), Q = row 1 of A3.3, and

     derivative_curve_valid         the result is a valid curve: n-1 control points of the same dimension, U[1:-1] is sorted and
                                    has (n-1) + (p-1) + 1 knots, knot m of it is knot m+1 of U, p-1 < n-1
     derivative_curve_def_is_dk     sum_i N_{i,p-1}(u; U[1:-1]) Q_i  =  sum_i N'_{i,p}(u; U) P_i  (Eq. 2.9 derivative, curve_dk 1)
     derivative_curve_point_is_dk   the evaluated point (Model.Eval.curve_point) of the hodograph at every u of the half-open
                                    domain [U_p, U_n) is that vector, coordinate-wise
     derivative_curve_point_is_derivs_row1   = entry 1 of CurveEvaluator.derivatives (Model.Derivs.curve_derivs) at u, any order >= 1
     derivative_curve_point_is_true_derivative / _right / _of_point
                                    = the limit-based derivative (derivable_pt_lim) of each coordinate of the curve
                                    (EvalR.curve_def, and Model.Eval.curve_point) inside every knot span, the right derivative
                                    on the half-open span (so also at knots)

   Surfaces.  derivative_surface returns the three control nets (flat, v fastest) of S_u, S_v, S_uv; the objects built from
   them have degrees (pu-1,pv), (pu,pv-1), (pu-1,pv-1), knot vectors (Uu[1:-1],Uv), (Uu,Uv[1:-1]), (Uu[1:-1],Uv[1:-1]) and sizes
   (su-1) x sv, su x (sv-1), (su-1) x (sv-1).
     derivative_surface_valid       sizes / well-formedness of the three nets
     derivative_surface_def_is_dkl  the tensor-product definitions of the three surfaces are surface_dkl 1 0, 0 1, 1 1
     derivative_surface_points      the evaluated points (Model.Eval.surface_point) are those vectors = the entries [1][0], [0][1],
                                    [1][1] of SurfaceEvaluator.derivatives (Model.Derivs.surface_derivs)
     derivative_surface_true_partials   S_u(u,v) = d/du S, S_v = d/dv S, S_uv = d/dv S_u = d/du S_v (derivable_pt_lim inside the
                                    spans, right derivatives on the half-open spans)
   No hypothesis on knot multiplicities is needed at the real-number instance (x/0 = 0; the second-order control points that
   the code also computes, and whose zero denominators make the real code raise - known finding
   hodograph-surface-multiple-knot - are not used by the returned nets).  The guard under which the real code returns a value
   is the Definition derivative_surface_code_returns. *)
From Coq Require Import List Reals Lra Lia Arith Bool.
From NV Require Import Scalar.Ops Model.Common Model.Basis Model.Knots Model.Eval Model.Degree Model.Derivs
  Proofs.Boehm Proofs.BfN Proofs.BasisR Proofs.BasisOneR Proofs.DerivAnalytic Proofs.EvalR Proofs.DerivLink Proofs.DerivLinkCurve
  Proofs.DersNdu Proofs.DersGeneral Proofs.DersGeneralCurve Proofs.DerivsR Proofs.LeibnizRule Proofs.DerivSurface
  Proofs.DerivGeneralInst Proofs.DerivCptsSpec Proofs.DerivsAgreeGeneral Proofs.DerivsAgreeGeneralSurf.
Import ListNotations.
Open Scope R_scope.

(* ------------------------------------------------------------------------------------------------ *)
(* the trimmed knot vector U[1:-1]                                                                    *)
Lemma trim_kv_length (U : list R) : length (trim_kv U) = (length U - 2)%nat.
Proof. unfold trim_kv. rewrite removelast_length. destruct U; cbn [tl length]; lia. Qed.

Lemma trim_kv_kn (U : list R) m : (m + 2 < length U)%nat -> knR (trim_kv U) m = knR U (S m).
Proof.
  intros H. unfold trim_kv, kn. rewrite removelast_nth.
  - destruct U as [|a U']; [cbn in H; lia|]. reflexivity.
  - destruct U as [|a U']; cbn [tl length] in *; lia.
Qed.

Lemma trim_kv_sorted (U : list R) : sortedR U -> sortedR (trim_kv U).
Proof.
  intros Hs i j Hij. rewrite trim_kv_length in Hij. rewrite !trim_kv_kn by lia. apply Hs. lia.
Qed.

Lemma trim_kv_Ufun (U : list R) m : (m + 2 < length U)%nat -> Ufun (trim_kv U) m = Ufun U (1 + m).
Proof.
  intros H. rewrite Ufun_in by (rewrite trim_kv_length; lia). rewrite Ufun_in by lia. apply trim_kv_kn. exact H.
Qed.

(* basis functions on the trimmed knot vector: N_{i,q}(.; U[1:-1]) = N_{i+1,q}(.; U) as long as the knots read exist *)
Lemma N_trim (U : list R) q i u : (i + q + 3 < length U)%nat ->
  N (Ufun (trim_kv U)) q i u = N (Ufun U) q (i + 1) u.
Proof.
  intros H. rewrite (N_ext (Ufun (trim_kv U)) (fun m => Ufun U (1 + m)%nat)).
  - rewrite N_shift. f_equal. lia.
  - intros m Hm. apply trim_kv_Ufun. lia.
Qed.

(* ------------------------------------------------------------------------------------------------ *)
(* curves                                                                                             *)
Section Curve.
Variables (U : list R) (P : list (list R)) (p dim : nat).
Hypothesis Usorted : sortedR U.
Hypothesis Hwf : wf_net P dim.
Hypothesis Hp1 : (1 <= p)%nat.
Hypothesis Hp : (p < length P)%nat.
Hypothesis HL : length U = (length P + p + 1)%nat.

Notation n := (length P).
Notation Q := (nth 1 (curve_deriv_cpts Rops p U P 0 (Nat.pred (length P)) 1) []).
Notation U' := (trim_kv U).

Lemma derivative_curve_eq : derivative_curve Rops p U P = (Nat.pred p, U', Q).
Proof. reflexivity. Qed.

Lemma hodo_length : length Q = (n - 1)%nat.
Proof.
  rewrite cdc_nth by lia. cbn [cdc_row]. unfold deriv_row. rewrite map_length, seq_length. lia.
Qed.

Lemma hodo_entry i : (i < n - 1)%nat ->
  length (nth i Q []) = dim /\
  forall d, (d < dim)%nat -> coord Q i d = PK (Ufun U) p (fun m => coord P m d) 1 i.
Proof.
  intros Hi.
  destruct (curve_deriv_cpts_is_PK p U P 0 (Nat.pred n) 1 dim 1 i) as [L Nn]; try lia.
  - intros j Hj. apply Hwf. lia.
  - cbv zeta in L, Nn. split; [exact L|]. intros d Hd. unfold coord at 1. rewrite Nn by exact Hd. reflexivity.
Qed.

Lemma hodo_wf : wf_net Q dim.
Proof. intros i Hi. rewrite hodo_length in Hi. apply (hodo_entry i Hi). Qed.

(* [G] the hodograph is a valid curve *)
Theorem derivative_curve_valid :
  length Q = (n - 1)%nat /\ wf_net Q dim /\ sortedR U' /\
  length U' = (length Q + Nat.pred p + 1)%nat /\ (Nat.pred p < length Q)%nat /\
  (forall m, (m < length U')%nat -> knR U' m = knR U (S m)).
Proof.
  split; [exact hodo_length|]. split; [exact hodo_wf|]. split; [apply trim_kv_sorted; exact Usorted|].
  rewrite hodo_length, trim_kv_length. split; [lia|]. split; [lia|].
  intros m Hm. apply trim_kv_kn. lia.
Qed.

(* [G] Cox-de Boor sum of the hodograph = Eq. 2.9 first derivative of the curve, on the half-open domain *)
Theorem derivative_curve_def_is_dk d u : knR U p <= u < knR U n ->
  curve_def U' (Nat.pred p) Q d u = curve_dk U p P 1 d u.
Proof.
  intros Hu.
  destruct (span_facts U u p n Hp ltac:(lia) Hu) as [Hs1 Hs2].
  set (s := find_span_linear Rops p U n u) in *.
  unfold curve_def, curve_dk. rewrite hodo_length.
  rewrite (deriv_cpts_full_range (Ufun U) (Ufun_sorted U Usorted) p 1 s n (fun m => coord P m d) u); try lia.
  2:{ replace (S s) with (s + 1)%nat by lia. rewrite !Ufun_in by lia. exact Hs2. }
  replace (p - 1)%nat with (Nat.pred p) by lia.
  apply sumf_ext. intros i Hi. rewrite N_trim by lia.
  destruct (Nat.lt_ge_cases d dim) as [Hd|Hd].
  - rewrite (proj2 (hodo_entry i Hi) d Hd). reflexivity.
  - (* coordinates beyond the dimension: both sides are zero-padded *)
    unfold coord at 1. rewrite (nth_overflow (nth i Q [])) by (rewrite (proj1 (hodo_entry i Hi)); exact Hd).
    rewrite PK_S. cbn [PK]. unfold coord.
    rewrite !(nth_overflow (nth _ P [])); [unfold Rdiv; ring| |].
    + destruct (Nat.lt_ge_cases i n) as [H|H]; [rewrite Hwf by exact H; exact Hd|rewrite nth_overflow by exact H; cbn; lia].
    + destruct (Nat.lt_ge_cases (S i) n) as [H|H]; [rewrite Hwf by exact H; exact Hd|rewrite nth_overflow by exact H; cbn; lia].
Qed.

(* [G] the evaluated point of the hodograph object *)
Theorem derivative_curve_point_is_dk u : knR U p <= u < knR U n ->
  length (curve_point Rops dim (Nat.pred p) U' Q u) = dim /\
  forall d, (d < dim)%nat -> nth d (curve_point Rops dim (Nat.pred p) U' Q u) 0 = curve_dk U p P 1 d u.
Proof.
  intros Hu. destruct derivative_curve_valid as (LQ & WQ & SU' & LU' & PQ & KN).
  destruct (curve_point_is_definition U' Q (Nat.pred p) dim u SU' WQ PQ LU') as [L Nn].
  - rewrite LQ, !trim_kv_kn by lia. replace (S (Nat.pred p)) with p by lia. replace (S (n - 1)) with n by lia. exact Hu.
  - cbv zeta in L, Nn. split; [exact L|]. intros d Hd. rewrite Nn by exact Hd. apply derivative_curve_def_is_dk. exact Hu.
Qed.

(* [G] = the first-derivative vector returned by CurveEvaluator.derivatives (A3.2), any requested order >= 1 *)
Theorem derivative_curve_point_is_derivs_row1 u order : knR U p <= u < knR U n -> (1 <= order)%nat ->
  curve_point Rops dim (Nat.pred p) U' Q u = nth 1 (curve_derivs Rops dim p U P u order) [].
Proof.
  intros Hu Ho. destruct (derivative_curve_point_is_dk u Hu) as [L Nn].
  destruct (curve_derivs_is_dN_sum_general U P p dim Usorted Hwf Hp HL u order 1 Hu Ho) as [L' Nn']. cbv zeta in L', Nn'.
  apply (nth_ext _ _ 0 0); [congruence|]. intros d Hd. rewrite L in Hd. rewrite Nn, Nn' by exact Hd. reflexivity.
Qed.

(* ---- analytic meaning ---- *)
Section Span.
Variable s : nat.
Hypothesis Hs : (p <= s < n)%nat.

Let Es : Ufun U s = knR U s. Proof. apply Ufun_in. lia. Qed.
Let Es1 : Ufun U (S s) = knR U (s + 1). Proof. rewrite Ufun_in by lia. f_equal. lia. Qed.
Let dom x : knR U s <= x < knR U (s + 1) -> knR U p <= x < knR U n.
Proof. apply span_in_domain; [exact Usorted|exact Hs|lia]. Qed.

(* [G] inside a knot span the hodograph point is the (two-sided, limit-based) derivative of every coordinate of the curve *)
Theorem derivative_curve_point_is_true_derivative d u : (d < dim)%nat -> knR U s < u < knR U (s + 1) ->
  derivable_pt_lim (fun x => curve_def U p P d x) u (nth d (curve_point Rops dim (Nat.pred p) U' Q u) 0).
Proof.
  intros Hd Hu. rewrite (proj2 (derivative_curve_point_is_dk u ltac:(apply dom; lra)) d Hd).
  unfold curve_dk, curve_def.
  apply (curve_dN_is_kth_derivative (Ufun U) (Ufun_sorted U Usorted) s 0). rewrite Es, Es1. exact Hu.
Qed.

(* [G] on the half-open span, in particular at the knot U_s: right derivative (the property's convention) *)
Theorem derivative_curve_point_is_right_derivative d u : (d < dim)%nat -> knR U s <= u < knR U (s + 1) ->
  right_derivable_pt_lim (fun x => curve_def U p P d x) u (nth d (curve_point Rops dim (Nat.pred p) U' Q u) 0).
Proof.
  intros Hd Hu. rewrite (proj2 (derivative_curve_point_is_dk u ltac:(apply dom; lra)) d Hd).
  unfold curve_dk, curve_def.
  apply (curve_dN_right_derivative (Ufun U) (Ufun_sorted U Usorted) s 0). rewrite Es, Es1. exact Hu.
Qed.

(* [G] the same about the evaluated point of the input curve object *)
Theorem derivative_curve_point_is_derivative_of_point d u : (d < dim)%nat -> knR U s < u < knR U (s + 1) ->
  derivable_pt_lim (fun x => nth d (curve_point Rops dim p U P x) 0) u (nth d (curve_point Rops dim (Nat.pred p) U' Q u) 0).
Proof.
  intros Hd Hu.
  apply (dl_local (fun x => curve_def U p P d x) _ (knR U s) (knR U (s + 1))); [exact Hu| |].
  - intros y Hy. symmetry. apply (curve_point_is_definition U P p dim y Usorted Hwf Hp HL); [apply dom; lra|exact Hd].
  - apply derivative_curve_point_is_true_derivative; assumption.
Qed.

Theorem derivative_curve_point_is_right_derivative_of_point d u : (d < dim)%nat -> knR U s <= u < knR U (s + 1) ->
  right_derivable_pt_lim (fun x => nth d (curve_point Rops dim p U P x) 0) u
                         (nth d (curve_point Rops dim (Nat.pred p) U' Q u) 0).
Proof.
  intros Hd Hu.
  apply (rdl_local (fun x => curve_def U p P d x) _ (knR U (s + 1))); [lra| |].
  - intros y Hy. symmetry. apply (curve_point_is_definition U P p dim y Usorted Hwf Hp HL); [apply dom; lra|exact Hd].
  - apply derivative_curve_point_is_right_derivative; assumption.
Qed.
End Span.
End Curve.


(* ------------------------------------------------------------------------------------------------ *)
(* surfaces                                                                                           *)
Lemma concat_uniform_length {A} (w : nat) : forall (L : list (list A)),
  (forall i, (i < length L)%nat -> length (nth i L []) = w) -> length (concat L) = (length L * w)%nat.
Proof.
  induction L as [|x L IH]; intros H; [reflexivity|]. cbn [concat length]. rewrite app_length, IH.
  - pose proof (H 0%nat ltac:(cbn; lia)) as H0. cbn [nth] in H0. rewrite H0. lia.
  - intros i Hi. apply (H (S i)). cbn [length]. lia.
Qed.

Lemma concat_uniform_nth {A} (w : nat) (d : A) : forall (L : list (list A)) i j,
  (forall i, (i < length L)%nat -> length (nth i L []) = w) -> (i < length L)%nat -> (j < w)%nat ->
  nth (j + w * i) (concat L) d = nth j (nth i L []) d.
Proof.
  induction L as [|x L IH]; intros i j H Hi Hj; [cbn in Hi; lia|].
  assert (Hx : length x = w) by (apply (H 0%nat); cbn; lia).
  cbn [concat]. destruct i as [|i].
  - rewrite Nat.mul_0_r, Nat.add_0_r. rewrite app_nth1 by lia. reflexivity.
  - rewrite app_nth2 by nia. replace (j + w * S i - length x)%nat with (j + w * i)%nat by nia.
    cbn [nth]. apply IH; [|cbn [length] in Hi; lia|exact Hj].
    intros i' Hi'. apply (H (S i')). cbn [length]. lia.
Qed.

Section Surface.
Variables (Uu Uv : list R) (P : list (list R)) (pu pv su sv dim : nat).
Hypothesis Husorted : sortedR Uu.
Hypothesis Hvsorted : sortedR Uv.
Hypothesis Hwf : wf_net P dim.
Hypothesis HLP : length P = (su * sv)%nat.
Hypothesis Hpu1 : (1 <= pu)%nat.
Hypothesis Hpv1 : (1 <= pv)%nat.
Hypothesis Hpu : (pu < su)%nat.
Hypothesis Hpv : (pv < sv)%nat.
Hypothesis HLu : length Uu = (su + pu + 1)%nat.
Hypothesis HLv : length Uv = (sv + pv + 1)%nat.

Notation Vu := (Ufun Uu).
Notation Vv := (Ufun Uv).
Notation PKL := (surface_deriv_cpts Rops pu pv Uu Uv P su sv 0 (Nat.pred su) 0 (Nat.pred sv) 2).
(* PKL[k][l]: a (su-k) x (sv-l) array of points *)
Notation G k l := (nth l (nth k PKL []) []).

(* the specification-level control points of the (k,l) derivative surface (A3.7) *)
Definition PKL_spec (k l i j d : nat) : R :=
  PK Vv pv (fun c => PK Vu pu (fun m => coord P (c + sv * m) d) k i) l j.

Lemma G_shape k l : (k <= Nat.min pu 2)%nat -> (l <= Nat.min (2 - k) (Nat.min pv 2))%nat ->
  length (G k l) = (su - k)%nat /\ forall i, (i < su - k)%nat -> length (nth i (G k l) []) = (sv - l)%nat.
Proof.
  intros Hk Hl. unfold surface_deriv_cpts. cbv zeta.
  rewrite nth_map_seq_gen by lia. cbn [Nat.add]. rewrite nth_map_seq_gen by lia. cbn [Nat.add].
  rewrite map_length, seq_length. split; [lia|]. intros i Hi.
  rewrite nth_map_seq_gen by lia. cbn [Nat.add]. rewrite map_map. rewrite nth_map_seq_gen by lia. cbn [Nat.add].
  rewrite cdc_nth by lia. destruct l as [|l]; cbn [cdc_row].
  - unfold cdc_row0. rewrite map_length, seq_length. lia.
  - unfold deriv_row. rewrite map_length, seq_length. lia.
Qed.

Lemma col_entry_full c order' k i : (c < sv)%nat -> (k <= order')%nat -> (i + k <= su - 1)%nat ->
  let e := nth i (nth k (curve_deriv_cpts Rops pu Uu (colpts P su sv c) 0 (Nat.pred su) order') []) [] in
  length e = dim /\
  forall d, (d < dim)%nat -> nth d e 0 = PK Vu pu (fun m => coord P (c + sv * m) d) k i.
Proof.
  intros Hc Hk Hi. cbv zeta. rewrite cdc_nth by exact Hk.
  destruct (cdc_row_spec pu Uu (colpts P su sv c) 0 (Nat.pred su - 0) dim Vu) with (k := k) (i := i) as [L Nn].
  - intros m Hm. symmetry. apply Ufun_in. lia.
  - intros i' Hi'. cbn [Nat.add]. rewrite colpts_nth by lia. apply Hwf. rewrite HLP. nia.
  - lia.
  - split; [exact L|]. intros d Hd. rewrite Nn by exact Hd. cbn [Nat.add]. apply PK_ext.
    intros m Hm. unfold coord. rewrite colpts_nth by lia. reflexivity.
Qed.

Lemma G_entry k l i j : (k <= Nat.min pu 2)%nat -> (l <= Nat.min (2 - k) (Nat.min pv 2))%nat ->
  (i + k <= su - 1)%nat -> (j + l <= sv - 1)%nat ->
  let e := nth j (nth i (G k l) []) [] in
  length e = dim /\ forall d, (d < dim)%nat -> nth d e 0 = PKL_spec k l i j d.
Proof.
  intros Hk Hl Hi Hj. cbv zeta. unfold surface_deriv_cpts. cbv zeta.
  rewrite nth_map_seq_gen by lia. cbn [Nat.add].
  rewrite nth_map_seq_gen by lia. cbn [Nat.add].
  rewrite nth_map_seq_gen by lia. cbn [Nat.add].
  rewrite map_map. rewrite nth_map_seq_gen by lia. cbn [Nat.add].
  rewrite cdc_nth by lia. cbn [skipn]. rewrite !Nat.sub_0_r.
  set (cols := map (fun j0 => curve_deriv_cpts Rops pu Uu (map (fun i0 => pt_at P (j0 + sv * i0)) (seq 0 su)) 0 (Nat.pred su) (Nat.min pu 2))
                   (seq 0 (S (Nat.pred sv)))).
  set (rowi := map (fun jj => pt_at (nth k (nth jj cols []) []) i) (seq 0 (S (Nat.pred sv)))).
  assert (Hrow : forall m, (m <= Nat.pred sv)%nat ->
            length (nth (0 + m) rowi []) = dim /\
            forall d, (d < dim)%nat ->
              nth d (nth (0 + m) rowi []) 0 = PK Vu pu (fun m' => coord P (m + sv * m') d) k i).
  { intros m Hm. cbn [Nat.add]. unfold rowi. rewrite nth_map_seq_gen by lia. cbn [Nat.add]. unfold cols.
    rewrite nth_map_seq_gen by lia. unfold pt_at at 1. cbn [Nat.add].
    apply (col_entry_full m (Nat.min pu 2) k i); lia. }
  destruct (cdc_row_spec pv Uv rowi 0 (Nat.pred sv) dim Vv) with (k := l) (i := j) as [L Nn].
  - intros m Hm. symmetry. apply Ufun_in. lia.
  - intros m Hm. apply (Hrow m). exact Hm.
  - lia.
  - split; [exact L|]. intros d Hd. rewrite Nn by exact Hd. cbn [Nat.add]. unfold PKL_spec.
    apply PK_ext. intros m Hm. unfold coord at 1. apply (Hrow m); [lia|exact Hd].
Qed.

(* ---- specification level: the derivative control points represent the mixed partial (Eq. 3.8 in both directions) ---- *)
Lemma PKL_spec_tensor k l d u v : (k <= pu)%nat -> (l <= pv)%nat ->
  knR Uu pu <= u < knR Uu su -> knR Uv pv <= v < knR Uv sv ->
  sumf (fun i => sumf (fun j => N Vu (pu - k) (i + k) u * N Vv (pv - l) (j + l) v * PKL_spec k l i j d) (sv - l)) (su - k)
  = surface_dkl Uu Uv pu pv su sv P k l d u v.
Proof.
  intros Hk Hl Hu Hv.
  destruct (span_facts Uu u pu su Hpu ltac:(lia) Hu) as [Hsu1 Hsu2]. set (tu := find_span_linear Rops pu Uu su u) in *.
  destruct (span_facts Uv v pv sv Hpv ltac:(lia) Hv) as [Hsv1 Hsv2]. set (tv := find_span_linear Rops pv Uv sv v) in *.
  assert (Hu' : Vu tu <= u < Vu (S tu)) by (replace (S tu) with (tu + 1)%nat by lia; rewrite !Ufun_in by lia; exact Hsu2).
  assert (Hv' : Vv tv <= v < Vv (S tv)) by (replace (S tv) with (tv + 1)%nat by lia; rewrite !Ufun_in by lia; exact Hsv2).
  (* v direction first *)
  rewrite (sumf_ext _ (fun i => N Vu (pu - k) (i + k) u
             * sumf (fun j => dNa Vv l pv j v * PK Vu pu (fun m => coord P (j + sv * m) d) k i) sv)).
  2:{ intros i _.
      rewrite (deriv_cpts_full_range Vv (Ufun_sorted Uv Hvsorted) pv l tv sv
                 (fun c => PK Vu pu (fun m => coord P (c + sv * m) d) k i) v Hl Hsv1 Hv').
      rewrite <- sumf_scale. apply sumf_ext. intros j _. unfold PKL_spec. ring. }
  (* swap, then the u direction *)
  rewrite (sumf_ext _ (fun i => sumf (fun j => dNa Vv l pv j v
             * (N Vu (pu - k) (i + k) u * PK Vu pu (fun m => coord P (j + sv * m) d) k i)) sv)).
  2:{ intros i _. rewrite <- sumf_scale. apply sumf_ext. intros j _. ring. }
  rewrite sumf_swap.
  rewrite (sumf_ext _ (fun j => dNa Vv l pv j v * sumf (fun i => dNa Vu k pu i u * coord P (j + sv * i) d) su)).
  2:{ intros j _. rewrite sumf_scale. f_equal. symmetry.
      apply (deriv_cpts_full_range Vu (Ufun_sorted Uu Husorted) pu k tu su (fun m => coord P (j + sv * m) d) u Hk Hsu1 Hu'). }
  unfold surface_dkl.
  rewrite (sumf_ext _ (fun j => sumf (fun i => dNa Vu k pu i u * dNa Vv l pv j v * coord P (j + sv * i) d) su)).
  2:{ intros j _. rewrite <- sumf_scale. apply sumf_ext. intros i _. ring. }
  apply sumf_swap.
Qed.

(* ---- the three nets as the model returns them (flat, v fastest) ---- *)
Definition trimk (k : nat) (U : list R) : list R := match k with O => U | S _ => trim_kv U end.

Lemma N_trimk k U q i x : (k <= 1)%nat -> (i + q + 1 + 2 * k < length U)%nat ->
  N (Ufun (trimk k U)) q i x = N (Ufun U) q (i + k) x.
Proof.
  intros Hk H. destruct k as [|k]; cbn [trimk].
  - rewrite Nat.add_0_r. reflexivity.
  - replace (S k) with 1%nat by lia. apply N_trim. lia.
Qed.

Lemma trimk_facts k U p' n' : (k <= 1)%nat -> (k <= p')%nat -> sortedR U -> (p' < n')%nat -> length U = (n' + p' + 1)%nat ->
  sortedR (trimk k U) /\ length (trimk k U) = ((n' - k) + (p' - k) + 1)%nat /\
  knR (trimk k U) (p' - k) = knR U p' /\ knR (trimk k U) (n' - k) = knR U n'.
Proof.
  intros Hk Hkp Hs Hp' HLn. destruct k as [|k]; cbn [trimk].
  - rewrite !Nat.sub_0_r. repeat split; [exact Hs|exact HLn].
  - assert (k = 0)%nat by lia. subst k. split; [apply trim_kv_sorted; exact Hs|]. rewrite trim_kv_length.
    split; [lia|]. rewrite !trim_kv_kn by lia. split; f_equal; lia.
Qed.

Lemma net_kl k l : (k <= 1)%nat -> (l <= 1)%nat ->
  length (concat (G k l)) = ((su - k) * (sv - l))%nat /\ wf_net (concat (G k l)) dim /\
  forall i j d, (i < su - k)%nat -> (j < sv - l)%nat -> (d < dim)%nat ->
    coord (concat (G k l)) (j + (sv - l) * i) d = PKL_spec k l i j d.
Proof.
  intros Hk Hl.
  destruct (G_shape k l ltac:(lia) ltac:(lia)) as [GL GW].
  assert (GW' : forall i, (i < length (G k l))%nat -> length (nth i (G k l) []) = (sv - l)%nat)
    by (intros i Hi; apply GW; lia).
  assert (LC : length (concat (G k l)) = ((su - k) * (sv - l))%nat)
    by (rewrite (concat_uniform_length (sv - l) _ GW'), GL; reflexivity).
  split; [exact LC|]. split.
  - intros idx Hidx. rewrite LC in Hidx.
    assert (Hw : (0 < sv - l)%nat) by lia.
    assert (E : idx = (idx mod (sv - l) + (sv - l) * (idx / (sv - l)))%nat)
      by (rewrite Nat.add_comm; apply Nat.div_mod; lia).
    assert (Hj : (idx mod (sv - l) < sv - l)%nat) by (apply Nat.mod_upper_bound; lia).
    assert (Hi : (idx / (sv - l) < su - k)%nat) by (apply Nat.div_lt_upper_bound; [lia|nia]).
    rewrite E. rewrite (concat_uniform_nth (sv - l) [] (G k l)) by (try assumption; lia).
    apply (G_entry k l); lia.
  - intros i j d Hi Hj Hd. unfold coord.
    rewrite (concat_uniform_nth (sv - l) [] (G k l)) by (try assumption; lia).
    apply (G_entry k l); lia.
Qed.

(* the evaluated point of the surface object built on the (k,l) net, k, l <= 1 *)
Definition hodo_point (k l : nat) (u v : R) : list R :=
  surface_point Rops dim (pu - k) (pv - l) (trimk k Uu) (trimk l Uv) (su - k) (sv - l) (concat (G k l)) u v.

(* [G] tensor-product definition of the (k,l) derivative surface = Eq. 2.9 mixed partial of the input surface *)
Theorem hodo_def_is_dkl k l d u v : (k <= 1)%nat -> (l <= 1)%nat -> (d < dim)%nat ->
  knR Uu pu <= u < knR Uu su -> knR Uv pv <= v < knR Uv sv ->
  surface_def (trimk k Uu) (trimk l Uv) (pu - k) (pv - l) (su - k) (sv - l) (concat (G k l)) d u v
  = surface_dkl Uu Uv pu pv su sv P k l d u v.
Proof.
  intros Hk Hl Hd Hu Hv. destruct (net_kl k l Hk Hl) as (_ & _ & NC).
  rewrite <- (PKL_spec_tensor k l d u v) by (try assumption; lia).
  unfold surface_def. apply sumf_ext. intros i Hi. apply sumf_ext. intros j Hj.
  rewrite N_trimk by lia. rewrite N_trimk by lia. rewrite NC by assumption. reflexivity.
Qed.

Theorem hodo_point_is_dkl k l u v : (k <= 1)%nat -> (l <= 1)%nat ->
  knR Uu pu <= u < knR Uu su -> knR Uv pv <= v < knR Uv sv ->
  length (hodo_point k l u v) = dim /\
  forall d, (d < dim)%nat -> nth d (hodo_point k l u v) 0 = surface_dkl Uu Uv pu pv su sv P k l d u v.
Proof.
  intros Hk Hl Hu Hv. destruct (net_kl k l Hk Hl) as (LC & WC & _).
  destruct (trimk_facts k Uu pu su Hk ltac:(lia) Husorted Hpu HLu) as (S1 & L1 & A1 & B1).
  destruct (trimk_facts l Uv pv sv Hl ltac:(lia) Hvsorted Hpv HLv) as (S2 & L2 & A2 & B2).
  destruct (surface_point_is_definition (trimk k Uu) (trimk l Uv) (concat (G k l)) (pu - k) (pv - l) (su - k) (sv - l) dim u v
              S1 S2 WC LC ltac:(lia) ltac:(lia) L1 L2) as [L Nn].
  - rewrite A1, B1. exact Hu.
  - rewrite A2, B2. exact Hv.
  - cbv zeta in L, Nn. split; [exact L|]. intros d Hd. unfold hodo_point. rewrite Nn by exact Hd.
    apply hodo_def_is_dkl; assumption.
Qed.

(* [G] = the entries of SurfaceEvaluator.derivatives (A3.6) at (u, v), any requested order >= 1 *)
Theorem hodo_point_is_derivs_entry k l u v order : (k <= 1)%nat -> (l <= 1)%nat -> (1 <= order)%nat ->
  knR Uu pu <= u < knR Uu su -> knR Uv pv <= v < knR Uv sv ->
  hodo_point k l u v = get3 (surface_derivs Rops dim pu pv Uu Uv su sv P u v order) k l.
Proof.
  intros Hk Hl Ho Hu Hv. destruct (hodo_point_is_dkl k l u v Hk Hl Hu Hv) as [L Nn].
  destruct (surface_derivs_is_dN_tensor_general Uu Uv P pu pv su sv dim Husorted Hvsorted Hwf HLP Hpu Hpv HLu HLv
              u v order k l Hu Hv ltac:(lia) ltac:(lia)) as [L' Nn'].
  apply (nth_ext _ _ 0 0); [congruence|]. intros d Hd. rewrite L in Hd. rewrite Nn, Nn' by exact Hd. reflexivity.
Qed.

(* ---- analytic meaning: S_u = dS/du, S_v = dS/dv, S_uv = d(S_u)/dv = d(S_v)/du ---- *)
Lemma span_eqs (U : list R) (n p t : nat) : (t < n)%nat -> length U = (n + p + 1)%nat ->
  Ufun U t = knR U t /\ Ufun U (S t) = knR U (t + 1).
Proof. intros Ht HLn. split; [apply Ufun_in; lia|]. rewrite Ufun_in by lia. f_equal. lia. Qed.

Ltac span_setup tu tv Htu Htv :=
  try (destruct (span_eqs Uu su pu tu ltac:(lia) HLu) as [Eu Eu1];
       assert (domu : forall x, knR Uu tu <= x < knR Uu (tu + 1) -> knR Uu pu <= x < knR Uu su)
         by (intros x; apply span_in_domain; [exact Husorted|exact Htu|lia]));
  try (destruct (span_eqs Uv sv pv tv ltac:(lia) HLv) as [Ev Ev1];
       assert (domv : forall y, knR Uv tv <= y < knR Uv (tv + 1) -> knR Uv pv <= y < knR Uv sv)
         by (intros y; apply span_in_domain; [exact Hvsorted|exact Htv|lia])).

(* the input surface itself, as definition and as evaluated point *)
Lemma surface_def_du_right tu d u v : (pu <= tu < su)%nat ->  knR Uu tu <= u < knR Uu (tu + 1) -> 
  right_derivable_pt_lim (fun x => surface_def Uu Uv pu pv su sv P d x v) u (surface_dkl Uu Uv pu pv su sv P 1 0 d u v).
Proof.
  intros Htu. span_setup tu O Htu I. intros Hu. apply (surface_dkl_du_right Uu Uv pu pv su sv P Husorted tu 0 0). rewrite Eu, Eu1. exact Hu. Qed.
Lemma surface_def_dv_right tv d u v : (pv <= tv < sv)%nat ->  knR Uv tv <= v < knR Uv (tv + 1) ->
  right_derivable_pt_lim (fun y => surface_def Uu Uv pu pv su sv P d u y) v (surface_dkl Uu Uv pu pv su sv P 0 1 d u v).
Proof.
  intros Htv. span_setup O tv I Htv. intros Hv. apply (surface_dkl_dv_right Uu Uv pu pv su sv P Hvsorted tv 0 0). rewrite Ev, Ev1. exact Hv. Qed.

(* [G] S_u *)
Theorem hodo_u_is_partial_u tu d u v : (pu <= tu < su)%nat ->  (d < dim)%nat -> knR Uu tu < u < knR Uu (tu + 1) -> knR Uv pv <= v < knR Uv sv ->
  derivable_pt_lim (fun x => surface_def Uu Uv pu pv su sv P d x v) u (nth d (hodo_point 1 0 u v) 0) /\
  derivable_pt_lim (fun x => nth d (surface_point Rops dim pu pv Uu Uv su sv P x v) 0) u (nth d (hodo_point 1 0 u v) 0).
Proof.
  intros Htu. span_setup tu O Htu I.
  intros Hd Hu Hv.
  rewrite (proj2 (hodo_point_is_dkl 1 0 u v ltac:(lia) ltac:(lia) ltac:(apply domu; lra) Hv) d Hd).
  assert (D : derivable_pt_lim (fun x => surface_def Uu Uv pu pv su sv P d x v) u (surface_dkl Uu Uv pu pv su sv P 1 0 d u v)).
  { apply (surface_dkl_du Uu Uv pu pv su sv P Husorted tu 0 0). rewrite Eu, Eu1. exact Hu. }
  split; [exact D|].
  apply (dl_local (fun x => surface_def Uu Uv pu pv su sv P d x v) _ (knR Uu tu) (knR Uu (tu + 1))); [exact Hu| |exact D].
  intros y Hy. symmetry.
  apply (surface_point_is_definition Uu Uv P pu pv su sv dim y v); try assumption. apply domu; lra.
Qed.

Theorem hodo_u_is_right_partial_u tu d u v : (pu <= tu < su)%nat ->  (d < dim)%nat -> knR Uu tu <= u < knR Uu (tu + 1) -> knR Uv pv <= v < knR Uv sv ->
  right_derivable_pt_lim (fun x => surface_def Uu Uv pu pv su sv P d x v) u (nth d (hodo_point 1 0 u v) 0) /\
  right_derivable_pt_lim (fun x => nth d (surface_point Rops dim pu pv Uu Uv su sv P x v) 0) u (nth d (hodo_point 1 0 u v) 0).
Proof.
  intros Htu. span_setup tu O Htu I.
  intros Hd Hu Hv.
  rewrite (proj2 (hodo_point_is_dkl 1 0 u v ltac:(lia) ltac:(lia) ltac:(apply domu; lra) Hv) d Hd).
  split; [apply (surface_def_du_right tu); [exact Htu|exact Hu]|].
  apply (rdl_local (fun x => surface_def Uu Uv pu pv su sv P d x v) _ (knR Uu (tu + 1))); [lra| |apply (surface_def_du_right tu); [exact Htu|exact Hu]].
  intros y Hy. symmetry.
  apply (surface_point_is_definition Uu Uv P pu pv su sv dim y v); try assumption. apply domu; lra.
Qed.

(* [G] S_v *)
Theorem hodo_v_is_partial_v tv d u v : (pv <= tv < sv)%nat ->  (d < dim)%nat -> knR Uu pu <= u < knR Uu su -> knR Uv tv < v < knR Uv (tv + 1) ->
  derivable_pt_lim (fun y => surface_def Uu Uv pu pv su sv P d u y) v (nth d (hodo_point 0 1 u v) 0) /\
  derivable_pt_lim (fun y => nth d (surface_point Rops dim pu pv Uu Uv su sv P u y) 0) v (nth d (hodo_point 0 1 u v) 0).
Proof.
  intros Htv. span_setup O tv I Htv.
  intros Hd Hu Hv.
  rewrite (proj2 (hodo_point_is_dkl 0 1 u v ltac:(lia) ltac:(lia) Hu ltac:(apply domv; lra)) d Hd).
  assert (D : derivable_pt_lim (fun y => surface_def Uu Uv pu pv su sv P d u y) v (surface_dkl Uu Uv pu pv su sv P 0 1 d u v)).
  { apply (surface_dkl_dv Uu Uv pu pv su sv P Hvsorted tv 0 0). rewrite Ev, Ev1. exact Hv. }
  split; [exact D|].
  apply (dl_local (fun y => surface_def Uu Uv pu pv su sv P d u y) _ (knR Uv tv) (knR Uv (tv + 1))); [exact Hv| |exact D].
  intros y Hy. symmetry.
  apply (surface_point_is_definition Uu Uv P pu pv su sv dim u y); try assumption. apply domv; lra.
Qed.

Theorem hodo_v_is_right_partial_v tv d u v : (pv <= tv < sv)%nat ->  (d < dim)%nat -> knR Uu pu <= u < knR Uu su -> knR Uv tv <= v < knR Uv (tv + 1) ->
  right_derivable_pt_lim (fun y => surface_def Uu Uv pu pv su sv P d u y) v (nth d (hodo_point 0 1 u v) 0) /\
  right_derivable_pt_lim (fun y => nth d (surface_point Rops dim pu pv Uu Uv su sv P u y) 0) v (nth d (hodo_point 0 1 u v) 0).
Proof.
  intros Htv. span_setup O tv I Htv.
  intros Hd Hu Hv.
  rewrite (proj2 (hodo_point_is_dkl 0 1 u v ltac:(lia) ltac:(lia) Hu ltac:(apply domv; lra)) d Hd).
  split; [apply (surface_def_dv_right tv); [exact Htv|exact Hv]|].
  apply (rdl_local (fun y => surface_def Uu Uv pu pv su sv P d u y) _ (knR Uv (tv + 1))); [lra| |apply (surface_def_dv_right tv); [exact Htv|exact Hv]].
  intros y Hy. symmetry.
  apply (surface_point_is_definition Uu Uv P pu pv su sv dim u y); try assumption. apply domv; lra.
Qed.

(* [G] S_uv is the v-derivative of the surface S_u and the u-derivative of the surface S_v *)
Theorem hodo_uv_is_partial_v_of_hodo_u tv d u v : (pv <= tv < sv)%nat ->  (d < dim)%nat -> knR Uu pu <= u < knR Uu su -> knR Uv tv < v < knR Uv (tv + 1) ->
  derivable_pt_lim (fun y => nth d (hodo_point 1 0 u y) 0) v (nth d (hodo_point 1 1 u v) 0).
Proof.
  intros Htv. span_setup O tv I Htv.
  intros Hd Hu Hv.
  rewrite (proj2 (hodo_point_is_dkl 1 1 u v ltac:(lia) ltac:(lia) Hu ltac:(apply domv; lra)) d Hd).
  apply (dl_local (fun y => surface_dkl Uu Uv pu pv su sv P 1 0 d u y) _ (knR Uv tv) (knR Uv (tv + 1))); [exact Hv| |].
  - intros y Hy. symmetry. apply (hodo_point_is_dkl 1 0 u y); try lia; [exact Hu|apply domv; lra].
  - apply (surface_dkl_dv Uu Uv pu pv su sv P Hvsorted tv 1 0). rewrite Ev, Ev1. exact Hv.
Qed.

Theorem hodo_uv_is_partial_u_of_hodo_v tu d u v : (pu <= tu < su)%nat ->  (d < dim)%nat -> knR Uu tu < u < knR Uu (tu + 1) -> knR Uv pv <= v < knR Uv sv ->
  derivable_pt_lim (fun x => nth d (hodo_point 0 1 x v) 0) u (nth d (hodo_point 1 1 u v) 0).
Proof.
  intros Htu. span_setup tu O Htu I.
  intros Hd Hu Hv.
  rewrite (proj2 (hodo_point_is_dkl 1 1 u v ltac:(lia) ltac:(lia) ltac:(apply domu; lra) Hv) d Hd).
  apply (dl_local (fun x => surface_dkl Uu Uv pu pv su sv P 0 1 d x v) _ (knR Uu tu) (knR Uu (tu + 1))); [exact Hu| |].
  - intros y Hy. symmetry. apply (hodo_point_is_dkl 0 1 y v); try lia; [apply domu; lra|exact Hv].
  - apply (surface_dkl_du Uu Uv pu pv su sv P Husorted tu 0 1). rewrite Eu, Eu1. exact Hu.
Qed.

Theorem hodo_uv_is_right_partial_v_of_hodo_u tv d u v : (pv <= tv < sv)%nat ->  (d < dim)%nat -> knR Uu pu <= u < knR Uu su -> knR Uv tv <= v < knR Uv (tv + 1) ->
  right_derivable_pt_lim (fun y => nth d (hodo_point 1 0 u y) 0) v (nth d (hodo_point 1 1 u v) 0).
Proof.
  intros Htv. span_setup O tv I Htv.
  intros Hd Hu Hv.
  rewrite (proj2 (hodo_point_is_dkl 1 1 u v ltac:(lia) ltac:(lia) Hu ltac:(apply domv; lra)) d Hd).
  apply (rdl_local (fun y => surface_dkl Uu Uv pu pv su sv P 1 0 d u y) _ (knR Uv (tv + 1))); [lra| |].
  - intros y Hy. symmetry. apply (hodo_point_is_dkl 1 0 u y); try lia; [exact Hu|apply domv; lra].
  - apply (surface_dkl_dv_right Uu Uv pu pv su sv P Hvsorted tv 1 0). rewrite Ev, Ev1. exact Hv.
Qed.

Theorem hodo_uv_is_right_partial_u_of_hodo_v tu d u v : (pu <= tu < su)%nat ->  (d < dim)%nat -> knR Uu tu <= u < knR Uu (tu + 1) -> knR Uv pv <= v < knR Uv sv ->
  right_derivable_pt_lim (fun x => nth d (hodo_point 0 1 x v) 0) u (nth d (hodo_point 1 1 u v) 0).
Proof.
  intros Htu. span_setup tu O Htu I.
  intros Hd Hu Hv.
  rewrite (proj2 (hodo_point_is_dkl 1 1 u v ltac:(lia) ltac:(lia) ltac:(apply domu; lra) Hv) d Hd).
  apply (rdl_local (fun x => surface_dkl Uu Uv pu pv su sv P 0 1 d x v) _ (knR Uu (tu + 1))); [lra| |].
  - intros y Hy. symmetry. apply (hodo_point_is_dkl 0 1 y v); try lia; [apply domu; lra|exact Hv].
  - apply (surface_dkl_du_right Uu Uv pu pv su sv P Husorted tu 0 1). rewrite Eu, Eu1. exact Hu.
Qed.
Section SurfaceObj.
Variables Su Sv Suv : list (list R).
Hypothesis Hret : derivative_surface Rops pu pv Uu Uv su sv P = (Su, Sv, Suv).

(* the evaluated points of the three returned surface objects *)
Definition Su_point (u v : R) := surface_point Rops dim (pu - 1) pv (trim_kv Uu) Uv (su - 1) sv Su u v.
Definition Sv_point (u v : R) := surface_point Rops dim pu (pv - 1) Uu (trim_kv Uv) su (sv - 1) Sv u v.
Definition Suv_point (u v : R) := surface_point Rops dim (pu - 1) (pv - 1) (trim_kv Uu) (trim_kv Uv) (su - 1) (sv - 1) Suv u v.

Let ESu : Su = concat (nth 0 (nth 1 (surface_deriv_cpts Rops pu pv Uu Uv P su sv 0 (Nat.pred su) 0 (Nat.pred sv) 2) []) []).
Proof. exact (eq_sym (f_equal (fun t => fst (fst t)) Hret)). Qed.
Let ESv : Sv = concat (nth 1 (nth 0 (surface_deriv_cpts Rops pu pv Uu Uv P su sv 0 (Nat.pred su) 0 (Nat.pred sv) 2) []) []).
Proof. exact (eq_sym (f_equal (fun t => snd (fst t)) Hret)). Qed.
Let ESuv : Suv = concat (nth 1 (nth 1 (surface_deriv_cpts Rops pu pv Uu Uv P su sv 0 (Nat.pred su) 0 (Nat.pred sv) 2) []) []).
Proof. exact (eq_sym (f_equal (fun t => snd t) Hret)). Qed.

Let Eu u v : Su_point u v = hodo_point 1 0 u v.
Proof. unfold Su_point, hodo_point. cbn [trimk]. rewrite !Nat.sub_0_r, ESu. reflexivity. Qed.
Let Ev u v : Sv_point u v = hodo_point 0 1 u v.
Proof. unfold Sv_point, hodo_point. cbn [trimk]. rewrite !Nat.sub_0_r, ESv. reflexivity. Qed.
Let Euv u v : Suv_point u v = hodo_point 1 1 u v.
Proof. unfold Suv_point, hodo_point. cbn [trimk]. rewrite ESuv. reflexivity. Qed.

(* [G] sizes: (su-1) x sv, su x (sv-1), (su-1) x (sv-1) points of the input dimension *)
Theorem derivative_surface_valid :
  (length Su = ((su - 1) * sv)%nat /\ wf_net Su dim) /\ (length Sv = (su * (sv - 1))%nat /\ wf_net Sv dim) /\
  (length Suv = ((su - 1) * (sv - 1))%nat /\ wf_net Suv dim) /\
  sortedR (trim_kv Uu) /\ length (trim_kv Uu) = ((su - 1) + (pu - 1) + 1)%nat /\
  sortedR (trim_kv Uv) /\ length (trim_kv Uv) = ((sv - 1) + (pv - 1) + 1)%nat.
Proof.
  rewrite ESu, ESv, ESuv.
  destruct (net_kl 1 0 ltac:(lia) ltac:(lia)) as (L10 & W10 & _).
  destruct (net_kl 0 1 ltac:(lia) ltac:(lia)) as (L01 & W01 & _).
  destruct (net_kl 1 1 ltac:(lia) ltac:(lia)) as (L11 & W11 & _).
  rewrite !Nat.sub_0_r in *.
  repeat split; try assumption; try (apply trim_kv_sorted; assumption); rewrite trim_kv_length; lia.
Qed.

(* [G] values on the half-open domain: entries [1][0], [0][1], [1][1] of SurfaceEvaluator.derivatives, = the Eq. 2.9 tensor sums *)
Theorem derivative_surface_points u v : knR Uu pu <= u < knR Uu su -> knR Uv pv <= v < knR Uv sv ->
  (forall order, (1 <= order)%nat ->
     let SKL := surface_derivs Rops dim pu pv Uu Uv su sv P u v order in
     Su_point u v = get3 SKL 1 0 /\ Sv_point u v = get3 SKL 0 1 /\ Suv_point u v = get3 SKL 1 1) /\
  (length (Su_point u v) = dim /\ length (Sv_point u v) = dim /\ length (Suv_point u v) = dim) /\
  (forall d, (d < dim)%nat ->
     nth d (Su_point u v) 0 = surface_dkl Uu Uv pu pv su sv P 1 0 d u v /\
     nth d (Sv_point u v) 0 = surface_dkl Uu Uv pu pv su sv P 0 1 d u v /\
     nth d (Suv_point u v) 0 = surface_dkl Uu Uv pu pv su sv P 1 1 d u v).
Proof.
  intros Hu Hv. rewrite Eu, Ev, Euv. split; [|split].
  - intros order Ho. cbv zeta.
    repeat split; apply hodo_point_is_derivs_entry; try assumption; lia.
  - repeat split; apply hodo_point_is_dkl; try assumption; lia.
  - intros d Hd. repeat split; apply hodo_point_is_dkl; try assumption; lia.
Qed.

(* [G] analytically (tu, tv: knot spans of the two domains): S_u = dS/du, S_v = dS/dv, S_uv = d(S_u)/dv = d(S_v)/du,
   two-sided inside the spans and right derivatives on the half-open spans *)
Theorem derivative_surface_true_partials tu tv d : (pu <= tu < su)%nat -> (pv <= tv < sv)%nat -> (d < dim)%nat ->
  (forall u v, knR Uu tu < u < knR Uu (tu + 1) -> knR Uv pv <= v < knR Uv sv ->
     derivable_pt_lim (fun x => surface_def Uu Uv pu pv su sv P d x v) u (nth d (Su_point u v) 0) /\
     derivable_pt_lim (fun x => nth d (surface_point Rops dim pu pv Uu Uv su sv P x v) 0) u (nth d (Su_point u v) 0) /\
     derivable_pt_lim (fun x => nth d (Sv_point x v) 0) u (nth d (Suv_point u v) 0)) /\
  (forall u v, knR Uu pu <= u < knR Uu su -> knR Uv tv < v < knR Uv (tv + 1) ->
     derivable_pt_lim (fun y => surface_def Uu Uv pu pv su sv P d u y) v (nth d (Sv_point u v) 0) /\
     derivable_pt_lim (fun y => nth d (surface_point Rops dim pu pv Uu Uv su sv P u y) 0) v (nth d (Sv_point u v) 0) /\
     derivable_pt_lim (fun y => nth d (Su_point u y) 0) v (nth d (Suv_point u v) 0)).
Proof.
  intros Htu Htv Hd. split; intros u v Hu Hv.
  - rewrite Eu, Euv.
    destruct (hodo_u_is_partial_u tu d u v Htu Hd Hu Hv) as [A B].
    split; [exact A|]. split; [exact B|].
    apply (dl_ext (fun x => nth d (hodo_point 0 1 x v) 0)); [intros x; rewrite Ev; reflexivity|].
    apply (hodo_uv_is_partial_u_of_hodo_v tu); assumption.
  - rewrite Ev, Euv.
    destruct (hodo_v_is_partial_v tv d u v Htv Hd Hu Hv) as [A B].
    split; [exact A|]. split; [exact B|].
    apply (dl_ext (fun y => nth d (hodo_point 1 0 u y) 0)); [intros y; rewrite Eu; reflexivity|].
    apply (hodo_uv_is_partial_v_of_hodo_u tv); assumption.
Qed.

Theorem derivative_surface_right_partials tu tv d : (pu <= tu < su)%nat -> (pv <= tv < sv)%nat -> (d < dim)%nat ->
  (forall u v, knR Uu tu <= u < knR Uu (tu + 1) -> knR Uv pv <= v < knR Uv sv ->
     right_derivable_pt_lim (fun x => surface_def Uu Uv pu pv su sv P d x v) u (nth d (Su_point u v) 0) /\
     right_derivable_pt_lim (fun x => nth d (surface_point Rops dim pu pv Uu Uv su sv P x v) 0) u (nth d (Su_point u v) 0) /\
     right_derivable_pt_lim (fun x => nth d (Sv_point x v) 0) u (nth d (Suv_point u v) 0)) /\
  (forall u v, knR Uu pu <= u < knR Uu su -> knR Uv tv <= v < knR Uv (tv + 1) ->
     right_derivable_pt_lim (fun y => surface_def Uu Uv pu pv su sv P d u y) v (nth d (Sv_point u v) 0) /\
     right_derivable_pt_lim (fun y => nth d (surface_point Rops dim pu pv Uu Uv su sv P u y) 0) v (nth d (Sv_point u v) 0) /\
     right_derivable_pt_lim (fun y => nth d (Su_point u y) 0) v (nth d (Suv_point u v) 0)).
Proof.
  intros Htu Htv Hd. split; intros u v Hu Hv.
  - rewrite Eu, Euv.
    destruct (hodo_u_is_right_partial_u tu d u v Htu Hd Hu Hv) as [A B].
    split; [exact A|]. split; [exact B|].
    apply (rdl_local (fun x => nth d (hodo_point 0 1 x v) 0) _ (knR Uu (tu + 1))); [lra|intros x _; rewrite Ev; reflexivity|].
    apply (hodo_uv_is_right_partial_u_of_hodo_v tu); assumption.
  - rewrite Ev, Euv.
    destruct (hodo_v_is_right_partial_v tv d u v Htv Hd Hu Hv) as [A B].
    split; [exact A|]. split; [exact B|].
    apply (rdl_local (fun y => nth d (hodo_point 1 0 u y) 0) _ (knR Uv (tv + 1))); [lra|intros y _; rewrite Eu; reflexivity|].
    apply (hodo_uv_is_right_partial_v_of_hodo_u tv); assumption.
Qed.
End SurfaceObj.
End Surface.


(* ================================================================================================ *)
(* object-level statements: about what operations.derivative_curve / derivative_surface RETURN        *)

(* [G] the returned curve is valid *)
Theorem derivative_curve_object_valid (U : list R) (P : list (list R)) (p dim : nat) :
  sortedR U -> wf_net P dim -> (1 <= p)%nat -> (p < length P)%nat -> length U = (length P + p + 1)%nat ->
  forall p' U' Q, derivative_curve Rops p U P = (p', U', Q) ->
  p' = (p - 1)%nat /\ U' = trim_kv U /\ length Q = (length P - 1)%nat /\ wf_net Q dim /\ sortedR U' /\
  length U' = (length Q + p' + 1)%nat /\ (p' < length Q)%nat /\
  (forall m, (m < length U')%nat -> knR U' m = knR U (S m)).
Proof.
  intros Hs Hwf Hp1 Hp HL p' U' Q E. rewrite derivative_curve_eq in E. injection E as <- <- <-.
  destruct (derivative_curve_valid U P p dim Hs Hwf Hp1 Hp HL) as (A & B & C & D & F & G0).
  repeat split; try assumption; lia.
Qed.

(* [G] its evaluated point at every u of the half-open domain is the first-derivative vector of the input curve: entry 1 of
   CurveEvaluator.derivatives, = sum_i N'_{i,p}(u) P_i coordinate-wise; the same for its Cox-de Boor sum *)
Theorem derivative_curve_object_value (U : list R) (P : list (list R)) (p dim : nat) :
  sortedR U -> wf_net P dim -> (1 <= p)%nat -> (p < length P)%nat -> length U = (length P + p + 1)%nat ->
  forall p' U' Q, derivative_curve Rops p U P = (p', U', Q) ->
  forall u, knR U p <= u < knR U (length P) ->
  (forall order, (1 <= order)%nat -> curve_point Rops dim p' U' Q u = nth 1 (curve_derivs Rops dim p U P u order) []) /\
  length (curve_point Rops dim p' U' Q u) = dim /\
  (forall d, (d < dim)%nat -> nth d (curve_point Rops dim p' U' Q u) 0 = curve_dk U p P 1 d u) /\
  (forall d, curve_def U' p' Q d u = curve_dk U p P 1 d u).
Proof.
  intros Hs Hwf Hp1 Hp HL p' U' Q E u Hu. rewrite derivative_curve_eq in E. injection E as <- <- <-.
  split; [intros order Ho; apply derivative_curve_point_is_derivs_row1; assumption|].
  split; [apply (derivative_curve_point_is_dk U P p dim); assumption|].
  split; [apply (derivative_curve_point_is_dk U P p dim); assumption|].
  intros d. apply (derivative_curve_def_is_dk U P p dim); assumption.
Qed.

(* [G] analytically: inside every knot span of the domain the hodograph point is the limit-based derivative of every coordinate of
   the curve (as Cox-de Boor sum and as evaluated point); on the half-open span, so also at knots, the right derivative *)
Theorem derivative_curve_object_true_derivative (U : list R) (P : list (list R)) (p dim : nat) :
  sortedR U -> wf_net P dim -> (1 <= p)%nat -> (p < length P)%nat -> length U = (length P + p + 1)%nat ->
  forall p' U' Q, derivative_curve Rops p U P = (p', U', Q) ->
  forall s d, (p <= s < length P)%nat -> (d < dim)%nat ->
  (forall u, knR U s < u < knR U (s + 1) ->
     derivable_pt_lim (fun x => curve_def U p P d x) u (nth d (curve_point Rops dim p' U' Q u) 0) /\
     derivable_pt_lim (fun x => nth d (curve_point Rops dim p U P x) 0) u (nth d (curve_point Rops dim p' U' Q u) 0)) /\
  (forall u, knR U s <= u < knR U (s + 1) ->
     right_derivable_pt_lim (fun x => curve_def U p P d x) u (nth d (curve_point Rops dim p' U' Q u) 0) /\
     right_derivable_pt_lim (fun x => nth d (curve_point Rops dim p U P x) 0) u (nth d (curve_point Rops dim p' U' Q u) 0)).
Proof.
  intros Hs Hwf Hp1 Hp HL p' U' Q E s d Hsp Hd. rewrite derivative_curve_eq in E. injection E as <- <- <-.
  split; intros u Hu; split.
  - apply (derivative_curve_point_is_true_derivative U P p dim Hs Hwf Hp1 Hp HL s Hsp); assumption.
  - apply (derivative_curve_point_is_derivative_of_point U P p dim Hs Hwf Hp1 Hp HL s Hsp); assumption.
  - apply (derivative_curve_point_is_right_derivative U P p dim Hs Hwf Hp1 Hp HL s Hsp); assumption.
  - apply (derivative_curve_point_is_right_derivative_of_point U P p dim Hs Hwf Hp1 Hp HL s Hsp); assumption.
Qed.

(* ---- the inputs on which the REAL code returns (known findings hodograph-*-degree-1, hodograph-surface-multiple-knot):
        degree >= 2 in each direction, and none of the second-level denominators U[i+p+1] - U[i+2], i = 0..n-3, of A3.7 (called
        with order 2) is zero, i.e. no run of p equal knots U[i+2..i+p+1] (an interior knot of multiplicity = degree).  This is
        harness/props/C02.py second_level_zero. ---- *)
Definition second_level_nonzero (p : nat) (U : list R) (n : nat) : Prop :=
  forall i, (i + 2 <= n - 1)%nat -> knR U (i + p + 1) <> knR U (i + 2).
Definition derivative_surface_code_returns (pu pv : nat) (Uu Uv : list R) (su sv : nat) : Prop :=
  (2 <= pu)%nat /\ (2 <= pv)%nat /\ second_level_nonzero pu Uu su /\ second_level_nonzero pv Uv sv.

(* under the guard no denominator of A3.3 with order <= 2 over the whole knot vector is zero *)
Lemma guard_no_zero_denominator (p : nat) (U : list R) (n : nat) :
  sortedR U -> (2 <= p)%nat -> (p < n)%nat -> length U = (n + p + 1)%nat -> second_level_nonzero p U n ->
  forall k i, (1 <= k <= 2)%nat -> (i + k <= n - 1)%nat -> knR U (i + p + 1) - knR U (i + k) <> 0.
Proof.
  intros Hs Hp2 Hp HLn G k i Hk Hi E.
  assert (K : k = 2%nat \/ k = 1%nat) by lia. destruct K as [-> | ->].
  - apply (G i Hi). lra.
  - destruct (Nat.le_gt_cases (i + 2) (n - 1)) as [H|H].
    + apply (G i H). assert (knR U (i + 1) <= knR U (i + 2)) by (apply Hs; lia).
      assert (knR U (i + 2) <= knR U (i + p + 1)) by (apply Hs; lia). lra.
    + assert (i = n - 2)%nat by lia. subst i.
      apply (G (n - 3)%nat ltac:(lia)).
      replace (n - 3 + 2)%nat with (n - 2 + 1)%nat by lia.
      assert (knR U (n - 2 + 1) <= knR U (n - 3 + p + 1)) by (apply Hs; lia).
      assert (knR U (n - 3 + p + 1) <= knR U (n - 2 + p + 1)) by (apply Hs; lia). lra.
Qed.


Check derivative_curve_object_valid.
Check derivative_curve_object_value.
Check derivative_curve_object_true_derivative.
Check guard_no_zero_denominator.
Check derivative_surface_valid.
Check derivative_surface_points.
Check derivative_surface_true_partials.
Check derivative_surface_right_partials.
Print Assumptions derivative_curve_object_valid.
Print Assumptions derivative_curve_object_value.
Print Assumptions derivative_curve_object_true_derivative.
Print Assumptions derivative_surface_valid.
Print Assumptions derivative_surface_points.
Print Assumptions derivative_surface_true_partials.
Print Assumptions derivative_surface_right_partials.
