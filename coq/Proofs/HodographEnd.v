(* C02 leftovers for the hodograph OBJECTS of Proofs/HodographObj.v (operations.derivative_curve / derivative_surface,
   Model.Derivs.derivative_curve / derivative_surface):

   1. the CLOSED right end of the domain.  HodographObj.v covers the half-open domain [U_p, U_n); here the evaluated point of the
      hodograph object is identified with row 1 of CurveEvaluator.derivatives for EVERY u >= U_p (so also at u = U_n, where both
      evaluators use the last span n-1 resp. n-2), and at u = U_n it is the LEFT derivative of the evaluated point of the input
      curve.  Same for the three surfaces of derivative_surface on the closed edges u = U_su and / or v = U_sv.
      The route is algebraic: A2.2 computes the polynomial pieces Nk of the span that the span search returns (bf_model_piece,
      every u), the span search on U[1:-1] returns one less than on U (find_span_trim, every u), and DerivCptsSpec.deriv_cpts_window
      is the identity  sum dNk^(k) P = sum Nk PK_k  between polynomial pieces (every x).
   2. higher hodographs: derivative_curve applied k times (k <= p) is the curve of degree p-k on U[k:-k] whose control points are
      row k of A3.3 and whose evaluated point is row k of CurveEvaluator.derivatives of the ORIGINAL curve.
   3. the normal computed from the hodograph surfaces S_u, S_v is the normal of operations.normal.                                *)
From Coq Require Import List Reals Lra Lia Arith Bool.
From NV Require Import Scalar.Ops Model.Common Model.Basis Model.Knots Model.Eval Model.Degree Model.Derivs
  Proofs.Boehm Proofs.BfN Proofs.BasisR Proofs.BasisOneR Proofs.DerivAnalytic Proofs.EvalR Proofs.DerivLink Proofs.DerivLinkCurve
  Proofs.DersNdu Proofs.DersEq210 Proofs.DersGeneral Proofs.DersGeneralCurve Proofs.DerivsR Proofs.LeibnizRule Proofs.DerivSurface
  Proofs.DerivGeneralInst Proofs.DerivCptsSpec Proofs.DerivsAgreeGeneral Proofs.DerivsAgreeGeneralSurf Proofs.HodographObj.
Import ListNotations.
Open Scope R_scope.

(* ------------------------------------------------------------------------------------------------ *)
(* the linear span search on the trimmed knot vector                                                  *)
Lemma aux_fuel_indep (U : list R) n u : forall f1 f2 span, (n - span <= f1)%nat -> (n - span <= f2)%nat ->
  find_span_linear_aux Rops f1 U n span u = find_span_linear_aux Rops f2 U n span u.
Proof.
  induction f1 as [|f1 IH]; intros f2 span H1 H2.
  - destruct f2 as [|f2]; cbn [find_span_linear_aux]; [reflexivity|].
    destruct (Nat.ltb_spec span n); [lia|]. reflexivity.
  - destruct f2 as [|f2]; cbn [find_span_linear_aux].
    + destruct (Nat.ltb_spec span n); [lia|]. reflexivity.
    + destruct (andb _ _); [apply IH; lia|reflexivity].
Qed.

Lemma aux_trim (U : list R) n u : (1 <= n)%nat -> (n + 1 <= length U)%nat -> forall f span,
  S (find_span_linear_aux Rops f (trim_kv U) (n - 1) span u) = find_span_linear_aux Rops f U n (S span) u.
Proof.
  intros Hn HL. induction f as [|f IH]; intros span; cbn [find_span_linear_aux]; [reflexivity|].
  destruct (Nat.ltb_spec span (n - 1)); destruct (Nat.ltb_spec (S span) n); try lia; cbn [andb]; [|reflexivity].
  rewrite trim_kv_kn by lia. destruct (oleb Rops _ _); [apply IH|reflexivity].
Qed.

(* [G] every real u: the span found on U[1:-1] (degree p-1, n-1 control points) is one less than the span found on U *)
Lemma find_span_trim (U : list R) p n u : (1 <= p)%nat -> (p < n)%nat -> (n + 1 <= length U)%nat ->
  find_span_linear Rops (p - 1) (trim_kv U) (n - 1) u = (find_span_linear Rops p U n u - 1)%nat.
Proof.
  intros Hp1 Hp HL. unfold find_span_linear. replace (S (p - 1)) with p by lia.
  pose proof (aux_trim U n u ltac:(lia) HL (n - 1)%nat p) as E.
  rewrite (aux_fuel_indep U n u (n - 1) n (S p)) in E by lia. lia.
Qed.

(* at and beyond the right end of the domain the span search returns the last span *)
Lemma find_span_at_end (U : list R) p n u : sortedR U -> (p < n)%nat -> (n < length U)%nat -> knR U n <= u ->
  find_span_linear Rops p U n u = (n - 1)%nat.
Proof.
  intros Hs Hp HL Hu. unfold find_span_linear. rewrite find_span_linear_aux_end; try lia.
  intros i Hi. assert (knR U i <= knR U n) by (apply Hs; lia). lra.
Qed.

(* on the half-open span t the span search returns t *)
Lemma find_span_on_span (U : list R) p n t u : sortedR U -> (p < n)%nat -> (n < length U)%nat -> (p <= t < n)%nat ->
  knR U t <= u < knR U (t + 1) -> find_span_linear Rops p U n u = t.
Proof.
  intros Hs Hp HL Ht Hu.
  assert (Hd : knR U p <= u < knR U n).
  { assert (knR U p <= knR U t) by (apply Hs; lia). assert (knR U (t + 1) <= knR U n) by (apply Hs; lia). lra. }
  destruct (span_facts U u p n Hp HL Hd) as [Hk1 Hk2]. set (k := find_span_linear Rops p U n u) in *.
  destruct (Nat.lt_trichotomy k t) as [H|[H|H]]; [exfalso|exact H|exfalso].
  - assert (knR U (k + 1) <= knR U t) by (apply Hs; lia). lra.
  - assert (knR U (t + 1) <= knR U k) by (apply Hs; lia). lra.
Qed.

(* the polynomial pieces only read the knots i .. i+q+1 *)
Lemma Nk_ext_range (V W : nat -> R) s x : forall q i, (forall m, (i <= m <= i + q + 1)%nat -> V m = W m) ->
  Nk V s q i x = Nk W s q i x.
Proof.
  induction q as [|q IH]; intros i H; cbn [Nk]; [reflexivity|].
  rewrite (IH i), (IH (S i)) by (intros m Hm; apply H; lia).
  rewrite (H i), (H (i + S q)%nat), (H (i + S q + 1)%nat), (H (S i)) by lia. reflexivity.
Qed.

(* ------------------------------------------------------------------------------------------------ *)
(* evaluators as polynomial pieces, every real parameter                                              *)
Lemma curve_point_is_piece (U : list R) (P : list (list R)) (p dim : nat) (u : R) :
  wf_net P dim -> (p < length P)%nat -> length U = (length P + p + 1)%nat ->
  length (curve_point Rops dim p U P u) = dim /\
  forall d, (d < dim)%nat ->
    nth d (curve_point Rops dim p U P u) 0 = curve_dk_piece U P p (find_span_linear Rops p U (length P) u) 0 d u.
Proof.
  intros Hwf Hp HL. unfold curve_point.
  pose proof (find_span_range U u p (length P) Hp ltac:(lia)) as Hs.
  set (s := find_span_linear Rops p U (length P) u) in *.
  destruct (curve_point_at_sum dim p P s (basis_function Rops p U s u) Hwf ltac:(lia) ltac:(lia)) as [L Nn].
  cbv zeta in L, Nn. split; [exact L|]. intros d Hd. rewrite Nn by exact Hd. unfold curve_dk_piece.
  apply sumf_ext. intros j Hj. f_equal. cbn [dNk]. apply bf_model_piece; lia.
Qed.

Lemma curve_derivs_row_length (U : list R) (P : list (list R)) (p dim : nat) (u : R) order k :
  wf_net P dim -> (p < length P)%nat -> length U = (length P + p + 1)%nat -> (k <= order)%nat ->
  length (nth k (curve_derivs Rops dim p U P u order) []) = dim.
Proof.
  intros Hwf Hp HL Hk. unfold curve_derivs. rewrite nth_map_seq_g by lia. cbn [Nat.add].
  pose proof (find_span_range U u p (length P) Hp ltac:(lia)) as Hs.
  destruct (Nat.leb k (Nat.min p order)); [|apply vzero_length].
  apply (curve_point_at_sum dim p P _ _ Hwf); lia.
Qed.

(* ------------------------------------------------------------------------------------------------ *)
(* curves                                                                                             *)
Section CurveEnd.
Variables (U : list R) (P : list (list R)) (p dim : nat).
Hypothesis Usorted : sortedR U.
Hypothesis Hwf : wf_net P dim.
Hypothesis Hp1 : (1 <= p)%nat.
Hypothesis Hp : (p < length P)%nat.
Hypothesis HL : length U = (length P + p + 1)%nat.

Notation n := (length P).
Notation Q := (nth 1 (curve_deriv_cpts Rops p U P 0 (Nat.pred (length P)) 1) []).
Notation U' := (trim_kv U).
Notation V := (Ufun U).

Ltac getHQ := destruct (derivative_curve_valid _ _ _ _ Usorted Hwf Hp1 Hp HL) as (LQ & WQ & SU' & LU' & PQ & KN).

(* the polynomial piece of the hodograph on span s-1 of U[1:-1] is the first derivative of the piece of the curve on span s of U:
   an identity of polynomials, every x *)
Lemma hodo_piece_identity s d x : (p <= s < n)%nat -> (d < dim)%nat ->
  curve_dk_piece U' Q (p - 1) (s - 1) 0 d x = curve_dk_piece U P p s 1 d x.
Proof.
  intros Hs Hd. unfold curve_dk_piece.
  rewrite (deriv_cpts_window 1 V p s (fun m => coord P m d) x) by lia.
  apply sumf_ext. intros j Hj.
  replace (s - 1 - (p - 1) + j)%nat with (s - p + j)%nat by lia.
  rewrite (proj2 (hodo_entry U P p dim Hwf Hp1 Hp HL (s - p + j)%nat ltac:(lia)) d Hd).
  f_equal. cbn [dNk].
  rewrite (Nk_ext_range (Ufun U') (shiftV 1 V)).
  - rewrite Nk_shift by lia. f_equal. lia.
  - intros m Hm. unfold shiftV. apply trim_kv_Ufun. lia.
Qed.

(* [G] every u >= U_p - the half-open domain, its closed right end U_n, and beyond: the evaluated point of the hodograph object is
   the first-derivative vector of CurveEvaluator.derivatives at u (any requested order >= 1) *)
Theorem derivative_curve_point_is_derivs_row1_closed u order : knR U p <= u -> (1 <= order)%nat ->
  curve_point Rops dim (Nat.pred p) U' Q u = nth 1 (curve_derivs Rops dim p U P u order) [].
Proof.
  intros Hu Ho. getHQ.
  replace (Nat.pred p) with (p - 1)%nat in * by lia.
  destruct (curve_point_is_piece U' Q (p - 1) dim u WQ PQ LU') as [L Nn].
  pose proof (find_span_range U u p n Hp ltac:(lia)) as Hs.
  apply (nth_ext _ _ 0 0).
  - rewrite L. symmetry. apply curve_derivs_row_length; assumption.
  - intros d Hd. rewrite L in Hd. rewrite Nn by exact Hd.
    rewrite LQ, find_span_trim by lia.
    rewrite hodo_piece_identity by (try exact Hd; lia).
    symmetry. apply curve_derivs_is_piece; assumption.
Qed.

(* coordinates: the first derivative of the polynomial piece of the span found by the span search *)
Corollary derivative_curve_point_is_piece u d : knR U p <= u -> (d < dim)%nat ->
  nth d (curve_point Rops dim (Nat.pred p) U' Q u) 0 = curve_dk_piece U P p (find_span_linear Rops p U n u) 1 d u.
Proof.
  intros Hu Hd. rewrite (derivative_curve_point_is_derivs_row1_closed u 1 Hu ltac:(lia)).
  apply curve_derivs_is_piece; try assumption. lia.
Qed.

(* [G] at the closed right end u = U_n of the domain (last span non-empty, e.g. a knot vector clamped at the end): the point of
   the hodograph object is the LEFT derivative of the evaluated point of the input curve, coordinate-wise *)
Theorem derivative_curve_point_left_derivative_at_end d : (d < dim)%nat -> knR U (n - 1) < knR U n ->
  left_derivable_pt_lim (fun x => nth d (curve_point Rops dim p U P x) 0) (knR U n)
                        (nth d (curve_point Rops dim (Nat.pred p) U' Q (knR U n)) 0).
Proof.
  intros Hd Hne.
  assert (Hpn : knR U p <= knR U (n - 1)) by (apply Usorted; lia).
  rewrite derivative_curve_point_is_piece by (try exact Hd; lra).
  rewrite find_span_at_end by (try assumption; try lia; lra).
  apply (dl_local_left (curve_dk_piece U P p (n - 1) 0 d) _ (knR U (n - 1))); [exact Hne| |apply curve_dk_piece_deriv; exact Usorted].
  intros y Hy. rewrite (proj2 (curve_point_is_piece U P p dim y Hwf Hp HL) d Hd).
  rewrite (find_span_last U P p Usorted Hp HL y Hy). reflexivity.
Qed.

(* the first-derivative vector of the evaluator at U_n is the same left derivative (DersGeneralCurve, k = 0), so all three agree *)

(* [G] clamped end (the last p+1 knots equal U_n): the end tangent is p (P_{n-1} - P_{n-2}) / (U_n - U_{n-1}) *)
Theorem derivative_curve_point_at_clamped_end d : (d < dim)%nat ->
  (forall r, (r <= p)%nat -> knR U (n + r) = knR U n) -> knR U (n - 1) < knR U n ->
  nth d (curve_point Rops dim (Nat.pred p) U' Q (knR U n)) 0
  = INR p * (coord P (n - 1) d - coord P (n - 2) d) / (knR U n - knR U (n - 1)).
Proof.
  intros Hd Hcl Hne. getHQ.
  destruct (clamped_right_end U' Q (Nat.pred p) dim (knR U n) SU' WQ PQ LU') as [_ E].
  - intros r Hr. rewrite LQ, trim_kv_kn by lia. replace (S (n - 1 + r)) with (n + r)%nat by lia. apply Hcl. lia.
  - rewrite LQ, trim_kv_kn by lia. replace (S (n - 1 - 1)) with (n - 1)%nat by lia. exact Hne.
  - cbv zeta in E. rewrite (E d Hd), LQ.
    rewrite (proj2 (hodo_entry U P p dim Hwf Hp1 Hp HL (n - 1 - 1)%nat ltac:(lia)) d Hd).
    rewrite PK_S. cbn [PK]. replace (S (n - 1 - 1)) with (n - 1)%nat by lia. replace (n - 1 - 1)%nat with (n - 2)%nat by lia.
    replace (p - 0)%nat with p by lia.
    rewrite !Ufun_in by lia.
    replace (n - 2 + p + 1)%nat with (n + (p - 1))%nat by lia. rewrite Hcl by lia.
    replace (n - 2 + 0 + 1)%nat with (n - 1)%nat by lia. reflexivity.
Qed.
End CurveEnd.


(* ------------------------------------------------------------------------------------------------ *)
(* 2. higher hodographs: derivative_curve applied k times                                             *)
Fixpoint trim_n (k : nat) (U : list R) : list R := match k with O => U | S k' => trim_kv (trim_n k' U) end.

Fixpoint derivative_curve_iter (k : nat) (c : nat * list R * list (list R)) : nat * list R * list (list R) :=
  match k with
  | O => c
  | S k' => match derivative_curve_iter k' c with (p', U', Q') => derivative_curve Rops p' U' Q' end
  end.

Lemma trim_n_length (U : list R) : forall k, length (trim_n k U) = (length U - 2 * k)%nat.
Proof. induction k as [|k IH]; cbn [trim_n]; [lia|]. rewrite trim_kv_length, IH. lia. Qed.

Section CurveIter.
Variables (U : list R) (P : list (list R)) (p dim : nat).
Hypothesis Usorted : sortedR U.
Hypothesis Hwf : wf_net P dim.
Hypothesis Hp : (p < length P)%nat.
Hypothesis HL : length U = (length P + p + 1)%nat.

Notation n := (length P).
Notation V := (Ufun U).

(* the invariant of the iteration: stage k (k <= p, so that every differentiated stage has degree >= 1) is the curve of degree p-k on
   U[k:-k] with n-k control points = row k of A3.3 (PK k) *)
Definition iter_stage (k : nat) (Qk : list (list R)) : Prop :=
  derivative_curve_iter k (p, U, P) = ((p - k)%nat, trim_n k U, Qk) /\
  length Qk = (n - k)%nat /\ wf_net Qk dim /\ sortedR (trim_n k U) /\
  (forall m, (m + 2 * k < length U)%nat -> Ufun (trim_n k U) m = V (k + m)) /\
  (forall i d, (i < n - k)%nat -> (d < dim)%nat -> coord Qk i d = PK V p (fun m => coord P m d) k i).

Lemma iter_inv : forall k, (k <= p)%nat -> exists Qk, iter_stage k Qk.
Proof.
  induction k as [|k IH]; intros Hk.
  - exists P. unfold iter_stage. cbn [derivative_curve_iter trim_n PK Nat.add].
    rewrite !Nat.sub_0_r. repeat split; try assumption; reflexivity.
  - destruct (IH ltac:(lia)) as (Qk & E & LQ & WQ & SU & UF & CO).
    pose proof (trim_n_length U k) as LU.
    assert (H1 : (1 <= p - k)%nat) by lia.
    assert (H2 : (p - k < length Qk)%nat) by lia.
    assert (H3 : length (trim_n k U) = (length Qk + (p - k) + 1)%nat) by lia.
    destruct (derivative_curve_valid (trim_n k U) Qk (p - k) dim SU WQ H1 H2 H3) as (LQ' & WQ' & SU' & LU' & PQ' & KN').
    exists (nth 1 (curve_deriv_cpts Rops (p - k) (trim_n k U) Qk 0 (Nat.pred (length Qk)) 1) []).
    unfold iter_stage. cbn [derivative_curve_iter trim_n]. rewrite E, derivative_curve_eq.
    split; [f_equal; f_equal; lia|]. split; [lia|]. split; [exact WQ'|]. split; [exact SU'|]. split.
    + intros m Hm. rewrite trim_kv_Ufun by lia. rewrite UF by lia. f_equal. lia.
    + intros i d Hi Hd.
      rewrite (proj2 (hodo_entry (trim_n k U) Qk (p - k) dim WQ H1 H2 H3 i ltac:(lia)) d Hd).
      rewrite !PK_S. cbn [PK]. rewrite !CO by (try exact Hd; lia). rewrite !UF by lia.
      replace (p - k - 0)%nat with (p - k)%nat by lia.
      replace (k + (i + (p - k) + 1))%nat with (i + p + 1)%nat by lia.
      replace (k + (i + 0 + 1))%nat with (i + k + 1)%nat by lia. reflexivity.
Qed.

Lemma find_span_trim_n u : forall k, (k <= p)%nat ->
  find_span_linear Rops (p - k) (trim_n k U) (n - k) u = (find_span_linear Rops p U n u - k)%nat.
Proof.
  induction k as [|k IH]; intros Hk; cbn [trim_n].
  - rewrite !Nat.sub_0_r. reflexivity.
  - pose proof (trim_n_length U k) as LU.
    replace (p - S k)%nat with (p - k - 1)%nat by lia. replace (n - S k)%nat with (n - k - 1)%nat by lia.
    rewrite find_span_trim by lia. rewrite IH by lia. lia.
Qed.

Section Stage.
Variables (k : nat) (Qk : list (list R)).
Hypothesis Hk : (k <= p)%nat.
Hypothesis HS : iter_stage k Qk.

Lemma stage_len : length (trim_n k U) = (length Qk + (p - k) + 1)%nat.
Proof. destruct HS as (_ & LQ & _). rewrite trim_n_length. lia. Qed.

(* polynomial pieces: the piece of stage k on span s-k of U[k:-k] is the k-th derivative of the piece of the curve on span s *)
Lemma iter_piece_identity s d x : (p <= s < n)%nat -> (d < dim)%nat ->
  curve_dk_piece (trim_n k U) Qk (p - k) (s - k) 0 d x = curve_dk_piece U P p s k d x.
Proof.
  intros Hs Hd. destruct HS as (_ & LQ & WQ & SU & UF & CO). unfold curve_dk_piece.
  rewrite (deriv_cpts_window k V p s (fun m => coord P m d) x) by lia.
  apply sumf_ext. intros j Hj.
  replace (s - k - (p - k) + j)%nat with (s - p + j)%nat by lia.
  rewrite CO by (try exact Hd; lia). f_equal. cbn [dNk].
  rewrite (Nk_ext_range (Ufun (trim_n k U)) (shiftV k V)).
  - rewrite Nk_shift by lia. f_equal. lia.
  - intros m Hm. unfold shiftV. apply UF. lia.
Qed.

(* [G] every u >= U_p (half-open domain, closed right end, beyond): the evaluated point of the k-fold hodograph is the k-th derivative
   vector of CurveEvaluator.derivatives of the ORIGINAL curve, any requested order >= k *)
Theorem iter_point_is_derivs_row u order : knR U p <= u -> (k <= order)%nat ->
  curve_point Rops dim (p - k) (trim_n k U) Qk u = nth k (curve_derivs Rops dim p U P u order) [].
Proof.
  intros Hu Ho. pose proof stage_len as LU. destruct HS as (_ & LQ & WQ & SU & UF & CO).
  destruct (curve_point_is_piece (trim_n k U) Qk (p - k) dim u WQ ltac:(lia) LU) as [L Nn].
  pose proof (find_span_range U u p n Hp ltac:(lia)) as Hs.
  apply (nth_ext _ _ 0 0).
  - rewrite L. symmetry. apply curve_derivs_row_length; assumption.
  - intros d Hd. rewrite L in Hd. rewrite Nn by exact Hd.
    rewrite LQ, find_span_trim_n by exact Hk.
    rewrite iter_piece_identity by (try exact Hd; lia).
    symmetry. apply curve_derivs_is_piece; assumption.
Qed.

(* [G] on the half-open domain: = sum_i N^(k)_{i,p}(u) P_i (Eq. 2.9), for the evaluated point and for the Cox-de Boor sum of stage k *)
Theorem iter_point_is_dk u : knR U p <= u < knR U n ->
  length (curve_point Rops dim (p - k) (trim_n k U) Qk u) = dim /\
  (forall d, (d < dim)%nat -> nth d (curve_point Rops dim (p - k) (trim_n k U) Qk u) 0 = curve_dk U p P k d u) /\
  (forall d, (d < dim)%nat -> curve_def (trim_n k U) (p - k) Qk d u = curve_dk U p P k d u).
Proof.
  intros Hu. rewrite (iter_point_is_derivs_row u k ltac:(lra) ltac:(lia)).
  destruct (curve_derivs_is_dN_sum_general U P p dim Usorted Hwf Hp HL u k k Hu ltac:(lia)) as [L Nn]. cbv zeta in L, Nn.
  split; [exact L|]. split; [exact Nn|]. intros d Hd. rewrite <- Nn by exact Hd.
  rewrite <- (iter_point_is_derivs_row u k ltac:(lra) ltac:(lia)).
  pose proof stage_len as LU. destruct HS as (_ & LQ & WQ & SU & UF & CO).
  symmetry. apply (curve_point_is_definition (trim_n k U) Qk (p - k) dim u SU WQ ltac:(lia) LU); [|exact Hd].
  rewrite <- !Ufun_in by (rewrite trim_n_length; lia). rewrite !UF by lia.
  rewrite LQ. replace (k + (p - k))%nat with p by lia. replace (k + (n - k))%nat with n by lia.
  rewrite !Ufun_in by lia. exact Hu.
Qed.

(* [G] analytic meaning, span by span *)
Section Span.
Variable s : nat.
Hypothesis Hs : (p <= s < n)%nat.

Let dom x : knR U s <= x < knR U (s + 1) -> knR U p <= x.
Proof. intros Hx. assert (knR U p <= knR U s) by (apply Usorted; lia). lra. Qed.

(* the point of the k-fold hodograph, as a function of the parameter, is a k-th iterated derivative of the curve on the open span *)
Theorem iter_point_is_kth_derivative d : (d < dim)%nat ->
  kth_deriv_on (knR U s) (knR U (s + 1)) k (fun x => curve_def U p P d x)
               (fun x => nth d (curve_point Rops dim (p - k) (trim_n k U) Qk x) 0).
Proof.
  intros Hd.
  apply (kth_deriv_on_ext _ _ _ _ (fun x => nth d (nth k (curve_derivs Rops dim p U P x k) []) 0)).
  - intros x Hx. rewrite (iter_point_is_derivs_row x k) by first [lia | apply dom; lra]. reflexivity.
  - apply (curve_derivs_is_true_derivative_general U P p dim Usorted Hwf Hp HL s Hs k k d); [lia|exact Hd].
Qed.
End Span.
End Stage.

(* [G] consecutive stages: the point of stage k+1 is the derivative of the point of stage k (two-sided inside a span, right derivative
   on the half-open span, left derivative at the closed right end of the domain) *)
Theorem iter_consecutive k Qk Qk1 : (S k <= p)%nat -> iter_stage k Qk -> iter_stage (S k) Qk1 ->
  forall d, (d < dim)%nat ->
  (forall s u, (p <= s < n)%nat -> knR U s < u < knR U (s + 1) ->
     derivable_pt_lim (fun x => nth d (curve_point Rops dim (p - k) (trim_n k U) Qk x) 0) u
                      (nth d (curve_point Rops dim (p - S k) (trim_n (S k) U) Qk1 u) 0)) /\
  (forall s u, (p <= s < n)%nat -> knR U s <= u < knR U (s + 1) ->
     right_derivable_pt_lim (fun x => nth d (curve_point Rops dim (p - k) (trim_n k U) Qk x) 0) u
                            (nth d (curve_point Rops dim (p - S k) (trim_n (S k) U) Qk1 u) 0)) /\
  (knR U (n - 1) < knR U n ->
     left_derivable_pt_lim (fun x => nth d (curve_point Rops dim (p - k) (trim_n k U) Qk x) 0) (knR U n)
                           (nth d (curve_point Rops dim (p - S k) (trim_n (S k) U) Qk1 (knR U n)) 0)).
Proof.
  intros Hk HS HS1 d Hd.
  assert (dom : forall s x, (p <= s < n)%nat -> knR U s <= x -> knR U p <= x).
  { intros s x Hs Hx. assert (knR U p <= knR U s) by (apply Usorted; lia). lra. }
  split; [|split].
  - intros s u Hs Hu.
    rewrite (iter_point_is_derivs_row (S k) Qk1 Hk HS1 u (S k)) by first [lia | apply (dom s); [exact Hs|lra]].
    apply (dl_local (fun x => nth d (nth k (curve_derivs Rops dim p U P x (S k)) []) 0) _ (knR U s) (knR U (s + 1))); [exact Hu| |].
    + intros y Hy. rewrite (iter_point_is_derivs_row k Qk ltac:(lia) HS y (S k)) by first [lia | apply (dom s); [exact Hs|lra]]. reflexivity.
    + apply (curve_derivs_consecutive_general U P p dim Usorted Hwf Hp HL s Hs (S k) k d u); [lia|exact Hd|exact Hu].
  - intros s u Hs Hu.
    rewrite (iter_point_is_derivs_row (S k) Qk1 Hk HS1 u (S k)) by first [lia | apply (dom s); [exact Hs|lra]].
    apply (rdl_local (fun x => nth d (nth k (curve_derivs Rops dim p U P x (S k)) []) 0) _ (knR U (s + 1))); [lra| |].
    + intros y Hy. rewrite (iter_point_is_derivs_row k Qk ltac:(lia) HS y (S k)) by first [lia | apply (dom s); [exact Hs|lra]]. reflexivity.
    + apply (curve_derivs_right_derivative_general U P p dim Usorted Hwf Hp HL s Hs (S k) k d u); [lia|exact Hd|exact Hu].
  - intros Hne.
    assert (Hpn : knR U p <= knR U (n - 1)) by (apply Usorted; lia).
    rewrite (iter_point_is_derivs_row (S k) Qk1 Hk HS1 (knR U n) (S k)) by (try lia; lra).
    pose proof (curve_derivs_left_derivative_at_end U P p dim Usorted Hwf Hp HL (S k) k d ltac:(lia) Hd Hne) as LD.
    intros eps Heps. destruct (LD eps Heps) as (delta & Hdl & Hq).
    exists (Rmin delta (knR U n - knR U (n - 1))). split; [apply Rmin_pos; lra|].
    intros h Hh Hlt.
    assert (H1 : - delta < h) by (eapply Rle_lt_trans; [|exact Hlt]; apply Ropp_le_contravar, Rmin_l).
    assert (H2 : - (knR U n - knR U (n - 1)) < h) by (eapply Rle_lt_trans; [|exact Hlt]; apply Ropp_le_contravar, Rmin_r).
    rewrite !(iter_point_is_derivs_row k Qk ltac:(lia) HS _ (S k)) by (try lia; lra).
    apply Hq; assumption.
Qed.
End CurveIter.


Lemma trim_n_kn (U : list R) : forall k m, (m + 2 * k < length U)%nat -> knR (trim_n k U) m = knR U (k + m).
Proof.
  induction k as [|k IH]; intros m Hm; cbn [trim_n]; [reflexivity|].
  rewrite trim_kv_kn by (rewrite trim_n_length; lia). rewrite IH by lia. f_equal. lia.
Qed.

Lemma cdc_row_length p kv cpts r1 r k : length (cdc_row p kv cpts r1 r k) = (S r - k)%nat.
Proof. destruct k; cbn [cdc_row]; [unfold cdc_row0|unfold deriv_row]; rewrite map_length, seq_length; lia. Qed.

(* the control points of stage k are row k of helpers.curve_deriv_cpts called with deriv_order = k over the whole polygon *)
Lemma iter_stage_cpts (U : list R) (P : list (list R)) (p dim k : nat) Qk :
  wf_net P dim -> (p < length P)%nat -> length U = (length P + p + 1)%nat -> (k <= p)%nat -> iter_stage U P p dim k Qk ->
  Qk = nth k (curve_deriv_cpts Rops p U P 0 (Nat.pred (length P)) k) [].
Proof.
  intros Hwf Hp HL Hk (_ & LQ & WQ & _ & _ & CO).
  apply (nth_ext _ _ [] []).
  - rewrite cdc_nth, cdc_row_length by lia. lia.
  - intros i Hi. rewrite LQ in Hi.
    destruct (curve_deriv_cpts_is_PK p U P 0 (Nat.pred (length P)) k dim k i) as [L Nn]; try lia.
    { intros j Hj. apply Hwf. lia. }
    cbv zeta in L, Nn. apply (nth_ext _ _ 0 0).
    + rewrite L. apply WQ. lia.
    + intros d Hd. rewrite WQ in Hd by lia. rewrite Nn by exact Hd. apply (CO i d); assumption.
Qed.

(* ---- object level: about what k successive calls of operations.derivative_curve RETURN ---- *)
(* [G] the returned curve: degree p-k, knot vector U[k:-k], control points = row k of A3.3; it is a valid curve *)
Theorem derivative_curve_iter_object_valid (U : list R) (P : list (list R)) (p dim : nat) :
  sortedR U -> wf_net P dim -> (p < length P)%nat -> length U = (length P + p + 1)%nat ->
  forall k, (k <= p)%nat -> forall p' U' Q', derivative_curve_iter k (p, U, P) = (p', U', Q') ->
  (p' = (p - k)%nat /\ U' = trim_n k U /\ Q' = nth k (curve_deriv_cpts Rops p U P 0 (Nat.pred (length P)) k) []) /\
  length Q' = (length P - k)%nat /\ wf_net Q' dim /\ sortedR U' /\ length U' = (length Q' + p' + 1)%nat /\
  (p' < length Q')%nat /\ (forall m, (m < length U')%nat -> knR U' m = knR U (k + m)).
Proof.
  intros Hs Hwf Hp HL k Hk p' U' Q' E.
  destruct (iter_inv U P p dim Hs Hwf Hp HL k Hk) as (Qk & HS).
  pose proof (iter_stage_cpts U P p dim k Qk Hwf Hp HL Hk HS) as EQ.
  destruct HS as (E' & LQ & WQ & SU & UF & CO). rewrite E' in E. injection E as <- <- <-.
  split; [repeat split; exact EQ|]. rewrite trim_n_length.
  repeat split; try assumption; try lia.
  intros m Hm. apply trim_n_kn. lia.
Qed.

(* [G] its evaluated point at every u >= U_p (half-open domain, closed right end U_n, beyond) is the k-th derivative vector of
   CurveEvaluator.derivatives of the ORIGINAL curve; on the half-open domain = sum_i N^(k)_{i,p}(u) P_i, also for its Cox-de Boor sum *)
Theorem derivative_curve_iter_object_value (U : list R) (P : list (list R)) (p dim : nat) :
  sortedR U -> wf_net P dim -> (p < length P)%nat -> length U = (length P + p + 1)%nat ->
  forall k, (k <= p)%nat -> forall p' U' Q', derivative_curve_iter k (p, U, P) = (p', U', Q') ->
  (forall u order, knR U p <= u -> (k <= order)%nat ->
     curve_point Rops dim p' U' Q' u = nth k (curve_derivs Rops dim p U P u order) []) /\
  (forall u, knR U p <= u < knR U (length P) ->
     length (curve_point Rops dim p' U' Q' u) = dim /\
     (forall d, (d < dim)%nat -> nth d (curve_point Rops dim p' U' Q' u) 0 = curve_dk U p P k d u) /\
     (forall d, (d < dim)%nat -> curve_def U' p' Q' d u = curve_dk U p P k d u)).
Proof.
  intros Hs Hwf Hp HL k Hk p' U' Q' E.
  destruct (iter_inv U P p dim Hs Hwf Hp HL k Hk) as (Qk & HS).
  pose proof HS as (E' & _). rewrite E' in E. injection E as <- <- <-. split.
  - intros u order Hu Ho. apply (iter_point_is_derivs_row U P p dim Hs Hwf Hp HL k Qk Hk HS); assumption.
  - intros u Hu. apply (iter_point_is_dk U P p dim Hs Hwf Hp HL k Qk Hk HS). exact Hu.
Qed.

(* [G] analytically: the point of the k-fold hodograph is a k-th iterated derivative of every coordinate of the curve inside each knot
   span; the point of the (k+1)-fold hodograph is the derivative of the point of the k-fold one: two-sided inside the spans, from the
   right on the half-open spans (so at knots), from the left at the closed right end of the domain *)
Theorem derivative_curve_iter_object_true_derivative (U : list R) (P : list (list R)) (p dim : nat) :
  sortedR U -> wf_net P dim -> (p < length P)%nat -> length U = (length P + p + 1)%nat ->
  forall k, (k <= p)%nat -> forall p' U' Q', derivative_curve_iter k (p, U, P) = (p', U', Q') ->
  forall d, (d < dim)%nat ->
  (forall s, (p <= s < length P)%nat ->
     kth_deriv_on (knR U s) (knR U (s + 1)) k (fun x => curve_def U p P d x) (fun x => nth d (curve_point Rops dim p' U' Q' x) 0)) /\
  (forall p'' U'' Q'', (S k <= p)%nat -> derivative_curve Rops p' U' Q' = (p'', U'', Q'') ->
     (forall s u, (p <= s < length P)%nat -> knR U s < u < knR U (s + 1) ->
        derivable_pt_lim (fun x => nth d (curve_point Rops dim p' U' Q' x) 0) u (nth d (curve_point Rops dim p'' U'' Q'' u) 0)) /\
     (forall s u, (p <= s < length P)%nat -> knR U s <= u < knR U (s + 1) ->
        right_derivable_pt_lim (fun x => nth d (curve_point Rops dim p' U' Q' x) 0) u (nth d (curve_point Rops dim p'' U'' Q'' u) 0)) /\
     (knR U (length P - 1) < knR U (length P) ->
        left_derivable_pt_lim (fun x => nth d (curve_point Rops dim p' U' Q' x) 0) (knR U (length P))
                              (nth d (curve_point Rops dim p'' U'' Q'' (knR U (length P))) 0))).
Proof.
  intros Hs Hwf Hp HL k Hk p' U' Q' E d Hd.
  destruct (iter_inv U P p dim Hs Hwf Hp HL k Hk) as (Qk & HS).
  pose proof HS as (E' & _). rewrite E' in E. injection E as <- <- <-. split.
  - intros s Hsp. apply (iter_point_is_kth_derivative U P p dim Hs Hwf Hp HL k Qk Hk HS s Hsp d Hd).
  - intros p'' U'' Q'' Hk1 E1.
    destruct (iter_inv U P p dim Hs Hwf Hp HL (S k) Hk1) as (Qk1 & HS1).
    pose proof HS1 as (E1' & _). cbn [derivative_curve_iter] in E1'. rewrite E', E1 in E1'. injection E1' as -> -> ->.
    exact (iter_consecutive U P p dim Hs Hwf Hp HL k Qk Qk1 Hk1 HS HS1 d Hd).
Qed.

(* ---- the inputs on which the REAL code returns from k successive calls: every differentiated stage j < k has degree p-j >= 2 (the
        library cannot represent degree 0: known finding hodograph-curve-degree-1), and no denominator
        kv_j[i + (p-j) + 1] - kv_j[i + 1] = U[i+p+1] - U[i+j+1], i = 0 .. (n-j)-2, of A3.3 at stage j is zero ---- *)
Definition derivative_curve_iter_code_returns (k p : nat) (U : list R) (n : nat) : Prop :=
  (k <= p - 1)%nat /\ forall j i, (j < k)%nat -> (i + j + 2 <= n)%nat -> knR U (i + p + 1) <> knR U (i + j + 1).

Lemma iter_guard_no_zero_denominator (k p : nat) (U : list R) (n : nat) :
  (p < n)%nat -> length U = (n + p + 1)%nat -> derivative_curve_iter_code_returns k p U n ->
  forall j, (j < k)%nat -> (2 <= p - j)%nat /\
  forall i, (i + 2 <= n - j)%nat -> knR (trim_n j U) (i + (p - j) + 1) - knR (trim_n j U) (i + 1) <> 0.
Proof.
  intros Hp HL [G1 G2] j Hj. split; [lia|]. intros i Hi.
  rewrite !trim_n_kn by lia.
  replace (j + (i + (p - j) + 1))%nat with (i + p + 1)%nat by lia.
  replace (j + (i + 1))%nat with (i + j + 1)%nat by lia.
  intros E. apply (G2 j i Hj ltac:(lia)). lra.
Qed.


(* ------------------------------------------------------------------------------------------------ *)
(* 1b. surfaces: evaluators as tensor products of polynomial pieces, every real (u, v)                *)
(* the (k,l) partial derivative of the polynomial piece of the surface on the span pair (tu, tv) *)
Definition surf_piece (Uu Uv : list R) (pu pv sv : nat) (P : list (list R)) (tu tv k l d : nat) (u v : R) : R :=
  sumf (fun a => sumf (fun b => dNk (Ufun Uu) tu k pu (tu - pu + a) u * dNk (Ufun Uv) tv l pv (tv - pv + b) v
                               * coord P (tv - pv + b + sv * (tu - pu + a)) d) (S pv)) (S pu).

Lemma surf_piece_du Uu Uv pu pv sv P tu tv k l d u v : sortedR Uu ->
  derivable_pt_lim (fun x => surf_piece Uu Uv pu pv sv P tu tv k l d x v) u (surf_piece Uu Uv pu pv sv P tu tv (S k) l d u v).
Proof.
  intros Hs. unfold surf_piece.
  apply (sumf_dl (fun a x => sumf (fun b => dNk (Ufun Uu) tu k pu (tu - pu + a) x * dNk (Ufun Uv) tv l pv (tv - pv + b) v
                                           * coord P (tv - pv + b + sv * (tu - pu + a)) d) (S pv))
                 (fun a => sumf (fun b => dNk (Ufun Uu) tu (S k) pu (tu - pu + a) u * dNk (Ufun Uv) tv l pv (tv - pv + b) v
                                           * coord P (tv - pv + b + sv * (tu - pu + a)) d) (S pv))).
  intros a _.
  apply (sumf_dl (fun b x => dNk (Ufun Uu) tu k pu (tu - pu + a) x * dNk (Ufun Uv) tv l pv (tv - pv + b) v
                             * coord P (tv - pv + b + sv * (tu - pu + a)) d)
                 (fun b => dNk (Ufun Uu) tu (S k) pu (tu - pu + a) u * dNk (Ufun Uv) tv l pv (tv - pv + b) v
                           * coord P (tv - pv + b + sv * (tu - pu + a)) d)).
  intros b _. apply dl_mulc, dl_mulc. apply dNk_deriv. apply Ufun_sorted. exact Hs.
Qed.

Lemma surf_piece_dv Uu Uv pu pv sv P tu tv k l d u v : sortedR Uv ->
  derivable_pt_lim (fun y => surf_piece Uu Uv pu pv sv P tu tv k l d u y) v (surf_piece Uu Uv pu pv sv P tu tv k (S l) d u v).
Proof.
  intros Hs. unfold surf_piece.
  apply (sumf_dl (fun a y => sumf (fun b => dNk (Ufun Uu) tu k pu (tu - pu + a) u * dNk (Ufun Uv) tv l pv (tv - pv + b) y
                                           * coord P (tv - pv + b + sv * (tu - pu + a)) d) (S pv))
                 (fun a => sumf (fun b => dNk (Ufun Uu) tu k pu (tu - pu + a) u * dNk (Ufun Uv) tv (S l) pv (tv - pv + b) v
                                           * coord P (tv - pv + b + sv * (tu - pu + a)) d) (S pv))).
  intros a _.
  apply (sumf_dl (fun b y => dNk (Ufun Uu) tu k pu (tu - pu + a) u * dNk (Ufun Uv) tv l pv (tv - pv + b) y
                             * coord P (tv - pv + b + sv * (tu - pu + a)) d)
                 (fun b => dNk (Ufun Uu) tu k pu (tu - pu + a) u * dNk (Ufun Uv) tv (S l) pv (tv - pv + b) v
                           * coord P (tv - pv + b + sv * (tu - pu + a)) d)).
  intros b _. apply dl_mulc. apply dl_scal. apply dNk_deriv. apply Ufun_sorted. exact Hs.
Qed.

Section SurfPieces.
Variables (Uu Uv : list R) (P : list (list R)) (pu pv su sv dim : nat).
Hypothesis Husorted : sortedR Uu.
Hypothesis Hvsorted : sortedR Uv.
Hypothesis Hwf : wf_net P dim.
Hypothesis HLP : length P = (su * sv)%nat.
Hypothesis Hpu : (pu < su)%nat.
Hypothesis Hpv : (pv < sv)%nat.
Hypothesis HLu : length Uu = (su + pu + 1)%nat.
Hypothesis HLv : length Uv = (sv + pv + 1)%nat.

Notation fsu u := (find_span_linear Rops pu Uu su u).
Notation fsv v := (find_span_linear Rops pv Uv sv v).

(* [G] SurfaceEvaluator.evaluate at every real (u, v): the polynomial piece of the span pair found by the two span searches *)
Lemma surface_point_is_piece u v :
  length (surface_point Rops dim pu pv Uu Uv su sv P u v) = dim /\
  forall d, (d < dim)%nat ->
    nth d (surface_point Rops dim pu pv Uu Uv su sv P u v) 0 = surf_piece Uu Uv pu pv sv P (fsu u) (fsv v) 0 0 d u v.
Proof.
  unfold surface_point.
  pose proof (find_span_range Uu u pu su Hpu ltac:(lia)) as Htu. pose proof (find_span_range Uv v pv sv Hpv ltac:(lia)) as Htv.
  set (tu := fsu u) in *. set (tv := fsv v) in *.
  destruct (surface_point_at_sum dim pu pv sv P tu tv (basis_function Rops pu Uu tu u) (basis_function Rops pv Uv tv v) su
              Hwf HLP Htu Htv) as [L Nn]. cbv zeta in L, Nn.
  split; [exact L|]. intros d Hd. rewrite Nn by exact Hd. unfold surf_piece.
  apply sumf_ext. intros a Ha. rewrite <- sumf_scale. apply sumf_ext. intros b Hb. cbn [dNk].
  rewrite (bf_model_piece Uu u tu pu a) by lia. rewrite (bf_model_piece Uv v tv pv b) by lia. ring.
Qed.

(* [G] SurfaceEvaluator.derivatives at every real (u, v), every order, all k, l <= order: the (k,l) partial of that piece *)
Lemma surface_derivs_is_piece u v order k l : (k <= order)%nat -> (l <= order)%nat ->
  length (get3 (surface_derivs Rops dim pu pv Uu Uv su sv P u v order) k l) = dim /\
  forall d, (d < dim)%nat ->
    nth d (get3 (surface_derivs Rops dim pu pv Uu Uv su sv P u v order) k l) 0
    = surf_piece Uu Uv pu pv sv P (fsu u) (fsv v) k l d u v.
Proof.
  intros Hk Hl. unfold get3, surface_derivs. cbv zeta.
  pose proof (find_span_range Uu u pu su Hpu ltac:(lia)) as Htu. pose proof (find_span_range Uv v pv sv Hpv ltac:(lia)) as Htv.
  set (tu := fsu u) in *. set (tv := fsv v) in *.
  rewrite nth_map_seq_g by lia. cbn [Nat.add].
  destruct (Nat.leb_spec k (Nat.min pu order)) as [Hkd|Hkd].
  - rewrite nth_map_seq_g by lia. cbn [Nat.add].
    destruct (Nat.leb_spec l (Nat.min order (Nat.min pv order))) as [Hld|Hld].
    + set (dersu := basis_function_ders Rops pu Uu tu u (Nat.min pu order)).
      set (dersv := basis_function_ders Rops pv Uv tv v (Nat.min pv order)).
      destruct (surface_tensor_fold dim pu pv su sv P (tu - pu) (tv - pv)
                  (fun r => get2 Rops dersu k r) (fun s => get2 Rops dersv l s) Hwf HLP ltac:(lia) ltac:(lia)) as [HLen Hn].
      cbn zeta in HLen, Hn. split; [exact HLen|]. intros d Hd. rewrite (Hn d Hd).
      assert (Ecu : forall r, (r <= pu)%nat -> get2 Rops dersu k r = dNk (Ufun Uu) tu k pu (tu - pu + r) u).
      { intros r Hr. unfold get2, dersu. apply (ders_general_pieces Uu tu pu Husorted); lia. }
      assert (Ecv : forall s, (s <= pv)%nat -> get2 Rops dersv l s = dNk (Ufun Uv) tv l pv (tv - pv + s) v).
      { intros s Hs. unfold get2, dersv. apply (ders_general_pieces Uv tv pv Hvsorted); lia. }
      unfold surf_piece.
      rewrite (sumf_swap (fun a b => dNk (Ufun Uu) tu k pu (tu - pu + a) u * dNk (Ufun Uv) tv l pv (tv - pv + b) v
                                     * coord P (tv - pv + b + sv * (tu - pu + a)) d) (S pu) (S pv)).
      apply sumf_ext. intros s Hs. rewrite <- sumf_scale. apply sumf_ext. intros r Hr.
      rewrite Ecu, Ecv by lia. ring.
    + split; [apply vzero_length|]. intros d Hd. rewrite vzero_nth. symmetry. unfold surf_piece.
      apply sumf_zero. intros a _. apply sumf_zero. intros b _.
      rewrite (dNk_above_degree (Ufun Uv) tv l pv) by lia. ring.
  - rewrite (nth_indep _ [] (vzero Rops dim)) by (rewrite repeat_length; lia). rewrite DersGeneral.nth_repeat_in by lia.
    split; [apply vzero_length|]. intros d Hd. rewrite vzero_nth. symmetry. unfold surf_piece.
    apply sumf_zero. intros a _. apply sumf_zero. intros b _.
    rewrite (dNk_above_degree (Ufun Uu) tu k pu) by lia. ring.
Qed.
End SurfPieces.


(* ------------------------------------------------------------------------------------------------ *)
(* 1c. the three surfaces of derivative_surface on the closed domain                                  *)
Lemma trimk_length k (U : list R) : (k <= 1)%nat -> length (trimk k U) = (length U - 2 * k)%nat.
Proof. intros Hk. destruct k as [|k]; cbn [trimk]; [lia|]. rewrite trim_kv_length. lia. Qed.

Lemma trimk_sorted k (U : list R) : sortedR U -> sortedR (trimk k U).
Proof. intros Hs. destruct k; cbn [trimk]; [exact Hs|apply trim_kv_sorted; exact Hs]. Qed.

Lemma Nk_trimk k (U : list R) s q i x : (k <= 1)%nat -> (k <= s)%nat -> (i + q + 1 + 2 * k < length U)%nat ->
  Nk (Ufun (trimk k U)) (s - k) q i x = Nk (Ufun U) s q (k + i) x.
Proof.
  intros Hk Hs HL. destruct k as [|k]; cbn [trimk].
  - rewrite Nat.sub_0_r. reflexivity.
  - assert (k = 0)%nat by lia. subst k.
    rewrite (Nk_ext_range (Ufun (trim_kv U)) (shiftV 1 (Ufun U))).
    + apply Nk_shift. exact Hs.
    + intros m Hm. unfold shiftV. apply trim_kv_Ufun. lia.
Qed.

Lemma find_span_trimk k (U : list R) p' n' u : (k <= 1)%nat -> (k <= p')%nat -> (p' < n')%nat -> (n' + 1 <= length U)%nat ->
  find_span_linear Rops (p' - k) (trimk k U) (n' - k) u = (find_span_linear Rops p' U n' u - k)%nat.
Proof.
  intros Hk Hkp Hp HL. destruct k as [|k]; cbn [trimk].
  - rewrite !Nat.sub_0_r. reflexivity.
  - assert (k = 0)%nat by lia. subst k. apply find_span_trim; lia.
Qed.


Lemma find_span_last_gen (U : list R) p n y : sortedR U -> (p < n)%nat -> (n < length U)%nat ->
  knR U (n - 1) < y <= knR U n -> find_span_linear Rops p U n y = (n - 1)%nat.
Proof.
  intros Hs Hp HL Hy. destruct (Rlt_dec y (knR U n)) as [H|H].
  - apply find_span_on_span; try assumption; try lia. replace (n - 1 + 1)%nat with n by lia. lra.
  - apply find_span_at_end; try assumption. lra.
Qed.

Lemma rdl_ext (g f : R -> R) x l : (forall y, g y = f y) -> right_derivable_pt_lim g x l -> right_derivable_pt_lim f x l.
Proof.
  intros E H eps He. destruct (H eps He) as (dl & Hd & Hq). exists dl. split; [exact Hd|].
  intros h H1 H2. rewrite <- !E. apply Hq; assumption.
Qed.

Lemma ldl_ext (g f : R -> R) x l : (forall y, g y = f y) -> left_derivable_pt_lim g x l -> left_derivable_pt_lim f x l.
Proof.
  intros E H eps He. destruct (H eps He) as (dl & Hd & Hq). exists dl. split; [exact Hd|].
  intros h H1 H2. rewrite <- !E. apply Hq; assumption.
Qed.

Section SurfaceEnd.
Variables (Uu Uv : list R) (P : list (list R)) (pu pv su sv dim : nat).
Hypothesis Husorted : sortedR Uu.
Hypothesis Hvsorted : sortedR Uv.
Hypothesis Hwf : wf_net P dim.
Hypothesis HLP : length P = (su * sv)%nat.
Hypothesis Hpu1 : (1 <= pu)%nat.
Hypothesis Hpv1 : (1 <= pv)%nat.
Hypothesis Hpu : (pu < su)%nat.
Hypothesis Hpv : (pv < sv)%nat.
Hypothesis HLu : length Uu = (su + pu + 1)%nat.
Hypothesis HLv : length Uv = (sv + pv + 1)%nat.

Notation Vu := (Ufun Uu).
Notation Vv := (Ufun Uv).
Notation NET k l := (concat (nth l (nth k (surface_deriv_cpts Rops pu pv Uu Uv P su sv 0 (Nat.pred su) 0 (Nat.pred sv) 2) []) [])).
Notation fsu u := (find_span_linear Rops pu Uu su u).
Notation fsv v := (find_span_linear Rops pv Uv sv v).
Notation hodo k l u v := (hodo_point Uu Uv P pu pv su sv dim k l u v).
Notation piece tu tv k l d u v := (surf_piece Uu Uv pu pv sv P tu tv k l d u v).

(* the polynomial piece of the (k,l) hodograph surface on the span pair (tu-k, tv-l) of the trimmed knot vectors is the (k,l) partial
   derivative of the piece of the surface on (tu, tv): an identity of polynomials in (x, y) (Eq. 3.8 in both directions, on pieces) *)
Lemma hodo_surf_piece_identity k l tu tv d x y : (k <= 1)%nat -> (l <= 1)%nat -> (pu <= tu < su)%nat -> (pv <= tv < sv)%nat ->
  (d < dim)%nat ->
  surf_piece (trimk k Uu) (trimk l Uv) (pu - k) (pv - l) (sv - l) (NET k l) (tu - k) (tv - l) 0 0 d x y = piece tu tv k l d x y.
Proof.
  intros Hk Hl Htu Htv Hd.
  destruct (net_kl Uu Uv P pu pv su sv dim Hwf HLP Hpu1 Hpv1 Hpu Hpv HLu HLv k l Hk Hl) as (_ & _ & NC).
  unfold surf_piece at 1.
  transitivity (sumf (fun a => sumf (fun b =>
      Nk Vu tu (pu - k) (tu - pu + k + a) x
      * (Nk Vv tv (pv - l) (tv - pv + l + b) y
         * PK Vv pv (fun c => PK Vu pu (fun m => coord P (c + sv * m) d) k (tu - pu + a)) l (tv - pv + b))) (S (pv - l))) (S (pu - k))).
  { apply sumf_ext. intros a Ha. apply sumf_ext. intros b Hb. cbn [dNk].
    replace (tu - k - (pu - k) + a)%nat with (tu - pu + a)%nat by lia.
    replace (tv - l - (pv - l) + b)%nat with (tv - pv + b)%nat by lia.
    rewrite (Nk_trimk k Uu tu) by lia. rewrite (Nk_trimk l Uv tv) by lia. rewrite NC by lia. unfold PKL_spec.
    replace (k + (tu - pu + a))%nat with (tu - pu + k + a)%nat by lia.
    replace (l + (tv - pv + b))%nat with (tv - pv + l + b)%nat by lia. ring. }
  rewrite (sumf_ext _ (fun a => Nk Vu tu (pu - k) (tu - pu + k + a) x
             * sumf (fun b => dNk Vv tv l pv (tv - pv + b) y * PK Vu pu (fun m => coord P (tv - pv + b + sv * m) d) k (tu - pu + a)) (S pv))).
  2:{ intros a _. rewrite sumf_scale. f_equal. symmetry.
      apply (deriv_cpts_window l Vv pv tv (fun c => PK Vu pu (fun m => coord P (c + sv * m) d) k (tu - pu + a)) y); lia. }
  rewrite (sumf_ext _ (fun a => sumf (fun b => dNk Vv tv l pv (tv - pv + b) y
             * (Nk Vu tu (pu - k) (tu - pu + k + a) x * PK Vu pu (fun m => coord P (tv - pv + b + sv * m) d) k (tu - pu + a))) (S pv))).
  2:{ intros a _. rewrite <- sumf_scale. apply sumf_ext. intros b _. ring. }
  rewrite sumf_swap.
  rewrite (sumf_ext _ (fun b => dNk Vv tv l pv (tv - pv + b) y
             * sumf (fun a => dNk Vu tu k pu (tu - pu + a) x * coord P (tv - pv + b + sv * (tu - pu + a)) d) (S pu))).
  2:{ intros b _. rewrite sumf_scale. f_equal. symmetry.
      apply (deriv_cpts_window k Vu pu tu (fun m => coord P (tv - pv + b + sv * m) d) x); lia. }
  unfold surf_piece.
  rewrite (sumf_swap (fun a b => dNk Vu tu k pu (tu - pu + a) x * dNk Vv tv l pv (tv - pv + b) y
                                 * coord P (tv - pv + b + sv * (tu - pu + a)) d) (S pu) (S pv)).
  apply sumf_ext. intros b _. rewrite <- sumf_scale. apply sumf_ext. intros a _. ring.
Qed.

(* [G] every real (u, v): the evaluated point of the (k,l) hodograph surface object (k, l <= 1; (0,0) is the input net itself) *)
Theorem hodo_point_is_piece k l u v : (k <= 1)%nat -> (l <= 1)%nat ->
  length (hodo k l u v) = dim /\
  forall d, (d < dim)%nat -> nth d (hodo k l u v) 0 = piece (fsu u) (fsv v) k l d u v.
Proof.
  intros Hk Hl.
  destruct (net_kl Uu Uv P pu pv su sv dim Hwf HLP Hpu1 Hpv1 Hpu Hpv HLu HLv k l Hk Hl) as (LC & WC & _).
  pose proof (find_span_range Uu u pu su Hpu ltac:(lia)) as Htu. pose proof (find_span_range Uv v pv sv Hpv ltac:(lia)) as Htv.
  unfold hodo_point.
  destruct (surface_point_is_piece (trimk k Uu) (trimk l Uv) (NET k l) (pu - k) (pv - l) (su - k) (sv - l) dim WC LC
              ltac:(lia) ltac:(lia) ltac:(rewrite trimk_length by exact Hk; lia) ltac:(rewrite trimk_length by exact Hl; lia) u v)
    as [L Nn].
  split; [exact L|]. intros d Hd. rewrite Nn by exact Hd.
  rewrite (find_span_trimk k Uu pu su u) by lia. rewrite (find_span_trimk l Uv pv sv v) by lia.
  apply hodo_surf_piece_identity; assumption.
Qed.

(* [G] every real (u, v) - in particular the closed edges u = U_su, v = U_sv and the corner: the evaluated points of the hodograph
   surface objects are the entries of SurfaceEvaluator.derivatives of the input surface, any requested order >= 1 *)
Theorem hodo_point_is_derivs_entry_closed k l u v order : (k <= 1)%nat -> (l <= 1)%nat -> (1 <= order)%nat ->
  hodo k l u v = get3 (surface_derivs Rops dim pu pv Uu Uv su sv P u v order) k l.
Proof.
  intros Hk Hl Ho. destruct (hodo_point_is_piece k l u v Hk Hl) as [L Nn].
  destruct (surface_derivs_is_piece Uu Uv P pu pv su sv dim Husorted Hvsorted Hwf HLP Hpu Hpv HLu HLv u v order k l
              ltac:(lia) ltac:(lia)) as [L' Nn'].
  apply (nth_ext _ _ 0 0); [congruence|]. intros d Hd. rewrite L in Hd. rewrite Nn, Nn' by exact Hd. reflexivity.
Qed.

(* the (0,0) object is the input surface *)
Lemma hodo_00_is_point u v d : (d < dim)%nat ->
  nth d (hodo 0 0 u v) 0 = nth d (surface_point Rops dim pu pv Uu Uv su sv P u v) 0.
Proof.
  intros Hd. rewrite (proj2 (hodo_point_is_piece 0 0 u v ltac:(lia) ltac:(lia)) d Hd).
  symmetry. apply (surface_point_is_piece Uu Uv P pu pv su sv dim Hwf HLP Hpu Hpv HLu HLv u v). exact Hd.
Qed.

(* ---- analytic meaning on the closed domain: the parameter of the OTHER direction is arbitrary (any real number, in particular the
        closed edge of its domain), the differentiated direction is inside a span / on a half-open span / at the closed right end ---- *)
Lemma hodo_du l d v : (l <= 1)%nat -> (d < dim)%nat ->
  (forall tu u, (pu <= tu < su)%nat -> knR Uu tu < u < knR Uu (tu + 1) ->
     derivable_pt_lim (fun x => nth d (hodo 0 l x v) 0) u (nth d (hodo 1 l u v) 0)) /\
  (forall tu u, (pu <= tu < su)%nat -> knR Uu tu <= u < knR Uu (tu + 1) ->
     right_derivable_pt_lim (fun x => nth d (hodo 0 l x v) 0) u (nth d (hodo 1 l u v) 0)) /\
  (knR Uu (su - 1) < knR Uu su ->
     left_derivable_pt_lim (fun x => nth d (hodo 0 l x v) 0) (knR Uu su) (nth d (hodo 1 l (knR Uu su) v) 0)).
Proof.
  intros Hl Hd.
  assert (V0 : forall x, nth d (hodo 0 l x v) 0 = piece (fsu x) (fsv v) 0 l d x v)
    by (intros x; apply (hodo_point_is_piece 0 l x v); [lia|exact Hl|exact Hd]).
  assert (V1 : forall x, nth d (hodo 1 l x v) 0 = piece (fsu x) (fsv v) 1 l d x v)
    by (intros x; apply (hodo_point_is_piece 1 l x v); [lia|exact Hl|exact Hd]).
  split; [|split].
  - intros tu u Htu Hu. rewrite V1. rewrite (find_span_on_span Uu pu su tu u) by (try assumption; try lia; lra).
    apply (dl_local (fun x => piece tu (fsv v) 0 l d x v) _ (knR Uu tu) (knR Uu (tu + 1))); [exact Hu| |apply surf_piece_du; exact Husorted].
    intros y Hy. rewrite V0. rewrite (find_span_on_span Uu pu su tu y) by (try assumption; try lia; lra). reflexivity.
  - intros tu u Htu Hu. rewrite V1. rewrite (find_span_on_span Uu pu su tu u) by (try assumption; try lia; lra).
    apply (dl_local_right (fun x => piece tu (fsv v) 0 l d x v) _ (knR Uu (tu + 1))); [lra| |apply surf_piece_du; exact Husorted].
    intros y Hy. rewrite V0. rewrite (find_span_on_span Uu pu su tu y) by (try assumption; try lia; lra). reflexivity.
  - intros Hne. rewrite V1. rewrite (find_span_last_gen Uu pu su) by (try assumption; try lia; lra).
    apply (dl_local_left (fun x => piece (su - 1) (fsv v) 0 l d x v) _ (knR Uu (su - 1))); [exact Hne| |apply surf_piece_du; exact Husorted].
    intros y Hy. rewrite V0. rewrite (find_span_last_gen Uu pu su) by (try assumption; try lia; lra). reflexivity.
Qed.

Lemma hodo_dv k d u : (k <= 1)%nat -> (d < dim)%nat ->
  (forall tv v, (pv <= tv < sv)%nat -> knR Uv tv < v < knR Uv (tv + 1) ->
     derivable_pt_lim (fun y => nth d (hodo k 0 u y) 0) v (nth d (hodo k 1 u v) 0)) /\
  (forall tv v, (pv <= tv < sv)%nat -> knR Uv tv <= v < knR Uv (tv + 1) ->
     right_derivable_pt_lim (fun y => nth d (hodo k 0 u y) 0) v (nth d (hodo k 1 u v) 0)) /\
  (knR Uv (sv - 1) < knR Uv sv ->
     left_derivable_pt_lim (fun y => nth d (hodo k 0 u y) 0) (knR Uv sv) (nth d (hodo k 1 u (knR Uv sv)) 0)).
Proof.
  intros Hk Hd.
  assert (V0 : forall y, nth d (hodo k 0 u y) 0 = piece (fsu u) (fsv y) k 0 d u y)
    by (intros y; apply (hodo_point_is_piece k 0 u y); [exact Hk|lia|exact Hd]).
  assert (V1 : forall y, nth d (hodo k 1 u y) 0 = piece (fsu u) (fsv y) k 1 d u y)
    by (intros y; apply (hodo_point_is_piece k 1 u y); [exact Hk|lia|exact Hd]).
  split; [|split].
  - intros tv v Htv Hv. rewrite V1. rewrite (find_span_on_span Uv pv sv tv v) by (try assumption; try lia; lra).
    apply (dl_local (fun y => piece (fsu u) tv k 0 d u y) _ (knR Uv tv) (knR Uv (tv + 1))); [exact Hv| |apply surf_piece_dv; exact Hvsorted].
    intros y Hy. rewrite V0. rewrite (find_span_on_span Uv pv sv tv y) by (try assumption; try lia; lra). reflexivity.
  - intros tv v Htv Hv. rewrite V1. rewrite (find_span_on_span Uv pv sv tv v) by (try assumption; try lia; lra).
    apply (dl_local_right (fun y => piece (fsu u) tv k 0 d u y) _ (knR Uv (tv + 1))); [lra| |apply surf_piece_dv; exact Hvsorted].
    intros y Hy. rewrite V0. rewrite (find_span_on_span Uv pv sv tv y) by (try assumption; try lia; lra). reflexivity.
  - intros Hne. rewrite V1. rewrite (find_span_last_gen Uv pv sv) by (try assumption; try lia; lra).
    apply (dl_local_left (fun y => piece (fsu u) (sv - 1) k 0 d u y) _ (knR Uv (sv - 1))); [exact Hne| |apply surf_piece_dv; exact Hvsorted].
    intros y Hy. rewrite V0. rewrite (find_span_last_gen Uv pv sv) by (try assumption; try lia; lra). reflexivity.
Qed.

(* ---- object level: stated on what operations.derivative_surface RETURNS ---- *)
Section SurfaceObjEnd.
Variables Su Sv Suv : list (list R).
Hypothesis Hret : derivative_surface Rops pu pv Uu Uv su sv P = (Su, Sv, Suv).

Notation SuP u v := (Su_point Uu Uv pu pv su sv dim Su u v).
Notation SvP u v := (Sv_point Uu Uv pu pv su sv dim Sv u v).
Notation SuvP u v := (Suv_point Uu Uv pu pv su sv dim Suv u v).
Notation SP u v := (surface_point Rops dim pu pv Uu Uv su sv P u v).

Lemma Su_is_hodo u v : SuP u v = hodo 1 0 u v.
Proof.
  unfold Su_point, hodo_point. cbn [trimk]. rewrite !Nat.sub_0_r.
  assert (E : Su = NET 1 0) by exact (eq_sym (f_equal (fun t => fst (fst t)) Hret)). rewrite E. reflexivity.
Qed.
Lemma Sv_is_hodo u v : SvP u v = hodo 0 1 u v.
Proof.
  unfold Sv_point, hodo_point. cbn [trimk]. rewrite !Nat.sub_0_r.
  assert (E : Sv = NET 0 1) by exact (eq_sym (f_equal (fun t => snd (fst t)) Hret)). rewrite E. reflexivity.
Qed.
Lemma Suv_is_hodo u v : SuvP u v = hodo 1 1 u v.
Proof.
  unfold Suv_point, hodo_point. cbn [trimk].
  assert (E : Suv = NET 1 1) by exact (eq_sym (f_equal (fun t => snd t) Hret)). rewrite E. reflexivity.
Qed.

(* [G] values at EVERY real (u, v), so on the whole closed domain [U_pu, U_su] x [U_pv, U_sv] with its edges and corners: the three
   objects evaluate to the entries [1][0], [0][1], [1][1] of SurfaceEvaluator.derivatives of the input surface *)
Theorem derivative_surface_points_closed u v order : (1 <= order)%nat ->
  let SKL := surface_derivs Rops dim pu pv Uu Uv su sv P u v order in
  SuP u v = get3 SKL 1 0 /\ SvP u v = get3 SKL 0 1 /\ SuvP u v = get3 SKL 1 1.
Proof.
  intros Ho. cbv zeta. rewrite Su_is_hodo, Sv_is_hodo, Suv_is_hodo.
  repeat split; apply hodo_point_is_derivs_entry_closed; lia.
Qed.

(* [G] u-direction, v ANY real number (in particular the closed edge v = U_sv): S_u is the u-partial of the evaluated point and S_uv the
   u-partial of S_v - two-sided inside a u-span, from the right on the half-open u-span, from the LEFT at the closed edge u = U_su *)
Theorem derivative_surface_partials_u_closed d v : (d < dim)%nat ->
  (forall tu u, (pu <= tu < su)%nat -> knR Uu tu < u < knR Uu (tu + 1) ->
     derivable_pt_lim (fun x => nth d (SP x v) 0) u (nth d (SuP u v) 0) /\
     derivable_pt_lim (fun x => nth d (SvP x v) 0) u (nth d (SuvP u v) 0)) /\
  (forall tu u, (pu <= tu < su)%nat -> knR Uu tu <= u < knR Uu (tu + 1) ->
     right_derivable_pt_lim (fun x => nth d (SP x v) 0) u (nth d (SuP u v) 0) /\
     right_derivable_pt_lim (fun x => nth d (SvP x v) 0) u (nth d (SuvP u v) 0)) /\
  (knR Uu (su - 1) < knR Uu su ->
     left_derivable_pt_lim (fun x => nth d (SP x v) 0) (knR Uu su) (nth d (SuP (knR Uu su) v) 0) /\
     left_derivable_pt_lim (fun x => nth d (SvP x v) 0) (knR Uu su) (nth d (SuvP (knR Uu su) v) 0)).
Proof.
  intros Hd.
  destruct (hodo_du 0 d v ltac:(lia) Hd) as (A0 & B0 & C0). destruct (hodo_du 1 d v ltac:(lia) Hd) as (A1 & B1 & C1).
  split; [|split].
  - intros tu u Htu Hu. rewrite Su_is_hodo, Suv_is_hodo. split.
    + apply (dl_ext (fun x => nth d (hodo 0 0 x v) 0)); [intros x; apply hodo_00_is_point; exact Hd|]. apply (A0 tu); assumption.
    + apply (dl_ext (fun x => nth d (hodo 0 1 x v) 0)); [intros x; rewrite Sv_is_hodo; reflexivity|]. apply (A1 tu); assumption.
  - intros tu u Htu Hu. rewrite Su_is_hodo, Suv_is_hodo. split.
    + apply (rdl_ext (fun x => nth d (hodo 0 0 x v) 0)); [intros x; apply hodo_00_is_point; exact Hd|]. apply (B0 tu); assumption.
    + apply (rdl_ext (fun x => nth d (hodo 0 1 x v) 0)); [intros x; rewrite Sv_is_hodo; reflexivity|]. apply (B1 tu); assumption.
  - intros Hne. rewrite Su_is_hodo, Suv_is_hodo. split.
    + apply (ldl_ext (fun x => nth d (hodo 0 0 x v) 0)); [intros x; apply hodo_00_is_point; exact Hd|]. apply C0; assumption.
    + apply (ldl_ext (fun x => nth d (hodo 0 1 x v) 0)); [intros x; rewrite Sv_is_hodo; reflexivity|]. apply C1; assumption.
Qed.

(* [G] v-direction, u ANY real number (in particular the closed edge u = U_su) *)
Theorem derivative_surface_partials_v_closed d u : (d < dim)%nat ->
  (forall tv v, (pv <= tv < sv)%nat -> knR Uv tv < v < knR Uv (tv + 1) ->
     derivable_pt_lim (fun y => nth d (SP u y) 0) v (nth d (SvP u v) 0) /\
     derivable_pt_lim (fun y => nth d (SuP u y) 0) v (nth d (SuvP u v) 0)) /\
  (forall tv v, (pv <= tv < sv)%nat -> knR Uv tv <= v < knR Uv (tv + 1) ->
     right_derivable_pt_lim (fun y => nth d (SP u y) 0) v (nth d (SvP u v) 0) /\
     right_derivable_pt_lim (fun y => nth d (SuP u y) 0) v (nth d (SuvP u v) 0)) /\
  (knR Uv (sv - 1) < knR Uv sv ->
     left_derivable_pt_lim (fun y => nth d (SP u y) 0) (knR Uv sv) (nth d (SvP u (knR Uv sv)) 0) /\
     left_derivable_pt_lim (fun y => nth d (SuP u y) 0) (knR Uv sv) (nth d (SuvP u (knR Uv sv)) 0)).
Proof.
  intros Hd.
  destruct (hodo_dv 0 d u ltac:(lia) Hd) as (A0 & B0 & C0). destruct (hodo_dv 1 d u ltac:(lia) Hd) as (A1 & B1 & C1).
  split; [|split].
  - intros tv v Htv Hv. rewrite Sv_is_hodo, Suv_is_hodo. split.
    + apply (dl_ext (fun y => nth d (hodo 0 0 u y) 0)); [intros y; apply hodo_00_is_point; exact Hd|]. apply (A0 tv); assumption.
    + apply (dl_ext (fun y => nth d (hodo 1 0 u y) 0)); [intros y; rewrite Su_is_hodo; reflexivity|]. apply (A1 tv); assumption.
  - intros tv v Htv Hv. rewrite Sv_is_hodo, Suv_is_hodo. split.
    + apply (rdl_ext (fun y => nth d (hodo 0 0 u y) 0)); [intros y; apply hodo_00_is_point; exact Hd|]. apply (B0 tv); assumption.
    + apply (rdl_ext (fun y => nth d (hodo 1 0 u y) 0)); [intros y; rewrite Su_is_hodo; reflexivity|]. apply (B1 tv); assumption.
  - intros Hne. rewrite Sv_is_hodo, Suv_is_hodo. split.
    + apply (ldl_ext (fun y => nth d (hodo 0 0 u y) 0)); [intros y; apply hodo_00_is_point; exact Hd|]. apply C0; assumption.
    + apply (ldl_ext (fun y => nth d (hodo 1 0 u y) 0)); [intros y; rewrite Su_is_hodo; reflexivity|]. apply C1; assumption.
Qed.

(* ---- 3. tangent / normal queries of the (non-rational) input surface versus the hodograph surfaces ---- *)
(* the first-order entries of Surface.derivatives (either evaluator family: alg2 = SurfaceEvaluator2) are the hodograph points *)
Lemma Surface_derivatives_first_order normalize alg2 u v skl :
  Surface_derivatives Rops normalize false alg2 dim pu pv Uu Uv su sv P u v 1 = Ok skl ->
  get3 skl 1 0 = SuP u v /\ get3 skl 0 1 = SvP u v /\
  (forall d, (d < dim)%nat -> nth d (get3 skl 0 0) 0 = nth d (SP u v) 0).
Proof.
  unfold Surface_derivatives. destruct (andb normalize _); [discriminate|].
  destruct (derivative_surface_points_closed u v 1 ltac:(lia)) as (E10 & E01 & _). cbv zeta in E10, E01.
  assert (E00 : forall d, (d < dim)%nat ->
            nth d (get3 (surface_derivs Rops dim pu pv Uu Uv su sv P u v 1) 0 0) 0 = nth d (SP u v) 0).
  { intros d Hd.
    rewrite (proj2 (surface_derivs_is_piece Uu Uv P pu pv su sv dim Husorted Hvsorted Hwf HLP Hpu Hpv HLu HLv u v 1 0 0
                      ltac:(lia) ltac:(lia)) d Hd).
    symmetry. apply (surface_point_is_piece Uu Uv P pu pv su sv dim Hwf HLP Hpu Hpv HLu HLv u v). exact Hd. }
  destruct alg2; intros E; injection E as <-.
  - rewrite !(surface_derivs2_eq_surface_derivs Uu Uv P pu pv su sv dim Husorted Hvsorted Hwf HLP Hpu Hpv HLu HLv u v 1) by lia.
    rewrite E10, E01. repeat split. exact E00.
  - rewrite E10, E01. repeat split. exact E00.
Qed.

(* [G] operations.tangent: the two tangent vectors are the points of the hodograph surfaces S_u, S_v at (u, v) *)
Theorem tangent_surface_is_hodograph_points normalize alg2 u v pt Tu Tv :
  tangent_surface Rops normalize false alg2 dim pu pv Uu Uv su sv P u v = Ok (pt, Tu, Tv) ->
  Tu = SuP u v /\ Tv = SvP u v /\ (forall d, (d < dim)%nat -> nth d pt 0 = nth d (SP u v) 0).
Proof.
  unfold tangent_surface.
  destruct (Surface_derivatives Rops normalize false alg2 dim pu pv Uu Uv su sv P u v 1) as [skl| |] eqn:E; try discriminate.
  cbn [res_map]. intros E'. injection E' as <- <- <-.
  destruct (Surface_derivatives_first_order normalize alg2 u v skl E) as (A & B & C). repeat split; assumption.
Qed.

(* [G] operations.normal: the normal vector computed from the hodograph surfaces, cross(S_u(u,v), S_v(u,v)), IS the vector the query
   returns; hence so is the unit normal (unit_sq = what linalg.vector_normalize returns, Rejected for a zero vector) *)
Theorem normal_surface_is_hodograph_cross normalize alg2 u v pt nv :
  normal_surface Rops normalize false alg2 dim pu pv Uu Uv su sv P u v = Ok (pt, nv) ->
  nv = cross Rops (SuP u v) (SvP u v) /\
  unit_sq Rops nv = unit_sq Rops (cross Rops (SuP u v) (SvP u v)) /\
  (forall d, (d < dim)%nat -> nth d pt 0 = nth d (SP u v) 0).
Proof.
  unfold normal_surface.
  destruct (Surface_derivatives Rops normalize false alg2 dim pu pv Uu Uv su sv P u v 1) as [skl| |] eqn:E; try discriminate.
  cbn [res_map]. intros E'. injection E' as <- <-.
  destruct (Surface_derivatives_first_order normalize alg2 u v skl E) as (A & B & C).
  rewrite A, B. repeat split. exact C.
Qed.
End SurfaceObjEnd.
End SurfaceEnd.


(* ================================================================================================ *)
(* object-level statement for curves: about what operations.derivative_curve RETURNS, closed domain   *)
Theorem derivative_curve_object_closed_end (U : list R) (P : list (list R)) (p dim : nat) :
  sortedR U -> wf_net P dim -> (1 <= p)%nat -> (p < length P)%nat -> length U = (length P + p + 1)%nat ->
  forall p' U' Q, derivative_curve Rops p U P = (p', U', Q) ->
  (forall u order, knR U p <= u -> (1 <= order)%nat ->
     curve_point Rops dim p' U' Q u = nth 1 (curve_derivs Rops dim p U P u order) []) /\
  (knR U (length P - 1) < knR U (length P) -> forall d, (d < dim)%nat ->
     left_derivable_pt_lim (fun x => nth d (curve_point Rops dim p U P x) 0) (knR U (length P))
                           (nth d (curve_point Rops dim p' U' Q (knR U (length P))) 0) /\
     ((forall r, (r <= p)%nat -> knR U (length P + r) = knR U (length P)) ->
      nth d (curve_point Rops dim p' U' Q (knR U (length P))) 0
      = INR p * (coord P (length P - 1) d - coord P (length P - 2) d) / (knR U (length P) - knR U (length P - 1)))).
Proof.
  intros Hs Hwf Hp1 Hp HL p' U' Q E. rewrite derivative_curve_eq in E. injection E as <- <- <-. split.
  - intros u order Hu Ho. apply derivative_curve_point_is_derivs_row1_closed; assumption.
  - intros Hne d Hd. split.
    + apply derivative_curve_point_left_derivative_at_end; assumption.
    + intros Hcl. apply derivative_curve_point_at_clamped_end; assumption.
Qed.

(* ------------------------------------------------------------------------------------------------ *)
(* non-vacuity: the hypotheses are satisfiable on non-trivial inputs                                  *)
Local Tactic Notation "sorted_list_tac" integer(n) :=
  let i := fresh "i" in let j := fresh "j" in let H := fresh "H" in
  intros i j [H ?]; cbn [length] in *; unfold kn; cbn [o0 Rops];
  do n (destruct i as [|i]; [do n (destruct j as [|j]; [try lia; cbn [nth]; lra|]); lia|]); lia.

(* a quadratic curve with an interior knot, clamped at the end: all hypotheses of the closed-end theorems hold, and the end tangent
   of the hodograph object is 2 (P_3 - P_2) / (1 - 1/2) *)
Example hodograph_end_hypotheses_satisfiable :
  let U := [0;0;0;1/2;1;1;1] in let P := [[0;0];[1;2];[3;1];[4;0]] in
  sortedR U /\ wf_net P 2 /\ (1 <= 2 < length P)%nat /\ length U = (length P + 2 + 1)%nat /\
  knR U (length P - 1) < knR U (length P) /\ (forall r, (r <= 2)%nat -> knR U (length P + r) = knR U (length P)) /\
  (forall p' U' Q, derivative_curve Rops 2 U P = (p', U', Q) ->
     nth 0 (curve_point Rops 2 p' U' Q 1) 0 = 4 /\ nth 1 (curve_point Rops 2 p' U' Q 1) 0 = -4).
Proof.
  cbv zeta.
  assert (Hs : sortedR [0;0;0;1/2;1;1;1]) by sorted_list_tac 7.
  assert (Hw : wf_net [[0;0];[1;2];[3;1];[4;0]] 2).
  { intros i Hi. cbn in Hi. do 4 (destruct i as [|i]; [reflexivity|]). lia. }
  assert (Hne : knR [0;0;0;1/2;1;1;1] (4 - 1) < knR [0;0;0;1/2;1;1;1] 4) by (unfold kn; cbn; lra).
  assert (Hcl : forall r, (r <= 2)%nat -> knR [0;0;0;1/2;1;1;1] (4 + r) = knR [0;0;0;1/2;1;1;1] 4).
  { intros r Hr. do 3 (destruct r as [|r]; [reflexivity|]). lia. }
  repeat split; try assumption; try (cbn; lia).
  - destruct (derivative_curve_object_closed_end [0;0;0;1/2;1;1;1] [[0;0];[1;2];[3;1];[4;0]] 2 2 Hs Hw ltac:(lia) ltac:(cbn; lia)
                ltac:(reflexivity) p' U' Q H) as (_ & B).
    destruct (B Hne 0%nat ltac:(lia)) as (_ & C). specialize (C Hcl). cbn [length] in C.
    change (knR [0;0;0;1/2;1;1;1] 4) with 1 in C. rewrite C.
    unfold coord, kn. cbn [nth Nat.sub INR o0 Rops]. field.
  - destruct (derivative_curve_object_closed_end [0;0;0;1/2;1;1;1] [[0;0];[1;2];[3;1];[4;0]] 2 2 Hs Hw ltac:(lia) ltac:(cbn; lia)
                ltac:(reflexivity) p' U' Q H) as (_ & B).
    destruct (B Hne 1%nat ltac:(lia)) as (_ & C). specialize (C Hcl). cbn [length] in C.
    change (knR [0;0;0;1/2;1;1;1] 4) with 1 in C. rewrite C.
    unfold coord, kn. cbn [nth Nat.sub INR o0 Rops]. field.
Qed.

(* a cubic with an interior knot differentiated twice: the guard under which the real code returns holds, and the second hodograph
   is a valid curve of degree 1 on U[2:-2] with 3 control points *)
Example hodograph_iter_hypotheses_satisfiable :
  let U := [0;0;0;0;1/2;1;1;1;1] in let P := [[0;0];[1;2];[3;1];[4;0];[5;5]] in
  sortedR U /\ wf_net P 2 /\ (3 < length P)%nat /\ length U = (length P + 3 + 1)%nat /\
  derivative_curve_iter_code_returns 2 3 U (length P) /\
  (forall p' U' Q', derivative_curve_iter 2 (3%nat, U, P) = (p', U', Q') -> p' = 1%nat /\ length Q' = 3%nat /\ length U' = 5%nat).
Proof.
  cbv zeta.
  assert (Hs : sortedR [0;0;0;0;1/2;1;1;1;1]) by sorted_list_tac 9.
  assert (Hw : wf_net [[0;0];[1;2];[3;1];[4;0];[5;5]] 2).
  { intros i Hi. cbn in Hi. do 5 (destruct i as [|i]; [reflexivity|]). lia. }
  repeat split; try assumption; try (cbn; lia).
  - intros j i Hj Hi. cbn [length] in Hi.
    assert (j = 0 \/ j = 1)%nat as [-> | ->] by lia.
    + assert (i = 0 \/ i = 1 \/ i = 2 \/ i = 3)%nat as [-> | [-> | [-> | ->]]] by lia; unfold kn; cbn; lra.
    + assert (i = 0 \/ i = 1 \/ i = 2)%nat as [-> | [-> | ->]] by lia; unfold kn; cbn; lra.
  - destruct (derivative_curve_iter_object_valid _ _ 3 2 Hs Hw ltac:(cbn; lia) ltac:(reflexivity) 2 ltac:(lia) p' U' Q' H) as ((A & _) & _).
    exact A.
  - destruct (derivative_curve_iter_object_valid _ _ 3 2 Hs Hw ltac:(cbn; lia) ltac:(reflexivity) 2 ltac:(lia) p' U' Q' H) as (_ & B & _).
    exact B.
  - destruct (derivative_curve_iter_object_valid _ _ 3 2 Hs Hw ltac:(cbn; lia) ltac:(reflexivity) 2 ltac:(lia) p' U' Q' H)
      as ((A & _) & B & _ & _ & C & _). rewrite C, B, A. reflexivity.
Qed.

(* a biquadratic 3 x 4 surface: hypotheses of the closed-domain surface theorems, last spans non-empty *)
Example hodograph_surface_end_hypotheses_satisfiable :
  let Uu := [0;0;0;1;1;1] in let Uv := [0;0;0;1/2;1;1;1] in
  let P := [[0;0;0];[0;1;1];[0;2;0];[0;3;2]; [1;0;1];[1;1;3];[1;2;1];[1;3;0]; [2;0;0];[2;1;1];[2;2;2];[2;3;1]] in
  sortedR Uu /\ sortedR Uv /\ wf_net P 3 /\ length P = (3 * 4)%nat /\ (1 <= 2 < 3)%nat /\ (1 <= 2 < 4)%nat /\
  length Uu = (3 + 2 + 1)%nat /\ length Uv = (4 + 2 + 1)%nat /\
  knR Uu (3 - 1) < knR Uu 3 /\ knR Uv (4 - 1) < knR Uv 4 /\ derivative_surface_code_returns 2 2 Uu Uv 3 4.
Proof.
  cbv zeta.
  assert (Hsu : sortedR [0;0;0;1;1;1]) by sorted_list_tac 6.
  assert (Hsv : sortedR [0;0;0;1/2;1;1;1]) by sorted_list_tac 7.
  repeat split; try assumption; try (cbn; lia); try (unfold kn; cbn; lra).
  - intros i Hi. cbn in Hi. do 12 (destruct i as [|i]; [reflexivity|]). lia.
  - intros i Hi. assert (i = 0)%nat by lia. subst i. unfold kn. cbn. lra.
  - intros i Hi. assert (i = 0 \/ i = 1)%nat as [-> | ->] by lia; unfold kn; cbn; lra.
Qed.

Check derivative_curve_object_closed_end.
Check derivative_curve_iter_object_valid.
Check derivative_curve_iter_object_value.
Check derivative_curve_iter_object_true_derivative.
Check iter_guard_no_zero_denominator.
Check derivative_surface_points_closed.
Check derivative_surface_partials_u_closed.
Check derivative_surface_partials_v_closed.
Check tangent_surface_is_hodograph_points.
Check normal_surface_is_hodograph_cross.
Print Assumptions derivative_curve_object_closed_end.
Print Assumptions derivative_curve_iter_object_valid.
Print Assumptions derivative_curve_iter_object_value.
Print Assumptions derivative_curve_iter_object_true_derivative.
Print Assumptions iter_guard_no_zero_denominator.
Print Assumptions derivative_surface_points_closed.
Print Assumptions derivative_surface_partials_u_closed.
Print Assumptions derivative_surface_partials_v_closed.
Print Assumptions tangent_surface_is_hodograph_points.
Print Assumptions normal_surface_is_hodograph_cross.
Print Assumptions hodograph_end_hypotheses_satisfiable.
