(* Pure real analysis: the general Leibniz rule for iterated derivatives of a product, and its converse for
   quotients ("the Leibniz recursion determines the derivatives of a/w").

   Everything is proved once for an abstract notion of derivative  D x f l  ("f has derivative l at x") on a set I,
   assuming only the usual rules (locality, constants, sum, product, quotient, uniqueness), and then instantiated
     - with the standard library's two-sided [derivable_pt_lim] on an open interval (lo,hi), and
     - with the one-sided [right_derivable_pt_lim] (Proofs/DerivAnalytic.v) on a half-open interval [lo,hi).
   The binomial coefficient is [binom] of Model/Degree.v (the number linalg.binomial_coefficient returns and the
   one the model's A4.2 / A4.4 use). *)
From Coq Require Import Reals Lra Lia Arith.
From NV Require Import Model.Degree Proofs.Boehm Proofs.DerivAnalytic.
Open Scope R_scope.

(* ------------------------------------------------------------------------------------------------ *)
(* finite sums and binomials                                                                         *)
Lemma sumf_S0 f n : sumf f (S n) = f 0%nat + sumf (fun i => f (S i)) n.
Proof. induction n as [|n IH]; [cbn; lra|]. cbn [sumf] in *. rewrite IH. lra. Qed.

Lemma sumf_add f g n : sumf (fun i => f i + g i) n = sumf f n + sumf g n.
Proof. induction n as [|n IH]; cbn [sumf]; [lra|]. rewrite IH. lra. Qed.

Lemma sumf_0 n : sumf (fun _ => 0) n = 0.
Proof. induction n as [|n IH]; cbn [sumf]; [reflexivity|]. rewrite IH. lra. Qed.

Lemma binom_0r k : binom k 0 = 1%nat.
Proof. destruct k; reflexivity. Qed.
Lemma binom_SS k i : binom (S k) (S i) = (binom k i + binom k (S i))%nat.
Proof. reflexivity. Qed.
Lemma binom_gt : forall k i, (k < i)%nat -> binom k i = 0%nat.
Proof.
  induction k as [|k IH]; intros [|i] H; try lia; [reflexivity|].
  rewrite binom_SS, !IH by lia. reflexivity.
Qed.

(* the Leibniz sum of two sequences *)
Definition leib (k : nat) (W C : nat -> R) : R := sumf (fun i => INR (binom k i) * W i * C (k - i)%nat) (S k).

Lemma leib_0 W C : leib 0 W C = W 0%nat * C 0%nat.
Proof. unfold leib. cbn. lra. Qed.

(* split off the i = 0 term *)
Lemma leib_split k W C : leib k W C = W 0%nat * C k + sumf (fun i => INR (binom k (S i)) * W (S i) * C (k - S i)%nat) k.
Proof. unfold leib. rewrite sumf_S0, binom_0r, Nat.sub_0_r. cbn [INR]. lra. Qed.

Lemma leib_ext k W W' C C' : (forall i, (i <= k)%nat -> W i = W' i) -> (forall i, (i <= k)%nat -> C i = C' i) ->
  leib k W C = leib k W' C'.
Proof. intros HW HC. unfold leib. apply sumf_ext. intros i Hi. rewrite HW, HC by lia. reflexivity. Qed.

(* Pascal's rule, summed: the term-wise "product rule" applied to the k-th Leibniz sum is the (k+1)-th Leibniz sum *)
Lemma leib_pascal k (W C : nat -> R) :
  sumf (fun i => INR (binom k i) * (W (S i) * C (k - i)%nat + W i * C (S (k - i)))) (S k) = leib (S k) W C.
Proof.
  rewrite leib_split.
  rewrite (sumf_ext (fun i => INR (binom (S k) (S i)) * W (S i) * C (S k - S i)%nat)
                    (fun i => INR (binom k i) * W (S i) * C (k - i)%nat + INR (binom k (S i)) * W (S i) * C (k - i)%nat)).
  2:{ intros i _. rewrite binom_SS, plus_INR. replace (S k - S i)%nat with (k - i)%nat by lia. ring. }
  rewrite sumf_add.
  rewrite (sumf_ext (fun i => INR (binom k i) * (W (S i) * C (k - i)%nat + W i * C (S (k - i))))
                    (fun i => INR (binom k i) * W (S i) * C (k - i)%nat + INR (binom k i) * W i * C (S (k - i))))
    by (intros; ring).
  rewrite sumf_add.
  rewrite (sumf_S0 (fun i => INR (binom k i) * W i * C (S (k - i)))), binom_0r, Nat.sub_0_r. cbn [INR].
  assert (E : sumf (fun i => INR (binom k (S i)) * W (S i) * C (k - i)%nat) (S k)
            = sumf (fun i => INR (binom k (S i)) * W (S i) * C (S (k - S i))) k).
  { cbn [sumf]. rewrite (binom_gt k (S k)) by lia. cbn [INR].
    rewrite (sumf_ext _ (fun i => INR (binom k (S i)) * W (S i) * C (S (k - S i)))).
    - ring.
    - intros i Hi. replace (S (k - S i)) with (k - i)%nat by lia. reflexivity. }
  rewrite E. ring.
Qed.

(* ------------------------------------------------------------------------------------------------ *)
(* an abstract derivative                                                                            *)
Section Derivation.
Variable I : R -> Prop.                       (* the set on which the functions are considered *)
Variable D : R -> (R -> R) -> R -> Prop.      (* D x f l : f has derivative l at x *)
Hypothesis D_ext : forall x f g l, I x -> (forall y, I y -> f y = g y) -> D x f l -> D x g l.
Hypothesis D_const : forall x c, D x (fun _ => c) 0.
Hypothesis D_plus : forall x f g l1 l2, D x f l1 -> D x g l2 -> D x (fun y => f y + g y) (l1 + l2).
Hypothesis D_mult : forall x f g l1 l2, D x f l1 -> D x g l2 -> D x (fun y => f y * g y) (l1 * g x + f x * l2).
Hypothesis D_div : forall x f g l1 l2, D x f l1 -> D x g l2 -> g x <> 0 ->
  D x (fun y => f y / g y) ((l1 * g x - l2 * f x) / Rsqr (g x)).
Hypothesis D_unique : forall x f l1 l2, D x f l1 -> D x f l2 -> l1 = l2.

Lemma D_eq x f l l' : l = l' -> D x f l -> D x f l'.
Proof. intros ->. exact (fun H => H). Qed.

Lemma D_sum x (f : nat -> R -> R) (f' : nat -> R) m :
  (forall i, (i < m)%nat -> D x (f i) (f' i)) -> D x (fun y => sumf (fun i => f i y) m) (sumf f' m).
Proof.
  induction m as [|m IH]; intros H; cbn [sumf].
  - apply D_const.
  - apply (D_plus x (fun y => sumf (fun i => f i y) m) (f m)).
    + apply IH. intros i Hi. apply H. lia.
    + apply H. lia.
Qed.

Lemma D_term x b (wf cf : R -> R) w' c' :
  D x wf w' -> D x cf c' -> D x (fun y => b * wf y * cf y) (b * (w' * cf x + wf x * c')).
Proof.
  intros Hw Hc.
  apply D_eq with ((0 * wf x + b * w') * cf x + (b * wf x) * c'); [ring|].
  apply (D_mult x (fun y => b * wf y) cf); [|exact Hc].
  apply (D_mult x (fun _ => b) wf); [apply D_const|exact Hw].
Qed.

(* derivative of a Leibniz sum of functions, term by term *)
Lemma D_leib x k (w c : nat -> R -> R) (w' c' : nat -> R) :
  (forall i, (i <= k)%nat -> D x (w i) (w' i)) -> (forall j, (j <= k)%nat -> D x (c j) (c' j)) ->
  D x (fun y => leib k (fun i => w i y) (fun j => c j y))
      (sumf (fun i => INR (binom k i) * (w' i * c (k - i)%nat x + w i x * c' (k - i)%nat)) (S k)).
Proof.
  intros Hw Hc. unfold leib.
  apply (D_sum x (fun i y => INR (binom k i) * w i y * c (k - i)%nat y)).
  intros i Hi. apply D_term; [apply Hw|apply Hc]; lia.
Qed.

(* ---- 1a. the general Leibniz rule: derivatives of a product ---- *)
Theorem leibniz_rule_gen (n : nat) (a w c : nat -> R -> R) :
  (forall k x, (k < n)%nat -> I x -> D x (a k) (a (S k) x)) ->
  (forall k x, (k < n)%nat -> I x -> D x (w k) (w (S k) x)) ->
  (forall k x, (k < n)%nat -> I x -> D x (c k) (c (S k) x)) ->
  (forall x, I x -> a 0%nat x = w 0%nat x * c 0%nat x) ->
  forall k, (k <= n)%nat -> forall x, I x -> a k x = leib k (fun i => w i x) (fun j => c j x).
Proof.
  intros Ha Hw Hc H0. induction k as [|k IH]; intros Hk x Hx.
  - rewrite leib_0. apply H0, Hx.
  - assert (HL : D x (a k) (leib (S k) (fun i => w i x) (fun j => c j x))).
    { apply (D_ext x (fun y => leib k (fun i => w i y) (fun j => c j y))); [exact Hx| |].
      - intros y Hy. symmetry. apply IH; [lia|exact Hy].
      - rewrite <- leib_pascal.
        apply (D_leib x k w c (fun i => w (S i) x) (fun j => c (S j) x)).
        + intros i Hi. apply Hw; [lia|exact Hx].
        + intros j Hj. apply Hc; [lia|exact Hx]. }
    apply (D_unique x (a k)); [apply Ha; [lia|exact Hx]|exact HL].
Qed.

(* ---- 1b. the converse for quotients: a family c that satisfies the Leibniz recursion against the true
        derivative families of a and w (w nowhere zero on I) is the derivative family of c_0 = a/w.  Pointwise in x. ---- *)
Theorem quotient_derivatives_gen (n : nat) (a w c : nat -> R -> R) (x : R) :
  I x ->
  (forall k, (k < n)%nat -> D x (a k) (a (S k) x)) ->
  (forall k, (k < n)%nat -> D x (w k) (w (S k) x)) ->
  (forall y, I y -> w 0%nat y <> 0) ->
  (forall k y, (k <= n)%nat -> I y -> leib k (fun i => w i y) (fun j => c j y) = a k y) ->
  forall k, (k < n)%nat -> D x (c k) (c (S k) x).
Proof.
  intros Hx Ha Hw Hw0 Hrec k. induction k as [k IH] using lt_wf_ind. intros Hk.
  (* step 1: c k is derivable at x (as the solution of the k-th recursion equation) *)
  assert (Hex : exists l, D x (c k) l).
  { eexists.
    apply (D_ext x (fun y => (a k y + (-1) * sumf (fun i => INR (binom k (S i)) * w (S i) y * c (k - S i)%nat y) k) / w 0%nat y));
      [exact Hx| |].
    - intros y Hy. rewrite <- (Hrec k y) by (try lia; exact Hy). rewrite leib_split. field. apply Hw0, Hy.
    - apply D_div; [|apply Hw; lia|apply Hw0, Hx].
      apply (D_plus x (a k)); [apply Ha; lia|].
      apply (D_mult x (fun _ => -1)); [apply D_const|].
      apply (D_sum x (fun i y => INR (binom k (S i)) * w (S i) y * c (k - S i)%nat y)
                     (fun i => INR (binom k (S i)) * (w (S (S i)) x * c (k - S i)%nat x + w (S i) x * c (S (k - S i)) x))).
      intros i Hi. apply D_term; [apply Hw; lia|apply IH; lia]. }
  destruct Hex as [l Hl].
  (* step 2: differentiate the k-th equation and compare with the (k+1)-th *)
  set (C := fun j => if (j <=? k)%nat then c j x else l).
  assert (HC : forall j, (j <= k)%nat -> C j = c j x).
  { intros j Hj. unfold C. destruct (Nat.leb_spec j k); [reflexivity|lia]. }
  assert (HCS : C (S k) = l).
  { unfold C. destruct (Nat.leb_spec (S k) k); [lia|reflexivity]. }
  assert (Hc' : forall j, (j <= k)%nat -> D x (c j) (C (S j))).
  { intros j Hj. destruct (Nat.eq_dec j k) as [->|Hne].
    - rewrite HCS. exact Hl.
    - rewrite HC by lia. apply IH; lia. }
  assert (HL : D x (a k) (leib (S k) (fun i => w i x) C)).
  { apply (D_ext x (fun y => leib k (fun i => w i y) (fun j => c j y))); [exact Hx| |].
    - intros y Hy. apply Hrec; [lia|exact Hy].
    - rewrite <- leib_pascal.
      apply D_eq with (sumf (fun i => INR (binom k i) * (w (S i) x * c (k - i)%nat x + w i x * C (S (k - i)))) (S k)).
      + apply sumf_ext. intros i Hi. rewrite (HC (k - i)%nat) by lia. reflexivity.
      + apply (D_leib x k w c (fun i => w (S i) x) (fun j => C (S j))); [|exact Hc'].
        intros i Hi. apply Hw. lia. }
  pose proof (D_unique x (a k) _ _ (Ha k Hk) HL) as E.
  rewrite <- (Hrec (S k) x) in E by (try lia; exact Hx).
  rewrite !leib_split, HCS in E.
  rewrite (sumf_ext (fun i => INR (binom (S k) (S i)) * w (S i) x * C (S k - S i)%nat)
                    (fun i => INR (binom (S k) (S i)) * w (S i) x * c (S k - S i)%nat x)) in E
    by (intros i Hi; rewrite HC by lia; reflexivity).
  assert (El : c (S k) x = l).
  { apply (Rmult_eq_reg_l (w 0%nat x)); [lra|apply Hw0, Hx]. }
  rewrite El. exact Hl.
Qed.

(* ---- 2. two variables: the same for a doubly indexed family (mixed partial derivatives), differentiating in the first
        index; the second variable is a parameter hidden in the functions.  Hypothesis: the two-variable Leibniz identity
        sum_j C(l,j) sum_i C(k,i) w_{i,j} c_{k-i,l-j} = a_{k,l}. ---- *)
Lemma D_scal x b f l : D x f l -> D x (fun y => b * f y) (b * l).
Proof.
  intros H. apply D_eq with (0 * f x + b * l); [ring|].
  apply (D_mult x (fun _ => b) f); [apply D_const|exact H].
Qed.

Lemma D_leib_step x k (w c : nat -> R -> R) :
  (forall i, (i <= k)%nat -> D x (w i) (w (S i) x)) -> (forall j, (j <= k)%nat -> D x (c j) (c (S j) x)) ->
  D x (fun y => leib k (fun i => w i y) (fun j => c j y)) (leib (S k) (fun i => w i x) (fun j => c j x)).
Proof.
  intros Hw Hc. rewrite <- leib_pascal.
  exact (D_leib x k w c (fun i => w (S i) x) (fun j => c (S j) x) Hw Hc).
Qed.

Theorem quotient2_derivatives_gen (n : nat) (a w c : nat -> nat -> R -> R) (x : R) :
  I x ->
  (forall k l, (k < n)%nat -> (l <= n)%nat -> D x (a k l) (a (S k) l x)) ->
  (forall k l, (k < n)%nat -> (l <= n)%nat -> D x (w k l) (w (S k) l x)) ->
  (forall y, I y -> w 0%nat 0%nat y <> 0) ->
  (forall k l y, (k <= n)%nat -> (l <= n)%nat -> I y ->
     sumf (fun j => INR (binom l j) * leib k (fun i => w i j y) (fun i => c i (l - j)%nat y)) (S l) = a k l y) ->
  forall l, (l <= n)%nat -> forall k, (k < n)%nat -> D x (c k l) (c (S k) l x).
Proof.
  intros Hx Ha Hw Hw0 Hrec l. induction l as [l IH] using lt_wf_ind. intros Hl k Hk.
  set (b := fun k y => a k l y + (-1) * sumf (fun j => INR (binom l (S j)) * leib k (fun i => w i (S j) y) (fun i => c i (l - S j)%nat y)) l).
  apply (quotient_derivatives_gen n b (fun i => w i 0%nat) (fun i => c i l) x Hx).
  - intros k' Hk'. unfold b.
    apply (D_plus x (a k' l)); [apply Ha; assumption|]. apply D_scal.
    apply (D_sum x (fun j y => INR (binom l (S j)) * leib k' (fun i => w i (S j) y) (fun i => c i (l - S j)%nat y))
                   (fun j => INR (binom l (S j)) * leib (S k') (fun i => w i (S j) x) (fun i => c i (l - S j)%nat x))).
    intros j Hj. apply D_scal.
    apply (D_leib_step x k' (fun i => w i (S j)) (fun i => c i (l - S j)%nat)).
    + intros i Hi. apply Hw; lia.
    + intros i Hi. apply IH; lia.
  - intros k' Hk'. apply Hw; lia.
  - exact Hw0.
  - intros k' y Hk' Hy. unfold b. rewrite <- (Hrec k' l y Hk' Hl Hy).
    rewrite (sumf_S0 _ l), binom_0r, Nat.sub_0_r. cbn [INR]. ring.
  - exact Hk.
Qed.
End Derivation.

(* ------------------------------------------------------------------------------------------------ *)
(* instance 1: two-sided derivatives on an open interval                                             *)
Section OpenInterval.
Variables lo hi : R.
Let I (y : R) : Prop := lo < y < hi.
Let D (x : R) (f : R -> R) (l : R) : Prop := derivable_pt_lim f x l.

Let D_ext : forall x f g l, I x -> (forall y, I y -> f y = g y) -> D x f l -> D x g l.
Proof. intros x f g l Hx E H. exact (dl_local f g lo hi x l Hx E H). Qed.
Let D_div : forall x f g l1 l2, D x f l1 -> D x g l2 -> g x <> 0 ->
  D x (fun y => f y / g y) ((l1 * g x - l2 * f x) / Rsqr (g x)).
Proof. intros x f g l1 l2 H1 H2 H0. exact (derivable_pt_lim_div f g x l1 l2 H1 H2 H0). Qed.

(* [G] Leibniz rule: a = w * c on (lo,hi), with (a_k), (w_k), (c_k) the iterated derivatives (k <= n) *)
Theorem leibniz_rule (n : nat) (a w c : nat -> R -> R) :
  (forall k x, (k < n)%nat -> lo < x < hi -> derivable_pt_lim (a k) x (a (S k) x)) ->
  (forall k x, (k < n)%nat -> lo < x < hi -> derivable_pt_lim (w k) x (w (S k) x)) ->
  (forall k x, (k < n)%nat -> lo < x < hi -> derivable_pt_lim (c k) x (c (S k) x)) ->
  (forall x, lo < x < hi -> a 0%nat x = w 0%nat x * c 0%nat x) ->
  forall k, (k <= n)%nat -> forall x, lo < x < hi ->
    a k x = sumf (fun i => INR (binom k i) * w i x * c (k - i)%nat x) (S k).
Proof.
  exact (leibniz_rule_gen I D D_ext (fun x c => derivable_pt_lim_const c x)
           (fun x f g => derivable_pt_lim_plus f g x) (fun x f g => derivable_pt_lim_mult f g x)
           (fun x f => uniqueness_limite f x) n a w c).
Qed.

(* [G] quotients: the Leibniz recursion characterises the derivatives of a/w *)
Theorem quotient_derivatives_unique (n : nat) (a w c : nat -> R -> R) :
  (forall k x, (k < n)%nat -> lo < x < hi -> derivable_pt_lim (a k) x (a (S k) x)) ->
  (forall k x, (k < n)%nat -> lo < x < hi -> derivable_pt_lim (w k) x (w (S k) x)) ->
  (forall x, lo < x < hi -> w 0%nat x <> 0) ->
  (forall k x, (k <= n)%nat -> lo < x < hi ->
     sumf (fun i => INR (binom k i) * w i x * c (k - i)%nat x) (S k) = a k x) ->
  forall k x, (k < n)%nat -> lo < x < hi -> derivable_pt_lim (c k) x (c (S k) x).
Proof.
  intros Ha Hw Hw0 Hrec k x Hk Hx.
  apply (quotient_derivatives_gen I D D_ext (fun x c => derivable_pt_lim_const c x)
           (fun x f g => derivable_pt_lim_plus f g x) (fun x f g => derivable_pt_lim_mult f g x) D_div
           (fun x f => uniqueness_limite f x) n a w c x Hx); try assumption.
  - intros j Hj. apply Ha; assumption.
  - intros j Hj. apply Hw; assumption.
Qed.

(* the same as an iterated-derivative statement: c_k is a k-th derivative of a_0 / w_0 on (lo,hi) *)
Corollary quotient_kth_deriv_on (n : nat) (a w c : nat -> R -> R) :
  (forall k x, (k < n)%nat -> lo < x < hi -> derivable_pt_lim (a k) x (a (S k) x)) ->
  (forall k x, (k < n)%nat -> lo < x < hi -> derivable_pt_lim (w k) x (w (S k) x)) ->
  (forall x, lo < x < hi -> w 0%nat x <> 0) ->
  (forall k x, (k <= n)%nat -> lo < x < hi ->
     sumf (fun i => INR (binom k i) * w i x * c (k - i)%nat x) (S k) = a k x) ->
  forall k, (k <= n)%nat -> kth_deriv_on lo hi k (fun x => a 0%nat x / w 0%nat x) (c k).
Proof.
  intros Ha Hw Hw0 Hrec. induction k as [|k IH]; intros Hk; cbn [kth_deriv_on].
  - intros x Hx. rewrite <- (Hrec 0%nat x) by (try lia; exact Hx). cbn [sumf binom INR Nat.sub]. field. apply Hw0, Hx.
  - exists (c k). split; [apply IH; lia|]. intros x Hx.
    apply (quotient_derivatives_unique n a w c Ha Hw Hw0 Hrec); [lia|exact Hx].
Qed.

(* [G] two variables, differentiating in the variable that is shown (the other one is a fixed parameter) *)
Theorem quotient2_derivatives_unique (n : nat) (a w c : nat -> nat -> R -> R) :
  (forall k l x, (k < n)%nat -> (l <= n)%nat -> lo < x < hi -> derivable_pt_lim (a k l) x (a (S k) l x)) ->
  (forall k l x, (k < n)%nat -> (l <= n)%nat -> lo < x < hi -> derivable_pt_lim (w k l) x (w (S k) l x)) ->
  (forall x, lo < x < hi -> w 0%nat 0%nat x <> 0) ->
  (forall k l x, (k <= n)%nat -> (l <= n)%nat -> lo < x < hi ->
     sumf (fun j => INR (binom l j) * sumf (fun i => INR (binom k i) * w i j x * c (k - i)%nat (l - j)%nat x) (S k)) (S l) = a k l x) ->
  forall k l x, (k < n)%nat -> (l <= n)%nat -> lo < x < hi -> derivable_pt_lim (c k l) x (c (S k) l x).
Proof.
  intros Ha Hw Hw0 Hrec k l x Hk Hl Hx.
  apply (quotient2_derivatives_gen I D D_ext (fun x c => derivable_pt_lim_const c x)
           (fun x f g => derivable_pt_lim_plus f g x) (fun x f g => derivable_pt_lim_mult f g x) D_div
           (fun x f => uniqueness_limite f x) n a w c x Hx); try assumption.
  - intros k' l' Hk' Hl'. apply Ha; assumption.
  - intros k' l' Hk' Hl'. apply Hw; assumption.
Qed.
End OpenInterval.

(* ------------------------------------------------------------------------------------------------ *)
(* one-sided derivatives: a right derivative is the two-sided derivative of the function continued to the
   left by its tangent line; all rules transfer                                                      *)
Definition rext (f : R -> R) (x l : R) : R -> R := fun y => if Rle_dec x y then f y else f x + l * (y - x).

Lemma rext_at f x l : rext f x l x = f x.
Proof. unfold rext. destruct (Rle_dec x x); [reflexivity|lra]. Qed.
Lemma rext_right f x l y : x <= y -> rext f x l y = f y.
Proof. intros H. unfold rext. destruct (Rle_dec x y); [reflexivity|lra]. Qed.

Lemma rd_to_two_sided f x l : right_derivable_pt_lim f x l -> derivable_pt_lim (rext f x l) x l.
Proof.
  intros H eps Heps. destruct (H eps Heps) as (delta & Hd0 & Hd). exists (mkposreal delta Hd0).
  intros h Hh Hlt. cbn [pos] in Hlt. rewrite rext_at.
  destruct (Rlt_dec 0 h) as [Hp|Hn].
  - rewrite rext_right by lra. apply Hd; [exact Hp|]. rewrite Rabs_pos_eq in Hlt; lra.
  - unfold rext. destruct (Rle_dec x (x + h)); [lra|].
    replace ((f x + l * (x + h - x) - f x) / h - l) with 0 by (field; exact Hh).
    rewrite Rabs_R0. exact Heps.
Qed.

Lemma rd_of_two_sided_ext (g f : R -> R) x l :
  (forall y, x <= y -> g y = f y) -> derivable_pt_lim g x l -> right_derivable_pt_lim f x l.
Proof. intros E H. apply (dl_local_right g f (x + 1)); [lra| |exact H]. intros y Hy. apply E. lra. Qed.

Lemma rd_const c x : right_derivable_pt_lim (fun _ => c) x 0.
Proof. apply dl_right_of_two_sided, derivable_pt_lim_const. Qed.

Lemma rd_plus f g x l1 l2 : right_derivable_pt_lim f x l1 -> right_derivable_pt_lim g x l2 ->
  right_derivable_pt_lim (fun y => f y + g y) x (l1 + l2).
Proof.
  intros H1 H2. apply (rd_of_two_sided_ext (fun y => rext f x l1 y + rext g x l2 y)).
  - intros y Hy. rewrite !rext_right by exact Hy. reflexivity.
  - apply (derivable_pt_lim_plus (rext f x l1) (rext g x l2)); apply rd_to_two_sided; assumption.
Qed.

Lemma rd_mult f g x l1 l2 : right_derivable_pt_lim f x l1 -> right_derivable_pt_lim g x l2 ->
  right_derivable_pt_lim (fun y => f y * g y) x (l1 * g x + f x * l2).
Proof.
  intros H1 H2. apply (rd_of_two_sided_ext (fun y => rext f x l1 y * rext g x l2 y)).
  - intros y Hy. rewrite !rext_right by exact Hy. reflexivity.
  - apply dl_eq with (l1 * rext g x l2 x + rext f x l1 x * l2); [rewrite !rext_at; reflexivity|].
    apply (derivable_pt_lim_mult (rext f x l1) (rext g x l2)); apply rd_to_two_sided; assumption.
Qed.

Lemma rd_div f g x l1 l2 : right_derivable_pt_lim f x l1 -> right_derivable_pt_lim g x l2 -> g x <> 0 ->
  right_derivable_pt_lim (fun y => f y / g y) x ((l1 * g x - l2 * f x) / Rsqr (g x)).
Proof.
  intros H1 H2 H0. apply (rd_of_two_sided_ext (fun y => rext f x l1 y / rext g x l2 y)).
  - intros y Hy. rewrite !rext_right by exact Hy. reflexivity.
  - apply dl_eq with ((l1 * rext g x l2 x - l2 * rext f x l1 x) / Rsqr (rext g x l2 x)); [rewrite !rext_at; reflexivity|].
    apply (derivable_pt_lim_div (rext f x l1) (rext g x l2)); try (apply rd_to_two_sided; assumption).
    rewrite rext_at. exact H0.
Qed.

Lemma rd_unique f x l1 l2 : right_derivable_pt_lim f x l1 -> right_derivable_pt_lim f x l2 -> l1 = l2.
Proof.
  intros H1 H2. destruct (Req_dec l1 l2) as [E|Hne]; [exact E|exfalso].
  assert (He : 0 < Rabs (l1 - l2) / 2) by (assert (0 < Rabs (l1 - l2)) by (apply Rabs_pos_lt; lra); lra).
  destruct (H1 _ He) as (d1 & Hd1 & K1). destruct (H2 _ He) as (d2 & Hd2 & K2).
  set (h := Rmin d1 d2 / 2).
  assert (Hm : 0 < Rmin d1 d2) by (apply Rmin_pos; assumption).
  pose proof (Rmin_l d1 d2). pose proof (Rmin_r d1 d2).
  assert (Hh : 0 < h) by (unfold h; lra).
  specialize (K1 h Hh ltac:(unfold h; lra)). specialize (K2 h Hh ltac:(unfold h; lra)).
  set (q := (f (x + h) - f x) / h) in *.
  assert (T : Rabs ((q - l2) + - (q - l1)) <= Rabs (q - l2) + Rabs (q - l1)).
  { eapply Rle_trans; [apply Rabs_triang|]. rewrite Rabs_Ropp. lra. }
  replace ((q - l2) + - (q - l1)) with (l1 - l2) in T by ring. lra.
Qed.

(* instance 2: right derivatives on a half-open interval [lo,hi) *)
Section HalfOpenInterval.
Variables lo hi : R.
Let I (y : R) : Prop := lo <= y < hi.
Let D (x : R) (f : R -> R) (l : R) : Prop := right_derivable_pt_lim f x l.

Let D_ext : forall x f g l, I x -> (forall y, I y -> f y = g y) -> D x f l -> D x g l.
Proof.
  intros x f g l Hx E H eps Heps. destruct (H eps Heps) as (delta & Hd0 & Hd).
  unfold I in *. exists (Rmin delta (hi - x)). split; [apply Rmin_pos; lra|].
  intros h Hh Hlt.
  assert (H1 : h < delta) by (eapply Rlt_le_trans; [exact Hlt | apply Rmin_l]).
  assert (H2 : h < hi - x) by (eapply Rlt_le_trans; [exact Hlt | apply Rmin_r]).
  rewrite <- (E (x + h)) by lra. rewrite <- (E x) by lra. apply Hd; assumption.
Qed.

Theorem leibniz_rule_right (n : nat) (a w c : nat -> R -> R) :
  (forall k x, (k < n)%nat -> lo <= x < hi -> right_derivable_pt_lim (a k) x (a (S k) x)) ->
  (forall k x, (k < n)%nat -> lo <= x < hi -> right_derivable_pt_lim (w k) x (w (S k) x)) ->
  (forall k x, (k < n)%nat -> lo <= x < hi -> right_derivable_pt_lim (c k) x (c (S k) x)) ->
  (forall x, lo <= x < hi -> a 0%nat x = w 0%nat x * c 0%nat x) ->
  forall k, (k <= n)%nat -> forall x, lo <= x < hi ->
    a k x = sumf (fun i => INR (binom k i) * w i x * c (k - i)%nat x) (S k).
Proof.
  exact (leibniz_rule_gen I D D_ext (fun x c => rd_const c x)
           (fun x f g => rd_plus f g x) (fun x f g => rd_mult f g x)
           (fun x f => rd_unique f x) n a w c).
Qed.

Theorem quotient_right_derivatives_unique (n : nat) (a w c : nat -> R -> R) :
  (forall k x, (k < n)%nat -> lo <= x < hi -> right_derivable_pt_lim (a k) x (a (S k) x)) ->
  (forall k x, (k < n)%nat -> lo <= x < hi -> right_derivable_pt_lim (w k) x (w (S k) x)) ->
  (forall x, lo <= x < hi -> w 0%nat x <> 0) ->
  (forall k x, (k <= n)%nat -> lo <= x < hi ->
     sumf (fun i => INR (binom k i) * w i x * c (k - i)%nat x) (S k) = a k x) ->
  forall k x, (k < n)%nat -> lo <= x < hi -> right_derivable_pt_lim (c k) x (c (S k) x).
Proof.
  intros Ha Hw Hw0 Hrec k x Hk Hx.
  apply (quotient_derivatives_gen I D D_ext (fun x c => rd_const c x)
           (fun x f g => rd_plus f g x) (fun x f g => rd_mult f g x) (fun x f g => rd_div f g x)
           (fun x f => rd_unique f x) n a w c x Hx); try assumption.
  - intros j Hj. apply Ha; assumption.
  - intros j Hj. apply Hw; assumption.
Qed.

Theorem quotient2_right_derivatives_unique (n : nat) (a w c : nat -> nat -> R -> R) :
  (forall k l x, (k < n)%nat -> (l <= n)%nat -> lo <= x < hi -> right_derivable_pt_lim (a k l) x (a (S k) l x)) ->
  (forall k l x, (k < n)%nat -> (l <= n)%nat -> lo <= x < hi -> right_derivable_pt_lim (w k l) x (w (S k) l x)) ->
  (forall x, lo <= x < hi -> w 0%nat 0%nat x <> 0) ->
  (forall k l x, (k <= n)%nat -> (l <= n)%nat -> lo <= x < hi ->
     sumf (fun j => INR (binom l j) * sumf (fun i => INR (binom k i) * w i j x * c (k - i)%nat (l - j)%nat x) (S k)) (S l) = a k l x) ->
  forall k l x, (k < n)%nat -> (l <= n)%nat -> lo <= x < hi -> right_derivable_pt_lim (c k l) x (c (S k) l x).
Proof.
  intros Ha Hw Hw0 Hrec k l x Hk Hl Hx.
  apply (quotient2_derivatives_gen I D D_ext (fun x c => rd_const c x)
           (fun x f g => rd_plus f g x) (fun x f g => rd_mult f g x) (fun x f g => rd_div f g x)
           (fun x f => rd_unique f x) n a w c x Hx); try assumption.
  - intros k' l' Hk' Hl'. apply Ha; assumption.
  - intros k' l' Hk' Hl'. apply Hw; assumption.
Qed.
End HalfOpenInterval.

Check leibniz_rule.
Check quotient_derivatives_unique.
Check quotient_kth_deriv_on.
Check leibniz_rule_right.
Check quotient_right_derivatives_unique.
Check quotient2_derivatives_unique.
Check quotient2_right_derivatives_unique.
Print Assumptions leibniz_rule.
Print Assumptions quotient_derivatives_unique.
Print Assumptions quotient_kth_deriv_on.
Print Assumptions leibniz_rule_right.
Print Assumptions quotient_right_derivatives_unique.
Print Assumptions quotient2_derivatives_unique.
Print Assumptions quotient2_right_derivatives_unique.
