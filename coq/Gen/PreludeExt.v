(* Hand-written runtime, second part: the primitives the generated files of the second round (LinalgGeom, LinalgMat,
   Voxelize, Utilities, HelpersB, Fitting) use beyond Gen/Prelude.v.  Definitions only.  Kept in a file of its own so that
   Gen/Prelude.v - and with it everything compiled in the first round - stays byte-identical. *)
From Coq Require Import List ZArith QArith Bool.
From NV Require Import Scalar.Ops Gen.Prelude.
Import ListNotations.

(* ---- lists ---- *)
(* X.pop() as a statement: drops the last element; IndexError on the empty list *)
Definition zpop {A} (l : list A) : gres (list A) :=
  match l with [] => GErr IndexError | _ => GOk (removelast l) end.

Section Pts.
Context {T : Type} (K : ops T).
(* list == list on lists of floats: the same length and pairwise == *)
Fixpoint pylist_eqb (a b : list T) : bool :=
  match a, b with
  | [], [] => true
  | x :: a', y :: b' => andb (oeqb K x y) (pylist_eqb a' b')
  | _, _ => false
  end.
(* list < list: at the first position where the elements are not ==, the result is their <; a proper prefix is smaller *)
Fixpoint pylist_ltb (a b : list T) : bool :=
  match a, b with
  | [], [] => false
  | [], _ :: _ => true
  | _ :: _, [] => false
  | x :: a', y :: b' => if oeqb K x y then pylist_ltb a' b' else oltb K x y
  end.
(* sorted(points) for a list of points (lists of floats), TRUSTED: an insertion sort by list <, the points inserted from the last to
   the first, each before the first point it is < of.  Python's sort is stable; this one is not (a point ends up after the later
   points it ties with, i.e. that are neither < nor > it).  For a total order a tie means equal points, so the results cannot be
   told apart.  The hand-written model (Geom2D.sort_pts) uses the same algorithm. *)
Fixpoint py_insert_pt (p : list T) (l : list (list T)) : list (list T) :=
  match l with
  | [] => [p]
  | q :: r => if pylist_ltb p q then p :: l else q :: py_insert_pt p r
  end.
Definition py_sorted_pts (l : list (list T)) : list (list T) := fold_right py_insert_pt [] l.
End Pts.

(* ---- math ---- *)
(* math.factorial(n): ValueError for a negative n *)
Fixpoint zfact_nat (n : nat) : Z := match n with O => 1%Z | S m => (Z.of_nat n * zfact_nat m)%Z end.
Definition zfact_chk (n : Z) : gres Z := if (n <? 0)%Z then GErr ValueError else GOk (zfact_nat (Z.to_nat n)).
(* math.pow(-1, n) for an int n *)
Definition pow_neg1 {T} (K : ops T) (n : Z) : T := if Z.even n then o1 K else oneg K (o1 K).
(* float(a / b) for ints a, b (b <> 0 was checked by zdiv_chk): the exact quotient a / b as a scalar; numerator and denominator
   are injected by binary digits (olitz / ofpos of Gen/Prelude.v), so that factorials do not build unary numerals.
   Floating-point rounding of the quotient is not modelled (project convention). *)
Definition oratio {T} (K : ops T) (q : ratio) : T := odiv K (olitz K (Qnum q)) (ofpos K (Qden q)).

(* ---- list slots that hold None or a float (type optfloat = option T): arithmetic on None raises TypeError ---- *)
Definition py_unopt {A} (o : option A) : gres A := match o with Some x => GOk x | None => GErr TypeError end.

(* ---- the variable of `for v in range(lo, hi)` read AFTER the loop ----
   After a non-empty range it is the last element hi - 1.  After an empty range Python uses an earlier binding of the name
   (possibly from a previous pass of an enclosing loop) or raises UnboundLocalError; neither is modelled: the generated code
   GIVES UP (GErr OutOfFuel, the one outcome that no handler of the generated code can see).  So a result other than
   GErr OutOfFuel is still what Python computes; the tie theorems assume the range is not empty. *)
Definition range_last (lo hi : Z) : gres Z := if (lo <? hi)%Z then GOk (hi - 1)%Z else GErr OutOfFuel.

(* sorted(set(l)) for a list of floats: the distinct values (==) in ascending order; insertion into a strictly increasing list *)
Section SortUniq.
Context {T : Type} (K : ops T).
Fixpoint py_ins_uniq (x : T) (l : list T) : list T :=
  match l with
  | [] => [x]
  | y :: r => if oeqb K x y then l else if oltb K x y then x :: l else y :: py_ins_uniq x r
  end.
Definition py_sorted_uniq (l : list T) : list T := fold_left (fun acc x => py_ins_uniq x acc) l [].
End SortUniq.
