(* Hand-written runtime, third part: the primitives the generated files of the fourth round use beyond Gen/Prelude.v and
   Gen/PreludeExt.v.  Definitions only.  Kept in a file of its own so that the earlier runtime files - and with them everything
   compiled in the earlier rounds - stay byte-identical. *)
From Coq Require Import List ZArith Bool.
From NV Require Import Scalar.Ops Gen.Prelude Gen.PreludeExt.
Import ListNotations.

(* a[lo:hi] = v (step 1): the bounds are clamped as in a slice, an upper bound below the lower one counts as the lower one;
   the list becomes a[:lo] + v + a[hi:] (its length may change) *)
Definition zslice_set {A} (l : list A) (lo hi : Z) (v : list A) : list A :=
  let a := zclamp (length l) lo in
  let b := Nat.max a (zclamp (length l) hi) in
  firstn a l ++ v ++ skipn b l.

(* all(l) / any(l) on a list of bools *)
Definition py_all (l : list bool) : bool := forallb (fun b => b) l.
Definition py_any (l : list bool) : bool := existsb (fun b => b) l.

(* min( *l ) / max( *l ) for a list of floats: the first minimal / maximal element (pymin / pymax of Gen/Prelude.v folded from the left).
   With fewer than two elements Python raises TypeError (min() without arguments; min(x) of a float, which is not iterable). *)
Definition pymin_list {T} (K : ops T) (l : list T) : gres T :=
  match l with x :: ((_ :: _) as r) => GOk (fold_left (pymin K) r x) | _ => GErr TypeError end.
Definition pymax_list {T} (K : ops T) (l : list T) : gres T :=
  match l with x :: ((_ :: _) as r) => GOk (fold_left (pymax K) r x) | _ => GErr TypeError end.
