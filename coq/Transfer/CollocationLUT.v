(* The EXECUTABLE rational instance of Proofs/CollocationLU.v: for rational parameters 0 = u_0 < .. < u_{n-1} = 1 the
   Doolittle factorisation computed by the model at Qops meets no zero pivot on the collocation matrix of the averaged
   knot vector, and the interpolation solve interp_1d Qops returns control points solving the collocation system. *)
From Coq Require Import List QArith Reals Qreals Lra Lia Arith Bool.
From NV Require Import Scalar.Ops Model.Common Model.Basis Model.LinAlg Model.Fit
  Proofs.LinAlgSums Proofs.LinAlgR Proofs.LinAlgSolve Proofs.FitR Proofs.CollocationLU Proofs.CollocationLUMore Proofs.ApproxLU
  Transfer.LinAlgT Transfer.FitT.
Import ListNotations.

Lemma Q2R_one : Q2R 1 = 1%R.
Proof. unfold Q2R. cbn. lra. Qed.

Section Q.
Variables (p n : nat) (uk : list Q).
Hypothesis Hp : (1 <= p < n)%nat.
Hypothesis HL : length uk = n.
Hypothesis H0 : (nth 0 uk 0 == 0)%Q.
Hypothesis H1 : (nth (n - 1) uk 0 == 1)%Q.
Hypothesis Hinc : forall i, (S i < n)%nat -> (nth i uk 0 < nth (S i) uk 0)%Q.

Lemma params_R : increasing_params n (map Q2R uk).
Proof.
  split; [rewrite map_length; exact HL|]. split; [rewrite nth_Q2R, (Qeq_eqR _ _ H0); apply Q2R_0|].
  split; [rewrite nth_Q2R, (Qeq_eqR _ _ H1); apply Q2R_one|].
  intros i Hi. rewrite !nth_Q2R. apply Qlt_Rlt, Hinc, Hi.
Qed.

Definition AQ : list (list Q) := build_coeff_matrix Qops p (compute_knot_vector Qops p n uk) uk n.
Lemma AQ_R : mQ2R AQ = build_coeff_matrix Rops p (compute_knot_vector Rops p n (map Q2R uk)) (map Q2R uk) n.
Proof. unfold AQ. rewrite knot_vector_transfer, coeff_matrix_transfer. reflexivity. Qed.

(* [G] no zero pivot in exact rational arithmetic *)
Theorem collocation_pivots_nonzero_Q : forall i, (i < n)%nat -> ~ (get2 Qops (snd (doolittle Qops AQ)) i i == 0)%Q.
Proof.
  intros i Hi E. destruct params_R as (L & P0 & P1 & Pinc).
  apply (collocation_pivots_nonzero p n (map Q2R uk) Hp L P0 P1 Pinc i Hi).
  rewrite <- AQ_R, doolittle_transfer. cbn [snd]. rewrite get2_transfer, (Qeq_eqR _ _ E). apply Q2R_0.
Qed.

(* [G] the executable interpolation solve returns control points, and they solve the collocation system exactly *)
Theorem interp_1d_Q_returns (pts : list (list Q)) dim : rectQ n dim pts ->
  exists P, interp_1d Qops p (compute_knot_vector Qops p n uk) uk pts = Ok P /\
    forall i c, (i < n)%nat -> (c < dim)%nat ->
      (sumr Qops 0 n (fun k => omul Qops (get2 Qops AQ i k) (get2 Qops P k c)) == get2 Qops pts i c)%Q.
Proof.
  intros Hpts. destruct (collocation_is_square p n (map Q2R uk) Hp params_R) as [Sq Len].
  rewrite <- AQ_R in Sq, Len. rewrite is_square_transfer in Sq. rewrite mQ2R_length in Len.
  destruct (lu_solve_correct_Q AQ pts dim) as (X & EX & HX); rewrite ?Len; try assumption; [lia| |].
  - apply collocation_pivots_nonzero_Q.
  - exists X. split; [|rewrite Len in HX; exact HX].
    unfold interp_1d. destruct Hpts as [Lp _]. rewrite Lp. exact EX.
Qed.
End Q.
Print Assumptions collocation_pivots_nonzero_Q.
Print Assumptions interp_1d_Q_returns.

(* non-vacuity: cubic through 5 points, parameters of Props/C11.v's example; the hypotheses hold and the general theorem applies *)
Example collocation_Q_example :
  let uk := [0; 5#18; 1#2; 7#9; 1]%Q in
  (forall i, (i < 5)%nat -> ~ (get2 Qops (snd (doolittle Qops (AQ 3 5 uk))) i i == 0)%Q) /\
  map (fun i => Qle_bool 0 (get2 Qops (snd (doolittle Qops (AQ 3 5 uk))) i i)) (seq 0 5) = [true; true; true; true; true].
Proof.
  cbv zeta. split; [|vm_compute; reflexivity].
  apply collocation_pivots_nonzero_Q; try lia; try reflexivity.
  intros i Hi. assert (C : (i = 0 \/ i = 1 \/ i = 2 \/ i = 3)%nat) by lia.
  destruct C as [-> | [-> | [-> | ->]]]; vm_compute; reflexivity.
Qed.

(* ------------------------------------------------------------------ least squares (normal equations), executable instance *)
(* [G] rational parameters 0 = u_0 < .. < u_{r-1} = 1, p >= 1, p + 2 <= c <= r - 1: the executable Doolittle factorisation of
   N^T N (knots of Eq 9.69) meets no zero pivot *)
Theorem approx_normal_pivots_nonzero_Q : forall (p r c : nat) (uk : list Q), (1 <= p)%nat -> (p + 2 <= c)%nat -> (c < r)%nat ->
  length uk = r -> (nth 0 uk 0 == 0)%Q -> (nth (r - 1) uk 0 == 1)%Q -> (forall i, (S i < r)%nat -> (nth i uk 0 < nth (S i) uk 0)%Q) ->
  forall i, (i < c - 2)%nat ->
    let Nm := approx_N Qops p c (compute_knot_vector2 Qops p r c uk) uk r in
    ~ (get2 Qops (snd (doolittle Qops (mmul Qops (transpose Qops Nm) Nm))) i i == 0)%Q.
Proof.
  intros p r c uk Hp Hc Hr HL H0 H1 Hinc i Hi Nm E.
  destruct (params_R r uk HL H0 H1 Hinc) as (L & P0 & P1 & Pinc).
  apply (approx_normal_pivots_nonzero p r c (map Q2R uk) Hp Hc Hr L P0 P1 Pinc i Hi).
  cbv zeta. rewrite knot_vector2_transfer, approx_N_transfer, transpose_transfer, mmul_transfer, doolittle_transfer. cbn [snd].
  rewrite get2_transfer. fold Nm. rewrite (Qeq_eqR _ _ E). apply Q2R_0.
Qed.
Print Assumptions approx_normal_pivots_nonzero_Q.

Example approx_Q_example :
  let uk := [0; 5#18; 1#2; 7#9; 1]%Q in
  let Nm := approx_N Qops 2 4 (compute_knot_vector2 Qops 2 5 4 uk) uk 5 in
  forall i, (i < 4 - 2)%nat -> ~ (get2 Qops (snd (doolittle Qops (mmul Qops (transpose Qops Nm) Nm))) i i == 0)%Q.
Proof.
  cbv zeta. apply approx_normal_pivots_nonzero_Q; try lia; try reflexivity.
  intros i Hi. assert (C : (i = 0 \/ i = 1 \/ i = 2 \/ i = 3)%nat) by lia.
  destruct C as [-> | [-> | [-> | ->]]]; vm_compute; reflexivity.
Qed.
