(* Parametricity transfer of C10 (translation of a curve) to the executable Q instance. *)
From Coq Require Import List QArith Reals Qreals Lra Lia Arith Bool.
From Param Require Import Param.
From NV Require Import Scalar.Ops Model.Common Model.Basis Model.Knots Model.Eval Model.Homog Model.Hull Model.Transform
  Proofs.BasisR Proofs.LinComb Proofs.HullR Proofs.TransformR Transfer.BasisT Transfer.HullT.
Import ListNotations.

Parametricity Recursive tr_point.

Lemma Forall2_Qeq_of_R (a b : list Q) : map Q2R a = map Q2R b -> Forall2 Qeq a b.
Proof.
  revert b. induction a as [|x a IH]; intros [|y b] H; cbn in H; try discriminate; constructor.
  - apply eqR_Qeq. congruence.
  - apply IH. congruence.
Qed.

Theorem tr_point_transfer vec pt : tr_point Rops (map Q2R vec) (map Q2R pt) = map Q2R (tr_point Qops vec pt).
Proof. apply list_R_map_inv. apply (tr_point_R Q R QR Qops Rops ops_QR); apply list_R_map. Qed.
Lemma map_tr_transfer vec P : map (tr_point Rops (map Q2R vec)) (map (map Q2R) P) = map (map Q2R) (map (tr_point Qops vec) P).
Proof. induction P as [|pt P IH]; cbn [map]; [reflexivity|]. rewrite tr_point_transfer, IH. reflexivity. Qed.

(* C10 on the executed rationals: translating the control points translates the evaluated point *)
Theorem curve_translate_Q dim p (U : list Q) (P : list (list Q)) (u : Q) (vec : list Q) :
  sortedQ U -> (p < length P)%nat -> (length P + p < length U)%nat -> Forall (fun q => length q = dim) P -> length vec = dim ->
  (kn Qops U p <= u)%Q -> (u <= kn Qops U (length P))%Q -> (kn Qops U (length P - 1) < kn Qops U (length P))%Q ->
  Forall2 Qeq (curve_point Qops dim p U (map (tr_point Qops vec) P) u) (tr_point Qops vec (curve_point Qops dim p U P u)).
Proof.
  intros Hs Hn HL Hd Hv H1 H2 H3. apply Forall2_Qeq_of_R.
  rewrite <- curve_point_transfer, <- tr_point_transfer, <- curve_point_transfer, <- map_tr_transfer.
  apply (curve_affine dim dim).
  - apply tr_point_affine. rewrite map_length. exact Hv.
  - unfold dir_ok. rewrite !map_length. repeat split.
    + apply sortedQ_R. exact Hs.
    + exact Hn.
    + exact HL.
    + rewrite kn_map. apply Qle_Rle. exact H1.
    + rewrite kn_map. apply Qle_Rle. exact H2.
    + rewrite !kn_map. apply Qlt_Rlt. exact H3.
  - apply Forall_forall. intros q Hq. apply in_map_iff in Hq. destruct Hq as [x [<- Hx]]. rewrite map_length. rewrite Forall_forall in Hd. auto.
Qed.

