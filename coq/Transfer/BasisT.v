(* Parametricity transfer: theorems about the real instance hold for the executable Q instance. *)
From Coq Require Import List QArith Reals Qreals Lra Lia Arith Bool.
From Param Require Import Param.
From NV Require Import Scalar.Ops Model.Common Model.Basis Proofs.BasisR.
Import ListNotations.

Parametricity Recursive basis_function.
Parametricity Recursive sumT.
Parametricity Recursive find_span_linear.

Theorem bf_transfer p U s u : basis_function Rops p (map Q2R U) s (Q2R u) = map Q2R (basis_function Qops p U s u).
Proof.
  apply list_R_map_inv.
  apply (basis_function_R Q R QR Qops Rops ops_QR); try apply nat_R_refl.
  apply list_R_map. reflexivity.
Qed.
Theorem sum_transfer l : sumT Rops (map Q2R l) = Q2R (sumT Qops l).
Proof. exact (sumT_R Q R QR Qops Rops ops_QR l (map Q2R l) (list_R_map l)). Qed.
Theorem span_transfer p U n u : find_span_linear Rops p (map Q2R U) n (Q2R u) = find_span_linear Qops p U n u.
Proof.
  symmetry. apply nat_R_eq.
  apply (find_span_linear_R Q R QR Qops Rops ops_QR); try apply nat_R_refl.
  apply list_R_map. reflexivity.
Qed.

Definition sortedQ (U : list Q) : Prop := forall i j, (i <= j < length U)%nat -> (kn Qops U i <= kn Qops U j)%Q.

Lemma kn_map U i : kn Rops (map Q2R U) i = Q2R (kn Qops U i).
Proof. unfold kn. cbn [o0 Rops Qops]. rewrite <- Q2R_0. apply map_nth. Qed.

Lemma sortedQ_R U : sortedQ U -> sortedR (map Q2R U).
Proof. intros Hs i j Hij. rewrite map_length in Hij. rewrite !kn_map. apply Qle_Rle, Hs, Hij. Qed.

Theorem bf_partition_unity_Q p U span u :
  sortedQ U -> (kn Qops U span <= u)%Q -> (u < kn Qops U (span+1))%Q -> (p <= span)%nat -> (span + p < length U)%nat ->
  (sumT Qops (basis_function Qops p U span u) == 1)%Q.
Proof.
  intros Hs H1 H2 Hp HL. apply eqR_Qeq.
  rewrite <- sum_transfer, <- bf_transfer. rewrite Q2R_1.
  apply bf_partition_unity; try assumption; try (rewrite map_length; assumption).
  - apply sortedQ_R; assumption.
  - rewrite !kn_map. split; [apply Qle_Rle|apply Qlt_Rlt]; assumption.
Qed.

Theorem bf_nonneg_Q p U span u :
  sortedQ U -> (kn Qops U span <= u)%Q -> (u < kn Qops U (span+1))%Q -> (p <= span)%nat -> (span + p < length U)%nat ->
  Forall (fun x => (0 <= x)%Q) (basis_function Qops p U span u).
Proof.
  intros Hs H1 H2 Hp HL.
  assert (H : Forall (fun x => (0 <= x)%R) (map Q2R (basis_function Qops p U span u))).
  { rewrite <- bf_transfer. apply bf_nonneg; try assumption; try (rewrite map_length; assumption).
    - apply sortedQ_R; assumption.
    - rewrite !kn_map. split; [apply Qle_Rle|apply Qlt_Rlt]; assumption. }
  rewrite Forall_map in H. eapply Forall_impl; [|exact H].
  intros a Ha. cbv beta in Ha. apply Rle_Qle. rewrite Q2R_0. exact Ha.
Qed.
