(* Parametricity transfer of the C18 curve hull theorem and of the C10 translation theorem to the executable Q instance. *)
From Coq Require Import List QArith Reals Qreals Lra Lia Arith Bool.
From Param Require Import Param.
From NV Require Import Scalar.Ops Model.Common Model.Basis Model.Knots Model.Eval Model.Homog Model.Hull
  Proofs.BasisR Proofs.LinComb Proofs.HullR Transfer.BasisT.
Import ListNotations.

Parametricity Recursive curve_point.
Parametricity Recursive find_ctrlpts_curve.
Parametricity Recursive vdot.

Lemma ll_R (P : list (list Q)) : list_R _ _ (list_R Q R QR) P (map (map Q2R) P).
Proof. apply list_list_R_map. Qed.

Theorem curve_point_transfer dim p U P u :
  curve_point Rops dim p (map Q2R U) (map (map Q2R) P) (Q2R u) = map Q2R (curve_point Qops dim p U P u).
Proof.
  apply list_R_map_inv.
  apply (curve_point_R Q R QR Qops Rops ops_QR); try apply nat_R_refl; try apply list_R_map; try apply ll_R. reflexivity.
Qed.
Theorem find_ctrlpts_transfer p U P u :
  find_ctrlpts_curve Rops p (map Q2R U) (map (map Q2R) P) (Q2R u) = map (map Q2R) (find_ctrlpts_curve Qops p U P u).
Proof.
  apply list_list_R_map_inv.
  apply (find_ctrlpts_curve_R Q R QR Qops Rops ops_QR); try apply nat_R_refl; try apply list_R_map; try apply ll_R. reflexivity.
Qed.
Theorem vdot_transfer d q : vdot Rops (map Q2R d) (map Q2R q) = Q2R (vdot Qops d q).
Proof. exact (vdot_R Q R QR Qops Rops ops_QR d (map Q2R d) (list_R_map d) q (map Q2R q) (list_R_map q)). Qed.

(* C18 over the rationals that are executed *)
Theorem curve_point_in_hull_Q dim p (U : list Q) (P : list (list Q)) (u : Q) (d : list Q) (lo hi : Q) :
  sortedQ U -> (p < length P)%nat -> (length P + p < length U)%nat -> Forall (fun q => length q = dim) P ->
  (kn Qops U p <= u)%Q -> (u <= kn Qops U (length P))%Q -> (kn Qops U (length P - 1) < kn Qops U (length P))%Q ->
  length d = dim ->
  Forall (fun q => (lo <= vdot Qops d q)%Q /\ (vdot Qops d q <= hi)%Q) (find_ctrlpts_curve Qops p U P u) ->
  (lo <= vdot Qops d (curve_point Qops dim p U P u))%Q /\ (vdot Qops d (curve_point Qops dim p U P u) <= hi)%Q.
Proof.
  intros Hs Hn HL Hd H1 H2 H3 Hld Hact.
  assert (HR : (Q2R lo <= vdot Rops (map Q2R d) (curve_point Rops dim p (map Q2R U) (map (map Q2R) P) (Q2R u)) <= Q2R hi)%R).
  { apply (curve_point_in_hull dim p (map Q2R U) (map (map Q2R) P) (Q2R u)).
    - apply sortedQ_R. exact Hs.
    - rewrite map_length. exact Hn.
    - rewrite !map_length. exact HL.
    - apply Forall_forall. intros q Hq. apply in_map_iff in Hq. destruct Hq as [x [<- Hx]]. rewrite map_length. rewrite Forall_forall in Hd. auto.
    - unfold in_domain. rewrite map_length. rewrite !kn_map. split; [split|]; [apply Qle_Rle|apply Qle_Rle|apply Qlt_Rlt]; assumption.
    - rewrite map_length. exact Hld.
    - rewrite find_ctrlpts_transfer. apply Forall_forall. intros q Hq. apply in_map_iff in Hq. destruct Hq as [x [<- Hx]].
      rewrite Forall_forall in Hact. destruct (Hact x Hx) as [A B]. rewrite vdot_transfer. split; apply Qle_Rle; assumption. }
  rewrite curve_point_transfer, vdot_transfer in HR. destruct HR as [A B]. split; apply Rle_Qle; assumption.
Qed.
