(* Parametricity transfer for Model.Fit (used for the non-vacuity examples of Props/C11.v). *)
From Coq Require Import List QArith Reals Qreals Lra Lia Arith Bool.
From Param Require Import Param.
From NV Require Import Scalar.Ops Model.Common Model.Basis Model.LinAlg Model.Fit Transfer.LinAlgT.
Import ListNotations.

Parametricity Recursive compute_params_curve.
Parametricity Recursive compute_knot_vector.
Parametricity Recursive compute_knot_vector2.
Parametricity Recursive build_coeff_matrix.
Parametricity Recursive approx_N.
Parametricity Recursive mmul.
Parametricity Recursive transpose.

Lemma res_R_list (r1 : res (list Q)) (r2 : res (list R)) : res_R _ _ (list_R Q R QR) r1 r2 -> r2 = res_map (map Q2R) r1.
Proof. destruct 1 as [a b H| |]; cbn; [apply list_R_map_inv in H; rewrite H|..]; reflexivity. Qed.
Theorem params_transfer cds : compute_params_curve Rops (map Q2R cds) = res_map (map Q2R) (compute_params_curve Qops cds).
Proof. apply res_R_list. apply (compute_params_curve_R Q R QR Qops Rops ops_QR). apply list_R_map. Qed.
Theorem knot_vector_transfer p n uk : compute_knot_vector Rops p n (map Q2R uk) = map Q2R (compute_knot_vector Qops p n uk).
Proof. apply list_R_map_inv. apply (compute_knot_vector_R Q R QR Qops Rops ops_QR); try apply nat_R_refl. apply list_R_map. Qed.
Theorem knot_vector2_transfer p r c uk : compute_knot_vector2 Rops p r c (map Q2R uk) = map Q2R (compute_knot_vector2 Qops p r c uk).
Proof. apply list_R_map_inv. apply (compute_knot_vector2_R Q R QR Qops Rops ops_QR); try apply nat_R_refl. apply list_R_map. Qed.
Theorem coeff_matrix_transfer p kv uk n :
  build_coeff_matrix Rops p (map Q2R kv) (map Q2R uk) n = mQ2R (build_coeff_matrix Qops p kv uk n).
Proof. apply list_list_R_map_inv. apply (build_coeff_matrix_R Q R QR Qops Rops ops_QR); try apply nat_R_refl; apply list_R_map. Qed.
Theorem approx_N_transfer p c kv uk r :
  approx_N Rops p c (map Q2R kv) (map Q2R uk) r = mQ2R (approx_N Qops p c kv uk r).
Proof. apply list_list_R_map_inv. apply (approx_N_R Q R QR Qops Rops ops_QR); try apply nat_R_refl; apply list_R_map. Qed.
Theorem mmul_transfer a b : mmul Rops (mQ2R a) (mQ2R b) = mQ2R (mmul Qops a b).
Proof. apply list_list_R_map_inv. apply (mmul_R Q R QR Qops Rops ops_QR); apply list_list_R_map. Qed.
Theorem transpose_transfer a : transpose Rops (mQ2R a) = mQ2R (transpose Qops a).
Proof. apply list_list_R_map_inv. apply (transpose_R Q R QR Qops Rops ops_QR); apply list_list_R_map. Qed.

Parametricity Recursive compute_params_surface.
Definition pairQ2R (x : list Q * list Q) : list R * list R := (map Q2R (fst x), map Q2R (snd x)).
Theorem params_surface_transfer su sv a b :
  compute_params_surface Rops su sv (mQ2R a) (mQ2R b) = res_map pairQ2R (compute_params_surface Qops su sv a b).
Proof.
  pose proof (compute_params_surface_R Q R QR Qops Rops ops_QR su su (nat_R_refl su) sv sv (nat_R_refl sv)
                a (mQ2R a) (list_list_R_map a) b (mQ2R b) (list_list_R_map b)) as H.
  destruct H as [x y H| |]; cbn [res_map]; try reflexivity.
  destruct H as [x1 y1 H1 x2 y2 H2]. apply list_R_map_inv in H1, H2. unfold pairQ2R. cbn [fst snd]. rewrite H1, H2. reflexivity.
Qed.
Lemma nth_Q2R (l : list Q) i : nth i (map Q2R l) 0%R = Q2R (nth i l 0%Q).
Proof. rewrite <- Q2R_0. apply map_nth. Qed.
