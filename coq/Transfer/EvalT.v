(* Parametricity transfer for point evaluation: the executable Q instance computes the rational image of the R instance. *)
From Coq Require Import List QArith Reals Qreals Lra Lia Arith Bool.
From Param Require Import Param.
From NV Require Import Scalar.Ops Model.Common Model.Basis Model.Knots Model.Eval Transfer.BasisT.
Import ListNotations.

Parametricity Recursive curve_point.
Parametricity Recursive surface_point.
Parametricity Recursive volume_point.
Parametricity Recursive project.

Theorem curve_point_transfer dim p U P u :
  curve_point Rops dim p (map Q2R U) (map (map Q2R) P) (Q2R u) = map Q2R (curve_point Qops dim p U P u).
Proof.
  apply list_R_map_inv.
  apply (curve_point_R Q R QR Qops Rops ops_QR); try apply nat_R_refl.
  - apply list_R_map. - apply list_list_R_map. - reflexivity.
Qed.
Theorem surface_point_transfer dim pu pv Uu Uv su sv P u v :
  surface_point Rops dim pu pv (map Q2R Uu) (map Q2R Uv) su sv (map (map Q2R) P) (Q2R u) (Q2R v)
  = map Q2R (surface_point Qops dim pu pv Uu Uv su sv P u v).
Proof.
  apply list_R_map_inv.
  apply (surface_point_R Q R QR Qops Rops ops_QR); try apply nat_R_refl; try apply list_R_map; try apply list_list_R_map; reflexivity.
Qed.
Theorem volume_point_transfer dim pu pv pw Uu Uv Uw su sv sw P u v w :
  volume_point Rops dim pu pv pw (map Q2R Uu) (map Q2R Uv) (map Q2R Uw) su sv sw (map (map Q2R) P) (Q2R u) (Q2R v) (Q2R w)
  = map Q2R (volume_point Qops dim pu pv pw Uu Uv Uw su sv sw P u v w).
Proof.
  apply list_R_map_inv.
  apply (volume_point_R Q R QR Qops Rops ops_QR); try apply nat_R_refl; try apply list_R_map; try apply list_list_R_map; reflexivity.
Qed.
Theorem project_transfer pt : project Rops (map Q2R pt) = map Q2R (project Qops pt).
Proof. apply list_R_map_inv. apply (project_R Q R QR Qops Rops ops_QR). apply list_R_map. Qed.
