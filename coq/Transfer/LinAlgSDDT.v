(* The executable rational instance on strictly diagonally dominant matrices: lu_solve Qops always returns a
   result, and it solves the system (transfer of Proofs/LinAlgSDD.v through Transfer/LinAlgT.v). *)
From Coq Require Import List QArith Qabs Reals Qreals Lra Lia Arith Bool.
From NV Require Import Scalar.Ops Model.Common Model.LinAlg Proofs.LinAlgSums Proofs.LinAlgR Proofs.LinAlgSolve
  Proofs.LinAlgSDD Transfer.LinAlgT.
Import ListNotations.

Lemma Q2R_Qabs q : Q2R (Qabs q) = Rabs (Q2R q).
Proof.
  destruct (Qlt_le_dec q 0) as [Hneg|Hpos].
  - rewrite (Qeq_eqR _ _ (Qabs_neg q (Qlt_le_weak _ _ Hneg))), Q2R_opp.
    apply Qlt_Rlt in Hneg. rewrite Q2R_0 in Hneg. rewrite Rabs_left by exact Hneg. reflexivity.
  - rewrite (Qeq_eqR _ _ (Qabs_pos q Hpos)).
    apply Qle_Rle in Hpos. rewrite Q2R_0 in Hpos. rewrite Rabs_right by lra. reflexivity.
Qed.

(* strict diagonal dominance of a rational matrix, in rational arithmetic *)
Definition sddQ (A : list (list Q)) : Prop := forall i, (i < length A)%nat ->
  (sumr Qops 0 (length A) (fun j => if Nat.eqb j i then 0 else Qabs (get2 Qops A i j)) < Qabs (get2 Qops A i i))%Q.

Lemma sddQ_sdd A : sddQ A -> sdd (mQ2R A).
Proof.
  intros H i Hi. rewrite mQ2R_length in *. specialize (H i Hi). apply Qlt_Rlt in H.
  rewrite <- sumr_transfer in H. rewrite Q2R_Qabs, <- get2_transfer in H.
  erewrite sumr_ext; [exact H|]. intros j _. cbv beta.
  destruct (Nat.eqb j i); [symmetry; apply Q2R_0|]. rewrite Q2R_Qabs, get2_transfer. reflexivity.
Qed.

(* [G] every size: no pivot of the executable Doolittle factorisation of a strictly diagonally dominant rational matrix is zero *)
Theorem sdd_pivots_nonzero_Q A : sddQ A ->
  forall i, (i < length A)%nat -> ~ (get2 Qops (snd (doolittle Qops A)) i i == 0)%Q.
Proof.
  intros H i Hi E. pose proof (sdd_pivots_nonzero (mQ2R A) (sddQ_sdd A H) i) as P.
  rewrite mQ2R_length in P. specialize (P Hi). apply P.
  rewrite doolittle_transfer. cbn [snd]. rewrite get2_transfer. rewrite (Qeq_eqR _ _ E). apply Q2R_0.
Qed.
Print Assumptions sdd_pivots_nonzero_Q.

(* [G] the executable lu_solve returns a result on every strictly diagonally dominant rational matrix, with A X == b *)
Theorem lu_solve_sdd_correct_Q (A b : list (list Q)) dim : let n := length A in (0 < n)%nat -> is_square A = true ->
  sddQ A -> rectQ n dim b ->
  exists X, lu_solve Qops A b = Ok X /\
    forall i c, (i < n)%nat -> (c < dim)%nat ->
      (sumr Qops 0 n (fun k => omul Qops (get2 Qops A i k) (get2 Qops X k c)) == get2 Qops b i c)%Q.
Proof.
  intros n Hn Hsq Hs Hb. apply lu_solve_correct_Q; try assumption. apply sdd_pivots_nonzero_Q, Hs.
Qed.
Print Assumptions lu_solve_sdd_correct_Q.

(* non-vacuity, executable *)
Example sddQ_example :
  sddQ [[4; 1; -2]; [1; -5; 3]; [0; 2; 3]]%Q /\
  exists X, lu_solve Qops [[4; 1; -2]; [1; -5; 3]; [0; 2; 3]]%Q [[1; 0]; [2; 1]; [3; 5]]%Q = Ok X /\
            mmul Qops [[4; 1; -2]; [1; -5; 3]; [0; 2; 3]]%Q X = [[1; 0]; [2; 1]; [3; 5]]%Q.
Proof.
  split.
  - intros i Hi. cbn [length] in Hi. assert (C : (i = 0 \/ i = 1 \/ i = 2)%nat) by lia.
    destruct C as [-> | [-> | ->]]; vm_compute; reflexivity.
  - eexists. split; vm_compute; reflexivity.
Qed.
