(* Parametricity transfer for Model.LinAlg: results about the real instance hold for the executable Q instance. *)
From Coq Require Import List QArith Reals Qreals Lra Lia Arith Bool.
From Param Require Import Param.
From NV Require Import Scalar.Ops Model.Common Model.LinAlg.
Import ListNotations.

Parametricity Recursive doolittle.
Parametricity Recursive lu_solve.
Parametricity Recursive matrix_determinant.
Parametricity Recursive matrix_inverse.
Parametricity Recursive lu_factor.

Definition mQ2R (m : list (list Q)) : list (list R) := map (map Q2R) m.

Lemma res_R_mat (r1 : res (list (list Q))) (r2 : res (list (list R))) :
  res_R _ _ (list_R _ _ (list_R Q R QR)) r1 r2 -> r2 = res_map mQ2R r1.
Proof. destruct 1 as [a b H| |]; cbn; [apply list_list_R_map_inv in H; rewrite H|..]; reflexivity. Qed.
Lemma res_R_scal (r1 : res Q) (r2 : res R) : res_R _ _ QR r1 r2 -> r2 = res_map Q2R r1.
Proof. destruct 1 as [a b H| |]; cbn; [rewrite H|..]; reflexivity. Qed.

Theorem doolittle_transfer A :
  doolittle Rops (mQ2R A) = (mQ2R (fst (doolittle Qops A)), mQ2R (snd (doolittle Qops A))).
Proof.
  pose proof (doolittle_R Q R QR Qops Rops ops_QR A (mQ2R A) (list_list_R_map A)) as H.
  destruct H as [l1 l1' H1 l2 l2' H2]. cbn [fst snd].
  apply list_list_R_map_inv in H1, H2. unfold mQ2R. rewrite H1, H2. reflexivity.
Qed.
Theorem lu_solve_transfer A b : lu_solve Rops (mQ2R A) (mQ2R b) = res_map mQ2R (lu_solve Qops A b).
Proof. apply res_R_mat. apply (lu_solve_R Q R QR Qops Rops ops_QR); apply list_list_R_map. Qed.
Theorem matrix_inverse_transfer A : matrix_inverse Rops (mQ2R A) = res_map mQ2R (matrix_inverse Qops A).
Proof. apply res_R_mat. apply (matrix_inverse_R Q R QR Qops Rops ops_QR); apply list_list_R_map. Qed.
Theorem lu_factor_transfer A b : lu_factor Rops (mQ2R A) (mQ2R b) = res_map mQ2R (lu_factor Qops A b).
Proof. apply res_R_mat. apply (lu_factor_R Q R QR Qops Rops ops_QR); apply list_list_R_map. Qed.
Theorem matrix_determinant_transfer A : matrix_determinant Rops (mQ2R A) = res_map Q2R (matrix_determinant Qops A).
Proof. apply res_R_scal. apply (matrix_determinant_R Q R QR Qops Rops ops_QR); apply list_list_R_map. Qed.

Lemma get2_transfer (m : list (list Q)) i j : get2 Rops (mQ2R m) i j = Q2R (get2 Qops m i j).
Proof.
  unfold get2, mQ2R. cbn [o0 Rops Qops]. rewrite <- Q2R_0.
  change (@nil R) with (map Q2R []). rewrite (map_nth (map Q2R) m [] i). apply map_nth.
Qed.
(* non-zero pivots of the executable instance are non-zero real pivots *)
Lemma pivots_transfer A n :
  (forall i, (i < n)%nat -> ~ (get2 Qops (snd (doolittle Qops A)) i i == 0)%Q) ->
  forall i, (i < n)%nat -> get2 Rops (snd (doolittle Rops (mQ2R A))) i i <> 0%R.
Proof.
  intros H i Hi. rewrite doolittle_transfer. cbn [snd]. rewrite get2_transfer.
  intros E. apply (H i Hi). apply eqR_Qeq. rewrite E, Q2R_0. reflexivity.
Qed.

Parametricity Recursive pivot_with.
Parametricity Recursive matrix_identity.
Theorem matrix_identity_transfer n : matrix_identity Rops n = mQ2R (matrix_identity Qops n).
Proof. apply list_list_R_map_inv. apply (matrix_identity_R Q R QR Qops Rops ops_QR). apply nat_R_refl. Qed.
Theorem pivot_with_transfer I m :
  pivot_with Rops (mQ2R I) (mQ2R m) =
  (mQ2R (fst (fst (pivot_with Qops I m))), mQ2R (snd (fst (pivot_with Qops I m))), snd (pivot_with Qops I m)).
Proof.
  pose proof (pivot_with_R Q R QR Qops Rops ops_QR I (mQ2R I) (list_list_R_map I) m (mQ2R m) (list_list_R_map m)) as H.
  destruct H as [x x' H1 ns ns' H2]. destruct H1 as [a a' Ha b b' Hb]. cbn [fst snd].
  apply list_list_R_map_inv in Ha, Hb. apply nat_R_eq in H2. unfold mQ2R. rewrite Ha, Hb, H2. reflexivity.
Qed.
Lemma mQ2R_length m : length (mQ2R m) = length m.
Proof. apply map_length. Qed.
(* non-zero pivots after the row exchanges, from the executable instance *)
Lemma pivoted_pivots_transfer A n :
  (forall i, (i < n)%nat ->
     ~ (get2 Qops (snd (doolittle Qops (fst (fst (pivot_with Qops (matrix_identity Qops (length A)) A))))) i i == 0)%Q) ->
  forall i, (i < n)%nat ->
     get2 Rops (snd (doolittle Rops (fst (fst (pivot_with Rops (matrix_identity Rops (length (mQ2R A))) (mQ2R A)))))) i i <> 0%R.
Proof.
  intros H. rewrite mQ2R_length, matrix_identity_transfer, pivot_with_transfer. cbn [fst]. apply pivots_transfer, H.
Qed.
Lemma is_square_transfer A : is_square (mQ2R A) = is_square A.
Proof.
  unfold is_square, mQ2R. rewrite map_length. induction A as [|r A IH]; [reflexivity|].
  cbn [map forallb]. rewrite map_length.
  f_equal. clear IH. generalize (length (r :: A)). intros k. induction A as [|r' A IH]; [reflexivity|].
  cbn [map forallb]. rewrite map_length, IH. reflexivity.
Qed.

(* ---- the central solver theorem at the executable instance ---- *)
From NV Require Import Proofs.LinAlgSums Proofs.LinAlgR Proofs.LinAlgSolve.
Definition rectQ (r c : nat) (m : list (list Q)) : Prop := length m = r /\ forall row, In row m -> length row = c.
Lemma rectQ_R r c m : rectQ r c m -> rect r c (mQ2R m).
Proof.
  intros [H1 H2]. split; [rewrite mQ2R_length; exact H1|].
  intros row Hin. unfold mQ2R in Hin. apply in_map_iff in Hin. destruct Hin as [x [<- Hx]]. rewrite map_length. apply H2, Hx.
Qed.
Lemma sumT_transfer l : sumT Rops (map Q2R l) = Q2R (sumT Qops l).
Proof. induction l as [|x l IH]; cbn [map sumT]; [symmetry; apply Q2R_0|]. cbn [oadd Rops Qops]. rewrite Qred_R, Q2R_plus, IH. reflexivity. Qed.
Lemma sumr_transfer a n (f : nat -> Q) : sumr Rops a n (fun i => Q2R (f i)) = Q2R (sumr Qops a n f).
Proof. unfold sumr. rewrite <- sumT_transfer, map_map. reflexivity. Qed.

Theorem lu_solve_correct_Q (A b : list (list Q)) dim : let n := length A in (0 < n)%nat -> is_square A = true -> rectQ n dim b ->
  (forall i, (i < n)%nat -> ~ (get2 Qops (snd (doolittle Qops A)) i i == 0)%Q) ->
  exists X, lu_solve Qops A b = Ok X /\
    forall i c, (i < n)%nat -> (c < dim)%nat ->
      (sumr Qops 0 n (fun k => omul Qops (get2 Qops A i k) (get2 Qops X k c)) == get2 Qops b i c)%Q.
Proof.
  intros n Hn Hsq Hb Hp.
  destruct (lu_solve_correct (mQ2R A) (mQ2R b) dim) as (XR & EX & _ & HX); rewrite ?mQ2R_length; try assumption.
  { rewrite is_square_transfer. exact Hsq. }
  { apply rectQ_R, Hb. }
  { apply pivots_transfer, Hp. }
  rewrite lu_solve_transfer in EX. destruct (lu_solve Qops A b) as [X| |]; cbn [res_map] in EX; try discriminate.
  injection EX as <-. exists X. split; [reflexivity|].
  intros i c Hi Hc. apply eqR_Qeq. rewrite <- get2_transfer, <- sumr_transfer. rewrite mQ2R_length in HX. rewrite <- (HX i c Hi Hc).
  apply sumr_ext. intros k _. cbn [omul Qops]. rewrite Qred_R, Q2R_mult, !get2_transfer. reflexivity.
Qed.
