(* Parametricity transfer of C17 (affine knot range) to the executable Q instance. *)
From Coq Require Import List QArith Reals Qreals Lra Lia Arith Bool.
From Param Require Import Param.
From NV Require Import Scalar.Ops Model.Common Model.Basis Model.Knots Model.Eval Model.Config
  Proofs.BasisR Proofs.ConfigR Transfer.BasisT Transfer.HullT.
Import ListNotations.

Parametricity Recursive aff_kv.

Lemma Forall2_Qeq_of_R (a b : list Q) : map Q2R a = map Q2R b -> Forall2 Qeq a b.
Proof.
  revert b. induction a as [|x a IH]; intros [|y b] H; cbn in H; try discriminate; constructor.
  - apply eqR_Qeq. congruence.
  - apply IH. congruence.
Qed.

Theorem aff_kv_transfer a b U : aff_kv Rops (Q2R a) (Q2R b) (map Q2R U) = map Q2R (aff_kv Qops a b U).
Proof. apply list_R_map_inv. apply (aff_kv_R Q R QR Qops Rops ops_QR); try reflexivity. apply list_R_map. Qed.

(* C17 on the executed rationals: an increasing affine change of the knot range with the parameter mapped the same way *)
Theorem curve_point_aff_Q dim p (U : list Q) (P : list (list Q)) (u a b : Q) :
  (0 < a)%Q -> (p < length P)%nat -> (length P + p <= length U)%nat ->
  Forall2 Qeq (curve_point Qops dim p (aff_kv Qops a b U) P (oadd Qops (omul Qops a u) b)) (curve_point Qops dim p U P u).
Proof.
  intros Ha Hn HL. apply Forall2_Qeq_of_R. rewrite <- !curve_point_transfer, <- aff_kv_transfer.
  assert (E : Q2R (oadd Qops (omul Qops a u) b) = (Q2R a * Q2R u + Q2R b)%R).
  { cbn [oadd omul Qops]. rewrite Qred_R, Q2R_plus, Qred_R, Q2R_mult. reflexivity. }
  rewrite E. apply curve_point_aff.
  - rewrite <- Q2R_0. apply Qlt_Rlt. exact Ha.
  - rewrite map_length. exact Hn.
  - rewrite !map_length. exact HL.
Qed.
