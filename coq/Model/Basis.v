(* Executable model of geomdl/helpers.py: span search, multiplicity, basis functions
   (A2.1 - A2.5).  Polymorphic in the scalar operations.  Definitions only. *)
From Coq Require Import List Arith Bool.
From Param Require Import Param.
From NV Require Import Scalar.Ops Model.Common.
Import ListNotations.

Section M.
Context {T : Type} (K : ops T).
Notation "x + y" := (oadd K x y). Notation "x - y" := (osub K x y).
Notation "x * y" := (omul K x y). Notation "x / y" := (odiv K x y).
Notation kn := (kn K).

(* ---- helpers.find_span_linear ---- *)
Fixpoint find_span_linear_aux (fuel : nat) (U : list T) (n span : nat) (u : T) : nat :=
  match fuel with
  | O => span
  | S f => if andb (Nat.ltb span n) (oleb K (kn U span) u) then find_span_linear_aux f U n (S span) u else span
  end.
Definition find_span_linear (p : nat) (U : list T) (n : nat) (u : T) : nat :=
  Nat.pred (find_span_linear_aux n U n (S p) u).

(* ---- helpers.find_span_binsearch (tol is the keyword argument, default 10e-6) ---- *)
Fixpoint binsearch_loop (fuel : nat) (U : list T) (u : T) (low high mid : nat) : option nat :=
  match fuel with
  | O => None
  | S f =>
    if orb (oltb K u (kn U mid)) (oleb K (kn U (S mid)) u) then
      if oltb K u (kn U mid) then binsearch_loop f U u low mid (Nat.div2 (Nat.add low mid))
      else binsearch_loop f U u mid high (Nat.div2 (Nat.add mid high))
    else Some mid
  end.
(* the end-of-domain shortcut is  `if knot >= knot_vector[n + 1]: return n`  (repaired code, /repo b25d1c5; the pinned code
   tested abs(kv[n+1] - knot) <= tol).  tol only enters the rounding of the first mid point, which is exact here. *)
Definition find_span_binsearch (tol : T) (p : nat) (U : list T) (num : nat) (u : T) : option nat :=
  let n := Nat.pred num in
  if oleb K (kn U (S n)) u then Some n
  else binsearch_loop (S (S (length U))) U u p num (Nat.div2 (S (Nat.add p num))).

(* ---- helpers.find_multiplicity ---- *)
Definition find_multiplicity (tol : T) (u : T) (U : list T) : nat :=
  length (filter (fun k => oleb K (oabs K (u - k)) tol) U).

(* ---- helpers.basis_function (A2.2) as a scan over the previous row ---- *)
Definition left (U : list T) (span : nat) (u : T) (k : nat) : T := u - kn U (Nat.sub (Nat.add span 1) k).
Definition right (U : list T) (span : nat) (u : T) (k : nat) : T := kn U (Nat.add span k) - u.
Fixpoint inner (U : list T) (span : nat) (u : T) (j r : nat) (Nold : list T) (saved : T) : list T :=
  match Nold with
  | [] => [saved]
  | x :: rest => let temp := x / (right U span u (S r) + left U span u (Nat.sub j r)) in
                 (saved + right U span u (S r) * temp) :: inner U span u j (S r) rest (left U span u (Nat.sub j r) * temp)
  end.
Fixpoint basis_function (p : nat) (U : list T) (span : nat) (u : T) : list T :=
  match p with
  | O => [o1 K]
  | S q => inner U span u (S q) 0 (basis_function q U span u) (o0 K)
  end.

Definition basis_functions (p : nat) (U : list T) (spans : list nat) (us : list T) : list (list T) :=
  map (fun su => basis_function p U (fst su) (snd su)) (combine spans us).

(* basis_function_all: N[j][i] = basis_function(i)[j] for j <= i ; entries above are None in Python,
   modelled as the list of rows restricted to defined entries: row j = [bf_i[j] | i = j..p] *)
Definition basis_function_all (p : nat) (U : list T) (span : nat) (u : T) : list (list T) :=
  map (fun j => map (fun i => nth j (basis_function i U span u) (o0 K)) (seq j (Nat.sub (S p) j))) (seq 0 (S p)).

(* ---- helpers.basis_function_one (A2.4) ---- *)
Definition isz (x : T) : bool := oeqb K x (o0 K).
Definition in_half_open (a b u : T) : bool := andb (oleb K a u) (oltb K u b).

Definition one_table_step (U : list T) (span : nat) (u : T) (p k : nat) (N : list T) : list T :=
  let saved0 := if isz (nth 0 N (o0 K)) then o0 K
                else ((u - kn U span) * nth 0 N (o0 K)) / (kn U (Nat.add span k) - kn U span) in
  fst (fold_left (fun (st : list T * T) j =>
        let '(N, saved) := st in
        let Uleft := kn U (S (Nat.add span j)) in
        let Uright := kn U (S (Nat.add (Nat.add span j) k)) in
        if isz (nth (S j) N (o0 K)) then (upd N j saved, o0 K)
        else let temp := nth (S j) N (o0 K) / (Uright - Uleft) in
             (upd N j (saved + (Uright - u) * temp), (u - Uleft) * temp))
      (seq 0 (S (Nat.sub p k))) (N, saved0)).

Definition basis_function_one (p : nat) (U : list T) (span : nat) (u : T) : T :=
  if orb (andb (Nat.eqb span 0) (oeqb K u (kn U 0)))
         (andb (Nat.eqb (Nat.add span (Nat.add p 2)) (length U)) (oeqb K u (kn U (Nat.pred (length U)))))
  then o1 K
  else if orb (oltb K u (kn U span)) (oleb K (kn U (S (Nat.add span p))) u) then o0 K
  else
    (* one extra trailing zero so that N[j+1] is defined for j = p *)
    let N0 := map (fun j => if in_half_open (kn U (Nat.add span j)) (kn U (S (Nat.add span j))) u then o1 K else o0 K) (seq 0 (S p)) ++ [o0 K] in
    nth 0 (fold_left (fun N k => one_table_step U span u p k N) (seq 1 p) N0) (o0 K).

(* ---- helpers.basis_function_ders (A2.3) with functional arrays ---- *)
Definition ndu_table (p : nat) (U : list T) (span : nat) (u : T) : list (list T) :=
  fold_left (fun ndu j =>
     let '(ndu', saved) :=
       fold_left (fun (st : list (list T) * T) r =>
          let '(nd, saved) := st in
          let d := right U span u (S r) + left U span u (Nat.sub j r) in
          let nd1 := set2 nd j r d in
          let temp := get2 K nd1 r (Nat.pred j) / d in
          let nd2 := set2 nd1 r j (saved + right U span u (S r) * temp) in
          (nd2, left U span u (Nat.sub j r) * temp)) (seq 0 j) (ndu, o0 K) in
     set2 ndu' j j saved) (seq 1 p) (mk2 (S p) (S p) (o1 K)).

(* derivative column of function index r: [d_1 .. d_order] before multiplication by p!/(p-k)! *)
Definition ders_for_r (p order : nat) (ndu : list (list T)) (r : nat) : list T :=
  let a0 := mk2 2 (S p) (o1 K) in
  let '(_, _, _, out) :=
    fold_left (fun (st : list (list T) * nat * nat * list T) k =>
      let '(a, s1, s2, out) := st in
      let rk := Nat.sub r k in
      let pk := Nat.sub p k in
      let '(a, d) := if Nat.leb k r then
                        let v := get2 K a s1 0 / get2 K ndu (S pk) rk in
                        (set2 a s2 0 v, v * get2 K ndu rk pk)
                     else (a, o0 K) in
      let j1 := if Nat.leb k (S r) then 1 else Nat.sub k r in
      let j2 := if Nat.leb (Nat.pred r) pk then Nat.pred k else Nat.sub p r in
      let '(a, d) := fold_left (fun (ad : list (list T) * T) j =>
                        let '(a, d) := ad in
                        let idx := Nat.sub (Nat.add r j) k in
                        let v := (get2 K a s1 j - get2 K a s1 (Nat.pred j)) / get2 K ndu (S pk) idx in
                        (set2 a s2 j v, d + v * get2 K ndu idx pk)) (seq j1 (Nat.sub (S j2) j1)) (a, d) in
      let '(a, d) := if Nat.leb r pk then
                        let v := oneg K (get2 K a s1 (Nat.pred k)) / get2 K ndu (S pk) r in
                        (set2 a s2 k v, d + v * get2 K ndu r pk)
                     else (a, d) in
      (a, s2, s1, out ++ [d])) (seq 1 order) (a0, 0, 1, []) in
  out.

(* order <= p is required by the Python code (it raises IndexError otherwise) *)
Definition basis_function_ders (p : nat) (U : list T) (span : nat) (u : T) (order : nat) : list (list T) :=
  let ndu := ndu_table p U span u in
  let row0 := map (fun j => get2 K ndu j p) (seq 0 (S p)) in
  let cols := map (ders_for_r p order ndu) (seq 0 (S p)) in
  let facs := snd (fold_left (fun (st : T * list T) k => let '(f, acc) := st in (f * ofnat K (Nat.sub p k), acc ++ [f])) (seq 1 order) (ofnat K p, [])) in
  row0 :: map (fun k => map (fun r => nth (Nat.pred k) (nth r cols []) (o0 K) * nth (Nat.pred k) facs (o0 K)) (seq 0 (S p))) (seq 1 order).

(* ---- helpers.basis_function_ders_one (A2.5) ---- *)
(* triangular table N[j][k], stored as list of columns: col k = [N[0][k]; ...; N[p][k]] *)
Definition ders_one_cols (p : nat) (U : list T) (span : nat) (u : T) : list (list T) :=
  let col0 := map (fun j => if in_half_open (kn U (Nat.add span j)) (kn U (S (Nat.add span j))) u then o1 K else o0 K) (seq 0 (S p)) in
  fst (fold_left (fun (st : list (list T) * list T) k =>
    let '(cols, prev) := st in
    let saved0 := if isz (nth 0 prev (o0 K)) then o0 K
                  else ((u - kn U span) * nth 0 prev (o0 K)) / (kn U (Nat.add span k) - kn U span) in
    let '(cur, _) := fold_left (fun (cs : list T * T) j =>
        let '(cur, saved) := cs in
        let Uleft := kn U (S (Nat.add span j)) in
        let Uright := kn U (S (Nat.add (Nat.add span j) k)) in
        if isz (nth (S j) prev (o0 K)) then (upd cur j saved, o0 K)
        else let temp := nth (S j) prev (o0 K) / (Uright - Uleft) in
             (upd cur j (saved + (Uright - u) * temp), (u - Uleft) * temp))
      (seq 0 (S (Nat.sub p k))) (repeat (o0 K) (S p), saved0) in
    (cols ++ [cur], cur)) (seq 1 p) ([col0], col0)).

Definition ders_one_k (p : nat) (U : list T) (span : nat) (u : T) (cols : list (list T)) (k : nat) : T :=
  let ND0 := firstn (S k) (nth (Nat.sub p k) cols []) ++ [o0 K] in
  nth 0 (fold_left (fun ND jj =>
    let c := ofnat K (Nat.add (Nat.sub p k) jj) in
    let saved0 := if isz (nth 0 ND (o0 K)) then o0 K
                  else nth 0 ND (o0 K) / (kn U (Nat.add (Nat.add span (Nat.sub p k)) jj) - kn U span) in
    fst (fold_left (fun (ns : list T * T) j =>
        let '(ND, saved) := ns in
        let Uleft := kn U (S (Nat.add span j)) in
        let Uright := kn U (S (Nat.add (Nat.add (Nat.add span j) (Nat.sub p k)) jj)) in
        if isz (nth (S j) ND (o0 K)) then (upd ND j (c * saved), o0 K)
        else let temp := nth (S j) ND (o0 K) / (Uright - Uleft) in
             (upd ND j (c * (saved - temp)), temp))
      (seq 0 (S (Nat.sub k jj))) (ND, saved0))) (seq 1 k) ND0) (o0 K).

Definition basis_function_ders_one (p : nat) (U : list T) (span : nat) (u : T) (order : nat) : list T :=
  if orb (oltb K u (kn U span)) (oleb K (kn U (S (Nat.add span p))) u) then repeat (o0 K) (S order)
  else
    let cols := ders_one_cols p U span u in
    nth 0 (nth p cols []) (o0 K) :: map (ders_one_k p U span u cols) (seq 1 order).
End M.
