(* Weighted (homogeneous) / unweighted control-point views as used by the NURBS classes:
   compatibility.combine_ctrlpts_weights and separate_ctrlpts_weights.  Definitions only. *)
From Coq Require Import List Arith Bool.
From Param Require Import Param.
From NV Require Import Scalar.Ops Model.Common.
Import ListNotations.

Section M.
Context {T : Type} (K : ops T).
Notation "x * y" := (omul K x y). Notation "x / y" := (odiv K x y).

(* [c*w for c in pt] + [w], zipped over points and weights *)
Definition hom_point (pt : list T) (w : T) : list T := map (fun c => c * w) pt ++ [w].
Definition hom_combine (P : list (list T)) (W : list T) : list (list T) :=
  map (fun pw => hom_point (fst pw) (snd pw)) (combine P W).
(* [c / ptw[-1] for c in ptw[:-1]] , ptw[-1] *)
Definition hom_unweight_point (ptw : list T) : list T := let w := last ptw (o0 K) in map (fun c => c / w) (removelast ptw).
Definition hom_unweight (Pw : list (list T)) : list (list T) := map hom_unweight_point Pw.
Definition hom_weights (Pw : list (list T)) : list T := map (fun ptw => last ptw (o0 K)) Pw.
End M.
