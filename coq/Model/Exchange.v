(* Executable model of geomdl/exchange.py + _exchange.py (C14): JSON (dict) export/import of curves, surfaces
   (with trims), volumes and containers; smesh / vmesh writers and readers; txt / csv control point formats.
   Token level: a JSON file is a tree jv whose number leaves are texts S, a mesh / text file is a list of rows of
   tokens.  The number <-> text codec is a parameter: pr = str(float) / json repr, prf = "{:.18f}".format,
   pa = float().  Scalars are polymorphic (ops T): weighting / unweighting of control points is arithmetic.
   import_vol_mesh is modelled in its repaired form (fixes/C14-vmesh-last-layer.diff: all w layers are read). *)
From Coq Require Import List Arith Bool String.
From NV Require Import Scalar.Ops Model.Common Model.Knots Model.Layout.
Import ListNotations.
Open Scope string_scope. Open Scope list_scope.
Notation length := List.length (only parsing).

(* JSON values and text-file tokens over the number text type S *)
Inductive jv (S : Type) : Type :=
| JNum (s : S) | JInt (n : nat) | JBool (b : bool) | JStr (s : string) | JArr (l : list (jv S)) | JObj (l : list (string * jv S)).
Arguments JNum {S}. Arguments JInt {S}. Arguments JBool {S}. Arguments JStr {S}. Arguments JArr {S}. Arguments JObj {S}.
Inductive tok (S : Type) : Type := TI (n : nat) | TF (s : S).
Arguments TI {S}. Arguments TF {S}.

Fixpoint mapM {X Y} (f : X -> res Y) (l : list X) : res (list Y) :=
  match l with
  | [] => Ok []
  | x :: r => res_bind (f x) (fun y => res_bind (mapM f r) (fun ys => Ok (y :: ys)))
  end.
Fixpoint mapO {X Y} (f : X -> option Y) (l : list X) : option (list Y) :=
  match l with
  | [] => Some []
  | x :: r => match f x, mapO f r with Some y, Some ys => Some (y :: ys) | _, _ => None end
  end.
Fixpoint assoc {V} (k : string) (l : list (string * V)) : option V :=
  match l with [] => None | (k', v) :: r => if String.eqb k k' then Some v else assoc k r end.

Section M.
Context {T : Type} (K : ops T).
Context {S : Type} (pr prf : T -> S) (pa : S -> T).
Notation "x * y" := (omul K x y). Notation "x / y" := (odiv K x y).
Notation pt := (list T).

(* ------------------------------------------------------------------ shapes (internal state of the objects) *)
(* *_pts = the stored control points: homogeneous (x*w, ..., w) when *_rat, plain coordinates otherwise *)
Record crv := mkC { c_rat : bool; c_deg : nat; c_kv : list T; c_pts : list pt; c_delta : T; c_rev : option nat }.
Record ffm := mkF { f_pts : list pt; f_name : string; f_rev : option nat }.
Inductive trim := TrC (c : crv) | TrF (f : ffm) | TrM (cs : list crv) (rev : option nat).
Record srf := mkS { s_rat : bool; s_pu : nat; s_pv : nat; s_Uu : list T; s_Uv : list T; s_su : nat; s_sv : nat;
                    s_pts : list pt; s_du : T; s_dv : T; s_rev : option nat; s_trims : list trim }.
Record vlm := mkV { v_rat : bool; v_pu : nat; v_pv : nat; v_pw : nat; v_Uu : list T; v_Uv : list T; v_Uw : list T;
                    v_su : nat; v_sv : nat; v_sw : nat; v_pts : list pt; v_du : T; v_dv : T; v_dw : T }.
Inductive shapes := SC (l : list crv) | SS (l : list srf) | SV (l : list vlm).

(* ------------------------------------------------------------------ compatibility.py weight helpers *)
Definition lastc (p : pt) : T := last p (o0 K).
Definition combine_w (pts : list pt) (ws : list T) : list pt :=
  map (fun pw => map (fun c => c * snd pw) (fst pw) ++ [snd pw]) (combine pts ws).
Definition ones (n : nat) : list T := repeat (o1 K) n.
Definition sep_pts (pw : list pt) : list pt := map (fun p => map (fun c => c / lastc p) (removelast p)) pw.
Definition sep_ws (pw : list pt) : list T := map lastc pw.
(* (x,y,z,w) -> (x*w,y*w,z*w,w) and back *)
Definition gen_ctrlptsw (pts : list pt) : list pt := map (fun p => map (fun c => c * lastc p) (removelast p) ++ [lastc p]) pts.
Definition gen_ctrlpts_weights (pts : list pt) : list pt := map (fun p => map (fun c => c / lastc p) (removelast p) ++ [lastc p]) pts.
Definition dimension (rat : bool) (pts : list pt) : nat := Nat.sub (length (hd [] pts)) (if rat then 1 else 0).
(* homogeneous points of any shape: polynomial shapes get weight 1 *)
Definition homog (rat : bool) (pts : list pt) : list pt := if rat then pts else combine_w pts (ones (length pts)).

(* ------------------------------------------------------------------ setters of the NURBS classes (validation) *)
(* set_ctrlpts: degree > 0, size >= degree + 1, stored point length >= minlen (2-D curve / surface: 3 with the weight,
   volume: 4), all points of one length *)
Definition set_pts (minlen : nat) (degs sizes : list nat) (pts : list pt) : res (list pt) :=
  if existsb (fun dg => Nat.eqb dg 0) degs then Rejected
  else if existsb (fun ds => Nat.ltb (snd ds) (fst ds + 1)) (combine degs sizes) then Rejected
  else match pts with
       | [] => Crash
       | p0 :: _ =>
         if Nat.ltb (length p0) minlen then Rejected
         else if forallb (fun p => Nat.eqb (length p) (length p0)) pts then Ok pts else Rejected
       end.
Definition set_kv (p : nat) (U : list T) (n : nat) : res (list T) :=
  res_bind (check K p U n) (fun b => if b then normalize K U else Rejected).
Definition set_delta (x : T) : res T := if orb (oleb K x (o0 K)) (oleb K (o1 K) x) then Rejected else Ok x.
Definition set_degree (n : nat) : res nat := if Nat.eqb n 0 then Rejected else Ok n.
Definition set_size (n : nat) : res nat := if Nat.eqb n 0 then Rejected else Ok n.

(* ------------------------------------------------------------------ JSON helpers *)
Notation jv := (jv S).
Definition jget (k : string) (v : jv) : option jv := match v with JObj l => assoc k l | _ => None end.
Definition as_nat (v : jv) : option nat := match v with JInt n => Some n | _ => None end.
Definition as_num (v : jv) : option T := match v with JNum s => Some (pa s) | JInt n => Some (ofnat K n) | _ => None end.
Definition as_arr (v : jv) : option (list jv) := match v with JArr l => Some l | _ => None end.
Definition as_str (v : jv) : option string := match v with JStr s => Some s | _ => None end.
Definition as_nums (v : jv) : option (list T) := match v with JArr l => mapO as_num l | _ => None end.
Definition as_pts (v : jv) : option (list pt) := match v with JArr l => mapO as_nums l | _ => None end.
Definition jnums (l : list T) : jv := JArr (map (fun x => JNum (pr x)) l).
Definition jpts (l : list pt) : jv := JArr (map jnums l).
Definition jrev (r : option nat) : list (string * jv) := match r with Some n => [("reversed", JInt n)] | None => [] end.
Definition get_rev (data : jv) : option nat := match jget "reversed" data with Some v => as_nat v | None => None end.
Definition jcp (rat : bool) (pts : list pt) : jv :=
  JObj (("points", jpts (if rat then sep_pts pts else pts)) :: (if rat then [("weights", jnums (sep_ws pts))] else [])).

(* ------------------------------------------------------------------ export_dict_* *)
Definition export_crv (c : crv) : jv :=
  JObj ([("type", JStr "spline"); ("rational", JBool (c_rat c)); ("dimension", JInt (dimension (c_rat c) (c_pts c)));
         ("degree", JInt (c_deg c)); ("knotvector", jnums (c_kv c)); ("control_points", jcp (c_rat c) (c_pts c));
         ("delta", JNum (pr (c_delta c)))] ++ jrev (c_rev c)).
Definition export_ff (f : ffm) : jv :=
  JObj ([("type", JStr "freeform"); ("dimension", JInt (length (hd [] (f_pts f)))); ("points", jpts (f_pts f));
         ("name", JStr (f_name f))] ++ jrev (f_rev f)).
Definition export_multi_crv (cs : list crv) (rev : option nat) : jv :=
  JObj ([("type", JStr "container"); ("count", JInt (length cs)); ("data", JArr (map export_crv cs))] ++ jrev rev).
Definition export_trim (t : trim) : jv :=
  match t with TrC c => export_crv c | TrF f => export_ff f | TrM cs rev => export_multi_crv cs rev end.
Definition export_surf (s : srf) : jv :=
  JObj ([("type", JStr "spline"); ("rational", JBool (s_rat s)); ("dimension", JInt (dimension (s_rat s) (s_pts s)));
         ("degree_u", JInt (s_pu s)); ("degree_v", JInt (s_pv s));
         ("knotvector_u", jnums (s_Uu s)); ("knotvector_v", jnums (s_Uv s));
         ("size_u", JInt (s_su s)); ("size_v", JInt (s_sv s)); ("control_points", jcp (s_rat s) (s_pts s));
         ("delta", JArr [JNum (pr (s_du s)); JNum (pr (s_dv s))])] ++ jrev (s_rev s) ++
        match s_trims s with
        | [] => []
        | ts => [("trims", JObj [("count", JInt (length ts)); ("data", JArr (map export_trim ts))])]
        end).
Definition export_vol (v : vlm) : jv :=
  JObj [("type", JStr "spline"); ("rational", JBool (v_rat v)); ("dimension", JInt (dimension (v_rat v) (v_pts v)));
        ("degree_u", JInt (v_pu v)); ("degree_v", JInt (v_pv v)); ("degree_w", JInt (v_pw v));
        ("knotvector_u", jnums (v_Uu v)); ("knotvector_v", jnums (v_Uv v)); ("knotvector_w", jnums (v_Uw v));
        ("size_u", JInt (v_su v)); ("size_v", JInt (v_sv v)); ("size_w", JInt (v_sw v));
        ("control_points", jcp (v_rat v) (v_pts v));
        ("delta", JArr [JNum (pr (v_du v)); JNum (pr (v_dv v)); JNum (pr (v_dw v))])].
(* export_dict_str: a single shape is a container of one *)
Definition export_json (sh : shapes) : jv :=
  let body (ty : string) (l : list jv) := JObj [("shape", JObj [("type", JStr ty); ("count", JInt (length l)); ("data", JArr l)])] in
  match sh with
  | SC l => body "curve" (map export_crv l)
  | SS l => body "surface" (map export_surf l)
  | SV l => body "volume" (map export_vol l)
  end.

(* ------------------------------------------------------------------ import_dict_* *)
Context (d1 d2 d3 : T).    (* default evaluation deltas of a fresh curve / surface / volume: 0.01, 0.05, 0.1 *)

Definition oreq {X Y} (o : option X) (err : res Y) (k : X -> res Y) : res Y := match o with Some x => k x | None => err end.
Definition seqs (a b : string) : bool := String.eqb a b.

(* weights setter: combine(self.ctrlpts, weights) (zip truncates), then set_ctrlpts again *)
Definition apply_weights (minlen : nat) (degs : list nat) (sizes : option (list nat)) (need : nat) (P1 : list pt) (cp : jv) : res (list pt) :=
  match jget "weights" cp with
  | None => Ok P1
  | Some wj =>
    oreq (as_nums wj) Crash (fun W =>
      let Pw := combine_w (sep_pts P1) W in
      res_bind (set_pts minlen degs (match sizes with Some sz => sz | None => [length Pw] end) Pw) (fun P2 =>
      if Nat.ltb (length P2) need then Crash else Ok P2))
  end.
Definition opt_delta (data : jv) (dflt : T) : res T :=
  match jget "delta" data with
  | None => Ok dflt
  | Some xj => oreq (as_num xj) Crash set_delta
  end.

(* import_dict_crv: a missing mandatory key is a RuntimeError (Crash) *)
Definition import_crv (data : jv) : res crv :=
  oreq (jget "degree" data) Crash (fun dj =>
  oreq (jget "control_points" data) Crash (fun cp =>
  oreq (jget "points" cp) Crash (fun pj =>
  oreq (jget "knotvector" data) Crash (fun kj =>
  oreq (as_nat dj) Crash (fun dg0 =>
  oreq (as_pts pj) Crash (fun P =>
  oreq (as_nums kj) Crash (fun U =>
  res_bind (set_degree dg0) (fun dg =>
  res_bind (set_pts 3 [dg] [length P] (combine_w P (ones (length P)))) (fun P1 =>
  res_bind (set_kv dg U (length P1)) (fun U' =>
  res_bind (apply_weights 3 [dg] None 0 P1 cp) (fun P2 =>
  res_bind (opt_delta data d1) (fun dl =>
  Ok (mkC true dg U' P2 dl (get_rev data)))))))))))))).

Definition import_ff (data : jv) : res ffm :=
  oreq (jget "points" data) Rejected (fun pj =>
  oreq (as_pts pj) Crash (fun P =>
  match P with
  | [] => Crash
  | _ => Ok (mkF P (match jget "name" data with
                    | Some nj => match as_str nj with Some nm => nm | None => "freeform geometry" end
                    | None => "freeform geometry" end) (get_rev data))
  end)).

Definition crv_dim (c : crv) : nat := dimension (c_rat c) (c_pts c).
Definition same_dims (cs : list crv) : bool :=
  match cs with [] => true | c0 :: _ => forallb (fun c => Nat.eqb (crv_dim c) (crv_dim c0)) cs end.

Definition import_multi_crv (data : jv) : res (list crv * option nat) :=
  oreq (jget "data" data) Crash (fun dj =>
  oreq (as_arr dj) Crash (fun l =>
  res_bind (mapM (fun t =>
      oreq (jget "type" t) Crash (fun tj =>
      oreq (as_str tj) Crash (fun ty =>
      if seqs ty "spline" then res_map Some (import_crv t)
      else if seqs ty "freeform" then res_bind (import_ff t) (fun _ => Crash)   (* container.add(freeform): AttributeError *)
      else Ok None))) l) (fun ocs =>
  let cs := flat_map (fun o => match o with Some c => [c] | None => [] end) ocs in
  if same_dims cs then Ok (cs, get_rev data) else Rejected))).

Definition import_trim (t : jv) : res (option trim) :=
  oreq (jget "type" t) Crash (fun tj =>
  oreq (as_str tj) Crash (fun ty =>
  if seqs ty "spline" then res_map (fun c => Some (TrC c)) (import_crv t)
  else if seqs ty "freeform" then res_map (fun f => Some (TrF f)) (import_ff t)
  else if seqs ty "container" then res_map (fun p => Some (TrM (fst p) (snd p))) (import_multi_crv t)
  else Ok None)).
Definition trim_dim (t : trim) : nat :=
  match t with
  | TrC c => crv_dim c
  | TrF f => length (hd [] (f_pts f))
  | TrM cs _ => match cs with [] => 0 | c0 :: _ => crv_dim c0 end
  end.

(* delta of a surface / volume: a number (all directions) or a list of exactly n numbers *)
Definition multi_delta (n : nat) (data : jv) (dflt : list T) : res (list T) :=
  match jget "delta" data with
  | None => Ok dflt
  | Some (JArr l) => if Nat.eqb (length l) n then mapM (fun xj => oreq (as_num xj) Crash set_delta) l else Rejected
  | Some (JNum x) => res_map (fun y => repeat y n) (set_delta (pa x))
  | Some (JInt k) => res_map (fun y => repeat y n) (set_delta (ofnat K k))
  | Some _ => Rejected
  end.

Definition import_surf (data : jv) : res srf :=
  oreq (jget "degree_u" data) Rejected (fun puj =>
  oreq (jget "degree_v" data) Rejected (fun pvj =>
  oreq (jget "size_u" data) Rejected (fun suj =>
  oreq (jget "size_v" data) Rejected (fun svj =>
  oreq (jget "control_points" data) Rejected (fun cp =>
  oreq (jget "points" cp) Rejected (fun pj =>
  oreq (jget "knotvector_u" data) Rejected (fun kuj =>
  oreq (jget "knotvector_v" data) Rejected (fun kvj =>
  oreq (as_nat puj) Crash (fun pu0 => oreq (as_nat pvj) Crash (fun pv0 =>
  oreq (as_nat suj) Crash (fun su0 => oreq (as_nat svj) Crash (fun sv0 =>
  oreq (as_pts pj) Crash (fun P => oreq (as_nums kuj) Crash (fun Uu => oreq (as_nums kvj) Crash (fun Uv =>
  res_bind (set_degree pu0) (fun pu => res_bind (set_degree pv0) (fun pv =>
  res_bind (set_size su0) (fun su => res_bind (set_size sv0) (fun sv =>
  res_bind (set_pts 3 [pu; pv] [su; sv] (combine_w P (ones (length P)))) (fun P1 =>
  if Nat.ltb (length P1) (Nat.mul su sv) then Crash else
  res_bind (set_kv pu Uu su) (fun Uu' => res_bind (set_kv pv Uv sv) (fun Uv' =>
  res_bind (apply_weights 3 [pu; pv] (Some [su; sv]) (Nat.mul su sv) P1 cp) (fun P2 =>
  res_bind (multi_delta 2 data [d2; d2]) (fun dl =>
  res_bind (match jget "trims" data with
            | None => Ok []
            | Some tj => oreq (jget "data" tj) Crash (fun dj => oreq (as_arr dj) Crash (fun l =>
                res_bind (mapM import_trim l) (fun ots =>
                let ts := flat_map (fun o => match o with Some t => [t] | None => [] end) ots in
                if forallb (fun t => Nat.eqb (trim_dim t) 2) ts then Ok ts else Rejected)))
            end) (fun ts =>
  Ok (mkS true pu pv Uu' Uv' su sv P2 (nth 0 dl d2) (nth 1 dl d2) (get_rev data) ts)))))))))))))))))))))))))).

Definition import_vol (data : jv) : res vlm :=
  oreq (jget "degree_u" data) Rejected (fun puj =>
  oreq (jget "degree_v" data) Rejected (fun pvj =>
  oreq (jget "degree_w" data) Rejected (fun pwj =>
  oreq (jget "size_u" data) Rejected (fun suj =>
  oreq (jget "size_v" data) Rejected (fun svj =>
  oreq (jget "size_w" data) Rejected (fun swj =>
  oreq (jget "control_points" data) Rejected (fun cp =>
  oreq (jget "points" cp) Rejected (fun pj =>
  oreq (jget "knotvector_u" data) Rejected (fun kuj =>
  oreq (jget "knotvector_v" data) Rejected (fun kvj =>
  oreq (jget "knotvector_w" data) Rejected (fun kwj =>
  oreq (as_nat puj) Crash (fun pu0 => oreq (as_nat pvj) Crash (fun pv0 => oreq (as_nat pwj) Crash (fun pw0 =>
  oreq (as_nat suj) Crash (fun su0 => oreq (as_nat svj) Crash (fun sv0 => oreq (as_nat swj) Crash (fun sw0 =>
  oreq (as_pts pj) Crash (fun P =>
  oreq (as_nums kuj) Crash (fun Uu => oreq (as_nums kvj) Crash (fun Uv => oreq (as_nums kwj) Crash (fun Uw =>
  res_bind (set_degree pu0) (fun pu => res_bind (set_degree pv0) (fun pv => res_bind (set_degree pw0) (fun pw =>
  res_bind (set_size su0) (fun su => res_bind (set_size sv0) (fun sv => res_bind (set_size sw0) (fun sw =>
  res_bind (set_pts 4 [pu; pv; pw] [su; sv; sw] (combine_w P (ones (length P)))) (fun P1 =>
  res_bind (set_kv pu Uu su) (fun Uu' => res_bind (set_kv pv Uv sv) (fun Uv' => res_bind (set_kv pw Uw sw) (fun Uw' =>
  res_bind (apply_weights 4 [pu; pv; pw] (Some [su; sv; sw]) 0 P1 cp) (fun P2 =>
  res_bind (multi_delta 3 data [d3; d3; d3]) (fun dl =>
  Ok (mkV true pu pv pw Uu' Uv' Uw' su sv sw P2 (nth 0 dl d3) (nth 1 dl d3) (nth 2 dl d3))))))))))))))))))))))))))))))))))).

(* import_dict_str: the delta keyword overrides every direction when 0 < delta < 1 *)
Definition in01 (x : T) : bool := andb (oltb K (o0 K) x) (oltb K x (o1 K)).
Definition ovr_c (dov : option T) (c : crv) : crv :=
  match dov with Some x => if in01 x then mkC (c_rat c) (c_deg c) (c_kv c) (c_pts c) x (c_rev c) else c | None => c end.
Definition ovr_s (dov : option T) (s : srf) : srf :=
  match dov with
  | Some x => if in01 x then mkS (s_rat s) (s_pu s) (s_pv s) (s_Uu s) (s_Uv s) (s_su s) (s_sv s) (s_pts s) x x (s_rev s) (s_trims s) else s
  | None => s end.
Definition ovr_v (dov : option T) (v : vlm) : vlm :=
  match dov with
  | Some x => if in01 x then mkV (v_rat v) (v_pu v) (v_pv v) (v_pw v) (v_Uu v) (v_Uv v) (v_Uw v) (v_su v) (v_sv v) (v_sw v) (v_pts v) x x x else v
  | None => v end.
Definition import_json (dov : option T) (file : jv) : res shapes :=
  oreq (jget "shape" file) Crash (fun sh =>
  oreq (jget "data" sh) Crash (fun dj =>
  oreq (as_arr dj) Crash (fun l =>
  match l with
  | [] => Ok (SC [])
  | _ =>
  oreq (jget "type" sh) Crash (fun tj =>
  oreq (as_str tj) Crash (fun ty =>
  if seqs ty "curve" then res_map SC (mapM (fun x => res_map (ovr_c dov) (import_crv x)) l)
  else if seqs ty "surface" then res_map SS (mapM (fun x => res_map (ovr_s dov) (import_surf x)) l)
  else if seqs ty "volume" then res_map SV (mapM (fun x => res_map (ovr_v dov) (import_vol x)) l)
  else Crash))
  end))).

(* ------------------------------------------------------------------ smesh / vmesh *)
Notation tok := (tok S).
Definition row := list tok.
Definition frow (l : list T) : row := map (fun x => TF (prf x)) l.
Definition tok_int (t : tok) : res nat := match t with TI n => Ok n | TF _ => Rejected end.   (* int('0.5'): ValueError *)
Definition tok_num (t : tok) : T := match t with TI n => ofnat K n | TF s => pa s end.
Definition cell (f : list row) (i j : nat) : res tok :=
  match nth_error f i with
  | Some r => match nth_error r j with Some t => Ok t | None => Crash end
  | None => Crash
  end.
Definition cell_int (f : list row) (i j : nat) : res nat := res_bind (cell f i j) tok_int.
Definition nums_row (f : list row) (i : nat) : res (list T) :=
  match nth_error f i with Some r => Ok (map tok_num r) | None => Crash end.
Definition slice_rows (f : list row) (a n : nat) : list row := firstn n (skipn a f).

(* export_smesh, one file per surface: dimension; degrees; sizes; knot vectors; points u-fastest in (x,y,z,w); "1"; the file ends
   with a newline, which the reader's split turns into an empty last row *)
Definition export_smesh1 (s : srf) : list row :=
  [[TI (dimension (s_rat s) (s_pts s))]; [TI (s_pu s); TI (s_pv s)]; [TI (s_su s); TI (s_sv s)]; frow (s_Uu s); frow (s_Uv s)]
  ++ map frow (gen_ctrlpts_weights (flip_ctrlpts [] (homog (s_rat s) (s_pts s)) (s_su s) (s_sv s)))
  ++ [[TI 1]; []].
Definition export_smesh (l : list srf) : list (list row) := map export_smesh1 l.

Definition import_surf_mesh (f : list row) : res srf :=
  res_bind (cell_int f 0 0) (fun dm => if negb (Nat.eqb dm 3) then Crash else
  res_bind (cell_int f 1 0) (fun pu0 => res_bind (set_degree pu0) (fun pu =>
  res_bind (cell_int f 1 1) (fun pv0 => res_bind (set_degree pv0) (fun pv =>
  res_bind (cell_int f 2 0) (fun su => res_bind (cell_int f 2 1) (fun sv =>
  let mesh := map (map tok_num) (slice_rows f 5 (Nat.mul su sv)) in
  res_bind (flip_ctrlpts_u_res [] mesh su sv) (fun fl =>
  res_bind (set_pts 3 [pu; pv] [su; sv] (gen_ctrlptsw fl)) (fun P =>
  if Nat.ltb (length P) (Nat.mul su sv) then Crash else
  res_bind (nums_row f 3) (fun Uu => res_bind (set_kv pu Uu su) (fun Uu' =>
  res_bind (nums_row f 4) (fun Uv => res_bind (set_kv pv Uv sv) (fun Uv' =>
  Ok (mkS true pu pv Uu' Uv' su sv P d2 d2 None [])))))))))))))).
Definition import_smesh (fs : list (list row)) : res (list srf) := mapM import_surf_mesh fs.

(* w layers of n points each *)
Definition layers {X} (sw n : nat) (l : list X) : list (list X) := map (fun i => firstn n (skipn (Nat.mul n i) l)) (seq 0 sw).
Definition export_vmesh1 (v : vlm) : list row :=
  [[TI (dimension (v_rat v) (v_pts v))]; [TI (v_pu v); TI (v_pv v); TI (v_pw v)]; [TI (v_su v); TI (v_sv v); TI (v_sw v)];
   frow (v_Uu v); frow (v_Uv v); frow (v_Uw v)]
  ++ map frow (gen_ctrlpts_weights
       (flat_map (fun lay => flip_ctrlpts [] lay (v_su v) (v_sv v)) (layers (v_sw v) (Nat.mul (v_su v) (v_sv v)) (homog (v_rat v) (v_pts v)))))
  ++ [[TI 1]; []].
Definition export_vmesh (l : list vlm) : list (list row) := map export_vmesh1 l.

Definition import_vol_mesh (f : list row) : res vlm :=
  res_bind (cell_int f 0 0) (fun dm => if negb (Nat.eqb dm 3) then Crash else
  res_bind (cell_int f 1 0) (fun pu0 => res_bind (set_degree pu0) (fun pu =>
  res_bind (cell_int f 1 1) (fun pv0 => res_bind (set_degree pv0) (fun pv =>
  res_bind (cell_int f 1 2) (fun pw0 => res_bind (set_degree pw0) (fun pw =>
  res_bind (cell_int f 2 0) (fun su => res_bind (cell_int f 2 1) (fun sv => res_bind (cell_int f 2 2) (fun sw =>
  let n := Nat.mul su sv in
  let mesh := map (map tok_num) (slice_rows f 6 (Nat.mul n sw)) in
  res_bind (mapM (fun lay => flip_ctrlpts_u_res [] lay su sv) (layers sw n mesh)) (fun fls =>
  res_bind (set_pts 4 [pu; pv; pw] [su; sv; sw] (gen_ctrlptsw (List.concat fls))) (fun P =>
  res_bind (nums_row f 3) (fun Uu => res_bind (set_kv pu Uu su) (fun Uu' =>
  res_bind (nums_row f 4) (fun Uv => res_bind (set_kv pv Uv sv) (fun Uv' =>
  res_bind (nums_row f 5) (fun Uw => res_bind (set_kv pw Uw sw) (fun Uw' =>
  Ok (mkV true pu pv pw Uu' Uv' Uw' su sv sw P d3 d3 d3))))))))))))))))))).
Definition import_vmesh (fs : list (list row)) : res (list vlm) := mapM import_vol_mesh fs.

(* ------------------------------------------------------------------ txt / csv: points = ctrlptsw (rational) or ctrlpts *)
(* 1-D: one control point per row, coordinates separated by "," *)
Definition export_txt1 (pts : list pt) : list (list S) := map (map pr) pts.
Definition import_txt1 (f : list (list S)) : list pt := map (map pa) f.
(* 2-D: row = u index, cells separated by ";" = v index *)
Definition export_txt2 (su sv : nat) (pts : list pt) : list (list (list S)) :=
  map (fun i => map (fun j => map pr (nth (j + sv * i) pts [])) (seq 0 sv)) (seq 0 su).
Definition import_txt2 (f : list (list (list S))) : list pt * nat * nat :=
  (flat_map (map (map pa)) f, length f, length (last f [])).
(* csv: header "dim 1, dim 2, ..." then one point per row; the reader skips the first line *)
Definition export_csv (pts : list pt) : list nat * list (list S) := (seq 1 (length (hd [] pts)), map (map pr) pts).
Definition import_csv (f : list nat * list (list S)) : list pt := map (map pa) (snd f).
End M.
