(* Executable model of the control-net layout code of geomdl (C13): index arithmetic, the 2-D grid view,
   control-point managers, compatibility.flip_*, operations.transpose / flip, construct.extract_* /
   construct_*, sweeping.sweep_vector and the index expressions of evaluators.py.
   Pure index / list manipulation: polymorphic in the point type A and in the knot type Kn, indices are nat.
   Convention under test: in the flat list the v index varies fastest, then u, then w. *)
From Coq Require Import List Arith Bool.
From NV Require Import Model.Common.
Import ListNotations.

(* the reference layout *)
Definition idx2 (sv u v : nat) : nat := v + sv * u.
Definition idx3 (su sv u v w : nat) : nat := v + sv * (u + su * w).

(* control_points.py: SurfaceManager.find_index / VolumeManager.find_index (as written there) *)
Definition find_index2 (su sv u v : nat) : nat := v + u * sv.
Definition find_index3 (su sv sw u v w : nat) : nat := v + u * sv + w * su * sv.
(* evaluators.py: SurfaceEvaluator.evaluate / VolumeEvaluator.evaluate control point subscripts *)
Definition ev_idx2 (sv iu k iv l : nat) : nat := iv + l + sv * (iu + k).
Definition ev_idx3 (su sv iu du iv dv iw dw : nat) : nat := iv + dv + sv * (iu + du + su * (iw + dw)).

(* direction tags of construct_* ; anything else is an invalid direction string *)
Inductive dir := DU | DV | DW | DBad.

Section L.
Context {A Kn : Type} (d : A).

(* nested "for i in range(a): for j in range(b): out.append(g i j)" *)
Definition tab2 {B} (a b : nat) (g : nat -> nat -> B) : list B := flat_map (fun i => map (g i) (seq 0 b)) (seq 0 a).
Definition tab3 {B} (a b c : nat) (g : nat -> nat -> nat -> B) : list B := flat_map (fun i => tab2 b c (g i)) (seq 0 a).
Definition at_ (P : list A) (i : nat) : A := nth i P d.
Definition get2d (V : list (list A)) (i j : nat) : A := nth j (nth i V []) d.

(* ---- control point managers: get_ctrlpt returns None on IndexError, set_ctrlpt raises GeomdlException *)
Definition mgr_get (P : list A) (i : nat) : option A := nth_error P i.
Definition mgr_set (P : list A) (i : nat) (x : A) : res (list A) :=
  if i <? length P then Ok (upd P i x) else Rejected.
Inductive mop := MSet2 (u v : nat) (x : A) | MSet3 (u v w : nat) (x : A).
(* a manager session: reset() then a sequence of set_ctrlpt calls (a rejected call leaves the array unchanged) *)
Definition mgr_run2 (su sv : nat) (ops : list (nat * nat * A)) : list A :=
  fold_left (fun P o => match o with (u, v, x) => match mgr_set P (find_index2 su sv u v) x with Ok P' => P' | _ => P end end)
            ops (repeat d (su * sv)).
Definition mgr_run3 (su sv sw : nat) (ops : list (nat * nat * nat * A)) : list A :=
  fold_left (fun P o => match o with (u, v, w, x) => match mgr_set P (find_index3 su sv sw u v w) x with Ok P' => P' | _ => P end end)
            ops (repeat d (su * sv * sw)).

(* ---- BSpline.Surface.set_ctrlpts: the [u][v] grid view generated from the flat list *)
Definition view2d (su sv : nat) (P : list A) : list (list A) :=
  map (fun i => map (fun j => at_ P (j + i * sv)) (seq 0 sv)) (seq 0 su).
(* ---- BSpline.Surface.ctrlpts2d setter: sizes are taken from the nested list, every element is written
   to position v + size_v*u of a fresh list *)
Definition scatter2 (su sv : nat) (g : nat -> nat -> A) : list A :=
  fold_left (fun acc u => fold_left (fun acc v => upd acc (v + sv * u) (g u v)) (seq 0 sv) acc)
            (seq 0 su) (repeat d (su * sv)).
Definition set2d (V : list (list A)) : list A * nat * nat :=
  let su := length V in let sv := length (nth 0 V []) in
  (scatter2 su sv (get2d V), su, sv).

(* ---- compatibility.py *)
Definition flip_ctrlpts_u (P : list A) (su sv : nat) : list A := tab2 su sv (fun i j => at_ P (i + j * su)).
Definition flip_ctrlpts (P : list A) (su sv : nat) : list A := tab2 sv su (fun i j => at_ P (i + j * sv)).
(* IndexError exactly when the list is shorter than su*sv *)
Definition flip_ctrlpts_u_res (P : list A) (su sv : nat) : res (list A) :=
  if su * sv <=? length P then Ok (flip_ctrlpts_u P su sv) else Crash.
Definition flip_ctrlpts_res (P : list A) (su sv : nat) : res (list A) :=
  if su * sv <=? length P then Ok (flip_ctrlpts P su sv) else Crash.
Definition flip_ctrlpts2d (V : list (list A)) (su sv : nat) : list (list A) :=
  let su' := if orb (su =? 0) (sv =? 0) then length V else su in
  let sv' := if orb (su =? 0) (sv =? 0) then length (nth 0 V []) else sv in
  map (fun i => map (fun j => get2d V j i) (seq 0 su')) (seq 0 sv').

(* ---- shapes: degrees, knot vectors (opaque payload), sizes, flat net *)
Record curve := mkCrv { c_p : nat; c_U : list Kn; c_P : list A }.
Record surf := mkSurf { s_pu : nat; s_pv : nat; s_Uu : list Kn; s_Uv : list Kn; s_su : nat; s_sv : nat; s_P : list A }.
Record vol := mkVol { v_pu : nat; v_pv : nat; v_pw : nat; v_Uu : list Kn; v_Uv : list Kn; v_Uw : list Kn;
                      v_su : nat; v_sv : nat; v_sw : nat; v_P : list A }.

(* ---- operations.transpose: read the [u][v] view, build the [v][u] nested list, assign through the ctrlpts2d setter *)
Definition transpose (s : surf) : surf :=
  let V := view2d (s_su s) (s_sv s) (s_P s) in
  let Vn := map (fun v => map (fun u => get2d V u v) (seq 0 (s_su s))) (seq 0 (s_sv s)) in
  match set2d Vn with
  | (P', su', sv') => mkSurf (s_pv s) (s_pu s) (s_Uv s) (s_Uu s) su' sv' P'
  end.
(* ---- operations.flip: new_cpts[n-1-i] = cpts[i] *)
Definition flip (s : surf) : surf := mkSurf (s_pu s) (s_pv s) (s_Uu s) (s_Uv s) (s_su s) (s_sv s) (rev (s_P s)).

(* ---- construct.extract_curves: (dict key 'u', dict key 'v') *)
Definition extract_curves (s : surf) : list curve * list curve :=
  let su := s_su s in let sv := s_sv s in let P := s_P s in
  (map (fun v => mkCrv (s_pu s) (s_Uu s) (map (fun u => at_ P (v + sv * u)) (seq 0 su))) (seq 0 sv),
   map (fun u => mkCrv (s_pv s) (s_Uv s) (map (fun v => at_ P (v + sv * u)) (seq 0 sv))) (seq 0 su)).

(* a surface built by assigning a nested list to ctrlpts2d *)
Definition surf_of2d (pu pv : nat) (Uu Uv : list Kn) (V : list (list A)) : surf :=
  match set2d V with (P, su, sv) => mkSurf pu pv Uu Uv su sv P end.
(* ---- construct.extract_surfaces: (dict key 'uv', 'uw', 'vw') *)
Definition extract_surfaces (b : vol) : list surf * list surf * list surf :=
  let su := v_su b in let sv := v_sv b in let sw := v_sw b in
  let c u v w := at_ (v_P b) (v + sv * (u + su * w)) in
  (map (fun w => surf_of2d (v_pu b) (v_pv b) (v_Uu b) (v_Uv b)
                   (map (fun u => map (fun v => c u v w) (seq 0 sv)) (seq 0 su))) (seq 0 sw),
   map (fun v => surf_of2d (v_pu b) (v_pw b) (v_Uu b) (v_Uw b)
                   (map (fun u => map (fun w => c u v w) (seq 0 sw)) (seq 0 su))) (seq 0 sv),
   map (fun u => surf_of2d (v_pv b) (v_pw b) (v_Uv b) (v_Uw b)
                   (map (fun v => map (fun w => c u v w) (seq 0 sw)) (seq 0 sv))) (seq 0 su)).

(* knot vector validity (knotvector.check) is a parameter: knot vectors are opaque here *)
Context (kv_ok : nat -> list Kn -> nat -> bool).

(* setters of a fresh surface in the order used by construct_surface *)
Definition build_surf (pu pv su sv : nat) (P : list A) (Uu Uv : list Kn) : res surf :=
  if orb (pu =? 0) (pv =? 0) then Rejected
  else if orb (su <? pu + 1) (sv <? pv + 1) then Rejected
  else if negb (kv_ok pu Uu su) then Rejected
  else if negb (kv_ok pv Uv sv) then Rejected
  else Ok (mkSurf pu pv Uu Uv su sv P).

Definition same_curves (p n : nat) (cs : list curve) : bool :=
  forallb (fun c => andb (c_p c =? p) (length (c_P c) =? n)) cs.

(* ---- construct.construct_surface(direction, *curves, degree=deg_o, knotvector=kv_o) *)
Definition construct_surface (dr : dir) (deg_o : nat) (kv_o : list Kn) (cs : list curve) : res surf :=
  match dr with
  | DU | DV =>
    match cs with
    | c0 :: _ :: _ =>
      let k := length cs in
      if deg_o =? 0 then Rejected            (* knotvector.generate(degree, size) is evaluated eagerly *)
      else
        let p := c_p c0 in let n := length (c_P c0) in
        if negb (same_curves p n cs) then Rejected
        else
          let cat := flat_map c_P cs in
          match dr with
          | DU => build_surf deg_o p k n cat kv_o (c_U c0)
          | _ => build_surf p deg_o n k (flip_ctrlpts_u cat n k) (c_U c0) kv_o
          end
    | _ => Rejected
    end
  | _ => Rejected
  end.

Definition build_vol (pu pv pw su sv sw : nat) (P : list A) (Uu Uv Uw : list Kn) : res vol :=
  if orb (orb (pu =? 0) (pv =? 0)) (pw =? 0) then Rejected
  else if orb (orb (su <? pu + 1) (sv <? pv + 1)) (sw <? pw + 1) then Rejected
  else if negb (kv_ok pu Uu su) then Rejected
  else if negb (kv_ok pv Uv sv) then Rejected
  else if negb (kv_ok pw Uw sw) then Rejected
  else Ok (mkVol pu pv pw Uu Uv Uw su sv sw P).

Definition same_surfs (pu pv su sv : nat) (ss : list surf) : bool :=
  forallb (fun s => andb (andb (s_pu s =? pu) (s_pv s =? pv)) (andb (s_su s =? su) (s_sv s =? sv))) ss.

(* ---- construct.construct_volume(direction, *surfaces, degree=deg_o, knotvector=kv_o)  (repaired 'u' and 'v'
   branches, see /verif/fixes/C13-construct-volume-uv.diff): input surface number k becomes the iso-surface
   at parameter index k of the named direction; its own (u, v) become the remaining directions in order *)
Definition construct_volume (dr : dir) (deg_o : nat) (kv_o : list Kn) (ss : list surf) : res vol :=
  match dr with
  | DBad => Rejected
  | _ =>
    match ss with
    | s0 :: _ :: _ =>
      let k := length ss in
      if deg_o =? 0 then Rejected
      else
        let au := s_su s0 in let av := s_sv s0 in
        if negb (same_surfs (s_pu s0) (s_pv s0) au av ss) then Rejected
        else
          let cat := flat_map s_P ss in
          match dr with
          | DU => (* size_u = k, size_v = au, size_w = av *)
            build_vol deg_o (s_pu s0) (s_pv s0) k au av
              (tab3 av k au (fun w u v => at_ cat (w + v * av + u * au * av))) kv_o (s_Uu s0) (s_Uv s0)
          | DV => (* size_u = au, size_v = k, size_w = av *)
            build_vol (s_pu s0) deg_o (s_pv s0) au k av
              (tab3 av au k (fun w u v => at_ cat (w + u * av + v * au * av))) (s_Uu s0) kv_o (s_Uv s0)
          | _ => build_vol (s_pu s0) (s_pv s0) deg_o au av k cat (s_Uu s0) (s_Uv s0) kv_o
          end
    | _ => Rejected
    end
  end.

(* ---- sweeping.sweep_vector(obj, vec): tr is the translation of a control point by vec; kv2 is
   knotvector.generate(1, 2).  (repaired: the curve branch passes degree=1, see fixes/C13-sweep-vector-curve-degree.diff) *)
Context (tr : A -> A).
Definition sweep_curve (kv2 : list Kn) (c : curve) : res surf :=
  construct_surface DU 1 kv2 [c; mkCrv (c_p c) (c_U c) (map tr (c_P c))].
Definition sweep_surface (kv2 : list Kn) (s : surf) : res vol :=
  construct_volume DW 1 kv2 [s; mkSurf (s_pu s) (s_pv s) (s_Uu s) (s_Uv s) (s_su s) (s_sv s) (map tr (s_P s))].

(* ---- evaluators.py at the knots of a degree-1 shape: the basis is a unit vector, so the evaluated point
   is the control point the subscript expression selects.  At grid index i the span start is min i (n-2)
   and the non-zero basis function is number i - min i (n-2). *)
Definition eval_knots2 (su sv : nat) (P : list A) : list A :=
  tab2 su sv (fun i j => let iu := Nat.min i (su - 2) in let iv := Nat.min j (sv - 2) in
                         at_ P (ev_idx2 sv iu (i - iu) iv (j - iv))).
Definition eval_knots3 (su sv sw : nat) (P : list A) : list A :=
  tab3 su sv sw (fun i j k => let iu := Nat.min i (su - 2) in let iv := Nat.min j (sv - 2) in let iw := Nat.min k (sw - 2) in
                              at_ P (ev_idx3 su sv iu (i - iu) iv (j - iv) iw (k - iw))).
End L.
Arguments curve : clear implicits.
Arguments surf : clear implicits.
Arguments vol : clear implicits.
