(* Executable model of operations.split_curve, split_surface_u, split_surface_v, decompose_curve and
   decompose_surface (directions u, v, uv).

   Splitting = multiplicity s and span of the parameter, r = degree - s insertions through
   operations.insert_knot(..., check_num=False) (Model/InsertKnot.v), slicing of the refined knot vector
   (left: [0:knot_span] + [param]; right: (degree+1) * [param] + [knot_span:]) and of the refined net
   ([0:ks+r] / [ks+r-1:], through ctrlpts2d for surfaces).  The pieces are fresh objects of the input's class
   created with the default normalize_kv=True: their knot-vector setters run knotvector.check (ValueError when
   it fails) and knotvector.normalize.  Rational shapes: the same code on the weighted control points.
   Decomposition = repeated splitting at the first interior knot of what is left (fuelled loop).
   The functions return new records; the input record is not changed (Python: deepcopy first).
   Valid for clamped knot vectors with interior multiplicities <= degree.  Definitions only. *)
From Coq Require Import List Arith Bool ZArith.
From Param Require Import Param.
From NV Require Import Scalar.Ops Model.Common Model.Basis Model.Knots Model.KnotIns Model.InsertKnot.
Import ListNotations.

Section M.
Context {T : Type} (K : ops T).
Notation kn := (kn K).

(* knot-vector setter of a freshly created geometry (normalize_kv=True) *)
Definition set_kv (p : nat) (kv : list T) (n : nat) : res (list T) :=
  match check K p kv n with
  | Ok true => normalize K kv
  | Ok false => Rejected
  | Rejected => Rejected
  | Crash => Crash
  end.

(* `param == domain[0] or param == domain[1]` with domain = (kv[degree], kv[-(degree+1)]) *)
Definition at_domain_end (p : nat) (U : list T) (param : T) : bool :=
  orb (oeqb K param (kn U p)) (oeqb K param (kn U (Nat.sub (length U) (S p)))).

(* knot vectors of the two pieces from the refined knot vector *)
Definition split_knots (p : nat) (U : list T) (size : nat) (param : T) : list T * list T :=
  let knot_span := S (find_span_linear K p U size param) in
  (firstn knot_span U ++ [param], repeat param (S p) ++ skipn knot_span U).

(* ks, s, r of the split functions *)
Definition split_ks (p : nat) (U : list T) (size : nat) (param : T) : nat :=
  Nat.add (Nat.sub (find_span_linear K p U size param) p) 1.

(* ---- operations.split_curve ---- *)
Definition split_curve (tol : T) (c : curve) (param : T) : res (curve * curve) :=
  let p := c_p c in
  if at_domain_end p (c_U c) param then Rejected else
  let ks := split_ks p (c_U c) (length (c_P c)) param in
  let s := find_multiplicity K tol param (c_U c) in
  let r := Nat.sub p s in
  let tc := fst (insert_knot_curve K tol false c [Some param] [Z.of_nat r]) in
  let kvs := split_knots p (c_U tc) (length (c_P tc)) param in
  let P1 := firstn (Nat.add ks r) (c_P tc) in
  let P2 := skipn (Nat.sub (Nat.add ks r) 1) (c_P tc) in
  res_bind (set_kv p (fst kvs) (length P1)) (fun k1 =>
  res_bind (set_kv p (snd kvs) (length P2)) (fun k2 =>
  Ok (mkC p k1 P1, mkC p k2 P2))).

(* ---- surfaces: ctrlpts2d view ([u][v]) of the flat net and the ctrlpts2d setter ---- *)
Definition net2d (g : surf) : list (list (list T)) :=
  map (fun u_ => map (fun v_ => getp (s_P g) (Nat.add v_ (Nat.mul (s_sv g) u_))) (seq 0 (s_sv g))) (seq 0 (s_su g)).
Definition mk_surf (pu pv : nat) (rows : list (list (list T))) (kvu kvv : list T) : res surf :=
  let su := length rows in
  let sv := length (nth 0 rows []) in
  res_bind (set_kv pu kvu su) (fun ku =>
  res_bind (set_kv pv kvv sv) (fun kv =>
  Ok (mkS pu pv ku kv su sv (concat rows)))).

(* ---- operations.split_surface_u ---- *)
Definition split_surface_u (tol : T) (g : surf) (param : T) : res (surf * surf) :=
  let p := s_pu g in
  if at_domain_end p (s_Uu g) param then Rejected else
  let ks := split_ks p (s_Uu g) (s_su g) param in
  let s := find_multiplicity K tol param (s_Uu g) in
  let r := Nat.sub p s in
  let tg := fst (insert_knot_surf K tol false g [Some param; None] [Z.of_nat r; 0%Z]) in
  let kvs := split_knots p (s_Uu tg) (s_su tg) param in
  let rows := net2d tg in
  res_bind (mk_surf p (s_pv tg) (firstn (Nat.add ks r) rows) (fst kvs) (s_Uv tg)) (fun g1 =>
  res_bind (mk_surf p (s_pv tg) (skipn (Nat.sub (Nat.add ks r) 1) rows) (snd kvs) (s_Uv tg)) (fun g2 =>
  Ok (g1, g2))).

(* ---- operations.split_surface_v ---- *)
Definition split_surface_v (tol : T) (g : surf) (param : T) : res (surf * surf) :=
  let p := s_pv g in
  if at_domain_end p (s_Uv g) param then Rejected else
  let ks := split_ks p (s_Uv g) (s_sv g) param in
  let s := find_multiplicity K tol param (s_Uv g) in
  let r := Nat.sub p s in
  let tg := fst (insert_knot_surf K tol false g [None; Some param] [0%Z; Z.of_nat r]) in
  let kvs := split_knots p (s_Uv tg) (s_sv tg) param in
  let rows := net2d tg in
  res_bind (mk_surf (s_pu tg) p (map (firstn (Nat.add ks r)) rows) (s_Uu tg) (fst kvs)) (fun g1 =>
  res_bind (mk_surf (s_pu tg) p (map (skipn (Nat.sub (Nat.add ks r) 1)) rows) (s_Uu tg) (snd kvs)) (fun g2 =>
  Ok (g1, g2))).

(* ---- decomposition: kv[degree+1 : -(degree+1)] and the while-loop on its first element ---- *)
Definition interior_knots (p : nat) (U : list T) : list T := slice U (S p) (Nat.sub (length U) (S p)).

Fixpoint decompose_curve_loop (fuel : nat) (tol : T) (c : curve) (acc : list curve) : res (list curve) :=
  match fuel with
  | O => Crash
  | S f =>
    match interior_knots (c_p c) (c_U c) with
    | [] => Ok (rev (c :: acc))
    | knot :: _ =>
      match split_curve tol c knot with
      | Ok (c1, c2) => decompose_curve_loop f tol c2 (c1 :: acc)
      | Rejected => Rejected
      | Crash => Crash
      end
    end
  end.
Definition decompose_curve (tol : T) (c : curve) : res (list curve) :=
  decompose_curve_loop (S (length (c_U c))) tol c [].

(* inner function `decompose(srf, idx, split_func_list)` ; idx = 0 (u) or 1 (v) *)
Fixpoint decompose_surf_loop (fuel : nat) (tol : T) (idx : nat) (g : surf) (acc : list surf) : res (list surf) :=
  match fuel with
  | O => Crash
  | S f =>
    let p := if Nat.eqb idx 0 then s_pu g else s_pv g in
    let U := if Nat.eqb idx 0 then s_Uu g else s_Uv g in
    match interior_knots p U with
    | [] => Ok (rev (g :: acc))
    | knot :: _ =>
      match (if Nat.eqb idx 0 then split_surface_u tol g knot else split_surface_v tol g knot) with
      | Ok (g1, g2) => decompose_surf_loop f tol idx g2 (g1 :: acc)
      | Rejected => Rejected
      | Crash => Crash
      end
    end
  end.
Definition decompose_dir (tol : T) (idx : nat) (g : surf) : res (list surf) :=
  decompose_surf_loop (S (Nat.add (length (s_Uu g)) (length (s_Uv g)))) tol idx g [].

Fixpoint res_concat_map {A B : Type} (f : A -> res (list B)) (l : list A) : res (list B) :=
  match l with
  | [] => Ok []
  | x :: r => res_bind (f x) (fun a => res_bind (res_concat_map f r) (fun b => Ok (a ++ b)))
  end.

(* operations.decompose_surface(obj, decompose_dir=d) ; d: 0 = 'u', 1 = 'v', 2 = 'uv', anything else is rejected *)
Definition decompose_surface (tol : T) (d : nat) (g : surf) : res (list surf) :=
  match d with
  | 0 => decompose_dir tol 0 g
  | 1 => decompose_dir tol 1 g
  | 2 => res_bind (decompose_dir tol 0 g) (fun gs => res_concat_map (decompose_dir tol 1) gs)
  | _ => Rejected
  end.
End M.
