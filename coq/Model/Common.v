(* Shared executable definitions: result type, functional arrays, small list helpers.  No proofs. *)
From Coq Require Import List Arith Bool.
From Param Require Import Param.
From NV Require Import Scalar.Ops.
Import ListNotations.

(* Outcome of an API call: a value, a deliberate rejection (GeomdlException / ValueError /
   documented refusal), or a crash (IndexError / TypeError / ZeroDivisionError ...). *)
Inductive res (A : Type) : Type := Ok (a : A) | Rejected | Crash.
Arguments Ok {A}. Arguments Rejected {A}. Arguments Crash {A}.
Parametricity res.

Definition res_map {A B} (f : A -> B) (r : res A) : res B :=
  match r with Ok a => Ok (f a) | Rejected => Rejected | Crash => Crash end.
Definition res_bind {A B} (r : res A) (f : A -> res B) : res B :=
  match r with Ok a => f a | Rejected => Rejected | Crash => Crash end.

Fixpoint upd {A} (l : list A) (i : nat) (x : A) : list A :=
  match l, i with
  | [], _ => []
  | _ :: r, O => x :: r
  | y :: r, S j => y :: upd r j x
  end.

Section Arr.
Context {T : Type} (K : ops T).
Definition kn (U : list T) (i : nat) : T := nth i U (o0 K).
Definition get2 (m : list (list T)) (i j : nat) : T := nth j (nth i m []) (o0 K).
Definition set2 (m : list (list T)) (i j : nat) (x : T) : list (list T) := upd m i (upd (nth i m []) j x).
Definition mk2 (r c : nat) (x : T) : list (list T) := repeat (repeat x c) r.
Fixpoint sumT (l : list T) : T := match l with [] => o0 K | x :: r => oadd K x (sumT r) end.
(* vectors = points *)
Definition vadd (a b : list T) : list T := map (fun p => oadd K (fst p) (snd p)) (combine a b).
Definition vsub (a b : list T) : list T := map (fun p => osub K (fst p) (snd p)) (combine a b).
Definition vscale (c : T) (a : list T) : list T := map (fun x => omul K c x) a.
Definition vdivs (a : list T) (c : T) : list T := map (fun x => odiv K x c) a.
Definition vzero (d : nat) : list T := repeat (o0 K) d.
Definition vdot (a b : list T) : T := sumT (map (fun p => omul K (fst p) (snd p)) (combine a b)).
End Arr.

Fixpoint firstn_ {A} (n : nat) (l : list A) : list A := firstn n l.
Definition slice {A} (l : list A) (a b : nat) : list A := firstn (b - a) (skipn a l).
Definition lastn {A} (n : nat) (l : list A) : list A := skipn (length l - n) l.
Definition nthd {A} (d : A) (l : list A) (i : nat) : A := nth i l d.
