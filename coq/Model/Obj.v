(* Executable model of the object state machines of geomdl (abstract.py, BSpline.py, NURBS.py, multi.py,
   tessellate.py, operations.py in-place operations): definition fields, derived/cached fields, one transition
   per public mutator / reader, deep copies, containers holding references to geometries (a heap), provenance
   ids of the mutable slots.  The model describes the code as repaired by fixes/C12-*.diff.
   The pure view functions (sampled points, bounding box, tessellation) are Section variables so that the
   invariant proofs (Proofs/ObjR.v) do not depend on what they compute; Model/ObjRun.v instantiates them with
   the executable evaluators.  Definitions only. *)
From Coq Require Import List Arith Bool.
From NV Require Import Scalar.Ops Model.Common Model.Knots Model.Weights Model.Equal.
Import ListNotations.

Section M.
Context {T : Type} (K : ops T).
Notation "x + y" := (oadd K x y). Notation "x - y" := (osub K x y).
Notation "x * y" := (omul K x y). Notation "x / y" := (odiv K x y).

(* ---------------------------------------------------------------- definition and object *)
Record defn := mkDef {
  d_pdim : nat;                  (* 1 curve, 2 surface, 3 volume *)
  d_rat : bool;                  (* NURBS.* (homogeneous control points) or BSpline.* *)
  d_deg : list nat;              (* _degree *)
  d_kv : list (list T);          (* _knot_vector *)
  d_cp : list (list T);          (* _control_points (x*w, y*w, z*w, w) if rational *)
  d_size : list nat;             (* _control_points_size *)
  d_delta : list T }.            (* _delta *)

Definition tessres : Type := (list (list T) * list (list nat))%type.   (* vertex positions, faces as vertex indices *)
Definition bboxres : Type := (list T * list T)%type.

Record obj := mkObj {
  o_def : defn;
  o_cpts : list (list T);        (* _cache['ctrlpts'], [] = not cached (rational only) *)
  o_cwts : list T;               (* _cache['weights'] *)
  o_bbox : option bboxres;       (* _bounding_box *)
  o_cp2d : list (list (list T)); (* _control_points2D (surfaces), rebuilt eagerly by set_ctrlpts *)
  o_eval : list (list T);        (* _eval_points, [] = not evaluated *)
  o_tess : option (nat * tessres); (* tessellator vertices/faces with the vertex_spacing they were made with *)
  o_ids : list nat }.            (* provenance ids of the mutable slots, see slot numbers below *)

(* view functions: sampled points of a definition, bounding box of a point list, tessellation
   (vertex_spacing, definition [sample sizes], sampled points) *)
Variable f_ev : defn -> list (list T).
Variable f_bbox : list (list T) -> bboxres.
Variable f_tess : nat -> defn -> list (list T) -> tessres.

Definition set_deg (d : defn) (x : list nat) := mkDef (d_pdim d) (d_rat d) x (d_kv d) (d_cp d) (d_size d) (d_delta d).
Definition set_kv (d : defn) (x : list (list T)) := mkDef (d_pdim d) (d_rat d) (d_deg d) x (d_cp d) (d_size d) (d_delta d).
Definition set_cp (d : defn) (x : list (list T)) (sz : list nat) := mkDef (d_pdim d) (d_rat d) (d_deg d) (d_kv d) x sz (d_delta d).
Definition set_delta (d : defn) (x : list T) := mkDef (d_pdim d) (d_rat d) (d_deg d) (d_kv d) (d_cp d) (d_size d) x.

(* ---------------------------------------------------------------- provenance ids
   The definition slots are tracked: 0 _control_points, 1 _knot_vector (outer list), 2 _delta, 3 _degree,
   4 _control_points_size.  Rebinding a slot (self._x = new list) gives it a fresh id; in-place writes
   (self._x[k] = v) keep the id.  Only set_ctrlpts rebinds (slots 0 and 4); degree, knot vector and delta
   setters write in place. *)
Definition nslots : nat := 5.
Fixpoint fresh_ids (next : nat) (n : nat) : list nat := match n with O => [] | S m => next :: fresh_ids (S next) m end.
(* rebind the slots listed in [sl] to next, next+1, ... *)
Fixpoint rebind (ids : list nat) (next : nat) (sl : list nat) : list nat :=
  match sl with [] => ids | s :: r => rebind (upd ids s next) (S next) r end.

(* ---------------------------------------------------------------- reset(), following the class hierarchy *)
Definition zero_sizes (d : defn) : list nat :=
  match d_pdim d with 1 => d_size d | 2 => [0; 0] | _ => [0; 0; 0] end.
Definition with_def (o : obj) (d : defn) : obj := mkObj d (o_cpts o) (o_cwts o) (o_bbox o) (o_cp2d o) (o_eval o) (o_tess o) (o_ids o).
(* reset(evalpts=True): sampled points; Surface.reset additionally always clears the tessellation *)
Definition reset_eval (o : obj) : obj :=
  mkObj (o_def o) (o_cpts o) (o_cwts o) (o_bbox o) (o_cp2d o) [] (if Nat.eqb (d_pdim (o_def o)) 2 then None else o_tess o) (o_ids o).
(* reset(ctrlpts=True, evalpts=True) *)
Definition reset_all (o : obj) : obj :=
  mkObj (set_cp (o_def o) [] (zero_sizes (o_def o))) [] [] None [] [] None (o_ids o).

Definition reshape2d (su sv : nat) (cp : list (list T)) : list (list (list T)) :=
  map (fun i => map (fun j => nth (Nat.add j (Nat.mul i sv)) cp []) (seq 0 sv)) (seq 0 su).
Definition cp2d_of (d : defn) : list (list (list T)) :=
  if Nat.eqb (d_pdim d) 2 then reshape2d (nth 0 (d_size d) 0) (nth 1 (d_size d) 0) (d_cp d) else [].

(* ---------------------------------------------------------------- readers (fill caches) *)
Inductive out :=
| ONone | OPts (l : list (list T)) | OWts (l : list T) | OGrid (g : list (list (list T)))
| OBox (b : bboxres) | OTess (t : tessres) | ONoWts.

Definition read_cpts (o : obj) : obj * list (list T) :=
  if d_rat (o_def o) then
    if is_nil (o_cpts o) then
      let cw := separate_cw K (d_cp (o_def o)) in
      (mkObj (o_def o) (fst cw) (snd cw) (o_bbox o) (o_cp2d o) (o_eval o) (o_tess o) (o_ids o), fst cw)
    else (o, o_cpts o)
  else (o, d_cp (o_def o)).
Definition read_wts (o : obj) : obj * list T :=
  if is_nil (o_cwts o) then
    let cw := separate_cw K (d_cp (o_def o)) in
    (mkObj (o_def o) (fst cw) (snd cw) (o_bbox o) (o_cp2d o) (o_eval o) (o_tess o) (o_ids o), snd cw)
  else (o, o_cwts o).
Definition read_bbox (o : obj) : obj * bboxres :=
  match o_bbox o with
  | Some b => (o, b)
  | None => let '(o1, p) := read_cpts o in
            let b := f_bbox p in
            (mkObj (o_def o1) (o_cpts o1) (o_cwts o1) (Some b) (o_cp2d o1) (o_eval o1) (o_tess o1) (o_ids o1), b)
  end.
(* evalpts: evaluate() = reset(evalpts=True) then store the sampled points *)
Definition read_eval (o : obj) : obj * list (list T) :=
  if is_nil (o_eval o) then
    let o1 := reset_eval o in
    let e := f_ev (o_def o) in
    (mkObj (o_def o1) (o_cpts o1) (o_cwts o1) (o_bbox o1) (o_cp2d o1) e (o_tess o1) (o_ids o1), e)
  else (o, o_eval o).
(* Surface.tessellate(vertex_spacing=k) as repaired: explicit arguments always re-tessellate; k = 0 encodes a call
   without arguments (default spacing 1, keeps an existing tessellation) *)
Definition tess_nonempty (t : tessres) : bool := andb (negb (is_nil (fst t))) (negb (is_nil (snd t))).
Definition do_tess (o : obj) (k : nat) : obj :=
  let '(o1, e) := read_eval o in
  mkObj (o_def o1) (o_cpts o1) (o_cwts o1) (o_bbox o1) (o_cp2d o1) (o_eval o1) (Some (k, f_tess k (o_def o1) e)) (o_ids o1).
Definition is_tessellated (o : obj) : bool :=
  match o_tess o with Some (_, t) => tess_nonempty t | None => false end.
Definition tessellate (o : obj) (k : nat) : obj :=
  if Nat.eqb (d_pdim (o_def o)) 2 then
    if Nat.eqb k 0 then (if is_tessellated o then o else do_tess o 1) else do_tess o k
  else o.       (* only surfaces have a tessellator *)
Definition read_tess (o : obj) : obj * tessres :=
  let o1 := tessellate o 0 in
  (o1, match o_tess o1 with Some (_, t) => t | None => ([], []) end).

(* ---------------------------------------------------------------- set_ctrlpts *)
Definition min_dim (d : defn) : nat :=
  match d_pdim d with 3 => if d_rat d then 4 else 3 | _ => if d_rat d then 3 else 2 end.
Fixpoint sizes_ok (sz deg : list nat) : bool :=
  match sz, deg with
  | s :: sr, p :: pr => andb (andb (Nat.ltb 0 p) (Nat.leb (S p) s)) (sizes_ok sr pr)
  | _, _ => true
  end.
(* set_ctrlpts(pts, *sz): validation (GeomdlException), reset(ctrlpts, evalpts), store, rebuild the 2-D grid *)
Definition set_ctrlpts (o : obj) (pts : list (list T)) (sz : list nat) (next : nat) : obj * res out :=
  let d := o_def o in
  if negb (sizes_ok sz (d_deg d)) then (o, Rejected)
  else match pts with
  | [] => (o, Crash)
  | p0 :: _ =>
    if Nat.ltb (length p0) (min_dim d) then (o, Rejected)
    else
      let o1 := reset_all o in
      if forallb (fun pt => Nat.eqb (length pt) (length p0)) pts then
        let d' := set_cp d pts sz in
        (mkObj d' [] [] None (cp2d_of d') [] None (rebind (o_ids o) next [0; 4]), Ok ONone)
      else (mkObj (o_def o1) [] [] None [] [] None (rebind (o_ids o) next [0]), Rejected)
  end.

(* NURBS ctrlpts / weights setters go through the cached views *)
Definition set_pts (o : obj) (v : list (list T)) (next : nat) : obj * res out :=
  if d_rat (o_def o) then
    let '(o1, w) := read_wts o in
    let w' := if is_nil w then ones K (length v) else w in
    set_ctrlpts o1 (combine_cw K v w') (d_size (o_def o1)) next
  else set_ctrlpts o v (d_size (o_def o)) next.
Definition set_wts (o : obj) (w : list T) (next : nat) : obj * res out :=
  if d_rat (o_def o) then
    let '(o1, p) := read_cpts o in
    if is_nil p then (o1, Rejected) else set_ctrlpts o1 (combine_cw K p w) (d_size (o_def o1)) next
  else (o, Ok ONone).        (* abstract.SplineGeometry.weights setter: pass *)

(* ---------------------------------------------------------------- knot vector, degree, density *)
Definition kv_start (d : defn) (dir : nat) : T := kn K (nth dir (d_kv d) []) (nth dir (d_deg d) 0).
Definition kv_stop (d : defn) (dir : nat) : T :=
  let U := nth dir (d_kv d) [] in kn K U (Nat.sub (length U) (S (nth dir (d_deg d) 0))).
Definition dir_size (d : defn) (dir : nat) : nat :=
  if Nat.eqb (d_pdim d) 1 then length (d_cp d) else nth dir (d_size d) 0.

Definition set_knots (o : obj) (dir : nat) (U : list T) (next : nat) : obj * res out :=
  let d := o_def o in
  let p := nth dir (d_deg d) 0 in
  if orb (Nat.eqb p 0) (Nat.eqb (dir_size d dir) 0) then (o, Rejected)
  else match check K p U (dir_size d dir) with
       | Ok true =>
         match normalize K U with
         | Ok U' => let o1 := reset_eval o in
                    (with_def o1 (set_kv d (upd (d_kv d) dir U')), Ok ONone)
         | _ => (o, Rejected)
         end
       | _ => (o, Rejected)
       end.

(* degree setters: curve accepts 0, surfaces / volumes need >= 1 *)
Definition set_degree (o : obj) (dir p : nat) (next : nat) : obj * res out :=
  let d := o_def o in
  if andb (negb (Nat.eqb (d_pdim d) 1)) (Nat.eqb p 0) then (o, Rejected)
  else let o1 := reset_eval o in
       (with_def o1 (set_deg d (upd (d_deg d) dir p)), Ok ONone).

Definition delta_ok (x : T) : bool := andb (oltb K (o0 K) x) (oltb K x (o1 K)).
Definition set_delta1 (o : obj) (dir : nat) (x : T) (next : nat) : obj * res out :=
  if delta_ok x then
    let o1 := reset_eval o in
    (with_def o1 (set_delta (o_def o) (upd (d_delta (o_def o)) dir x)), Ok ONone)
  else (o, Rejected).
(* obj.delta = x on a surface is delta_u = x; delta_v = x: the directions are set one after the other *)
Fixpoint set_delta_dirs (o : obj) (dirs : list nat) (x : T) (next : nat) : obj * res out :=
  match dirs with
  | [] => (o, Ok ONone)
  | dir :: r => match set_delta1 o dir x next with
                | (o1, Ok _) => set_delta_dirs o1 r x next
                | (o1, e) => (o1, e)
                end
  end.
(* sample_size setters: delta = 1 / n per direction (as repaired in /repo 2a3e060; equal to (stop - start) / n on the
   normalised clamped knot vectors); a missing knot vector / degree 0 only warns *)
Fixpoint set_sample_dirs (o : obj) (dirs : list nat) (n : nat) (next : nat) : obj * res out :=
  match dirs with
  | [] => (o, Ok ONone)
  | dir :: r =>
    match set_delta1 o dir (o1 K / ofnat K n) next with
    | (o1, Ok _) => set_sample_dirs o1 r n next
    | (o1, e) => (o1, e)
    end
  end.
Definition sample_ready (d : defn) (dirs : list nat) : bool :=
  forallb (fun dir => andb (negb (is_nil (nth dir (d_kv d) []))) (negb (Nat.eqb (nth dir (d_deg d) 0) 0))) dirs.

(* ---------------------------------------------------------------- structural operations *)
(* knot insertion / removal / refinement (operations.insert_knot, remove_knot, refine_knotvector): the new
   control points, sizes and knot vectors (numerics: C04 - C06) are installed through set_ctrlpts and the
   knot vector setters, one direction after the other *)
Fixpoint set_knots_all (o : obj) (dir : nat) (kvs : list (list T)) (next : nat) : obj * res out :=
  match kvs with
  | [] => (o, Ok ONone)
  | U :: r => match set_knots o dir U next with
              | (o1, Ok _) => set_knots_all o1 (S dir) r next
              | (o1, e) => (o1, e)
              end
  end.
Definition redefine (o : obj) (kvs : list (list T)) (cp : list (list T)) (sz : list nat) (next : nat) : obj * res out :=
  match set_ctrlpts o cp sz next with
  | (o1, Ok _) => set_knots_all o1 0 kvs next
  | (o1, e) => (o1, e)
  end.

(* Curve.reverse (repaired: the reversed points are installed with set_ctrlpts) *)
Definition reverse (o : obj) (next : nat) : obj * res out :=
  let d := o_def o in
  let U := nth 0 (d_kv d) [] in
  let mx := last U (o0 K) in
  match set_ctrlpts o (rev (d_cp d)) [length (d_cp d)] next with
  | (o1, Ok _) =>
    let o2 := reset_eval o1 in
    (with_def o2 (set_kv (o_def o2) (upd (d_kv (o_def o2)) 0 (rev (map (fun k => mx - k) U)))), Ok ONone)
  | (o1, e) => (o1, e)
  end.

(* the pinned Curve.reverse: control points and knot vector are replaced directly, only reset(evalpts=True) follows,
   so the cached unweighted points / weights of a rational curve survive (used only for the refutation witness) *)
Definition reverse_pinned (o : obj) : obj :=
  let d := o_def o in
  let U := nth 0 (d_kv d) [] in
  let mx := last U (o0 K) in
  with_def (reset_eval o) (set_kv (set_cp d (rev (d_cp d)) (d_size d)) (upd (d_kv d) 0 (rev (map (fun k => mx - k) U)))).

(* operations.transpose(inplace=True) + Surface.transpose: degrees, then ctrlpts2d setter, then knot vectors *)
Definition transpose_cp (su sv : nat) (cp : list (list T)) : list (list T) :=
  flat_map (fun v => map (fun u => nth (Nat.add v (Nat.mul u sv)) cp []) (seq 0 su)) (seq 0 sv).
Definition transpose (o : obj) (next : nat) : obj * res out :=
  let d := o_def o in
  let su := nth 0 (d_size d) 0 in let sv := nth 1 (d_size d) 0 in
  let pu := nth 0 (d_deg d) 0 in let pv := nth 1 (d_deg d) 0 in
  let ku := nth 0 (d_kv d) [] in let kv := nth 1 (d_kv d) [] in
  let cp' := transpose_cp su sv (d_cp d) in
  match set_degree o 0 pv next with
  | (o1, Ok _) =>
    match set_degree o1 1 pu next with
    | (o2, Ok _) => redefine o2 [kv; ku] cp' [sv; su] next
    | (o2, e) => (o2, e)
    end
  | (o1, e) => (o1, e)
  end.
(* operations.flip(inplace=True): the control point order is reversed *)
Definition flip (o : obj) (next : nat) : obj * res out :=
  set_ctrlpts o (rev (d_cp (o_def o))) (d_size (o_def o)) next.

(* in-place transforms: read the (unweighted) control points, map them, write them back with the ctrlpts setter *)
Definition dimension (d : defn) : nat := Nat.sub (length (hd [] (d_cp d))) (if d_rat d then 1 else 0).
Definition map_pts (o : obj) (f : list T -> list T) (next : nat) : obj * res out :=
  let '(o1, p) := read_cpts o in set_pts o1 (map f p) next.
Definition translate (o : obj) (vec : list T) (next : nat) : obj * res out :=
  if orb (is_nil vec) (negb (Nat.eqb (length vec) (dimension (o_def o)))) then (o, Rejected)
  else map_pts o (fun pt => vadd K pt vec) next.
Definition scale (o : obj) (m : T) (next : nat) : obj * res out := map_pts o (fun pt => map (fun x => x * m) pt) next.
(* rotation about a coordinate axis by the angle with cosine c and sine s *)
Definition rot_pt (axis : nat) (c s : T) (pt : list T) : list T :=
  let x := nth 0 pt (o0 K) in let y := nth 1 pt (o0 K) in let z := nth 2 pt (o0 K) in
  match axis with
  | 0 => [x; y * c - z * s; z * c + y * s]
  | 1 => [x * c - z * s; y; z * c + x * s]
  | _ => (x * c - y * s) :: (y * c + x * s) :: skipn 2 pt
  end.
(* operations.rotate(inplace=True): translate the origin (the evaluated start point) to 0, rotate, translate back *)
Definition rotate (o : obj) (axis : nat) (origin : list T) (c s : T) (next : nat) : obj * res out :=
  let tv := map (fun x => o0 K - x) origin in
  match translate o tv next with
  | (o1, Ok _) =>
    match map_pts o1 (rot_pt axis c s) next with
    | (o2, Ok _) => translate o2 (map (fun x => o0 K - x) tv) next
    | (o2, e) => (o2, e)
    end
  | (o1, e) => (o1, e)
  end.

(* ---------------------------------------------------------------- operations on one geometry *)
Inductive gop :=
| SetDegree (dir p : nat)
| SetKnots (dir : nat) (U : list T)
| SetCtrlpts (pts : list (list T)) (sz : list nat)     (* set_ctrlpts / ctrlptsw / BSpline ctrlpts / ctrlpts2d setter *)
| SetPts (pts : list (list T))                          (* the ctrlpts property setter *)
| SetWts (w : list T)
| SetDelta (dirs : list nat) (x : T)
| SetSample (dirs : list nat) (n : nat)
| Redefine (kvs : list (list T)) (cp : list (list T)) (sz : list nat)
| Reverse | Transpose | Flip
| Translate (vec : list T) | Scale (m : T) | Rotate (axis : nat) (origin : list T) (c s : T)
| Tessellate (k : nat)
| ReadCpw | ReadCpts | ReadWts | ReadCp2d | ReadEval | ReadBBox | ReadTess.

Definition is_reader (g : gop) : bool :=
  match g with ReadCpw | ReadCpts | ReadWts | ReadCp2d | ReadEval | ReadBBox | ReadTess | Tessellate _ => true | _ => false end.

Definition gstep (o : obj) (g : gop) (next : nat) : obj * res out :=
  match g with
  | SetDegree dir p => set_degree o dir p next
  | SetKnots dir U => set_knots o dir U next
  | SetCtrlpts pts sz => set_ctrlpts o pts sz next
  | SetPts pts => set_pts o pts next
  | SetWts w => set_wts o w next
  | SetDelta dirs x => set_delta_dirs o dirs x next
  | SetSample dirs n => if sample_ready (o_def o) dirs then set_sample_dirs o dirs n next else (o, Ok ONone)
  | Redefine kvs cp sz => redefine o kvs cp sz next
  | Reverse => reverse o next
  | Transpose => transpose o next
  | Flip => flip o next
  | Translate vec => translate o vec next
  | Scale m => scale o m next
  | Rotate axis origin c s => rotate o axis origin c s next
  | Tessellate k => if Nat.eqb (d_pdim (o_def o)) 2 then (tessellate o k, Ok ONone) else (o, Crash)
  | ReadCpw => (o, Ok (OPts (d_cp (o_def o))))
  | ReadCpts => let '(o1, p) := read_cpts o in (o1, Ok (OPts p))
  | ReadWts => if d_rat (o_def o) then let '(o1, w) := read_wts o in (o1, Ok (OWts w)) else (o, Ok ONoWts)
  | ReadCp2d => (o, Ok (OGrid (o_cp2d o)))
  | ReadEval => let '(o1, e) := read_eval o in (o1, Ok (OPts e))
  | ReadBBox => let '(o1, b) := read_bbox o in (o1, Ok (OBox b))
  | ReadTess => if Nat.eqb (d_pdim (o_def o)) 2 then let '(o1, t) := read_tess o in (o1, Ok (OTess t)) else (o, Crash)
  end.
(* ids are allocated in blocks: an operation uses at most 2 fresh ids (slots 0 and 4; a later set_ctrlpts inside
   the same operation overwrites the ids of the earlier one, which are dead by then) *)
Definition id_block : nat := 2.

(* what a freshly built object with the same definition reports *)
Definition fresh (d : defn) (ids : list nat) : obj := mkObj d [] [] None (cp2d_of d) [] None ids.

(* deep copy: the definition is copied, the rational caches are dropped (NURBS.__deepcopy__ -> init_cache), the other
   derived fields are copied with the object, every slot gets a fresh id *)
Definition deepcopy (next : nat) (o : obj) : obj :=
  mkObj (o_def o) [] [] (o_bbox o) (o_cp2d o) (o_eval o) (o_tess o) (fresh_ids next nslots).

(* the fields compared by __eq__ *)
Definition shape_of (o : obj) : @shape T :=
  let d := o_def o in mkShape (d_pdim d) (d_rat d) (d_size d) (d_deg d) (d_kv d) (d_cp d).

(* ---------------------------------------------------------------- containers and the world (a heap of geometries) *)
Record cont := mkCont {
  c_pdim : nat; c_dim : nat;           (* _pdim, _dimension (0 = not yet determined) *)
  c_delta : list T;                    (* _delta *)
  c_elems : list nat;                  (* _elements: references into the heap *)
  c_eval : list (list T);              (* _cache['evalpts'] *)
  c_tess : option tessres }.           (* SurfaceContainer _cache['vertices'|'faces'] *)

Record world := mkWorld { w_geoms : list obj; w_conts : list cont; w_next : nat }.

Definition dummy_def : defn := mkDef 0 false [] [] [] [] [].
Definition dummy_obj : obj := mkObj dummy_def [] [] None [] [] None [].
Definition dummy_cont : cont := mkCont 0 0 [] [] [] None.
Definition geom (w : world) (i : nat) : obj := nth i (w_geoms w) dummy_obj.
Definition contr (w : world) (j : nat) : cont := nth j (w_conts w) dummy_cont.
Definition put_geom (w : world) (i : nat) (o : obj) : world := mkWorld (upd (w_geoms w) i o) (w_conts w) (Nat.add (w_next w) id_block).
Definition put_cont (w : world) (j : nat) (c : cont) : world := mkWorld (w_geoms w) (upd (w_conts w) j c) (w_next w).

Definition all_dirs (pd : nat) : list nat := seq 0 pd.
Definition c_reset (c : cont) : cont := mkCont (c_pdim c) (c_dim c) (c_delta c) (c_elems c) [] None.
Definition c_set_delta (c : cont) (x : list T) : cont := mkCont (c_pdim c) (c_dim c) x (c_elems c) (c_eval c) (c_tess c).

(* elem.delta = container delta (each direction through the element's setter) *)
Fixpoint set_delta_list (o : obj) (dir : nat) (xs : list T) (next : nat) : obj :=
  match xs with
  | [] => o
  | x :: r => set_delta_list (fst (set_delta1 o dir x next)) (S dir) r next
  end.
(* container.evalpts on an empty cache: for every element set its delta, read its evalpts *)
Definition c_touch (c : cont) (o : obj) (next : nat) : obj := fst (read_eval (set_delta_list o 0 (c_delta c) next)).
Definition c_fill_eval (w : world) (j : nat) : world * list (list T) :=
  let c := contr w j in
  let w1 := fold_left (fun wa i => put_geom wa i (c_touch c (geom wa i) (w_next wa))) (c_elems c) w in
  let e := flat_map (fun i => o_eval (geom w1 i)) (c_elems c) in
  (put_cont w1 j (mkCont (c_pdim c) (c_dim c) (c_delta c) (c_elems c) e (c_tess c)), e).
Definition c_read_eval (w : world) (j : nat) : world * list (list T) :=
  let c := contr w j in if is_nil (c_eval c) then c_fill_eval w j else (w, c_eval c).
(* container.bbox: not cached; reads (and caches) every element's bounding box *)
Definition c_read_bbox (w : world) (j : nat) : world * bboxres :=
  let c := contr w j in
  let '(w1, boxes) := fold_left (fun (st : world * list (list T)) i =>
        let '(wa, acc) := st in
        let '(o1, b) := read_bbox (geom wa i) in (put_geom wa i o1, acc ++ [fst b; snd b])) (c_elems c) (w, []) in
  (w1, f_bbox boxes).
(* SurfaceContainer.tessellate on an empty cache: elem.delta = delta; elem.evaluate(); elem.tessellate(); then the
   vertices are concatenated and the faces re-indexed by the vertex offset *)
Definition c_touch_tess (c : cont) (o : obj) (next : nat) : obj :=
  let o1 := set_delta_list o 0 (c_delta c) next in
  let o2 := fst (read_eval (reset_eval o1)) in
  tessellate o2 0.
Definition offset_faces (off : nat) (f : list (list nat)) : list (list nat) := map (map (Nat.add off)) f.
Definition c_fill_tess (w : world) (j : nat) : world * tessres :=
  let c := contr w j in
  let w1 := fold_left (fun wa i => put_geom wa i (c_touch_tess c (geom wa i) (w_next wa))) (c_elems c) w in
  let t := fold_left (fun (acc : tessres) i =>
        let te := match o_tess (geom w1 i) with Some (_, x) => x | None => ([], []) end in
        (fst acc ++ fst te, snd acc ++ offset_faces (length (fst acc)) (snd te))) (c_elems c) ([], []) in
  (put_cont w1 j (mkCont (c_pdim c) (c_dim c) (c_delta c) (c_elems c) (c_eval c) (Some t)), t).
Definition c_read_tess (w : world) (j : nat) : world * tessres :=
  let c := contr w j in
  match c_tess c with
  | Some t => if tess_nonempty t then (w, t) else c_fill_tess w j
  | None => c_fill_tess w j
  end.

Inductive cop :=
| CAdd (i : nat)
| CSetDelta (x : T)                 (* container.delta = x (all directions) *)
| CSetDeltaDir (dir : nat) (x : T)  (* delta_u / delta_v / delta_w (repaired: resets the cache) *)
| CSetSample (n : nat)
| CSetSampleDir (dir : nat) (n : nat)
| CTranslate (vec : list T) | CScale (m : T)   (* operations.translate / scale (container, inplace=True), repaired: reset *)
| CReadEval | CReadBBox | CReadTess.

Definition c_sample_delta (n : nat) : T := o1 K / ofnat K (Nat.pred n).
Definition cstep (w : world) (j : nat) (co : cop) : world * res out :=
  let c := contr w j in
  match co with
  | CAdd i =>
    let e := geom w i in
    if negb (Nat.ltb i (length (w_geoms w))) then (w, Crash)
    else if Nat.eqb (d_pdim (o_def e)) (c_pdim c) then
      let dm := dimension (o_def e) in
      if Nat.eqb (c_dim c) 0 then
        (put_cont w j (c_reset (mkCont (c_pdim c) dm (c_delta c) (c_elems c ++ [i]) (c_eval c) (c_tess c))), Ok ONone)
      else if Nat.eqb (c_dim c) dm then
        (put_cont w j (c_reset (mkCont (c_pdim c) (c_dim c) (c_delta c) (c_elems c ++ [i]) (c_eval c) (c_tess c))), Ok ONone)
      else (w, Rejected)
    else (put_cont w j (c_reset c), Ok ONone)
  | CSetDelta x =>
    if delta_ok x then (put_cont w j (c_reset (c_set_delta c (repeat x (c_pdim c)))), Ok ONone) else (w, Rejected)
  | CSetDeltaDir dir x =>
    if delta_ok x then (put_cont w j (c_reset (c_set_delta c (upd (c_delta c) dir x))), Ok ONone) else (w, Rejected)
  | CSetSample n =>
    if Nat.ltb n 2 then (w, Rejected) else (put_cont w j (c_reset (c_set_delta c (repeat (c_sample_delta n) (c_pdim c)))), Ok ONone)
  | CSetSampleDir dir n =>
    if Nat.ltb n 2 then (w, Rejected) else (put_cont w j (c_reset (c_set_delta c (upd (c_delta c) dir (c_sample_delta n)))), Ok ONone)
  | CTranslate vec =>
    if orb (is_nil vec) (negb (Nat.eqb (length vec) (c_dim c))) then (w, Rejected)
    else let w1 := fold_left (fun wa i => put_geom wa i (fst (map_pts (geom wa i) (fun pt => vadd K pt vec) (w_next wa)))) (c_elems c) w in
         (put_cont w1 j (c_reset c), Ok ONone)
  | CScale m =>
    let w1 := fold_left (fun wa i => put_geom wa i (fst (scale (geom wa i) m (w_next wa)))) (c_elems c) w in
    (put_cont w1 j (c_reset c), Ok ONone)
  | CReadEval => let '(w1, e) := c_read_eval w j in (w1, Ok (OPts e))
  | CReadBBox => let '(w1, b) := c_read_bbox w j in (w1, Ok (OBox b))
  | CReadTess => if Nat.eqb (c_pdim c) 2 then let '(w1, t) := c_read_tess w j in (w1, Ok (OTess t)) else (w, Crash)
  end.

Inductive wop :=
| New (d : defn)                 (* a geometry built with the public setters: degree, set_ctrlpts, knot vectors, delta *)
| G (i : nat) (g : gop)          (* an operation on geometry i (possibly an element of containers) *)
| Copy (i : nat)                 (* copy.deepcopy(geometry i), appended to the heap *)
| NewCont (pd : nat) (dl : T)    (* multi.CurveContainer() / SurfaceContainer() / VolumeContainer(); dl = default delta *)
| C (j : nat) (c : cop)
| CCopy (j : nat).               (* copy.deepcopy(container j): the elements are copied too (repaired: caches re-created) *)

Fixpoint copy_elems (gs : list obj) (next : nat) (el : list nat) : list obj :=
  match el with
  | [] => []
  | i :: r => deepcopy next (nth i gs dummy_obj) :: copy_elems gs (Nat.add next nslots) r
  end.
Definition wstep (w : world) (o : wop) : world * res out :=
  match o with
  | New d => (mkWorld (w_geoms w ++ [fresh d (fresh_ids (w_next w) nslots)]) (w_conts w) (Nat.add (w_next w) nslots), Ok ONone)
  | G i g => let '(o1, r) := gstep (geom w i) g (w_next w) in (put_geom w i o1, r)
  | Copy i => (mkWorld (w_geoms w ++ [deepcopy (w_next w) (geom w i)]) (w_conts w) (Nat.add (w_next w) nslots), Ok ONone)
  | NewCont pd dl => (mkWorld (w_geoms w) (w_conts w ++ [mkCont pd 0 (repeat dl pd) [] [] None]) (w_next w), Ok ONone)
  | C j c => cstep w j c
  | CCopy j =>
    (* an element contained twice is copied once (deepcopy memo): modelled for distinct elements only *)
    let c := contr w j in
    let n := length (w_geoms w) in
    let cps := copy_elems (w_geoms w) (w_next w) (c_elems c) in
    (mkWorld (w_geoms w ++ cps)
             (w_conts w ++ [mkCont (c_pdim c) (c_dim c) (c_delta c) (seq n (length (c_elems c))) [] None])
             (Nat.add (w_next w) (Nat.mul nslots (S (length (c_elems c))))), Ok ONone)
  end.

Fixpoint wrun (w : world) (ops : list wop) : world :=
  match ops with [] => w | o :: r => wrun (fst (wstep w o)) r end.
End M.
