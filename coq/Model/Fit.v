(* Executable model of geomdl/fitting.py: parameters from chord lengths, averaged knot vectors,
   collocation matrix, global interpolation (A9.1, A9.4) and least-squares approximation (Eqs 9.63-9.69, A9.7).
   sqrt is not a field operation: the chord lengths (point_distance, or its square root for the centripetal
   method) are INPUTS of the model (checked against the squared distances by the correspondence).  Definitions only. *)
From Coq Require Import List Arith Bool.
From Param Require Import Param.
From NV Require Import Scalar.Ops Model.Common Model.Basis Model.LinAlg.
Import ListNotations.

Section M.
Context {T : Type} (K : ops T).
Notation "x + y" := (oadd K x y). Notation "x - y" := (osub K x y).
Notation "x * y" := (omul K x y). Notation "x / y" := (odiv K x y).
Notation "0" := (o0 K). Notation "1" := (o1 K).
Notation sumT := (sumT K).
Notation mat := (list (list T)).

(* squared distances of consecutive points (what the chord inputs are checked against) *)
Definition sqdists (pts : mat) : list T :=
  map (fun i => vector_norm2 K (vsub K (nth (S i) pts []) (nth i pts []))) (seq 0 (Nat.pred (length pts))).

(* compute_params_curve: cds = [d_1 .. d_{n-1}];  uk[i] = (d_1 + .. + d_i) / (d_1 + .. + d_{n-1}) *)
Definition compute_params_curve (cds : list T) : res (list T) :=
  let d := sumT cds in
  if isz K d then Crash
  else Ok (map (fun i => sumT (firstn i cds) / d) (seq 0 (S (length cds)))).

(* compute_params_surface: averages of the curve parameters over the rows / columns.
   cdsU: for every v the chords of the point row along u;  cdsV: for every u the chords along v *)
Definition avg_params (n : nat) (ps : mat) : list T :=
  map (fun k => sumT (map (fun p => nth k p 0) ps) / ofnat K (length ps)) (seq 0 n).
Definition compute_params_surface (size_u size_v : nat) (cdsU cdsV : mat) : res (list T * list T) :=
  res_bind (res_all (map compute_params_curve cdsU)) (fun pu =>
  res_bind (res_all (map compute_params_curve cdsV)) (fun pv =>
    Ok (avg_params size_u pu, avg_params size_v pv))).

(* compute_knot_vector (Eq 9.8): p+1 zeros, averages of p consecutive parameters, p+1 ones *)
Definition compute_knot_vector (p n : nat) (params : list T) : list T :=
  repeat 0 (S p)
  ++ map (fun i => (1 / ofnat K p) * sumr K (S i) p (fun j => nth j params 0)) (seq 0 (Nat.sub n (S p)))
  ++ repeat 1 (S p).

(* compute_knot_vector2 (Eqs 9.68, 9.69): d = r / (c - p); i = int(j d); alpha = j d - i *)
Definition compute_knot_vector2 (p r c : nat) (params : list T) : list T :=
  let q := Nat.sub c p in
  repeat 0 (S p)
  ++ map (fun j => let i := Nat.div (Nat.mul j r) q in
                   let alpha := ofnat K (Nat.modulo (Nat.mul j r) q) / ofnat K q in
                   (1 - alpha) * nth (Nat.pred i) params 0 + alpha * nth i params 0) (seq 1 (Nat.pred q))
  ++ repeat 1 (S p).

(* _build_coeff_matrix: row i carries basis_function(span_i, params_i) in columns span_i - p .. span_i *)
Definition coeff_row (p : nat) (kv : list T) (n : nat) (u : T) : list T :=
  let span := find_span_linear K p kv n u in
  let N := basis_function K p kv span u in
  (* matrix_a[i][span-degree:span+1] = N  (slice assignment into a row of n zeros) *)
  firstn (Nat.sub span p) (repeat 0 n) ++ N ++ skipn (S span) (repeat 0 n).
Definition build_coeff_matrix (p : nat) (kv params : list T) (n : nat) : mat :=
  map (fun i => coeff_row p kv n (nth i params 0)) (seq 0 n).

(* one interpolation solve: control points of the curve through pts at params *)
Definition interp_1d (p : nat) (kv params : list T) (pts : mat) : res mat :=
  lu_solve K (build_coeff_matrix p kv params (length pts)) pts.

Definition interpolate_curve (pts : mat) (p : nat) (cds : list T) : res (mat * list T) :=
  res_bind (compute_params_curve cds) (fun uk =>
    let kv := compute_knot_vector p (length pts) uk in
    res_map (fun P => (P, kv)) (interp_1d p kv uk pts)).

(* points are stored v fastest: index v + size_v * u.  Two passes of curve interpolation (A9.4):
   ctrlpts_r[u + su * v] from the data rows, then the control net from the columns of ctrlpts_r *)
Definition interp_surface_core (pu pv : nat) (kvu kvv uk vl : list T) (su sv : nat) (pts : mat) : res mat :=
  res_bind (res_all (map (fun v => interp_1d pu kvu uk (map (fun u => nth (Nat.add v (Nat.mul sv u)) pts []) (seq 0 su))) (seq 0 sv)))
    (fun Rs => let R := concat Rs in
      res_bind (res_all (map (fun u => interp_1d pv kvv vl (map (fun v => nth (Nat.add u (Nat.mul su v)) R []) (seq 0 sv))) (seq 0 su)))
        (fun Cs => Ok (concat Cs))).
Definition interpolate_surface (pts : mat) (su sv pu pv : nat) (cdsU cdsV : mat) : res (mat * list T * list T) :=
  res_bind (compute_params_surface su sv cdsU cdsV) (fun uv =>
    let uk := fst uv in let vl := snd uv in
    let kvu := compute_knot_vector pu su uk in
    let kvv := compute_knot_vector pv sv vl in
    res_map (fun P => (P, kvu, kvv)) (interp_surface_core pu pv kvu kvv uk vl su sv pts)).

(* least squares with fixed end points (Eqs 9.63 - 9.67): c control points for the data pts at params *)
Definition approx_N (p c : nat) (kv params : list T) (r : nat) : mat :=
  map (fun i => map (fun j => basis_function_one K p kv j (nth i params 0)) (seq 1 (Nat.sub c 2))) (seq 1 (Nat.sub r 2)).
Definition approx_Rk (p c : nat) (kv params : list T) (pts : mat) : mat :=
  let r := length pts in
  let pt0 := nth 0 pts [] in let ptm := nth (Nat.pred r) pts [] in
  map (fun i => let n0 := basis_function_one K p kv 0 (nth i params 0) in
                let nn := basis_function_one K p kv (Nat.pred c) (nth i params 0) in
                map (fun abc => fst (fst abc) - n0 * snd (fst abc) - nn * snd abc) (combine (combine (nth i pts []) pt0) ptm))
      (seq 1 (Nat.sub r 2)).
Definition approx_R (p c dim : nat) (kv params : list T) (rk : mat) : mat :=
  map (fun j => map (fun d => sumr K 0 (length rk) (fun idx => get2 K rk idx d * basis_function_one K p kv j (nth (S idx) params 0)))
                    (seq 0 dim)) (seq 1 (Nat.sub c 2)).
Definition approx_1d (p c : nat) (kv params : list T) (pts : mat) : res mat :=
  let r := length pts in
  let dim := length (hd [] pts) in
  let Nm := approx_N p c kv params r in
  res_bind (matrix_transpose K Nm) (fun Nt =>
  res_bind (matrix_multiply K Nt Nm) (fun NtN =>
  res_bind (lu_decomposition K NtN) (fun lu =>
    let vecR := approx_R p c dim kv params (approx_Rk p c kv params pts) in
    res_bind (solve_columns K (fst lu) (snd lu) vecR) (fun X =>
      Ok ([nth 0 pts []] ++ X ++ [nth (Nat.pred r) pts []]))))).

Definition approximate_curve (pts : mat) (p c : nat) (cds : list T) : res (mat * list T) :=
  res_bind (compute_params_curve cds) (fun uk =>
    let kv := compute_knot_vector2 p (length pts) c uk in
    res_map (fun P => (P, kv)) (approx_1d p c kv uk pts)).

Definition approximate_surface (pts : mat) (su sv pu pv cu cv : nat) (cdsU cdsV : mat) : res (mat * list T * list T) :=
  res_bind (compute_params_surface su sv cdsU cdsV) (fun uv =>
    let uk := fst uv in let vl := snd uv in
    let kvu := compute_knot_vector2 pu su cu uk in
    let kvv := compute_knot_vector2 pv sv cv vl in
    (* u-direction: for every v-column j of the data, cu control points; ctrlpts_tmp[j + sv * i] *)
    res_bind (res_all (map (fun j => approx_1d pu cu kvu uk (map (fun i => nth (Nat.add j (Nat.mul sv i)) pts []) (seq 0 su))) (seq 0 sv)))
      (fun Cols =>
        (* v-direction: for every i < cu the points ctrlpts_tmp[j + sv * i], j < sv *)
        res_bind (res_all (map (fun i => approx_1d pv cv kvv vl (map (fun j => nth i (nth j Cols []) []) (seq 0 sv))) (seq 0 cu)))
          (fun Rows => Ok (concat Rows, kvu, kvv)))).
End M.
