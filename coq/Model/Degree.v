(* Executable model of geomdl/linalg.binomial_coefficient and geomdl/helpers.degree_elevation /
   degree_reduction (Eqs. 5.36, 5.41, 5.42 of The NURBS Book).  Definitions only.

   The point type is abstract (zipw = "[f(a,b) for a,b in zip(p,q)]", zlike = "[0.0 for _ in p]"): the
   same code is instantiated with coordinate lists (what the Python runs on), with scalars (what the
   ring/field theorems are about) and with anything else that zips (rows of points, flattened).

   degree_reduction is modelled AS REPAIRED by /verif/fixes/C08-degree-reduction-backward-loop.diff: the
   backward loop counts i = degree-2 down to r+1 (the pinned tree had range(degree-2, r1+2), empty for
   degree >= 5). *)
From Coq Require Import List Arith Bool ZArith.
From Param Require Import Param.
From NV Require Import Scalar.Ops Model.Common.
Import ListNotations.

(* k choose i by Pascal's rule; 0 when i > k (the special case of the Python function) *)
Fixpoint binom (k i : nat) {struct k} : nat :=
  match i with
  | O => 1
  | S i' => match k with O => 0 | S k' => Nat.add (binom k' i') (binom k' i) end
  end.

Section M.
Context {T : Type} (K : ops T).
Notation "x + y" := (oadd K x y). Notation "x - y" := (osub K x y).
Notation "x * y" := (omul K x y). Notation "x / y" := (odiv K x y).

(* float(n) for a non-negative integer, by binary digits (logarithmic size) *)
Fixpoint ofnat_bin (fuel n : nat) : T :=
  match fuel with
  | O => o0 K
  | S f => if Nat.eqb n 0 then o0 K
           else if Nat.eqb n 1 then o1 K
           else let h := o2 K * ofnat_bin f (Nat.div2 n) in if Nat.odd n then h + o1 K else h
  end.
Definition ofnatb (n : nat) : T := ofnat_bin n n.

(* linalg.binomial_coefficient(k, i) as a float *)
Definition binomial_coefficient (k i : nat) : T := ofnatb (binom k i).

Section Pts.
Context {Pt : Type} (zipw : (T -> T -> T) -> Pt -> Pt -> Pt) (zlike : Pt -> Pt).

(* ---- helpers.degree_elevation ----
   pdef: default of out-of-range list accesses (never reached on accepted input); the wrappers pass the first point *)
Definition elev_coeff (p t i j : nat) : T :=
  (binomial_coefficient p j * binomial_coefficient t (Nat.sub i j)) / binomial_coefficient (Nat.add p t) i.

Definition elev_point (pdef : Pt) (p t : nat) (P : list Pt) (i : nat) : Pt :=
  let start := Nat.sub i t in            (* max(0, i - num) *)
  let stop := Nat.min p i in
  fold_left (fun acc j => zipw (fun p1 p2 => p1 + elev_coeff p t i j * p2) acc (nth j P pdef))
            (seq start (Nat.sub (S stop) start)) (zlike (nth 0 P pdef)).

Definition degree_elevation_core (pdef : Pt) (p : nat) (P : list Pt) (t : nat) : list Pt :=
  map (elev_point pdef p t P) (seq 0 (Nat.add (Nat.add p 1) t)).

Definition degree_elevation (p : nat) (P : list Pt) (num : Z) : res (list Pt) :=
  match P with
  | [] => Rejected
  | pdef :: _ =>
    if negb (Nat.eqb (Nat.add p 1) (length P)) then Rejected
    else if Z.leb num 0 then Rejected
    else Ok (degree_elevation_core pdef p P (Z.to_nat num))
  end.

(* ---- helpers.degree_reduction (repaired backward loop) ---- *)
Definition degree_reduction_core (pdef : Pt) (p : nat) (P : list Pt) : list Pt :=
  let a0 := upd (upd (repeat (zlike (nth 0 P pdef)) p) 0 (nth 0 P pdef)) (Nat.sub p 1) (nth (Nat.sub (length P) 1) P pdef) in
  let odd := Nat.odd p in
  let r := Nat.div2 (Nat.sub p 1) in
  let nfwd := if Nat.eqb p 2 then 0 else if odd then Nat.sub r 1 else r in
  let a1 := fold_left (fun a i =>
              let alpha := ofnatb i / ofnatb p in
              upd a i (zipw (fun c1 c2 => (c1 - alpha * c2) / (o1 K - alpha)) (nth i P pdef) (nth (Nat.sub i 1) a pdef)))
            (seq 1 nfwd) a0 in
  let a2 := fold_left (fun a i =>
              let alpha := ofnatb (Nat.add i 1) / ofnatb p in
              upd a i (zipw (fun c1 c2 => (c1 - (o1 K - alpha) * c2) / alpha) (nth (Nat.add i 1) P pdef) (nth (Nat.add i 1) a pdef)))
            (rev (seq (Nat.add r 1) (Nat.sub (Nat.sub p 2) r))) a1 in
  if odd then
    let al := ofnatb r / ofnatb p in
    let left := zipw (fun c1 c2 => (c1 - al * c2) / (o1 K - al)) (nth r P pdef) (nth (Nat.sub r 1) a2 pdef) in
    let ar := ofnatb (Nat.add r 1) / ofnatb p in
    let right := zipw (fun c1 c2 => (c1 - (o1 K - ar) * c2) / ar) (nth (Nat.add r 1) P pdef) (nth (Nat.add r 1) a2 pdef) in
    upd a2 r (zipw (fun pl pr => (o1 K / o2 K) * (pl + pr)) left right)
  else a2.

Definition degree_reduction (p : nat) (P : list Pt) : res (list Pt) :=
  match P with
  | [] => Rejected
  | pdef :: _ =>
    if negb (Nat.eqb (Nat.add p 1) (length P)) then Rejected
    else if Nat.ltb p 2 then Rejected
    else Ok (degree_reduction_core pdef p P)
  end.
End Pts.

(* instance the Python code runs on: a point is a list of coordinates *)
Definition lzipw (f : T -> T -> T) (a b : list T) : list T := map (fun ab => f (fst ab) (snd ab)) (combine a b).
Definition lzlike (a : list T) : list T := map (fun _ => o0 K) a.
Definition degree_elevation_pts := degree_elevation lzipw lzlike.
Definition degree_reduction_pts := degree_reduction lzipw lzlike.
(* scalar control values *)
Definition szipw (f : T -> T -> T) (a b : T) : T := f a b.
Definition szlike (a : T) : T := o0 K.
Definition degree_elevation_sc (p : nat) (a : list T) (t : nat) : list T := degree_elevation_core szipw szlike (hd (o0 K) a) p a t.
Definition degree_reduction_sc (p : nat) (a : list T) : list T := degree_reduction_core szipw szlike (hd (o0 K) a) p a.

(* operations.degree_operations on a Bezier curve (no interior knots): new knot vector *)
Definition elevate_kv (U : list T) (t : nat) : list T :=
  repeat (nth 0 U (o0 K)) t ++ U ++ repeat (nth (Nat.sub (length U) 1) U (o0 K)) t.
Definition reduce_kv (U : list T) : list T := removelast (tl U).
End M.
