(* Executable model of geomdl.operations.insert_knot for curves, surfaces (u, v) and volumes (u, v, w)
   and of the object wrappers BSpline/NURBS.Curve|Surface|Volume.insert_knot.
   Rational shapes: the same algorithm runs on the homogeneous (weighted) control points (obj.ctrlptsw).
   Control nets are flat, v fastest, then u, then w (abstract.SplineGeometry).  Definitions only. *)
From Coq Require Import List Arith Bool ZArith.
From Param Require Import Param.
From NV Require Import Scalar.Ops Model.Common Model.Basis Model.KnotIns.
Import ListNotations.

Section M.
Context {T : Type} (K : ops T).
Notation "x + y" := (oadd K x y). Notation "x - y" := (osub K x y).
Notation "x * y" := (omul K x y). Notation "x / y" := (odiv K x y).

(* helpers.knot_insertion for an arbitrary "point" type A: a point (list of coordinates, curves and
   surfaces) or a row of points (volumes; Python's `isinstance(temp[i][0], float)` dispatch).
   Same structure as KnotIns.knot_insertion, which is the instance A = list T, lerpA = lerp. *)
Section Gen.
Context {A : Type} (lerpA : T -> A -> A -> A) (dA : A).
Definition getA (P : list A) (i : nat) : A := nth i P dA.
Definition knot_insertion_g (p : nat) (U : list T) (P : list A) (u : T) (num s k : nat) : list A :=
  let np := length P in
  let new0 := repeat dA (Nat.add np num) in
  let new1 := fold_left (fun nw i => upd nw i (getA P i)) (seq 0 (S (Nat.sub k p))) new0 in
  let new2 := fold_left (fun nw i => upd nw (Nat.add i num) (getA P i)) (seq (Nat.sub k s) (Nat.sub np (Nat.sub k s))) new1 in
  let temp0 := map (fun i => getA P (Nat.add (Nat.sub k p) i)) (seq 0 (S (Nat.sub p s))) in
  let '(new3, temp) :=
    fold_left (fun (st : list A * list A) j =>
      let '(nw, temp) := st in
      let L := Nat.add (Nat.sub k p) j in
      let temp' := fold_left (fun tp i => upd tp i (lerpA (ins_alpha K U u k i L) (getA tp i) (getA tp (S i))))
                             (seq 0 (S (Nat.sub (Nat.sub p j) s))) temp in
      let nw1 := upd nw L (getA temp' 0) in
      let nw2 := upd nw1 (Nat.sub (Nat.sub (Nat.add k num) j) s) (getA temp' (Nat.sub (Nat.sub p j) s)) in
      (nw2, temp')) (seq 1 num) (new2, temp0) in
  let L := Nat.add (Nat.sub k p) num in
  fold_left (fun nw i => upd nw i (getA temp (Nat.sub i L))) (seq (S L) (Nat.sub (Nat.sub k s) (S L))) new3.
End Gen.

(* row of points: component-wise on every point of the row (zip truncates) *)
Definition lerp_row (alpha : T) (a b : list (list T)) : list (list T) :=
  map (fun ab => lerp K alpha (fst ab) (snd ab)) (combine a b).
Definition knot_insertion_rows := knot_insertion_g lerp_row [].

(* compatibility.flip_ctrlpts_u : u-row order -> v-row order *)
Definition flip_ctrlpts_u (cp : list (list T)) (su sv : nat) : list (list T) :=
  flat_map (fun i => map (fun j => getp cp (Nat.add i (Nat.mul j su))) (seq 0 sv)) (seq 0 su).

(* ---- geometry states (definition fields only) ---- *)
Record curve := mkC { c_p : nat; c_U : list T; c_P : list (list T) }.
Record surf := mkS { s_pu : nat; s_pv : nat; s_Uu : list T; s_Uv : list T; s_su : nat; s_sv : nat; s_P : list (list T) }.
Record vol := mkV { v_pu : nat; v_pv : nat; v_pw : nat; v_Uu : list T; v_Uv : list T; v_Uw : list T;
                    v_su : nat; v_sv : nat; v_sw : nat; v_P : list (list T) }.

(* the validity test of operations.insert_knot (check_num=True): num is a list of the right length without negative entries *)
Definition nums_ok (pdim : nat) (nums : list Z) : bool :=
  andb (Nat.eqb (length nums) pdim) (forallb (fun z => negb (Z.ltb z 0)) nums).
Definition numat (nums : list Z) (i : nat) : nat := Z.to_nat (nth i nums 0%Z).
Definition parat (params : list (option T)) (i : nat) : option T := nth i params None.

(* one direction: multiplicity, admissibility, span, new knot vector; None = nothing to do,
   Some None = GeomdlException, Some (Some (s, span, kv)) = go *)
Definition dir_prep (tol : T) (check : bool) (p : nat) (U : list T) (size : nat) (param : option T) (num : nat)
  : option (option (T * nat * nat * list T)) :=
  match param with
  | None => None
  | Some u =>
    if Nat.eqb num 0 then None else
    let s := find_multiplicity K tol u U in
    if andb check (Nat.ltb (Nat.sub p s) num) then Some None else
    let span := find_span_linear K p U size u in
    Some (Some (u, s, span, knot_insertion_kv U u span num))
  end.

(* ---- curve ---- *)
Definition insert_knot_curve (tol : T) (check : bool) (c : curve) (params : list (option T)) (nums : list Z) : curve * bool :=
  if andb check (negb (nums_ok 1 nums)) then (c, true) else
  match dir_prep tol check (c_p c) (c_U c) (length (c_P c)) (parat params 0) (numat nums 0) with
  | None => (c, false)
  | Some None => (c, true)
  | Some (Some (u, s, span, kv)) =>
    (mkC (c_p c) kv (knot_insertion K (c_p c) (c_U c) (c_P c) u (numat nums 0) s span), false)
  end.

(* ---- surface ---- *)
Definition surf_net_u (g : surf) (u : T) (num s span : nat) : list (list T) :=
  let tmp := flat_map (fun v =>
      knot_insertion K (s_pu g) (s_Uu g) (map (fun u_ => getp (s_P g) (Nat.add v (Nat.mul (s_sv g) u_))) (seq 0 (s_su g))) u num s span)
      (seq 0 (s_sv g)) in
  flip_ctrlpts_u tmp (Nat.add (s_su g) num) (s_sv g).
Definition surf_net_v (g : surf) (v : T) (num s span : nat) : list (list T) :=
  flat_map (fun u_ =>
      knot_insertion K (s_pv g) (s_Uv g) (map (fun v_ => getp (s_P g) (Nat.add v_ (Nat.mul (s_sv g) u_))) (seq 0 (s_sv g))) v num s span)
      (seq 0 (s_su g)).

Definition insert_knot_surf (tol : T) (check : bool) (g : surf) (params : list (option T)) (nums : list Z) : surf * bool :=
  if andb check (negb (nums_ok 2 nums)) then (g, true) else
  let '(g1, raised) :=
    match dir_prep tol check (s_pu g) (s_Uu g) (s_su g) (parat params 0) (numat nums 0) with
    | None => (g, false)
    | Some None => (g, true)
    | Some (Some (u, s, span, kv)) =>
      (mkS (s_pu g) (s_pv g) kv (s_Uv g) (Nat.add (s_su g) (numat nums 0)) (s_sv g) (surf_net_u g u (numat nums 0) s span), false)
    end in
  if raised then (g1, true) else
  match dir_prep tol check (s_pv g1) (s_Uv g1) (s_sv g1) (parat params 1) (numat nums 1) with
  | None => (g1, false)
  | Some None => (g1, true)
  | Some (Some (v, s, span, kv)) =>
    (mkS (s_pu g1) (s_pv g1) (s_Uu g1) kv (s_su g1) (Nat.add (s_sv g1) (numat nums 1)) (surf_net_v g1 v (numat nums 1) s span), false)
  end.

(* ---- volume: rows of points are gathered per index of the insertion direction ---- *)
Definition vidx (g : vol) (u v w : nat) : nat := Nat.add (Nat.add v (Nat.mul u (v_sv g))) (Nat.mul (Nat.mul w (v_su g)) (v_sv g)).
Definition vol_net_u (g : vol) (u : T) (num s span : nat) : list (list T) :=
  let cpt2d := map (fun u_ => flat_map (fun w_ => map (fun v_ => getp (v_P g) (vidx g u_ v_ w_)) (seq 0 (v_sv g))) (seq 0 (v_sw g))) (seq 0 (v_su g)) in
  let tmp := knot_insertion_rows (v_pu g) (v_Uu g) cpt2d u num s span in
  flat_map (fun w_ => flat_map (fun u_ => map (fun v_ => getp (nth u_ tmp []) (Nat.add v_ (Nat.mul w_ (v_sv g)))) (seq 0 (v_sv g)))
                               (seq 0 (Nat.add (v_su g) num))) (seq 0 (v_sw g)).
Definition vol_net_v (g : vol) (v : T) (num s span : nat) : list (list T) :=
  let cpt2d := map (fun v_ => flat_map (fun w_ => map (fun u_ => getp (v_P g) (vidx g u_ v_ w_)) (seq 0 (v_su g))) (seq 0 (v_sw g))) (seq 0 (v_sv g)) in
  let tmp := knot_insertion_rows (v_pv g) (v_Uv g) cpt2d v num s span in
  flat_map (fun w_ => flat_map (fun u_ => map (fun v_ => getp (nth v_ tmp []) (Nat.add u_ (Nat.mul w_ (v_su g)))) (seq 0 (Nat.add (v_sv g) num)))
                               (seq 0 (v_su g))) (seq 0 (v_sw g)).
Definition vol_net_w (g : vol) (w : T) (num s span : nat) : list (list T) :=
  let uv := Nat.mul (v_su g) (v_sv g) in
  let cpt2d := map (fun w_ => map (fun i => getp (v_P g) (Nat.add i (Nat.mul w_ uv))) (seq 0 uv)) (seq 0 (v_sw g)) in
  let tmp := knot_insertion_rows (v_pw g) (v_Uw g) cpt2d w num s span in
  flat_map (fun w_ => nth w_ tmp []) (seq 0 (Nat.add (v_sw g) num)).

Definition insert_knot_vol (tol : T) (check : bool) (g : vol) (params : list (option T)) (nums : list Z) : vol * bool :=
  if andb check (negb (nums_ok 3 nums)) then (g, true) else
  let '(g1, r1) :=
    match dir_prep tol check (v_pu g) (v_Uu g) (v_su g) (parat params 0) (numat nums 0) with
    | None => (g, false)
    | Some None => (g, true)
    | Some (Some (u, s, span, kv)) =>
      (mkV (v_pu g) (v_pv g) (v_pw g) kv (v_Uv g) (v_Uw g) (Nat.add (v_su g) (numat nums 0)) (v_sv g) (v_sw g)
           (vol_net_u g u (numat nums 0) s span), false)
    end in
  if r1 then (g1, true) else
  let '(g2, r2) :=
    match dir_prep tol check (v_pv g1) (v_Uv g1) (v_sv g1) (parat params 1) (numat nums 1) with
    | None => (g1, false)
    | Some None => (g1, true)
    | Some (Some (v, s, span, kv)) =>
      (mkV (v_pu g1) (v_pv g1) (v_pw g1) (v_Uu g1) kv (v_Uw g1) (v_su g1) (Nat.add (v_sv g1) (numat nums 1)) (v_sw g1)
           (vol_net_v g1 v (numat nums 1) s span), false)
    end in
  if r2 then (g2, true) else
  match dir_prep tol check (v_pw g2) (v_Uw g2) (v_sw g2) (parat params 2) (numat nums 2) with
  | None => (g2, false)
  | Some None => (g2, true)
  | Some (Some (w, s, span, kv)) =>
    (mkV (v_pu g2) (v_pv g2) (v_pw g2) (v_Uu g2) (v_Uv g2) kv (v_su g2) (v_sv g2) (Nat.add (v_sw g2) (numat nums 2))
         (vol_net_w g2 w (numat nums 2) s span), false)
  end.

(* ---- object wrappers (BSpline.Curve/Surface/Volume.insert_knot with the default normalize_kv=True):
   parameters outside [0,1] raise (Rejected, object untouched); a GeomdlException of the operation is
   caught and printed, the call returns normally and the object keeps whatever state it reached.
   The keyword check_r is passed on as check_num. ---- *)
Definition params_in_unit (params : list (option T)) : bool :=
  forallb (fun o => match o with None => true | Some x => andb (oleb K (o0 K) x) (oleb K x (o1 K)) end) params.
Definition curve_insert_knot (tol : T) (normalize : bool) (c : curve) (param : option T) (num : Z) (check_r : bool) : res curve :=
  if andb normalize (negb (params_in_unit [param])) then Rejected
  else Ok (fst (insert_knot_curve tol check_r c [param] [num])).
Definition surf_insert_knot (tol : T) (normalize : bool) (g : surf) (u v : option T) (nu nv : Z) (check_r : bool) : res surf :=
  if andb normalize (negb (params_in_unit [u; v])) then Rejected
  else Ok (fst (insert_knot_surf tol check_r g [u; v] [nu; nv])).
Definition vol_insert_knot (tol : T) (normalize : bool) (g : vol) (u v w : option T) (nu nv nw : Z) (check_r : bool) : res vol :=
  if andb normalize (negb (params_in_unit [u; v; w])) then Rejected
  else Ok (fst (insert_knot_vol tol check_r g [u; v; w] [nu; nv; nw])).
End M.
