(* Executable model of the tessellation code of geomdl:
   _tessellate.make_triangle_mesh (vertex array with vertex_spacing, cell loop, tessellation callback, fix_numbering),
   polygon_triangulate, surface_tessellate, surface_trim_tessellate, make_quad_mesh, elements ids,
   multi.SurfaceContainer.tessellate (vertex / face id offsets), the OBJ / OFF / STL writers of exchange.py at
   token level and linalg.triangle_normal.
   Connectivity is pure index arithmetic over nat; only parametric positions, trims and normals use the scalar type.
   REPAIRED behaviour (fixes/C15-*.diff): the vertex array size is (size-1)/spacing+1 (the pinned tree used
   round(size/spacing), which is wrong for spacing >= 3), and make_quad_mesh stores the parametric position of its vertices.
   Definitions only. *)
From Coq Require Import List Arith Bool ZArith.
From NV Require Import Scalar.Ops Model.Common Model.Geom2D.
From NV Require Export Model.TessCore.
Import ListNotations.

Section M.
Context {T : Type} (K : ops T).
Notation "x + y" := (oadd K x y). Notation "x - y" := (osub K x y).
Notation "x * y" := (omul K x y). Notation "x / y" := (odiv K x y).

(* parametric position of the vertex after n steps of `u += u_jump`, u_jump = (1 / (size-1)) * spacing *)
Definition uv_jump (size k : nat) : T := (o1 K / ofnat K (Nat.sub size 1)) * ofnat K k.
Fixpoint uv_acc (jump : T) (n : nat) : T := match n with O => o0 K | S m => uv_acc jump m + jump end.
Definition vertex_uv (size_u size_v k : nat) (ij : nat * nat) : T * T :=
  (uv_acc (uv_jump size_u k) (fst ij), uv_acc (uv_jump size_v k) (snd ij)).
(* repaired make_quad_mesh: uv of vertex idx = ((idx / size_v) / (size_u-1), (idx mod size_v) / (size_v-1)) *)
Definition quad_uv (size_u size_v idx : nat) : T * T :=
  (ofnat K (Nat.div idx size_v) / ofnat K (Nat.sub size_u 1), ofnat K (Nat.modulo idx size_v) / ofnat K (Nat.sub size_v 1)).

(* ------------------------------------------------------------------ trimmed cells *)
Record vobj : Type := mkV { vid : nat; vdata : option nat; vu : T; vv : T; vinside : bool; vtrim : bool; vnotrim : bool }.
Record trimc : Type := mkTrim { treversed : bool; tpts : list (list T) }.
Definition vdummy : vobj := mkV 0 None (o0 K) (o0 K) false false false.
Definition vget (s : list vobj) (o : nat) : vobj := nth o s vdummy.
Definition vuv (o : vobj) : list T := [vu o; vv o].

(* inside / 'trim' / 'no_trim' flag update shared by vertices and triangles *)
Definition flag_update (flags : bool * bool * bool) (trims : list trimc) (test : trimc -> bool) : bool * bool * bool :=
  fold_left (fun f trim =>
    let '(ins, ftrim, fno) := f in
    if test trim then
      (if treversed trim then (if negb ftrim then (false, ftrim, true) else f) else (true, true, fno))
    else
      (if treversed trim then (if negb fno then (true, ftrim, fno) else f) else f)) trims flags.

Definition vtol (tols : T) (idx : nat) : T * T :=
  match idx with
  | 0 => (tols, tols) | 1 => (oneg K tols, tols) | 2 => (oneg K tols, oneg K tols) | _ => (tols, oneg K tols)
  end.
Definition classify_vertex (tols : T) (trims : list trimc) (idx : nat) (o : vobj) : vobj :=
  let '(ins, ftrim, fno) :=
    flag_update (vinside o, vtrim o, vnotrim o) trims (fun trim =>
      let cf := if treversed trim then o1 K else oneg K (o1 K) in
      wn_poly K [vu o + cf * fst (vtol tols idx); vv o + cf * snd (vtol tols idx)] (tpts trim)) in
  mkV (vid o) (vdata o) (vu o) (vv o) ins ftrim fno.

Definition in_open (tol t : T) : bool := andb (oltb K (o0 K - tol) t) (oltb K t (o1 K + tol)).
Definition snap (tol x : T) : T :=
  if andb (oleb K (x - tol) (o0 K)) (oleb K (o0 K) (x + tol)) then o0 K
  else if andb (oleb K (x - tol) (o1 K)) (oleb K (o1 K) (x + tol)) then o1 K else x.

(* intersections of the trim polylines with the four cell edges: (edge index, t1, point) in discovery order *)
Definition cell_intersections (rtol tol : T) (edges : list (list T * list T)) (trims : list trimc)
  : list (nat * T * list T) :=
  flat_map (fun trim =>
    flat_map (fun seg : list T * list T =>
      flat_map (fun idx2 =>
        let e := nth idx2 edges ([], []) in
        match intersect K rtol e seg with
        | Ok (t1, t2, INTERSECT) => if andb (in_open tol t1) (in_open tol t2) then [(idx2, t1, ray_eval K e t1)] else []
        | _ => []
        end) (seq 0 4))
      (combine (tpts trim) (tl (tpts trim)))) trims.

(* minimum-parameter intersection on edge idx: first strictly smaller than the running minimum, start 1 + tol *)
Definition min_isect (tol : T) (idx : nat) (isects : list (nat * T * list T)) : option (list T) :=
  snd (fold_left (fun acc is => let '(i, t, p) := is in
                    if andb (Nat.eqb i idx) (oltb K t (fst acc)) then (t, Some p) else acc)
                 isects (o1 K + tol, None)).
Definition has_isect (idx : nat) (isects : list (nat * T * list T)) : bool :=
  existsb (fun is => Nat.eqb (fst (fst is)) idx) isects.

(* a candidate triangle survives when its centre of mass (uv) is not flagged inside by the trims *)
Definition tri_kept (trims : list trimc) (s : list vobj) (t : nat * tri) : bool :=
  let '(_, (x, y, z)) := t in
  let three := ofnat K 3 in
  let c := [((o0 K + vu (vget s x)) + vu (vget s y) + vu (vget s z)) / three;
            ((o0 K + vv (vget s x)) + vv (vget s y) + vv (vget s z)) / three] in
  let '(ins, _, _) := flag_update (false, false, false) trims (fun trim => wn_poly K c (tpts trim)) in
  negb ins.

(* surface_trim_tessellate.  tol = 10e-8, tols = tol**2, rtol = default tolerance of ray.intersect *)
Definition surface_trim_tessellate (rtol tol tols : T) (trims : list trimc)
    (s : list vobj) (corners : list nat) (vidx tidx : nat) : list vobj * list nat * list (nat * tri) :=
  (* corner classification (persists in the shared vertex objects) *)
  let s1 := fold_left (fun st p => upd st (snd p) (classify_vertex tols trims (fst p) (vget st (snd p))))
                      (combine (seq 0 4) corners) s in
  let cv := map (vget s1) corners in
  if forallb vinside cv then (s1, [], []) else
  let cyc := corners ++ [hd 0 corners] in
  let edges := map (fun p => (vuv (vget s1 (fst p)), vuv (vget s1 (snd p)))) (combine cyc (tl cyc)) in
  let isects := cell_intersections rtol tol edges trims in
  (* walk the four edges: collect outside corners and one new vertex per edge that changes side *)
  let '(s2, tvs, _) :=
    fold_left (fun acc idx =>
      let '(st, tv, nvi) := acc in
      let a := nth idx cyc 0 in
      let b := nth (S idx) cyc 0 in
      let ia := vinside (vget st a) in
      let ib := vinside (vget st b) in
      if andb ia ib then acc else
      let tv1 := if ia then tv else tv ++ [a] in
      if andb (xorb ia ib) (has_isect idx isects) then
        let uvm := match min_isect tol idx isects with Some p => p | None => [] end in
        let nv := mkV (Nat.add vidx nvi) None (snap tol (cx K uvm)) (snap tol (cy K uvm)) false false false in
        (st ++ [nv], tv1 ++ [length st], S nvi)
      else (st, tv1, nvi))
    (seq 0 4) (s1, [], 0) in
  let tris := number_from tidx (polygon_triangulate tvs) in
  (* keep the triangles whose centre of mass (in the parametric plane) is not trimmed *)
  let keep := filter (tri_kept trims s2) tris in
  (s2, tvs, keep).

(* make_triangle_mesh with tessellate_func = surface_trim_tessellate (TrimTessellate).
   Result: final vertices (point index of the grid vertices / None for intersection vertices, uv) and triangles. *)
Definition make_trim_mesh (rtol tol tols : T) (trims : list trimc) (npts size_u size_v k : nat)
  : res (list (option nat * (T * T)) * list (nat * tri)) :=
  if orb (Nat.eqb k 0) (orb (Nat.leb size_u 1) (Nat.leb size_v 1)) then Crash else
  let a := varr_size size_u k in
  let b := varr_size size_v k in
  if negb (Nat.ltb (grid_point_index size_v k b (Nat.sub (Nat.mul a b) 1)) npts) then Crash else
  let s0 := map (fun g => let uv := vertex_uv size_u size_v k (Nat.div g b, Nat.modulo g b) in
                          mkV g (Some (grid_point_index size_v k b g)) (fst uv) (snd uv) false false false)
                (seq 0 (Nat.mul a b)) in
  let '(s, vl, ts, _, _) := mesh_loop (surface_trim_tessellate rtol tol tols trims) a b s0 in
  let vid_of := fun o => vid (vget s o) in
  let final := fix_numbering vid_of vl (map snd ts) in
  Ok (map (fun o => (vdata (vget s o), (vu (vget s o), vv (vget s o)))) final,
      map (fun t => let '(i, (x, y, z)) := t in
                    (i, (new_id vid_of final x, new_id vid_of final y, new_id vid_of final z))) ts).

(* ------------------------------------------------------------------ writers *)
(* linalg.triangle_normal: (v1 - v0) x (v2 - v1) *)
Definition triangle_normal (p0 p1 p2 : list T) : list T := cross3 K (vsub K p1 p0) (vsub K p2 p1).

(* a tessellated surface as the writers see it: vertex positions in id order, triangles as vertex ids *)
Definition smesh : Type := (list (list T) * list tri)%type.
(* export_obj_str: all `v` lines, then `f` lines with 1-based indices shifted by the vertices of the previous surfaces *)
Definition export_obj (ms : list smesh) : list (list T) * list (list nat) :=
  fold_left (fun acc m =>
    let off := length (fst acc) in
    (fst acc ++ fst m, snd acc ++ map (fun t => map (fun i => Nat.add (Nat.add i 1) off) (tri_ids t)) (snd m)))
    ms ([], []).
(* export_off_str: header counts, vertices, `3 i j k` lines with 0-based shifted indices *)
Definition export_off (ms : list smesh) : (nat * nat * nat) * list (list T) * list (list nat) :=
  let r := fold_left (fun acc m =>
    let off := length (fst acc) in
    (fst acc ++ fst m, snd acc ++ map (fun t => 3%nat :: map (fun i => Nat.add i off) (tri_ids t)) (snd m)))
    ms ([], []) in
  ((length (fst r), length (snd r), 0%nat), fst r, snd r).
(* export_stl_str: per triangle the normal and the three vertex positions *)
Definition export_stl (ms : list smesh) : list (list T * list (list T)) :=
  flat_map (fun m => map (fun t =>
      let '(x, y, z) := t in
      let p := fun i => nth i (fst m) [] in
      (triangle_normal (p x) (p y) (p z), [p x; p y; p z])) (snd m)) ms.
End M.
