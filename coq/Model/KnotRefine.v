(* Executable model of geomdl.helpers.knot_refinement (A5.4 with knot_list / add_knot_list / density
   bisection) and geomdl.operations.refine_knotvector for curves, surfaces and volumes.
   Rational shapes: same algorithm on the weighted control points.  Definitions only. *)
From Coq Require Import List Arith Bool ZArith.
From Param Require Import Param.
From NV Require Import Scalar.Ops Model.Common Model.Basis Model.KnotIns Model.InsertKnot.
Import ListNotations.

Section M.
Context {T : Type} (K : ops T).
Notation "x + y" := (oadd K x y). Notation "x - y" := (osub K x y).
Notation "x * y" := (omul K x y). Notation "x / y" := (odiv K x y).
Notation kn := (kn K).

(* sorted(set(l)): insertion into a strictly increasing list, exact equality *)
Fixpoint ins_uniq (x : T) (l : list T) : list T :=
  match l with
  | [] => [x]
  | y :: r => if oltb K x y then x :: l else if oleb K x y then l else y :: ins_uniq x r
  end.
Definition sort_uniq (l : list T) : list T := fold_left (fun acc x => ins_uniq x acc) l [].

(* one density step: every interval of consecutive list entries gets its midpoint *)
Fixpoint bisect (l : list T) : list T :=
  match l with
  | [] => []
  | x :: r => match r with
              | [] => [x]
              | y :: _ => x :: (x + (y - x) / o2 K) :: bisect r
              end
  end.
Fixpoint iter_bisect (d : nat) (l : list T) : list T :=
  match d with O => l | S e => iter_bisect e (bisect l) end.

(* knots to insert: each listed value as often as its multiplicity is short of the degree *)
Definition refine_X (tol : T) (p : nat) (U : list T) (knot_list : list T) : list T :=
  flat_map (fun mk => repeat mk (Nat.sub p (find_multiplicity K tol mk U))) knot_list.

(* input handling of helpers.knot_refinement up to the list X.
   Rejected: density < 1 (check_num) or nothing to insert; Crash: fewer than two distinct listed knots
   (the bisection loop reads the unbound loop variable `i`). *)
Definition refine_plan (tol : T) (check : bool) (p : nat) (U : list T) (knot_list : option (list T)) (add : list T)
    (density : nat) : res (list T) :=
  if andb check (Nat.eqb density 0) then Rejected else
  let kl0 := match knot_list with Some l => l | None => slice U p (Nat.sub (length U) p) end in
  let kl1 := sort_uniq (kl0 ++ add) in
  if andb (Nat.ltb 0 density) (Nat.ltb (length kl1) 2) then Crash else
  let X := refine_X tol p U (iter_bisect density kl1) in
  match X with [] => Rejected | _ => Ok X end.

Section Gen.
Context {A : Type} (lerpA : T -> A -> A -> A) (dA : A).
Notation getA := (getA dA).

(* inner while loop: copy control points / knots to the right of X[j] *)
Fixpoint refine_shift (fuel : nat) (p : nat) (U : list T) (P : list A) (xj : T) (a : nat)
    (st : list A * list T * nat * nat) : list A * list T * nat * nat :=
  match fuel with
  | O => st
  | S f =>
    let '(nw, kv, i, k) := st in
    if andb (oleb K xj (kn U i)) (Nat.ltb a i) then
      refine_shift f p U P xj a
        (upd nw (Nat.sub (Nat.sub k p) 1) (getA P (Nat.sub (Nat.sub i p) 1)), upd kv k (kn U i), Nat.pred i, Nat.pred k)
    else st
  end.

Definition refine_g (tol : T) (p : nat) (U : list T) (P : list A) (X : list T) : list A * list T :=
  let r := Nat.sub (length X) 1 in
  let n := Nat.sub (length P) 1 in
  let m := Nat.add (Nat.add n p) 1 in
  let a := find_span_linear K p U (S n) (nth 0 X (o0 K)) in
  let b := S (find_span_linear K p U (S n) (nth r X (o0 K))) in
  let new0 := repeat dA (Nat.add (Nat.add n r) 2) in
  let new1 := fold_left (fun nw j => upd nw j (getA P j)) (seq 0 (S (Nat.sub a p))) new0 in
  let new2 := fold_left (fun nw j => upd nw (Nat.add (Nat.add j r) 1) (getA P j)) (seq (Nat.sub b 1) (Nat.sub (S n) (Nat.sub b 1))) new1 in
  let kv0 := repeat (o0 K) (Nat.add (Nat.add m r) 2) in
  let kv1 := fold_left (fun kv j => upd kv j (kn U j)) (seq 0 (S a)) kv0 in
  let kv2 := fold_left (fun kv j => upd kv (Nat.add (Nat.add j r) 1) (kn U j)) (seq (Nat.add b p) (Nat.sub (S m) (Nat.add b p))) kv1 in
  let i0 := Nat.sub (Nat.add b p) 1 in
  let k0 := Nat.add (Nat.add b p) r in
  let '(nwF, kvF, _, _) :=
    fold_left (fun (st : list A * list T * nat * nat) xj =>
      let '(nw, kv, i, k) := refine_shift (S (length U)) p U P xj a st in
      let nw1 := upd nw (Nat.sub (Nat.sub k p) 1) (getA nw (Nat.sub k p)) in
      let nw2 := fold_left (fun nw l =>
          let idx := Nat.add (Nat.sub k p) l in
          let alpha := kn kv (Nat.add k l) - xj in
          if oltb K (oabs K alpha) tol then upd nw (Nat.sub idx 1) (getA nw idx)
          else let alpha := alpha / (kn kv (Nat.add k l) - kn U (Nat.add (Nat.sub i p) l)) in
               upd nw (Nat.sub idx 1) (lerpA alpha (getA nw idx) (getA nw (Nat.sub idx 1)))) (seq 1 p) nw1 in
      (nw2, upd kv k xj, i, Nat.pred k)) (rev X) (new2, kv2, i0, k0) in
  (nwF, kvF).

Definition knot_refinement_g (tol : T) (check : bool) (p : nat) (U : list T) (P : list A)
    (knot_list : option (list T)) (add : list T) (density : nat) : res (list A * list T) :=
  res_map (refine_g tol p U P) (refine_plan tol check p U knot_list add density).
End Gen.

(* points = coordinate lists (curves, surface rows); rows of points (volumes) *)
Definition knot_refinement := knot_refinement_g (lerp K) ([] : list T).
Definition refine_pts := refine_g (lerp K) ([] : list T).
Definition refine_rows := refine_g (lerp_row K) ([] : list (list T)).

(* ---- operations.refine_knotvector; result = (object state afterwards, an exception was raised) ---- *)
Definition dens (params : list nat) (i : nat) : nat := nth i params 0.

Definition refine_curve (tol : T) (check : bool) (c : curve) (params : list nat) : curve * bool :=
  if andb check (negb (Nat.eqb (length params) 1)) then (c, true) else
  if Nat.eqb (dens params 0) 0 then (c, false) else
  match refine_plan tol true (c_p c) (c_U c) None [] (dens params 0) with
  | Ok X => let '(Q, V) := refine_pts tol (c_p c) (c_U c) (c_P c) X in (mkC (c_p c) V Q, false)
  | _ => (c, true)
  end.

Definition refine_surf_u (tol : T) (g : surf) (d : nat) : surf * bool :=
  match refine_plan tol true (s_pu g) (s_Uu g) None [] d with
  | Ok X =>
    let row v := map (fun u_ => getp (s_P g) (Nat.add v (Nat.mul (s_sv g) u_))) (seq 0 (s_su g)) in
    let tmp := flat_map (fun v => fst (refine_pts tol (s_pu g) (s_Uu g) (row v) X)) (seq 0 (s_sv g)) in
    let '(Q0, V) := refine_pts tol (s_pu g) (s_Uu g) (row (Nat.pred (s_sv g))) X in
    let nsz := length Q0 in
    (mkS (s_pu g) (s_pv g) V (s_Uv g) nsz (s_sv g) (flip_ctrlpts_u tmp nsz (s_sv g)), false)
  | _ => (g, true)
  end.
Definition refine_surf_v (tol : T) (g : surf) (d : nat) : surf * bool :=
  match refine_plan tol true (s_pv g) (s_Uv g) None [] d with
  | Ok X =>
    let row u_ := map (fun v => getp (s_P g) (Nat.add v (Nat.mul (s_sv g) u_))) (seq 0 (s_sv g)) in
    let tmp := flat_map (fun u_ => fst (refine_pts tol (s_pv g) (s_Uv g) (row u_) X)) (seq 0 (s_su g)) in
    let '(Q0, V) := refine_pts tol (s_pv g) (s_Uv g) (row (Nat.pred (s_su g))) X in
    (mkS (s_pu g) (s_pv g) (s_Uu g) V (s_su g) (length Q0) tmp, false)
  | _ => (g, true)
  end.
Definition refine_surf (tol : T) (check : bool) (g : surf) (params : list nat) : surf * bool :=
  if andb check (negb (Nat.eqb (length params) 2)) then (g, true) else
  let '(g1, r1) := if Nat.eqb (dens params 0) 0 then (g, false) else refine_surf_u tol g (dens params 0) in
  if r1 then (g1, true) else
  if Nat.eqb (dens params 1) 0 then (g1, false) else refine_surf_v tol g1 (dens params 1).

Definition refine_vol_u (tol : T) (g : vol) (d : nat) : vol * bool :=
  match refine_plan tol true (v_pu g) (v_Uu g) None [] d with
  | Ok X =>
    let cpt2d := map (fun u_ => flat_map (fun w_ => map (fun v_ => getp (v_P g) (vidx g u_ v_ w_)) (seq 0 (v_sv g))) (seq 0 (v_sw g))) (seq 0 (v_su g)) in
    let '(tmp, V) := refine_rows tol (v_pu g) (v_Uu g) cpt2d X in
    let nsz := length tmp in
    (mkV (v_pu g) (v_pv g) (v_pw g) V (v_Uv g) (v_Uw g) nsz (v_sv g) (v_sw g)
      (flat_map (fun w_ => flat_map (fun u_ => map (fun v_ => getp (nth u_ tmp []) (Nat.add v_ (Nat.mul w_ (v_sv g)))) (seq 0 (v_sv g)))
                               (seq 0 nsz)) (seq 0 (v_sw g))), false)
  | _ => (g, true)
  end.
Definition refine_vol_v (tol : T) (g : vol) (d : nat) : vol * bool :=
  match refine_plan tol true (v_pv g) (v_Uv g) None [] d with
  | Ok X =>
    let cpt2d := map (fun v_ => flat_map (fun w_ => map (fun u_ => getp (v_P g) (vidx g u_ v_ w_)) (seq 0 (v_su g))) (seq 0 (v_sw g))) (seq 0 (v_sv g)) in
    let '(tmp, V) := refine_rows tol (v_pv g) (v_Uv g) cpt2d X in
    let nsz := length tmp in
    (mkV (v_pu g) (v_pv g) (v_pw g) (v_Uu g) V (v_Uw g) (v_su g) nsz (v_sw g)
      (flat_map (fun w_ => flat_map (fun u_ => map (fun v_ => getp (nth v_ tmp []) (Nat.add u_ (Nat.mul w_ (v_su g)))) (seq 0 nsz))
                               (seq 0 (v_su g))) (seq 0 (v_sw g))), false)
  | _ => (g, true)
  end.
Definition refine_vol_w (tol : T) (g : vol) (d : nat) : vol * bool :=
  match refine_plan tol true (v_pw g) (v_Uw g) None [] d with
  | Ok X =>
    let uv := Nat.mul (v_su g) (v_sv g) in
    let cpt2d := map (fun w_ => map (fun i => getp (v_P g) (Nat.add i (Nat.mul w_ uv))) (seq 0 uv)) (seq 0 (v_sw g)) in
    let '(tmp, V) := refine_rows tol (v_pw g) (v_Uw g) cpt2d X in
    let nsz := length tmp in
    (mkV (v_pu g) (v_pv g) (v_pw g) (v_Uu g) (v_Uv g) V (v_su g) (v_sv g) nsz
      (flat_map (fun w_ => nth w_ tmp []) (seq 0 nsz)), false)
  | _ => (g, true)
  end.
Definition refine_vol (tol : T) (check : bool) (g : vol) (params : list nat) : vol * bool :=
  if andb check (negb (Nat.eqb (length params) 3)) then (g, true) else
  let '(g1, r1) := if Nat.eqb (dens params 0) 0 then (g, false) else refine_vol_u tol g (dens params 0) in
  if r1 then (g1, true) else
  let '(g2, r2) := if Nat.eqb (dens params 1) 0 then (g1, false) else refine_vol_v tol g1 (dens params 1) in
  if r2 then (g2, true) else
  if Nat.eqb (dens params 2) 0 then (g2, false) else refine_vol_w tol g2 (dens params 2).
End M.
