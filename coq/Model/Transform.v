(* Executable model of operations.translate / rotate / scale on single shapes and on containers
   (geomdl/operations.py:1433-1601, iteration protocol abstract.py:229-246, multi.py:56-78), and of the
   inplace / copy behaviour as a small object store with provenance ids.  Definitions only.
   cos and sin of the rotation angle are scalar inputs (c, s). *)
From Coq Require Import List Arith Bool.
From Param Require Import Param.
From NV Require Import Scalar.Ops Model.Common Model.Basis Model.Knots Model.Eval Model.Homog.
Import ListNotations.

Section M.
Context {T : Type} (K : ops T).
Notation "x + y" := (oadd K x y). Notation "x - y" := (osub K x y).
Notation "x * y" := (omul K x y). Notation "x / y" := (odiv K x y).

(* ---- the maps on one control point ---- *)
(* [v + vec[i] for i, v in enumerate(pt)] *)
Definition tr_point (vec pt : list T) : list T := vadd K pt vec.
(* [p * float(multiplier) for p in pts] *)
Definition sc_point (m : T) (pt : list T) : list T := map (fun x => x * m) pt.
Definition c0 (pt : list T) := nth 0 pt (o0 K).
Definition c1 (pt : list T) := nth 1 pt (o0 K).
Definition c2 (pt : list T) := nth 2 pt (o0 K).
(* rotate_x / rotate_y fill a zero vector of `dimension` entries at indices 0, 1, 2; rotate_z copies the point *)
Definition rot_x (c s : T) (pt : list T) : list T :=
  [c0 pt; c1 pt * c - c2 pt * s; c2 pt * c + c1 pt * s] ++ repeat (o0 K) (Nat.sub (length pt) 3).
Definition rot_y (c s : T) (pt : list T) : list T :=
  [c0 pt * c - c2 pt * s; c1 pt; c2 pt * c + c0 pt * s] ++ repeat (o0 K) (Nat.sub (length pt) 3).
Definition rot_z (c s : T) (pt : list T) : list T :=
  (c0 pt * c - c1 pt * s) :: (c1 pt * c + c0 pt * s) :: skipn 2 pt.
Definition rot_axis (axis : nat) (c s : T) (pt : list T) : list T :=
  match axis with O => rot_x c s pt | S O => rot_y c s pt | _ => rot_z c s pt end.
(* translate_vector = vector_generate(origin, zeros) = [0 - o_i] ; the second translation uses [-tv] *)
Definition neg_origin (o : list T) : list T := map (fun x => o0 K - x) o.
Definition back_origin (o : list T) : list T := map (fun tv => o0 K - tv) (neg_origin o).

(* ---- shapes: stored control points are weighted (homogeneous) for rational shapes ---- *)
Record shape := mkShape {
  sh_rational : bool;
  sh_deg : list nat;
  sh_kv : list (list T);
  sh_size : list nat;
  sh_pts : list (list T) }.

(* setter of `ctrlpts` applied to the getter's value mapped by f: NURBS classes separate the weights, map the
   unweighted points and recombine with the unchanged weights *)
Definition on_ctrlpts (f : list T -> list T) (sh : shape) : shape :=
  mkShape (sh_rational sh) (sh_deg sh) (sh_kv sh) (sh_size sh)
    (if sh_rational sh then hom_combine K (map f (hom_unweight K (sh_pts sh))) (hom_weights K (sh_pts sh))
     else map f (sh_pts sh)).

Definition sh_dimension (sh : shape) : nat :=
  let d := length (nth 0 (sh_pts sh) []) in if sh_rational sh then Nat.pred d else d.

(* point of the shape at a parameter tuple (the evaluator of its parametric dimension; projection if rational) *)
Definition sh_eval (sh : shape) (prm : list T) : res (list T) :=
  let d := length (nth 0 (sh_pts sh) []) in
  let fin := fun pt => if sh_rational sh then project K pt else pt in
  match sh_deg sh, sh_kv sh, sh_size sh, prm with
  | [p], [U], [_], [u] => Ok (fin (curve_point K d p U (sh_pts sh) u))
  | [pu; pv], [Uu; Uv], [su; sv], [u; v] => Ok (fin (surface_point K d pu pv Uu Uv su sv (sh_pts sh) u v))
  | [pu; pv; pw], [Uu; Uv; Uw], [su; sv; sw], [u; v; w] => Ok (fin (volume_point K d pu pv pw Uu Uv Uw su sv sw (sh_pts sh) u v w))
  | _, _, _, _ => Crash
  end.
(* domain start per direction: knotvector[degree] *)
Definition sh_start (sh : shape) : list T := map (fun pU => kn K (snd pU) (fst pU)) (combine (sh_deg sh) (sh_kv sh)).

(* ---- the three operations on the list of elements ("for g in geom"); a single shape is the one-element list ---- *)
Definition translate_elems (vec : list T) (elems : list shape) : res (list shape) :=
  match vec, elems with
  | [], _ => Rejected
  | _, [] => Ok []
  | _, e0 :: _ => if Nat.eqb (length vec) (sh_dimension e0) then Ok (map (on_ctrlpts (tr_point vec)) elems) else Rejected
  end.

Definition scale_elems (m : T) (elems : list shape) : res (list shape) := Ok (map (on_ctrlpts (sc_point m)) elems).

Definition rotate_shape (axis : nat) (c s : T) (origin : list T) (sh : shape) : shape :=
  on_ctrlpts (tr_point (back_origin origin)) (on_ctrlpts (rot_axis axis c s) (on_ctrlpts (tr_point (neg_origin origin)) sh)).

(* axis argument: forced to 2 for 2-dimensional shapes, otherwise must be 0, 1 or 2; origin = start point of the first element *)
Definition rotate_elems (axis : nat) (c s : T) (elems : list shape) : res (list shape) :=
  match elems with
  | [] => Crash
  | e0 :: _ =>
    let ax := if Nat.eqb (sh_dimension e0) 2 then 2 else axis in
    if Nat.ltb 2 ax then Rejected
    else res_bind (sh_eval e0 (sh_start e0)) (fun origin => Ok (map (rotate_shape ax c s origin) elems))
  end.
End M.
Arguments shape T : clear implicits. Arguments mkShape {T}. Arguments sh_rational {T}. Arguments sh_deg {T}. Arguments sh_kv {T}. Arguments sh_size {T}. Arguments sh_pts {T}.

(* ---- objects, copies and in-place updates: an object store with provenance ids ---- *)
Section Store.
Context {S : Type}.   (* the type of single-shape contents *)
Inductive obj : Type := Single (s : S) | Multi (elems : list nat).
Record store := mkStore { st_objs : list (nat * obj); st_next : nat }.

Fixpoint lookup (l : list (nat * obj)) (i : nat) : option obj :=
  match l with [] => None | (j, o) :: r => if Nat.eqb i j then Some o else lookup r i end.
Fixpoint write (l : list (nat * obj)) (i : nat) (o : obj) : list (nat * obj) :=
  match l with [] => [] | (j, o') :: r => if Nat.eqb i j then (j, o) :: r else (j, o') :: write r i o end.
Definition alloc (h : store) (o : obj) : store * nat :=
  (mkStore ((st_next h, o) :: st_objs h) (Datatypes.S (st_next h)), st_next h).

(* copy.deepcopy: fresh ids for the object and, for a container, for each of its elements *)
Fixpoint copy_elems (h : store) (es : list nat) : store * list nat :=
  match es with
  | [] => (h, [])
  | e :: r => match lookup (st_objs h) e with
              | Some o => let '(h1, j) := alloc h o in let '(h2, ids) := copy_elems h1 r in (h2, j :: ids)
              | None => copy_elems h r
              end
  end.
Definition deepcopy (h : store) (i : nat) : option (store * nat) :=
  match lookup (st_objs h) i with
  | None => None
  | Some (Single s) => Some (alloc h (Single s))
  | Some (Multi es) => let '(h', ids) := copy_elems h es in Some (alloc h' (Multi ids))
  end.

(* ids of the elements visited by "for g in geom" *)
Definition elems_of (h : store) (i : nat) : list nat :=
  match lookup (st_objs h) i with Some (Multi es) => es | Some (Single _) => [i] | None => [] end.
Definition content (h : store) (i : nat) : list S :=
  flat_map (fun e => match lookup (st_objs h) e with Some (Single s) => [s] | _ => [] end) (elems_of h i).

(* g.ctrlpts = new_ctrlpts for every element g: update each element object in place *)
Definition upd1 (f : S -> S) (h : store) (e : nat) : store :=
  match lookup (st_objs h) e with
  | Some (Single s) => mkStore (write (st_objs h) e (Single (f s))) (st_next h)
  | _ => h
  end.
Fixpoint update_list (f : S -> S) (h : store) (es : list nat) : store :=
  match es with [] => h | e :: r => update_list f (upd1 f h e) r end.
Definition update_elems (f : S -> S) (h : store) (i : nat) : store := update_list f h (elems_of h i).

(* geom = obj if inplace else copy.deepcopy(obj); transform the elements of geom; return geom *)
Definition apply_op (inplace : bool) (f : S -> S) (h : store) (i : nat) : option (store * nat) :=
  if inplace then Some (update_elems f h i, i)
  else match deepcopy h i with
       | Some (h', j) => Some (update_elems f h' j, j)
       | None => None
       end.
End Store.
Arguments obj S : clear implicits. Arguments store S : clear implicits.
