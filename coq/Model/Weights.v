(* Executable model of the weight handling of geomdl: compatibility.combine/separate_ctrlpts_weights,
   generate_ctrlptsw(2d), generate_ctrlpts(2d)_weights, the ctrlptsw / ctrlpts / weights view machine of
   NURBS.Curve|Surface|Volume (NURBS.py getters, setters, _cache, reset), convert.bspline_to_nurbs /
   nurbs_to_bspline on the level of control points, and CPGen.Grid / GridWeighted (as repaired by
   fixes/C09-gridweighted-own-weight.diff).  Definitions only. *)
From Coq Require Import List Arith Bool.
From NV Require Import Scalar.Ops Model.Common.
Import ListNotations.

Section M.
Context {T : Type} (K : ops T).
Notation "x + y" := (oadd K x y). Notation "x - y" := (osub K x y).
Notation "x * y" := (omul K x y). Notation "x / y" := (odiv K x y).

Definition isz0 (x : T) : bool := oeqb K x (o0 K).
Definition lastw (ptw : list T) : T := last ptw (o0 K).

(* ---- compatibility.combine_ctrlpts_weights : [c*w for c in pt] + [w], zip truncates ---- *)
Definition wpt (pt : list T) (w : T) : list T := map (fun c => c * w) pt ++ [w].
Definition combine_cw (P : list (list T)) (W : list T) : list (list T) :=
  map (fun pw => wpt (fst pw) (snd pw)) (combine P W).
Definition ones (n : nat) : list T := repeat (o1 K) n.

(* ---- compatibility.separate_ctrlpts_weights : [pw / ptw[-1] for pw in ptw[:-1]], ptw[-1] ---- *)
Definition unw (ptw : list T) : list T := map (fun c => c / lastw ptw) (removelast ptw).
Definition separate_cw (Pw : list (list T)) : list (list T) * list T := (map unw Pw, map lastw Pw).
(* Python raises IndexError on an empty point and ZeroDivisionError on a zero weight (if there is a coordinate) *)
Definition sep_pt_ok (ptw : list T) : bool :=
  match ptw with [] => false | [_] => true | _ => negb (isz0 (lastw ptw)) end.
Definition separate_res (Pw : list (list T)) : res (list (list T) * list T) :=
  if forallb sep_pt_ok Pw then Ok (separate_cw Pw) else Crash.

(* ---- compatibility.generate_ctrlptsw : (x,y,z,w) -> (x*w,y*w,z*w,w) ; generate_ctrlpts_weights: the inverse ---- *)
Definition gen_w_pt (pt : list T) : list T := map (fun c => c * lastw pt) (removelast pt) ++ [lastw pt].
Definition gen_u_pt (pt : list T) : list T := map (fun c => c / lastw pt) (removelast pt) ++ [lastw pt].
Definition generate_ctrlptsw (P : list (list T)) : res (list (list T)) :=
  if forallb (fun pt => negb (Nat.eqb (length pt) 0)) P then Ok (map gen_w_pt P) else Crash.
(* every coordinate including the weight itself is divided by the weight: zero weight always raises *)
Definition generate_ctrlpts_weights (P : list (list T)) : res (list (list T)) :=
  if forallb (fun pt => andb (negb (Nat.eqb (length pt) 0)) (negb (isz0 (lastw pt)))) P then Ok (map gen_u_pt P) else Crash.
Definition generate_ctrlptsw2d (G : list (list (list T))) : res (list (list (list T))) :=
  if forallb (forallb (fun pt => negb (Nat.eqb (length pt) 0))) G then Ok (map (map gen_w_pt) G) else Crash.
Definition generate_ctrlpts2d_weights (G : list (list (list T))) : res (list (list (list T))) :=
  if forallb (forallb (fun pt => andb (negb (Nat.eqb (length pt) 0)) (negb (isz0 (lastw pt))))) G
  then Ok (map (map gen_u_pt) G) else Crash.

(* ---- the three views of a NURBS object ----
   vw_cpw    = _control_points (homogeneous points, the definition)
   vw_cpts   = _cache['ctrlpts'], vw_cwts = _cache['weights']; the empty list means "not cached"
               (the getters test the truth value of the list) *)
Record nview := mkNview { vw_cpw : list (list T); vw_cpts : list (list T); vw_cwts : list T }.

Inductive vop :=
| VSetCpw (v : list (list T))      (* obj.ctrlptsw = v   (also obj.set_ctrlpts(v, *sizes)) *)
| VSetPts (v : list (list T))      (* obj.ctrlpts = v *)
| VSetWts (v : list T)             (* obj.weights = v *)
| VGetCpw | VGetPts | VGetWts.

Inductive vout := VoNone | VoPts (l : list (list T)) | VoWts (l : list T).

Definition is_nil {A} (l : list A) : bool := match l with [] => true | _ => false end.

(* populate both caches when the requested one is empty; Crash leaves the state untouched *)
Definition v_fill (s : nview) : res nview :=
  res_map (fun cw => mkNview (vw_cpw s) (fst cw) (snd cw)) (separate_res (vw_cpw s)).
Definition v_get_pts (s : nview) : res (nview * list (list T)) :=
  if is_nil (vw_cpts s) then res_map (fun s' => (s', vw_cpts s')) (v_fill s) else Ok (s, vw_cpts s).
Definition v_get_wts (s : nview) : res (nview * list T) :=
  if is_nil (vw_cwts s) then res_map (fun s' => (s', vw_cwts s')) (v_fill s) else Ok (s, vw_cwts s).

(* abstract.*.set_ctrlpts as reached from the setters.  minlen = degree+1 for curves (0 for surfaces and
   volumes, whose size arguments are the unchanged sizes), mindim = 3 (4 for volumes).
   Order of events in Python: size / dimension checks (GeomdlException), reset(ctrlpts=True) [clears the
   control points and both caches], then validate_and_clean which raises ValueError on a ragged point --
   after the reset, so a ragged input leaves the object without control points. *)
Definition v_set_raw (minlen mindim : nat) (s : nview) (v : list (list T)) : nview * res vout :=
  match v with
  | [] => (s, if Nat.ltb 0 minlen then Rejected else Crash)     (* len(ctrlpts[0]) -> IndexError when the length check passes *)
  | p0 :: _ =>
    if Nat.ltb (length v) minlen then (s, Rejected)
    else if Nat.ltb (length p0) mindim then (s, Rejected)
    else if forallb (fun pt => Nat.eqb (length pt) (length p0)) v then (mkNview v [] [], Ok VoNone)
    else (mkNview [] [] [], Rejected)
  end.

Definition vstep (minlen mindim : nat) (s : nview) (o : vop) : nview * res vout :=
  match o with
  | VGetCpw => (s, Ok (VoPts (vw_cpw s)))
  | VGetPts => match v_get_pts s with Ok (s', l) => (s', Ok (VoPts l)) | Rejected => (s, Rejected) | Crash => (s, Crash) end
  | VGetWts => match v_get_wts s with Ok (s', l) => (s', Ok (VoWts l)) | Rejected => (s, Rejected) | Crash => (s, Crash) end
  | VSetCpw v => v_set_raw minlen mindim s v
  | VSetPts v =>
    match v_get_wts s with
    | Ok (s', w) => let w' := if is_nil w then ones (length v) else w in
                    v_set_raw minlen mindim s' (combine_cw v w')
    | Rejected => (s, Rejected) | Crash => (s, Crash)
    end
  | VSetWts w =>
    match v_get_pts s with
    | Ok (s', p) => if is_nil p then (s', Rejected) else v_set_raw minlen mindim s' (combine_cw p w)
    | Rejected => (s, Rejected) | Crash => (s, Crash)
    end
  end.

Fixpoint vrun (minlen mindim : nat) (s : nview) (ops : list vop) : nview * list (res vout) :=
  match ops with
  | [] => (s, [])
  | o :: r => let '(s1, x) := vstep minlen mindim s o in
              let '(s2, xs) := vrun minlen mindim s1 r in (s2, x :: xs)
  end.

(* convert.bspline_to_nurbs: outcrv.ctrlpts = incrv.ctrlpts on a fresh rational object = unit weights;
   nurbs_to_bspline: the unweighted points when every weight is within tol of 1, else the object itself *)
Definition to_rational (P : list (list T)) : list (list T) := combine_cw P (ones (length P)).
Definition all_unit (tol : T) (W : list T) : bool := forallb (fun w => oleb K (oabs K (w - o1 K)) tol) W.

(* ---- CPGen.Grid.generate: (num_u+1) x (num_v+1) points [x, y, z], x and y accumulated by the spacing ---- *)
Fixpoint accum (start step : T) (n : nat) : list T :=
  match n with O => [] | S m => start :: accum (start + step) step m end.
Definition grid_points (sx sy z : T) (nu nv : nat) : list (list (list T)) :=
  map (fun x => map (fun y => [x; y; z]) (accum (o0 K) (sy / ofnat K nv) (S nv))) (accum (o0 K) (sx / ofnat K nu) (S nu)).

Fixpoint mapi_from {A B} (f : nat -> A -> B) (i : nat) (l : list A) : list B :=
  match l with [] => [] | x :: r => f i x :: mapi_from f (S i) r end.
Definition mapi {A B} (f : nat -> A -> B) (l : list A) : list B := mapi_from f 0 l.

(* GridWeighted.grid (repaired): point (i, j) gets weight number j + i * len(row) *)
Definition gridw (G : list (list (list T))) (W : list T) : list (list (list T)) :=
  mapi (fun i row => mapi (fun j pt => wpt pt (nth (Nat.add j (Nat.mul i (length row))) W (o0 K))) row) G.
(* the pinned code used weights[i] for the whole row i *)
Definition gridw_pinned (G : list (list (list T))) (W : list T) : list (list (list T)) :=
  mapi (fun i row => map (fun pt => wpt pt (nth i W (o0 K))) row) G.

Record gstate := mkG { g_pts : list (list (list T)); g_w : list T; g_cache : list (list (list T)) }.
Inductive gop :=
| GGenerate (nu nv : nat)          (* generate(nu, nv); nu, nv >= 1 else ValueError *)
| GSetAll (w : T)                  (* weight = scalar *)
| GSetList (w : list T)            (* weight = list *)
| GRead                            (* .grid *)
| GReadW                           (* .weight *)
| GReset.
Inductive gout := GoNone | GoGrid (g : list (list (list T))) | GoW (w : list T).

Definition glen (G : list (list (list T))) : nat :=
  match G with [] => 0 | r :: _ => Nat.mul (length G) (length r) end.
Definition g_reset (s : gstate) : gstate :=
  (* Grid.reset empties the grid; GridWeighted.reset then clears cache and weights if there are weights *)
  if is_nil (g_w s) then mkG [] (g_w s) (g_cache s) else mkG [] [] [].

Definition gstep (sx sy z : T) (s : gstate) (o : gop) : gstate * res gout :=
  match o with
  | GGenerate nu nv =>
    if orb (Nat.ltb nu 1) (Nat.ltb nv 1) then (s, Rejected)
    else let s' := g_reset s in (mkG (grid_points sx sy z nu nv) (g_w s') (g_cache s'), Ok GoNone)
  | GSetAll w =>
    if is_nil (g_pts s) then (s, Rejected)
    else if oleb K w (o0 K) then (s, Rejected)
    else (mkG (g_pts s) (repeat w (glen (g_pts s))) [], Ok GoNone)
  | GSetList w =>
    if is_nil (g_pts s) then (s, Rejected)
    else if negb (Nat.eqb (length w) (glen (g_pts s))) then (s, Rejected)
    else if forallb (fun x => oleb K x (o0 K)) w then (s, Rejected)
    else (mkG (g_pts s) w [], Ok GoNone)
  | GRead =>
    let w := if is_nil (g_w s) then ones (glen (g_pts s)) else g_w s in
    let c := if is_nil (g_cache s) then gridw (g_pts s) w else g_cache s in
    (mkG (g_pts s) w c, Ok (GoGrid c))
  | GReadW => (s, Ok (GoW (g_w s)))
  | GReset => (g_reset s, Ok GoNone)
  end.

Fixpoint grun (sx sy z : T) (s : gstate) (ops : list gop) : gstate * list (res gout) :=
  match ops with
  | [] => (s, [])
  | o :: r => let '(s1, x) := gstep sx sy z s o in
              let '(s2, xs) := grun sx sy z s1 r in (s2, x :: xs)
  end.
End M.
