(* Executable model of geomdl/_voxelize.py (generate_voxel_grid, is_point_inside_voxel, find_inouts_st /
   find_inouts_mp), voxelize.voxelize and of the control-point lookup _operations.find_ctrlpts_curve /
   find_ctrlpts_surface.  Polymorphic in the scalar operations.  Definitions only.
   multiprocessing.Pool.map is modelled as the order-preserving map (DESIGN.md 7.5). *)
From Coq Require Import List Arith Bool.
From NV Require Import Scalar.Ops Model.Common Model.Basis Model.Geom2D.
Import ListNotations.

Section M.
Context {T : Type} (K : ops T).
Notation "x + y" := (oadd K x y). Notation "x - y" := (osub K x y).
Notation "x * y" := (omul K x y). Notation "x / y" := (odiv K x y).

Definition vmin3 (s : list T) : T := fold_left (omin K) (tl s) (hd (o0 K) s).     (* Python min over the three steps *)

(* bbox = [min corner; max corner], sz = grid size per axis; a voxel is [bbmin; bbmax] *)
Definition generate_voxel_grid (fuel : nat) (bbox : list (list T)) (sz : list nat) (use_cubes : bool)
  : res (list (list (list T))) :=
  let s i := nth i sz 0%nat in
  if orb (Nat.leb (s 0%nat) 1) (orb (Nat.leb (s 1%nat) 1) (Nat.leb (s 2%nat) 1)) then Rejected else
  let lo := nth 0 bbox [] in
  let hi := nth 1 bbox [] in
  let steps0 := map (fun i => (nth i hi (o0 K) - nth i lo (o0 K)) / ofnat K (s i - 1)) (seq 0 3) in
  let steps := if use_cubes then repeat (vmin3 steps0) 3 else steps0 in
  let rng i := frange K fuel (nth i lo (o0 K)) (nth i hi (o0 K)) (nth i steps (o0 K)) in
  res_bind (rng 0%nat) (fun r0 => res_bind (rng 1%nat) (fun r1 => res_bind (rng 2%nat) (fun r2 =>
    Ok (flat_map (fun u => flat_map (fun v => map (fun w =>
          let bbmin := [u; v; w] in [bbmin; vadd K bbmin steps]) r2) r1) r0)))).

(* the padded box of a voxel and the dot products that do not depend on the point *)
Definition vox_bbmin (tol : T) (bbox : list (list T)) : list T := map (fun b => b - tol) (nth 0 bbox []).
Definition vox_bbmax (tol : T) (bbox : list (list T)) : list T := map (fun b => b + tol) (nth 1 bbox []).
Definition vox_test (bbmin i j k : list T) (idi jdj kdk : T) (pt : list T) : bool :=
  let v := vsub K pt bbmin in
  let vdi := vdot K v i in
  let vdj := vdot K v j in
  let vdk := vdot K v k in
  andb (andb (andb (oltb K vdi idi) (oleb K (o0 K) vdi)) (andb (oltb K vdj jdj) (oleb K (o0 K) vdj)))
       (andb (oltb K vdk kdk) (oleb K (o0 K) vdk)).
(* 1 if some point of ptsarr lies in the padded half-open box, else 0 *)
Definition is_point_inside_voxel (tol : T) (bbox : list (list T)) (ptsarr : list (list T)) : nat :=
  let bbmin := vox_bbmin tol bbox in
  let bbmax := vox_bbmax tol bbox in
  let i := [nth 0 bbmax (o0 K) - nth 0 bbmin (o0 K); o0 K; o0 K] in
  let j := [o0 K; nth 1 bbmax (o0 K) - nth 1 bbmin (o0 K); o0 K] in
  let k := [o0 K; o0 K; nth 2 bbmax (o0 K) - nth 2 bbmin (o0 K)] in
  let idi := vdot K i i in
  let jdj := vdot K j j in
  let kdk := vdot K k k in
  if existsb (vox_test bbmin i j k idi jdj kdk) ptsarr then 1%nat else 0%nat.

Definition find_inouts_st (tol : T) (grid : list (list (list T))) (pts : list (list T)) : list nat :=
  map (fun bb => is_point_inside_voxel tol bb pts) grid.
(* pool.map(partial(is_point_inside_voxel, ptsarr=datapts, tol=tol), voxel_grid): order preserving *)
Definition find_inouts_mp (num_procs : nat) (tol : T) (grid : list (list (list T))) (pts : list (list T)) : list nat :=
  map (fun bb => is_point_inside_voxel tol bb pts) grid.

(* voxelize(obj): obj iterates over its elements, each given by its bounding box and evaluated points *)
Fixpoint voxelize (fuel : nat) (tol : T) (sz : list nat) (use_cubes : bool) (num_procs : nat)
    (objs : list (list (list T) * list (list T))) : res (list (list (list T)) * list nat) :=
  match objs with
  | [] => Ok ([], [])
  | (bbox, pts) :: rest =>
    res_bind (generate_voxel_grid fuel bbox sz use_cubes) (fun g =>
      let f := if Nat.ltb 1 num_procs then find_inouts_mp num_procs tol g pts else find_inouts_st tol g pts in
      res_bind (voxelize fuel tol sz use_cubes num_procs rest) (fun gr => Ok (g ++ fst gr, f ++ snd gr)))
  end.

(* ---------------------------------------------------------------- find_ctrlpts *)
Definition find_ctrlpts_curve (p : nat) (U : list T) (P : list (list T)) (t : T) : list (list T) :=
  let span := find_span_linear K p U (length P) t in
  let idx := Nat.sub span p in
  map (fun i => nth (Nat.add idx i) P []) (seq 0 (S p)).

(* control net flat, v fastest: ctrlpts2d[a][b] = P[b + sv*a] *)
Definition find_ctrlpts_surface (pu pv : nat) (Uu Uv : list T) (su sv : nat) (P : list (list T)) (tu tv : T)
  : list (list (list T)) :=
  let span_u := find_span_linear K pu Uu su tu in
  let span_v := find_span_linear K pv Uv sv tv in
  let idx_u := Nat.sub span_u pu in
  let idx_v := Nat.sub span_v pv in
  map (fun k => map (fun l => nth (Nat.add (Nat.add idx_v l) (Nat.mul sv (Nat.add idx_u k))) P []) (seq 0 (S pv)))
      (seq 0 (S pu)).
End M.
