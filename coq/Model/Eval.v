(* Executable model of geomdl/evaluators.py point evaluation (A3.1, A3.5, volumes) and the rational
   projection.  Control nets are flat lists of points with v fastest, then u, then w. *)
From Coq Require Import List Arith Bool.
From Param Require Import Param.
From NV Require Import Scalar.Ops Model.Common Model.Basis Model.Knots.
Import ListNotations.

Section M.
Context {T : Type} (K : ops T).
Notation "x + y" := (oadd K x y). Notation "x - y" := (osub K x y).
Notation "x * y" := (omul K x y). Notation "x / y" := (odiv K x y).

Definition pt_at (P : list (list T)) (i : nat) : list T := nth i P [].
(* acc + c * pt, component-wise over zip (Python zip truncates to the shorter) *)
Definition axpy (c : T) (pt acc : list T) : list T := map (fun ap => fst ap + c * snd ap) (combine acc pt).

(* Sum_{i<=p} N[i] * P[span-p+i], accumulated left to right from the zero vector *)
Definition curve_point_at (dim p : nat) (P : list (list T)) (span : nat) (Ns : list T) : list T :=
  fold_left (fun acc i => axpy (nth i Ns (o0 K)) (pt_at P (Nat.add (Nat.sub span p) i)) acc) (seq 0 (S p)) (vzero K dim).

Definition curve_point (dim p : nat) (U : list T) (P : list (list T)) (u : T) : list T :=
  let span := find_span_linear K p U (length P) u in
  curve_point_at dim p P span (basis_function K p U span u).

Definition surface_point_at (dim pu pv sv : nat) (P : list (list T)) (su_ sv_ : nat) (Nu Nv : list T) : list T :=
  let iu := Nat.sub su_ pu in let iv := Nat.sub sv_ pv in
  fold_left (fun spt k =>
     let temp := fold_left (fun tmp l => axpy (nth l Nv (o0 K)) (pt_at P (Nat.add (Nat.add iv l) (Nat.mul sv (Nat.add iu k)))) tmp)
                           (seq 0 (S pv)) (vzero K dim) in
     axpy (nth k Nu (o0 K)) temp spt) (seq 0 (S pu)) (vzero K dim).

Definition surface_point (dim pu pv : nat) (Uu Uv : list T) (su sv : nat) (P : list (list T)) (u v : T) : list T :=
  let spu := find_span_linear K pu Uu su u in
  let spv := find_span_linear K pv Uv sv v in
  surface_point_at dim pu pv sv P spu spv (basis_function K pu Uu spu u) (basis_function K pv Uv spv v).

Definition volume_point (dim pu pv pw : nat) (Uu Uv Uw : list T) (su sv sw : nat) (P : list (list T)) (u v w : T) : list T :=
  let spu := find_span_linear K pu Uu su u in
  let spv := find_span_linear K pv Uv sv v in
  let spw := find_span_linear K pw Uw sw w in
  let Nu := basis_function K pu Uu spu u in
  let Nv := basis_function K pv Uv spv v in
  let Nw := basis_function K pw Uw spw w in
  let iu := Nat.sub spu pu in let iv := Nat.sub spv pv in let iw := Nat.sub spw pw in
  fold_left (fun spt du =>
    let temp2 := fold_left (fun t2 dv =>
       let temp := fold_left (fun t dw =>
           axpy (nth dw Nw (o0 K)) (pt_at P (Nat.add (Nat.add iv dv) (Nat.mul sv (Nat.add (Nat.add iu du) (Nat.mul su (Nat.add iw dw)))))) t)
           (seq 0 (S pw)) (vzero K dim) in
       axpy (nth dv Nv (o0 K)) temp t2) (seq 0 (S pv)) (vzero K dim) in
    axpy (nth du Nu (o0 K)) temp2 spt) (seq 0 (S pu)) (vzero K dim).

(* rational projection: drop the last coordinate and divide by it *)
Definition project (ptw : list T) : list T :=
  let w := last ptw (o0 K) in map (fun c => c / w) (removelast ptw).

(* sampled grids: parameters from linspace(start, stop, sample_size) *)
Definition curve_evalpts (tol8 : T) (dim p : nat) (U : list T) (P : list (list T)) (start stop : T) (sample : nat) : list (list T) :=
  map (curve_point dim p U P) (linspace K tol8 start stop sample).
Definition surface_evalpts (tol8 : T) (dim pu pv : nat) (Uu Uv : list T) (su sv : nat) (P : list (list T))
    (s0 s1 t0 t1 : T) (nu nv : nat) : list (list T) :=
  flat_map (fun u => map (fun v => surface_point dim pu pv Uu Uv su sv P u v) (linspace K tol8 t0 t1 nv)) (linspace K tol8 s0 s1 nu).
Definition volume_evalpts (tol8 : T) (dim pu pv pw : nat) (Uu Uv Uw : list T) (su sv sw : nat) (P : list (list T))
    (a0 a1 b0 b1 c0 c1 : T) (nu nv nw : nat) : list (list T) :=
  flat_map (fun u => flat_map (fun v => map (fun w => volume_point dim pu pv pw Uu Uv Uw su sv sw P u v w)
     (linspace K tol8 c0 c1 nw)) (linspace K tol8 b0 b1 nv)) (linspace K tol8 a0 a1 nu).
(* object-level entry points: rational shapes evaluate on homogeneous points and project *)
Definition obj_curve_point (rat : bool) (dim p : nat) (U : list T) (P : list (list T)) (u : T) : list T :=
  if rat then project (curve_point (S dim) p U P u) else curve_point dim p U P u.
Definition obj_surface_point (rat : bool) (dim pu pv : nat) (Uu Uv : list T) (su sv : nat) (P : list (list T)) (uv : T * T) : list T :=
  if rat then project (surface_point (S dim) pu pv Uu Uv su sv P (fst uv) (snd uv)) else surface_point dim pu pv Uu Uv su sv P (fst uv) (snd uv).
Definition obj_volume_point (rat : bool) (dim pu pv pw : nat) (Uu Uv Uw : list T) (su sv sw : nat) (P : list (list T)) (uvw : T * T * T) : list T :=
  let '(u, v, w) := uvw in
  if rat then project (volume_point (S dim) pu pv pw Uu Uv Uw su sv sw P u v w) else volume_point dim pu pv pw Uu Uv Uw su sv sw P u v w.
(* evalpts of an object with sample sizes n*: the parameter grid is linspace(domain start, domain end, n) per direction,
   u outermost, then v, then w *)
Definition obj_curve_evalpts (tol8 : T) (rat : bool) (dim p : nat) (U : list T) (P : list (list T)) (n : nat) : list (list T) :=
  map (obj_curve_point rat dim p U P) (linspace K tol8 (kn K U p) (kn K U (Nat.sub (length U) (S p))) n).
Definition obj_surface_evalpts (tol8 : T) (rat : bool) (dim pu pv : nat) (Uu Uv : list T) (su sv : nat) (P : list (list T)) (nu nv : nat) : list (list T) :=
  flat_map (fun u => map (fun v => obj_surface_point rat dim pu pv Uu Uv su sv P (u, v))
     (linspace K tol8 (kn K Uv pv) (kn K Uv (Nat.sub (length Uv) (S pv))) nv))
     (linspace K tol8 (kn K Uu pu) (kn K Uu (Nat.sub (length Uu) (S pu))) nu).
Definition obj_volume_evalpts (tol8 : T) (rat : bool) (dim pu pv pw : nat) (Uu Uv Uw : list T) (su sv sw : nat) (P : list (list T)) (nu nv nw : nat) : list (list T) :=
  flat_map (fun u => flat_map (fun v => map (fun w => obj_volume_point rat dim pu pv pw Uu Uv Uw su sv sw P (u, v, w))
     (linspace K tol8 (kn K Uw pw) (kn K Uw (Nat.sub (length Uw) (S pw))) nw))
     (linspace K tol8 (kn K Uv pv) (kn K Uv (Nat.sub (length Uv) (S pv))) nv))
     (linspace K tol8 (kn K Uu pu) (kn K Uu (Nat.sub (length Uu) (S pu))) nu).
End M.
