(* Executable model of the configuration choices of C17:
   - span search function (helpers.find_span_linear / find_span_binsearch, repaired end test) as a parameter of evaluation,
   - knot vectors kept in an affine range instead of [0,1] (normalize_kv=False),
   - multiprocessing.Pool.map as an order-preserving map over chunks (multi.py tessellate, _voxelize.find_inouts_mp),
   - functools.lru_cache as a capacity-bounded memo table, and the import-time parse of GEOMDL_CACHE_SIZE,
   - the sample-size <-> delta round trip of abstract.Curve/Surface/Volume (repaired).
   Definitions only. *)
From Coq Require Import List Arith Bool.
From Coq Require String Ascii.
From Param Require Import Param.
From NV Require Import Scalar.Ops Model.Common Model.Basis Model.Knots Model.Eval.
Import ListNotations.

Section M.
Context {T : Type} (K : ops T).
Notation "x + y" := (oadd K x y). Notation "x - y" := (osub K x y).
Notation "x * y" := (omul K x y). Notation "x / y" := (odiv K x y).

(* ---- helpers.find_span_binsearch with the end test repaired:  if knot >= knot_vector[n + 1]: return n ---- *)
Definition find_span_binsearch_fix (p : nat) (U : list T) (num : nat) (u : T) : option nat :=
  let n := Nat.pred num in
  if oleb K (kn K U (S n)) u then Some n
  else binsearch_loop K (S (S (length U))) U u p num (Nat.div2 (S (Nat.add p num))).
Definition span_linear_opt (p : nat) (U : list T) (num : nat) (u : T) : option nat := Some (find_span_linear K p U num u).

(* ---- point evaluation with a pluggable span function (the find_span_func keyword) ---- *)
Definition spanfun := nat -> list T -> nat -> T -> option nat.
Definition curve_point_sp (spf : spanfun) (dim p : nat) (U : list T) (P : list (list T)) (u : T) : res (list T) :=
  match spf p U (length P) u with
  | Some span => Ok (curve_point_at K dim p P span (basis_function K p U span u))
  | None => Crash
  end.
Definition surface_point_sp (spf : spanfun) (dim pu pv : nat) (Uu Uv : list T) (su sv : nat) (P : list (list T)) (u v : T) : res (list T) :=
  match spf pu Uu su u, spf pv Uv sv v with
  | Some spu, Some spv => Ok (surface_point_at K dim pu pv sv P spu spv (basis_function K pu Uu spu u) (basis_function K pv Uv spv v))
  | _, _ => Crash
  end.

(* ---- normalize_kv=False: the knot vector is an affine image a*k + b (a > 0) of the normalised one ---- *)
Definition aff1 (a b x : T) : T := a * x + b.
Definition aff_kv (a b : T) (U : list T) : list T := map (aff1 a b) U.

(* ---- sample size <-> delta (repaired setter: delta = 1 / value; getter: floor(1/delta + 0.5)) ----
   the getter's floor is modelled on the exact value: the largest n with n <= 1/delta + 1/2, searched upwards with fuel *)
Fixpoint floor_search (fuel : nat) (x : T) (n : nat) : nat :=
  match fuel with
  | O => n
  | S f => if oleb K (ofnat K (S n)) x then floor_search f x (S n) else n
  end.
Definition sample_size_of_delta (fuel : nat) (delta : T) : nat := floor_search fuel (o1 K / delta + o1 K / o2 K) 0.
Definition delta_of_sample_size (value : nat) : res T :=
  let d := o1 K / ofnat K value in
  if orb (oleb K d (o0 K)) (oleb K (o1 K) d) then Rejected else Ok d.   (* the delta setter refuses values outside (0,1) *)

(* ---- _voxelize.is_point_inside_voxel ---- *)
Definition voxel_filled (tol : T) (bb : list (list T)) (pts : list (list T)) : nat :=
  let bbmin := map (fun b => b - tol) (nth 0 bb []) in
  let bbmax := map (fun b => b + tol) (nth 1 bb []) in
  let d i := nth i bbmax (o0 K) - nth i bbmin (o0 K) in
  let dd i := (d i * d i + o0 K * o0 K) + o0 K * o0 K in
  let inside pt :=
    let v i := nth i pt (o0 K) - nth i bbmin (o0 K) in
    let vd i := v i * d i in
    andb (andb (andb (oltb K (vd 0) (dd 0)) (oleb K (o0 K) (vd 0)))
               (andb (oltb K (vd 1) (dd 1)) (oleb K (o0 K) (vd 1))))
         (andb (oltb K (vd 2) (dd 2)) (oleb K (o0 K) (vd 2))) in
  if existsb inside pts then 1 else 0.
End M.

(* ---- multiprocessing.Pool.map: split into chunks, map each chunk, concatenate in order ---- *)
Section Pool.
Context {A B : Type}.
Fixpoint chunk_aux (fuel n : nat) (l : list A) : list (list A) :=
  match fuel with
  | O => []
  | S f => match l with [] => [] | _ => firstn n l :: chunk_aux f n (skipn n l) end
  end.
Definition chunk (n : nat) (l : list A) : list (list A) := chunk_aux (length l) n l.
(* chunksize, extra = divmod(len(iterable), 4 * processes); if extra: chunksize += 1 *)
Definition pool_chunksize (procs len : nat) : nat :=
  let q := Nat.div len (Nat.mul 4 procs) in
  if Nat.eqb (Nat.modulo len (Nat.mul 4 procs)) 0 then q else S q.
Definition chunked_map (f : A -> B) (chunks : list (list A)) : list B := concat (map (map f) chunks).
Definition pool_map (procs : nat) (f : A -> B) (l : list A) : list B :=
  chunked_map f (chunk (Nat.max 1 (pool_chunksize procs (length l))) l).
End Pool.

(* find_inouts_st / find_inouts_mp *)
Definition find_inouts {T} (K : ops T) (procs : nat) (tol : T) (grid : list (list (list T))) (pts : list (list T)) : list nat :=
  if Nat.ltb 1 procs then pool_map procs (fun bb => voxel_filled K tol bb pts) grid
  else map (fun bb => voxel_filled K tol bb pts) grid.

(* ---- functools.lru_cache(maxsize) : None = unbounded, Some 0 = no caching, Some k = at most k entries (LRU) ---- *)
Section Memo.
Context {A B : Type} (eqb : A -> A -> bool).
Definition cache := list (A * B).
Fixpoint c_find (c : cache) (x : A) : option B :=
  match c with [] => None | (k, y) :: r => if eqb x k then Some y else c_find r x end.
Fixpoint c_remove (c : cache) (x : A) : cache :=
  match c with [] => [] | (k, y) :: r => if eqb x k then r else (k, y) :: c_remove r x end.
Definition c_trunc (cap : option nat) (c : cache) : cache := match cap with None => c | Some k => firstn k c end.
Definition memo_call (cap : option nat) (f : A -> B) (c : cache) (x : A) : cache * B :=
  match cap with
  | Some O => (c, f x)
  | _ => match c_find c x with
         | Some y => ((x, y) :: c_remove c x, y)
         | None => let y := f x in (c_trunc cap ((x, y) :: c), y)
         end
  end.
Fixpoint memo_run_from (cap : option nat) (f : A -> B) (c : cache) (calls : list A) : list B :=
  match calls with
  | [] => []
  | x :: r => let '(c', y) := memo_call cap f c x in y :: memo_run_from cap f c' r
  end.
Definition memo_run (cap : option nat) (f : A -> B) (calls : list A) : list B := memo_run_from cap f [] calls.
End Memo.

(* ---- lru_cache(maxsize=int(os.environ['GEOMDL_CACHE_SIZE']) if set else default)  (repaired: int(...)) ---- *)
Definition digit_of (c : Ascii.ascii) : option nat :=
  let n := Ascii.nat_of_ascii c in if andb (Nat.leb 48 n) (Nat.leb n 57) then Some (Nat.sub n 48) else None.
Fixpoint parse_digits (s : String.string) (acc : nat) : option nat :=
  match s with
  | String.EmptyString => Some acc
  | String.String c r => match digit_of c with Some d => parse_digits r (Nat.add (Nat.mul 10 acc) d) | None => None end
  end.
Definition parse_int (s : String.string) : option nat := match s with String.EmptyString => None | _ => parse_digits s 0 end.
(* Ok capacity | Crash (ValueError at import for a non-numeric value) *)
Definition cache_size_env (env : option String.string) (default : nat) : res (option nat) :=
  match env with
  | None => Ok (Some default)
  | Some s => match parse_int s with Some n => Ok (Some n) | None => Crash end
  end.

(* the values of the environment variable the property quantifies over *)
Section Env.
Import String.
Local Open Scope string_scope.
Definition env1 : string := "1".
Definition env16 : string := "16".
Definition env1024 : string := "1024".
End Env.

(* the memoised functions of helpers.py / linalg.py that are pure integer functions *)
Fixpoint fact (n : nat) : nat := match n with O => 1 | S m => Nat.mul n (fact m) end.
Definition binomial (ki : nat * nat) : nat :=
  let '(k, i) := ki in if Nat.ltb k i then 0 else Nat.div (fact k) (Nat.mul (fact (Nat.sub k i)) (fact i)).
Definition pair_eqb (a b : nat * nat) : bool := andb (Nat.eqb (fst a) (fst b)) (Nat.eqb (snd a) (snd b)).
Definition identity_matrix (n : nat) : list (list nat) := map (fun j => map (fun i => if Nat.eqb i j then 1 else 0) (seq 0 n)) (seq 0 n).
