(* Executable model of the configuration choices of C17:
   - span search function (helpers.find_span_linear / find_span_binsearch, repaired end test) as a parameter of evaluation,
   - knot vectors kept in an affine range instead of [0,1] (normalize_kv=False),
   - multiprocessing.Pool.map as an order-preserving map over chunks (multi.py tessellate, _voxelize.find_inouts_mp),
   - functools.lru_cache as a capacity-bounded memo table, and the import-time parse of GEOMDL_CACHE_SIZE,
   - the sample-size <-> delta round trip of abstract.Curve/Surface/Volume (repaired).
   Definitions only. *)
From Coq Require Import List Arith Bool.
From Coq Require String Ascii.
From Param Require Import Param.
From NV Require Import Scalar.Ops Model.Common Model.Basis Model.Knots Model.Eval.
Import ListNotations.

Section M.
Context {T : Type} (K : ops T).
Notation "x + y" := (oadd K x y). Notation "x - y" := (osub K x y).
Notation "x * y" := (omul K x y). Notation "x / y" := (odiv K x y).

(* ---- helpers.find_span_binsearch with the end test repaired:  if knot >= knot_vector[n + 1]: return n ---- *)
Definition find_span_binsearch_fix (p : nat) (U : list T) (num : nat) (u : T) : option nat :=
  let n := Nat.pred num in
  if oleb K (kn K U (S n)) u then Some n
  else binsearch_loop K (S (S (length U))) U u p num (Nat.div2 (S (Nat.add p num))).
(* for the record: the end test of the pinned tree (cdaf30b),  if abs(knot_vector[n + 1] - knot) <= tol: return n *)
Definition find_span_binsearch_pinned (tol : T) (p : nat) (U : list T) (num : nat) (u : T) : option nat :=
  let n := Nat.pred num in
  if oleb K (oabs K (kn K U (S n) - u)) tol then Some n
  else binsearch_loop K (S (S (length U))) U u p num (Nat.div2 (S (Nat.add p num))).
Definition span_linear_opt (p : nat) (U : list T) (num : nat) (u : T) : option nat := Some (find_span_linear K p U num u).

(* ---- point evaluation with a pluggable span function (the find_span_func keyword) ---- *)
Definition spanfun := nat -> list T -> nat -> T -> option nat.
Definition curve_point_sp (spf : spanfun) (dim p : nat) (U : list T) (P : list (list T)) (u : T) : res (list T) :=
  match spf p U (length P) u with
  | Some span => Ok (curve_point_at K dim p P span (basis_function K p U span u))
  | None => Crash
  end.
Definition surface_point_sp (spf : spanfun) (dim pu pv : nat) (Uu Uv : list T) (su sv : nat) (P : list (list T)) (u v : T) : res (list T) :=
  match spf pu Uu su u, spf pv Uv sv v with
  | Some spu, Some spv => Ok (surface_point_at K dim pu pv sv P spu spv (basis_function K pu Uu spu u) (basis_function K pv Uv spv v))
  | _, _ => Crash
  end.

(* ---- normalize_kv=False: the knot vector is an affine image a*k + b (a > 0) of the normalised one ---- *)
Definition aff1 (a b x : T) : T := a * x + b.
Definition aff_kv (a b : T) (U : list T) : list T := map (aff1 a b) U.

(* ---- sample size <-> delta (repaired setter: delta = 1 / value; getter: floor(1/delta + 0.5)) ----
   the getter's floor is modelled on the exact value: the largest n with n <= 1/delta + 1/2, searched upwards with fuel *)
Fixpoint floor_search (fuel : nat) (x : T) (n : nat) : nat :=
  match fuel with
  | O => n
  | S f => if oleb K (ofnat K (S n)) x then floor_search f x (S n) else n
  end.
Definition sample_size_of_delta (fuel : nat) (delta : T) : nat := floor_search fuel (o1 K / delta + o1 K / o2 K) 0.
Definition delta_of_sample_size (value : nat) : res T :=
  let d := o1 K / ofnat K value in
  if orb (oleb K d (o0 K)) (oleb K (o1 K) d) then Rejected else Ok d.   (* the delta setter refuses values outside (0,1) *)

(* ---- _voxelize.is_point_inside_voxel ---- *)
Definition voxel_filled (tol : T) (bb : list (list T)) (pts : list (list T)) : nat :=
  let bbmin := map (fun b => b - tol) (nth 0 bb []) in
  let bbmax := map (fun b => b + tol) (nth 1 bb []) in
  let m0 := nth 0 bbmin (o0 K) in let m1 := nth 1 bbmin (o0 K) in let m2 := nth 2 bbmin (o0 K) in
  let d0 := nth 0 bbmax (o0 K) - m0 in let d1 := nth 1 bbmax (o0 K) - m1 in let d2 := nth 2 bbmax (o0 K) - m2 in
  (* vector_dot(i, i) with i = [d0, 0, 0] etc. *)
  let dd0 := (d0 * d0 + o0 K * o0 K) + o0 K * o0 K in
  let dd1 := (o0 K * o0 K + d1 * d1) + o0 K * o0 K in
  let dd2 := (o0 K * o0 K + o0 K * o0 K) + d2 * d2 in
  let inside pt :=
    let vd0 := (nth 0 pt (o0 K) - m0) * d0 in
    if andb (oltb K vd0 dd0) (oleb K (o0 K) vd0) then
      let vd1 := (nth 1 pt (o0 K) - m1) * d1 in
      if andb (oltb K vd1 dd1) (oleb K (o0 K) vd1) then
        let vd2 := (nth 2 pt (o0 K) - m2) * d2 in
        andb (oltb K vd2 dd2) (oleb K (o0 K) vd2)
      else false
    else false in
  if existsb inside pts then 1 else 0.
End M.

(* ---- multiprocessing.Pool.map: split into chunks, map each chunk, concatenate in order ---- *)
Section Pool.
Context {A B : Type}.
Fixpoint chunk_aux (fuel n : nat) (l : list A) : list (list A) :=
  match fuel with
  | O => []
  | S f => match l with [] => [] | _ => firstn n l :: chunk_aux f n (skipn n l) end
  end.
Definition chunk (n : nat) (l : list A) : list (list A) := chunk_aux (length l) n l.
(* chunksize, extra = divmod(len(iterable), 4 * processes); if extra: chunksize += 1 *)
Definition pool_chunksize (procs len : nat) : nat :=
  let q := Nat.div len (Nat.mul 4 procs) in
  if Nat.eqb (Nat.modulo len (Nat.mul 4 procs)) 0 then q else S q.
Definition chunked_map (f : A -> B) (chunks : list (list A)) : list B := concat (map (map f) chunks).
Definition pool_map (procs : nat) (f : A -> B) (l : list A) : list B :=
  chunked_map f (chunk (Nat.max 1 (pool_chunksize procs (length l))) l).
End Pool.

(* find_inouts_st / find_inouts_mp *)
Definition find_inouts {T} (K : ops T) (procs : nat) (tol : T) (grid : list (list (list T))) (pts : list (list T)) : list nat :=
  if Nat.ltb 1 procs then pool_map procs (fun bb => voxel_filled K tol bb pts) grid
  else map (fun bb => voxel_filled K tol bb pts) grid.

(* ---- functools.lru_cache(maxsize) : None = unbounded, Some 0 = no caching, Some k = at most k entries (LRU) ---- *)
Section Memo.
Context {A B : Type} (eqb : A -> A -> bool).
Definition cache := list (A * B).
Fixpoint c_find (c : cache) (x : A) : option B :=
  match c with [] => None | (k, y) :: r => if eqb x k then Some y else c_find r x end.
Fixpoint c_remove (c : cache) (x : A) : cache :=
  match c with [] => [] | (k, y) :: r => if eqb x k then r else (k, y) :: c_remove r x end.
Definition c_trunc (cap : option nat) (c : cache) : cache := match cap with None => c | Some k => firstn k c end.
Definition memo_call (cap : option nat) (f : A -> B) (c : cache) (x : A) : cache * B :=
  match cap with
  | Some O => (c, f x)
  | _ => match c_find c x with
         | Some y => ((x, y) :: c_remove c x, y)
         | None => let y := f x in (c_trunc cap ((x, y) :: c), y)
         end
  end.
Fixpoint memo_run_from (cap : option nat) (f : A -> B) (c : cache) (calls : list A) : list B :=
  match calls with
  | [] => []
  | x :: r => let '(c', y) := memo_call cap f c x in y :: memo_run_from cap f c' r
  end.
Definition memo_run (cap : option nat) (f : A -> B) (calls : list A) : list B := memo_run_from cap f [] calls.
End Memo.

(* ---- lru_cache(maxsize=int(os.environ['GEOMDL_CACHE_SIZE']) if set else default)  (repaired: int(...)) ---- *)
Definition digit_of (c : Ascii.ascii) : option nat :=
  let n := Ascii.nat_of_ascii c in if andb (Nat.leb 48 n) (Nat.leb n 57) then Some (Nat.sub n 48) else None.
Fixpoint parse_digits (s : String.string) (acc : nat) : option nat :=
  match s with
  | String.EmptyString => Some acc
  | String.String c r => match digit_of c with Some d => parse_digits r (Nat.add (Nat.mul 10 acc) d) | None => None end
  end.
Definition parse_int (s : String.string) : option nat := match s with String.EmptyString => None | _ => parse_digits s 0 end.
(* Ok capacity | Crash (ValueError at import for a non-numeric value) *)
Definition cache_size_env (env : option String.string) (default : nat) : res (option nat) :=
  match env with
  | None => Ok (Some default)
  | Some s => match parse_int s with Some n => Ok (Some n) | None => Crash end
  end.

(* the values of the environment variable the property quantifies over *)
Section Env.
Import String.
Local Open Scope string_scope.
Definition env1 : string := "1".
Definition env16 : string := "16".
Definition env1024 : string := "1024".
End Env.

(* the memoised functions of helpers.py / linalg.py that are pure integer functions *)
(* linalg.binomial_coefficient(k, i) = k! / ((k-i)! i!) for i <= k, 0 otherwise: Pascal's rule (no factorials in unary nat) *)
Fixpoint binom (k i : nat) : nat :=
  match k, i with
  | _, O => 1
  | O, S _ => 0
  | S k', S i' => Nat.add (binom k' i') (binom k' i)
  end.
Definition binomial (ki : nat * nat) : nat := binom (fst ki) (snd ki).
Definition pair_eqb (a b : nat * nat) : bool := andb (Nat.eqb (fst a) (fst b)) (Nat.eqb (snd a) (snd b)).
Definition identity_matrix (n : nat) : list (list nat) := map (fun j => map (fun i => if Nat.eqb i j then 1 else 0) (seq 0 n)) (seq 0 n).
