(* Executable model of geomdl/linalg.py and geomdl/_linalg.py: vector / matrix helpers, binomial
   coefficient, Doolittle LU, substitutions, lu_solve, matrix_pivot, lu_factor, matrix_inverse,
   matrix_determinant, and the lru_cache of matrix_identity as a state machine.  Definitions only.

   REPAIRED behaviour is modelled (fixes/C16-*.diff):
     - matrix_pivot works on a copy of the memoised identity matrix (step_fixed);
       the aliasing behaviour of the pinned tree is kept as step_pinned for the refutation witness;
     - lu_factor applies the row permutation to the right-hand side.
   sqrt is not a field operation: vector_magnitude is modelled by its square (vector_norm2). *)
From Coq Require Import List Arith Bool NArith.
From Param Require Import Param.
From NV Require Import Scalar.Ops Model.Common.
Import ListNotations.

(* ---- pure list helpers (no scalar) ---- *)
Definition swap {A} (d : A) (l : list A) (a b : nat) : list A := upd (upd l a (nth b l d)) b (nth a l d).

Fixpoint res_all {A} (l : list (res A)) : res (list A) :=
  match l with
  | [] => Ok []
  | r :: t => res_bind r (fun a => res_map (cons a) (res_all t))
  end.

(* math.factorial / binomial_coefficient: exact integers (the float result is exact below 2^53) *)
Fixpoint factN (n : nat) : N := match n with O => 1%N | S m => (N.of_nat n * factN m)%N end.
Definition binomial_coefficient (k i : nat) : N :=
  if Nat.ltb k i then 0%N else (factN k / (factN (k - i) * factN i))%N.

Section M.
Context {T : Type} (K : ops T).
Notation "x + y" := (oadd K x y). Notation "x - y" := (osub K x y).
Notation "x * y" := (omul K x y). Notation "x / y" := (odiv K x y).
Notation "0" := (o0 K). Notation "1" := (o1 K).
Notation get2 := (get2 K).
Notation sumT := (sumT K).
Definition isz (x : T) : bool := oeqb K x 0.
Definition mat := list (list T).

(* sum over j in range(a, a+len) of f j *)
Definition sumr (a len : nat) (f : nat -> T) : T := sumT (map f (seq a len)).

(* ---- vector helpers ---- *)
Definition isnil {A} (l : list A) : bool := match l with [] => true | _ => false end.
Definition vector_dot (a b : list T) : res T :=
  if orb (isnil a) (isnil b) then Rejected else Ok (vdot K a b).
Definition pad3 (v : list T) : list T := match v with [x; y] => [x; y; 0] | _ => v end.
Definition vector_cross (a b : list T) : res (list T) :=
  if orb (isnil a) (isnil b) then Rejected else
  match pad3 a, pad3 b with
  | [a0; a1; a2], [b0; b1; b2] => Ok [a1 * b2 - a2 * b1; a2 * b0 - a0 * b2; a0 * b1 - a1 * b0]
  | _, _ => Rejected
  end.
Definition vector_norm2 (v : list T) : T := vdot K v v.            (* vector_magnitude ** 2 *)
(* vector_normalize returns v / sqrt(norm2): modelled as the pair (v, norm2); ValueError when the magnitude is 0 *)
Definition vector_normalize (v : list T) : res (list T * T) :=
  if isnil v then Rejected else if oltb K 0 (vector_norm2 v) then Ok (v, vector_norm2 v) else Rejected.
Definition vector_multiply (v : list T) (s : T) : list T := map (fun x => x * s) v.
Definition vector_sum (a b : list T) (c : T) : list T := map (fun p => fst p + c * snd p) (combine a b).
Definition vector_generate (s e : list T) : res (list T) :=
  if orb (isnil s) (isnil e) then Rejected else Ok (map (fun p => snd p - fst p) (combine s e)).
Definition vector_mean (vs : list (list T)) : res (list T) :=
  match vs with
  | [] => Crash
  | v0 :: _ => Ok (map (fun a => a / ofnat K (length vs))
                    (fold_left (fun acc v => map (fun p => fst p + snd p) (combine acc v)) vs (repeat 0 (length v0))))
  end.
Definition vector_is_zero (tol : T) (v : list T) : bool := forallb (fun x => oltb K (oabs K x) tol) v.
Definition point_translate (p v : list T) : res (list T) :=
  if orb (isnil p) (isnil v) then Rejected else Ok (map (fun q => fst q + snd q) (combine p v)).
Definition point_mid (half : T) (a b : list T) : res (list T) :=
  if negb (Nat.eqb (length a) (length b)) then Rejected else
  res_bind (vector_generate a b) (fun d => point_translate a (vector_multiply d half)).

(* ---- matrix helpers ---- *)
Definition transpose (m : mat) : mat :=
  map (fun i => map (fun row => nth i row 0) m) (seq 0 (length (hd [] m))).
Definition matrix_transpose (m : mat) : res mat :=
  match m with
  | [] => Crash
  | r0 :: _ => if forallb (fun r => Nat.leb (length r0) (length r)) m then Ok (transpose m) else Crash
  end.
(* entry (i,j) = sum_k a[i][k] * b[k][j], k < p ; mcols = len(b[0]) *)
Definition mmul (a b : mat) : mat :=
  map (fun ra => map (fun j => sumr 0 (length b) (fun k => nth k ra 0 * get2 b k j)) (seq 0 (length (hd [] b)))) a.
Definition mvmul (a : mat) (v : list T) : list T :=
  map (fun ra => sumr 0 (length v) (fun k => nth k ra 0 * nth k v 0)) a.
Definition matrix_multiply (a b : mat) : res mat :=
  match a with
  | [] => Crash
  | r0 :: _ => if negb (Nat.eqb (length r0) (length b)) then Rejected
               else match b with [] => Crash | _ => Ok (mmul a b) end
  end.
Definition matrix_multiply_vec (a : mat) (v : list T) : res (list T) :=
  match a with
  | [] => Crash
  | r0 :: _ => if negb (Nat.eqb (length r0) (length v)) then Rejected else Ok (mvmul a v)
  end.
Definition matrix_scalar (m : mat) (s : T) : res mat :=
  match m with
  | [] => Crash
  | r0 :: _ => Ok (map (fun r => map (fun j => nth j r 0 * s) (seq 0 (length r0))) m)
  end.
Definition matrix_identity (n : nat) : mat :=
  map (fun j => map (fun i => if Nat.eqb i j then 1 else 0) (seq 0 n)) (seq 0 n).

(* ---- _linalg.doolittle: step i computes row i of U, then column i of L (stored as list of columns) ---- *)
(* sum([l[r][j] * u[j][c] for j in range(0, i)]) *)
Definition lu_sum (Lc Ur : mat) (i r c : nat) : T := sumr 0 i (fun j => get2 Lc j r * get2 Ur j c).
Definition doolittle_step (A : mat) (n : nat) (st : mat * mat) (i : nat) : mat * mat :=
  let Lc := fst st in let Ur := snd st in
  let urow := map (fun k => if Nat.ltb k i then 0 else get2 A i k - lu_sum Lc Ur i i k) (seq 0 n) in
  let piv := nth i urow 0 in
  let lcol := map (fun k => if Nat.ltb k i then 0 else if Nat.eqb k i then 1
                            else if isz piv then 0 (* except ZeroDivisionError: 0.0 *)
                            else (get2 A k i - lu_sum Lc Ur i k i) / piv) (seq 0 n) in
  (Lc ++ [lcol], Ur ++ [urow]).
Definition doolittle_cols (A : mat) : mat * mat :=
  fold_left (doolittle_step A (length A)) (seq 0 (length A)) ([], []).
Definition cols_to_rows (n : nat) (c : mat) : mat := map (fun r => map (fun j => get2 c j r) (seq 0 n)) (seq 0 n).
Definition doolittle (A : mat) : mat * mat :=
  let st := doolittle_cols A in (cols_to_rows (length A) (fst st), snd st).
Definition is_square (A : mat) : bool := forallb (fun r => Nat.eqb (length r) (length A)) A.
Definition lu_decomposition (A : mat) : res (mat * mat) :=
  if is_square A then Ok (doolittle A) else Rejected.

(* ---- forward / backward substitution ---- *)
Definition fwd_step (L : mat) (b : list T) (acc : res (list T)) (i : nat) : res (list T) :=
  res_bind acc (fun y =>
    let d := get2 L i i in
    if isz d then Crash
    else Ok (y ++ [(nth i b 0 - sumr 0 i (fun j => get2 L i j * nth j y 0)) / d])).
Definition forward_substitution (L : mat) (b : list T) : res (list T) :=
  match b with
  | [] => Crash
  | _ => if forallb (fun i => Nat.ltb i (length (nth i L []))) (seq 0 (length b))
         then fold_left (fwd_step L b) (seq 0 (length b)) (Ok []) else Crash
  end.
(* x is built from the back: when row i is processed, acc = [x_{i+1}; ...; x_{q-1}] *)
Definition bwd_step (U : mat) (y : list T) (i : nat) (acc : res (list T)) : res (list T) :=
  res_bind acc (fun x =>
    let d := get2 U i i in
    if isz d then Crash
    else Ok (((nth i y 0 - sumr (S i) (length x) (fun j => get2 U i j * nth (Nat.sub j (S i)) x 0)) / d) :: x)).
Definition backward_substitution (U : mat) (y : list T) : res (list T) :=
  match y with
  | [] => Crash
  | _ => if forallb (fun i => Nat.leb (length y) (length (nth i U []))) (seq 0 (length y))
         then fold_right (bwd_step U y) (Ok []) (seq 0 (length y)) else Crash
  end.

Definition column (b : mat) (i : nat) : list T := map (fun r => nth i r 0) b.
(* shared by lu_solve / lu_factor: for each column of b solve L y = b_i, U x = y; x[j][i] = xt[j] *)
Definition solve_columns (L U b : mat) : res mat :=
  let dim := length (hd [] b) in
  if forallb (fun r => Nat.leb dim (length r)) b then
    res_map (fun cols => map (fun j => map (fun col => nth j col 0) cols) (seq 0 (length b)))
      (res_all (map (fun i => res_bind (forward_substitution L (column b i)) (backward_substitution U)) (seq 0 dim)))
  else Crash.
Definition lu_solve (A b : mat) : res mat :=
  match b with
  | [] => Crash
  | _ => res_bind (lu_decomposition A) (fun lu => solve_columns (fst lu) (snd lu) b)
  end.

(* ---- matrix_pivot (ident = the matrix object it starts from: a copy of the memoised identity) ---- *)
Definition argmax_col (mp : mat) (j n : nat) : nat :=
  snd (fold_left (fun (st : T * nat) i =>
         let a := oabs K (get2 mp i j) in if oltb K (fst st) a then (a, i) else st)
       (seq j (Nat.sub n j)) (0, j)).
Definition pivot_step (n : nat) (st : mat * mat * nat) (j : nat) : mat * mat * nat :=
  let mp := fst (fst st) in let p := snd (fst st) in let ns := snd st in
  let row := argmax_col mp j n in
  if Nat.eqb j row then st else (swap [] mp j row, swap [] p j row, S ns).
Definition pivot_with (ident m : mat) : mat * mat * nat :=
  fold_left (pivot_step (length m)) (seq 0 (length m)) (m, ident, O).
Definition sign_of (ns : nat) : T := if Nat.even ns then 1 else 0 - 1.
Definition pivot_res (ident m : mat) : res (mat * mat * nat) :=
  if is_square m then Ok (pivot_with ident m) else Crash.
Definition matrix_pivot (m : mat) : res (mat * mat * nat) := pivot_res (matrix_identity (length m)) m.

(* ---- lu_factor (repaired: b := P b), matrix_inverse, matrix_determinant, given the identity object ---- *)
Definition lu_factor_with (ident A b : mat) : res mat :=
  match b with
  | [] => Crash
  | _ => res_bind (pivot_res ident A) (fun t =>
           let mp := fst (fst t) in let p := snd (fst t) in
           res_bind (lu_decomposition mp) (fun lu =>
             res_bind (matrix_multiply p b) (fun pb => solve_columns (fst lu) (snd lu) pb)))
  end.
Definition matrix_inverse_with (ident m : mat) : res mat :=
  res_bind (pivot_res ident m) (fun t => lu_solve (fst (fst t)) (snd (fst t))).
Definition diag_prod (n : nat) (L U : mat) : T :=
  fold_left (fun d i => d * (get2 L i i * get2 U i i)) (seq 0 n) 1.
Definition matrix_determinant_with (ident m : mat) : res T :=
  res_bind (pivot_res ident m) (fun t =>
    res_bind (lu_decomposition (fst (fst t))) (fun lu =>
      Ok (diag_prod (length m) (fst lu) (snd lu) * sign_of (snd t)))).
Definition lu_factor (A b : mat) : res mat := lu_factor_with (matrix_identity (length A)) A b.
Definition matrix_inverse (m : mat) : res mat := matrix_inverse_with (matrix_identity (length m)) m.
Definition matrix_determinant (m : mat) : res T := matrix_determinant_with (matrix_identity (length m)) m.

(* ---- call histories: the lru_cache(maxsize=16) of matrix_identity as an association list, most recent first ---- *)
Inductive lop : Type :=
| OpIdentity (n : nat) | OpPivot (m : mat) | OpInverse (m : mat) | OpDet (m : mat)
| OpFactor (a b : mat) | OpSolve (a b : mat).
Definition cache := list (nat * mat).
Definition lout := res (list mat).
Fixpoint cache_find (c : cache) (n : nat) : option mat :=
  match c with [] => None | (k, m) :: r => if Nat.eqb k n then Some m else cache_find r n end.
Definition cache_remove (c : cache) (n : nat) : cache := filter (fun e => negb (Nat.eqb (fst e) n)) c.
Definition cache_get (c : cache) (n : nat) : mat * cache :=
  match cache_find c n with
  | Some m => (m, (n, m) :: cache_remove c n)
  | None => let m := matrix_identity n in (m, firstn 16 ((n, m) :: c))
  end.
(* a write through the alias: replaces the object stored under key n (if it is still cached) *)
Definition cache_set (c : cache) (n : nat) (m : mat) : cache :=
  map (fun e => if Nat.eqb (fst e) n then (n, m) else e) c.
Definition out_pivot (r : res (mat * mat * nat)) : lout :=
  res_map (fun t => [fst (fst t); snd (fst t); [[sign_of (snd t)]]]) r.
Definition out_mat (r : res mat) : lout := res_map (fun m => [m]) r.
Definition out_scal (r : res T) : lout := res_map (fun d => [[[d]]]) r.
(* what a routine returns when it starts from the identity object `id` *)
Definition run_with (id : mat) (op : lop) : lout :=
  match op with
  | OpIdentity n => Ok [id]
  | OpPivot m => out_pivot (pivot_res id m)
  | OpInverse m => out_mat (matrix_inverse_with id m)
  | OpDet m => out_scal (matrix_determinant_with id m)
  | OpFactor a b => out_mat (lu_factor_with id a b)
  | OpSolve a b => out_mat (lu_solve a b)
  end.
Definition op_size (op : lop) : option nat :=
  match op with
  | OpIdentity n => Some n | OpPivot m => Some (length m) | OpInverse m => Some (length m)
  | OpDet m => Some (length m) | OpFactor a _ => Some (length a) | OpSolve _ _ => None
  end.
(* the permutation matrix object a pivoting routine leaves behind (pinned tree: it IS the cached object) *)
Definition op_pivoted (id : mat) (op : lop) : option mat :=
  match op with
  | OpPivot m | OpInverse m | OpDet m | OpFactor m _ =>
      match pivot_res id m with Ok t => Some (snd (fst t)) | _ => None end
  | _ => None
  end.
Definition step_fixed (c : cache) (op : lop) : cache * lout :=
  match op_size op with
  | None => (c, run_with [] op)
  | Some n => let g := cache_get c n in (snd g, run_with (fst g) op)
  end.
Definition step_pinned (c : cache) (op : lop) : cache * lout :=
  match op_size op with
  | None => (c, run_with [] op)
  | Some n => let g := cache_get c n in
              (match op_pivoted (fst g) op with Some p => cache_set (snd g) n p | None => snd g end,
               run_with (fst g) op)
  end.
Fixpoint run_seq (step : cache -> lop -> cache * lout) (c : cache) (ops : list lop) : list lout :=
  match ops with
  | [] => []
  | op :: r => let s := step c op in snd s :: run_seq step (fst s) r
  end.
(* the answer of a routine called in a fresh process *)
Definition fresh (op : lop) : lout := snd (step_fixed [] op).
End M.
