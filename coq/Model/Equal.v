(* Executable model of abstract.SplineGeometry.__eq__ / __ne__ (as repaired by fixes/C19-*.diff: the
   tolerance is 10 ** -precision and the control-point comparison result is used).  Definitions only. *)
From Coq Require Import List Arith Bool.
From NV Require Import Scalar.Ops Model.Common.
Import ListNotations.

Section M.
Context {T : Type} (K : ops T).

(* the definition fields __eq__ looks at: _pdim, _rational, _control_points_size, _degree, _knot_vector,
   _control_points (homogeneous points for rational shapes) *)
Record shape := mkShape { sh_pdim : nat; sh_rat : bool; sh_size : list nat; sh_deg : list nat;
                          sh_kv : list (list T); sh_cp : list (list T) }.

(* abs(s - o) < tol *)
Definition close_lt (tol a b : T) : bool := oltb K (oabs K (osub K a b)) tol.
(* "for s, o in zip(a, b)": pairs up to the shorter list *)
Definition zipall {A} (f : A -> A -> bool) (a b : list A) : bool :=
  forallb (fun p => f (fst p) (snd p)) (combine a b).
(* "if len(sk) != len(ok): return False" followed by the element-wise test *)
Definition vec_close (tol : T) (a b : list T) : bool :=
  andb (Nat.eqb (length a) (length b)) (zipall (close_lt tol) a b).

Definition shape_eq (tol : T) (a b : shape) : bool :=
  andb (Nat.eqb (sh_pdim a) (sh_pdim b))
 (andb (Bool.eqb (sh_rat a) (sh_rat b))
 (andb (zipall Nat.eqb (sh_size a) (sh_size b))
 (andb (zipall Nat.eqb (sh_deg a) (sh_deg b))
 (andb (zipall (vec_close tol) (sh_kv a) (sh_kv b))
       (zipall (vec_close tol) (sh_cp a) (sh_cp b)))))).
Definition shape_ne (tol : T) (a b : shape) : bool := negb (shape_eq tol a b).

(* the pinned code: tolerance = the precision itself (18), control points only compared by point length
   (chk_ctrlpts is computed and then chk_kv is tested again) *)
Definition shape_eq_pinned (prec : T) (a b : shape) : bool :=
  andb (Nat.eqb (sh_pdim a) (sh_pdim b))
 (andb (Bool.eqb (sh_rat a) (sh_rat b))
 (andb (zipall Nat.eqb (sh_size a) (sh_size b))
 (andb (zipall Nat.eqb (sh_deg a) (sh_deg b))
 (andb (zipall (vec_close prec) (sh_kv a) (sh_kv b))
       (zipall (fun p q : list T => Nat.eqb (length p) (length q)) (sh_cp a) (sh_cp b)))))).

(* well-formed: one size, degree and knot vector per parametric direction, as many points as the sizes say *)
Definition wf_shape (a : shape) : Prop :=
  length (sh_size a) = sh_pdim a /\ length (sh_deg a) = sh_pdim a /\ length (sh_kv a) = sh_pdim a /\
  length (sh_cp a) = fold_right Nat.mul 1 (sh_size a).
End M.
