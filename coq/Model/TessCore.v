(* Index arithmetic of the tessellation code of geomdl (no scalars): _tessellate.make_triangle_mesh (vertex array with
   vertex_spacing, generic cell loop with a tessellation callback, fix_numbering), polygon_triangulate, surface_tessellate,
   make_quad_mesh, elements ids, multi.SurfaceContainer.tessellate id offsets.  See Model/Tess.v for the parts that use the
   scalar type (parametric positions, trims, writers).  REPAIRED behaviour (fixes/C15-*.diff).  Definitions only. *)
From Coq Require Import List Arith Bool.
From NV Require Import Model.Common.
Import ListNotations.

Definition tri : Type := (nat * nat * nat)%type.
Definition tri_ids (t : tri) : list nat := let '(a, b, c) := t in [a; b; c].

(* number of elements of range(0, size, k) for k >= 1 *)
Definition varr_size (size k : nat) : nat := (size - 1) / k + 1.

(* the four corners v1..v4 of cell (i, j) of a vertex array with b columns *)
Definition cell_corners (b i j : nat) : list nat :=
  [j + i * b; j + (i + 1) * b; j + 1 + (i + 1) * b; j + 1 + i * b].
Definition cells (a b : nat) : list (nat * nat) :=
  flat_map (fun i => map (fun j => (i, j)) (seq 0 (b - 1))) (seq 0 (a - 1)).

(* polygon_triangulate: fan (args[0], args[idx], args[idx+1]) for idx = 1 .. len-2, ids tri_idx + 0, 1, ... *)
Definition polygon_triangulate {A} (vs : list A) : list (A * A * A) :=
  match vs with
  | [] => []
  | v0 :: rest => map (fun p => (v0, fst p, snd p)) (combine rest (tl rest))
  end.
Definition number_from {A} (start : nat) (l : list A) : list (nat * A) := combine (seq start (length l)) l.

Definition memb (x : nat) (l : list nat) : bool := existsb (Nat.eqb x) l.
Fixpoint index_of (x : nat) (l : list nat) : option nat :=
  match l with
  | [] => None
  | y :: r => if Nat.eqb x y then Some 0 else match index_of x r with Some n => Some (S n) | None => None end
  end.

(* fix_numbering: objects of vertex_list whose id occurs in a triangle, first occurrence of every id, in list order.
   vid_of gives the current id attribute of an object.  Result: the final objects, in their new numbering order. *)
Definition fix_numbering (vid_of : nat -> nat) (vlist : list nat) (tris : list tri) : list nat :=
  let tri_vertex_ids := flat_map (fun t => map vid_of (tri_ids t)) tris in
  rev (fst (fold_left (fun acc o =>
         let d := vid_of o in
         if andb (memb d tri_vertex_ids) (negb (memb d (snd acc))) then (o :: fst acc, d :: snd acc) else acc)
       vlist ([], []))).
(* id attribute of object o after renumbering (objects that are not final keep their old id) *)
Definition new_id (vid_of : nat -> nat) (final : list nat) (o : nat) : nat :=
  match index_of o final with Some n => n | None => vid_of o end.

(* ------------------------------------------------------------------ generic cell loop of make_triangle_mesh *)
Section Gen.
Context {St : Type}.
(* tessellation callback: store -> corner objects [v1;v2;v3;v4] -> vidx -> tidx -> (store, vertex list, triangle list);
   triangles carry their id attribute and refer to vertex objects *)
Context (tsl : St -> list nat -> nat -> nat -> St * list nat * list (nat * tri)).

Definition mesh_state : Type := (St * list nat * list (nat * tri) * nat * nat)%type.
Definition mesh_step (b : nat) (st : mesh_state) (c : nat * nat) : mesh_state :=
  let '(s, vl, ts, vi, ti) := st in
  let '(s', vlst, tlst) := tsl s (cell_corners b (fst c) (snd c)) vi ti in
  (s', vl ++ vlst, ts ++ tlst, vi + length vlst, ti + length tlst).
(* the a*b grid vertices are objects 0 .. a*b-1 with id = position; vrt_idx = a*b, tri_idx = 0 *)
Definition mesh_loop (a b : nat) (s0 : St) : mesh_state :=
  fold_left (mesh_step b) (cells a b) (s0, seq 0 (a * b), [], a * b, 0).
End Gen.

(* surface_tessellate: the fan of the four corners, no new vertices *)
Definition surface_tessellate (s : unit) (corners : list nat) (vidx tidx : nat) : unit * list nat * list (nat * tri) :=
  (s, [], number_from tidx (polygon_triangulate corners)).

(* make_triangle_mesh without trims.
   Result: per final vertex (in id order) the index of its point in `points` and the grid steps (i, j) of its
   parametric position; the triangles as (triangle id, vertex ids).
   Crash: ZeroDivisionError (size 1, spacing 0) or IndexError (too few points). *)
Definition grid_point_index (size_v k bq : nat) (g : nat) : nat := (g mod bq) * k + ((g / bq) * k) * size_v.
Definition make_triangle_mesh (npts size_u size_v k : nat) : res (list (nat * (nat * nat)) * list (nat * tri)) :=
  if orb (Nat.eqb k 0) (orb (Nat.leb size_u 1) (Nat.leb size_v 1)) then Crash else
  let a := varr_size size_u k in
  let b := varr_size size_v k in
  if negb (Nat.ltb (grid_point_index size_v k b (a * b - 1)) npts) then Crash else
  let '(_, vl, ts, _, _) := mesh_loop surface_tessellate a b tt in
  let final := fix_numbering (fun o => o) vl (map snd ts) in
  Ok (map (fun o => (grid_point_index size_v k b o, (o / b, o mod b))) final,
      map (fun t => let '(i, (x, y, z)) := t in
                    (i, (new_id (fun o => o) final x, new_id (fun o => o) final y, new_id (fun o => o) final z))) ts).

(* closed form (Proofs/TessR.v: equal to make_triangle_mesh for all sizes >= 2) *)
Definition plain_tris (a b : nat) : list tri :=
  flat_map (fun c => match cell_corners b (fst c) (snd c) with
                     | [v1; v2; v3; v4] => [(v1, v2, v3); (v1, v3, v4)]
                     | _ => [] end) (cells a b).
Definition plain_mesh (npts size_u size_v k : nat) : res (list (nat * (nat * nat)) * list (nat * tri)) :=
  if orb (Nat.eqb k 0) (orb (Nat.leb size_u 1) (Nat.leb size_v 1)) then Crash else
  let a := varr_size size_u k in
  let b := varr_size size_v k in
  if negb (Nat.ltb (grid_point_index size_v k b (a * b - 1)) npts) then Crash else
  Ok (map (fun o => (grid_point_index size_v k b o, (o / b, o mod b))) (seq 0 (a * b)),
      number_from 0 (plain_tris a b)).

(* make_quad_mesh: every point is a vertex (id = index), one quad per cell of the size_u x size_v array *)
Definition make_quad_mesh (npts size_u size_v : nat) : res (list nat * list (nat * list nat)) :=
  if andb (Nat.ltb 0 npts) (orb (Nat.leb size_u 1) (Nat.leb size_v 1)) then Crash else      (* division by zero in uv *)
  if andb (Nat.ltb 1 size_u) (andb (Nat.ltb 1 size_v) (negb (Nat.leb (size_u * size_v) npts))) then Crash else
  Ok (seq 0 npts,
      number_from 0 (map (fun c => let i := fst c in let j := snd c in
                        [j + size_v * i; j + size_v * (i + 1); j + 1 + size_v * (i + 1); j + 1 + size_v * i])
                        (cells size_u size_v))).

(* SurfaceContainer.tessellate: vertex ids and face ids of element n are shifted by the number of vertices / faces of
   the elements before it (faces refer to the shifted vertex objects).  Input: per element (number of vertices, faces). *)
Fixpoint container_offsets (voff foff : nat) (ms : list (nat * list (nat * tri))) : list nat * list (nat * tri) :=
  match ms with
  | [] => ([], [])
  | (nv, fs) :: rest =>
    let r := container_offsets (voff + nv) (foff + length fs) rest in
    (seq voff nv ++ fst r,
     map (fun f => let '(i, (x, y, z)) := f in (i + foff, (x + voff, y + voff, z + voff))) fs ++ snd r)
  end.
Definition container_tessellate (ms : list (nat * list (nat * tri))) := container_offsets 0 0 ms.

