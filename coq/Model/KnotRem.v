(* Executable model of helpers.knot_removal (Algorithm A5.8 / Eqs. 5.28-5.30 of The NURBS Book),
   helpers.knot_removal_alpha_i/j, helpers.knot_removal_kv, operations.remove_knot for curves, surfaces (u, v)
   and volumes (u, v, w) and the object wrappers BSpline/NURBS.Curve|Surface|Volume.remove_knot.

   The model describes the REPAIRED function (fixes/C06-knot-removal.diff): every removal step reads the
   control points updated by the previous step, the sweep loop runs `while j - i > t`, the tail shift copies
   from the updated array.  Like the code, it never stops early: the knot is removed `num` times whatever the
   removability test says; the test (Eq. 5.30, modelled as squared distance <= tol^2) only decides whether the
   points computed by Eq. 5.28 are stored.

   A control point is a list of scalars.  Rows of points (volumes: Python's `is_volume` branch) are flattened to
   one long point by the caller; `td` is the number of leading coordinates that enter the removability test
   (the whole point for curves and surfaces, the first point of the row for volumes, as in the code).

   The two sweeps of the while-loop (left: temp[ii] from temp[ii-1]; right: temp[jj] from temp[jj+1]) never
   read each other's slots (ii < jj inside the loop), so they are two independent recursions `lsweep`/`rsweep`
   over cnt = ceil((last - first - t) / 2) iterations; temp[ii-1] / temp[jj+1] after the loop are the last
   values of the sweeps (temp[0] / temp[last-first+2] when the loop body never ran).
   Valid for clamped knot vectors, an interior knot u of multiplicity s >= num, span r.  Definitions only. *)
From Coq Require Import List Arith Bool ZArith.
From Param Require Import Param.
From NV Require Import Scalar.Ops Model.Common Model.Basis Model.KnotIns Model.InsertKnot.
Import ListNotations.

Section M.
Context {T : Type} (K : ops T).
Notation "x + y" := (oadd K x y). Notation "x - y" := (osub K x y).
Notation "x * y" := (omul K x y). Notation "x / y" := (odiv K x y).
Notation kn := (kn K).

(* helpers.knot_removal_alpha_i / _alpha_j  (Eq. 5.29); t = number of removals already done *)
Definition rem_alpha_i (U : list T) (u : T) (p t i : nat) : T :=
  (u - kn U i) / (kn U (Nat.add (Nat.add (Nat.add i p) 1) t) - kn U i).
Definition rem_alpha_j (U : list T) (u : T) (p t j : nat) : T :=
  (u - kn U (Nat.sub j t)) / (kn U (Nat.add (Nat.add j p) 1) - kn U (Nat.sub j t)).

(* (cpt - (1 - alpha_i) * ti) / alpha_i   and   (cpt - alpha_j * tj) / (1 - alpha_j), component-wise *)
Definition unlerp_i (a : T) (cpt ti : list T) : list T :=
  map (fun ct => (fst ct - (o1 K - a) * snd ct) / a) (combine cpt ti).
Definition unlerp_j (a : T) (cpt tj : list T) : list T :=
  map (fun ct => (fst ct - a * snd ct) / (o1 K - a)) (combine cpt tj).
(* alpha * t1 + (1 - alpha) * t2 *)
Definition mix (a : T) (t1 t2 : list T) : list T :=
  map (fun tt => a * fst tt + (o1 K - a) * snd tt) (combine t1 t2).
(* linalg.point_distance squared *)
Definition dist2 (a b : list T) : T :=
  sumT K (map (fun ab => (snd ab - fst ab) * (snd ab - fst ab)) (combine a b)).

Fixpoint lsweep (p : nat) (U : list T) (u : T) (t : nat) (Pw : list (list T)) (i : nat) (prev : list T) (cnt : nat) : list (list T) :=
  match cnt with
  | O => []
  | S c => let x := unlerp_i (rem_alpha_i U u p t i) (getp Pw i) prev in
           x :: lsweep p U u t Pw (S i) x c
  end.
Fixpoint rsweep (p : nat) (U : list T) (u : T) (t : nat) (Pw : list (list T)) (j : nat) (next : list T) (cnt : nat) : list (list T) :=
  match cnt with
  | O => []
  | S c => let x := unlerp_j (rem_alpha_j U u p t j) (getp Pw j) next in
           x :: rsweep p U u t Pw (Nat.pred j) x c
  end.

(* number of iterations of `while j - i > t` started at i = first, j = last *)
Definition sweep_count (first last t : nat) : nat := Nat.div2 (S (Nat.sub (Nat.sub last first) t)).

(* the distance of the removability test of pass t (Eq. 5.30), squared: between the two candidates for the
   middle point when the sweeps meet between two slots (j - i < t), otherwise between the remaining old point
   and the combination of its two new neighbours *)
Definition rem_test (td : nat) (p : nat) (U : list T) (u : T) (r s : nat) (Pw : list (list T)) (t : nat) : T :=
  let first := Nat.sub (Nat.sub r p) t in
  let lst := Nat.add (Nat.sub r s) t in
  let cnt := sweep_count first lst t in
  let t0 := getp Pw (Nat.sub first 1) in
  let tN := getp Pw (S lst) in
  let lastL := last (lsweep p U u t Pw first t0 cnt) t0 in
  let lastR := last (rsweep p U u t Pw lst tN cnt) tN in
  let i := Nat.add first cnt in
  let j := Nat.sub lst cnt in
  if Nat.ltb j (Nat.add i t)
  then dist2 (firstn td lastL) (firstn td lastR)
  else dist2 (firstn td (getp Pw i)) (mix (rem_alpha_i U u p t i) (firstn td lastR) (firstn td lastL)).

(* one pass t of the for-loop: returns the updated control points (not yet shifted) *)
Definition rem_step (td : nat) (tol2 : T) (p : nat) (U : list T) (u : T) (r s : nat) (Pw : list (list T)) (t : nat) : list (list T) :=
  let first := Nat.sub (Nat.sub r p) t in
  let lst := Nat.add (Nat.sub r s) t in
  let cnt := sweep_count first lst t in
  let L := lsweep p U u t Pw first (getp Pw (Nat.sub first 1)) cnt in
  let R := rsweep p U u t Pw lst (getp Pw (S lst)) cnt in
  let i := Nat.add first cnt in
  let j := Nat.sub lst cnt in
  if oleb K (rem_test td p U u r s Pw t) tol2 then
    map (fun idx => if andb (Nat.leb first idx) (Nat.ltb idx i) then nth (Nat.sub idx first) L []
                    else if andb (Nat.ltb j idx) (Nat.leb idx lst) then nth (Nat.sub lst idx) R []
                    else getp Pw idx) (seq 0 (length Pw))
  else Pw.

(* helpers.knot_removal(degree, knotvector, ctrlpts, u, num=, s=, span=) ; tol2 = tol^2, tol = 10e-4 *)
Definition knot_removal (td : nat) (tol2 : T) (p : nat) (U : list T) (P : list (list T)) (u : T) (num s r : nat) : list (list T) :=
  if Nat.ltb num 1 then P else
  let Pw := fold_left (rem_step td tol2 p U u r s) (seq 0 num) P in
  let j0 := Nat.div2 (Nat.sub (Nat.sub (Nat.mul 2 r) s) p) in      (* first control point out *)
  let i := Nat.add j0 (Nat.div2 num) in
  let j := Nat.sub j0 (Nat.div2 (Nat.sub num 1)) in
  firstn j Pw ++ skipn (S i) Pw.                                     (* tail shift and slice [0:-num] *)
End M.

(* helpers.knot_removal_kv(knotvector, span, r) *)
Definition knot_removal_kv {A : Type} (U : list A) (span r : nat) : list A :=
  if Nat.ltb r 1 then U else firstn (Nat.sub (S span) r) U ++ skipn (S span) U.

Section Ops.
Context {T : Type} (K : ops T).

Definition pdim (P : list (list T)) : nat := length (getp P 0).

(* one direction of operations.remove_knot: None = nothing to do, Some None = GeomdlException *)
Definition rem_prep (tol : T) (check : bool) (p : nat) (U : list T) (size : nat) (param : option T) (num : nat)
  : option (option (T * nat * nat * list T)) :=
  match param with
  | None => None
  | Some u =>
    if Nat.eqb num 0 then None else
    let s := find_multiplicity K tol u U in
    if andb check (Nat.ltb s num) then Some None else
    let span := find_span_linear K p U size u in
    Some (Some (u, s, span, knot_removal_kv U span num))
  end.

(* ---- curve ---- *)
Definition remove_knot_curve (tol tol2 : T) (check : bool) (c : curve) (params : list (option T)) (nums : list Z) : curve * bool :=
  if andb check (negb (nums_ok 1 nums)) then (c, true) else
  match rem_prep tol check (c_p c) (c_U c) (length (c_P c)) (parat params 0) (numat nums 0) with
  | None => (c, false)
  | Some None => (c, true)
  | Some (Some (u, s, span, kv)) =>
    (mkC (c_p c) kv (knot_removal K (pdim (c_P c)) tol2 (c_p c) (c_U c) (c_P c) u (numat nums 0) s span), false)
  end.

(* ---- surface: the curve algorithm on every column (u) / row (v); each line has its own removability test ---- *)
Definition surf_rem_u (tol2 : T) (g : surf) (u : T) (num s span : nat) : list (list T) :=
  let tmp := flat_map (fun v =>
      knot_removal K (pdim (s_P g)) tol2 (s_pu g) (s_Uu g)
        (map (fun u_ => getp (s_P g) (Nat.add v (Nat.mul (s_sv g) u_))) (seq 0 (s_su g))) u num s span)
      (seq 0 (s_sv g)) in
  flip_ctrlpts_u tmp (Nat.sub (s_su g) num) (s_sv g).
Definition surf_rem_v (tol2 : T) (g : surf) (v : T) (num s span : nat) : list (list T) :=
  flat_map (fun u_ =>
      knot_removal K (pdim (s_P g)) tol2 (s_pv g) (s_Uv g)
        (map (fun v_ => getp (s_P g) (Nat.add v_ (Nat.mul (s_sv g) u_))) (seq 0 (s_sv g))) v num s span)
      (seq 0 (s_su g)).

Definition remove_knot_surf (tol tol2 : T) (check : bool) (g : surf) (params : list (option T)) (nums : list Z) : surf * bool :=
  if andb check (negb (nums_ok 2 nums)) then (g, true) else
  let '(g1, raised) :=
    match rem_prep tol check (s_pu g) (s_Uu g) (s_su g) (parat params 0) (numat nums 0) with
    | None => (g, false)
    | Some None => (g, true)
    | Some (Some (u, s, span, kv)) =>
      (mkS (s_pu g) (s_pv g) kv (s_Uv g) (Nat.sub (s_su g) (numat nums 0)) (s_sv g) (surf_rem_u tol2 g u (numat nums 0) s span), false)
    end in
  if raised then (g1, true) else
  match rem_prep tol check (s_pv g1) (s_Uv g1) (s_sv g1) (parat params 1) (numat nums 1) with
  | None => (g1, false)
  | Some None => (g1, true)
  | Some (Some (v, s, span, kv)) =>
    (mkS (s_pu g1) (s_pv g1) (s_Uu g1) kv (s_su g1) (Nat.sub (s_sv g1) (numat nums 1)) (surf_rem_v tol2 g1 v (numat nums 1) s span), false)
  end.

(* ---- volume: one row of points per index of the removal direction, flattened to one long point;
        only the first point of the row enters the removability test (td = point dimension) ---- *)
Definition chunk (row : list T) (d k : nat) : list T := firstn d (skipn (Nat.mul k d) row).
Definition vol_rem_u (tol2 : T) (g : vol) (u : T) (num s span : nat) : list (list T) :=
  let d := pdim (v_P g) in
  let cpt2d := map (fun u_ => flat_map (fun w_ => flat_map (fun v_ => getp (v_P g) (vidx g u_ v_ w_)) (seq 0 (v_sv g))) (seq 0 (v_sw g))) (seq 0 (v_su g)) in
  let tmp := knot_removal K d tol2 (v_pu g) (v_Uu g) cpt2d u num s span in
  flat_map (fun w_ => flat_map (fun u_ => map (fun v_ => chunk (getp tmp u_) d (Nat.add v_ (Nat.mul w_ (v_sv g)))) (seq 0 (v_sv g)))
                               (seq 0 (Nat.sub (v_su g) num))) (seq 0 (v_sw g)).
Definition vol_rem_v (tol2 : T) (g : vol) (v : T) (num s span : nat) : list (list T) :=
  let d := pdim (v_P g) in
  let cpt2d := map (fun v_ => flat_map (fun w_ => flat_map (fun u_ => getp (v_P g) (vidx g u_ v_ w_)) (seq 0 (v_su g))) (seq 0 (v_sw g))) (seq 0 (v_sv g)) in
  let tmp := knot_removal K d tol2 (v_pv g) (v_Uv g) cpt2d v num s span in
  flat_map (fun w_ => flat_map (fun u_ => map (fun v_ => chunk (getp tmp v_) d (Nat.add u_ (Nat.mul w_ (v_su g)))) (seq 0 (Nat.sub (v_sv g) num)))
                               (seq 0 (v_su g))) (seq 0 (v_sw g)).
Definition vol_rem_w (tol2 : T) (g : vol) (w : T) (num s span : nat) : list (list T) :=
  let d := pdim (v_P g) in
  let uv := Nat.mul (v_su g) (v_sv g) in
  let cpt2d := map (fun w_ => flat_map (fun i => getp (v_P g) (Nat.add i (Nat.mul w_ uv))) (seq 0 uv)) (seq 0 (v_sw g)) in
  let tmp := knot_removal K d tol2 (v_pw g) (v_Uw g) cpt2d w num s span in
  flat_map (fun w_ => map (fun i => chunk (getp tmp w_) d i) (seq 0 uv)) (seq 0 (Nat.sub (v_sw g) num)).

Definition remove_knot_vol (tol tol2 : T) (check : bool) (g : vol) (params : list (option T)) (nums : list Z) : vol * bool :=
  if andb check (negb (nums_ok 3 nums)) then (g, true) else
  let '(g1, r1) :=
    match rem_prep tol check (v_pu g) (v_Uu g) (v_su g) (parat params 0) (numat nums 0) with
    | None => (g, false)
    | Some None => (g, true)
    | Some (Some (u, s, span, kv)) =>
      (mkV (v_pu g) (v_pv g) (v_pw g) kv (v_Uv g) (v_Uw g) (Nat.sub (v_su g) (numat nums 0)) (v_sv g) (v_sw g)
           (vol_rem_u tol2 g u (numat nums 0) s span), false)
    end in
  if r1 then (g1, true) else
  let '(g2, r2) :=
    match rem_prep tol check (v_pv g1) (v_Uv g1) (v_sv g1) (parat params 1) (numat nums 1) with
    | None => (g1, false)
    | Some None => (g1, true)
    | Some (Some (v, s, span, kv)) =>
      (mkV (v_pu g1) (v_pv g1) (v_pw g1) (v_Uu g1) kv (v_Uw g1) (v_su g1) (Nat.sub (v_sv g1) (numat nums 1)) (v_sw g1)
           (vol_rem_v tol2 g1 v (numat nums 1) s span), false)
    end in
  if r2 then (g2, true) else
  match rem_prep tol check (v_pw g2) (v_Uw g2) (v_sw g2) (parat params 2) (numat nums 2) with
  | None => (g2, false)
  | Some None => (g2, true)
  | Some (Some (w, s, span, kv)) =>
    (mkV (v_pu g2) (v_pv g2) (v_pw g2) (v_Uu g2) (v_Uv g2) kv (v_su g2) (v_sv g2) (Nat.sub (v_sw g2) (numat nums 2))
         (vol_rem_w tol2 g2 w (numat nums 2) s span), false)
  end.

(* ---- object wrappers (default normalize_kv=True): parameters outside [0,1] raise; a GeomdlException of the
        operation is caught and printed, the object keeps the state it reached ---- *)
Definition curve_remove_knot (tol tol2 : T) (normalize : bool) (c : curve) (param : option T) (num : Z) (check_r : bool) : res curve :=
  if andb normalize (negb (params_in_unit K [param])) then Rejected
  else Ok (fst (remove_knot_curve tol tol2 check_r c [param] [num])).
Definition surf_remove_knot (tol tol2 : T) (normalize : bool) (g : surf) (u v : option T) (nu nv : Z) (check_r : bool) : res surf :=
  if andb normalize (negb (params_in_unit K [u; v])) then Rejected
  else Ok (fst (remove_knot_surf tol tol2 check_r g [u; v] [nu; nv])).
Definition vol_remove_knot (tol tol2 : T) (normalize : bool) (g : vol) (u v w : option T) (nu nv nw : Z) (check_r : bool) : res vol :=
  if andb normalize (negb (params_in_unit K [u; v; w])) then Rejected
  else Ok (fst (remove_knot_vol tol tol2 check_r g [u; v; w] [nu; nv; nw])).
End Ops.
