(* Executable model of: utilities.evaluate_bounding_box (abstract *.bbox), _operations.find_ctrlpts_curve /
   find_ctrlpts_surface (operations.find_ctrlpts), the active control-point windows of the evaluators, and the
   polyline of operations.length_curve (squared segment lengths; the square root is not a field operation).
   Definitions only. *)
From Coq Require Import List Arith Bool.
From Param Require Import Param.
From NV Require Import Scalar.Ops Model.Common Model.Basis Model.Knots Model.Eval.
Import ListNotations.

Section M.
Context {T : Type} (K : ops T).
Notation "x + y" := (oadd K x y). Notation "x - y" := (osub K x y).
Notation "x * y" := (omul K x y). Notation "x / y" := (odiv K x y).

(* one pass of   for i, arr in enumerate(zip(cpt, bb)): if arr[0] < arr[1]: bb[i] = arr[0]   (lt = "<" or ">") *)
Fixpoint bb_update (lt : T -> T -> bool) (cpt bb : list T) : list T :=
  match cpt, bb with
  | x :: c, m :: b => (if lt x m then x else m) :: bb_update lt c b
  | _, _ => bb
  end.
(* evaluate_bounding_box: the accumulators start at +inf / -inf, i.e. become the first point after the first pass
   (all points are assumed to have the length of the first one); an empty point list raises IndexError *)
Definition bbox (pts : list (list T)) : res (list T * list T) :=
  match pts with
  | [] => Crash
  | p0 :: r => Ok (fold_left (fun bb c => bb_update (oltb K) c bb) r p0,
                   fold_left (fun bb c => bb_update (fun a b => oltb K b a) c bb) r p0)
  end.

(* control points used by the evaluation at a span: curve, surface (row-major: u outer, v inner), volume *)
Definition active_curve (p : nat) (P : list (list T)) (span : nat) : list (list T) :=
  map (fun i => pt_at P (Nat.add (Nat.sub span p) i)) (seq 0 (S p)).
Definition active_surface (pu pv sv : nat) (P : list (list T)) (spu spv : nat) : list (list (list T)) :=
  map (fun k => map (fun l => pt_at P (Nat.add (Nat.add (Nat.sub spv pv) l) (Nat.mul sv (Nat.add (Nat.sub spu pu) k)))) (seq 0 (S pv))) (seq 0 (S pu)).
Definition active_volume (pu pv pw su sv : nat) (P : list (list T)) (spu spv spw : nat) : list (list T) :=
  flat_map (fun du => flat_map (fun dv => map (fun dw =>
     pt_at P (Nat.add (Nat.add (Nat.sub spv pv) dv) (Nat.mul sv (Nat.add (Nat.add (Nat.sub spu pu) du) (Nat.mul su (Nat.add (Nat.sub spw pw) dw))))))
     (seq 0 (S pw))) (seq 0 (S pv))) (seq 0 (S pu)).

(* _operations.find_ctrlpts_curve / find_ctrlpts_surface with the default span function *)
Definition find_ctrlpts_curve (p : nat) (U : list T) (P : list (list T)) (u : T) : list (list T) :=
  active_curve p P (find_span_linear K p U (length P) u).
Definition find_ctrlpts_surface (pu pv : nat) (Uu Uv : list T) (su sv : nat) (P : list (list T)) (u v : T) : list (list (list T)) :=
  active_surface pu pv sv P (find_span_linear K pu Uu su u) (find_span_linear K pv Uv sv v).

(* operations.length_curve sums sqrt of these over consecutive evaluated points *)
Definition sqdist (a b : list T) : T := let d := vsub K a b in vdot K d d.
Fixpoint polyline_sq (pts : list (list T)) : list T :=
  match pts with
  | a :: ((b :: _) as r) => sqdist a b :: polyline_sq r
  | _ => []
  end.
End M.
