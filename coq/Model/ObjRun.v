(* Executable instances of the view functions of Model/Obj.v: sampled points (Model/Eval.v), bounding box
   (utilities.evaluate_bounding_box), triangular tessellation (tessellate.make_triangle_mesh with the default
   tessellation function), and the sequential "read every view" observation.  Definitions only. *)
From Coq Require Import List Arith Bool.
From NV Require Import Scalar.Ops Model.Common Model.Basis Model.Knots Model.Eval Model.Weights Model.Equal Model.Obj.
Import ListNotations.

Section R.
Context {T : Type} (K : ops T).
Notation "x + y" := (oadd K x y). Notation "x - y" := (osub K x y).
Notation "x * y" := (omul K x y). Notation "x / y" := (odiv K x y).

(* int(math.floor(x)) for 0 <= x < 200 *)
Fixpoint floor_aux (fuel : nat) (x : T) (n : nat) : nat :=
  match fuel with O => n | S f => if oleb K (ofnat K (S n)) x then floor_aux f x (S n) else n end.
Definition floor_nat (x : T) : nat := floor_aux 200 x 0.
(* sample_size = floor(1 / delta + 0.5) *)
Definition sample_size (dl : T) : nat := floor_nat (o1 K / dl + o1 K / o2 K).
Definition samples (d : @defn T) : list nat := map sample_size (d_delta d).

Definition ev_of (tol8 : T) (d : @defn T) : list (list T) :=
  let dimh := length (hd [] (d_cp d)) in
  let p i := nth i (d_deg d) 0 in let U i := nth i (d_kv d) [] in let sz i := nth i (d_size d) 0 in
  let a i := kv_start K d i in let b i := kv_stop K d i in
  let n i := nth i (samples d) 0 in
  let pts := match d_pdim d with
    | 1 => curve_evalpts K tol8 dimh (p 0) (U 0) (d_cp d) (a 0) (b 0) (n 0)
    | 2 => surface_evalpts K tol8 dimh (p 0) (p 1) (U 0) (U 1) (sz 0) (sz 1) (d_cp d) (a 0) (b 0) (a 1) (b 1) (n 0) (n 1)
    | _ => volume_evalpts K tol8 dimh (p 0) (p 1) (p 2) (U 0) (U 1) (U 2) (sz 0) (sz 1) (sz 2) (d_cp d)
             (a 0) (b 0) (a 1) (b 1) (a 2) (b 2) (n 0) (n 1) (n 2)
    end in
  if d_rat d then map (project K) pts else pts.

Definition map2 (f : T -> T -> T) (a b : list T) : list T := map (fun p => f (fst p) (snd p)) (combine a b).
Definition bbox_of (pts : list (list T)) : list T * list T :=
  match pts with
  | [] => ([], [])
  | p0 :: r => (fold_left (map2 (omin K)) r p0, fold_left (map2 (omax K)) r p0)
  end.

(* vertex rows / columns 0, k, 2k, ... < n *)
Definition stride (k n : nat) : list nat := map (fun t => Nat.mul t k) (seq 0 (Nat.div (Nat.pred (Nat.add n k)) k)).
Definition tess_of (k : nat) (d : @defn T) (ev : list (list T)) : list (list T) * list (list nat) :=
  let nu := nth 0 (samples d) 0 in let nv := nth 1 (samples d) 0 in
  let is := stride k nu in let js := stride k nv in
  let mu := length is in let mv := length js in
  let verts := flat_map (fun i => map (fun j => nth (Nat.add j (Nat.mul i nv)) ev []) js) is in
  let faces := flat_map (fun i => flat_map (fun j =>
       let a := Nat.add j (Nat.mul i mv) in let b := Nat.add j (Nat.mul (S i) mv) in
       [[a; b; S b]; [a; S b; S a]]) (seq 0 (Nat.pred mv))) (seq 0 (Nat.pred mu)) in
  if is_nil faces then ([], []) else (verts, faces).

(* ---- sequential observation of every view, in the order the harness reads them ---- *)
Record obs := mkObs {
  ob_cpw : list (list T); ob_cpts : list (list T); ob_wts : list T; ob_cp2d : list (list (list T));
  ob_bbox : list T * list T; ob_eval : list (list T); ob_tess : list (list T) * list (list nat);
  ob_tess2 : list (list T) * list (list nat) }.

Section Obs.
Variable f_ev : @defn T -> list (list T).
Variable f_bbox : list (list T) -> list T * list T.
Variable f_tess : nat -> @defn T -> list (list T) -> list (list T) * list (list nat).
(* geometric views: with_eval = false leaves out sampled points and tessellation (inconsistent definition) *)
Definition observe (with_eval : bool) (o : @obj T) : obs :=
  let '(o1, p) := read_cpts K o in
  let '(o2, w) := if d_rat (o_def o1) then read_wts K o1 else (o1, []) in
  let '(o3, b) := read_bbox K f_bbox o2 in
  if with_eval then
    let '(o4, e) := read_eval f_ev o3 in
    let '(o5, t) := if Nat.eqb (d_pdim (o_def o4)) 2 then read_tess f_ev f_tess o4 else (o4, ([], [])) in
    let t2 := if Nat.eqb (d_pdim (o_def o5)) 2 then snd (read_tess f_ev f_tess (tessellate f_ev f_tess o5 2)) else ([], []) in
    mkObs (d_cp (o_def o)) p w (o_cp2d o) b e t t2
  else mkObs (d_cp (o_def o)) p w (o_cp2d o) b [] ([], []) ([], []).
End Obs.
End R.
