(* Executable model of the planar predicates and ray queries of geomdl:
   ray.Ray / ray.intersect (2-D and 3-D, status enum), linalg.is_left, linalg.wn_poly,
   linalg.convex_hull (Graham/Andrew scan on the lexicographically sorted input), linalg.frange.
   Polymorphic in the scalar operations.  Definitions only.
   sqrt is not a field operation: `point_distance(a,b) < tol` is modelled as |a-b|^2 < tol^2 and
   `vector_magnitude(c) ** 2` as c.c (see DESIGN.md 3.1). *)
From Coq Require Import List Arith Bool ZArith.
From NV Require Import Scalar.Ops Model.Common.
Import ListNotations.

Inductive rstatus : Type := INTERSECT | COLINEAR | SKEW.
Definition rstatus_code (s : rstatus) : nat := match s with INTERSECT => 1 | COLINEAR => 2 | SKEW => 3 end.

Section M.
Context {T : Type} (K : ops T).
Notation "x + y" := (oadd K x y). Notation "x - y" := (osub K x y).
Notation "x * y" := (omul K x y). Notation "x / y" := (odiv K x y).

Definition cx (p : list T) : T := nth 0 p (o0 K).
Definition cy (p : list T) : T := nth 1 p (o0 K).
Definition cz (p : list T) : T := nth 2 p (o0 K).

(* ---------------------------------------------------------------- ray.py *)
(* a ray is the pair of its two defining points; Ray.__init__ raises ValueError for unequal lengths *)
Definition ray : Type := (list T * list T)%type.
Definition mk_ray (p1 p2 : list T) : res ray :=
  if Nat.eqb (length p1) (length p2) then Ok (p1, p2) else Rejected.
Definition ray_p (r : ray) : list T := fst r.
Definition ray_d (r : ray) : list T := vsub K (snd r) (fst r).                  (* vector_generate(pt1, pt2) *)
Definition ray_eval (r : ray) (t : T) : list T :=                               (* point_translate(p, d * t) *)
  vadd K (ray_p r) (map (fun v => v * t) (ray_d r)).

(* linalg.vector_cross on 3-vectors *)
Definition cross3 (a b : list T) : list T :=
  [ cy a * cz b - cz a * cy b ; cz a * cx b - cx a * cz b ; cx a * cy b - cy a * cx b ].
(* linalg.vector_is_zero: every |component| < tol *)
Definition vector_is_zero (tol : T) (v : list T) : bool := forallb (fun x => oltb K (oabs K x) tol) v.
Definition dist2 (a b : list T) : T := let d := vsub K b a in vdot K d d.

Definition intersect3d (tol : T) (r1 r2 : ray) : T * T * rstatus :=
  let d1 := ray_d r1 in
  let d2 := ray_d r2 in
  let d_cross := cross3 d1 d2 in
  if vector_is_zero tol d_cross then
    let tmp1 := vsub K (ray_p r2) (ray_p r1) in
    let t1 := if oltb K (oabs K (cx d1)) tol then o0 K else cx tmp1 / cx d1 in
    let tmp2 := vsub K (ray_p r1) (ray_p r2) in
    let t2 := if oltb K (oabs K (cx d2)) tol then o0 K else cx tmp2 / cx d2 in
    (t1, t2, COLINEAR)
  else
    let p_diff := vsub K (ray_p r2) (ray_p r1) in
    let d_magn_square := vdot K d_cross d_cross in
    let t1 := vdot K (cross3 p_diff d2) d_cross / d_magn_square in
    let t2 := vdot K (cross3 p_diff d1) d_cross / d_magn_square in
    if oltb K (dist2 (ray_eval r1 t1) (ray_eval r2 t2)) (tol * tol)
    then (t1, t2, INTERSECT) else (t1, t2, SKEW).

(* _intersect2d: homogeneous coordinate 1 appended to both points of both rays *)
Definition hom (r : ray) : ray := (fst r ++ [o1 K], snd r ++ [o1 K]).
Definition ray_dim (r : ray) : nat := length (fst r).
Definition intersect (tol : T) (r1 r2 : ray) : res (T * T * rstatus) :=
  if negb (Nat.eqb (ray_dim r1) (ray_dim r2)) then Rejected
  else if Nat.eqb (ray_dim r1) 2 then Ok (intersect3d tol (hom r1) (hom r2))
  else if Nat.eqb (ray_dim r1) 3 then Ok (intersect3d tol r1 r2)
  else Crash.

(* ---------------------------------------------------------------- linalg.is_left / wn_poly *)
Definition is_left (p0 p1 p2 : list T) : T :=
  (cx p1 - cx p0) * (cy p2 - cy p0) - (cx p2 - cx p0) * (cy p1 - cy p0).

(* contribution of the edge v0 -> v1 to the winding number of pt *)
Definition wn_edge (pt v0 v1 : list T) : Z :=
  if oleb K (cy v0) (cy pt) then
    (if oltb K (cy pt) (cy v1) then (if oltb K (o0 K) (is_left v0 v1 pt) then 1%Z else 0%Z) else 0%Z)
  else
    (if oleb K (cy v1) (cy pt) then (if oltb K (is_left v0 v1 pt) (o0 K) then (-1)%Z else 0%Z) else 0%Z).
Fixpoint wn_count (pt : list T) (vs : list (list T)) : Z :=
  match vs with
  | v0 :: rest => match rest with
                  | v1 :: _ => (wn_edge pt v0 v1 + wn_count pt rest)%Z
                  | [] => 0%Z
                  end
  | [] => 0%Z
  end.
Definition wn_poly (pt : list T) (vs : list (list T)) : bool := negb (Z.eqb (wn_count pt vs) 0).

(* ---------------------------------------------------------------- linalg.convex_hull *)
(* Python list comparison: lexicographic, a proper prefix is smaller *)
Fixpoint pt_ltb (a b : list T) : bool :=
  match a, b with
  | [], [] => false
  | [], _ :: _ => true
  | _ :: _, [] => false
  | x :: a', y :: b' => if oltb K x y then true else if oltb K y x then false else pt_ltb a' b'
  end.
Fixpoint pt_eqb (a b : list T) : bool :=
  match a, b with
  | [], [] => true
  | x :: a', y :: b' => andb (oeqb K x y) (pt_eqb a' b')
  | _, _ => false
  end.
(* sorted(): stable insertion sort *)
Fixpoint insert_pt (p : list T) (l : list (list T)) : list (list T) :=
  match l with
  | [] => [p]
  | q :: r => if pt_ltb p q then p :: l else q :: insert_pt p r
  end.
Definition sort_pts (l : list (list T)) : list (list T) := fold_right insert_pt [] l.

(* the hull under construction is kept as a stack: head = hull[-1] *)
Fixpoint pop_nonleft (stk : list (list T)) (r : list T) : list (list T) :=
  match stk with
  | h1 :: tl => match tl with
                | h2 :: _ => if oltb K (o0 K) (is_left h2 h1 r) then stk else pop_nonleft tl r
                | [] => stk
                end
  | [] => stk
  end.
Definition keep_left (stk : list (list T)) (r : list T) : list (list T) :=
  let s := pop_nonleft stk r in
  match s with
  | [] => [r]
  | h :: _ => if pt_eqb h r then s else r :: s
  end.
Definition half_hull (pts : list (list T)) : list (list T) := rev (fold_left keep_left pts []).
Definition convex_hull (points : list (list T)) : list (list T) :=
  let pts := sort_pts points in
  let l := half_hull pts in
  let u := half_hull (rev pts) in
  l ++ removelast (tl u).                      (* u[1 : len(u)-1] *)

(* ---------------------------------------------------------------- linalg.frange *)
(* values produced after the first one; None = fuel exhausted *)
Fixpoint frange_loop (fuel : nat) (x0 stop step eps : T) (i x : T) : option (list T) :=
  match fuel with
  | O => None
  | S f =>
    if oltb K (x + eps) stop then
      let i' := i + o1 K in
      let x' := x0 + i' * step in
      match frange_loop f x0 stop step eps i' x' with Some l => Some (x' :: l) | None => None end
    else Some (if oltb K x stop then [stop] else [])
  end.
Definition frange (fuel : nat) (start stop step : T) : res (list T) :=
  match frange_loop fuel start stop step (step / o2 K) (o0 K) start with
  | Some l => Ok (start :: l)
  | None => Crash
  end.
End M.
