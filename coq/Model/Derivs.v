(* Executable model of the derivative code of geomdl: evaluators.py (A3.2, A4.2, A3.6, A4.4, A3.4, A3.8),
   helpers.curve_deriv_cpts / surface_deriv_cpts (A3.3 / A3.7), the object entry points Curve.derivatives /
   Surface.derivatives, operations.derivative_curve / derivative_surface, operations.tangent / normal.
   Definitions only.  Basis-function derivatives (A2.3), basis_function_all and span search come from Model.Basis,
   binomial_coefficient from Model.Degree.

   `dim` below is the evaluator's `dimension`: the number of coordinates of a control point as stored
   (spatial dimension + 1 for rational shapes, whose control points are weighted: (x*w, y*w, z*w, w)).

   Modelled AS REPAIRED by /verif/fixes/C02-surface-deriv-cpts-loop.diff (A3.7: the V-derivative loop runs over
   k = 0..du; the pinned tree stopped at du-1 and left PKL[du][l>=1] unset) and
   /verif/fixes/C02-hodograph-keep-parametrization.diff (the hodograph objects keep the trimmed knot vector as it is). *)
From Coq Require Import List Arith Bool.
From Param Require Import Param.
From NV Require Import Scalar.Ops Model.Common Model.Basis Model.Knots Model.Eval Model.Degree.
Import ListNotations.

Section M.
Context {T : Type} (K : ops T).
Notation "x + y" := (oadd K x y). Notation "x - y" := (osub K x y).
Notation "x * y" := (omul K x y). Notation "x / y" := (odiv K x y).
Notation kn := (kn K).
Notation axpy := (axpy K).
Notation vzero := (vzero K).

Definition vlast (v : list T) : T := last v (o0 K).
(* [tmp - (c * drv) for tmp, drv in zip(v, d)] *)
Definition vsub_scaled (c : T) (v d : list T) : list T := map (fun td => fst td - c * snd td) (combine v d).
(* Python bfuns[j][i] of helpers.basis_function_all (Model.Basis stores row j from column j on) *)
Definition bfall_get (all : list (list T)) (j i : nat) : T := nth (Nat.sub i j) (nth j all []) (o0 K).

(* ---- A3.2  CurveEvaluator.derivatives ---- *)
Definition curve_derivs (dim p : nat) (U : list T) (P : list (list T)) (u : T) (order : nat) : list (list T) :=
  let du := Nat.min p order in
  let span := find_span_linear K p U (length P) u in
  let ders := basis_function_ders K p U span u du in
  map (fun k => if Nat.leb k du then curve_point_at K dim p P span (nth k ders []) else vzero dim) (seq 0 (S order)).

(* ---- A4.2  CurveEvaluatorRational.derivatives: CKw = derivatives of the weighted curve (A(u), w(u)) ---- *)
Definition rat_curve_derivs (CKw : list (list T)) (order : nat) : list (list T) :=
  let w0 := vlast (nth 0 CKw []) in
  fold_left (fun CK k =>
     let v := fold_left (fun v i => vsub_scaled (binomial_coefficient K k i * vlast (nth i CKw [])) v (nth (Nat.sub k i) CK []))
                        (seq 1 k) (removelast (nth k CKw [])) in
     CK ++ [map (fun t => t / w0) v]) (seq 0 (S order)) [].

(* ---- A3.6  SurfaceEvaluator.derivatives (as written: dd = min(order, d[1]), the full square is filled) ---- *)
Definition surface_derivs (dim pu pv : nat) (Uu Uv : list T) (su sv : nat) (P : list (list T)) (u v : T) (order : nat)
  : list (list (list T)) :=
  let d0 := Nat.min pu order in let d1 := Nat.min pv order in
  let spu := find_span_linear K pu Uu su u in
  let spv := find_span_linear K pv Uv sv v in
  let dersu := basis_function_ders K pu Uu spu u d0 in
  let dersv := basis_function_ders K pv Uv spv v d1 in
  let dd := Nat.min order d1 in
  map (fun k =>
    if Nat.leb k d0 then
      let temp := map (fun s => fold_left (fun acc r =>
                      axpy (get2 K dersu k r) (pt_at P (Nat.add (Nat.add (Nat.sub spv pv) s) (Nat.mul sv (Nat.add (Nat.sub spu pu) r)))) acc)
                      (seq 0 (S pu)) (vzero dim)) (seq 0 (S pv)) in
      map (fun l => if Nat.leb l dd
                    then fold_left (fun acc s => axpy (get2 K dersv l s) (nth s temp []) acc) (seq 0 (S pv)) (vzero dim)
                    else vzero dim) (seq 0 (S order))
    else repeat (vzero dim) (S order)) (seq 0 (S order)).

(* ---- A4.4  SurfaceEvaluatorRational.derivatives (loops over the full square 0..order x 0..order) ---- *)
Definition get3 (m : list (list (list T))) (k l : nat) : list T := nth l (nth k m []) [].
Definition set3 (m : list (list (list T))) (k l : nat) (x : list T) : list (list (list T)) := upd m k (upd (nth k m []) l x).

Definition rat_surface_derivs (dim : nat) (SKLw : list (list (list T))) (order : nat) : list (list (list T)) :=
  let w00 := vlast (get3 SKLw 0 0) in
  fold_left (fun SKL k => fold_left (fun SKL l =>
      let v0 := removelast (get3 SKLw k l) in
      let v1 := fold_left (fun v j => vsub_scaled (binomial_coefficient K l j * vlast (get3 SKLw 0 j)) v (get3 SKL k (Nat.sub l j)))
                          (seq 1 l) v0 in
      let v2 := fold_left (fun v i =>
                   let va := vsub_scaled (binomial_coefficient K k i * vlast (get3 SKLw i 0)) v (get3 SKL (Nat.sub k i) l) in
                   let w2 := fold_left (fun a j => axpy (binomial_coefficient K l j * vlast (get3 SKLw i j)) (get3 SKL (Nat.sub k i) (Nat.sub l j)) a)
                                       (seq 1 l) (vzero (Nat.pred dim)) in
                   vsub_scaled (binomial_coefficient K k i) va w2) (seq 1 k) v1 in
      set3 SKL k l (map (fun t => t / w00) v2)) (seq 0 (S order)) SKL)
    (seq 0 (S order)) (repeat (repeat (vzero dim) (S order)) (S order)).

(* ---- A3.3  helpers.curve_deriv_cpts: rows k = 0..order, row k holds the r-k+1 defined points ---- *)
Definition deriv_row (p : nat) (kv : list T) (r1 r k : nat) (prev : list (list T)) : list (list T) :=
  let tmp := ofnat K (Nat.sub (Nat.add p 1) k) in
  map (fun i =>
     let den := kn kv (Nat.add (Nat.add (Nat.add r1 i) p) 1) - kn kv (Nat.add (Nat.add r1 i) k) in
     map (fun e => (tmp * (fst e - snd e)) / den) (combine (pt_at prev (S i)) (pt_at prev i)))
    (seq 0 (Nat.sub (S r) k)).

Definition curve_deriv_cpts (p : nat) (kv : list T) (cpts : list (list T)) (r1 r2 order : nat) : list (list (list T)) :=
  let r := Nat.sub r2 r1 in
  let PK0 := map (fun i => pt_at cpts (Nat.add r1 i)) (seq 0 (S r)) in
  fst (fold_left (fun (st : list (list (list T)) * list (list T)) k =>
         let row := deriv_row p kv r1 r k (snd st) in (fst st ++ [row], row))
       (seq 1 order) ([PK0], PK0)).

(* ---- A3.4  CurveEvaluator2.derivatives ---- *)
Definition curve_derivs2 (dim p : nat) (U : list T) (P : list (list T)) (u : T) (order : nat) : list (list T) :=
  let du := Nat.min p order in
  let span := find_span_linear K p U (length P) u in
  let all := basis_function_all K p U span u in
  let PK := curve_deriv_cpts p U P (Nat.sub span p) span du in
  map (fun k => if Nat.leb k du
                then fold_left (fun acc j => axpy (bfall_get all j (Nat.sub p k)) (pt_at (nth k PK []) j) acc)
                               (seq 0 (S (Nat.sub p k))) (vzero dim)
                else vzero dim) (seq 0 (S order)).

(* ---- A3.7  helpers.surface_deriv_cpts (repaired): PKL[k][l][i][j], k <= du, l <= min(order-k, dv),
        i <= r-k, j <= s-l ---- *)
Definition surface_deriv_cpts (pu pv : nat) (Uu Uv : list T) (P : list (list T)) (su sv : nat)
    (r1 r2 s1 s2 order : nat) : list (list (list (list (list T)))) :=
  let du := Nat.min pu order in let dv := Nat.min pv order in
  let r := Nat.sub r2 r1 in let s := Nat.sub s2 s1 in
  let cols := map (fun j => curve_deriv_cpts pu Uu (map (fun i => pt_at P (Nat.add j (Nat.mul sv i))) (seq 0 su)) r1 r2 du)
                  (seq s1 (S s)) in
  map (fun k =>
     let rows := map (fun i => map (fun jj => pt_at (nth k (nth jj cols []) []) i) (seq 0 (S s))) (seq 0 (Nat.sub (S r) k)) in
     let dd := Nat.min (Nat.sub order k) dv in
     let per_i := map (fun row => curve_deriv_cpts pv (skipn s1 Uv) row 0 s dd) rows in
     map (fun l => map (fun i => nth l (nth i per_i []) []) (seq 0 (Nat.sub (S r) k))) (seq 0 (S dd)))
   (seq 0 (S du)).

Definition pkl_get (PKL : list (list (list (list (list T))))) (k l i j : nat) : list T :=
  nth j (nth i (nth l (nth k PKL []) []) []) [].

(* ---- A3.8  SurfaceEvaluator2.derivatives (only the triangle k + l <= order is filled) ---- *)
Definition surface_derivs2 (dim pu pv : nat) (Uu Uv : list T) (su sv : nat) (P : list (list T)) (u v : T) (order : nat)
  : list (list (list T)) :=
  let d0 := Nat.min pu order in let d1 := Nat.min pv order in
  let spu := find_span_linear K pu Uu su u in
  let spv := find_span_linear K pv Uv sv v in
  let allu := basis_function_all K pu Uu spu u in
  let allv := basis_function_all K pv Uv spv v in
  let PKL := surface_deriv_cpts pu pv Uu Uv P su sv (Nat.sub spu pu) spu (Nat.sub spv pv) spv order in
  map (fun k => map (fun l =>
     if andb (Nat.leb k d0) (Nat.leb l (Nat.min (Nat.sub order k) d1)) then
       fold_left (fun acc i =>
          let temp := fold_left (fun t j => axpy (bfall_get allu j (Nat.sub pu k)) (pkl_get PKL k l j i) t)
                                (seq 0 (S (Nat.sub pu k))) (vzero dim) in
          axpy (bfall_get allv i (Nat.sub pv l)) temp acc) (seq 0 (S (Nat.sub pv l))) (vzero dim)
     else vzero dim) (seq 0 (S order))) (seq 0 (S order)).

(* ---- object entry points: BSpline/NURBS Curve.derivatives, Surface.derivatives ----
   normalize = the object's normalize_kv flag (parameters outside [0,1] are refused), rational = NURBS object
   (rational evaluator), alg2 = the evaluator attribute was set to CurveEvaluator2 / SurfaceEvaluator2 *)
Definition in01 (x : T) : bool := andb (oleb K (o0 K) x) (oleb K x (o1 K)).

Definition Curve_derivatives (normalize rational alg2 : bool) (dim p : nat) (U : list T) (P : list (list T)) (u : T) (order : nat)
  : res (list (list T)) :=
  if andb normalize (negb (in01 u)) then Rejected
  else if alg2 then Ok (curve_derivs2 dim p U P u order)
  else if rational then Ok (rat_curve_derivs (curve_derivs dim p U P u order) order)
  else Ok (curve_derivs dim p U P u order).

Definition Surface_derivatives (normalize rational alg2 : bool) (dim pu pv : nat) (Uu Uv : list T) (su sv : nat)
    (P : list (list T)) (u v : T) (order : nat) : res (list (list (list T))) :=
  if andb normalize (negb (andb (in01 u) (in01 v))) then Rejected
  else if alg2 then Ok (surface_derivs2 dim pu pv Uu Uv su sv P u v order)
  else if rational then Ok (rat_surface_derivs dim (surface_derivs dim pu pv Uu Uv su sv P u v order) order)
  else Ok (surface_derivs dim pu pv Uu Uv su sv P u v order).

(* ---- operations.derivative_curve / derivative_surface (non-rational input): degree(s), knot vector(s), control points ---- *)
Definition trim_kv (U : list T) : list T := removelast (tl U).
Definition derivative_curve (p : nat) (U : list T) (P : list (list T)) : nat * list T * list (list T) :=
  (Nat.pred p, trim_kv U, nth 1 (curve_deriv_cpts p U P 0 (Nat.pred (length P)) 1) []).

(* control nets are returned flat (v fastest) *)
Definition derivative_surface (pu pv : nat) (Uu Uv : list T) (su sv : nat) (P : list (list T))
  : list (list T) * list (list T) * list (list T) :=
  let PKL := surface_deriv_cpts pu pv Uu Uv P su sv 0 (Nat.pred su) 0 (Nat.pred sv) 2 in
  (concat (nth 0 (nth 1 PKL []) []), concat (nth 1 (nth 0 PKL []) []), concat (nth 1 (nth 1 PKL []) [])).

(* ---- operations.tangent / normal: point, unnormalised vector(s); the unit vector is v / sqrt(v.v) ---- *)
Definition cross (a b : list T) : list T :=
  let a3 := if Nat.eqb (length a) 2 then a ++ [o0 K] else a in
  let b3 := if Nat.eqb (length b) 2 then b ++ [o0 K] else b in
  let a0 := nth 0 a3 (o0 K) in let a1 := nth 1 a3 (o0 K) in let a2 := nth 2 a3 (o0 K) in
  let b0 := nth 0 b3 (o0 K) in let b1 := nth 1 b3 (o0 K) in let b2 := nth 2 b3 (o0 K) in
  [a1 * b2 - a2 * b1; a2 * b0 - a0 * b2; a0 * b1 - a1 * b0].

Definition tangent_curve (normalize rational alg2 : bool) (dim p : nat) (U : list T) (P : list (list T)) (u : T)
  : res (list T * list T) :=
  res_map (fun ders => (nth 0 ders [], nth 1 ders [])) (Curve_derivatives normalize rational alg2 dim p U P u 1).

Definition tangent_surface (normalize rational alg2 : bool) (dim pu pv : nat) (Uu Uv : list T) (su sv : nat)
    (P : list (list T)) (u v : T) : res (list T * list T * list T) :=
  res_map (fun skl => (get3 skl 0 0, get3 skl 1 0, get3 skl 0 1))
          (Surface_derivatives normalize rational alg2 dim pu pv Uu Uv su sv P u v 1).

Definition normal_surface (normalize rational alg2 : bool) (dim pu pv : nat) (Uu Uv : list T) (su sv : nat)
    (P : list (list T)) (u v : T) : res (list T * list T) :=
  res_map (fun skl => (get3 skl 0 0, cross (get3 skl 1 0) (get3 skl 0 1)))
          (Surface_derivatives normalize rational alg2 dim pu pv Uu Uv su sv P u v 1).

(* signed squared direction cosines of v: x*|x| / (v.v); what linalg.vector_normalize returns, squared with sign;
   Rejected when the magnitude is zero (ValueError) *)
Definition unit_sq (v : list T) : res (list T) :=
  let n2 := vdot K v v in
  if isz K n2 then Rejected else Ok (map (fun x => (x * oabs K x) / n2) v).
End M.
