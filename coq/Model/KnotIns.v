(* Executable model of helpers.knot_insertion (A5.1, control points) and helpers.knot_insertion_kv.
   A control "point" is a list of scalars; rows of points (surface/volume use) are handled by the caller
   by flattening, which is equivalent because the algorithm is coordinate-wise linear.
   Valid for span >= degree, s <= degree, 1 <= num <= degree - s (the callers' check_num guard). *)
From Coq Require Import List Arith Bool.
From Param Require Import Param.
From NV Require Import Scalar.Ops Model.Common.
Import ListNotations.

Section M.
Context {T : Type} (K : ops T).
Notation "x + y" := (oadd K x y). Notation "x - y" := (osub K x y).
Notation "x * y" := (omul K x y). Notation "x / y" := (odiv K x y).
Notation kn := (kn K).

Definition ins_alpha (U : list T) (u : T) (k i L : nat) : T :=
  (u - kn U (Nat.add L i)) / (kn U (S (Nat.add i k)) - kn U (Nat.add L i)).

(* alpha * b + (1 - alpha) * a, component-wise *)
Definition lerp (alpha : T) (a b : list T) : list T :=
  map (fun ab => alpha * snd ab + (o1 K - alpha) * fst ab) (combine a b).

Definition getp (P : list (list T)) (i : nat) : list T := nth i P [].

Definition knot_insertion (p : nat) (U : list T) (P : list (list T)) (u : T) (num s k : nat) : list (list T) :=
  let np := length P in
  let new0 := repeat [] (Nat.add np num) in
  let new1 := fold_left (fun nw i => upd nw i (getp P i)) (seq 0 (S (Nat.sub k p))) new0 in
  let new2 := fold_left (fun nw i => upd nw (Nat.add i num) (getp P i)) (seq (Nat.sub k s) (Nat.sub np (Nat.sub k s))) new1 in
  let temp0 := map (fun i => getp P (Nat.add (Nat.sub k p) i)) (seq 0 (S (Nat.sub p s))) in
  let '(new3, temp) :=
    fold_left (fun (st : list (list T) * list (list T)) j =>
      let '(nw, temp) := st in
      let L := Nat.add (Nat.sub k p) j in
      let temp' := fold_left (fun tp i => upd tp i (lerp (ins_alpha U u k i L) (getp tp i) (getp tp (S i))))
                             (seq 0 (S (Nat.sub (Nat.sub p j) s))) temp in
      let nw1 := upd nw L (getp temp' 0) in
      let nw2 := upd nw1 (Nat.sub (Nat.sub (Nat.add k num) j) s) (getp temp' (Nat.sub (Nat.sub p j) s)) in
      (nw2, temp')) (seq 1 num) (new2, temp0) in
  let L := Nat.add (Nat.sub k p) num in
  fold_left (fun nw i => upd nw i (getp temp (Nat.sub i L))) (seq (S L) (Nat.sub (Nat.sub k s) (S L))) new3.

Definition knot_insertion_kv (U : list T) (u : T) (span r : nat) : list T :=
  firstn (S span) U ++ repeat u r ++ skipn (S span) U.
End M.
