(* Executable model of geomdl/knotvector.py (generate, normalize, check) and linalg.linspace. *)
From Coq Require Import List Arith Bool.
From Param Require Import Param.
From NV Require Import Scalar.Ops Model.Common.
Import ListNotations.

Section M.
Context {T : Type} (K : ops T).
Notation "x + y" := (oadd K x y). Notation "x - y" := (osub K x y).
Notation "x * y" := (omul K x y). Notation "x / y" := (odiv K x y).

(* linalg.linspace(start, stop, num); tol8 = 10e-8.  The "{:.18f}" text round trip is the identity here. *)
Definition linspace (tol8 : T) (start stop : T) (num : nat) : list T :=
  if oleb K (oabs K (start - stop)) tol8 then [start]
  else if Nat.ltb 1 num then
    map (fun x => start + (ofnat K x * (stop - start)) / ofnat K (Nat.pred num)) (seq 0 num)
  else [start].

(* knotvector.generate(degree, num_ctrlpts, clamped) ; ValueError when degree = 0 or num_ctrlpts = 0.
   Python's range(0, negative) is empty and linspace with num <= 1 returns [start]. num_segments may be
   negative in Python (num_ctrlpts < degree+1): modelled with the integer passed on as  nseg2 = num_segments+2 (>= 0 or clipped) *)
Definition generate (tol8 : T) (p n : nat) (clamped : bool) : res (list T) :=
  if orb (Nat.eqb p 0) (Nat.eqb n 0) then Rejected
  else
    let rep := if clamped then p else 0 in
    (* num_segments + 2 *)
    let ns2 := if clamped then Nat.sub (Nat.add n 2) (S p) else S (Nat.add p n) in
    Ok (repeat (o0 K) rep ++ linspace tol8 (o0 K) (o1 K) ns2 ++ repeat (o1 K) rep).

Definition normalize (U : list T) : res (list T) :=
  match U with
  | [] => Rejected
  | f :: _ => let l := last U f in
              Ok (map (fun k => (k - f) / (l - f)) U)
  end.

Fixpoint nondecreasing (prev : T) (U : list T) : bool :=
  match U with
  | [] => true
  | k :: r => if oltb K k prev then false else nondecreasing k r
  end.
Definition check (p : nat) (U : list T) (n : nat) : res bool :=
  match U with
  | [] => Rejected
  | f :: _ => Ok (andb (Nat.eqb (length U) (S (Nat.add p n))) (nondecreasing f U))
  end.
End M.
