(* C08 - Degree elevation preserves a Bezier shape and reduction inverts it.
   "Elevating the degree of a Bezier control polygon (of points or of rows of points) by any positive amount
    yields control points that define exactly the same curve, with unchanged end points.  Reducing the degree
    of a polygon that is an exact elevation returns the original control points for every degree, and
    non-Bezier input or a non-positive elevation count is rejected."
   Quantifier of the property: degrees 1..8, counts 1..4, all control polygons (homogeneous or Cartesian).
   This file only states the theorems; proofs are in Proofs/DegreeR.v and Proofs/DegreeLift.v.
   Model: Model/Degree.v (helpers.degree_elevation, helpers.degree_reduction AS REPAIRED by
   fixes/C08-degree-reduction-backward-loop.diff, linalg.binomial_coefficient).
   A control point is a list of d coordinates, d arbitrary: Cartesian (x,y,z), homogeneous (xw,yw,zw,w), or a
   whole row of points flattened into one coordinate list (the helper itself cannot zip nested rows). *)
From Coq Require Import List QArith Reals Lia Arith Bool ZArith.
From NV Require Import Scalar.Ops Model.Common Model.Degree Proofs.DegreeR Proofs.DegreeLift.
From NV Require Import Proofs.DegreeGenSums Proofs.DegreeGeneral.
Import ListNotations.

(* the curve of a polygon: coordinate c of  sum_i B_{i,n}(x) P_i  is  bezier n (coord c P) x *)
Definition C08_bernstein_spec : forall n i x, bernstein n i x = (INR (binom n i) * x ^ i * (1 - x) ^ (n - i))%R := bernstein_INR.

(* [F] degrees 1..8 x counts 1..4 exhausted (32 field identities on a symbolic polygon); all control values,
   all parameters x, every dimension d and every coordinate: the elevated polygon defines the same curve *)
Theorem C08_elevation_preserves_bezier : forall p t, (1 <= p <= 8)%nat -> (1 <= t <= 4)%nat ->
  forall d (P Q : list (list R)), Forall (fun pt => length pt = d) P ->
  degree_elevation_pts Rops p P (Z.of_nat t) = Ok Q ->
  forall c x, (c < d)%nat -> bezier (p + t) (coord c Q) x = bezier p (coord c P) x.
Proof. exact elevation_preserves_bezier_pts. Qed.
Print Assumptions C08_elevation_preserves_bezier.

(* same statement on scalar control values (the identity the lift is built on) *)
Theorem C08_elevation_preserves_bezier_scalar : forall p t, (1 <= p <= 8)%nat -> (1 <= t <= 4)%nat ->
  forall a, length a = (p + 1)%nat -> forall x, bezier (p + t) (degree_elevation_sc Rops p a t) x = bezier p a x.
Proof. exact elevation_preserves_bezier_sc. Qed.
Print Assumptions C08_elevation_preserves_bezier_scalar.

(* [G] every degree, every count: number of points is degree+1+count, first and last point are unchanged *)
Theorem C08_elevation_fixes_endpoints : forall p num d (P Q : list (list R)), Forall (fun pt => length pt = d) P ->
  degree_elevation_pts Rops p P num = Ok Q ->
  length Q = (p + 1 + Z.to_nat num)%nat /\ nth 0 Q [] = nth 0 P [] /\ nth (p + Z.to_nat num) Q [] = nth p P [].
Proof. exact elevation_fixes_endpoints_pts. Qed.
Print Assumptions C08_elevation_fixes_endpoints.

(* [F] degrees 1..8 x counts 1..4: reducing t times the elevation by t returns exactly the original polygon
   (reduce_n_pts t q Q = degree_reduction_pts applied t times from degree q downwards, each call accepted) *)
Theorem C08_reduction_inverts_elevation : forall p t, (1 <= p <= 8)%nat -> (1 <= t <= 4)%nat ->
  forall d (P Q : list (list R)), (0 < d)%nat -> Forall (fun pt => length pt = d) P ->
  degree_elevation_pts Rops p P (Z.of_nat t) = Ok Q -> reduce_n_pts t (p + t) Q = Ok P.
Proof. exact reduction_inverts_elevation_pts. Qed.
Print Assumptions C08_reduction_inverts_elevation.

(* [G] rejection of non-Bezier input and of non-positive counts; acceptance otherwise (any point type) *)
Theorem C08_elevation_rejects : forall p (P : list (list R)) num,
  length P <> (p + 1)%nat \/ (num <= 0)%Z -> degree_elevation_pts Rops p P num = Rejected.
Proof. intros. apply elevation_rejects. assumption. Qed.
Print Assumptions C08_elevation_rejects.

Theorem C08_elevation_accepts : forall p (P : list (list R)) num,
  length P = (p + 1)%nat -> (0 < num)%Z -> exists Q, degree_elevation_pts Rops p P num = Ok Q /\ length Q = (p + 1 + Z.to_nat num)%nat.
Proof. intros. apply elevation_accepts; assumption. Qed.
Print Assumptions C08_elevation_accepts.

Theorem C08_reduction_rejects : forall p (P : list (list R)),
  length P <> (p + 1)%nat \/ (p < 2)%nat -> degree_reduction_pts Rops p P = Rejected.
Proof. intros. apply reduction_rejects. assumption. Qed.
Print Assumptions C08_reduction_rejects.

(* [G] lift: every coordinate of the model's output is the scalar algorithm run on that coordinate (free theorem
   of the abstract point type); this is what carries the scalar identities to Cartesian, homogeneous and
   flattened-row control points of any dimension *)
Theorem C08_elevation_coordinatewise : forall d c, (c < d)%nat -> forall pd P p t, Forall (fun pt => length pt = d) (pd :: P) ->
  coord c (degree_elevation_core Rops lzipw (lzlike Rops) pd p (pd :: P) t) = degree_elevation_sc Rops p (coord c (pd :: P)) t.
Proof. intros d c Hc pd P p t HF. exact (proj1 (elev_core_coord d c Hc pd P p t HF)). Qed.
Print Assumptions C08_elevation_coordinatewise.

Theorem C08_reduction_coordinatewise : forall d c, (c < d)%nat -> forall pd P p, Forall (fun pt => length pt = d) (pd :: P) ->
  coord c (degree_reduction_core Rops lzipw (lzlike Rops) pd p (pd :: P)) = degree_reduction_sc Rops p (coord c (pd :: P)).
Proof. intros d c Hc pd P p HF. exact (proj1 (red_core_coord d c Hc pd P p HF)). Qed.
Print Assumptions C08_reduction_coordinatewise.

(* general degree and count: not proved (Vandermonde convolution); kept visible *)
Definition C08_elevation_preserves_bezier_full : Prop := forall p t, (1 <= t)%nat ->
  forall a, length a = (p + 1)%nat -> forall x, bezier (p + t) (degree_elevation_sc Rops p a t) x = bezier p a x.

(* non-vacuity: a homogeneous quintic polygon is accepted, elevated by 2 and reduced twice back to itself
   (executable instance; degree 7 -> 6 -> 5 exercises the repaired backward loop of degree_reduction) *)
Example C08_hypotheses_satisfiable :
  let P := [[0;0;1]; [1;2;2]; [3;1;1]; [4;4;1#2]; [5;0;3]; [6;1;1]]%Q in
  Forall (fun pt => length pt = 3%nat) P /\
  match degree_elevation_pts Qops 5 P 2 with
  | Ok Q => length Q = 8%nat /\
            res_bind (degree_reduction_pts Qops 7 Q) (degree_reduction_pts Qops 6) = Ok P
  | _ => False
  end.
Proof. cbv zeta. split; [repeat constructor|vm_compute; split; reflexivity]. Qed.

(* ====================== general degree and count (round 2, Proofs/DegreeGeneral.v) ====================== *)
(* [G] the model's binomial coefficient is k!/(i!(k-i)!), 0 for i > k (the formula of linalg.binomial_coefficient) *)
Theorem C08_binomial_coefficient_is_choose : forall k i,
  binomial_coefficient Rops k i = if (i <=? k)%nat then (INR (fact k) / (INR (fact i) * INR (fact (k - i))))%R else 0%R.
Proof. exact binomial_coefficient_is_choose. Qed.
Print Assumptions C08_binomial_coefficient_is_choose.

(* [G] every degree, every positive count: the former Definition C08_elevation_preserves_bezier_full is now a theorem *)
Theorem C08_elevation_preserves_bezier_general : C08_elevation_preserves_bezier_full.
Proof. intros p t _ a Ha x. apply elevation_preserves_bezier_general. exact Ha. Qed.
Print Assumptions C08_elevation_preserves_bezier_general.

(* [G] points of any dimension *)
Theorem C08_elevation_preserves_bezier_pts_general : forall p t, (1 <= t)%nat ->
  forall d (P Q : list (list R)), Forall (fun pt => length pt = d) P ->
  degree_elevation_pts Rops p P (Z.of_nat t) = Ok Q ->
  forall c x, (c < d)%nat -> bezier (p + t) (coord c Q) x = bezier p (coord c P) x.
Proof. exact elevation_preserves_bezier_pts_general. Qed.
Print Assumptions C08_elevation_preserves_bezier_pts_general.

(* [G] elevation by one is the classical convex-combination formula *)
Theorem C08_elevation_by_one_formula : forall p a i, length a = (p + 1)%nat -> (i <= p + 1)%nat ->
  nth i (degree_elevation_sc Rops p a 1) 0%R =
  (INR i / INR (p + 1) * nth (i - 1) a 0 + (1 - INR i / INR (p + 1)) * nth i a 0)%R.
Proof. exact elevation_by_one_formula. Qed.
Print Assumptions C08_elevation_by_one_formula.

(* [G] elevation by t+1 is one more elevation by one *)
Theorem C08_elevation_succ : forall p t a, length a = (p + 1)%nat ->
  degree_elevation_sc Rops (p + t) (degree_elevation_sc Rops p a t) 1 = degree_elevation_sc Rops p a (S t).
Proof. exact elevation_succ. Qed.
Print Assumptions C08_elevation_succ.

(* [G] every degree p >= 1, every count t >= 1: t reductions return the original polygon (scalars and points) *)
Theorem C08_reduction_inverts_elevation_scalar_general : forall t p a, (1 <= p)%nat -> (1 <= t)%nat ->
  length a = (p + 1)%nat -> reduce_n t (p + t) (degree_elevation_sc Rops p a t) = a.
Proof. exact reduction_inverts_elevation_general. Qed.
Print Assumptions C08_reduction_inverts_elevation_scalar_general.

Theorem C08_reduction_inverts_elevation_general : forall p t, (1 <= p)%nat -> (1 <= t)%nat ->
  forall d (P Q : list (list R)), (0 < d)%nat -> Forall (fun pt => length pt = d) P ->
  degree_elevation_pts Rops p P (Z.of_nat t) = Ok Q -> reduce_n_pts t (p + t) Q = Ok P.
Proof. exact reduction_inverts_elevation_pts_general. Qed.
Print Assumptions C08_reduction_inverts_elevation_general.

(* ====================== TRANSLATOR TIE (Proofs/GenTie*.v) ======================
   coq/Gen/*.v is the Gallina rendering of the Python source produced by harness/pytrans.py; every run of ./check regenerates it
   from /repo and compares it function by function with the committed text (evidence: translator_tie).  The theorems below say
   that the hand-written model (the subject of the theorems above) computes, for ALL inputs satisfying the stated
   well-formedness, exactly what the translated source computes.  This block stays LAST in the file: its imports shadow
   model names. *)
From Coq Require Import List QArith Reals Qreals Lia Lra Arith Bool ZArith.
From NV Require Import Scalar.Ops Model.Common Model.Basis Model.Knots Model.KnotIns Model.KnotRem Model.LinAlg Model.Degree
  Gen.Prelude Gen.LinalgInternal Gen.Linalg Gen.Knotvector Gen.Helpers
  Proofs.GenTieSums Proofs.GenTieLinAlg Proofs.GenTieSubst Proofs.GenTieLU Proofs.GenTieLUSolve Proofs.GenTieKnotRem Proofs.GenTieDegree
  Proofs.GenTieLib Proofs.GenTieKnots Proofs.GenTieSpan Proofs.GenTieBasis Proofs.GenTieBasisOne
  Proofs.GenTieDersOne Proofs.GenTieDersLib Proofs.GenTieDers Proofs.GenTieKnotIns.
Local Open Scope nat_scope.
From NV Require Import Gen.PreludeExt Gen.LinalgMat Proofs.GenTieMat Proofs.GenTieMatSolve Proofs.GenTieBinom.
From NV Require Import Gen.PreludeExt Gen.HelpersB Proofs.GenTieKnotRemove.

(* [G] helpers.degree_reduction (as repaired), check_num = True, control points = lists of coordinates: ALL inputs;
   GeomdlException <-> Rejected.  The source uses float(i) (unary), the model ofnatb (binary): equal under nat_laws K
   (sum_laws + 0 + 1 = 1 + 2 * x = x + x), proved for Rops and Qops *)
Theorem C08_gen_degree_reduction_R : forall (p : nat) (P : list (list R)),
  Helpers.degree_reduction Rops (Z.of_nat p) P true = res_to_gres (fun x => x) GeomdlError IndexError (degree_reduction_pts Rops p P).
Proof. exact degree_reduction_tie_R. Qed.
Print Assumptions C08_gen_degree_reduction_R.
Theorem C08_gen_degree_reduction_Q : forall (p : nat) (P : list (list Q)),
  Helpers.degree_reduction Qops (Z.of_nat p) P true = res_to_gres (fun x => x) GeomdlError IndexError (degree_reduction_pts Qops p P).
Proof. exact degree_reduction_tie_Q. Qed.
Print Assumptions C08_gen_degree_reduction_Q.

(* ---- second round (C08): add  Gen.PreludeExt Gen.LinalgMat Gen.HelpersB Proofs.GenTieBinom Proofs.GenTieElev ---- *)
From NV Require Import Gen.HelpersB Proofs.GenTieElev.
(* [G] helpers.degree_elevation, check_num = True, control points = lists of coordinates: ALL inputs (num : Z arbitrary);
   GeomdlException <-> Rejected.  Under bin_laws (the source's binomial coefficients are quotients of factorials) *)
Theorem C08_gen_degree_elevation_R : forall (p : nat) (P : list (list R)) (num : Z),
  HelpersB.degree_elevation Rops (Z.of_nat p) P true num = res_to_gres (fun x => x) GeomdlError IndexError (degree_elevation_pts Rops p P num).
Proof. exact degree_elevation_tie_R. Qed.
Print Assumptions C08_gen_degree_elevation_R.
Theorem C08_gen_degree_elevation_Q : forall (p : nat) (P : list (list Q)) (num : Z),
  HelpersB.degree_elevation Qops (Z.of_nat p) P true num = res_to_gres (fun x => x) GeomdlError IndexError (degree_elevation_pts Qops p P num).
Proof. exact degree_elevation_tie_Q. Qed.
Print Assumptions C08_gen_degree_elevation_Q.
Example C08_gen_nonvacuous2 :
  HelpersB.degree_elevation Qops 3 [[0; 0]; [1; 2]; [3; 2]; [4; 0]]%Q true 1 = GOk [[0; 0]; [3#4; 3#2]; [2; 2]; [13#4; 3#2]; [4; 0]]%Q.
Proof. vm_compute; reflexivity. Qed.

