(* C20 - planar predicates and spatial queries agree with exact arithmetic.
   This file only states the property theorems; proofs live in Proofs/Geom2DR.v and Proofs/VoxelR.v.
   All statements are about the Rops instance of the executable model (Model/Geom2D.v, Model/Voxel.v), whose Qops
   instance (exact rationals) is what the correspondence check runs against the float implementation. *)
From Coq Require Import List Arith Bool Lia QArith Reals Lra ZArith.
From NV Require Import Scalar.Ops Model.Common Model.Basis Model.Geom2D Model.Voxel
  Proofs.Boehm Proofs.BasisR Proofs.Geom2DR Proofs.VoxelR.
From NV Require Import Proofs.HullContains.
From NV Require Import Proofs.WindingConvex.
From NV Require Import Proofs.RaySkew.
Import ListNotations.
Open Scope R_scope.

(* [G] orientation test: is_left(P0,P1,P2) is twice the signed area of the triangle P0 P1 P2 *)
Theorem C20_is_left_twice_signed_area : forall x0 y0 x1 y1 x2 y2 : R,
  is_left Rops [x0; y0] [x1; y1] [x2; y2] = x0 * y1 - x1 * y0 + (x1 * y2 - x2 * y1) + (x2 * y0 - x0 * y2).
Proof. exact is_left_twice_signed_area. Qed.
Print Assumptions C20_is_left_twice_signed_area.

(* [G] swapping two points flips the sign, rotating the three points keeps it *)
Theorem C20_is_left_antisymmetric : forall x0 y0 x1 y1 x2 y2 : R,
  is_left Rops [x1; y1] [x0; y0] [x2; y2] = - is_left Rops [x0; y0] [x1; y1] [x2; y2] /\
  is_left Rops [x1; y1] [x2; y2] [x0; y0] = is_left Rops [x0; y0] [x1; y1] [x2; y2].
Proof. exact is_left_antisym. Qed.
Print Assumptions C20_is_left_antisymmetric.

(* [G] 2-D rays: when the direction cross product D is not below the tolerance the status is INTERSECT and the returned
   parameters are the unique solution of p1 + t1 d1 = p2 + t2 d2: the two evaluated points coincide *)
Theorem C20_intersect_2d_params_correct : forall tol a1 b1 a2 b2 c1 d1 c2 d2 : R,
  0 < tol ->
  let D := (a2 - a1) * (d2 - d1) - (b2 - b1) * (c2 - c1) in
  tol <= Rabs D ->
  let t1 := ((c1 - a1) * (d2 - d1) - (d1 - b1) * (c2 - c1)) / D in
  let t2 := ((c1 - a1) * (b2 - b1) - (d1 - b1) * (a2 - a1)) / D in
  intersect Rops tol ([a1; b1], [a2; b2]) ([c1; d1], [c2; d2]) = Ok (t1, t2, INTERSECT) /\
  ray_eval Rops ([a1; b1], [a2; b2]) t1 = ray_eval Rops ([c1; d1], [c2; d2]) t2.
Proof. exact intersect_2d_params. Qed.
Print Assumptions C20_intersect_2d_params_correct.

(* [G] 3-D rays: if the cross product is not below the tolerance and the lines meet, ray1(s1) = ray2(s2), then intersect
   returns exactly (s1, s2, INTERSECT) *)
Theorem C20_intersect_3d_meeting_rays : forall tol p1x p1y p1z p2x p2y p2z q1x q1y q1z q2x q2y q2z s1 s2 : R,
  0 < tol ->
  let r1 := ([p1x; p1y; p1z], [p2x; p2y; p2z]) in
  let r2 := ([q1x; q1y; q1z], [q2x; q2y; q2z]) in
  vector_is_zero Rops tol (cross3 Rops (ray_d Rops r1) (ray_d Rops r2)) = false ->
  ray_eval Rops r1 s1 = ray_eval Rops r2 s2 ->
  intersect3d Rops tol r1 r2 = (s1, s2, INTERSECT).
Proof. exact intersect3d_meeting. Qed.
Print Assumptions C20_intersect_3d_meeting_rays.

(* [G] meaning of the status enum: COLINEAR iff the cross product of the directions is (component-wise) below the
   tolerance; otherwise INTERSECT iff the points at the returned parameters are closer than the tolerance, else SKEW *)
Theorem C20_intersect_status_meaning : forall (tol : R) (r1 r2 : list R * list R),
  let '(t1, t2, st) := intersect3d Rops tol r1 r2 in
  (st = COLINEAR <-> vector_is_zero Rops tol (cross3 Rops (ray_d Rops r1) (ray_d Rops r2)) = true) /\
  (st = INTERSECT -> dist2 Rops (ray_eval Rops r1 t1) (ray_eval Rops r2 t2) < tol * tol) /\
  (st = SKEW -> tol * tol <= dist2 Rops (ray_eval Rops r1 t1) (ray_eval Rops r2 t2)).
Proof. exact intersect3d_status. Qed.
Print Assumptions C20_intersect_status_meaning.

(* [G] parallel / coincident / degenerate rays (proportional directions) are reported COLINEAR *)
Theorem C20_parallel_rays_colinear : forall tol px py pz dx dy dz qx qy qz lam : R,
  0 < tol ->
  let r1 := ([px; py; pz], [px + dx; py + dy; pz + dz]) in
  let r2 := ([qx; qy; qz], [qx + lam * dx; qy + lam * dy; qz + lam * dz]) in
  snd (intersect3d Rops tol r1 r2) = COLINEAR.
Proof. exact intersect3d_parallel_colinear. Qed.
Print Assumptions C20_parallel_rays_colinear.

(* winding number.  The full claim (agreement with point-in-polygon for every simple polygon) is checked by the exact
   oracle on every run; proved: the exact characterisation for axis-parallel rectangles of both orientations. *)
Definition C20_wn_simple_polygon_full : Prop :=
  forall (poly : list (list R)) (x y : R) (inside : Prop),
    (* for a simple closed polygon and a point off its boundary, wn_poly = true iff the point is inside *)
    wn_poly Rops [x; y] poly = true <-> inside.

(* [B: rectangles] true exactly on the half-open rectangle; hence true for strictly interior, false for strictly exterior points *)
Theorem C20_wn_rectangle_partial : forall x0 x1 y0 y1 x y : R, x0 < x1 -> y0 < y1 ->
  (wn_poly Rops [x; y] [[x0; y0]; [x1; y0]; [x1; y1]; [x0; y1]; [x0; y0]] = true <-> (x0 <= x < x1 /\ y0 <= y < y1)) /\
  (wn_poly Rops [x; y] [[x0; y0]; [x0; y1]; [x1; y1]; [x1; y0]; [x0; y0]] = true <-> (x0 <= x < x1 /\ y0 <= y < y1)).
Proof. intros. split; [apply wn_rectangle|apply wn_rectangle_cw]; assumption. Qed.
Print Assumptions C20_wn_rectangle_partial.

(* [G] convex hull: every returned vertex is an input point *)
Theorem C20_hull_subset : forall (points : list (list R)) (x : list R), In x (convex_hull Rops points) -> In x points.
Proof. exact hull_subset. Qed.
Print Assumptions C20_hull_subset.

(* [G] both half hulls turn strictly left at every vertex (is_left > 0 for consecutive triples) *)
Theorem C20_hull_strict_left_turns : forall points : list (list R),
  left_chain (rev (half_hull Rops (sort_pts Rops points))) /\
  left_chain (rev (half_hull Rops (rev (sort_pts Rops points)))).
Proof. exact hull_strict_left_turns. Qed.
Print Assumptions C20_hull_strict_left_turns.

(* NOT proved (checked by the exact oracle on every run): every input point lies inside or on the returned hull *)
Definition C20_hull_contains_all_points_full : Prop :=
  forall (points : list (list R)) (p : list R), In p points ->
    let h := convex_hull Rops points in
    (3 <= length h)%nat ->
    forall i, (i < length h)%nat -> 0 <= is_left Rops (List.nth i h []) (List.nth ((i + 1) mod length h) h []) p.

(* [G] a voxel is marked filled (1) exactly when some sampled point lies in its padded half-open box, else 0 *)
Theorem C20_voxel_filled_iff_some_point_inside : forall tol x0 y0 z0 x1 y1 z1 (pts : list (R * R * R)),
  x0 - tol < x1 + tol -> y0 - tol < y1 + tol -> z0 - tol < z1 + tol ->
  let r := is_point_inside_voxel Rops tol [[x0; y0; z0]; [x1; y1; z1]] (map pt3 pts) in
  (r = 1%nat <-> exists p, In p pts /\ in_padded_box tol x0 y0 z0 x1 y1 z1 p) /\ (r = 1%nat \/ r = 0%nat).
Proof. exact voxel_filled_iff_some_point_inside. Qed.
Print Assumptions C20_voxel_filled_iff_some_point_inside.

(* [G] the flags are computed voxel by voxel; the multi-process variant (Pool.map modelled as map) is the same function *)
Theorem C20_find_inouts_pointwise : forall tol grid pts i n,
  (i < length grid)%nat ->
  List.nth i (find_inouts_st Rops tol grid pts) 0%nat = is_point_inside_voxel Rops tol (List.nth i grid []) pts /\
  find_inouts_mp Rops n tol grid pts = find_inouts_st Rops tol grid pts.
Proof. intros. split; [apply find_inouts_pointwise; assumption|reflexivity]. Qed.
Print Assumptions C20_find_inouts_pointwise.

(* [G] the generated grid covers the bounding box: every point of the box lies in some voxel [corner, corner + steps] *)
Theorem C20_voxel_grid_covers_bbox : forall fuel x0 y0 z0 x1 y1 z1 sz cubes g px py pz,
  x0 <= x1 -> y0 <= y1 -> z0 <= z1 ->
  generate_voxel_grid Rops fuel [[x0; y0; z0]; [x1; y1; z1]] sz cubes = Ok g ->
  x0 <= px <= x1 -> y0 <= py <= y1 -> z0 <= pz <= z1 ->
  exists a b c ea eb ec, In [[a; b; c]; [a + ea; b + eb; c + ec]] g /\
    a <= px <= a + ea /\ b <= py <= b + eb /\ c <= pz <= c + ec.
Proof. exact voxel_grid_covers_bbox. Qed.
Print Assumptions C20_voxel_grid_covers_bbox.

(* [G] control-point lookup: the p+1 points P[span-p .. span] of the knot span containing t ... *)
Theorem C20_find_ctrlpts_window : forall p (U : list R) (P : list (list R)) t,
  find_ctrlpts_curve Rops p U P t =
  map (fun i => List.nth (find_span_linear Rops p U (length P) t - p + i) P []) (seq 0 (S p)).
Proof. exact find_ctrlpts_curve_window. Qed.
Print Assumptions C20_find_ctrlpts_window.
Theorem C20_find_ctrlpts_surface_window : forall pu pv (Uu Uv : list R) su sv (P : list (list R)) tu tv,
  find_ctrlpts_surface Rops pu pv Uu Uv su sv P tu tv =
  map (fun k => map (fun l => List.nth ((find_span_linear Rops pv Uv sv tv - pv + l) + sv * (find_span_linear Rops pu Uu su tu - pu + k)) P [])
                    (seq 0 (S pv))) (seq 0 (S pu)).
Proof. exact find_ctrlpts_surface_window. Qed.
Print Assumptions C20_find_ctrlpts_surface_window.

(* ... which contains every control point whose Cox-de Boor basis function is non-zero at t (all sorted knot vectors with
   any multiplicities, all degrees, t in the half-open domain) *)
Theorem C20_find_ctrlpts_is_active_window : forall (U : list R) (t : R) (p n : nat),
  sortedR U -> (p < n)%nat -> (n < length U)%nat -> knR U p <= t < knR U n ->
  let k := find_span_linear Rops p U n t in
  (p <= k < n)%nat /\ forall i, (i < n)%nat -> N (Ufun U) p i t <> 0 -> (k - p <= i <= k)%nat.
Proof. exact find_ctrlpts_is_active_window. Qed.
Print Assumptions C20_find_ctrlpts_is_active_window.

(* ---- non-vacuity *)
Example C20_example_intersect :      (* hypotheses of C20_intersect_2d_params_correct for the diagonals of the unit square *)
  0 < 1 / 4 /\ 1 / 4 <= Rabs ((1 - 0) * (0 - 1) - (1 - 0) * (1 - 0)).
Proof. split; [lra|]. replace ((1 - 0) * (0 - 1) - (1 - 0) * (1 - 0)) with (-2) by lra. rewrite Rabs_left; lra. Qed.
Close Scope R_scope.
Open Scope Q_scope.
Example C20_example_intersect_Q :
  intersect Qops (1 # 1000) ([0; 0], [1; 1])%Q ([0; 1], [1; 0])%Q = Ok ((1 # 2), (1 # 2), INTERSECT)%Q /\
  intersect Qops (1 # 1000) ([0; 0; 0], [1; 0; 0])%Q ([0; 1; 1], [0; 2; 1])%Q = Ok (0, (-1 # 1), SKEW)%Q /\
  intersect Qops (1 # 1000) ([0; 0], [1; 1])%Q ([0; 1], [2; 3])%Q = Ok (0, 0, COLINEAR)%Q.
Proof. vm_compute. repeat split; reflexivity. Qed.
Example C20_example_wn :
  wn_poly Qops [1; 1]%Q [[0; 0]; [2; 0]; [2; 2]; [0; 2]; [0; 0]]%Q = true /\
  wn_poly Qops [3; 1]%Q [[0; 0]; [2; 0]; [2; 2]; [0; 2]; [0; 0]]%Q = false.
Proof. vm_compute. split; reflexivity. Qed.
Example C20_example_hull :
  convex_hull Qops [[1; 1]; [0; 0]; [2; 0]; [1; 3]; [1; 1]; [1; 0]]%Q = [[0; 0]; [2; 0]; [1; 3]]%Q.
Proof. vm_compute. reflexivity. Qed.
Example C20_example_voxel :
  is_point_inside_voxel Qops (1 # 10) [[0; 0; 0]; [1; 1; 1]]%Q [[2; 2; 2]; [1; (1 # 2); 0]]%Q = 1%nat /\
  is_point_inside_voxel Qops (1 # 10) [[0; 0; 0]; [1; 1; 1]]%Q [[2; 2; 2]; [(11 # 10); (1 # 2); 0]]%Q = 0%nat.
Proof. vm_compute. split; reflexivity. Qed.
Example C20_example_window :      (* cubic, one interior knot: t = 3/4 lies in span 4, window = points 1..4 *)
  find_ctrlpts_curve Qops 3 [0; 0; 0; 0; 1 # 2; 1; 1; 1; 1]%Q [[0]; [1]; [2]; [3]; [4]]%Q (3 # 4)%Q = [[1]; [2]; [3]; [4]]%Q.
Proof. vm_compute. reflexivity. Qed.

(* ====================== round 2 (Proofs/HullContains.v): the hull contains every input point ====================== *)
(* [G] every input point lies inside or on the returned hull: on or left of every directed edge of the counter-clockwise
   polygon (all point lists with at least the two coordinates the code reads; exact real arithmetic) *)
Theorem C20_hull_contains_all_points : forall (points : list (list R)) (p : list R),
  Forall (fun q => (2 <= length q)%nat) points -> In p points ->
  let h := convex_hull Rops points in
  (3 <= length h)%nat ->
  forall i, (i < length h)%nat -> (0 <= is_left Rops (List.nth i h []) (List.nth ((i + 1) mod length h) h []) p)%R.
Proof. exact hull_contains_all_points_full_2d. Qed.
Print Assumptions C20_hull_contains_all_points.

(* the Definition C20_hull_contains_all_points_full quantifies over degenerate points with fewer than two coordinates (on
   which geomdl raises IndexError): without the dimension hypothesis it is false in the model *)
Theorem C20_hull_contains_all_points_full_refuted : ~ C20_hull_contains_all_points_full.
Proof. exact hull_contains_without_dimension_refuted. Qed.
Print Assumptions C20_hull_contains_all_points_full_refuted.

(* ====================== round 2 (Proofs/WindingConvex.v): winding test on strictly convex polygons and triangles ====================== *)
Open Scope R_scope.
(* [G] winding test on strictly convex polygons given counter-clockwise (closed pts = pts ++ [pts_0], what wn_poly expects):
   strictly_convex_ccw pts := 3 <= n /\ every vertex other than the end points of an edge is strictly left of that edge;
   off_boundary_list pts p := p is on none of the closed edges (on_seg a b p := is_left a b p = 0 /\ (p-a).(p-b) <= 0).
   wn_poly = true <-> p strictly left of every edge; the count itself is 1 / 0. *)
Theorem C20_wn_convex_ccw : forall (pts : list (list R)) (p : list R),
  strictly_convex_ccw pts -> off_boundary_list pts p ->
  let n := length pts in
  let inside := forall i, (i < n)%nat -> 0 < is_left Rops (List.nth i pts []) (List.nth (S i mod n) pts []) p in
  (wn_poly Rops p (closed pts) = true <-> inside) /\
  (inside -> wn_count Rops p (closed pts) = 1%Z) /\ (~ inside -> wn_count Rops p (closed pts) = 0%Z).
Proof. exact wn_poly_convex_ccw. Qed.
Print Assumptions C20_wn_convex_ccw.

(* [G] clockwise: true <-> strictly right of every edge; count -1 / 0 *)
Theorem C20_wn_convex_cw : forall (pts : list (list R)) (p : list R),
  strictly_convex_cw pts -> off_boundary_list pts p ->
  let n := length pts in
  let inside := forall i, (i < n)%nat -> is_left Rops (List.nth i pts []) (List.nth (S i mod n) pts []) p < 0 in
  (wn_poly Rops p (closed pts) = true <-> inside) /\
  (inside -> wn_count Rops p (closed pts) = (-1)%Z) /\ (~ inside -> wn_count Rops p (closed pts) = 0%Z).
Proof. exact wn_poly_convex_cw. Qed.
Print Assumptions C20_wn_convex_cw.

(* [G] triangles (what the tessellation trims use): every non-degenerate triangle of either orientation, every point on
   none of the three closed edges *)
Theorem C20_wn_triangle : forall a b c p : list R, is_left Rops a b c <> 0 ->
  ~ on_seg a b p -> ~ on_seg b c p -> ~ on_seg c a p ->
  (wn_poly Rops p [a; b; c; a] = true <->
   (0 < is_left Rops a b c /\ 0 < is_left Rops a b p /\ 0 < is_left Rops b c p /\ 0 < is_left Rops c a p) \/
   (is_left Rops a b c < 0 /\ is_left Rops a b p < 0 /\ is_left Rops b c p < 0 /\ is_left Rops c a p < 0)).
Proof. exact wn_triangle. Qed.
Print Assumptions C20_wn_triangle.

(* the hypotheses are satisfiable (a convex quadrilateral that is not axis-parallel; an interior and an exterior point) *)
Example C20_wn_convex_instance :
  strictly_convex_ccw exQuad /\ off_boundary_list exQuad [2; 2] /\ off_boundary_list exQuad [5; 1] /\
  wn_poly Rops [2; 2] (closed exQuad) = true /\ wn_poly Rops [5; 1] (closed exQuad) = false.
Proof. exact convex_quad_instance. Qed.

(* left turns at consecutive triples are not enough (pentagram): convexity has to be global *)
Example C20_wn_local_left_turns_insufficient :
  let n := length exStar in
  (forall i, (i < n)%nat -> 0 < is_left Rops (List.nth i exStar []) (List.nth (S i mod n) exStar []) (List.nth (S (S i) mod n) exStar [])) /\
  off_boundary_list exStar [1; 1] /\
  wn_poly Rops [1; 1] (closed exStar) = true /\
  ~ (forall i, (i < n)%nat -> 0 < is_left Rops (List.nth i exStar []) (List.nth (S i mod n) exStar []) [1; 1]).
Proof. exact local_left_turns_insufficient. Qed.

(* ====================== round 2 (Proofs/RaySkew.v): 3-D rays - feet of the common perpendicular, SKEW / INTERSECT classification ====================== *)

Open Scope R_scope.

(* ---- C20, 3-D rays, non-parallel branch (Proofs/RaySkew.v).  Vocabulary (all over the model's own functions):
   ray_cross r1 r2 = d1 x d2;  ray_cc = |d1 x d2|^2;  ray_triple = (p2 - p1).(d1 x d2) (scalar triple product);
   line_dist = |ray_triple| / sqrt ray_cc (distance of the two lines);  foot1 / foot2 = the parameters the code computes,
   ((p2-p1) x d2).(d1 x d2) / |d1 x d2|^2 and ((p2-p1) x d1).(d1 x d2) / |d1 x d2|^2;
   conn r1 r2 s1 s2 = ray2(s2) - ray1(s1);  lines_meet r1 r2 = exists s1 s2, ray1(s1) = ray2(s2). *)

(* [G] (a) the returned parameters are the feet of the common perpendicular: the connecting vector of the two returned
   points is orthogonal to both directions, they are the ONLY such pair, and they minimise the distance between a point of
   line 1 and a point of line 2 (least squares) *)
Theorem C20_skew_parameters_are_common_perpendicular_feet :
  forall p1x p1y p1z p2x p2y p2z q1x q1y q1z q2x q2y q2z : R,
  let r1 := ([p1x; p1y; p1z], [p2x; p2y; p2z]) in
  let r2 := ([q1x; q1y; q1z], [q2x; q2y; q2z]) in
  ray_cc r1 r2 <> 0 ->
  (vdot Rops (conn r1 r2 (foot1 r1 r2) (foot2 r1 r2)) (ray_d Rops r1) = 0 /\
   vdot Rops (conn r1 r2 (foot1 r1 r2) (foot2 r1 r2)) (ray_d Rops r2) = 0) /\
  (forall s1 s2, vdot Rops (conn r1 r2 s1 s2) (ray_d Rops r1) = 0 -> vdot Rops (conn r1 r2 s1 s2) (ray_d Rops r2) = 0 ->
                 s1 = foot1 r1 r2 /\ s2 = foot2 r1 r2) /\
  (forall s1 s2, dist2 Rops (ray_eval Rops r1 (foot1 r1 r2)) (ray_eval Rops r2 (foot2 r1 r2)) <=
                 dist2 Rops (ray_eval Rops r1 s1) (ray_eval Rops r2 s2)) /\
  dist2 Rops (ray_eval Rops r1 (foot1 r1 r2)) (ray_eval Rops r2 (foot2 r1 r2)) = line_dist r1 r2 * line_dist r1 r2.
Proof.
  intros. split; [exact (feet_perpendicular _ _ _ _ _ _ _ _ _ _ _ _ H)|].
  split; [exact (feet_unique _ _ _ _ _ _ _ _ _ _ _ _ H)|].
  split; [exact (feet_least_squares _ _ _ _ _ _ _ _ _ _ _ _ H)|exact (feet_dist_sqr _ _ _ _ _ _ _ _ _ _ _ _ H)].
Qed.
Print Assumptions C20_skew_parameters_are_common_perpendicular_feet.

(* [G] (b) non-parallel 3-D rays (cross product not below the tolerance): intersect returns the feet; status = SKEW iff the
   distance of the lines |(p2-p1).(d1 x d2)| / |d1 x d2| is >= tol iff the evaluated points are >= tol apart;
   status = INTERSECT iff that distance is < tol; never COLINEAR *)
Theorem C20_skew_status_iff_line_distance :
  forall p1x p1y p1z p2x p2y p2z q1x q1y q1z q2x q2y q2z tol : R,
  let r1 := ([p1x; p1y; p1z], [p2x; p2y; p2z]) in
  let r2 := ([q1x; q1y; q1z], [q2x; q2y; q2z]) in
  0 < tol -> vector_is_zero Rops tol (ray_cross r1 r2) = false ->
  let '(t1, t2, st) := intersect3d Rops tol r1 r2 in
  t1 = foot1 r1 r2 /\ t2 = foot2 r1 r2 /\
  (st = SKEW <-> tol <= line_dist r1 r2) /\
  (st = INTERSECT <-> line_dist r1 r2 < tol) /\
  (st = SKEW <-> tol * tol <= dist2 Rops (ray_eval Rops r1 t1) (ray_eval Rops r2 t2)) /\
  (st = SKEW <-> tol * tol * ray_cc r1 r2 <= ray_triple r1 r2 * ray_triple r1 r2) /\
  st <> COLINEAR.
Proof. exact intersect3d_skew_iff. Qed.
Print Assumptions C20_skew_status_iff_line_distance.

(* [G] lines that do not meet, tolerance not above their distance: the answer is (feet, SKEW); such a tolerance exists *)
Theorem C20_nonmeeting_rays_skew :
  forall p1x p1y p1z p2x p2y p2z q1x q1y q1z q2x q2y q2z tol : R,
  let r1 := ([p1x; p1y; p1z], [p2x; p2y; p2z]) in
  let r2 := ([q1x; q1y; q1z], [q2x; q2y; q2z]) in
  0 < tol -> vector_is_zero Rops tol (ray_cross r1 r2) = false ->
  ~ lines_meet r1 r2 ->
  tol <= Rabs (ray_triple r1 r2) / sqrt (ray_cc r1 r2) ->
  intersect3d Rops tol r1 r2 = (foot1 r1 r2, foot2 r1 r2, SKEW).
Proof. exact intersect3d_nonmeeting_skew. Qed.
Print Assumptions C20_nonmeeting_rays_skew.

(* [G] conversely INTERSECT means: the evaluated points are within tol, the lines are closer than tol, and the returned
   points are the closest pair *)
Theorem C20_intersect_status_within_tol :
  forall p1x p1y p1z p2x p2y p2z q1x q1y q1z q2x q2y q2z tol t1 t2 : R,
  let r1 := ([p1x; p1y; p1z], [p2x; p2y; p2z]) in
  let r2 := ([q1x; q1y; q1z], [q2x; q2y; q2z]) in
  0 < tol -> vector_is_zero Rops tol (ray_cross r1 r2) = false ->
  intersect3d Rops tol r1 r2 = (t1, t2, INTERSECT) ->
  dist2 Rops (ray_eval Rops r1 t1) (ray_eval Rops r2 t2) < tol * tol /\
  line_dist r1 r2 < tol /\
  (forall s1 s2, dist2 Rops (ray_eval Rops r1 t1) (ray_eval Rops r2 t2) <=
                 dist2 Rops (ray_eval Rops r1 s1) (ray_eval Rops r2 s2)).
Proof. exact intersect3d_intersect_within_tol. Qed.
Print Assumptions C20_intersect_status_within_tol.

(* [G] exact classification of non-parallel lines: they meet iff the triple product is zero; then EVERY positive tolerance
   (that does not already call them colinear) answers INTERSECT with coinciding points; otherwise the distance is positive
   and every tolerance up to it answers SKEW *)
Theorem C20_exact_skew_classification :
  forall p1x p1y p1z p2x p2y p2z q1x q1y q1z q2x q2y q2z : R,
  let r1 := ([p1x; p1y; p1z], [p2x; p2y; p2z]) in
  let r2 := ([q1x; q1y; q1z], [q2x; q2y; q2z]) in
  ray_cc r1 r2 <> 0 ->
  (lines_meet r1 r2 <-> ray_triple r1 r2 = 0) /\
  (ray_triple r1 r2 = 0 -> forall tol, 0 < tol -> vector_is_zero Rops tol (ray_cross r1 r2) = false ->
     intersect3d Rops tol r1 r2 = (foot1 r1 r2, foot2 r1 r2, INTERSECT) /\
     ray_eval Rops r1 (foot1 r1 r2) = ray_eval Rops r2 (foot2 r1 r2)) /\
  (ray_triple r1 r2 <> 0 -> 0 < line_dist r1 r2 /\
     forall tol, 0 < tol <= line_dist r1 r2 -> vector_is_zero Rops tol (ray_cross r1 r2) = false ->
     intersect3d Rops tol r1 r2 = (foot1 r1 r2, foot2 r1 r2, SKEW)).
Proof. exact intersect3d_exact_classification. Qed.
Print Assumptions C20_exact_skew_classification.

(* [G] the literal tol = 0 call answers SKEW for ALL non-parallel (indeed all) 3-D ray pairs, also when the lines meet
   exactly: `point_distance < 0` is never true.  "tol = 0: INTERSECT iff the lines meet" is false for the code; the exact
   statement is C20_exact_skew_classification. *)
Theorem C20_tol0_never_intersect_refuted :
  forall p1x p1y p1z p2x p2y p2z q1x q1y q1z q2x q2y q2z : R,
  let r1 := ([p1x; p1y; p1z], [p2x; p2y; p2z]) in
  let r2 := ([q1x; q1y; q1z], [q2x; q2y; q2z]) in
  intersect3d Rops 0 r1 r2 = (foot1 r1 r2, foot2 r1 r2, SKEW).
Proof. exact intersect3d_tol0_always_skew. Qed.
Print Assumptions C20_tol0_never_intersect_refuted.

(* [G] 2-D calls (homogeneous embedding, triple product 0) never answer SKEW *)
Theorem C20_intersect_2d_never_skew : forall tol a1 b1 a2 b2 c1 d1 c2 d2 t1 t2 st, 0 < tol ->
  intersect Rops tol ([a1; b1], [a2; b2]) ([c1; d1], [c2; d2]) = Ok (t1, t2, st) -> st <> SKEW.
Proof. exact intersect_2d_never_skew. Qed.
Print Assumptions C20_intersect_2d_never_skew.

Example C20_example_skew_quantities :
  ray_triple ([0; 0; 0], [1; 0; 0]) ([0; 1; 1], [0; 2; 1]) = 1 /\
  ray_cc ([0; 0; 0], [1; 0; 0]) ([0; 1; 1], [0; 2; 1]) = 1 /\
  foot1 ([0; 0; 0], [1; 0; 0]) ([0; 1; 1], [0; 2; 1]) = 0 /\
  foot2 ([0; 0; 0], [1; 0; 0]) ([0; 1; 1], [0; 2; 1]) = -1.
Proof. exact ray_skew_example. Qed.

(* ====================== TRANSLATOR TIE (Proofs/GenTie*.v) ======================
   coq/Gen/*.v is the Gallina rendering of the Python source produced by harness/pytrans.py; every run of ./check regenerates it
   from /repo and compares it function by function with the committed text (evidence: translator_tie).  The theorems below say
   that the hand-written model (the subject of the theorems above) computes, for ALL inputs satisfying the stated
   well-formedness, exactly what the translated source computes.  This block stays LAST in the file: its imports shadow
   model names. *)
From Coq Require Import List QArith Reals Qreals Lia Lra Arith Bool ZArith.
From NV Require Import Scalar.Ops Model.Common Model.Basis Model.Knots Model.KnotIns Model.KnotRem Model.LinAlg Model.Degree
  Gen.Prelude Gen.LinalgInternal Gen.Linalg Gen.Knotvector Gen.Helpers
  Proofs.GenTieSums Proofs.GenTieLinAlg Proofs.GenTieSubst Proofs.GenTieLU Proofs.GenTieLUSolve Proofs.GenTieKnotRem Proofs.GenTieDegree
  Proofs.GenTieLib Proofs.GenTieKnots Proofs.GenTieSpan Proofs.GenTieBasis Proofs.GenTieBasisOne
  Proofs.GenTieDersOne Proofs.GenTieDersLib Proofs.GenTieDers Proofs.GenTieKnotIns.
Local Open Scope nat_scope.
From NV Require Import Gen.PreludeExt Gen.LinalgMat Proofs.GenTieMat Proofs.GenTieMatSolve Proofs.GenTieBinom.
From NV Require Import Gen.PreludeExt Gen.HelpersB Proofs.GenTieKnotRemove.
From NV Require Import Gen.HelpersB Proofs.GenTieElev.

From NV Require Import Model.Geom2D Model.Voxel Gen.PreludeExt Gen.LinalgGeom Gen.Voxelize Proofs.GenTieGeom Proofs.GenTieVoxel
  Proofs.GenTieHull.

(* [G] linalg.is_left; wf: the three points have two coordinates (IndexError otherwise) *)
Theorem C20_gen_is_left_R : forall p0 p1 p2 : list R,
  2 <= length p0 -> 2 <= length p1 -> 2 <= length p2 ->
  LinalgGeom.is_left Rops p0 p1 p2 = GOk (Geom2D.is_left Rops p0 p1 p2).
Proof. exact is_left_tie_R. Qed.
Print Assumptions C20_gen_is_left_R.
Theorem C20_gen_is_left_Q : forall p0 p1 p2 : list Q,
  2 <= length p0 -> 2 <= length p1 -> 2 <= length p2 ->
  LinalgGeom.is_left Qops p0 p1 p2 = GOk (Geom2D.is_left Qops p0 p1 p2).
Proof. exact is_left_tie_Q. Qed.
Print Assumptions C20_gen_is_left_Q.

(* [G] linalg.wn_poly; wf: the point and every vertex have two coordinates; any number of vertices (also none) *)
Theorem C20_gen_wn_poly_R : forall (pt : list R) (vs : list (list R)),
  2 <= length pt -> (forall v, In v vs -> 2 <= length v) ->
  LinalgGeom.wn_poly Rops pt vs = GOk (Geom2D.wn_poly Rops pt vs).
Proof. exact wn_poly_tie_R. Qed.
Print Assumptions C20_gen_wn_poly_R.
Theorem C20_gen_wn_poly_Q : forall (pt : list Q) (vs : list (list Q)),
  2 <= length pt -> (forall v, In v vs -> 2 <= length v) ->
  LinalgGeom.wn_poly Qops pt vs = GOk (Geom2D.wn_poly Qops pt vs).
Proof. exact wn_poly_tie_Q. Qed.
Print Assumptions C20_gen_wn_poly_Q.

(* [G] _voxelize.is_point_inside_voxel (tol = the `tol` keyword, default 10e-8 = is_point_inside_voxel__default_tol);
   wf: the voxel is two corners with three coordinates, no point is the empty list (Python: ValueError of vector_dot) *)
Theorem C20_gen_is_point_inside_voxel_R : forall (tol : R) (bbox pts : list (list R)),
  wf_voxel bbox -> (forall pt, In pt pts -> pt <> []) ->
  Voxelize.is_point_inside_voxel Rops bbox pts tol = GOk (Z.of_nat (Voxel.is_point_inside_voxel Rops tol bbox pts)).
Proof. exact is_point_inside_voxel_tie_R. Qed.
Print Assumptions C20_gen_is_point_inside_voxel_R.
Theorem C20_gen_is_point_inside_voxel_Q : forall (tol : Q) (bbox pts : list (list Q)),
  wf_voxel bbox -> (forall pt, In pt pts -> pt <> []) ->
  Voxelize.is_point_inside_voxel Qops bbox pts tol = GOk (Z.of_nat (Voxel.is_point_inside_voxel Qops tol bbox pts)).
Proof. exact is_point_inside_voxel_tie_Q. Qed.
Print Assumptions C20_gen_is_point_inside_voxel_Q.

(* [G] _voxelize.find_inouts_st; wf: as above for every voxel of the grid *)
Theorem C20_gen_find_inouts_st_R : forall (tol : R) (grid : list (list (list R))) (pts : list (list R)),
  (forall bb, In bb grid -> wf_voxel bb) -> (forall pt, In pt pts -> pt <> []) ->
  Voxelize.find_inouts_st Rops grid pts tol = GOk (map Z.of_nat (Voxel.find_inouts_st Rops tol grid pts)).
Proof. exact find_inouts_st_tie_R. Qed.
Print Assumptions C20_gen_find_inouts_st_R.
Theorem C20_gen_find_inouts_st_Q : forall (tol : Q) (grid : list (list (list Q))) (pts : list (list Q)),
  (forall bb, In bb grid -> wf_voxel bb) -> (forall pt, In pt pts -> pt <> []) ->
  Voxelize.find_inouts_st Qops grid pts tol = GOk (map Z.of_nat (Voxel.find_inouts_st Qops tol grid pts)).
Proof. exact find_inouts_st_tie_Q. Qed.
Print Assumptions C20_gen_find_inouts_st_Q.

(* [G] linalg.convex_hull (sorted() = the insertion sort py_sorted_pts of Gen/PreludeExt.v, the nested functions cmp / turn /
   keep_left are local functions of the generated text); wf: every point has two coordinates.  The source decides with
   ==, < and a three-valued cmp, the model with < only: equal under order_laws (proved for Rops and Qops) *)
Theorem C20_gen_convex_hull_R : forall pts : list (list R),
  (forall p, In p pts -> 2 <= length p) -> LinalgGeom.convex_hull Rops pts = GOk (Geom2D.convex_hull Rops pts).
Proof. exact convex_hull_tie_R. Qed.
Print Assumptions C20_gen_convex_hull_R.
Theorem C20_gen_convex_hull_Q : forall pts : list (list Q),
  (forall p, In p pts -> 2 <= length p) -> LinalgGeom.convex_hull Qops pts = GOk (Geom2D.convex_hull Qops pts).
Proof. exact convex_hull_tie_Q. Qed.
Print Assumptions C20_gen_convex_hull_Q.

Example C20_gen_nonvacuous :
  LinalgGeom.convex_hull Qops [[1; 1]; [0; 0]; [2; 0]; [1; 1#2]; [2; 2]; [0; 2]; [1; 0]; [2; 0]]%Q = GOk [[0; 0]; [2; 0]; [2; 2]; [0; 2]]%Q /\
  LinalgGeom.wn_poly Qops [1#2; 1#2]%Q [[0; 0]; [1; 0]; [1; 1]; [0; 1]; [0; 0]]%Q = GOk true
  /\ LinalgGeom.wn_poly Qops [3#2; 1#2]%Q [[0; 0]; [1; 0]; [1; 1]; [0; 1]; [0; 0]]%Q = GOk false
  /\ Voxelize.find_inouts_st Qops [[[0; 0; 0]; [1; 1; 1]]; [[1; 0; 0]; [2; 1; 1]]]%Q [[3#2; 1#2; 1#2]]%Q (1#100)%Q = GOk [0%Z; 1%Z].
Proof. repeat split; vm_compute; reflexivity. Qed.

From NV Require Import Model.Hull Gen.Utilities Proofs.GenTieBBox.
From NV Require Import Model.Fit Gen.Fitting Proofs.GenTieFit.
From NV Require Import Model.Derivs Proofs.GenTieDerivCpts.
From NV Require Import Proofs.GenTieArr4 Proofs.GenTieDerivSurf.
From NV Require Import Model.KnotRefine Proofs.GenTieRefine.
From NV Require Import Model.Eval Gen.Evaluators Proofs.GenTieEvalLib Proofs.GenTieEvalCurve Proofs.GenTieEvalSurf Proofs.GenTieEvalVol.
From NV Require Import Model.Derivs Gen.HelpersC Proofs.GenTieBinom Proofs.GenTieBasisAll Proofs.GenTieEvalDerivCurve Proofs.GenTieEvalDerivCurve2.
From NV Require Import Proofs.GenTieEvalDerivSurf Proofs.GenTieEvalDerivSurfRat Proofs.GenTieEvalDerivSurf2.
From NV Require Import Model.Weights Gen.Compatibility Proofs.GenTieCompat.
From NV Require Import Model.Layout Gen.Compatibility Proofs.GenTieFlip.

From NV Require Import Model.Layout Model.Voxel Model.Hull Gen.OperationsInternal Proofs.GenTieFindCtrlpts.

(* [G] _operations.find_ctrlpts_curve <-> Voxel.find_ctrlpts_curve (C20); wf: degree < len(ctrlpts) <= len(knotvector) *)
Theorem C20_gen_find_ctrlpts_curve_R : forall (p : nat) (U : list R) (P : list (list R)) (t : R),
  p < length P -> length P <= length U ->
  OperationsInternal.find_ctrlpts_curve Rops t (mk_curveobj (Z.of_nat p) U P) (OperationsInternal.find_ctrlpts_curve__default_find_span_func Rops)
  = GOk (Voxel.find_ctrlpts_curve Rops p U P t).
Proof. exact find_ctrlpts_curve_tie_R. Qed.
Print Assumptions C20_gen_find_ctrlpts_curve_R.
Theorem C20_gen_find_ctrlpts_curve_Q : forall (p : nat) (U : list Q) (P : list (list Q)) (t : Q),
  p < length P -> length P <= length U ->
  OperationsInternal.find_ctrlpts_curve Qops t (mk_curveobj (Z.of_nat p) U P) (OperationsInternal.find_ctrlpts_curve__default_find_span_func Qops)
  = GOk (Voxel.find_ctrlpts_curve Qops p U P t).
Proof. exact find_ctrlpts_curve_tie_Q. Qed.
Print Assumptions C20_gen_find_ctrlpts_curve_Q.

(* [G] _operations.find_ctrlpts_surface <-> Voxel.find_ctrlpts_surface (C20) *)
Theorem C20_gen_find_ctrlpts_surface_R : forall (pu pv : nat) (Uu Uv : list R) (su sv : nat) (V : list (list (list R))) (P : list (list R)) (tu tv : R),
  is_view2d V su sv P -> pu < su -> pv < sv -> su <= length Uu -> sv <= length Uv ->
  OperationsInternal.find_ctrlpts_surface Rops tu tv (mk_surfobj (Z.of_nat pu) (Z.of_nat pv) Uu Uv (Z.of_nat su) (Z.of_nat sv) V)
    (OperationsInternal.find_ctrlpts_surface__default_find_span_func Rops)
  = GOk (Voxel.find_ctrlpts_surface Rops pu pv Uu Uv su sv P tu tv).
Proof. exact find_ctrlpts_surface_tie_R. Qed.
Print Assumptions C20_gen_find_ctrlpts_surface_R.
Theorem C20_gen_find_ctrlpts_surface_Q : forall (pu pv : nat) (Uu Uv : list Q) (su sv : nat) (V : list (list (list Q))) (P : list (list Q)) (tu tv : Q),
  is_view2d V su sv P -> pu < su -> pv < sv -> su <= length Uu -> sv <= length Uv ->
  OperationsInternal.find_ctrlpts_surface Qops tu tv (mk_surfobj (Z.of_nat pu) (Z.of_nat pv) Uu Uv (Z.of_nat su) (Z.of_nat sv) V)
    (OperationsInternal.find_ctrlpts_surface__default_find_span_func Qops)
  = GOk (Voxel.find_ctrlpts_surface Qops pu pv Uu Uv su sv P tu tv).
Proof. exact find_ctrlpts_surface_tie_Q. Qed.
Print Assumptions C20_gen_find_ctrlpts_surface_Q.
Example C20_gen_find_ctrlpts_nonvacuous :
  OperationsInternal.find_ctrlpts_curve Qops (3 # 10)%Q (mk_curveobj 3 exU exCP) (OperationsInternal.find_ctrlpts_curve__default_find_span_func Qops)
    = GOk [[1; 2]; [2; 3]; [3; 3]; [4; 2]]%Q
  /\ Voxel.find_ctrlpts_curve Qops 3 exU exCP (3 # 10)%Q = [[1; 2]; [2; 3]; [3; 3]; [4; 2]]%Q.
Proof. split; vm_compute; reflexivity. Qed.

From NV Require Import Model.Layout Model.Hull Gen.OperationsInternal Proofs.GenTieFindCtrlpts.
From NV Require Import Model.InsertKnot Gen.UtilitiesB Proofs.GenTieCheckParams.
From NV Require Import Model.Fit Gen.PreludeExt2 Gen.Fitting Gen.FittingB Proofs.GenTieFit Proofs.GenTieFitB.
From NV Require Import Proofs.GenTieFitSurf.
From NV Require Import Gen.FittingC Proofs.GenTieApprox.
From NV Require Import Gen.PreludeExt2 Gen.LinalgB Proofs.GenTieLinAlgB.
From NV Require Import Model.Geom2D Proofs.GenTieLinAlgSqrt.

From NV Require Import Model.Geom2D Proofs.GenTieLinAlgSqrt.

(* [G] linalg.point_distance: ALL inputs; the squared distance is Geom2D.dist2 (C20; = KnotRem.dist2, Hull.sqdist b a) *)
Theorem C20_gen_point_distance_R : forall (a b : list R) (py_sqrt : R -> gres R),
  LinalgB.point_distance Rops a b py_sqrt =
  if negb (Nat.eqb (length a) (length b)) then GErr ValueError
  else if LinAlg.isnil a then GErr ValueError else py_sqrt (Geom2D.dist2 Rops a b).
Proof. exact point_distance_tie_R. Qed.
Print Assumptions C20_gen_point_distance_R.
Theorem C20_gen_point_distance_Q : forall (a b : list Q) (py_sqrt : Q -> gres Q),
  LinalgB.point_distance Qops a b py_sqrt =
  if negb (Nat.eqb (length a) (length b)) then GErr ValueError
  else if LinAlg.isnil a then GErr ValueError else py_sqrt (Geom2D.dist2 Qops a b).
Proof. exact point_distance_tie_Q. Qed.
Print Assumptions C20_gen_point_distance_Q.

(* [G] at Rops with the real square root *)
Theorem C20_gen_point_distance_R_sqrt : forall (a b : list R), length a = length b -> a <> [] ->
  LinalgB.point_distance Rops a b (fun x => GOk (sqrt x)) = GOk (sqrt (Geom2D.dist2 Rops a b)).
Proof. exact point_distance_tie_R_sqrt. Qed.
Print Assumptions C20_gen_point_distance_R_sqrt.



From NV Require Import Model.Voxel Gen.LinalgC Gen.VoxelizeB Proofs.GenTieVoxelGrid.

(* [G] linalg.frange: ALL inputs, every bound *)
Theorem C20_gen_frange_R : forall (fuel : nat) (start stop step : R),
  LinalgC.frange Rops start stop step (Z.of_nat fuel) =
  res_to_gres (fun x => x) ValueError OutOfFuel (Geom2D.frange Rops fuel start stop step).
Proof. exact frange_tie_R. Qed.
Print Assumptions C20_gen_frange_R.
Theorem C20_gen_frange_Q : forall (fuel : nat) (start stop step : Q),
  LinalgC.frange Qops start stop step (Z.of_nat fuel) =
  res_to_gres (fun x => x) ValueError OutOfFuel (Geom2D.frange Qops fuel start stop step).
Proof. exact frange_tie_Q. Qed.
Print Assumptions C20_gen_frange_Q.

(* [G] _voxelize.generate_voxel_grid; wf: a box of two corners with >= 3 coordinates (the three sizes are given as a list); GeomdlException (a size <= 1) <-> Rejected *)
Theorem C20_gen_generate_voxel_grid_R : forall (fuel : nat) (bbox : list (list R)) (s0 s1 s2 : nat) (use_cubes : bool),
  2 <= length bbox -> 3 <= length (nth 0 bbox []) -> 3 <= length (nth 1 bbox []) ->
  VoxelizeB.generate_voxel_grid Rops bbox [Z.of_nat s0; Z.of_nat s1; Z.of_nat s2] use_cubes (Z.of_nat fuel) =
  res_to_gres (fun x => x) GeomdlError OutOfFuel (Voxel.generate_voxel_grid Rops fuel bbox [s0; s1; s2] use_cubes).
Proof. exact generate_voxel_grid_tie_R. Qed.
Print Assumptions C20_gen_generate_voxel_grid_R.
Theorem C20_gen_generate_voxel_grid_Q : forall (fuel : nat) (bbox : list (list Q)) (s0 s1 s2 : nat) (use_cubes : bool),
  2 <= length bbox -> 3 <= length (nth 0 bbox []) -> 3 <= length (nth 1 bbox []) ->
  VoxelizeB.generate_voxel_grid Qops bbox [Z.of_nat s0; Z.of_nat s1; Z.of_nat s2] use_cubes (Z.of_nat fuel) =
  res_to_gres (fun x => x) GeomdlError OutOfFuel (Voxel.generate_voxel_grid Qops fuel bbox [s0; s1; s2] use_cubes).
Proof. exact generate_voxel_grid_tie_Q. Qed.
Print Assumptions C20_gen_generate_voxel_grid_Q.
Example C20_gen_frange_nonvacuous :
  LinalgC.frange Qops 0%Q 1%Q (3 # 10)%Q 10 = GOk [0; 3 # 10; 3 # 5; 9 # 10; 1]%Q
  /\ Geom2D.frange Qops 10 0%Q 1%Q (3 # 10)%Q = Ok [0; 3 # 10; 3 # 5; 9 # 10; 1]%Q
  /\ LinalgC.frange Qops 0%Q 1%Q (1 # 4)%Q 3 = GErr OutOfFuel /\ Geom2D.frange Qops 3 0%Q 1%Q (1 # 4)%Q = Crash.
Proof. split; [|split; [|split]]; vm_compute; reflexivity. Qed.
