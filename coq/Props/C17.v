(* C17 - results do not depend on configuration choices.
   "The same geometry and query give the same answer up to rounding whichever knot-span search function or evaluator
    variant is selected, whether knot vectors are normalised to [0,1] or kept in their original range (parameters mapped
    affinely), however many worker processes are used for tessellation or voxelisation, and whatever cache size is
    configured through the environment.  Selecting any of these options never makes a previously valid call fail."
   This file only states the theorems; proofs are in Proofs/ConfigR.v.  The model (Model/Config.v) describes the REPAIRED
   code: end test of find_span_binsearch (/repo b25d1c5), int() around the environment value (/repo ece600e),
   sample-size setters (/repo 2a3e060); all three defects were found by this check on the pinned tree. *)
From Coq Require Import List Reals Lra Lia Arith Bool QArith Qreals.
From Coq Require String.
From NV Require Import Scalar.Ops Model.Common Model.Basis Model.Knots Model.Eval Model.Config Proofs.BasisR Proofs.KnotsR Proofs.ConfigR Transfer.BasisT Transfer.ConfigT.
From NV Require Import Model.Degree Model.Derivs Proofs.EvalR Proofs.DerivAnalytic Proofs.DerivCptsSpec Proofs.DerivsAgreeGeneral Proofs.DerivsAgreeGeneralSurf.
Import ListNotations.
Open Scope R_scope.

(* ---------------- knot vectors normalised or kept in an affine range (normalize_kv) ---------------- *)
(* [G] every increasing affine change  k |-> a k + b  of the knot range, with the parameter mapped the same way, finds the
   same span, gives the same basis functions (all degrees, all knot vectors) and the same curve / surface / volume points *)
Theorem C17_affine_invariance_basis : forall (a b : R) (U : list R) (p n span : nat) (u : R), 0 < a ->
  ((n <= length U)%nat -> find_span_linear Rops p (aff_kv Rops a b U) n (a * u + b) = find_span_linear Rops p U n u) /\
  ((span + p < length U)%nat -> basis_function Rops p (aff_kv Rops a b U) span (a * u + b) = basis_function Rops p U span u).
Proof. intros a b U p n span u Ha. split; [apply span_aff|apply bf_aff]; exact Ha. Qed.
Print Assumptions C17_affine_invariance_basis.

Theorem C17_affine_invariance_curve : forall (a b : R) (dim p : nat) (U : list R) (P : list (list R)) (u : R), 0 < a ->
  (p < length P)%nat -> (length P + p <= length U)%nat ->
  curve_point Rops dim p (aff_kv Rops a b U) P (a * u + b) = curve_point Rops dim p U P u.
Proof. intros a b dim p U P u Ha. exact (curve_point_aff a b Ha dim p U P u). Qed.
Print Assumptions C17_affine_invariance_curve.

(* [G] the same about the EXECUTABLE rational instance, by parametricity (Qeq component-wise, operations followed by Qred) *)
Theorem C17_affine_invariance_curve_Q : forall dim p (U : list Q) (P : list (list Q)) (u a b : Q),
  (0 < a)%Q -> (p < length P)%nat -> (length P + p <= length U)%nat ->
  Forall2 Qeq (curve_point Qops dim p (aff_kv Qops a b U) P (oadd Qops (omul Qops a u) b)) (curve_point Qops dim p U P u).
Proof. exact curve_point_aff_Q. Qed.
Print Assumptions C17_affine_invariance_curve_Q.

Theorem C17_affine_invariance_surface : forall dim pu pv Uu Uv su sv (P : list (list R)) u v a b a' b', 0 < a -> 0 < a' ->
  (pu < su)%nat -> (su + pu <= length Uu)%nat -> (pv < sv)%nat -> (sv + pv <= length Uv)%nat ->
  surface_point Rops dim pu pv (aff_kv Rops a b Uu) (aff_kv Rops a' b' Uv) su sv P (a * u + b) (a' * v + b') =
  surface_point Rops dim pu pv Uu Uv su sv P u v.
Proof. exact surface_point_aff. Qed.
Print Assumptions C17_affine_invariance_surface.

Theorem C17_affine_invariance_volume : forall dim pu pv pw Uu Uv Uw su sv sw (P : list (list R)) u v w a b a' b' a'' b'',
  0 < a -> 0 < a' -> 0 < a'' ->
  (pu < su)%nat -> (su + pu <= length Uu)%nat -> (pv < sv)%nat -> (sv + pv <= length Uv)%nat -> (pw < sw)%nat -> (sw + pw <= length Uw)%nat ->
  volume_point Rops dim pu pv pw (aff_kv Rops a b Uu) (aff_kv Rops a' b' Uv) (aff_kv Rops a'' b'' Uw) su sv sw P (a * u + b) (a' * v + b') (a'' * w + b'') =
  volume_point Rops dim pu pv pw Uu Uv Uw su sv sw P u v w.
Proof. exact volume_point_aff. Qed.
Print Assumptions C17_affine_invariance_volume.

(* [G] knotvector.normalize is such a change of range (a = 1/(last - first) > 0), so evaluating the normalised knot vector at
   (u - first)/(last - first) is evaluating the original one at u *)
Theorem C17_normalize_kv_independent : forall (f : R) (U : list R) (dim p : nat) (P : list (list R)) (u : R),
  f < last (f :: U) f -> (p < length P)%nat -> (length P + p <= length (f :: U))%nat ->
  exists Un, normalize Rops (f :: U) = Ok Un /\
    curve_point Rops dim p Un P ((u - f) / (last (f :: U) f - f)) = curve_point Rops dim p (f :: U) P u.
Proof.
  intros f U dim p P u Hl Hn HL. destruct (normalize_is_affine f U Hl) as [E [Ha Hk]]. cbv zeta in *.
  eexists. split; [exact E|]. rewrite Hk. apply curve_point_aff; assumption.
Qed.
Print Assumptions C17_normalize_kv_independent.

(* ---------------- span search function ---------------- *)
(* [G] binary search (repaired end test) returns the span of the linear search for EVERY parameter u >= U_p, inside the
   domain, at its end or beyond it, and the fuel  length U + 2  always suffices (the result is Some _) *)
Theorem C17_binsearch_eq_linear : forall (U : list R) (u : R) (p num : nat),
  sortedR U -> (p < num)%nat -> (num < length U)%nat -> knR U p <= u ->
  find_span_binsearch_fix Rops p U num u = Some (find_span_linear Rops p U num u).
Proof. intros U u p num Hs. exact (binsearch_fix_eq_linear U u Hs p num). Qed.
Print Assumptions C17_binsearch_eq_linear.

(* [G] hence the evaluated point does not depend on find_span_func; and both equal the point of Model.Eval *)
Theorem C17_eval_independent_of_span_func : forall dim p U (P : list (list R)) u,
  sortedR U -> (p < length P)%nat -> (length P < length U)%nat -> knR U p <= u ->
  curve_point_sp Rops (find_span_binsearch_fix Rops) dim p U P u = curve_point_sp Rops (span_linear_opt Rops) dim p U P u /\
  curve_point_sp Rops (span_linear_opt Rops) dim p U P u = Ok (curve_point Rops dim p U P u).
Proof. exact curve_point_sp_independent. Qed.
Print Assumptions C17_eval_independent_of_span_func.

Theorem C17_eval_independent_of_span_func_surface : forall dim pu pv Uu Uv su sv (P : list (list R)) u v,
  sortedR Uu -> sortedR Uv -> (pu < su)%nat -> (su < length Uu)%nat -> (pv < sv)%nat -> (sv < length Uv)%nat -> knR Uu pu <= u -> knR Uv pv <= v ->
  surface_point_sp Rops (find_span_binsearch_fix Rops) dim pu pv Uu Uv su sv P u v = surface_point_sp Rops (span_linear_opt Rops) dim pu pv Uu Uv su sv P u v /\
  surface_point_sp Rops (span_linear_opt Rops) dim pu pv Uu Uv su sv P u v = Ok (surface_point Rops dim pu pv Uu Uv su sv P u v).
Proof. exact surface_point_sp_independent. Qed.
Print Assumptions C17_eval_independent_of_span_func_surface.

(* the code as pinned at cdaf30b (tolerance shortcut |U_n - u| <= 10e-6 => last span; repaired by /repo b25d1c5) is refuted:
   an interior knot inside the tolerance *)
Theorem C17_binsearch_tolerance_refuted : exists (U : list R) (u : R),
  let tol := 1 / 100000 in
  sortedR U /\ knR U 1 <= u <= knR U 3 /\ find_span_binsearch_pinned Rops tol 1 U 3 u <> Some (find_span_linear Rops 1 U 3 u).
Proof. exact binsearch_tolerance_refuted. Qed.
Print Assumptions C17_binsearch_tolerance_refuted.

(* ---------------- evaluator variants ---------------- *)
(* point evaluation: CurveEvaluator2 / SurfaceEvaluator2 inherit `evaluate` unchanged, so the model has ONE point function and
   the statement is an identity.  Their derivative algorithms differ (A3.2 vs A3.4, A3.6 vs A3.8): agreement of those is NOT
   proved here (partial); it is checked by the cross-configuration oracle of the check for orders 0 .. degree+1. *)
Definition C17_evaluator_variants_agree_on_derivatives_full
    (ders_default ders_alternative : nat -> nat -> list R -> list (list R) -> R -> nat -> list (list R)) : Prop :=
  (* to be instantiated with the models of CurveEvaluator.derivatives (A3.2) and CurveEvaluator2.derivatives (A3.4),
     Model/Derivs.v: curve_derivs and curve_derivs2 (property C02) *)
  forall dim p U P u order, sortedR U -> (p < length P)%nat -> length U = (length P + p + 1)%nat ->
    Forall (fun q => length q = dim) P -> knR U p <= u <= knR U (length P) ->
    ders_default dim p U P u order = ders_alternative dim p U P u order.

(* ---------------- worker processes ---------------- *)
(* [G] mapping chunk by chunk and concatenating in order is the plain map, for EVERY chunking; Pool.map's own chunking
   (chunksize = ceil(len / (4 procs))) is one; hence find_inouts does not depend on num_procs.  Partial with respect to the
   property: real process scheduling is outside the model. *)
Theorem C17_chunked_map_eq_map : forall (A B : Type) (f : A -> B) (chunks : list (list A)),
  chunked_map f chunks = map f (concat chunks).
Proof. intros. apply chunked_map_eq_map. Qed.
Print Assumptions C17_chunked_map_eq_map.

Theorem C17_pool_map_eq_map_partial : forall (A B : Type) (procs : nat) (f : A -> B) (l : list A), pool_map procs f l = map f l.
Proof. intros. apply pool_map_eq_map. Qed.
Print Assumptions C17_pool_map_eq_map_partial.

Theorem C17_voxel_fill_independent_of_num_procs_partial : forall procs procs' tol grid pts,
  find_inouts Rops procs tol grid pts = find_inouts Rops procs' tol grid pts.
Proof. exact find_inouts_procs_independent. Qed.
Print Assumptions C17_voxel_fill_independent_of_num_procs_partial.

(* ---------------- cache size ---------------- *)
(* [G] a memo table with least-recently-used eviction returns f x for every capacity (None = unbounded, 0 = off, k) and
   every call sequence *)
Theorem C17_memo_transparent : forall (A B : Type) (eqb : A -> A -> bool) (f : A -> B),
  (forall x y, eqb x y = true -> x = y) -> forall cap calls, memo_run eqb cap f calls = map f calls.
Proof. intros A B eqb f H cap calls. apply memo_transparent. exact H. Qed.
Print Assumptions C17_memo_transparent.

(* [F] the property's four values of GEOMDL_CACHE_SIZE are accepted at import (repaired parse) and the memoised integer
   functions behave identically under each *)
Theorem C17_cache_size_env_accepted : forall env, In env [None; Some env1; Some env16; Some env1024] -> forall default,
  exists cap, cache_size_env env default = Ok cap /\
    (forall calls, memo_run pair_eqb cap binomial calls = map binomial calls) /\
    (forall calls, memo_run Nat.eqb cap identity_matrix calls = map identity_matrix calls).
Proof. exact cache_size_env_accepted. Qed.
Print Assumptions C17_cache_size_env_accepted.

(* ---------------- sample size ---------------- *)
(* [G] (repaired setter) the requested sample size is the one that is used, whatever the knot range: value -> delta -> value *)
Theorem C17_sample_size_round_trip : forall value fuel, (2 <= value)%nat -> (value <= fuel)%nat ->
  exists d, delta_of_sample_size Rops value = Ok d /\ sample_size_of_delta Rops fuel d = value.
Proof. exact sample_size_round_trip. Qed.
Print Assumptions C17_sample_size_round_trip.

(* ---- non-vacuity ---- *)
Example C17_hypotheses_satisfiable :
  let U := [0;0;0;1/2;1;1;1] in
  sortedR U /\ (2 < 4)%nat /\ (4 < length U)%nat /\ knR U 2 <= 3/4 /\ 0 < 3 /\
  find_span_binsearch_fix Rops 2 U 4 (3/4) = Some (find_span_linear Rops 2 U 4 (3/4)) /\
  0 < last U 0.
Proof.
  cbv zeta.
  assert (Hs : sortedR [0;0;0;1/2;1;1;1]).
  { intros i j [Hij Hj]. cbn in Hj. unfold kn. cbn [o0 Rops].
    do 7 (destruct i as [|i]; [do 7 (destruct j as [|j]; [try lia; cbn; lra|]); lia|]). lia. }
  split; [exact Hs|]. split; [lia|]. split; [cbn; lia|]. split; [unfold kn; cbn; lra|]. split; [lra|]. split.
  - apply (binsearch_fix_eq_linear _ _ Hs); [lia|cbn; lia|unfold kn; cbn; lra].
  - cbn. lra.
Qed.
Example C17_memo_example :
  memo_run pair_eqb (Some 1%nat) binomial [(4,2); (5,2); (4,2); (4,2)]%nat = [6; 10; 6; 6]%nat /\
  pool_map 4 (fun x => x * x)%nat [1;2;3;4;5;6;7;8;9;10;11;12;13;14;15;16;17]%nat = map (fun x => x * x)%nat [1;2;3;4;5;6;7;8;9;10;11;12;13;14;15;16;17]%nat /\
  chunk 2 [1;2;3;4;5]%nat = [[1;2];[3;4];[5]]%nat /\ cache_size_env (Some env16) 128 = Ok (Some 16%nat).
Proof. repeat split; vm_compute; reflexivity. Qed.

(* ====================== evaluator variants agree for all degrees (round 2, Proofs/DerivsAgreeGeneral*.v) ====================== *)
(* ===================== for Props/C17.v ===================== *)
(* [G] the Definition C17_evaluator_variants_agree_on_derivatives_full, instantiated as its comment says *)
Theorem C17_evaluator_variants_agree_on_derivatives :
  C17_evaluator_variants_agree_on_derivatives_full (curve_derivs Rops) (curve_derivs2 Rops).
Proof. exact curve_evaluator_variants_agree_full. Qed.
Print Assumptions C17_evaluator_variants_agree_on_derivatives.

(* [G] stronger: every real u *)
Theorem C17_curve_evaluator_variants_agree : forall (U : list R) (P : list (list R)) (p dim : nat),
  sortedR U -> wf_net P dim -> (p < length P)%nat -> length U = (length P + p + 1)%nat ->
  forall (u : R) (order : nat),
  curve_derivs2 Rops dim p U P u order = curve_derivs Rops dim p U P u order.
Proof. exact curve_derivs2_eq_curve_derivs. Qed.
Print Assumptions C17_curve_evaluator_variants_agree.

Theorem C17_curve_object_evaluator_variants_agree : forall (U : list R) (P : list (list R)) (p dim : nat),
  sortedR U -> wf_net P dim -> (p < length P)%nat -> length U = (length P + p + 1)%nat ->
  forall (normalize : bool) (u : R) (order : nat),
  Curve_derivatives Rops normalize false true dim p U P u order = Curve_derivatives Rops normalize false false dim p U P u order.
Proof. exact Curve_derivatives_alg2_eq. Qed.
Print Assumptions C17_curve_object_evaluator_variants_agree.

Theorem C17_surface_evaluator_variants_agree : forall (Uu Uv : list R) (P : list (list R)) (pu pv su sv dim : nat),
  sortedR Uu -> sortedR Uv -> wf_net P dim -> length P = (su * sv)%nat -> (pu < su)%nat -> (pv < sv)%nat ->
  length Uu = (su + pu + 1)%nat -> length Uv = (sv + pv + 1)%nat ->
  forall (u v : R) (order k l : nat), (k + l <= order)%nat ->
  get3 (surface_derivs2 Rops dim pu pv Uu Uv su sv P u v order) k l
  = get3 (surface_derivs Rops dim pu pv Uu Uv su sv P u v order) k l.
Proof. exact surface_derivs2_eq_surface_derivs. Qed.
Print Assumptions C17_surface_evaluator_variants_agree.

Theorem C17_tangent_normal_independent_of_evaluator : forall (Uu Uv : list R) (P : list (list R)) (pu pv su sv dim : nat),
  sortedR Uu -> sortedR Uv -> wf_net P dim -> length P = (su * sv)%nat -> (pu < su)%nat -> (pv < sv)%nat ->
  length Uu = (su + pu + 1)%nat -> length Uv = (sv + pv + 1)%nat ->
  forall (u v : R) (normalize : bool),
  tangent_surface Rops normalize false true dim pu pv Uu Uv su sv P u v
    = tangent_surface Rops normalize false false dim pu pv Uu Uv su sv P u v /\
  normal_surface Rops normalize false true dim pu pv Uu Uv su sv P u v
    = normal_surface Rops normalize false false dim pu pv Uu Uv su sv P u v.
Proof.
  intros Uu Uv P pu pv su sv dim H1 H2 H3 H4 H5 H6 H7 H8 u v normalize. split.
  - exact (tangent_surface_alg2_eq Uu Uv P pu pv su sv dim H1 H2 H3 H4 H5 H6 H7 H8 u v normalize).
  - exact (normal_surface_alg2_eq Uu Uv P pu pv su sv dim H1 H2 H3 H4 H5 H6 H7 H8 u v normalize).
Qed.
Print Assumptions C17_tangent_normal_independent_of_evaluator.

(* ====================== TRANSLATOR TIE (Proofs/GenTie*.v) ======================
   coq/Gen/*.v is the Gallina rendering of the Python source produced by harness/pytrans.py; every run of ./check regenerates it
   from /repo and compares it function by function with the committed text (evidence: translator_tie).  The theorems below say
   that the hand-written model (the subject of the theorems above) computes, for ALL inputs satisfying the stated
   well-formedness, exactly what the translated source computes.  This block stays LAST in the file: its imports shadow
   model names. *)
From Coq Require Import List QArith Reals Qreals Lia Lra Arith Bool ZArith.
From NV Require Import Scalar.Ops Model.Common Model.Basis Model.Knots Model.KnotIns Model.KnotRem Model.LinAlg Model.Degree
  Gen.Prelude Gen.LinalgInternal Gen.Linalg Gen.Knotvector Gen.Helpers
  Proofs.GenTieSums Proofs.GenTieLinAlg Proofs.GenTieSubst Proofs.GenTieLU Proofs.GenTieLUSolve Proofs.GenTieKnotRem Proofs.GenTieDegree
  Proofs.GenTieLib Proofs.GenTieKnots Proofs.GenTieSpan Proofs.GenTieBasis Proofs.GenTieBasisOne
  Proofs.GenTieDersOne Proofs.GenTieDersLib Proofs.GenTieDers Proofs.GenTieKnotIns.
Local Open Scope nat_scope.
From NV Require Import Gen.PreludeExt Gen.LinalgMat Proofs.GenTieMat Proofs.GenTieMatSolve Proofs.GenTieBinom.
From NV Require Import Gen.PreludeExt Gen.HelpersB Proofs.GenTieKnotRemove.
From NV Require Import Gen.HelpersB Proofs.GenTieElev.
From NV Require Import Model.Geom2D Model.Voxel Gen.PreludeExt Gen.LinalgGeom Gen.Voxelize Proofs.GenTieGeom Proofs.GenTieVoxel
  Proofs.GenTieHull.
From NV Require Import Model.Hull Gen.Utilities Proofs.GenTieBBox.
From NV Require Import Model.Fit Gen.Fitting Proofs.GenTieFit.
From NV Require Import Model.Derivs Proofs.GenTieDerivCpts.
From NV Require Import Proofs.GenTieArr4 Proofs.GenTieDerivSurf.
From NV Require Import Model.KnotRefine Proofs.GenTieRefine.
From NV Require Import Model.Eval Gen.Evaluators Proofs.GenTieEvalLib Proofs.GenTieEvalCurve Proofs.GenTieEvalSurf Proofs.GenTieEvalVol.
From NV Require Import Model.Derivs Gen.HelpersC Proofs.GenTieBinom Proofs.GenTieBasisAll Proofs.GenTieEvalDerivCurve Proofs.GenTieEvalDerivCurve2.
From NV Require Import Proofs.GenTieEvalDerivSurf Proofs.GenTieEvalDerivSurfRat Proofs.GenTieEvalDerivSurf2.

Theorem C17_gen_CurveEvaluator_evaluate_anyspan_R : forall (func : Z -> list R -> Z -> R -> gres Z) (dd : geomdata R)
    (p : nat) (U : list R) (P : list (list R)) (n : Z) (start stop : R),
  curve_dd dd p U P -> hd_error (geomdata_sample_size dd) = Some n ->
  p < length P -> length P + p <= length U ->
  (forall u, func (Z.of_nat p) U (Z.of_nat (length P)) u = GOk (Z.of_nat (Basis.find_span_linear Rops p U (length P) u))) ->
  Evaluators.CurveEvaluator_evaluate Rops func dd start stop =
  GOk (curve_evalpts Rops (lit_10e_8 Rops) (Z.to_nat (eval_dim dd)) p U P start stop (Z.to_nat n)).
Proof. exact (@CurveEvaluator_evaluate_tie_gen _ Rops). Qed.
Print Assumptions C17_gen_CurveEvaluator_evaluate_anyspan_R.
Theorem C17_gen_CurveEvaluator_derivatives_anyspan_R : forall (func : Z -> list R -> Z -> R -> gres Z) (dd : geomdata R)
    (p : nat) (U : list R) (P : list (list R)) (u : R) (order : nat),
  curve_dd dd p U P -> p < length P -> length P + p <= length U ->
  func (Z.of_nat p) U (Z.of_nat (length P)) u = GOk (Z.of_nat (Basis.find_span_linear Rops p U (length P) u)) ->
  Evaluators.CurveEvaluator_derivatives Rops func dd u (Z.of_nat order) =
  GOk (curve_derivs Rops (Z.to_nat (eval_dim dd)) p U P u order).
Proof. exact (@CurveEvaluator_derivatives_tie_gen _ Rops). Qed.
Print Assumptions C17_gen_CurveEvaluator_derivatives_anyspan_R.
(* the two curve derivative algorithms are tied to DIFFERENT model functions (curve_derivs / curve_derivs2): their agreement is a
   property of the model (Props/C02.v / C17.v), not of the tie *)

