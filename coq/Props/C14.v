(* C14 - Export followed by import reproduces the geometry.  This file only states the property theorems; proofs
   live under Proofs/Exchange*.v.  Model: Model/Exchange.v (token level: a JSON file is a tree whose number
   leaves are texts, a mesh / text file is a list of rows of tokens).  The theorems are about the real-number
   instance (exact arithmetic) and hold for ANY number-text type S and codec (pr / prf = printing, pa = parsing)
   with  pa (pr x) = x  - the "up to the printed precision" part of the property is this hypothesis; the real
   codecs (json/str(float) exact, "{:.18f}" within 5e-19) are tied by the correspondence check on real files.
   All theorems are [G]: any sizes, degrees, number of container elements, trims; weights non-zero.
   import_vol_mesh is modelled in its repaired form (fixes/C14-vmesh-last-layer.diff). *)
From Coq Require Import List Arith Bool Lia Reals Lra String.
From NV Require Import Scalar.Ops Model.Common Model.Knots Model.Layout Model.Exchange
  Proofs.KnotsR Proofs.LayoutR Proofs.ExchangeP Proofs.ExchangeR Proofs.ExchangeM.
(* not used by the statements: makes the harness comparison helpers part of this file's build closure *)
From NV Require Run.ExchangeH.
Import ListNotations.
Open Scope list_scope.

(* [G] JSON: writing any curve / surface (with spline, freeform and container trims and sense flags) / volume, single or
   in a container of any positive length, and reading the file back yields the same shapes as rational shapes:
   same degrees, knot vectors, sizes, deltas, sense flags, trims, and the homogeneous control points (weights 1 for
   polynomial input); the delta keyword of import_json overrides the deltas when it lies in (0,1) *)
Theorem C14_json_roundtrip : forall (Sx : Type) (pr : R -> Sx) (pa : Sx -> R), (forall x, pa (pr x) = x) ->
  forall (d1 d2 d3 : R) (dov : option R) (sh : shapes (T:=R)), wf_shapes sh ->
  import_json Rops pa d1 d2 d3 dov (export_json Rops pr sh) = Ok (back dov sh).
Proof. intros Sx pr pa H d1 d2 d3 dov sh W. apply json_roundtrip; assumption. Qed.
Print Assumptions C14_json_roundtrip.

(* what "the same shape" means, spelled out for a surface read back without the delta keyword *)
Theorem C14_json_surface_fields : forall (s : srf (T:=R)),
  let r := ovr_s Rops None (rat_srf s) in
  s_pu r = s_pu s /\ s_pv r = s_pv s /\ s_Uu r = s_Uu s /\ s_Uv r = s_Uv s /\ s_su r = s_su s /\ s_sv r = s_sv s /\
  s_pts r = homog Rops (s_rat s) (s_pts s) /\ s_du r = s_du s /\ s_dv r = s_dv s /\ s_rev r = s_rev s /\
  s_trims r = map rat_trim (s_trims s) /\ s_rat r = true.
Proof. intros s r. unfold r. cbn. rewrite homog_homogR. repeat split. Qed.
Print Assumptions C14_json_surface_fields.

(* [G] single components, usable on their own (curves also occur as trim curves) *)
Theorem C14_json_components : forall (Sx : Type) (pr : R -> Sx) (pa : Sx -> R), (forall x, pa (pr x) = x) -> forall d1 d2 d3 : R,
  (forall c, wf_crv c -> import_crv Rops pa d1 (export_crv Rops pr c) = Ok (rat_crv c)) /\
  (forall s, wf_srf s -> import_surf Rops pa d1 d2 (export_surf Rops pr s) = Ok (rat_srf s)) /\
  (forall v, wf_vol v -> import_vol Rops pa d3 (export_vol Rops pr v) = Ok (rat_vol v)) /\
  (forall t, wf_trim t -> import_trim Rops pa d1 (export_trim Rops pr t) = Ok (Some (rat_trim t))).
Proof.
  intros Sx pr pa H d1 d2 d3. split; [|split; [|split]].
  - intros; apply import_export_crv; assumption.
  - intros; apply import_export_surf; assumption.
  - intros; apply import_export_vol; assumption.
  - intros; apply import_export_trim; assumption.
Qed.
Print Assumptions C14_json_components.

(* [G] smesh: one file per surface; 3-dimensional surfaces come back as rational surfaces with the same degrees,
   knot vectors, sizes and homogeneous control points (the format carries neither delta nor trims) *)
Theorem C14_smesh_roundtrip : forall (Sx : Type) (prf : R -> Sx) (pa : Sx -> R), (forall x, pa (prf x) = x) ->
  forall (d2 : R) (l : list (srf (T:=R))),
  (forall s, In s l -> wf_srf_geo s /\ dimension (s_rat s) (s_pts s) = 3%nat) ->
  import_smesh Rops pa d2 (export_smesh Rops prf l) = Ok (map (mesh_srf d2) l).
Proof. intros Sx prf pa H d2 l W. apply smesh_roundtrip; assumption. Qed.
Print Assumptions C14_smesh_roundtrip.

(* [G] vmesh (reader repaired to read all w layers) *)
Theorem C14_vmesh_roundtrip : forall (Sx : Type) (prf : R -> Sx) (pa : Sx -> R), (forall x, pa (prf x) = x) ->
  forall (d3 : R) (l : list (vlm (T:=R))),
  (forall v, In v l -> wf_vol_geo v /\ dimension (v_rat v) (v_pts v) = 3%nat) ->
  import_vmesh Rops pa d3 (export_vmesh Rops prf l) = Ok (map (mesh_vol d3) l).
Proof. intros Sx prf pa H d3 l W. apply vmesh_roundtrip; assumption. Qed.
Print Assumptions C14_vmesh_roundtrip.

(* [G] control point text files (1-D, and 2-D with sizes) and csv *)
Theorem C14_txt_csv_roundtrip : forall (Sx : Type) (pr : R -> Sx) (pa : Sx -> R), (forall x, pa (pr x) = x) ->
  forall (pts : list (list R)) su sv,
  import_txt1 pa (export_txt1 pr pts) = pts /\
  ((0 < su)%nat -> length pts = (su * sv)%nat -> import_txt2 pa (export_txt2 pr su sv pts) = (pts, su, sv)) /\
  import_csv pa (export_csv pr pts) = pts /\ fst (export_csv pr pts) = seq 1 (length (hd [] pts)).
Proof.
  intros Sx pr pa H pts su sv. split; [apply txt1_roundtrip; exact H|]. split; [intros; apply txt2_roundtrip; assumption|].
  apply csv_roundtrip. exact H.
Qed.
Print Assumptions C14_txt_csv_roundtrip.

(* [G] the same formats for an arbitrary codec (no hypothesis): each number comes back as parse (print x) and nothing else
   changes - this is the precise meaning of "up to the printed precision" for the txt / csv formats *)
Theorem C14_txt_csv_any_codec : forall (Sx : Type) (pr : R -> Sx) (pa : Sx -> R) (pts : list (list R)),
  import_txt1 pa (export_txt1 pr pts) = map (map (fun x => pa (pr x))) pts /\
  import_csv pa (export_csv pr pts) = map (map (fun x => pa (pr x))) pts.
Proof. intros. apply txt_csv_any_codec. Qed.
Print Assumptions C14_txt_csv_any_codec.

(* [G] documented row / column order.  smesh: 5 header rows (dimension; degrees; sizes; the two knot vectors), then the
   row of point (u,v) is number u + size_u*v (u fastest) and holds (x,y,z,w); vmesh: 6 header rows, then row
   u + size_u*(v + size_v*w); 2-D text: row = u, cell = v; JSON: control_points.points / weights in flat (v fastest) order *)
Theorem C14_documented_order : forall (Sx : Type) (pr prf : R -> Sx),
  (forall (s : srf (T:=R)) u v, length (s_pts s) = (s_su s * s_sv s)%nat -> (u < s_su s)%nat -> (v < s_sv s)%nat ->
     nth (5 + (u + s_su s * v)) (export_smesh1 Rops prf s) [] = frow prf (unw (nth (idx2 (s_sv s) u v) (homogR (s_rat s) (s_pts s)) [])) /\
     nth 0 (export_smesh1 Rops prf s) [] = [TI (dimension (s_rat s) (s_pts s))] /\
     nth 1 (export_smesh1 Rops prf s) [] = [TI (s_pu s); TI (s_pv s)] /\ nth 2 (export_smesh1 Rops prf s) [] = [TI (s_su s); TI (s_sv s)] /\
     nth 3 (export_smesh1 Rops prf s) [] = frow prf (s_Uu s) /\ nth 4 (export_smesh1 Rops prf s) [] = frow prf (s_Uv s)) /\
  (forall (b : vlm (T:=R)) u v w, length (v_pts b) = (v_su b * v_sv b * v_sw b)%nat -> (u < v_su b)%nat -> (v < v_sv b)%nat -> (w < v_sw b)%nat ->
     nth (6 + (u + v_su b * (v + v_sv b * w))) (export_vmesh1 Rops prf b) [] =
       frow prf (unw (nth (idx3 (v_su b) (v_sv b) u v w) (homogR (v_rat b) (v_pts b)) []))) /\
  (forall su sv (pts : list (list R)) u v, (u < su)%nat -> (v < sv)%nat ->
     nth v (nth u (export_txt2 pr su sv pts) []) [] = map pr (nth (idx2 sv u v) pts [])) /\
  (forall rat (pts : list (list R)),
     jget "points" (jcp Rops pr rat pts) = Some (jpts pr (if rat then sep_pts Rops pts else pts)) /\
     jget "weights" (jcp Rops pr rat pts) = if rat then Some (jnums pr (sep_ws Rops pts)) else None).
Proof.
  intros Sx pr prf. split; [|split; [|split]].
  - intros; apply smesh_order; assumption.
  - intros; apply vmesh_order; assumption.
  - intros; apply txt2_order; assumption.
  - intros rat pts. split; [apply jcp_points|apply jcp_weights].
Qed.
Print Assumptions C14_documented_order.

(* ------------------------------------------------------------------ non-vacuity *)
Open Scope R_scope.
Definition ex_trimc : crv (T:=R) := mkC true 2 [0;0;0;1;1;1] [[0;0;1]; [1;2;2]; [2;0;1]] (1/4) (Some 1%nat).
Definition ex_srf : srf (T:=R) :=
  mkS false 1 2 [0;0;1;1] [0;0;0;1/2;1;1;1] 2 4 [[0;0;0];[0;1;1];[0;2;0];[0;3;1];[1;0;0];[1;1;2];[1;2;0];[1;3;5]] (1/8) (1/2) None
      [TrC ex_trimc; TrF (mkF [[0;0];[1;1/2]] "hole" None); TrM [ex_trimc] (Some 0%nat)].
Definition ex_vol : vlm (T:=R) :=
  mkV true 1 1 1 [0;0;1;1] [0;0;1;1] [0;0;1/2;1;1] 2 2 3
      [[0;0;0;1];[0;1;0;1];[1;0;0;2];[1;1;0;1];[0;0;1;1];[0;1;1;1];[1;0;1;1];[1;1;1;3];[0;0;2;1];[0;1;2;1];[1;0;2;1];[2;2;4;2]] (1/2) (1/4) (1/8).

Ltac kvok := split; [apply check_spec; split; [reflexivity|cbn; repeat split; lra]|split; [reflexivity|cbn; lra]].
Ltac in_cases Hp tac := repeat (match type of Hp with _ \/ _ => destruct Hp as [<-|Hp]; [tac|] end); try contradiction.
Ltac ptsok :=
  split; [discriminate|]; split; [intros p Hp; cbn in Hp; in_cases Hp ltac:(reflexivity)|];
  split; [cbn; lia|]; split; [cbn; lia|];
  first [intros Hft; discriminate Hft | intros _ p Hp; cbn in Hp; in_cases Hp ltac:(unfold lastc; cbn; lra)].

Lemma ex_trimc_ok : crv2 ex_trimc.
Proof.
  split; [|reflexivity]. unfold wf_crv. cbn [ex_trimc c_deg c_pts c_rat c_kv c_delta]. split; [discriminate|]. split; [cbn; lia|].
  split; [unfold wf_pts; ptsok|]. split; [kvok|lra].
Qed.
Example C14_hypotheses_satisfiable :
  wf_shapes (SS [ex_srf]) /\ wf_shapes (SC [ex_trimc]) /\ wf_shapes (SV [ex_vol]) /\
  wf_srf_geo ex_srf /\ dimension (s_rat ex_srf) (s_pts ex_srf) = 3%nat /\
  wf_vol_geo ex_vol /\ dimension (v_rat ex_vol) (v_pts ex_vol) = 3%nat.
Proof.
  assert (Hs : wf_srf ex_srf).
  { unfold wf_srf. cbn [ex_srf s_pu s_pv s_su s_sv s_pts s_rat s_Uu s_Uv s_du s_dv s_trims].
    split; [discriminate|]. split; [discriminate|]. split; [lia|]. split; [lia|]. split; [reflexivity|].
    split; [unfold wf_pts; ptsok|]. split; [kvok|]. split; [kvok|]. split; [lra|]. split; [lra|].
    intros t [<-|[<-|[<-|[]]]]; cbn [wf_trim].
    - exact ex_trimc_ok.
    - split; [discriminate|reflexivity].
    - split; [discriminate|]. intros c [<-|[]]. exact ex_trimc_ok. }
  assert (Hv : wf_vol ex_vol).
  { unfold wf_vol. cbn [ex_vol v_pu v_pv v_pw v_su v_sv v_sw v_pts v_rat v_Uu v_Uv v_Uw v_du v_dv v_dw].
    split; [discriminate|]. split; [discriminate|]. split; [discriminate|]. split; [lia|]. split; [lia|]. split; [lia|]. split; [reflexivity|].
    split; [unfold wf_pts; ptsok|]. split; [kvok|]. split; [kvok|]. split; [kvok|]. repeat split; lra. }
  split; [split; [discriminate|intros s [<-|[]]; exact Hs]|].
  split; [split; [discriminate|intros c [<-|[]]; exact (proj1 ex_trimc_ok)]|].
  split; [split; [discriminate|intros v [<-|[]]; exact Hv]|].
  split; [destruct Hs as (A&B&C&D&E&F&G&H&_); exact (conj A (conj B (conj C (conj D (conj E (conj F (conj G H)))))))|]. split; [reflexivity|].
  split; [destruct Hv as (A&B&C&D&E&F&G&H&I&J&L&_); exact (conj A (conj B (conj C (conj D (conj E (conj F (conj G (conj H (conj I (conj J L))))))))))|reflexivity].
Qed.

(* the executable instance returns values on a rational surface with a non-trivial weight (model is not vacuous) *)
From Coq Require Import QArith.
Open Scope Q_scope.
Example C14_model_runs :
  let s := mkS true 1 1 [0;0;1;1] [0;0;1#2;1;1] 2 3 [[0;0;0;1];[0;2;2;2];[0;2;0;1];[1;0;0;1];[3;3;3;3];[1;2;0;1]] (1#4) (1#8) (Some 1%nat) [] in
  (exists r, import_json Qops (fun x : Q => x) (1#100) (1#20) (1#10) None (export_json Qops (fun x : Q => x) (SS [s])) = Ok (SS [r]) /\ s_pts r = s_pts s) /\
  (exists r, import_smesh Qops (fun x : Q => x) (1#20) (export_smesh Qops (fun x : Q => x) [s]) = Ok [r] /\ s_pts r = s_pts s).
Proof. cbv zeta. split; eexists; split; vm_compute; reflexivity. Qed.
