(* C06 - removing a removable knot is exact and inverts insertion.
   Statements about the Gallina model of the REPAIRED helpers.knot_removal / knot_removal_kv
   (Model/KnotRem.v, fixes/C06-knot-removal.diff); proofs live in Proofs/KnotRemR.v.
   Legend: [G] all degrees / knot vectors / multiplicities / positions; partial = see comment. *)
From Coq Require Import List QArith Reals Qreals Lia Arith Bool.
From NV Require Import Scalar.Ops Model.Common Model.Basis Model.KnotIns Model.InsertKnot Model.KnotRem
  Proofs.BasisR Proofs.KnotInsR Proofs.KnotRemR Proofs.KnotRemExact Proofs.KnotRemDir Run.Harness.
Import ListNotations.

(* [G] knot vector: removing r times at the span reached after r insertions gives back the knot vector *)
Theorem C06_removal_kv_inverts_insertion_kv : forall (U : list R) (u : R) (k r : nat),
  (k < length U)%nat ->
  knot_removal_kv (knot_insertion_kv U u k r) (k + r) r = U.
Proof. intros U u k r. exact (rem_kv_inverts_ins_kv U u k r). Qed.
Print Assumptions C06_removal_kv_inverts_insertion_kv.

(* [G] ... and removing j <= r of them leaves exactly r - j inserted copies: the knot vector is reduced by exactly the count *)
Theorem C06_removal_kv_reduces_by_count : forall (U : list R) (u : R) (k r j : nat),
  (k < length U)%nat -> (j <= r)%nat ->
  knot_removal_kv (knot_insertion_kv U u k r) (k + r) j = knot_insertion_kv U u k (r - j) /\
  length (knot_removal_kv (knot_insertion_kv U u k r) (k + r) j) = (length U + r - j)%nat.
Proof.
  intros U u k r j Hk Hj. split; [exact (rem_kv_ins_kv_partial U u k r j Hk Hj)|].
  rewrite (rem_kv_ins_kv_partial U u k r j Hk Hj), kv_length. lia.
Qed.
Print Assumptions C06_removal_kv_reduces_by_count.

(* [G] any knot vector, any span: the length drops by the removal count *)
Theorem C06_removal_kv_length : forall (U : list R) (span r : nat),
  (1 <= r <= S span)%nat -> (span < length U)%nat ->
  length (knot_removal_kv U span r) = (length U - r)%nat.
Proof. intros U span r. exact (rem_kv_length U span r). Qed.
Print Assumptions C06_removal_kv_length.

(* [G] control net: reduced by exactly the count, for every removal count 1..s, whatever the removability test says
   (r = span, s = multiplicity of an interior knot of a clamped vector: p + s <= r) *)
Theorem C06_removal_net_reduces_by_count : forall td tol2 p (U : list R) (P : list (list R)) u num s r,
  (1 <= num <= s)%nat -> (p + s <= r)%nat -> (r < length P)%nat ->
  length (knot_removal Rops td tol2 p U P u num s r) = (length P - num)%nat.
Proof. exact knot_removal_length. Qed.
Print Assumptions C06_removal_net_reduces_by_count.

(* [G] inserting a knot once and removing it once restores the control points exactly:
   all degrees p, all sorted knot vectors U, all positions (span k, multiplicity s < p, U[k-s] < u < U[k+1]),
   all nets of points of a common dimension, any tolerance >= 0, any test dimension td.
   The left-hand side is literally the model of helpers.knot_removal applied to the model of helpers.knot_insertion
   with the arguments operations.remove_knot passes (multiplicity s+1, span k+1). *)
Theorem C06_remove1_insert1_id : forall td tol2 p (U : list R) (P : list (list R)) (u : R) s k d,
  sortedR U -> (s < p)%nat -> (p <= k)%nat -> (k < length P)%nat -> (k + p < length U)%nat ->
  (knR U (k - s) < u)%R -> (u < knR U (k + 1))%R ->
  Forall (fun pt => length pt = d) P -> (0 <= tol2)%R ->
  knot_removal Rops td tol2 p (knot_insertion_kv U u k 1) (knot_insertion Rops p U P u 1 s k) u 1 (S s) (S k) = P.
Proof. exact remove1_insert1_sorted. Qed.
Print Assumptions C06_remove1_insert1_id.

(* [G] the same under the bare algebraic hypothesis "every alpha of Eq. 5.28 differs from 0 and 1"
   (U[i] < u < U[i+p] on the window), without sortedness *)
Theorem C06_remove1_insert1_id_alphas : forall td tol2 p (U : list R) (P : list (list R)) (u : R) s k d,
  (s < p)%nat -> (p <= k)%nat -> (k < length P)%nat -> (k < length U)%nat ->
  Forall (fun pt => length pt = d) P -> (0 <= tol2)%R ->
  (forall i, (k - p < i <= k - s)%nat -> (knR U i < u < knR U (i + p))%R) ->
  knot_removal Rops td tol2 p (knot_insertion_kv U u k 1) (knot_insertion Rops p U P u 1 s k) u 1 (S s) (S k) = P.
Proof. exact remove1_insert1_model. Qed.
Print Assumptions C06_remove1_insert1_id_alphas.

(* [G] ... and the distance of the removability test (Eq. 5.30) is exactly 0, so the knot is found removable for every tolerance *)
Theorem C06_remove1_insert1_test_distance_zero : forall td p (U : list R) (P : list (list R)) (u : R) s k d,
  (s < p)%nat -> (p <= k)%nat -> (k < length P)%nat -> (k < length U)%nat ->
  Forall (fun pt => length pt = d) P ->
  (forall i, (k - p < i <= k - s)%nat -> (knR U i < u < knR U (i + p))%R) ->
  rem_test Rops td p (knot_insertion_kv U u k 1) u (S k) (S s) (knot_insertion Rops p U P u 1 s k) 0 = 0%R.
Proof. exact remove1_insert1_test_zero. Qed.
Print Assumptions C06_remove1_insert1_test_distance_zero.

(* [G] surfaces, v direction: the net function of operations.remove_knot (v) applied to the surface produced by the net
   function of operations.insert_knot (v) restores the control net exactly; all degrees, sizes (su, sv independent), positions *)
Theorem C06_surface_remove1_insert1_v : forall tol2 (g : @surf R) (t : R) s k d,
  (s < s_pv g)%nat -> (s_pv g <= k)%nat -> (k < s_sv g)%nat -> (k < length (s_Uv g))%nat ->
  length (s_P g) = (s_sv g * s_su g)%nat -> Forall (fun pt => length pt = d) (s_P g) -> (0 <= tol2)%R ->
  (forall i, (k - s_pv g < i <= k - s)%nat -> (knR (s_Uv g) i < t < knR (s_Uv g) (i + s_pv g))%R) ->
  surf_rem_v Rops tol2
    (mkS (s_pu g) (s_pv g) (s_Uu g) (knot_insertion_kv (s_Uv g) t k 1) (s_su g) (s_sv g + 1) (surf_net_v Rops g t 1 s k))
    t 1 (S s) (S k) = s_P g.
Proof. exact surf_remove1_insert1_v. Qed.
Print Assumptions C06_surface_remove1_insert1_v.

(* [G] surfaces, u direction (column gather and flip_ctrlpts_u scatter on both sides) *)
Theorem C06_surface_remove1_insert1_u : forall tol2 (g : @surf R) (t : R) s k d,
  (s < s_pu g)%nat -> (s_pu g <= k)%nat -> (k < s_su g)%nat -> (k < length (s_Uu g))%nat ->
  length (s_P g) = (s_sv g * s_su g)%nat -> Forall (fun pt => length pt = d) (s_P g) -> (0 <= tol2)%R ->
  (forall i, (k - s_pu g < i <= k - s)%nat -> (knR (s_Uu g) i < t < knR (s_Uu g) (i + s_pu g))%R) ->
  surf_rem_u Rops tol2
    (mkS (s_pu g) (s_pv g) (knot_insertion_kv (s_Uu g) t k 1) (s_Uv g) (s_su g + 1) (s_sv g) (surf_net_u Rops g t 1 s k))
    t 1 (S s) (S k) = s_P g.
Proof. exact surf_remove1_insert1_u. Qed.
Print Assumptions C06_surface_remove1_insert1_u.

(* [G] removal_exact_when_test_is_zero (one removal): for ANY net Q of points of dimension d <= td over a sorted knot
   vector in which u has multiplicity s (span r, U[r-s] < u < U[r+1]): if the Eq. 5.30 test distance is exactly 0,
   then inserting u again (model of helpers.knot_insertion, num = 1) into the result of knot_removal (num = 1) over
   knot_removal_kv reproduces Q exactly.  By C04 (a single insertion preserves every curve point) the curve after the
   removal is therefore the curve before it: "removing a removable knot is exact". *)
Theorem C06_removal_exact_when_test_is_zero : forall td tol2 p (Ub : list R) (Q : list (list R)) u s r d,
  sortedR Ub -> (1 <= s <= p)%nat -> (p + 1 <= r)%nat -> (r - s + 1 < length Q)%nat -> (r < length Q)%nat -> (r + p < length Ub)%nat ->
  (knR Ub (r - s) < u)%R -> (u < knR Ub (r + 1))%R ->
  Forall (fun pt => length pt = d) Q -> (d <= td)%nat -> (0 <= tol2)%R ->
  rem_test Rops td p Ub u r s Q 0 = 0%R ->
  knot_insertion Rops p (knot_removal_kv Ub r 1) (knot_removal Rops td tol2 p Ub Q u 1 s r) u 1 (s - 1) (r - 1) = Q.
Proof. exact removal_exact_when_test_is_zero_sorted. Qed.
Print Assumptions C06_removal_exact_when_test_is_zero.

(* The full statement of the property's last sentence (r insertions then r removals, any r):
   proved above for r = 1 only (C06_remove1_insert1_id is its instance r = 1); for r >= 2, for the
   per-direction application to surfaces / volumes / rational shapes and for "evaluated points unchanged after
   k <= r removals" the tie is the correspondence check plus the exact oracle of harness/props/C06.py. *)
Definition C06_remove_r_insert_r_id_full : Prop :=
  forall td tol2 p (U : list R) (P : list (list R)) (u : R) s k d r,
  sortedR U -> (1 <= r)%nat -> (s + r <= p)%nat -> (p <= k)%nat -> (k < length P)%nat -> (k + p < length U)%nat ->
  (knR U (k - s) < u)%R -> (u < knR U (k + 1))%R ->
  Forall (fun pt => length pt = d) P -> (0 <= tol2)%R ->
  knot_removal Rops td tol2 p (knot_insertion_kv U u k r) (knot_insertion Rops p U P u r s k) u r (s + r) (k + r) = P.

Theorem C06_remove_r_insert_r_id_r1_partial : forall td tol2 p (U : list R) (P : list (list R)) (u : R) s k d,
  sortedR U -> (s + 1 <= p)%nat -> (p <= k)%nat -> (k < length P)%nat -> (k + p < length U)%nat ->
  (knR U (k - s) < u)%R -> (u < knR U (k + 1))%R ->
  Forall (fun pt => length pt = d) P -> (0 <= tol2)%R ->
  knot_removal Rops td tol2 p (knot_insertion_kv U u k 1) (knot_insertion Rops p U P u 1 s k) u 1 (s + 1) (k + 1) = P.
Proof.
  intros. replace (s + 1)%nat with (S s) by lia. replace (k + 1)%nat with (S k) by lia.
  eapply remove1_insert1_sorted; eauto. lia.
Qed.
Print Assumptions C06_remove_r_insert_r_id_r1_partial.

(* ---- non-vacuity: a cubic curve with a double interior knot; u = 3/10 inside a span (s = 0, k = 4) and
        u = 1/4 on the simple knot (s = 1, k = 4): hypotheses hold, and the executable model restores the net ---- *)
Definition exU : list Q := [0;0;0;0;1#4;1#2;1#2;1;1;1;1]%Q.
Definition exP : list (list Q) := [[0;0];[1;2];[3;1];[4;4];[6;0];[7;3];[9;1]]%Q.

Example C06_hypotheses_satisfiable_span :
  (0 < 3)%nat /\ (3 <= 4)%nat /\ (4 < length exP)%nat /\ (4 + 3 < length exU)%nat /\
  (kn Qops exU (4 - 0) < 3#10)%Q /\ (3#10 < kn Qops exU (4 + 1))%Q /\
  eqLLQ (knot_removal Qops 2 (1#1000000) 3 (knot_insertion_kv exU (3#10) 4 1) (knot_insertion Qops 3 exU exP (3#10) 1 0 4) (3#10) 1 1 5) exP = true /\
  eqLQ (knot_removal_kv (knot_insertion_kv exU (3#10) 4 1) 5 1) exU = true.
Proof. repeat split; try (vm_compute; congruence); try (cbn; lia). Qed.

Example C06_hypotheses_satisfiable_knot :
  (1 < 3)%nat /\ (3 <= 4)%nat /\ (kn Qops exU (4 - 1) < 1#4)%Q /\ (1#4 < kn Qops exU (4 + 1))%Q /\
  eqLLQ (knot_removal Qops 2 (1#1000000) 3 (knot_insertion_kv exU (1#4) 4 1) (knot_insertion Qops 3 exU exP (1#4) 1 1 4) (1#4) 1 2 5) exP = true.
Proof. repeat split; try (vm_compute; congruence); try (cbn; lia). Qed.

(* the executable model also restores the net after 2 and 3 insertions / removals (instances of the _full statement, by computation) *)
Example C06_remove_r_insert_r_instances :
  eqLLQ (knot_removal Qops 2 (1#1000000) 3 (knot_insertion_kv exU (3#10) 4 2) (knot_insertion Qops 3 exU exP (3#10) 2 0 4) (3#10) 2 2 6) exP = true /\
  eqLLQ (knot_removal Qops 2 (1#1000000) 3 (knot_insertion_kv exU (3#10) 4 3) (knot_insertion Qops 3 exU exP (3#10) 3 0 4) (3#10) 3 3 7) exP = true /\
  (length (knot_removal Qops 2 (1#1000000) 3 exU exP (1#2) 2 2 6) = length exP - 2)%nat.
Proof. repeat split; vm_compute; congruence. Qed.

(* non-vacuity of C06_removal_exact_when_test_is_zero: a net with a removable double knot 1/2 that was NOT produced by
   inserting into exP (it is the refinement of a different curve): the test distance is 0 and re-insertion restores it *)
Definition exQ : list (list Q) := knot_insertion Qops 3 [0;0;0;0;1#2;1;1;1;1]%Q [[0;0];[2;4];[5;1];[6;6];[9;0]]%Q (1#2) 1 1 4.
Definition exUb : list Q := [0;0;0;0;1#2;1#2;1;1;1;1]%Q.
Example C06_removal_exact_instance :
  (1 <= 2 <= 3)%nat /\ (3 + 1 <= 5)%nat /\ (5 - 2 + 1 < length exQ)%nat /\ (5 + 3 < length exUb)%nat /\
  (kn Qops exUb (5 - 2) < 1#2)%Q /\ (1#2 < kn Qops exUb (5 + 1))%Q /\
  Qeq_bool (rem_test Qops 2 3 exUb (1#2) 5 2 exQ 0) 0 = true /\
  eqLLQ (knot_insertion Qops 3 (knot_removal_kv exUb 5 1) (knot_removal Qops 2 (1#1000000) 3 exUb exQ (1#2) 1 2 5) (1#2) 1 1 4) exQ = true.
Proof. repeat split; try (vm_compute; congruence); try (cbn; lia). Qed.

(* non-vacuity of the surface theorems: a 3 x 4 net, degrees (2, 2), su <> sv; insertion then removal in v and in u *)
Definition exS : @surf Q :=
  mkS 2 2 [0;0;0;1;1;1]%Q [0;0;0;1#2;1;1;1]%Q 3 4
    [[0;0;0];[0;1;1];[0;2;0];[0;3;2]; [1;0;1];[1;1;3];[1;2;1];[1;3;0]; [2;0;0];[2;1;1];[2;2;2];[2;3;1]]%Q.
Example C06_surface_instances :
  eqLLQ (surf_rem_v Qops (1#1000000)
     (mkS 2 2 (s_Uu exS) (knot_insertion_kv (s_Uv exS) (1#4) 2 1) 3 5 (surf_net_v Qops exS (1#4) 1 0 2)) (1#4) 1 1 3) (s_P exS) = true /\
  eqLLQ (surf_rem_u Qops (1#1000000)
     (mkS 2 2 (knot_insertion_kv (s_Uu exS) (1#3) 2 1) (s_Uv exS) 4 4 (surf_net_u Qops exS (1#3) 1 0 2)) (1#3) 1 1 3) (s_P exS) = true.
Proof. split; vm_compute; congruence. Qed.
