(* C06 - removing a removable knot is exact and inverts insertion.
   Statements about the Gallina model of the REPAIRED helpers.knot_removal / knot_removal_kv
   (Model/KnotRem.v, fixes/C06-knot-removal.diff); proofs live in Proofs/KnotRemR.v.
   Legend: [G] all degrees / knot vectors / multiplicities / positions; partial = see comment. *)
From Coq Require Import List QArith Reals Qreals Lia Arith Bool.
From NV Require Import Scalar.Ops Model.Common Model.Basis Model.KnotIns Model.InsertKnot Model.KnotRem
  Proofs.BasisR Proofs.KnotInsR Proofs.KnotRemR Proofs.KnotRemExact Proofs.KnotRemDir Run.Harness.
From NV Require Import Model.KnotRefine Proofs.InsertKnotR Proofs.InsertDirR Proofs.InsertVolR Proofs.KnotRemGeneral Proofs.KnotRemGeneralDir Proofs.KnotRemGeneralVol Proofs.KnotRemRefine.
From Coq Require Import ZArith.
From NV Require Import Proofs.InsertOpSurf Proofs.KnotRemMultiDir.
Import ListNotations.

(* [G] knot vector: removing r times at the span reached after r insertions gives back the knot vector *)
Theorem C06_removal_kv_inverts_insertion_kv : forall (U : list R) (u : R) (k r : nat),
  (k < length U)%nat ->
  knot_removal_kv (knot_insertion_kv U u k r) (k + r) r = U.
Proof. intros U u k r. exact (rem_kv_inverts_ins_kv U u k r). Qed.
Print Assumptions C06_removal_kv_inverts_insertion_kv.

(* [G] ... and removing j <= r of them leaves exactly r - j inserted copies: the knot vector is reduced by exactly the count *)
Theorem C06_removal_kv_reduces_by_count : forall (U : list R) (u : R) (k r j : nat),
  (k < length U)%nat -> (j <= r)%nat ->
  knot_removal_kv (knot_insertion_kv U u k r) (k + r) j = knot_insertion_kv U u k (r - j) /\
  length (knot_removal_kv (knot_insertion_kv U u k r) (k + r) j) = (length U + r - j)%nat.
Proof.
  intros U u k r j Hk Hj. split; [exact (rem_kv_ins_kv_partial U u k r j Hk Hj)|].
  rewrite (rem_kv_ins_kv_partial U u k r j Hk Hj), kv_length. lia.
Qed.
Print Assumptions C06_removal_kv_reduces_by_count.

(* [G] any knot vector, any span: the length drops by the removal count *)
Theorem C06_removal_kv_length : forall (U : list R) (span r : nat),
  (1 <= r <= S span)%nat -> (span < length U)%nat ->
  length (knot_removal_kv U span r) = (length U - r)%nat.
Proof. intros U span r. exact (rem_kv_length U span r). Qed.
Print Assumptions C06_removal_kv_length.

(* [G] control net: reduced by exactly the count, for every removal count 1..s, whatever the removability test says
   (r = span, s = multiplicity of an interior knot of a clamped vector: p + s <= r) *)
Theorem C06_removal_net_reduces_by_count : forall td tol2 p (U : list R) (P : list (list R)) u num s r,
  (1 <= num <= s)%nat -> (p + s <= r)%nat -> (r < length P)%nat ->
  length (knot_removal Rops td tol2 p U P u num s r) = (length P - num)%nat.
Proof. exact knot_removal_length. Qed.
Print Assumptions C06_removal_net_reduces_by_count.

(* [G] inserting a knot once and removing it once restores the control points exactly:
   all degrees p, all sorted knot vectors U, all positions (span k, multiplicity s < p, U[k-s] < u < U[k+1]),
   all nets of points of a common dimension, any tolerance >= 0, any test dimension td.
   The left-hand side is literally the model of helpers.knot_removal applied to the model of helpers.knot_insertion
   with the arguments operations.remove_knot passes (multiplicity s+1, span k+1). *)
Theorem C06_remove1_insert1_id : forall td tol2 p (U : list R) (P : list (list R)) (u : R) s k d,
  sortedR U -> (s < p)%nat -> (p <= k)%nat -> (k < length P)%nat -> (k + p < length U)%nat ->
  (knR U (k - s) < u)%R -> (u < knR U (k + 1))%R ->
  Forall (fun pt => length pt = d) P -> (0 <= tol2)%R ->
  knot_removal Rops td tol2 p (knot_insertion_kv U u k 1) (knot_insertion Rops p U P u 1 s k) u 1 (S s) (S k) = P.
Proof. exact remove1_insert1_sorted. Qed.
Print Assumptions C06_remove1_insert1_id.

(* [G] the same under the bare algebraic hypothesis "every alpha of Eq. 5.28 differs from 0 and 1"
   (U[i] < u < U[i+p] on the window), without sortedness *)
Theorem C06_remove1_insert1_id_alphas : forall td tol2 p (U : list R) (P : list (list R)) (u : R) s k d,
  (s < p)%nat -> (p <= k)%nat -> (k < length P)%nat -> (k < length U)%nat ->
  Forall (fun pt => length pt = d) P -> (0 <= tol2)%R ->
  (forall i, (k - p < i <= k - s)%nat -> (knR U i < u < knR U (i + p))%R) ->
  knot_removal Rops td tol2 p (knot_insertion_kv U u k 1) (knot_insertion Rops p U P u 1 s k) u 1 (S s) (S k) = P.
Proof. exact remove1_insert1_model. Qed.
Print Assumptions C06_remove1_insert1_id_alphas.

(* [G] ... and the distance of the removability test (Eq. 5.30) is exactly 0, so the knot is found removable for every tolerance *)
Theorem C06_remove1_insert1_test_distance_zero : forall td p (U : list R) (P : list (list R)) (u : R) s k d,
  (s < p)%nat -> (p <= k)%nat -> (k < length P)%nat -> (k < length U)%nat ->
  Forall (fun pt => length pt = d) P ->
  (forall i, (k - p < i <= k - s)%nat -> (knR U i < u < knR U (i + p))%R) ->
  rem_test Rops td p (knot_insertion_kv U u k 1) u (S k) (S s) (knot_insertion Rops p U P u 1 s k) 0 = 0%R.
Proof. exact remove1_insert1_test_zero. Qed.
Print Assumptions C06_remove1_insert1_test_distance_zero.

(* [G] surfaces, v direction: the net function of operations.remove_knot (v) applied to the surface produced by the net
   function of operations.insert_knot (v) restores the control net exactly; all degrees, sizes (su, sv independent), positions *)
Theorem C06_surface_remove1_insert1_v : forall tol2 (g : @surf R) (t : R) s k d,
  (s < s_pv g)%nat -> (s_pv g <= k)%nat -> (k < s_sv g)%nat -> (k < length (s_Uv g))%nat ->
  length (s_P g) = (s_sv g * s_su g)%nat -> Forall (fun pt => length pt = d) (s_P g) -> (0 <= tol2)%R ->
  (forall i, (k - s_pv g < i <= k - s)%nat -> (knR (s_Uv g) i < t < knR (s_Uv g) (i + s_pv g))%R) ->
  surf_rem_v Rops tol2
    (mkS (s_pu g) (s_pv g) (s_Uu g) (knot_insertion_kv (s_Uv g) t k 1) (s_su g) (s_sv g + 1) (surf_net_v Rops g t 1 s k))
    t 1 (S s) (S k) = s_P g.
Proof. exact surf_remove1_insert1_v. Qed.
Print Assumptions C06_surface_remove1_insert1_v.

(* [G] surfaces, u direction (column gather and flip_ctrlpts_u scatter on both sides) *)
Theorem C06_surface_remove1_insert1_u : forall tol2 (g : @surf R) (t : R) s k d,
  (s < s_pu g)%nat -> (s_pu g <= k)%nat -> (k < s_su g)%nat -> (k < length (s_Uu g))%nat ->
  length (s_P g) = (s_sv g * s_su g)%nat -> Forall (fun pt => length pt = d) (s_P g) -> (0 <= tol2)%R ->
  (forall i, (k - s_pu g < i <= k - s)%nat -> (knR (s_Uu g) i < t < knR (s_Uu g) (i + s_pu g))%R) ->
  surf_rem_u Rops tol2
    (mkS (s_pu g) (s_pv g) (knot_insertion_kv (s_Uu g) t k 1) (s_Uv g) (s_su g + 1) (s_sv g) (surf_net_u Rops g t 1 s k))
    t 1 (S s) (S k) = s_P g.
Proof. exact surf_remove1_insert1_u. Qed.
Print Assumptions C06_surface_remove1_insert1_u.

(* [G] removal_exact_when_test_is_zero (one removal): for ANY net Q of points of dimension d <= td over a sorted knot
   vector in which u has multiplicity s (span r, U[r-s] < u < U[r+1]): if the Eq. 5.30 test distance is exactly 0,
   then inserting u again (model of helpers.knot_insertion, num = 1) into the result of knot_removal (num = 1) over
   knot_removal_kv reproduces Q exactly.  By C04 (a single insertion preserves every curve point) the curve after the
   removal is therefore the curve before it: "removing a removable knot is exact". *)
Theorem C06_removal_exact_when_test_is_zero : forall td tol2 p (Ub : list R) (Q : list (list R)) u s r d,
  sortedR Ub -> (1 <= s <= p)%nat -> (p + 1 <= r)%nat -> (r - s + 1 < length Q)%nat -> (r < length Q)%nat -> (r + p < length Ub)%nat ->
  (knR Ub (r - s) < u)%R -> (u < knR Ub (r + 1))%R ->
  Forall (fun pt => length pt = d) Q -> (d <= td)%nat -> (0 <= tol2)%R ->
  rem_test Rops td p Ub u r s Q 0 = 0%R ->
  knot_insertion Rops p (knot_removal_kv Ub r 1) (knot_removal Rops td tol2 p Ub Q u 1 s r) u 1 (s - 1) (r - 1) = Q.
Proof. exact removal_exact_when_test_is_zero_sorted. Qed.
Print Assumptions C06_removal_exact_when_test_is_zero.

(* The full statement of the property's last sentence (r insertions then r removals, any r):
   proved above for r = 1 only (C06_remove1_insert1_id is its instance r = 1); for r >= 2, for the
   per-direction application to surfaces / volumes / rational shapes and for "evaluated points unchanged after
   k <= r removals" the tie is the correspondence check plus the exact oracle of harness/props/C06.py. *)
Definition C06_remove_r_insert_r_id_full : Prop :=
  forall td tol2 p (U : list R) (P : list (list R)) (u : R) s k d r,
  sortedR U -> (1 <= r)%nat -> (s + r <= p)%nat -> (p <= k)%nat -> (k < length P)%nat -> (k + p < length U)%nat ->
  (knR U (k - s) < u)%R -> (u < knR U (k + 1))%R ->
  Forall (fun pt => length pt = d) P -> (0 <= tol2)%R ->
  knot_removal Rops td tol2 p (knot_insertion_kv U u k r) (knot_insertion Rops p U P u r s k) u r (s + r) (k + r) = P.

Theorem C06_remove_r_insert_r_id_r1_partial : forall td tol2 p (U : list R) (P : list (list R)) (u : R) s k d,
  sortedR U -> (s + 1 <= p)%nat -> (p <= k)%nat -> (k < length P)%nat -> (k + p < length U)%nat ->
  (knR U (k - s) < u)%R -> (u < knR U (k + 1))%R ->
  Forall (fun pt => length pt = d) P -> (0 <= tol2)%R ->
  knot_removal Rops td tol2 p (knot_insertion_kv U u k 1) (knot_insertion Rops p U P u 1 s k) u 1 (s + 1) (k + 1) = P.
Proof.
  intros. replace (s + 1)%nat with (S s) by lia. replace (k + 1)%nat with (S k) by lia.
  eapply remove1_insert1_sorted; eauto. lia.
Qed.
Print Assumptions C06_remove_r_insert_r_id_r1_partial.

(* ---- non-vacuity: a cubic curve with a double interior knot; u = 3/10 inside a span (s = 0, k = 4) and
        u = 1/4 on the simple knot (s = 1, k = 4): hypotheses hold, and the executable model restores the net ---- *)
Definition exU : list Q := [0;0;0;0;1#4;1#2;1#2;1;1;1;1]%Q.
Definition exP : list (list Q) := [[0;0];[1;2];[3;1];[4;4];[6;0];[7;3];[9;1]]%Q.

Example C06_hypotheses_satisfiable_span :
  (0 < 3)%nat /\ (3 <= 4)%nat /\ (4 < length exP)%nat /\ (4 + 3 < length exU)%nat /\
  (kn Qops exU (4 - 0) < 3#10)%Q /\ (3#10 < kn Qops exU (4 + 1))%Q /\
  eqLLQ (knot_removal Qops 2 (1#1000000) 3 (knot_insertion_kv exU (3#10) 4 1) (knot_insertion Qops 3 exU exP (3#10) 1 0 4) (3#10) 1 1 5) exP = true /\
  eqLQ (knot_removal_kv (knot_insertion_kv exU (3#10) 4 1) 5 1) exU = true.
Proof. repeat split; try (vm_compute; congruence); try (cbn; lia). Qed.

Example C06_hypotheses_satisfiable_knot :
  (1 < 3)%nat /\ (3 <= 4)%nat /\ (kn Qops exU (4 - 1) < 1#4)%Q /\ (1#4 < kn Qops exU (4 + 1))%Q /\
  eqLLQ (knot_removal Qops 2 (1#1000000) 3 (knot_insertion_kv exU (1#4) 4 1) (knot_insertion Qops 3 exU exP (1#4) 1 1 4) (1#4) 1 2 5) exP = true.
Proof. repeat split; try (vm_compute; congruence); try (cbn; lia). Qed.

(* the executable model also restores the net after 2 and 3 insertions / removals (instances of the _full statement, by computation) *)
Example C06_remove_r_insert_r_instances :
  eqLLQ (knot_removal Qops 2 (1#1000000) 3 (knot_insertion_kv exU (3#10) 4 2) (knot_insertion Qops 3 exU exP (3#10) 2 0 4) (3#10) 2 2 6) exP = true /\
  eqLLQ (knot_removal Qops 2 (1#1000000) 3 (knot_insertion_kv exU (3#10) 4 3) (knot_insertion Qops 3 exU exP (3#10) 3 0 4) (3#10) 3 3 7) exP = true /\
  (length (knot_removal Qops 2 (1#1000000) 3 exU exP (1#2) 2 2 6) = length exP - 2)%nat.
Proof. repeat split; vm_compute; congruence. Qed.

(* non-vacuity of C06_removal_exact_when_test_is_zero: a net with a removable double knot 1/2 that was NOT produced by
   inserting into exP (it is the refinement of a different curve): the test distance is 0 and re-insertion restores it *)
Definition exQ : list (list Q) := knot_insertion Qops 3 [0;0;0;0;1#2;1;1;1;1]%Q [[0;0];[2;4];[5;1];[6;6];[9;0]]%Q (1#2) 1 1 4.
Definition exUb : list Q := [0;0;0;0;1#2;1#2;1;1;1;1]%Q.
Example C06_removal_exact_instance :
  (1 <= 2 <= 3)%nat /\ (3 + 1 <= 5)%nat /\ (5 - 2 + 1 < length exQ)%nat /\ (5 + 3 < length exUb)%nat /\
  (kn Qops exUb (5 - 2) < 1#2)%Q /\ (1#2 < kn Qops exUb (5 + 1))%Q /\
  Qeq_bool (rem_test Qops 2 3 exUb (1#2) 5 2 exQ 0) 0 = true /\
  eqLLQ (knot_insertion Qops 3 (knot_removal_kv exUb 5 1) (knot_removal Qops 2 (1#1000000) 3 exUb exQ (1#2) 1 2 5) (1#2) 1 1 4) exQ = true.
Proof. repeat split; try (vm_compute; congruence); try (cbn; lia). Qed.

(* non-vacuity of the surface theorems: a 3 x 4 net, degrees (2, 2), su <> sv; insertion then removal in v and in u *)
Definition exS : @surf Q :=
  mkS 2 2 [0;0;0;1;1;1]%Q [0;0;0;1#2;1;1;1]%Q 3 4
    [[0;0;0];[0;1;1];[0;2;0];[0;3;2]; [1;0;1];[1;1;3];[1;2;1];[1;3;0]; [2;0;0];[2;1;1];[2;2;2];[2;3;1]]%Q.
Example C06_surface_instances :
  eqLLQ (surf_rem_v Qops (1#1000000)
     (mkS 2 2 (s_Uu exS) (knot_insertion_kv (s_Uv exS) (1#4) 2 1) 3 5 (surf_net_v Qops exS (1#4) 1 0 2)) (1#4) 1 1 3) (s_P exS) = true /\
  eqLLQ (surf_rem_u Qops (1#1000000)
     (mkS 2 2 (knot_insertion_kv (s_Uu exS) (1#3) 2 1) (s_Uv exS) 4 4 (surf_net_u Qops exS (1#3) 1 0 2)) (1#3) 1 1 3) (s_P exS) = true.
Proof. split; vm_compute; congruence. Qed.

(* ====================== GENERAL REMOVAL COUNTS, SURFACES, VOLUMES (round 2, Proofs/KnotRemGeneral*.v, KnotRemRefine.v) ====================== *)
(* [G] the property's last sentence, every count: inserting u r times (1 <= r <= p - s) and removing it r times restores the
   control points exactly; all degrees, sorted knot vectors, multiplicities s, spans k, nets of points of any common dimension,
   any tolerance >= 0, any test dimension td.  This is the former Definition C06_remove_r_insert_r_id_full, verbatim. *)
Theorem C06_remove_r_insert_r_id : forall td tol2 p (U : list R) (P : list (list R)) (u : R) s k d r,
  sortedR U -> (1 <= r)%nat -> (s + r <= p)%nat -> (p <= k)%nat -> (k < length P)%nat -> (k + p < length U)%nat ->
  (knR U (k - s) < u)%R -> (u < knR U (k + 1))%R ->
  Forall (fun pt => length pt = d) P -> (0 <= tol2)%R ->
  knot_removal Rops td tol2 p (knot_insertion_kv U u k r) (knot_insertion Rops p U P u r s k) u r (s + r) (k + r) = P.
Proof. exact remove_r_insert_r_id. Qed.
Print Assumptions C06_remove_r_insert_r_id.

(* [G] all removal counts up to the number inserted: j <= r removals after r insertions leave exactly the control points of
   r - j insertions (with C06_removal_kv_reduces_by_count: the same for the knot vector) *)
Theorem C06_remove_j_insert_r : forall td tol2 p (U : list R) (P : list (list R)) (u : R) s k d r j,
  sortedR U -> (1 <= j <= r)%nat -> (s + r <= p)%nat -> (p <= k)%nat -> (k < length P)%nat -> (k + p < length U)%nat ->
  (knR U (k - s) < u)%R -> (u < knR U (k + 1))%R ->
  Forall (fun pt => length pt = d) P -> (0 <= tol2)%R ->
  knot_removal Rops td tol2 p (knot_insertion_kv U u k r) (knot_insertion Rops p U P u r s k) u j (s + r) (k + r)
  = knot_insertion Rops p U P u (r - j) s k.
Proof. exact remove_j_insert_r. Qed.
Print Assumptions C06_remove_j_insert_r.

(* [G] in every pass t < r of the removal loop the Eq. 5.30 distance is exactly 0: a previously inserted knot is found
   removable at every pass whatever the tolerance *)
Theorem C06_remove_pass_test_distance_zero : forall td tol2 p (U : list R) (P : list (list R)) (u : R) s k d r t,
  sortedR U -> (t < r)%nat -> (s + r <= p)%nat -> (p <= k)%nat -> (k < length P)%nat -> (k + p < length U)%nat ->
  (knR U (k - s) < u)%R -> (u < knR U (k + 1))%R ->
  Forall (fun pt => length pt = d) P -> (0 <= tol2)%R ->
  rem_test Rops td p (knot_insertion_kv U u k r) u (k + r) (s + r)
    (fold_left (rem_step Rops td tol2 p (knot_insertion_kv U u k r) u (k + r) (s + r)) (seq 0 t)
       (knot_insertion Rops p U P u r s k)) t = 0%R.
Proof. exact remove_pass_test_zero. Qed.
Print Assumptions C06_remove_pass_test_distance_zero.

(* [G] evaluated points: after r insertions, removing j <= r of them (knot vector by knot_removal_kv, control points by
   knot_removal) leaves every coordinate of every curve point equal to the curve before the removal and to the original *)
Theorem C06_remove_preserves_curve_after_insertion : forall td tol2 p (U : list R) (P : list (list R)) (u : R) s k dim r j,
  sortedR U -> (length U = length P + p + 1)%nat -> (1 <= j <= r)%nat -> (s + r <= p)%nat -> (p <= k)%nat -> (k < length P)%nat ->
  (knR U k <= u < knR U (k + 1))%R -> (knR U (k - s) < u)%R ->
  (forall i, (k - s < i <= k)%nat -> knR U i = u) ->
  (forall i, (i < length P)%nat -> length (getp P i) = dim) -> (0 <= tol2)%R ->
  forall c x, (c < dim)%nat ->
  curve_pt p (knot_removal_kv (knot_insertion_kv U u k r) (k + r) j)
             (knot_removal Rops td tol2 p (knot_insertion_kv U u k r) (knot_insertion Rops p U P u r s k) u j (s + r) (k + r)) c x
  = curve_pt p (knot_insertion_kv U u k r) (knot_insertion Rops p U P u r s k) c x
  /\ curve_pt p (knot_insertion_kv U u k r) (knot_insertion Rops p U P u r s k) c x = curve_pt p U P c x.
Proof. exact remove_preserves_curve_after_insertion. Qed.
Print Assumptions C06_remove_preserves_curve_after_insertion.

(* [G] surfaces, v and u direction, all counts j <= r: the net function of operations.remove_knot applied to the surface built by
   operations.insert_knot (surf_after_v / surf_after_u = what insert_knot_surf builds) gives the net insert_knot builds for r - j;
   for j = r the original net.  Separation hypotheses as in C06_remove1_insert1_id_alphas (follow from sortedness). *)
Theorem C06_surface_remove_j_insert_r_v : forall tol2 (g : @surf R) (t : R) s k d r j,
  (s + r <= s_pv g)%nat -> (s_pv g <= k)%nat -> (k < s_sv g)%nat -> (k + s_pv g < length (s_Uv g))%nat ->
  length (s_P g) = (s_sv g * s_su g)%nat -> Forall (fun pt => length pt = d) (s_P g) -> (0 <= tol2)%R ->
  (forall i, (k - s_pv g < i <= k - s)%nat -> (knR (s_Uv g) i < t)%R) ->
  (forall i, (k < i <= k + s_pv g)%nat -> (t < knR (s_Uv g) i)%R) ->
  (1 <= j <= r)%nat ->
  surf_rem_v Rops tol2 (surf_after_v g t r s k) t j (s + r) (k + r) = surf_net_v Rops g t (r - j) s k /\
  (j = r -> surf_rem_v Rops tol2 (surf_after_v g t r s k) t j (s + r) (k + r) = s_P g).
Proof.
  intros tol2 g t s k d r j H1 H2 H3 H4 H5 H6 H7 H8 H9 Hj. split.
  - exact (surf_remove_j_insert_r_v tol2 g t s k d r H1 H2 H3 H4 H5 H6 H7 H8 H9 j Hj).
  - intros ->. exact (surf_remove_r_insert_r_v tol2 g t s k d r H1 H2 H3 H4 H5 H6 H7 H8 H9 ltac:(lia)).
Qed.
Print Assumptions C06_surface_remove_j_insert_r_v.

Theorem C06_surface_remove_j_insert_r_u : forall tol2 (g : @surf R) (t : R) s k d r j,
  (s + r <= s_pu g)%nat -> (s_pu g <= k)%nat -> (k < s_su g)%nat -> (k + s_pu g < length (s_Uu g))%nat ->
  length (s_P g) = (s_sv g * s_su g)%nat -> Forall (fun pt => length pt = d) (s_P g) -> (0 <= tol2)%R ->
  (forall i, (k - s_pu g < i <= k - s)%nat -> (knR (s_Uu g) i < t)%R) ->
  (forall i, (k < i <= k + s_pu g)%nat -> (t < knR (s_Uu g) i)%R) ->
  (1 <= j <= r)%nat ->
  surf_rem_u Rops tol2 (surf_after_u g t r s k) t j (s + r) (k + r) = surf_net_u Rops g t (r - j) s k /\
  (j = r -> surf_rem_u Rops tol2 (surf_after_u g t r s k) t j (s + r) (k + r) = s_P g).
Proof.
  intros tol2 g t s k d r j H1 H2 H3 H4 H5 H6 H7 H8 H9 Hj. split.
  - exact (surf_remove_j_insert_r_u tol2 g t s k d r H1 H2 H3 H4 H5 H6 H7 H8 H9 j Hj).
  - intros ->. exact (surf_remove_r_insert_r_u tol2 g t s k d r H1 H2 H3 H4 H5 H6 H7 H8 H9 ltac:(lia)).
Qed.
Print Assumptions C06_surface_remove_j_insert_r_u.

(* [G] surfaces, evaluated points: the surface object remove_knot_surf builds has the points of the original surface *)
Theorem C06_surface_remove_preserves_points_v : forall tol2 (g : @surf R) (t : R) s k dim r j,
  sortedR (s_Uv g) -> (length (s_Uv g) = s_sv g + s_pv g + 1)%nat -> (1 <= j <= r)%nat -> (s + r <= s_pv g)%nat ->
  (s_pv g <= k)%nat -> (k < s_sv g)%nat ->
  (knR (s_Uv g) k <= t < knR (s_Uv g) (k + 1))%R -> (knR (s_Uv g) (k - s) < t)%R ->
  (forall i, (k - s < i <= k)%nat -> knR (s_Uv g) i = t) ->
  length (s_P g) = (s_sv g * s_su g)%nat -> Forall (fun pt => length pt = dim) (s_P g) -> (0 <= tol2)%R ->
  let g' := surf_after_v g t r s k in
  let g'' := mkS (s_pu g') (s_pv g') (s_Uu g') (knot_removal_kv (s_Uv g') (k + r) j) (s_su g') (s_sv g' - j)
                 (surf_rem_v Rops tol2 g' t j (s + r) (k + r)) in
  forall c tu tv, (c < dim)%nat -> surf_pt g'' c tu tv = surf_pt g c tu tv.
Proof. exact surf_remove_preserves_surface_v. Qed.
Print Assumptions C06_surface_remove_preserves_points_v.

Theorem C06_surface_remove_preserves_points_u : forall tol2 (g : @surf R) (t : R) s k dim r j,
  sortedR (s_Uu g) -> (length (s_Uu g) = s_su g + s_pu g + 1)%nat -> (1 <= j <= r)%nat -> (s + r <= s_pu g)%nat ->
  (s_pu g <= k)%nat -> (k < s_su g)%nat ->
  (knR (s_Uu g) k <= t < knR (s_Uu g) (k + 1))%R -> (knR (s_Uu g) (k - s) < t)%R ->
  (forall i, (k - s < i <= k)%nat -> knR (s_Uu g) i = t) ->
  length (s_P g) = (s_sv g * s_su g)%nat -> Forall (fun pt => length pt = dim) (s_P g) -> (0 <= tol2)%R ->
  let g' := surf_after_u g t r s k in
  let g'' := mkS (s_pu g') (s_pv g') (knot_removal_kv (s_Uu g') (k + r) j) (s_Uv g') (s_su g' - j) (s_sv g')
                 (surf_rem_u Rops tol2 g' t j (s + r) (k + r)) in
  forall c tu tv, (c < dim)%nat -> surf_pt g'' c tu tv = surf_pt g c tu tv.
Proof. exact surf_remove_preserves_surface_u. Qed.
Print Assumptions C06_surface_remove_preserves_points_u.

(* [G] volumes, each direction, all counts j <= r: the net function of operations.remove_knot (rows flattened to long points,
   test on the first point of the row, result cut back with `chunk`) applied to the volume built by operations.insert_knot
   (vol_after_* = what insert_knot_vol builds, row algorithm) gives the net insert_knot builds for r - j; for j = r the original net *)
Theorem C06_volume_remove_j_insert_r_u : forall tol2 (g : @vol R) (t : R) s k d r j,
  (s + r <= v_pu g)%nat -> (v_pu g <= k)%nat -> (k < v_su g)%nat -> (k + v_pu g < length (v_Uu g))%nat ->
  (0 < v_sv g)%nat -> (0 < v_sw g)%nat ->
  (forall i, (i < v_su g * v_sv g * v_sw g)%nat -> length (getp (v_P g) i) = d) -> (0 <= tol2)%R ->
  (forall i, (k - v_pu g < i <= k - s)%nat -> (knR (v_Uu g) i < t)%R) ->
  (forall i, (k < i <= k + v_pu g)%nat -> (t < knR (v_Uu g) i)%R) ->
  (1 <= j <= r)%nat ->
  vol_rem_u Rops tol2 (vol_after_u g t r s k) t j (s + r) (k + r) = vol_net_u Rops g t (r - j) s k /\
  (j = r -> length (v_P g) = (v_su g * v_sv g * v_sw g)%nat ->
   vol_rem_u Rops tol2 (vol_after_u g t r s k) t j (s + r) (k + r) = v_P g).
Proof.
  intros tol2 g t s k d r j H1 H2 H3 H4 H5 H6 H7 H8 H9 H10 Hj. split.
  - exact (vol_remove_j_insert_r_u tol2 g t s k d r H1 H2 H3 H4 H5 H6 H7 H8 H9 H10 j Hj).
  - intros -> HL. exact (vol_remove_r_insert_r_u tol2 g t s k d r H1 H2 H3 H4 H5 H6 H7 H8 H9 H10 ltac:(lia) HL).
Qed.
Print Assumptions C06_volume_remove_j_insert_r_u.

Theorem C06_volume_remove_j_insert_r_v : forall tol2 (g : @vol R) (t : R) s k d r j,
  (s + r <= v_pv g)%nat -> (v_pv g <= k)%nat -> (k < v_sv g)%nat -> (k + v_pv g < length (v_Uv g))%nat ->
  (0 < v_su g)%nat -> (0 < v_sw g)%nat ->
  (forall i, (i < v_su g * v_sv g * v_sw g)%nat -> length (getp (v_P g) i) = d) -> (0 <= tol2)%R ->
  (forall i, (k - v_pv g < i <= k - s)%nat -> (knR (v_Uv g) i < t)%R) ->
  (forall i, (k < i <= k + v_pv g)%nat -> (t < knR (v_Uv g) i)%R) ->
  (1 <= j <= r)%nat ->
  vol_rem_v Rops tol2 (vol_after_v g t r s k) t j (s + r) (k + r) = vol_net_v Rops g t (r - j) s k /\
  (j = r -> length (v_P g) = (v_su g * v_sv g * v_sw g)%nat ->
   vol_rem_v Rops tol2 (vol_after_v g t r s k) t j (s + r) (k + r) = v_P g).
Proof.
  intros tol2 g t s k d r j H1 H2 H3 H4 H5 H6 H7 H8 H9 H10 Hj. split.
  - exact (vol_remove_j_insert_r_v tol2 g t s k d r H1 H2 H3 H4 H5 H6 H7 H8 H9 H10 j Hj).
  - intros -> HL. exact (vol_remove_r_insert_r_v tol2 g t s k d r H1 H2 H3 H4 H5 H6 H7 H8 H9 H10 ltac:(lia) HL).
Qed.
Print Assumptions C06_volume_remove_j_insert_r_v.

Theorem C06_volume_remove_j_insert_r_w : forall tol2 (g : @vol R) (t : R) s k d r j,
  (s + r <= v_pw g)%nat -> (v_pw g <= k)%nat -> (k < v_sw g)%nat -> (k + v_pw g < length (v_Uw g))%nat ->
  (0 < v_su g)%nat -> (0 < v_sv g)%nat ->
  (forall i, (i < v_su g * v_sv g * v_sw g)%nat -> length (getp (v_P g) i) = d) -> (0 <= tol2)%R ->
  (forall i, (k - v_pw g < i <= k - s)%nat -> (knR (v_Uw g) i < t)%R) ->
  (forall i, (k < i <= k + v_pw g)%nat -> (t < knR (v_Uw g) i)%R) ->
  (1 <= j <= r)%nat ->
  vol_rem_w Rops tol2 (vol_after_w g t r s k) t j (s + r) (k + r) = vol_net_w Rops g t (r - j) s k /\
  (j = r -> length (v_P g) = (v_su g * v_sv g * v_sw g)%nat ->
   vol_rem_w Rops tol2 (vol_after_w g t r s k) t j (s + r) (k + r) = v_P g).
Proof.
  intros tol2 g t s k d r j H1 H2 H3 H4 H5 H6 H7 H8 H9 H10 Hj. split.
  - exact (vol_remove_j_insert_r_w tol2 g t s k d r H1 H2 H3 H4 H5 H6 H7 H8 H9 H10 j Hj).
  - intros -> HL. exact (vol_remove_r_insert_r_w tol2 g t s k d r H1 H2 H3 H4 H5 H6 H7 H8 H9 H10 ltac:(lia) HL).
Qed.
Print Assumptions C06_volume_remove_j_insert_r_w.

(* [G] volumes, evaluated points (u direction; _v, _w analogous: vol_remove_preserves_volume_v / _w) *)
Theorem C06_volume_remove_preserves_points_u : forall tol2 (g : @vol R) (t : R) s k dim r j,
  sortedR (v_Uu g) -> (length (v_Uu g) = v_su g + v_pu g + 1)%nat -> (1 <= j <= r)%nat -> (s + r <= v_pu g)%nat ->
  (v_pu g <= k)%nat -> (k < v_su g)%nat -> (0 < v_sv g)%nat -> (0 < v_sw g)%nat ->
  (knR (v_Uu g) k <= t < knR (v_Uu g) (k + 1))%R -> (knR (v_Uu g) (k - s) < t)%R ->
  (forall i, (k - s < i <= k)%nat -> knR (v_Uu g) i = t) ->
  (forall i, (i < v_su g * v_sv g * v_sw g)%nat -> length (getp (v_P g) i) = dim) -> (0 <= tol2)%R ->
  let g' := vol_after_u g t r s k in
  let g'' := mkV (v_pu g') (v_pv g') (v_pw g') (knot_removal_kv (v_Uu g') (k + r) j) (v_Uv g') (v_Uw g')
                 (v_su g' - j) (v_sv g') (v_sw g') (vol_rem_u Rops tol2 g' t j (s + r) (k + r)) in
  forall c tu tv tw, (c < dim)%nat -> vol_pt g'' c tu tv tw = vol_pt g c tu tv tw.
Proof. exact vol_remove_preserves_volume_u. Qed.
Print Assumptions C06_volume_remove_preserves_points_u.

Theorem C06_volume_remove_preserves_points_v : forall tol2 (g : @vol R) (t : R) s k dim r j,
  sortedR (v_Uv g) -> (length (v_Uv g) = v_sv g + v_pv g + 1)%nat -> (1 <= j <= r)%nat -> (s + r <= v_pv g)%nat ->
  (v_pv g <= k)%nat -> (k < v_sv g)%nat -> (0 < v_su g)%nat -> (0 < v_sw g)%nat ->
  (knR (v_Uv g) k <= t < knR (v_Uv g) (k + 1))%R -> (knR (v_Uv g) (k - s) < t)%R ->
  (forall i, (k - s < i <= k)%nat -> knR (v_Uv g) i = t) ->
  (forall i, (i < v_su g * v_sv g * v_sw g)%nat -> length (getp (v_P g) i) = dim) -> (0 <= tol2)%R ->
  let g' := vol_after_v g t r s k in
  let g'' := mkV (v_pu g') (v_pv g') (v_pw g') (v_Uu g') (knot_removal_kv (v_Uv g') (k + r) j) (v_Uw g')
                 (v_su g') (v_sv g' - j) (v_sw g') (vol_rem_v Rops tol2 g' t j (s + r) (k + r)) in
  forall c tu tv tw, (c < dim)%nat -> vol_pt g'' c tu tv tw = vol_pt g c tu tv tw.
Proof. exact vol_remove_preserves_volume_v. Qed.
Print Assumptions C06_volume_remove_preserves_points_v.

Theorem C06_volume_remove_preserves_points_w : forall tol2 (g : @vol R) (t : R) s k dim r j,
  sortedR (v_Uw g) -> (length (v_Uw g) = v_sw g + v_pw g + 1)%nat -> (1 <= j <= r)%nat -> (s + r <= v_pw g)%nat ->
  (v_pw g <= k)%nat -> (k < v_sw g)%nat -> (0 < v_su g)%nat -> (0 < v_sv g)%nat ->
  (knR (v_Uw g) k <= t < knR (v_Uw g) (k + 1))%R -> (knR (v_Uw g) (k - s) < t)%R ->
  (forall i, (k - s < i <= k)%nat -> knR (v_Uw g) i = t) ->
  (forall i, (i < v_su g * v_sv g * v_sw g)%nat -> length (getp (v_P g) i) = dim) -> (0 <= tol2)%R ->
  let g' := vol_after_w g t r s k in
  let g'' := mkV (v_pu g') (v_pv g') (v_pw g') (v_Uu g') (v_Uv g') (knot_removal_kv (v_Uw g') (k + r) j)
                 (v_su g') (v_sv g') (v_sw g' - j) (vol_rem_w Rops tol2 g' t j (s + r) (k + r)) in
  forall c tu tv tw, (c < dim)%nat -> vol_pt g'' c tu tv tw = vol_pt g c tu tv tw.
Proof. exact vol_remove_preserves_volume_w. Qed.
Print Assumptions C06_volume_remove_preserves_points_w.

(* ---- non-vacuity (exact rationals, the executable model): cubic curve exU/exP of Props/C06.v ---- *)
(* exU, exP: already defined in Props/C06.v, do not repeat *)

(* r = 3 insertions at 3/10 (s = 0, k = 4), then j = 1, 2, 3 removals: r - j insertions remain; r = 2 at the simple knot 1/4 (s = 1) *)
Example C06_remove_j_insert_r_instances :
  (0 + 3 <= 3)%nat /\ (3 <= 4)%nat /\ (4 < length exP)%nat /\ (4 + 3 < length exU)%nat /\
  (kn Qops exU (4 - 0) < 3#10)%Q /\ (3#10 < kn Qops exU (4 + 1))%Q /\
  eqLLQ (knot_removal Qops 2 (1#1000000) 3 (knot_insertion_kv exU (3#10) 4 3) (knot_insertion Qops 3 exU exP (3#10) 3 0 4) (3#10) 1 3 7)
        (knot_insertion Qops 3 exU exP (3#10) 2 0 4) = true /\
  eqLLQ (knot_removal Qops 2 (1#1000000) 3 (knot_insertion_kv exU (3#10) 4 3) (knot_insertion Qops 3 exU exP (3#10) 3 0 4) (3#10) 2 3 7)
        (knot_insertion Qops 3 exU exP (3#10) 1 0 4) = true /\
  eqLLQ (knot_removal Qops 2 (1#1000000) 3 (knot_insertion_kv exU (3#10) 4 3) (knot_insertion Qops 3 exU exP (3#10) 3 0 4) (3#10) 3 3 7) exP = true /\
  (1 + 2 <= 3)%nat /\ (kn Qops exU (4 - 1) < 1#4)%Q /\ (1#4 < kn Qops exU (4 + 1))%Q /\
  eqLLQ (knot_removal Qops 2 (1#1000000) 3 (knot_insertion_kv exU (1#4) 4 2) (knot_insertion Qops 3 exU exP (1#4) 2 1 4) (1#4) 2 3 6) exP = true /\
  eqLLQ (knot_removal Qops 2 (1#1000000) 3 (knot_insertion_kv exU (1#4) 4 2) (knot_insertion Qops 3 exU exP (1#4) 2 1 4) (1#4) 1 3 6)
        (knot_insertion Qops 3 exU exP (1#4) 1 1 4) = true.
Proof. repeat split; try (vm_compute; congruence); try (cbn; lia). Qed.

(* a 3 x 2 x 2 volume, degrees (2, 1, 1), su <> sv: two insertions in u at 1/3 (row algorithm), then 1 and 2 removals in u
   (flattened rows, chunk): the nets insert_knot builds for 1 and 0 insertions *)
Definition exV : @vol Q :=
  mkV 2 1 1 [0;0;0;1;1;1]%Q [0;0;1;1]%Q [0;0;1;1]%Q 3 2 2
    [[0;0;0];[0;1;1];[1;0;2];[1;1;0];[2;0;1];[2;1;3]; [0;0;5];[0;1;4];[1;0;6];[1;1;7];[2;0;5];[2;1;4]]%Q.
Definition exV2 : @vol Q :=
  mkV 2 1 1 (knot_insertion_kv (v_Uu exV) (1#3) 2 2) (v_Uv exV) (v_Uw exV) 5 2 2 (vol_net_u Qops exV (1#3) 2 0 2).
Example C06_volume_instances :
  eqLLQ (vol_rem_u Qops (1#1000000) exV2 (1#3) 1 2 4) (vol_net_u Qops exV (1#3) 1 0 2) = true /\
  eqLLQ (vol_rem_u Qops (1#1000000) exV2 (1#3) 2 2 4) (v_P exV) = true.
Proof. split; vm_compute; congruence. Qed.

(* [B: one refined knot] a knot produced by refinement: A5.4 (Model.KnotRefine.refine_pts) with the single new knot x computes
   exactly knot_insertion / knot_insertion_kv, so removing x once restores the control points and the knot vector.
   General refinement lists X are tied by the correspondence check + oracle only. *)
Theorem C06_remove_after_refine_X1 : forall td (tol tol2 : R) p (U : list R) (P : list (list R)) (x : R) dim s,
  (1 <= p)%nat -> sortedR U -> (p < length P)%nat -> (length U = length P + p + 1)%nat ->
  (knR U p <= x < knR U (length P))%R ->
  (forall i, (i < length U)%nat -> (x < knR U i)%R -> (tol <= knR U i - x)%R) ->
  (forall i, (i < length P)%nat -> length (getp P i) = dim) -> (0 <= tol2)%R ->
  let a := find_span_linear Rops p U (length P) x in
  (s + 1 <= p)%nat -> (forall i, (a - s < i <= a)%nat -> knR U i = x) -> (knR U (a - s) < x)%R ->
  let '(Q, V) := refine_pts Rops tol p U P [x] in
  knot_removal Rops td tol2 p V Q x 1 (s + 1) (a + 1) = P /\ knot_removal_kv V (a + 1) 1 = U.
Proof. intros td tol tol2 p U P x dim s H1 H2 H3 H4 H5 H6 H7 H8 a H9 H10 H11. exact (remove_after_refine_one td tol tol2 p U P x dim s H1 H2 H3 H4 H5 H6 H7 H8 H9 H10 H11). Qed.
Print Assumptions C06_remove_after_refine_X1.




(* ====================== SEVERAL DIRECTIONS IN ONE CALL (Proofs/KnotRemMultiDir.v) ======================
   "... removing it that many times in any direction of a curve, surface or volume": operations.insert_knot and
   operations.remove_knot each process the directions u, v, w in this order inside ONE call, every direction on the result of
   the previous one.  So after insert_knot(obj, [tu, tv, tw], [ru, rv, rw]) the u-removal of remove_knot(obj, [tu, tv, tw],
   [ru, rv, rw]) works on a net that still contains the v- and w-insertions.  It still restores everything because insertions
   in different parametric directions commute on control nets (KI_commute: a row operation and a column operation on a tensor
   net commute, entry by entry, because helpers.knot_insertion is linear in the control points and natural in the point type).
   Vocabulary of Proofs/InsertOpSurf.v: swf / vwf = valid surface / volume with points of dimension dim; par_ok = a requested
   parameter lies in the half-open domain and the multiplicity tolerance does not confuse distinct knots; None or count 0 =
   direction not requested. *)

(* [G] the algebraic core: knot insertion along the first index of a doubly indexed family of points (degree pa, knots Ua,
   parameter ta, count ra, multiplicity sa, span ka) and along the second index (pb, Ub, tb, rb, sb, kb) commute *)
Theorem C06_insertions_in_two_directions_commute :
  forall (pa : nat) (Ua : list R) (ta : R) (ra sa ka pb : nat) (Ub : list R) (tb : R) (rb sb kb na nb d : nat)
         (F : nat -> nat -> list R),
  (sa <= pa)%nat -> (pa <= ka)%nat -> (ka < na)%nat -> (ra <= pa - sa)%nat ->
  (sb <= pb)%nat -> (pb <= kb)%nat -> (kb < nb)%nat -> (rb <= pb - sb)%nat ->
  (forall i j, (i < na)%nat -> (j < nb)%nat -> length (F i j) = d) ->
  forall i' j',
  getp (knot_insertion Rops pb Ub
          (map (fun j => getp (knot_insertion Rops pa Ua (map (fun i => F i j) (seq 0 na)) ta ra sa ka) i') (seq 0 nb)) tb rb sb kb) j'
  = getp (knot_insertion Rops pa Ua
          (map (fun i => getp (knot_insertion Rops pb Ub (map (fun j => F i j) (seq 0 nb)) tb rb sb kb) j') (seq 0 na)) ta ra sa ka) i'.
Proof. exact KI_commute. Qed.
Print Assumptions C06_insertions_in_two_directions_commute.

(* [G] surfaces, control nets: u then v (the order of insert_knot) = v then u *)
Theorem C06_surface_insertion_nets_commute : forall (g : @surf R) (tu : R) (ru s_u ku : nat) (tv : R) (rv s_v kv d : nat),
  (s_u <= s_pu g)%nat -> (s_pu g <= ku)%nat -> (ku < s_su g)%nat -> (ru <= s_pu g - s_u)%nat ->
  (s_v <= s_pv g)%nat -> (s_pv g <= kv)%nat -> (kv < s_sv g)%nat -> (rv <= s_pv g - s_v)%nat ->
  (forall i, (i < s_sv g * s_su g)%nat -> length (getp (s_P g) i) = d) ->
  surf_net_v Rops (surf_ins_u g tu s_u ku ru) tv rv s_v kv = surf_net_u Rops (surf_ins_v g tv s_v kv rv) tu ru s_u ku.
Proof. exact surf_nets_commute. Qed.
Print Assumptions C06_surface_insertion_nets_commute.

(* [G] THE SURFACE STATEMENT: every accepted insert_knot(surf, [ou, ov], [nu, nv]) (any subset of directions, every degree, size,
   multiplicity; the code's own span / multiplicity searches, also on the inserted knot vectors) followed by
   remove_knot(surf', [ou, ov], [nu, nv]) does not raise and returns the ORIGINAL surface record: degrees, both knot vectors,
   both sizes and the whole control net (tol = multiplicity tolerance, tol2 = squared removal tolerance, both >= 0) *)
Theorem C06_surface_remove_after_insert_all_directions : forall (tol tol2 : R) (g : surf (T:=R)) (ou ov : option R) (nu nv dim : nat),
  swf g dim -> length (s_P g) = (s_sv g * s_su g)%nat ->
  par_ok tol (s_pu g) (s_Uu g) (s_su g) ou -> par_ok tol (s_pv g) (s_Uv g) (s_sv g) ov -> (0 <= tol)%R -> (0 <= tol2)%R ->
  forall g2, insert_knot_surf Rops tol true g [ou; ov] [Z.of_nat nu; Z.of_nat nv] = (g2, false) ->
  remove_knot_surf Rops tol tol2 true g2 [ou; ov] [Z.of_nat nu; Z.of_nat nv] = (g, false).
Proof. exact insert_then_remove_surf_restores. Qed.
Print Assumptions C06_surface_remove_after_insert_all_directions.

(* [G] ... and in any case every surface point is unchanged, at all three stages *)
Theorem C06_surface_remove_after_insert_points : forall (tol tol2 : R) (g : surf (T:=R)) (ou ov : option R) (nu nv dim : nat),
  swf g dim -> length (s_P g) = (s_sv g * s_su g)%nat ->
  par_ok tol (s_pu g) (s_Uu g) (s_su g) ou -> par_ok tol (s_pv g) (s_Uv g) (s_sv g) ov -> (0 <= tol)%R -> (0 <= tol2)%R ->
  forall g2 g3 raised, insert_knot_surf Rops tol true g [ou; ov] [Z.of_nat nu; Z.of_nat nv] = (g2, false) ->
  remove_knot_surf Rops tol tol2 true g2 [ou; ov] [Z.of_nat nu; Z.of_nat nv] = (g3, raised) ->
  raised = false /\ g3 = g /\
  s_su g2 = (s_su g + eff ou nu)%nat /\ s_sv g2 = (s_sv g + eff ov nv)%nat /\
  forall c tu tv, (c < dim)%nat -> surf_pt g2 c tu tv = surf_pt g c tu tv /\ surf_pt g3 c tu tv = surf_pt g2 c tu tv.
Proof. exact insert_then_remove_surf_points. Qed.
Print Assumptions C06_surface_remove_after_insert_points.

(* [G] volumes, control nets: the three pairs of directions commute *)
Theorem C06_volume_insertion_nets_commute : forall (g : @vol R) (d : nat),
  (forall i, (i < v_su g * v_sv g * v_sw g)%nat -> length (getp (v_P g) i) = d) ->
  forall (tu : R) (ru s_u ku : nat) (tv : R) (rv s_v kv : nat) (tw : R) (rw s_w kw : nat),
  ((s_u <= v_pu g)%nat -> (v_pu g <= ku)%nat -> (ku < v_su g)%nat -> (ru <= v_pu g - s_u)%nat ->
   (s_v <= v_pv g)%nat -> (v_pv g <= kv)%nat -> (kv < v_sv g)%nat -> (rv <= v_pv g - s_v)%nat ->
   vol_net_v Rops (vol_after_u g tu ru s_u ku) tv rv s_v kv = vol_net_u Rops (vol_after_v g tv rv s_v kv) tu ru s_u ku) /\
  ((s_u <= v_pu g)%nat -> (v_pu g <= ku)%nat -> (ku < v_su g)%nat -> (ru <= v_pu g - s_u)%nat ->
   (s_w <= v_pw g)%nat -> (v_pw g <= kw)%nat -> (kw < v_sw g)%nat -> (rw <= v_pw g - s_w)%nat -> (0 < v_sv g)%nat ->
   vol_net_w Rops (vol_after_u g tu ru s_u ku) tw rw s_w kw = vol_net_u Rops (vol_after_w g tw rw s_w kw) tu ru s_u ku) /\
  ((s_v <= v_pv g)%nat -> (v_pv g <= kv)%nat -> (kv < v_sv g)%nat -> (rv <= v_pv g - s_v)%nat ->
   (s_w <= v_pw g)%nat -> (v_pw g <= kw)%nat -> (kw < v_sw g)%nat -> (rw <= v_pw g - s_w)%nat -> (0 < v_su g)%nat ->
   vol_net_w Rops (vol_after_v g tv rv s_v kv) tw rw s_w kw = vol_net_v Rops (vol_after_w g tw rw s_w kw) tv rv s_v kv).
Proof.
  intros g d Hd tu ru s_u ku tv rv s_v kv tw rw s_w kw. split; [|split].
  - exact (vol_nets_commute_uv g d Hd tu ru s_u ku tv rv s_v kv).
  - exact (vol_nets_commute_uw g d Hd tu ru s_u ku tw rw s_w kw).
  - exact (vol_nets_commute_vw g d Hd tv rv s_v kv tw rw s_w kw).
Qed.
Print Assumptions C06_volume_insertion_nets_commute.

(* [G] THE VOLUME STATEMENT: accepted insert_knot(vol, [ou, ov, ow], [nu, nv, nw]) followed by remove_knot with the same
   arguments does not raise and returns the ORIGINAL volume record (degrees, three knot vectors, three sizes, control net) *)
Theorem C06_volume_remove_after_insert_all_directions :
  forall (tol tol2 : R) (g : vol (T:=R)) (ou ov ow : option R) (nu nv nw dim : nat),
  vwf g dim -> length (v_P g) = (v_su g * v_sv g * v_sw g)%nat ->
  par_ok tol (v_pu g) (v_Uu g) (v_su g) ou -> par_ok tol (v_pv g) (v_Uv g) (v_sv g) ov ->
  par_ok tol (v_pw g) (v_Uw g) (v_sw g) ow -> (0 <= tol)%R -> (0 <= tol2)%R ->
  forall g3, insert_knot_vol Rops tol true g [ou; ov; ow] [Z.of_nat nu; Z.of_nat nv; Z.of_nat nw] = (g3, false) ->
  remove_knot_vol Rops tol tol2 true g3 [ou; ov; ow] [Z.of_nat nu; Z.of_nat nv; Z.of_nat nw] = (g, false).
Proof. exact insert_then_remove_vol_restores. Qed.
Print Assumptions C06_volume_remove_after_insert_all_directions.

Theorem C06_volume_remove_after_insert_points :
  forall (tol tol2 : R) (g : vol (T:=R)) (ou ov ow : option R) (nu nv nw dim : nat),
  vwf g dim -> length (v_P g) = (v_su g * v_sv g * v_sw g)%nat ->
  par_ok tol (v_pu g) (v_Uu g) (v_su g) ou -> par_ok tol (v_pv g) (v_Uv g) (v_sv g) ov ->
  par_ok tol (v_pw g) (v_Uw g) (v_sw g) ow -> (0 <= tol)%R -> (0 <= tol2)%R ->
  forall g3 g4 raised, insert_knot_vol Rops tol true g [ou; ov; ow] [Z.of_nat nu; Z.of_nat nv; Z.of_nat nw] = (g3, false) ->
  remove_knot_vol Rops tol tol2 true g3 [ou; ov; ow] [Z.of_nat nu; Z.of_nat nv; Z.of_nat nw] = (g4, raised) ->
  raised = false /\ g4 = g /\
  forall c tu tv tw, (c < dim)%nat -> vol_pt g3 c tu tv tw = vol_pt g c tu tv tw /\ vol_pt g4 c tu tv tw = vol_pt g3 c tu tv tw.
Proof. exact insert_then_remove_vol_points. Qed.
Print Assumptions C06_volume_remove_after_insert_points.

(* ---- non-vacuity at the executable instance (exact rationals): a 3 x 4 biquadratic net, two knots at 1/3 in u (new) and one at
        1/2 in v (already a knot: multiplicity 1 -> 2) in ONE insert call, removed in ONE remove call; a 3 x 2 x 3 volume of degrees
        (2,1,2) with insertions in all three directions.  (exSm = exS of Props/C06.v; named differently so that this file compiles
        on its own.) ---- *)
Definition exSm : @surf Q :=
  mkS 2 2 [0;0;0;1;1;1]%Q [0;0;0;1#2;1;1;1]%Q 3 4
    [[0;0;0];[0;1;1];[0;2;0];[0;3;2]; [1;0;1];[1;1;3];[1;2;1];[1;3;0]; [2;0;0];[2;1;1];[2;2;2];[2;3;1]]%Q.
Example C06_surface_two_directions_instance :
  let r := insert_knot_surf Qops 0%Q true exSm [Some (1#3)%Q; Some (1#2)%Q] [2%Z; 1%Z] in
  let r' := remove_knot_surf Qops 0%Q (1#1000000)%Q true (fst r) [Some (1#3)%Q; Some (1#2)%Q] [2%Z; 1%Z] in
  snd r = false /\ s_su (fst r) = 5%nat /\ s_sv (fst r) = 5%nat /\
  snd r' = false /\ s_su (fst r') = 3%nat /\ s_sv (fst r') = 4%nat /\
  eqLQ (s_Uu (fst r')) (s_Uu exSm) = true /\ eqLQ (s_Uv (fst r')) (s_Uv exSm) = true /\
  eqLLQ (s_P (fst r')) (s_P exSm) = true.
Proof. cbv zeta. repeat split; vm_compute; congruence. Qed.

Definition exVm : @vol Q :=
  mkV 2 1 2 [0;0;0;1;1;1]%Q [0;0;1;1]%Q [0;0;0;1;1;1]%Q 3 2 3
    [[0;0;0];[0;1;1];[1;0;2];[1;1;0];[2;0;1];[2;1;3]; [0;0;5];[0;1;4];[1;0;6];[1;1;7];[2;0;5];[2;1;4];
     [0;0;9];[0;1;8];[1;0;9];[1;1;11];[2;0;10];[2;1;8]]%Q.
Example C06_volume_three_directions_instance :
  let r := insert_knot_vol Qops 0%Q true exVm [Some (1#3)%Q; Some (1#2)%Q; Some (1#4)%Q] [2%Z; 1%Z; 1%Z] in
  let r' := remove_knot_vol Qops 0%Q (1#1000000)%Q true (fst r) [Some (1#3)%Q; Some (1#2)%Q; Some (1#4)%Q] [2%Z; 1%Z; 1%Z] in
  snd r = false /\ v_su (fst r) = 5%nat /\ v_sv (fst r) = 3%nat /\ v_sw (fst r) = 4%nat /\
  snd r' = false /\ v_su (fst r') = 3%nat /\ v_sv (fst r') = 2%nat /\ v_sw (fst r') = 3%nat /\
  eqLQ (v_Uu (fst r')) (v_Uu exVm) = true /\ eqLQ (v_Uv (fst r')) (v_Uv exVm) = true /\ eqLQ (v_Uw (fst r')) (v_Uw exVm) = true /\
  eqLLQ (v_P (fst r')) (v_P exVm) = true.
Proof. cbv zeta. repeat split; vm_compute; congruence. Qed.


From Coq Require Import Permutation.
From NV Require Import Proofs.RefineDefault Proofs.RefineOp Proofs.KnotRemMore Proofs.KnotRemMoreRefine Proofs.KnotRemMoreOrder Proofs.KnotRemMoreExamples.


(* ====================== SEVERAL DIRECTIONS IN ONE CALL, SMALLER REMOVAL COUNTS (Proofs/KnotRemMore.v) ======================
   "... then removing it (that many times, or FEWER) in any direction": remove_knot(obj', params, [ju, jv(, jw)]) after an accepted
   insert_knot(obj, params, [ru, rv(, rw)]) with ju <= ru, jv <= rv(, jw <= rw) returns EXACTLY what
   insert_knot(obj, params, [ru - ju, rv - jv(, rw - jw)]) returns (whole record and exception flag).  Vocabulary: swf / vwf, par_ok,
   eff, kv_after of Proofs/InsertOpSurf.v (see C06_surface_remove_after_insert_all_directions). *)

(* [G] surfaces, any subset of directions, all degrees / sizes / multiplicities / counts, tolerances >= 0 *)
Theorem C06_surface_remove_fewer_after_insert : forall (tol tol2 : R) (g : surf (T:=R)) (ou ov : option R) (ru rv ju jv dim : nat),
  swf g dim -> length (s_P g) = (s_sv g * s_su g)%nat ->
  par_ok tol (s_pu g) (s_Uu g) (s_su g) ou -> par_ok tol (s_pv g) (s_Uv g) (s_sv g) ov -> (0 <= tol)%R -> (0 <= tol2)%R ->
  (ju <= ru)%nat -> (jv <= rv)%nat ->
  forall g2, insert_knot_surf Rops tol true g [ou; ov] [Z.of_nat ru; Z.of_nat rv] = (g2, false) ->
  remove_knot_surf Rops tol tol2 true g2 [ou; ov] [Z.of_nat ju; Z.of_nat jv]
  = insert_knot_surf Rops tol true g [ou; ov] [Z.of_nat (ru - ju); Z.of_nat (rv - jv)] /\
  snd (insert_knot_surf Rops tol true g [ou; ov] [Z.of_nat (ru - ju); Z.of_nat (rv - jv)]) = false.
Proof. exact insert_then_remove_less_surf. Qed.
Print Assumptions C06_surface_remove_fewer_after_insert.

(* [G] ... read on the result: no exception, sizes / knot vectors are those of the insertion with the count differences, every
   surface point is unchanged after the insertion and after the partial removal *)
Theorem C06_surface_remove_fewer_after_insert_points : forall (tol tol2 : R) (g : surf (T:=R)) (ou ov : option R) (ru rv ju jv dim : nat),
  swf g dim -> length (s_P g) = (s_sv g * s_su g)%nat ->
  par_ok tol (s_pu g) (s_Uu g) (s_su g) ou -> par_ok tol (s_pv g) (s_Uv g) (s_sv g) ov -> (0 <= tol)%R -> (0 <= tol2)%R ->
  (ju <= ru)%nat -> (jv <= rv)%nat ->
  forall g2 g3 raised, insert_knot_surf Rops tol true g [ou; ov] [Z.of_nat ru; Z.of_nat rv] = (g2, false) ->
  remove_knot_surf Rops tol tol2 true g2 [ou; ov] [Z.of_nat ju; Z.of_nat jv] = (g3, raised) ->
  raised = false /\
  s_su g3 = (s_su g + eff ou (ru - ju))%nat /\ s_sv g3 = (s_sv g + eff ov (rv - jv))%nat /\
  s_Uu g3 = kv_after (s_pu g) (s_Uu g) (s_su g) ou (ru - ju) /\ s_Uv g3 = kv_after (s_pv g) (s_Uv g) (s_sv g) ov (rv - jv) /\
  s_pu g3 = s_pu g /\ s_pv g3 = s_pv g /\ swf g3 dim /\
  forall c tu tv, (c < dim)%nat -> surf_pt g2 c tu tv = surf_pt g c tu tv /\ surf_pt g3 c tu tv = surf_pt g c tu tv.
Proof. exact insert_then_remove_less_surf_points. Qed.
Print Assumptions C06_surface_remove_fewer_after_insert_points.

(* [G] volumes, any subset of the three directions *)
Theorem C06_volume_remove_fewer_after_insert :
  forall (tol tol2 : R) (g : vol (T:=R)) (ou ov ow : option R) (ru rv rw ju jv jw dim : nat),
  vwf g dim -> length (v_P g) = (v_su g * v_sv g * v_sw g)%nat ->
  par_ok tol (v_pu g) (v_Uu g) (v_su g) ou -> par_ok tol (v_pv g) (v_Uv g) (v_sv g) ov ->
  par_ok tol (v_pw g) (v_Uw g) (v_sw g) ow -> (0 <= tol)%R -> (0 <= tol2)%R ->
  (ju <= ru)%nat -> (jv <= rv)%nat -> (jw <= rw)%nat ->
  forall g3, insert_knot_vol Rops tol true g [ou; ov; ow] [Z.of_nat ru; Z.of_nat rv; Z.of_nat rw] = (g3, false) ->
  remove_knot_vol Rops tol tol2 true g3 [ou; ov; ow] [Z.of_nat ju; Z.of_nat jv; Z.of_nat jw]
  = insert_knot_vol Rops tol true g [ou; ov; ow] [Z.of_nat (ru - ju); Z.of_nat (rv - jv); Z.of_nat (rw - jw)] /\
  snd (insert_knot_vol Rops tol true g [ou; ov; ow] [Z.of_nat (ru - ju); Z.of_nat (rv - jv); Z.of_nat (rw - jw)]) = false.
Proof. exact insert_then_remove_less_vol. Qed.
Print Assumptions C06_volume_remove_fewer_after_insert.

Theorem C06_volume_remove_fewer_after_insert_points :
  forall (tol tol2 : R) (g : vol (T:=R)) (ou ov ow : option R) (ru rv rw ju jv jw dim : nat),
  vwf g dim -> length (v_P g) = (v_su g * v_sv g * v_sw g)%nat ->
  par_ok tol (v_pu g) (v_Uu g) (v_su g) ou -> par_ok tol (v_pv g) (v_Uv g) (v_sv g) ov ->
  par_ok tol (v_pw g) (v_Uw g) (v_sw g) ow -> (0 <= tol)%R -> (0 <= tol2)%R ->
  (ju <= ru)%nat -> (jv <= rv)%nat -> (jw <= rw)%nat ->
  forall g3 g4 raised, insert_knot_vol Rops tol true g [ou; ov; ow] [Z.of_nat ru; Z.of_nat rv; Z.of_nat rw] = (g3, false) ->
  remove_knot_vol Rops tol tol2 true g3 [ou; ov; ow] [Z.of_nat ju; Z.of_nat jv; Z.of_nat jw] = (g4, raised) ->
  raised = false /\
  v_su g4 = (v_su g + eff ou (ru - ju))%nat /\ v_sv g4 = (v_sv g + eff ov (rv - jv))%nat /\ v_sw g4 = (v_sw g + eff ow (rw - jw))%nat /\
  v_Uu g4 = kv_after (v_pu g) (v_Uu g) (v_su g) ou (ru - ju) /\ v_Uv g4 = kv_after (v_pv g) (v_Uv g) (v_sv g) ov (rv - jv) /\
  v_Uw g4 = kv_after (v_pw g) (v_Uw g) (v_sw g) ow (rw - jw) /\ vwf g4 dim /\
  forall c tu tv tw, (c < dim)%nat -> vol_pt g3 c tu tv tw = vol_pt g c tu tv tw /\ vol_pt g4 c tu tv tw = vol_pt g c tu tv tw.
Proof. exact insert_then_remove_less_vol_points. Qed.
Print Assumptions C06_volume_remove_fewer_after_insert_points.

(* ---- non-vacuity over the REALS (Proofs/KnotRemMoreExamples.v): a biquadratic 3 x 4 surface, insert [1/3, 1/2] x [2, 1], remove [1, 1];
        a 3 x 2 x 3 volume of degrees (2,1,2), insert [1/3, 1/2, 1/4] x [2, 1, 1], remove [1, 0, 1]: every hypothesis holds (the insert
        call is accepted), hence the conclusion *)
Example C06_surface_remove_fewer_hypotheses_satisfiable :
  swf exGR 3 /\ length (s_P exGR) = (s_sv exGR * s_su exGR)%nat /\
  par_ok (1/1000) (s_pu exGR) (s_Uu exGR) (s_su exGR) (Some (1/3)%R) /\ par_ok (1/1000) (s_pv exGR) (s_Uv exGR) (s_sv exGR) (Some (1/2)%R) /\
  (0 <= 1/1000)%R /\ (0 <= 1/1000000)%R /\ (1 <= 2)%nat /\ (1 <= 1)%nat /\
  exists g2, insert_knot_surf Rops (1/1000)%R true exGR [Some (1/3)%R; Some (1/2)%R] [Z.of_nat 2; Z.of_nat 1] = (g2, false).
Proof. exact less_surf_hypotheses_satisfiable. Qed.

Example C06_volume_remove_fewer_hypotheses_satisfiable :
  vwf exVR 3 /\ length (v_P exVR) = (v_su exVR * v_sv exVR * v_sw exVR)%nat /\
  par_ok (1/1000) (v_pu exVR) (v_Uu exVR) (v_su exVR) (Some (1/3)%R) /\ par_ok (1/1000) (v_pv exVR) (v_Uv exVR) (v_sv exVR) (Some (1/2)%R) /\
  par_ok (1/1000) (v_pw exVR) (v_Uw exVR) (v_sw exVR) (Some (1/4)%R) /\
  (0 <= 1/1000)%R /\ (0 <= 1/1000000)%R /\ (1 <= 2)%nat /\ (0 <= 1)%nat /\ (1 <= 1)%nat /\
  exists g3, insert_knot_vol Rops (1/1000)%R true exVR [Some (1/3)%R; Some (1/2)%R; Some (1/4)%R] [Z.of_nat 2; Z.of_nat 1; Z.of_nat 1] = (g3, false).
Proof. exact less_vol_hypotheses_satisfiable. Qed.

(* ---- ... and at the executable instance (exact rationals): the same surface / volume, the model run by vm_compute ---- *)
Definition exSl : @surf Q :=
  mkS 2 2 [0;0;0;1;1;1]%Q [0;0;0;1#2;1;1;1]%Q 3 4
    [[0;0;0];[0;1;1];[0;2;0];[0;3;2]; [1;0;1];[1;1;3];[1;2;1];[1;3;0]; [2;0;0];[2;1;1];[2;2;2];[2;3;1]]%Q.
Example C06_surface_remove_fewer_instance :
  let r := insert_knot_surf Qops 0%Q true exSl [Some (1#3)%Q; Some (1#2)%Q] [2%Z; 1%Z] in
  let r' := remove_knot_surf Qops 0%Q (1#1000000)%Q true (fst r) [Some (1#3)%Q; Some (1#2)%Q] [1%Z; 1%Z] in
  let r'' := insert_knot_surf Qops 0%Q true exSl [Some (1#3)%Q; Some (1#2)%Q] [1%Z; 0%Z] in
  snd r = false /\ s_su (fst r) = 5%nat /\ s_sv (fst r) = 5%nat /\
  snd r' = false /\ snd r'' = false /\ s_su (fst r') = 4%nat /\ s_sv (fst r') = 4%nat /\
  eqLQ (s_Uu (fst r')) (s_Uu (fst r'')) = true /\ eqLQ (s_Uv (fst r')) (s_Uv (fst r'')) = true /\
  eqLLQ (s_P (fst r')) (s_P (fst r'')) = true /\ eqLQ (s_Uv (fst r')) (s_Uv exSl) = true.
Proof. cbv zeta. repeat split; vm_compute; congruence. Qed.

Definition exVl : @vol Q :=
  mkV 2 1 2 [0;0;0;1;1;1]%Q [0;0;1;1]%Q [0;0;0;1;1;1]%Q 3 2 3
    [[0;0;0];[0;1;1];[1;0;2];[1;1;0];[2;0;1];[2;1;3]; [0;0;5];[0;1;4];[1;0;6];[1;1;7];[2;0;5];[2;1;4];
     [0;0;9];[0;1;8];[1;0;9];[1;1;11];[2;0;10];[2;1;8]]%Q.
Example C06_volume_remove_fewer_instance :
  let r := insert_knot_vol Qops 0%Q true exVl [Some (1#3)%Q; Some (1#2)%Q; Some (1#4)%Q] [2%Z; 1%Z; 1%Z] in
  let r' := remove_knot_vol Qops 0%Q (1#1000000)%Q true (fst r) [Some (1#3)%Q; Some (1#2)%Q; Some (1#4)%Q] [1%Z; 0%Z; 1%Z] in
  let r'' := insert_knot_vol Qops 0%Q true exVl [Some (1#3)%Q; Some (1#2)%Q; Some (1#4)%Q] [1%Z; 1%Z; 0%Z] in
  snd r = false /\ snd r' = false /\ snd r'' = false /\
  v_su (fst r') = 4%nat /\ v_sv (fst r') = 3%nat /\ v_sw (fst r') = 3%nat /\
  eqLQ (v_Uu (fst r')) (v_Uu (fst r'')) = true /\ eqLQ (v_Uv (fst r')) (v_Uv (fst r'')) = true /\ eqLQ (v_Uw (fst r')) (v_Uw (fst r'')) = true /\
  eqLLQ (v_P (fst r')) (v_P (fst r'')) = true.
Proof. cbv zeta. repeat split; vm_compute; congruence. Qed.


(* ====================== REMOVAL AFTER A GENERAL REFINEMENT, ANY ORDER (Proofs/KnotRemMoreRefine.v, KnotRemMoreOrder.v) ======================
   Replaces the bounded C06_remove_after_refine_X1.  Hypotheses = those of C05_refine_preserves_curve (RefineGeneral): p >= 1, U sorted of
   length n + p + 1, X a non-empty sorted list of new knots in the half-open domain [U_p, U_n), tol = tolerance of A5.4's alpha test
   (a knot above a new knot is at least tol away), no knot ends up with multiplicity above p, points of one dimension; plus
   tolm = multiplicity tolerance of insert_knot / remove_knot (>= 0, never confuses a new knot with a different knot) and tol2 >= 0
   (squared removal tolerance).  A "schedule" is a list of (knot, count) pairs; expand lists every knot as often as its count. *)

(* [G] two calls insert_knot(curve, [x], [1]) and insert_knot(curve, [y], [1]) at different knots commute - control points, knot
   vector and acceptance (cwf: sorted knot vector of the right length, degree < size, points of one dimension) *)
Theorem C06_single_insertions_commute : forall (tol : R) (c : curve (T:=R)) (dim : nat) (x y : R),
  (0 <= tol)%R -> cwf c dim ->
  par_ok tol (c_p c) (c_U c) (length (c_P c)) (Some x) -> par_ok tol (c_p c) (c_U c) (length (c_P c)) (Some y) ->
  (tol < Rabs (y - x))%R ->
  snd (insert_knot_curve Rops tol true c [Some x] [1%Z]) = false -> snd (insert_knot_curve Rops tol true c [Some y] [1%Z]) = false ->
  let ins := fun (c : curve (T:=R)) (z : R) => insert_knot_curve Rops tol true c [Some z] [1%Z] in
  ins (fst (ins c x)) y = ins (fst (ins c y)) x /\ snd (ins (fst (ins c x)) y) = false.
Proof. exact insert_knot_curve_commute. Qed.
Print Assumptions C06_single_insertions_commute.

(* [G] A5.4 (knot refinement with the list X) computes exactly - control points and knot vector, as lists - what inserting the knots
   of X ONE AT A TIME with operations.insert_knot computes, in ANY order `order` (a rearrangement of X); every call is accepted *)
Theorem C06_refinement_is_repeated_insertion :
  forall (tol tolm : R) (p : nat) (U : list R) (P : list (list R)) (X order : list R) (dim : nat),
  (1 <= p)%nat -> sortedR U -> (p < length P)%nat -> length U = (length P + p + 1)%nat ->
  X <> [] -> sortedR X -> (knR U p <= nth 0 X 0)%R -> (nth (length X - 1) X 0 < knR U (length P))%R ->
  (forall x y, In x X -> In y (X ++ U) -> (x < y)%R -> (tol <= y - x)%R) ->
  (forall x, In x X -> (count_occ Req_EM_T (X ++ U) x <= p)%nat) ->
  (forall i, (i < length P)%nat -> length (getp P i) = dim) ->
  (0 <= tolm)%R -> (forall x y, In x X -> In y (X ++ U) -> (Rabs (x - y) <= tolm)%R -> y = x) ->
  Permutation order X ->
  let ins := fun (c : curve (T:=R)) (x : R) => insert_knot_curve Rops tolm true c [Some x] [1%Z] in
  let cF := fold_left (fun c x => fst (ins c x)) order (mkC p U P) in
  refine_pts Rops tol p U P X = (c_P cF, c_U cF) /\ c_p cF = p /\
  (forall l1 x l2, order = l1 ++ x :: l2 -> snd (ins (fold_left (fun c x => fst (ins c x)) l1 (mkC p U P)) x) = false).
Proof. exact refine_is_insert_chain_any_order. Qed.
Print Assumptions C06_refinement_is_repeated_insertion.

(* [G] THE STATEMENT: for EVERY schedule whose expansion is a rearrangement of X (any order of the knots; one copy per call, all
   copies of a knot in one call, or anything in between), running operations.remove_knot(curve, [x_i], [n_i]) along the schedule on
   the refined curve (a) returns the original curve record - degree, knot vector, control points -, (b) never raises, and (c) after
   every prefix of the schedule the curve has the points of the original curve (every coordinate, every parameter) *)
Theorem C06_remove_after_refinement_any_order :
  forall (tol tolm tol2 : R) (p : nat) (U : list R) (P : list (list R)) (X : list R) (dim : nat) (sched : list (R * nat)),
  (1 <= p)%nat -> sortedR U -> (p < length P)%nat -> length U = (length P + p + 1)%nat ->
  X <> [] -> sortedR X -> (knR U p <= nth 0 X 0)%R -> (nth (length X - 1) X 0 < knR U (length P))%R ->
  (forall x y, In x X -> In y (X ++ U) -> (x < y)%R -> (tol <= y - x)%R) ->
  (forall x, In x X -> (count_occ Req_EM_T (X ++ U) x <= p)%nat) ->
  (forall i, (i < length P)%nat -> length (getp P i) = dim) ->
  (0 <= tolm)%R -> (forall x y, In x X -> In y (X ++ U) -> (Rabs (x - y) <= tolm)%R -> y = x) -> (0 <= tol2)%R ->
  Permutation (expand sched) X ->
  let rm := fun (c : curve (T:=R)) (e : R * nat) => remove_knot_curve Rops tolm tol2 true c [Some (fst e)] [Z.of_nat (snd e)] in
  let '(Q, V) := refine_pts Rops tol p U P X in
  fold_left (fun c e => fst (rm c e)) sched (mkC p V Q) = mkC p U P /\
  (forall s1 e s2, sched = s1 ++ e :: s2 -> snd (rm (fold_left (fun c e => fst (rm c e)) s1 (mkC p V Q)) e) = false) /\
  (forall s1 s2, sched = s1 ++ s2 -> forall cc t, (cc < dim)%nat ->
     let c := fold_left (fun c e => fst (rm c e)) s1 (mkC p V Q) in
     c_p c = p /\ curve_pt p (c_U c) (c_P c) cc t = curve_pt p U P cc t).
Proof. exact remove_after_refine_any_order. Qed.
Print Assumptions C06_remove_after_refinement_any_order.

(* [G] "... or fewer": removing only SOME of the refined knots (the schedule s1: any knots, any order, any grouping) while the sorted
   list X' of the others stays gives exactly the curve A5.4 returns for X'; no call raises *)
Theorem C06_remove_some_after_refinement :
  forall (tol tolm tol2 : R) (p : nat) (U : list R) (P : list (list R)) (X X' : list R) (dim : nat) (s1 : list (R * nat)),
  (1 <= p)%nat -> sortedR U -> (p < length P)%nat -> length U = (length P + p + 1)%nat ->
  X <> [] -> sortedR X -> (knR U p <= nth 0 X 0)%R -> (nth (length X - 1) X 0 < knR U (length P))%R ->
  (forall x y, In x X -> In y (X ++ U) -> (x < y)%R -> (tol <= y - x)%R) ->
  (forall x, In x X -> (count_occ Req_EM_T (X ++ U) x <= p)%nat) ->
  (forall i, (i < length P)%nat -> length (getp P i) = dim) ->
  (0 <= tolm)%R -> (forall x y, In x X -> In y (X ++ U) -> (Rabs (x - y) <= tolm)%R -> y = x) -> (0 <= tol2)%R ->
  X' <> [] -> sortedR X' -> Permutation (expand s1 ++ X') X ->
  let rm := fun (c : curve (T:=R)) (e : R * nat) => remove_knot_curve Rops tolm tol2 true c [Some (fst e)] [Z.of_nat (snd e)] in
  fold_left (fun c e => fst (rm c e)) s1 (mkC p (snd (refine_pts Rops tol p U P X)) (fst (refine_pts Rops tol p U P X)))
  = mkC p (snd (refine_pts Rops tol p U P X')) (fst (refine_pts Rops tol p U P X')) /\
  (forall sa e sb, s1 = sa ++ e :: sb ->
     snd (rm (fold_left (fun c e => fst (rm c e)) sa (mkC p (snd (refine_pts Rops tol p U P X)) (fst (refine_pts Rops tol p U P X)))) e) = false).
Proof. exact remove_some_after_refine. Qed.
Print Assumptions C06_remove_some_after_refinement.

(* [G] one knot per call, the knots taken in the order of any rearrangement of X (order = X: reverse order of insertion) *)
Theorem C06_remove_after_refinement_one_by_one :
  forall (tol tolm tol2 : R) (p : nat) (U : list R) (P : list (list R)) (X order : list R) (dim : nat),
  (1 <= p)%nat -> sortedR U -> (p < length P)%nat -> length U = (length P + p + 1)%nat ->
  X <> [] -> sortedR X -> (knR U p <= nth 0 X 0)%R -> (nth (length X - 1) X 0 < knR U (length P))%R ->
  (forall x y, In x X -> In y (X ++ U) -> (x < y)%R -> (tol <= y - x)%R) ->
  (forall x, In x X -> (count_occ Req_EM_T (X ++ U) x <= p)%nat) ->
  (forall i, (i < length P)%nat -> length (getp P i) = dim) ->
  (0 <= tolm)%R -> (forall x y, In x X -> In y (X ++ U) -> (Rabs (x - y) <= tolm)%R -> y = x) -> (0 <= tol2)%R ->
  Permutation order X ->
  let '(Q, V) := refine_pts Rops tol p U P X in
  fold_left (fun c x => fst (remove_knot_curve Rops tolm tol2 true c [Some x] [1%Z])) order (mkC p V Q) = mkC p U P.
Proof. exact remove_after_refine_any_order_one_by_one. Qed.
Print Assumptions C06_remove_after_refinement_one_by_one.

(* [G] helpers.knot_refinement as a whole (any knot_list / add_knot_list / density; RefineOp.plan_ok = the hypotheses of
   C05_knot_refinement_correct), then remove_knot of every value mk of the bisected list "with its count" p - mult_U(mk) (the number of
   copies the refinement inserted; 0 = nothing to do), the values in ANY order: the original curve record; the points never changed *)
Theorem C06_remove_after_knot_refinement :
  forall (tol tol2 : R) check (p : nat) (U : list R) (P : list (list R)) klo add d (dim : nat) Q V order,
  let kl := (match klo with Some l => l | None => slice U p (length U - p) end) ++ add in
  plan_ok tol p U (length P) d kl -> (forall i, (i < length P)%nat -> length (getp P i) = dim) -> (0 <= tol2)%R ->
  knot_refinement Rops tol check p U P klo add d = Ok (Q, V) ->
  Permutation order (refine_Lk d kl) ->
  fold_left (fun c mk => fst (remove_knot_curve Rops tol tol2 true c [Some mk] [Z.of_nat (p - find_multiplicity Rops tol mk U)]))
            order (mkC p V Q) = mkC p U P /\
  forall cc t, (cc < dim)%nat -> curve_pt p V Q cc t = curve_pt p U P cc t.
Proof. exact remove_after_knot_refinement_any_order. Qed.
Print Assumptions C06_remove_after_knot_refinement.

(* [G] operations.refine_knotvector(curve, [density]) then remove_knot of every value of the bisected list with its count, any order:
   the original curve object (default_ok: the hypotheses of C05_refine_curve_correct) *)
Theorem C06_remove_after_refine_knotvector_curve :
  forall (tol tol2 : R) check (c c' : curve (T:=R)) params (dim : nat) order,
  default_ok tol (c_p c) (c_U c) (length (c_P c)) (dens params 0) ->
  (forall i, (i < length (c_P c))%nat -> length (getp (c_P c) i) = dim) -> (0 <= tol2)%R ->
  dens params 0 <> 0%nat -> refine_curve Rops tol check c params = (c', false) ->
  Permutation order (refine_L (c_p c) (c_U c) (dens params 0)) ->
  fold_left (fun cv mk => fst (remove_knot_curve Rops tol tol2 true cv [Some mk]
                                 [Z.of_nat (c_p c - find_multiplicity Rops tol mk (c_U c))])) order c' = c.
Proof. exact remove_after_refine_curve_any_order. Qed.
Print Assumptions C06_remove_after_refine_knotvector_curve.

(* ---- non-vacuity over the REALS: the quadratic curve exUR = [0,0,0,1/2,1,1,1] (= RefineExamples.exU), four planar points exPR, exXR =
        [1/4,1/4,1/2,3/4,3/4] (1/2: multiplicity 1 -> 2; 1/4, 3/4 new double knots), tolerances 1/1000, and the schedule
        [(1/2,1); (3/4,2); (1/4,1); (1/4,1)] - NOT the order of insertion: all hypotheses hold, hence the conclusion ---- *)
Example C06_remove_after_refinement_hypotheses_satisfiable :
  (1 <= 2)%nat /\ sortedR exUR /\ (2 < length exPR)%nat /\ length exUR = (length exPR + 2 + 1)%nat /\
  exXR <> [] /\ sortedR exXR /\ (knR exUR 2 <= nth 0 exXR 0)%R /\ (nth (length exXR - 1) exXR 0 < knR exUR (length exPR))%R /\
  (forall x y, In x exXR -> In y (exXR ++ exUR) -> (x < y)%R -> (1/1000 <= y - x)%R) /\
  (forall x, In x exXR -> (count_occ Req_EM_T (exXR ++ exUR) x <= 2)%nat) /\
  (forall i, (i < length exPR)%nat -> length (getp exPR i) = 2%nat) /\
  (0 <= 1/1000)%R /\ (forall x y, In x exXR -> In y (exXR ++ exUR) -> (Rabs (x - y) <= 1/1000)%R -> y = x) /\ (0 <= 1/1000000)%R /\
  Permutation (expand exSched) exXR.
Proof. exact any_order_hypotheses_satisfiable_R. Qed.

Example C06_commute_hypotheses_satisfiable :
  (0 <= 1/1000)%R /\ cwf exCR 2 /\
  par_ok (1/1000) (c_p exCR) (c_U exCR) (length (c_P exCR)) (Some (1/4)%R) /\
  par_ok (1/1000) (c_p exCR) (c_U exCR) (length (c_P exCR)) (Some (1/2)%R) /\ (1/1000 < Rabs (1/2 - 1/4))%R.
Proof. exact commute_hypotheses_satisfiable. Qed.

(* ---- ... and at the executable instance (exact rationals): the cubic curve exU / exP of this file (renamed), refined by A5.4 with
        X = [1/8, 1/4, 1/4, 3/4] (1/4: multiplicity 1 -> 3), then remove_knot in the scrambled order 1/4 (twice in one call), 3/4, 1/8 and
        one at a time in the order 3/4, 1/4, 1/8, 1/4: control points and knot vector of the original curve ---- *)
Definition exUr : list Q := [0;0;0;0;1#4;1#2;1#2;1;1;1;1]%Q.
Definition exPr : list (list Q) := [[0;0];[1;2];[3;1];[4;4];[6;0];[7;3];[9;1]]%Q.
Definition exXr : list Q := [1#8; 1#4; 1#4; 3#4]%Q.
Example C06_remove_after_refinement_instance :
  let QV := refine_pts Qops (1#100000000)%Q 3 exUr exPr exXr in
  let c1 := mkC 3 (snd QV) (fst QV) in
  let rm := fun (c : @curve Q) (e : Q * Z) => fst (remove_knot_curve Qops (1#100000000)%Q (1#1000000)%Q true c [Some (fst e)] [snd e]) in
  let cA := fold_left rm [((1#4)%Q, 2%Z); ((3#4)%Q, 1%Z); ((1#8)%Q, 1%Z)] c1 in
  let cB := fold_left rm [((3#4)%Q, 1%Z); ((1#4)%Q, 1%Z); ((1#8)%Q, 1%Z); ((1#4)%Q, 1%Z)] c1 in
  length (fst QV) = 11%nat /\ length (snd QV) = 15%nat /\
  eqLQ (c_U cA) exUr = true /\ eqLLQ (c_P cA) exPr = true /\ eqLQ (c_U cB) exUr = true /\ eqLLQ (c_P cB) exPr = true /\
  (* removing only 3/4 and one copy of 1/4 leaves the refinement by [1/8, 1/4] *)
  (let cC := fold_left rm [((3#4)%Q, 1%Z); ((1#4)%Q, 1%Z)] c1 in
   let QV' := refine_pts Qops (1#100000000)%Q 3 exUr exPr [1#8; 1#4]%Q in
   eqLQ (c_U cC) (snd QV') = true /\ eqLLQ (c_P cC) (fst QV') = true) /\
  (* A5.4 = one insert_knot call per knot, here in the order 1/4, 3/4, 1/8, 1/4 *)
  (let ins := fun (c : @curve Q) (x : Q) => fst (insert_knot_curve Qops (1#100000000)%Q true c [Some x] [1%Z]) in
   let cI := fold_left ins [1#4; 3#4; 1#8; 1#4]%Q (mkC 3 exUr exPr) in
   eqLQ (c_U cI) (snd QV) = true /\ eqLLQ (c_P cI) (fst QV) = true).
Proof. cbv zeta. repeat split; vm_compute; congruence. Qed.


From NV Require Import Proofs.KnotRemRefineLift.

From Coq Require Import Permutation.
From NV Require Import Proofs.RefineDefault Proofs.RefineOp Proofs.KnotRemMore Proofs.KnotRemMoreRefine Proofs.KnotRemMoreOrder Proofs.KnotRemMoreExamples.
(* new: *)
From NV Require Import Proofs.KnotRemRefineLift.

(* ====================== REMOVAL AFTER refine_knotvector ON SURFACES AND VOLUMES, ANY ORDER (Proofs/KnotRemRefineLift.v) ======================
   Lifts C06_remove_after_refinement_any_order / C06_remove_after_refine_knotvector_curve to surfaces and volumes.  Vocabulary:
   swf / vwf (Proofs/InsertOpSurf.v) = valid surface / volume with points of dimension dim; default_ok (Proofs/RefineOp.v) = the
   hypotheses of C05_refine_surface_correct / C05_refine_volume_correct for a refined direction; refine_L p U d = the d-fold bisected
   list of the distinct knots of U[p:-p].  A removal schedule T is a list of single-direction calls (direction, (knot, count)):
   srm / vrm run remove_knot(obj, [x, None(, None)], [n, 0(, 0)]) etc.; sproj d T / vproj d T = the calls of direction d in their
   order; default_calls tol p U d L says that L lists every value mk of refine_L p U d exactly once, in ANY order, with the count
   p - mult_U(mk) (= the number of copies the refinement inserted; 0 = nothing to do), and that L is empty when d = 0. *)

(* [G] THE SURFACE STATEMENT.  operations.refine_knotvector(surf, [du, dv]) (any subset of directions: density 0 = not refined)
   followed by remove_knot of every refined knot with its count in its direction, the calls of BOTH directions in ANY order
   (arbitrarily interleaved): (a) the original surface record comes back - degrees, both knot vectors, both sizes, the whole
   control net; (b) no call raises; (c) after every prefix of the schedule the surface is valid, complete and has the points of
   the original surface (every coordinate, every parameter pair).  tol = tolerance of A5.4's alpha test and of the multiplicity
   search, tol2 = squared removal tolerance, both >= 0. *)
Theorem C06_surface_remove_after_refine_knotvector :
  forall (tol tol2 : R) check (dim : nat) (g g' : surf (T:=R)) params (T : list (sdir * (R * nat))),
  (0 <= tol)%R -> (0 <= tol2)%R -> swf g dim -> length (s_P g) = (s_sv g * s_su g)%nat ->
  (dens params 0 <> 0%nat -> default_ok tol (s_pu g) (s_Uu g) (s_su g) (dens params 0)) ->
  (dens params 1 <> 0%nat -> default_ok tol (s_pv g) (s_Uv g) (s_sv g) (dens params 1)) ->
  refine_surf Rops tol check g params = (g', false) ->
  default_calls tol (s_pu g) (s_Uu g) (dens params 0) (sproj sdU T) ->
  default_calls tol (s_pv g) (s_Uv g) (dens params 1) (sproj sdV T) ->
  let run := fold_left (fun h t => fst (srm tol tol2 h t)) in
  run T g' = g /\
  (forall T1 t T2, T = T1 ++ t :: T2 -> snd (srm tol tol2 (run T1 g') t) = false) /\
  (forall T1 T2, T = T1 ++ T2 ->
     swf (run T1 g') dim /\ length (s_P (run T1 g')) = (s_sv (run T1 g') * s_su (run T1 g'))%nat /\
     forall c tu tv, (c < dim)%nat -> surf_pt (run T1 g') c tu tv = surf_pt g c tu tv).
Proof. exact surf_remove_after_refine_knotvector. Qed.
Print Assumptions C06_surface_remove_after_refine_knotvector.

(* [G] THE VOLUME STATEMENT: refine_knotvector(vol, [du, dv, dw]), then the removal calls of the three directions in ANY order *)
Theorem C06_volume_remove_after_refine_knotvector :
  forall (tol tol2 : R) check (dim : nat) (g g' : vol (T:=R)) params (T : list (vdir * (R * nat))),
  (0 <= tol)%R -> (0 <= tol2)%R -> (1 <= dim)%nat -> vwf g dim -> length (v_P g) = (v_su g * v_sv g * v_sw g)%nat ->
  (dens params 0 <> 0%nat -> default_ok tol (v_pu g) (v_Uu g) (v_su g) (dens params 0)) ->
  (dens params 1 <> 0%nat -> default_ok tol (v_pv g) (v_Uv g) (v_sv g) (dens params 1)) ->
  (dens params 2 <> 0%nat -> default_ok tol (v_pw g) (v_Uw g) (v_sw g) (dens params 2)) ->
  refine_vol Rops tol check g params = (g', false) ->
  default_calls tol (v_pu g) (v_Uu g) (dens params 0) (vproj vdU T) ->
  default_calls tol (v_pv g) (v_Uv g) (dens params 1) (vproj vdV T) ->
  default_calls tol (v_pw g) (v_Uw g) (dens params 2) (vproj vdW T) ->
  let run := fold_left (fun h t => fst (vrm tol tol2 h t)) in
  run T g' = g /\
  (forall T1 t T2, T = T1 ++ t :: T2 -> snd (vrm tol tol2 (run T1 g') t) = false) /\
  (forall T1 T2, T = T1 ++ T2 ->
     vwf (run T1 g') dim /\ length (v_P (run T1 g')) = (v_su (run T1 g') * v_sv (run T1 g') * v_sw (run T1 g'))%nat /\
     forall c tu tv tw, (c < dim)%nat -> vol_pt (run T1 g') c tu tv tw = vol_pt g c tu tv tw).
Proof. exact vol_remove_after_refine_knotvector. Qed.
Print Assumptions C06_volume_remove_after_refine_knotvector.

(* [G] the plainest reading, no hypothesis on a schedule: every refined knot with its count, direction by direction in the
   reverse order of the refinement (v then u / w, v, u), the values of a direction in the order of the bisected list
   (default_sched = that list of calls, empty for density 0) *)
Theorem C06_surface_remove_after_refine_knotvector_reverse_order :
  forall (tol tol2 : R) check (dim : nat) (g g' : surf (T:=R)) params,
  (0 <= tol)%R -> (0 <= tol2)%R -> swf g dim -> length (s_P g) = (s_sv g * s_su g)%nat ->
  (dens params 0 <> 0%nat -> default_ok tol (s_pu g) (s_Uu g) (s_su g) (dens params 0)) ->
  (dens params 1 <> 0%nat -> default_ok tol (s_pv g) (s_Uv g) (s_sv g) (dens params 1)) ->
  refine_surf Rops tol check g params = (g', false) ->
  let T := map (pair sdV) (default_sched tol (s_pv g) (s_Uv g) (dens params 1)) ++
           map (pair sdU) (default_sched tol (s_pu g) (s_Uu g) (dens params 0)) in
  fold_left (fun h t => fst (srm tol tol2 h t)) T g' = g /\
  forall c tu tv, (c < dim)%nat -> surf_pt g' c tu tv = surf_pt g c tu tv.
Proof. exact surf_remove_after_refine_knotvector_rev. Qed.
Print Assumptions C06_surface_remove_after_refine_knotvector_reverse_order.

Theorem C06_volume_remove_after_refine_knotvector_reverse_order :
  forall (tol tol2 : R) check (dim : nat) (g g' : vol (T:=R)) params,
  (0 <= tol)%R -> (0 <= tol2)%R -> (1 <= dim)%nat -> vwf g dim -> length (v_P g) = (v_su g * v_sv g * v_sw g)%nat ->
  (dens params 0 <> 0%nat -> default_ok tol (v_pu g) (v_Uu g) (v_su g) (dens params 0)) ->
  (dens params 1 <> 0%nat -> default_ok tol (v_pv g) (v_Uv g) (v_sv g) (dens params 1)) ->
  (dens params 2 <> 0%nat -> default_ok tol (v_pw g) (v_Uw g) (v_sw g) (dens params 2)) ->
  refine_vol Rops tol check g params = (g', false) ->
  let T := map (pair vdW) (default_sched tol (v_pw g) (v_Uw g) (dens params 2)) ++
           map (pair vdV) (default_sched tol (v_pv g) (v_Uv g) (dens params 1)) ++
           map (pair vdU) (default_sched tol (v_pu g) (v_Uu g) (dens params 0)) in
  fold_left (fun h t => fst (vrm tol tol2 h t)) T g' = g /\
  forall c tu tv tw, (c < dim)%nat -> vol_pt g' c tu tv tw = vol_pt g c tu tv tw.
Proof. exact vol_remove_after_refine_knotvector_rev. Qed.
Print Assumptions C06_volume_remove_after_refine_knotvector_reverse_order.

(* [G] the same for ANY admissible lists of new knots (hypotheses of C05_refine_preserves_curve per refined direction:
   RefineOp.refine_ok = p >= 1, sorted U of length n + p + 1, X non-empty, sorted, inside the half-open domain, knots above a new
   knot at least tol away, no multiplicity above p afterwards).  dir_refined tol tolm p U n oX L: the direction is not refined
   (oX = None, and then L = []) or refined with the list X (oX = Some X: refine_ok, the multiplicity tolerance tolm does not confuse
   a new knot with a different knot, and the calls L expand to a rearrangement of X: any order, one copy per call, all copies in
   one call, or anything in between).  surfRU / surfRV / volRU / volRV / volRW tol g X = the record refine_knotvector builds in one
   direction from the list X (C06_refine_builds_these_records below); ..o = the optional version. *)
Theorem C06_surface_remove_after_refinement_lists :
  forall (tol tolm tol2 : R) (dim : nat) (g : surf (T:=R)) (oXu oXv : option (list R)) (T : list (sdir * (R * nat))),
  (0 <= tolm)%R -> (0 <= tol2)%R -> swf g dim -> length (s_P g) = (s_sv g * s_su g)%nat ->
  dir_refined tol tolm (s_pu g) (s_Uu g) (s_su g) oXu (sproj sdU T) ->
  dir_refined tol tolm (s_pv g) (s_Uv g) (s_sv g) oXv (sproj sdV T) ->
  let g2 := surfRVo tol (surfRUo tol g oXu) oXv in
  let run := fold_left (fun h t => fst (srm tolm tol2 h t)) in
  run T g2 = g /\
  (forall T1 t T2, T = T1 ++ t :: T2 -> snd (srm tolm tol2 (run T1 g2) t) = false) /\
  (forall T1 T2, T = T1 ++ T2 ->
     swf (run T1 g2) dim /\ length (s_P (run T1 g2)) = (s_sv (run T1 g2) * s_su (run T1 g2))%nat /\
     forall c tu tv, (c < dim)%nat -> surf_pt (run T1 g2) c tu tv = surf_pt g c tu tv).
Proof. exact surf_remove_after_refine. Qed.
Print Assumptions C06_surface_remove_after_refinement_lists.

Theorem C06_volume_remove_after_refinement_lists :
  forall (tol tolm tol2 : R) (dim : nat) (g : vol (T:=R)) (oXu oXv oXw : option (list R)) (T : list (vdir * (R * nat))),
  (0 <= tolm)%R -> (0 <= tol2)%R -> (1 <= dim)%nat -> vwf g dim -> length (v_P g) = (v_su g * v_sv g * v_sw g)%nat ->
  dir_refined tol tolm (v_pu g) (v_Uu g) (v_su g) oXu (vproj vdU T) ->
  dir_refined tol tolm (v_pv g) (v_Uv g) (v_sv g) oXv (vproj vdV T) ->
  dir_refined tol tolm (v_pw g) (v_Uw g) (v_sw g) oXw (vproj vdW T) ->
  let g3 := volRWo tol (volRVo tol (volRUo tol g oXu) oXv) oXw in
  let run := fold_left (fun h t => fst (vrm tolm tol2 h t)) in
  run T g3 = g /\
  (forall T1 t T2, T = T1 ++ t :: T2 -> snd (vrm tolm tol2 (run T1 g3) t) = false) /\
  (forall T1 T2, T = T1 ++ T2 ->
     vwf (run T1 g3) dim /\ length (v_P (run T1 g3)) = (v_su (run T1 g3) * v_sv (run T1 g3) * v_sw (run T1 g3))%nat /\
     forall c tu tv tw, (c < dim)%nat -> vol_pt (run T1 g3) c tu tv tw = vol_pt g c tu tv tw).
Proof. exact vol_remove_after_refine. Qed.
Print Assumptions C06_volume_remove_after_refinement_lists.

(* [G] "... or fewer": removing only SOME of the refined knots (the calls T1: any knots of any direction, any order, any grouping)
   while the calls T2 are not made leaves EXACTLY the object refine_knotvector builds from the remaining lists (the knots of T2);
   no call raises *)
Theorem C06_surface_remove_some_after_refinement :
  forall (tol tolm tol2 : R) (dim : nat) (g : surf (T:=R)) (oXu oXv oXu' oXv' : option (list R)) (T1 T2 : list (sdir * (R * nat))),
  (0 <= tolm)%R -> (0 <= tol2)%R -> swf g dim -> length (s_P g) = (s_sv g * s_su g)%nat ->
  dir_refined tol tolm (s_pu g) (s_Uu g) (s_su g) oXu (sproj sdU (T1 ++ T2)) ->
  dir_refined tol tolm (s_pv g) (s_Uv g) (s_sv g) oXv (sproj sdV (T1 ++ T2)) ->
  dir_refined tol tolm (s_pu g) (s_Uu g) (s_su g) oXu' (sproj sdU T2) ->
  dir_refined tol tolm (s_pv g) (s_Uv g) (s_sv g) oXv' (sproj sdV T2) ->
  let g2 := surfRVo tol (surfRUo tol g oXu) oXv in
  let run := fold_left (fun h t => fst (srm tolm tol2 h t)) in
  run T1 g2 = surfRVo tol (surfRUo tol g oXu') oXv' /\
  (forall Ta t Tb, T1 = Ta ++ t :: Tb -> snd (srm tolm tol2 (run Ta g2) t) = false).
Proof. exact surf_remove_some_after_refine. Qed.
Print Assumptions C06_surface_remove_some_after_refinement.

Theorem C06_volume_remove_some_after_refinement :
  forall (tol tolm tol2 : R) (dim : nat) (g : vol (T:=R)) (oXu oXv oXw oXu' oXv' oXw' : option (list R)) (T1 T2 : list (vdir * (R * nat))),
  (0 <= tolm)%R -> (0 <= tol2)%R -> (1 <= dim)%nat -> vwf g dim -> length (v_P g) = (v_su g * v_sv g * v_sw g)%nat ->
  dir_refined tol tolm (v_pu g) (v_Uu g) (v_su g) oXu (vproj vdU (T1 ++ T2)) ->
  dir_refined tol tolm (v_pv g) (v_Uv g) (v_sv g) oXv (vproj vdV (T1 ++ T2)) ->
  dir_refined tol tolm (v_pw g) (v_Uw g) (v_sw g) oXw (vproj vdW (T1 ++ T2)) ->
  dir_refined tol tolm (v_pu g) (v_Uu g) (v_su g) oXu' (vproj vdU T2) ->
  dir_refined tol tolm (v_pv g) (v_Uv g) (v_sv g) oXv' (vproj vdV T2) ->
  dir_refined tol tolm (v_pw g) (v_Uw g) (v_sw g) oXw' (vproj vdW T2) ->
  let g3 := volRWo tol (volRVo tol (volRUo tol g oXu) oXv) oXw in
  let run := fold_left (fun h t => fst (vrm tolm tol2 h t)) in
  run T1 g3 = volRWo tol (volRVo tol (volRUo tol g oXu') oXv') oXw' /\
  (forall Ta t Tb, T1 = Ta ++ t :: Tb -> snd (vrm tolm tol2 (run Ta g3) t) = false).
Proof. exact vol_remove_some_after_refine. Qed.
Print Assumptions C06_volume_remove_some_after_refinement.

(* [G] a remove_knot call naming several directions at once is the sequence of the single-direction calls u, v(, w) (a raise stops the
   processing), so the statements above cover such calls as well *)
Theorem C06_combined_removal_call_is_sequence :
  (forall (tolm tol2 : R) (g : surf (T:=R)) (x y : R) (n m : nat),
     remove_knot_surf Rops tolm tol2 true g [Some x; Some y] [Z.of_nat n; Z.of_nat m]
     = let '(g1, r) := srm tolm tol2 g (sdU, (x, n)) in if r then (g1, true) else srm tolm tol2 g1 (sdV, (y, m))) /\
  (forall (tolm tol2 : R) (g : vol (T:=R)) (x y z : R) (n m k : nat),
     remove_knot_vol Rops tolm tol2 true g [Some x; Some y; Some z] [Z.of_nat n; Z.of_nat m; Z.of_nat k]
     = let '(g1, r1) := vrm tolm tol2 g (vdU, (x, n)) in if r1 then (g1, true) else
       let '(g2, r2) := vrm tolm tol2 g1 (vdV, (y, m)) in if r2 then (g2, true) else vrm tolm tol2 g2 (vdW, (z, k))).
Proof. split; [exact srm_both|exact vrm_all]. Qed.
Print Assumptions C06_combined_removal_call_is_sequence.

(* [G] surfRU ... volRW are what the model of operations.refine_knotvector builds in one direction when helpers.knot_refinement's
   input handling (refine_plan) yields the list X *)
Theorem C06_refine_builds_these_records : forall (tol : R) (d : nat) (X : list R),
  (forall g : surf (T:=R), refine_plan Rops tol true (s_pu g) (s_Uu g) None [] d = Ok X -> refine_ok tol (s_pu g) (s_Uu g) (s_su g) X ->
     refine_surf_u Rops tol g d = (surfRU tol g X, false)) /\
  (forall g : surf (T:=R), refine_plan Rops tol true (s_pv g) (s_Uv g) None [] d = Ok X -> refine_ok tol (s_pv g) (s_Uv g) (s_sv g) X ->
     refine_surf_v Rops tol g d = (surfRV tol g X, false)) /\
  (forall g : vol (T:=R), refine_plan Rops tol true (v_pu g) (v_Uu g) None [] d = Ok X -> refine_ok tol (v_pu g) (v_Uu g) (v_su g) X ->
     refine_vol_u Rops tol g d = (volRU tol g X, false)) /\
  (forall g : vol (T:=R), refine_plan Rops tol true (v_pv g) (v_Uv g) None [] d = Ok X -> refine_ok tol (v_pv g) (v_Uv g) (v_sv g) X ->
     refine_vol_v Rops tol g d = (volRV tol g X, false)) /\
  (forall g : vol (T:=R), refine_plan Rops tol true (v_pw g) (v_Uw g) None [] d = Ok X -> refine_ok tol (v_pw g) (v_Uw g) (v_sw g) X ->
     refine_vol_w Rops tol g d = (volRW tol g X, false)).
Proof.
  intros tol d X. split; [|split; [|split; [|split]]]; intros g H1 H2.
  - exact (refine_surf_u_is tol g d X H1 H2).
  - exact (refine_surf_v_is tol g d X H1 H2).
  - exact (refine_vol_u_is tol g d X H1 H2).
  - exact (refine_vol_v_is tol g d X H1 H2).
  - exact (refine_vol_w_is tol g d X H1 H2).
Qed.
Print Assumptions C06_refine_builds_these_records.

(* ---- non-vacuity over the REALS (Proofs/KnotRemRefineLift.v, section 8): the biquadratic 3 x 4 surface exGR, u refined with
        exX3 = [1/3; 1/3; 2/3], v with exXR = [1/4; 1/4; 1/2; 3/4; 3/4], removed along the interleaved schedule exTS =
        v:(1/2,1) u:(1/3,1) v:(3/4,2) u:(2/3,1) v:(1/4,1) u:(1/3,1) v:(1/4,1); the 3 x 2 x 3 volume exVR of degrees (2,1,2), refined
        with exX3, exX1 = [1/2], exX3, removed along exTV = w:(2/3,1) u:(1/3,2) v:(1/2,1) w:(1/3,1) u:(2/3,1) w:(1/3,1):
        every hypothesis of the ..._lists theorems holds, hence the conclusions ---- *)
Example C06_surface_refine_remove_hypotheses_satisfiable :
  (0 <= 1/1000)%R /\ (0 <= 1/1000000)%R /\ swf exGR 3 /\ length (s_P exGR) = (s_sv exGR * s_su exGR)%nat /\
  dir_refined (1/1000) (1/1000) (s_pu exGR) (s_Uu exGR) (s_su exGR) (Some exX3) (sproj sdU exTS) /\
  dir_refined (1/1000) (1/1000) (s_pv exGR) (s_Uv exGR) (s_sv exGR) (Some exXR) (sproj sdV exTS).
Proof. exact surf_refine_remove_hypotheses_satisfiable. Qed.

Example C06_surface_refine_remove_real_instance :
  let g2 := surfRV (1/1000) (surfRU (1/1000) exGR exX3) exXR in
  let run := fold_left (fun h t => fst (srm (1/1000) (1/1000000) h t)) in
  run exTS g2 = exGR /\
  (forall T1 t T2, exTS = T1 ++ t :: T2 -> snd (srm (1/1000) (1/1000000) (run T1 g2) t) = false) /\
  (forall T1 T2, exTS = T1 ++ T2 -> forall c tu tv, (c < 3)%nat -> surf_pt (run T1 g2) c tu tv = surf_pt exGR c tu tv).
Proof. exact surf_refine_remove_instance. Qed.

Example C06_volume_refine_remove_hypotheses_satisfiable :
  (0 <= 1/1000)%R /\ (0 <= 1/1000000)%R /\ (1 <= 3)%nat /\ vwf exVR 3 /\ length (v_P exVR) = (v_su exVR * v_sv exVR * v_sw exVR)%nat /\
  dir_refined (1/1000) (1/1000) (v_pu exVR) (v_Uu exVR) (v_su exVR) (Some exX3) (vproj vdU exTV) /\
  dir_refined (1/1000) (1/1000) (v_pv exVR) (v_Uv exVR) (v_sv exVR) (Some exX1) (vproj vdV exTV) /\
  dir_refined (1/1000) (1/1000) (v_pw exVR) (v_Uw exVR) (v_sw exVR) (Some exX3) (vproj vdW exTV).
Proof. exact vol_refine_remove_hypotheses_satisfiable. Qed.

Example C06_volume_refine_remove_real_instance :
  let g3 := volRW (1/1000) (volRV (1/1000) (volRU (1/1000) exVR exX3) exX1) exX3 in
  let run := fold_left (fun h t => fst (vrm (1/1000) (1/1000000) h t)) in
  run exTV g3 = exVR /\
  (forall T1 t T2, exTV = T1 ++ t :: T2 -> snd (vrm (1/1000) (1/1000000) (run T1 g3) t) = false) /\
  (forall T1 T2, exTV = T1 ++ T2 -> forall c tu tv tw, (c < 3)%nat -> vol_pt (run T1 g3) c tu tv tw = vol_pt exVR c tu tv tw).
Proof. exact vol_refine_remove_instance. Qed.

(* ---- ... and at the executable instance (exact rationals, the model run by vm_compute): refine_knotvector with densities [1; 1] on
        the 3 x 4 biquadratic surface (u: 1/2 twice; v: 1/4 twice, 1/2 once more, 3/4 twice -> 5 x 9), then remove_knot of every
        value of the bisected lists with its count (0 for the domain ends), the u- and v-calls interleaved in a scrambled order;
        densities [1; 1; 1] on the 3 x 2 x 3 volume of degrees (2,1,2) (-> 5 x 3 x 5), the calls of the three directions interleaved:
        sizes, knot vectors and control nets of the original objects come back ---- *)
Definition exSrl : @surf Q :=
  mkS 2 2 [0;0;0;1;1;1]%Q [0;0;0;1#2;1;1;1]%Q 3 4
    [[0;0;0];[0;1;1];[0;2;0];[0;3;2]; [1;0;1];[1;1;3];[1;2;1];[1;3;0]; [2;0;0];[2;1;1];[2;2;2];[2;3;1]]%Q.
Example C06_surface_refine_remove_instance :
  let tq := (1#100000000)%Q in let t2q := (1#1000000)%Q in
  let r := refine_surf Qops tq true exSrl [1%nat; 1%nat] in
  let rm := fun (g : @surf Q) (t : sdir * (Q * Z)) =>
    match fst t with
    | sdU => fst (remove_knot_surf Qops tq t2q true g [Some (fst (snd t)); None] [snd (snd t); 0%Z])
    | sdV => fst (remove_knot_surf Qops tq t2q true g [None; Some (fst (snd t))] [0%Z; snd (snd t)])
    end in
  let gA := fold_left rm [(sdV, ((3#4)%Q, 2%Z)); (sdU, (1%Q, 0%Z)); (sdV, ((1#4)%Q, 2%Z)); (sdU, ((1#2)%Q, 2%Z)); (sdV, (1%Q, 0%Z));
                          (sdV, ((1#2)%Q, 1%Z)); (sdU, (0%Q, 0%Z)); (sdV, (0%Q, 0%Z))] (fst r) in
  snd r = false /\ s_su (fst r) = 5%nat /\ s_sv (fst r) = 9%nat /\ length (s_P (fst r)) = 45%nat /\
  s_su gA = 3%nat /\ s_sv gA = 4%nat /\
  eqLQ (s_Uu gA) (s_Uu exSrl) = true /\ eqLQ (s_Uv gA) (s_Uv exSrl) = true /\ eqLLQ (s_P gA) (s_P exSrl) = true.
Proof. cbv zeta. repeat split; vm_compute; congruence. Qed.

Definition exVrl : @vol Q :=
  mkV 2 1 2 [0;0;0;1;1;1]%Q [0;0;1;1]%Q [0;0;0;1;1;1]%Q 3 2 3
    [[0;0;0];[0;1;1];[1;0;2];[1;1;0];[2;0;1];[2;1;3]; [0;0;5];[0;1;4];[1;0;6];[1;1;7];[2;0;5];[2;1;4];
     [0;0;9];[0;1;8];[1;0;9];[1;1;11];[2;0;10];[2;1;8]]%Q.
Example C06_volume_refine_remove_instance :
  let tq := (1#100000000)%Q in let t2q := (1#1000000)%Q in
  let r := refine_vol Qops tq true exVrl [1%nat; 1%nat; 1%nat] in
  let rm := fun (g : @vol Q) (t : vdir * (Q * Z)) =>
    match fst t with
    | vdU => fst (remove_knot_vol Qops tq t2q true g [Some (fst (snd t)); None; None] [snd (snd t); 0%Z; 0%Z])
    | vdV => fst (remove_knot_vol Qops tq t2q true g [None; Some (fst (snd t)); None] [0%Z; snd (snd t); 0%Z])
    | vdW => fst (remove_knot_vol Qops tq t2q true g [None; None; Some (fst (snd t))] [0%Z; 0%Z; snd (snd t)])
    end in
  let gA := fold_left rm [(vdW, (1%Q, 0%Z)); (vdU, ((1#2)%Q, 2%Z)); (vdV, ((1#2)%Q, 1%Z)); (vdW, ((1#2)%Q, 2%Z)); (vdU, (0%Q, 0%Z));
                          (vdV, (1%Q, 0%Z)); (vdU, (1%Q, 0%Z)); (vdW, (0%Q, 0%Z)); (vdV, (0%Q, 0%Z))] (fst r) in
  snd r = false /\ v_su (fst r) = 5%nat /\ v_sv (fst r) = 3%nat /\ v_sw (fst r) = 5%nat /\ length (v_P (fst r)) = 75%nat /\
  v_su gA = 3%nat /\ v_sv gA = 2%nat /\ v_sw gA = 3%nat /\
  eqLQ (v_Uu gA) (v_Uu exVrl) = true /\ eqLQ (v_Uv gA) (v_Uv exVrl) = true /\ eqLQ (v_Uw gA) (v_Uw exVrl) = true /\
  eqLLQ (v_P gA) (v_P exVrl) = true.
Proof. cbv zeta. repeat split; vm_compute; congruence. Qed.

(* ====================== TRANSLATOR TIE (Proofs/GenTie*.v) ======================
   coq/Gen/*.v is the Gallina rendering of the Python source produced by harness/pytrans.py; every run of ./check regenerates it
   from /repo and compares it function by function with the committed text (evidence: translator_tie).  The theorems below say
   that the hand-written model (the subject of the theorems above) computes, for ALL inputs satisfying the stated
   well-formedness, exactly what the translated source computes.  This block stays LAST in the file: its imports shadow
   model names. *)
From Coq Require Import List QArith Reals Qreals Lia Lra Arith Bool ZArith.
From NV Require Import Scalar.Ops Model.Common Model.Basis Model.Knots Model.KnotIns Model.KnotRem Model.LinAlg Model.Degree
  Gen.Prelude Gen.LinalgInternal Gen.Linalg Gen.Knotvector Gen.Helpers
  Proofs.GenTieSums Proofs.GenTieLinAlg Proofs.GenTieSubst Proofs.GenTieLU Proofs.GenTieLUSolve Proofs.GenTieKnotRem Proofs.GenTieDegree
  Proofs.GenTieLib Proofs.GenTieKnots Proofs.GenTieSpan Proofs.GenTieBasis Proofs.GenTieBasisOne
  Proofs.GenTieDersOne Proofs.GenTieDersLib Proofs.GenTieDers Proofs.GenTieKnotIns.
Local Open Scope nat_scope.
From NV Require Import Gen.PreludeExt Gen.LinalgMat Proofs.GenTieMat Proofs.GenTieMatSolve Proofs.GenTieBinom.

(* [G] helpers.knot_removal_kv; wf: span + 1 <= len(knotvector), r <= span + 1 *)
Theorem C06_gen_knot_removal_kv_R : forall (U : list R) (span r : nat),
  S span <= length U -> r <= S span ->
  Helpers.knot_removal_kv Rops U (Z.of_nat span) (Z.of_nat r) = GOk (KnotRem.knot_removal_kv U span r).
Proof. exact knot_removal_kv_tie_R. Qed.
Print Assumptions C06_gen_knot_removal_kv_R.
Theorem C06_gen_knot_removal_kv_Q : forall (U : list Q) (span r : nat),
  S span <= length U -> r <= S span ->
  Helpers.knot_removal_kv Qops U (Z.of_nat span) (Z.of_nat r) = GOk (KnotRem.knot_removal_kv U span r).
Proof. exact knot_removal_kv_tie_Q. Qed.
Print Assumptions C06_gen_knot_removal_kv_Q.

(* ---- second round (C06): add  Gen.PreludeExt Gen.HelpersB Proofs.GenTieLib2 Proofs.GenTieKnotRemove ---- *)
From NV Require Import Gen.PreludeExt Gen.HelpersB Proofs.GenTieKnotRemove.
(* [G] helpers.knot_removal (as repaired), control points = lists of d >= 1 coordinates.  linalg.point_distance (a square root) is the
   uninterpreted LAST argument `dist` of the generated function; the model tests squared distances against tol2.  For EVERY dist
   that compares with tol as the squared distance compares with tol2 (the _sqrt instance: dist = sqrt o dist2, tol2 = tol * tol):
   wf: 1 <= num <= s <= degree, degree + num <= span, span - s + num < len(ctrlpts), len(ctrlpts) + degree + 1 <= len(knotvector) *)
Theorem C06_gen_knot_removal_R : forall (p n r s num d : nat) (U : list R) (P : list (list R)) (u tol tol2 : R) (dist : list R -> list R -> gres R),
  length P = n -> n + p + 1 <= length U -> 1 <= num -> num <= s -> s <= p -> p + num <= r -> r - s + num < n -> ptsd d P -> 1 <= d ->
  (forall a b, length a = d -> length b = d -> exists v, dist a b = GOk v /\ oleb Rops v tol = oleb Rops (dist2 Rops a b) tol2) ->
  HelpersB.knot_removal Rops (Z.of_nat p) U P u (Z.of_nat num) (Z.of_nat s) (Z.of_nat r) tol dist =
  GOk (KnotRem.knot_removal Rops d tol2 p U P u num s r).
Proof. exact knot_removal_tie_R. Qed.
Print Assumptions C06_gen_knot_removal_R.
(* NOTE: this instance mentions sqrt; its Print Assumptions shows ClassicalDedekindReals.sig_not_dec in addition to the usual
   sig_forall_dec + functional_extensionality_dep (all three are standard-library axioms of the real numbers); leave it out if the
   property file's axiom list must stay at the usual two - C06_gen_knot_removal_R above does not need it *)
Theorem C06_gen_knot_removal_R_sqrt : forall (p n r s num d : nat) (U : list R) (P : list (list R)) (u tol : R),
  length P = n -> n + p + 1 <= length U -> 1 <= num -> num <= s -> s <= p -> p + num <= r -> r - s + num < n -> ptsd d P -> 1 <= d ->
  (0 <= tol)%R ->
  HelpersB.knot_removal Rops (Z.of_nat p) U P u (Z.of_nat num) (Z.of_nat s) (Z.of_nat r) tol (fun a b => GOk (sqrt (dist2 Rops a b))) =
  GOk (KnotRem.knot_removal Rops d (tol * tol)%R p U P u num s r).
Proof. exact knot_removal_tie_R_sqrt. Qed.
Print Assumptions C06_gen_knot_removal_R_sqrt.
Theorem C06_gen_knot_removal_Q : forall (p n r s num d : nat) (U : list Q) (P : list (list Q)) (u tol tol2 : Q) (dist : list Q -> list Q -> gres Q),
  length P = n -> n + p + 1 <= length U -> 1 <= num -> num <= s -> s <= p -> p + num <= r -> r - s + num < n -> ptsd d P -> 1 <= d ->
  (forall a b, length a = d -> length b = d -> exists v, dist a b = GOk v /\ oleb Qops v tol = oleb Qops (dist2 Qops a b) tol2) ->
  HelpersB.knot_removal Qops (Z.of_nat p) U P u (Z.of_nat num) (Z.of_nat s) (Z.of_nat r) tol dist =
  GOk (KnotRem.knot_removal Qops d tol2 p U P u num s r).
Proof. exact knot_removal_tie_Q. Qed.
Print Assumptions C06_gen_knot_removal_Q.
Example C06_gen_nonvacuous :
  HelpersB.knot_removal Qops 3 [0; 0; 0; 0; 1#2; 1#2; 1; 1; 1; 1]%Q [[0; 0]; [1#2; 1]; [5#4; 3#2]; [11#4; 3#2]; [7#2; 1]; [4; 0]]%Q (1#2)%Q 2 2 5 (1#1000)%Q d2Q
  = GOk [[0; 0]; [1; 2]; [3; 2]; [4; 0]]%Q.
Proof. vm_compute; reflexivity. Qed.

