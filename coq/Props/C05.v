(* C05 - knot refinement never changes the shape.
   "Refining the knot vectors of a curve, surface or volume in any chosen directions with any density leaves every
    evaluated point unchanged.  After refinement with density d every interior knot interval of the original has been
    bisected d times and every interior knot has multiplicity equal to the degree, while directions that were not
    selected are untouched."
   This file only states the property theorems; proofs live under Proofs/.
   Model: Model/KnotRefine.v (helpers.knot_refinement = A5.4 with density bisection, knot_list, add_knot_list;
   operations.refine_knotvector), tied to /repo by the correspondence families of harness/props/C05.py.
   The model describes the code WITH the repair fixes/C05-refinement-span-count.diff (the span searches of A5.4
   are called with the number of control points, not with the last index).
   Strength: the bisection structure, the untouched directions and the rejections are general [G]; shape preservation
   and the refined knot vector are proved for A5.4 inserting ONE knot, all degrees ([B], bound |X| = 1 in the name);
   for longer insertion lists they are tied to the code by the correspondence check and the exact oracle only. *)
From Coq Require Import List QArith Reals Qreals Lia Lra Arith Bool ZArith.
From NV Require Import Scalar.Ops Model.Common Model.Basis Model.KnotIns Model.InsertKnot Model.KnotRefine
  Proofs.Boehm Proofs.BasisR Proofs.KnotInsR Proofs.InsertKnotR Proofs.KnotRefineR Proofs.RefineR
  Run.InsertKnotH.   (* comparison helpers of the correspondence families: kept in the build closure of this file *)
From Coq Require Import Permutation Sorted.
From NV Require Import Proofs.InsertDirR Proofs.InsertVolR Proofs.RefineGenS Proofs.RefineGenI Proofs.RefineGeneral Proofs.RefineDefault Proofs.RefineOp Proofs.RefineParam Proofs.RefineLiftG Proofs.RefineLift Proofs.RefineLiftV Proofs.RefineExamples.
Import ListNotations.

(* [G] density d: between two consecutive listed knots l_i < l_{i+1} the bisected list contains exactly the points
   l_i + j/2^d (l_{i+1} - l_i), j = 0..2^d, i.e. every interval has been bisected d times (all d, all lists) *)
Theorem C05_density_bisects_every_interval : forall (d : nat) (l : list R) (i j : nat),
  (S i < length l)%nat -> (j <= 2 ^ d)%nat ->
  nth (i * 2 ^ d + j) (iter_bisect Rops d l) 0%R = (nth i l 0 + INR j / 2 ^ d * (nth (S i) l 0 - nth i l 0))%R.
Proof. exact iter_bisect_nth. Qed.
Print Assumptions C05_density_bisects_every_interval.

Theorem C05_density_list_length : forall (d : nat) (l : list R),
  l <> [] -> length (iter_bisect Rops d l) = ((length l - 1) * 2 ^ d + 1)%nat.
Proof. exact iter_bisect_length. Qed.
Print Assumptions C05_density_list_length.

(* [G] directions that were not selected (density 0) keep their knot vector and size; degrees never change; nothing
   selected = object unchanged (curves, surfaces, volumes; every parameter list) *)
Theorem C05_untouched_directions_curve : forall (tol : R) check (c : curve (T:=R)) (params : list nat),
  let c' := fst (refine_curve Rops tol check c params) in
  c_p c' = c_p c /\ (dens params 0 = 0%nat -> c' = c).
Proof. intros. apply refine_curve_untouched. Qed.
Print Assumptions C05_untouched_directions_curve.

Theorem C05_untouched_directions_surface : forall (tol : R) check (g : surf (T:=R)) (params : list nat),
  let g' := fst (refine_surf Rops tol check g params) in
  s_pu g' = s_pu g /\ s_pv g' = s_pv g /\
  (dens params 0 = 0%nat -> s_Uu g' = s_Uu g /\ s_su g' = s_su g) /\
  (dens params 1 = 0%nat -> s_Uv g' = s_Uv g /\ s_sv g' = s_sv g) /\
  (dens params 0 = 0%nat -> dens params 1 = 0%nat -> g' = g).
Proof. intros. apply refine_surf_untouched. Qed.
Print Assumptions C05_untouched_directions_surface.

Theorem C05_untouched_directions_volume : forall (tol : R) check (g : vol (T:=R)) (params : list nat),
  let g' := fst (refine_vol Rops tol check g params) in
  v_pu g' = v_pu g /\ v_pv g' = v_pv g /\ v_pw g' = v_pw g /\
  (dens params 0 = 0%nat -> v_Uu g' = v_Uu g /\ v_su g' = v_su g) /\
  (dens params 1 = 0%nat -> v_Uv g' = v_Uv g /\ v_sv g' = v_sv g) /\
  (dens params 2 = 0%nat -> v_Uw g' = v_Uw g /\ v_sw g' = v_sw g).
Proof. intros. apply refine_vol_untouched. Qed.
Print Assumptions C05_untouched_directions_volume.

(* [B] |X| = 1, all degrees: A5.4 inserting one knot x in [U_p, U_n) (no other knot within tol above x) returns the
   knot vector with x in sorted position after its span and Boehm's control points ... *)
Theorem C05_refine_one_knot_spec_X1 : forall (tol : R) (p : nat) (U : list R) (P : list (list R)) (x : R) (dim : nat),
  (1 <= p)%nat -> sortedR U -> (p < length P)%nat -> (length U = length P + p + 1)%nat ->
  (knR U p <= x < knR U (length P))%R ->
  (forall i, (i < length U)%nat -> (x < knR U i)%R -> (tol <= knR U i - x)%R) ->
  (forall i, (i < length P)%nat -> length (getp P i) = dim) ->
  let a := find_span_linear Rops p U (length P) x in
  let '(Q, V) := refine_pts Rops tol p U P [x] in
  V = knot_insertion_kv U x a 1 /\ length Q = S (length P) /\
  forall c i, (c < dim)%nat -> (i < S (length P))%nat ->
    coord c Q i = (alpha (Ufun U) a x p i * coord c P i + (1 - alpha (Ufun U) a x p i) * coord c P (pred i))%R.
Proof. intros tol p U P x dim H1 H2 H3 H4 H5 H6 H7. exact (refine_one_spec tol p U P x dim H1 H2 H3 H4 H5 H6 H7). Qed.
Print Assumptions C05_refine_one_knot_spec_X1.

(* ... hence leaves every curve point unchanged *)
Theorem C05_refine_preserves_curve_X1 : forall (tol : R) (p : nat) (U : list R) (P : list (list R)) (x : R) (dim : nat),
  (1 <= p)%nat -> sortedR U -> (p < length P)%nat -> (length U = length P + p + 1)%nat ->
  (knR U p <= x < knR U (length P))%R ->
  (forall i, (i < length U)%nat -> (x < knR U i)%R -> (tol <= knR U i - x)%R) ->
  (forall i, (i < length P)%nat -> length (getp P i) = dim) ->
  forall c t, (c < dim)%nat ->
  let '(Q, V) := refine_pts Rops tol p U P [x] in curve_pt p V Q c t = curve_pt p U P c t.
Proof. intros tol p U P x dim H1 H2 H3 H4 H5 H6 H7 c t Hc. exact (refine_one_preserves_curve tol p U P x dim H1 H2 H3 H4 H5 H6 H7 c t Hc). Qed.
Print Assumptions C05_refine_preserves_curve_X1.

(* [G] density 0 is rejected by the helper *)
Theorem C05_density0_rejected : forall (tol : R) p U kl add, refine_plan Rops tol true p U kl add 0 = Rejected.
Proof. intros. apply refine_plan_density0. Qed.
Print Assumptions C05_density0_rejected.

(* the full statement, proved only for |X| = 1 above; for longer lists tied by correspondence + oracle *)
Definition C05_refine_preserves_curve_full : Prop :=
  forall (tol : R) (p : nat) (U : list R) (P : list (list R)) (kl : option (list R)) (add : list R) (d dim : nat),
  (1 <= p)%nat -> sortedR U -> (p < length P)%nat -> (length U = length P + p + 1)%nat -> (1 <= d)%nat ->
  (forall i, (i < length P)%nat -> length (getp P i) = dim) ->
  forall Q V, knot_refinement Rops tol true p U P kl add d = Ok (Q, V) ->
  forall c t, (c < dim)%nat -> curve_pt p V Q c t = curve_pt p U P c t.

(* ---- non-vacuity: concrete quadratic, default list, density 2 ---- *)
Example C05_hypotheses_satisfiable :
  let U := [0;0;0;1#2;1;1;1]%Q in
  let P := [[0;0];[1;2];[3;1];[4;4]]%Q in
  iter_bisect Qops 2 [0;1#2;1]%Q = [0;1#8;1#4;3#8;1#2;5#8;3#4;7#8;1]%Q /\
  (* one knot: x = 1/4 in [U_2, U_4), span 2 *)
  find_span_linear Qops 2 U 4 (1#4)%Q = 2%nat /\
  snd (refine_pts Qops (1#10000000)%Q 2 U P [(1#4)%Q]) = [0;0;0;1#4;1#2;1;1;1]%Q /\
  length (fst (refine_pts Qops (1#10000000)%Q 2 U P [(1#4)%Q])) = 5%nat /\
  (* full refinement, density 1: every interior knot ends with multiplicity 2 = degree *)
  res_map snd (knot_refinement Qops (1#10000000)%Q true 2 U P None [] 1) = Ok [0;0;0;1#4;1#4;1#2;1#2;3#4;3#4;1;1;1]%Q.
Proof. cbv zeta. repeat split; vm_compute; reflexivity. Qed.

(* ====================== GENERAL REFINEMENT (round 2, Proofs/Refine*.v): any number of inserted knots, any multiplicities up to the
   degree, curves / surfaces / volumes, any subset of directions ====================== *)


Theorem C05_refine_kv_is_merge : forall (tol : R) (p : nat) (U : list R) (P : list (list R)) (X : list R),
  (1 <= p)%nat -> sortedR U -> (p < length P)%nat -> length U = (length P + p + 1)%nat ->
  X <> [] -> sortedR X -> (knR U p <= nth 0 X 0)%R -> (nth (length X - 1) X 0 < knR U (length P))%R ->
  let V := snd (refine_pts Rops tol p U P X) in
  Permutation V (U ++ X) /\ sortedR V /\ length V = (length U + length X)%nat.
Proof. exact refine_kv_is_merge. Qed.
Print Assumptions C05_refine_kv_is_merge.

Theorem C05_refine_preserves_curve : forall (tol : R) (p : nat) (U : list R) (P : list (list R)) (X : list R) (dim : nat),
  (1 <= p)%nat -> sortedR U -> (p < length P)%nat -> length U = (length P + p + 1)%nat ->
  X <> [] -> sortedR X -> (knR U p <= nth 0 X 0)%R -> (nth (length X - 1) X 0 < knR U (length P))%R ->
  (forall x y, In x X -> In y (X ++ U) -> (x < y)%R -> (tol <= y - x)%R) ->
  (forall x, In x X -> (count_occ Req_EM_T (X ++ U) x <= p)%nat) ->
  (forall i, (i < length P)%nat -> length (getp P i) = dim) ->
  let '(Q, V) := refine_pts Rops tol p U P X in
  length Q = (length P + length X)%nat /\ (forall w, (w < length Q)%nat -> length (getp Q w) = dim) /\
  forall c t, (c < dim)%nat -> curve_pt p V Q c t = curve_pt p U P c t.
Proof. exact refine_preserves_curve. Qed.
Print Assumptions C05_refine_preserves_curve.

Theorem C05_refine_default_X_spec : forall (tol : R) (p : nat) (U : list R) (d : nat),
  sortedR U -> (2 * p < length U)%nat -> (0 <= tol)%R ->
  (forall v y, In v (refine_L p U d) -> In y U -> (Rabs (v - y) <= tol)%R -> y = v) ->
  StronglySorted Rlt (refine_L p U d) /\ sortedR (refine_Xd tol p U d) /\
  (forall z, count_occ Req_EM_T (refine_Xd tol p U d) z =
             if in_dec Req_EM_T z (refine_L p U d) then (p - count_occ Req_EM_T U z)%nat else 0%nat) /\
  (forall z, In z (refine_Xd tol p U d) -> In z (refine_L p U d) /\ (count_occ Req_EM_T U z < p)%nat /\
             (knR U p <= z <= knR U (length U - p - 1))%R).
Proof. exact refine_default_X_spec. Qed.
Print Assumptions C05_refine_default_X_spec.

Theorem C05_knot_refinement_correct : forall tol check p U P klo add d dim Q V,
  let kl := (match klo with Some l => l | None => slice U p (length U - p) end) ++ add in
  plan_ok tol p U (length P) d kl -> (forall i, (i < length P)%nat -> length (getp P i) = dim) ->
  knot_refinement Rops tol check p U P klo add d = Ok (Q, V) ->
  let X := refine_Xk tol p U d kl in
  length Q = (length P + length X)%nat /\ length V = (length U + length X)%nat /\ sortedR V /\ Permutation V (U ++ X) /\
  (forall w, (w < length Q)%nat -> length (getp Q w) = dim) /\
  (forall c t, (c < dim)%nat -> curve_pt p V Q c t = curve_pt p U P c t) /\
  (forall z, In z (refine_Lk d kl) -> (count_occ Req_EM_T U z <= p)%nat -> count_occ Req_EM_T V z = p) /\
  (forall z, ~ In z (refine_Lk d kl) -> count_occ Req_EM_T V z = count_occ Req_EM_T U z).
Proof. exact knot_refinement_correct. Qed.
Print Assumptions C05_knot_refinement_correct.

Theorem C05_knot_refinement_default_correct : forall tol p U P d dim Q V,
  default_ok tol p U (length P) d -> (forall i, (i < length P)%nat -> length (getp P i) = dim) ->
  knot_refinement Rops tol true p U P None [] d = Ok (Q, V) ->
  let X := refine_Xd tol p U d in
  (1 <= d)%nat /\ length Q = (length P + length X)%nat /\ length V = (length U + length X)%nat /\
  sortedR V /\ Permutation V (U ++ X) /\
  (forall w, (w < length Q)%nat -> length (getp Q w) = dim) /\
  (forall c t, (c < dim)%nat -> curve_pt p V Q c t = curve_pt p U P c t) /\
  (forall z, In z V -> (knR U p < z < knR U (length P))%R -> (count_occ Req_EM_T U z <= p)%nat -> count_occ Req_EM_T V z = p) /\
  (forall z, ~ In z (refine_L p U d) -> count_occ Req_EM_T V z = count_occ Req_EM_T U z).
Proof. exact knot_refinement_default_correct. Qed.
Print Assumptions C05_knot_refinement_default_correct.

Theorem C05_refine_curve_correct : forall tol check (c : curve (T:=R)) params dim,
  default_ok tol (c_p c) (c_U c) (length (c_P c)) (dens params 0) ->
  (forall i, (i < length (c_P c))%nat -> length (getp (c_P c) i) = dim) ->
  let '(c', raised) := refine_curve Rops tol check c params in
  c_p c' = c_p c /\ (raised = true -> c' = c) /\
  (forall i, (i < length (c_P c'))%nat -> length (getp (c_P c') i) = dim) /\
  (forall cc t, (cc < dim)%nat -> curve_pt (c_p c') (c_U c') (c_P c') cc t = curve_pt (c_p c) (c_U c) (c_P c) cc t).
Proof. exact refine_curve_correct. Qed.
Print Assumptions C05_refine_curve_correct.

Theorem C05_refine_surface_correct : forall tol check (g : surf (T:=R)) params dim,
  (dens params 0 <> 0%nat -> default_ok tol (s_pu g) (s_Uu g) (s_su g) (dens params 0)) ->
  (dens params 1 <> 0%nat -> default_ok tol (s_pv g) (s_Uv g) (s_sv g) (dens params 1)) ->
  surf_dims g dim ->
  let g' := fst (refine_surf Rops tol check g params) in
  surf_dims g' dim /\ forall c tu tv, (c < dim)%nat -> surf_pt g' c tu tv = surf_pt g c tu tv.
Proof. exact refine_surf_correct. Qed.
Print Assumptions C05_refine_surface_correct.

Theorem C05_refine_volume_correct : forall tol check (g : vol (T:=R)) params dim, (1 <= dim)%nat ->
  (dens params 0 <> 0%nat -> default_ok tol (v_pu g) (v_Uu g) (v_su g) (dens params 0)) ->
  (dens params 1 <> 0%nat -> default_ok tol (v_pv g) (v_Uv g) (v_sv g) (dens params 1)) ->
  (dens params 2 <> 0%nat -> default_ok tol (v_pw g) (v_Uw g) (v_sw g) (dens params 2)) ->
  vol_dims g dim ->
  let g' := fst (refine_vol Rops tol check g params) in
  vol_dims g' dim /\ forall c tu tv tw, (c < dim)%nat -> vol_pt g' c tu tv tw = vol_pt g c tu tv tw.
Proof. exact refine_vol_correct. Qed.
Print Assumptions C05_refine_volume_correct.

Example C05_default_ok_satisfiable : default_ok (1/1000) 2 exU 4 1.        Proof. exact default_ok_satisfiable. Qed.
Example C05_refine_ok_satisfiable  : refine_ok  (1/1000) 2 exU 4 exX.      Proof. exact refine_ok_satisfiable. Qed.

(* ====================== TRANSLATOR TIE (Proofs/GenTie*.v) ======================
   coq/Gen/*.v is the Gallina rendering of the Python source produced by harness/pytrans.py; every run of ./check regenerates it
   from /repo and compares it function by function with the committed text (evidence: translator_tie).  The theorems below say
   that the hand-written model (the subject of the theorems above) computes, for ALL inputs satisfying the stated
   well-formedness, exactly what the translated source computes.  This block stays LAST in the file: its imports shadow
   model names. *)
From Coq Require Import List QArith Reals Qreals Lia Lra Arith Bool ZArith.
From NV Require Import Scalar.Ops Model.Common Model.Basis Model.Knots Model.KnotIns Model.KnotRem Model.LinAlg Model.Degree
  Gen.Prelude Gen.LinalgInternal Gen.Linalg Gen.Knotvector Gen.Helpers
  Proofs.GenTieSums Proofs.GenTieLinAlg Proofs.GenTieSubst Proofs.GenTieLU Proofs.GenTieLUSolve Proofs.GenTieKnotRem Proofs.GenTieDegree
  Proofs.GenTieLib Proofs.GenTieKnots Proofs.GenTieSpan Proofs.GenTieBasis Proofs.GenTieBasisOne
  Proofs.GenTieDersOne Proofs.GenTieDersLib Proofs.GenTieDers Proofs.GenTieKnotIns.
Local Open Scope nat_scope.
From NV Require Import Gen.PreludeExt Gen.LinalgMat Proofs.GenTieMat Proofs.GenTieMatSolve Proofs.GenTieBinom.
From NV Require Import Gen.PreludeExt Gen.HelpersB Proofs.GenTieKnotRemove.
From NV Require Import Gen.HelpersB Proofs.GenTieElev.
From NV Require Import Model.Geom2D Model.Voxel Gen.PreludeExt Gen.LinalgGeom Gen.Voxelize Proofs.GenTieGeom Proofs.GenTieVoxel
  Proofs.GenTieHull.
From NV Require Import Model.Hull Gen.Utilities Proofs.GenTieBBox.
From NV Require Import Model.Fit Gen.Fitting Proofs.GenTieFit.
From NV Require Import Model.Derivs Proofs.GenTieDerivCpts.
From NV Require Import Proofs.GenTieArr4 Proofs.GenTieDerivSurf.

From NV Require Import Model.KnotRefine Proofs.GenTieRefine.

(* [G] helpers.knot_refinement, control points = lists of coordinates, knot_list given (the default is knotvector[degree:-degree]),
   tol = the default 10e-8 (see the README: the source takes the multiplicities with find_multiplicity's OWN default tolerance, the
   model with knot_refinement's tol).  GeomdlException <-> Rejected; where the bisection loop reads its loop variable after an
   empty loop (fewer than two distinct knots: UnboundLocalError <-> Crash) the generated code gives up: GErr OutOfFuel.
   wf: at least one control point, non-empty; degree < len(ctrlpts); len(knotvector) = len(ctrlpts) + degree + 1; the span of the
   first inserted knot is not above that of the last; every inserted knot is <= every knot from the index b = span(X[r]) + 1 on
   (true for a non-decreasing knot vector; it keeps the indices of A5.4 inside the arrays).  Under refine_laws (order_laws +
   (y < x -> not x <= y); Rops and Qops): sorted(set(...)) of the source uses == and <, the model < and <= *)
Theorem C05_gen_knot_refinement_R : forall (p dn : nat) (U : list R) (P : list (list R)) (kl add : list R) (check : bool),
  P <> [] -> nth O P [] <> [] -> p < length P -> length U = length P + p + 1 ->
  (forall X, refine_plan Rops (Helpers.find_multiplicity__default_tol Rops) check p U (Some kl) add dn = Ok X ->
     let n := length P - 1 in let r := length X - 1 in
     let a := Basis.find_span_linear Rops p U (S n) (nth O X 0%R) in
     let b := S (Basis.find_span_linear Rops p U (S n) (nth r X 0%R)) in
     a < b /\ forall x i, In x X -> b <= i -> i < length U -> oleb Rops x (kn Rops U i) = true) ->
  HelpersB.knot_refinement Rops (Z.of_nat p) U P add check (Z.of_nat dn) kl (Helpers.find_multiplicity__default_tol Rops) =
  res_to_gres (fun x => x) GeomdlError OutOfFuel
    (KnotRefine.knot_refinement Rops (Helpers.find_multiplicity__default_tol Rops) check p U P (Some kl) add dn).
Proof. exact knot_refinement_tie_R. Qed.
Print Assumptions C05_gen_knot_refinement_R.
Theorem C05_gen_knot_refinement_Q : forall (p dn : nat) (U : list Q) (P : list (list Q)) (kl add : list Q) (check : bool),
  P <> [] -> nth O P [] <> [] -> p < length P -> length U = length P + p + 1 ->
  (forall X, refine_plan Qops (Helpers.find_multiplicity__default_tol Qops) check p U (Some kl) add dn = Ok X ->
     let n := length P - 1 in let r := length X - 1 in
     let a := Basis.find_span_linear Qops p U (S n) (nth O X 0%Q) in
     let b := S (Basis.find_span_linear Qops p U (S n) (nth r X 0%Q)) in
     a < b /\ forall x i, In x X -> b <= i -> i < length U -> oleb Qops x (kn Qops U i) = true) ->
  HelpersB.knot_refinement Qops (Z.of_nat p) U P add check (Z.of_nat dn) kl (Helpers.find_multiplicity__default_tol Qops) =
  res_to_gres (fun x => x) GeomdlError OutOfFuel
    (KnotRefine.knot_refinement Qops (Helpers.find_multiplicity__default_tol Qops) check p U P (Some kl) add dn).
Proof. exact knot_refinement_tie_Q. Qed.
Print Assumptions C05_gen_knot_refinement_Q.
Example C05_gen_nonvacuous :
  HelpersB.knot_refinement Qops 3 [0; 0; 0; 0; 1#2; 1; 1; 1; 1]%Q [[0; 0]; [1#2; 1]; [2; 2]; [7#2; 1]; [4; 0]]%Q [] true 1 [0; 1#2; 1]%Q
    (Helpers.find_multiplicity__default_tol Qops) =
  res_to_gres (fun x => x) GeomdlError OutOfFuel
    (KnotRefine.knot_refinement Qops (Helpers.find_multiplicity__default_tol Qops) true 3 [0; 0; 0; 0; 1#2; 1; 1; 1; 1]%Q
       [[0; 0]; [1#2; 1]; [2; 2]; [7#2; 1]; [4; 0]]%Q None [] 1).
Proof. vm_compute; reflexivity. Qed.

