(* C15 - tessellation is a valid triangulation lying on the surface; OBJ / OFF / STL exports describe exactly this mesh.
   This file only states the property theorems; proofs live under Proofs/ (TessValid, TessV1..4, TessMain, TessR, TrimR).
   The model (Model/TessCore.v, Model/Tess.v) describes the REPAIRED behaviour (fixes/C15-*.diff). *)
From Coq Require Import List Arith Bool Lia Reals Lra.
From NV Require Import Scalar.Ops Model.Common Model.Knots Model.Geom2D Model.Tess
  Proofs.TessValid Proofs.TessMain Proofs.TessR Proofs.TrimR.
From NV Require Import Model.Geom2D Proofs.WindingRect Proofs.TrimCells.
Import ListNotations.

(* [F] the property's own finite range, exhausted: for ALL vertex-array sizes 2..40 x 2..40 the boolean validator
   mesh_ok (Proofs/TessValid.v) holds on the model's triangle list: every vertex id < a*b; every directed edge is used
   exactly once (consistent orientation, no overlap), hence every interior edge is shared by exactly two triangles in
   opposite directions; the edges without a reverse are exactly 2(a-1)+2(b-1) and lie on the boundary of the index
   rectangle; V - E + F = 1 (Euler characteristic of a disc); F = 2(a-1)(b-1); every vertex is used; every triangle is
   counter-clockwise in the (i,j) = (u,v) index plane.  1521 configurations by vm_compute, lifted by forallb_forall. *)
Theorem C15_mesh_valid_2_40 : forall a b, 2 <= a <= 40 -> 2 <= b <= 40 -> mesh_ok a b (plain_tris a b) = true.
Proof. exact mesh_valid_2_40. Qed.
Print Assumptions C15_mesh_valid_2_40.

(* [F]+[G] every tessellation the property quantifies over (sample sizes 2..40 per direction, every vertex spacing
   dividing both sizes minus one): the output of make_triangle_mesh (generic cell loop + fix_numbering) passes the
   validator, has a*b vertices (ids = positions 0..V-1) and 2(a-1)(b-1) triangles with ids 0..F-1 *)
Theorem C15_tessellation_valid : forall npts su sv k vs ts,
  2 <= su <= 40 -> 2 <= sv <= 40 -> 1 <= k -> Nat.divide k (su - 1) -> Nat.divide k (sv - 1) ->
  make_triangle_mesh npts su sv k = Ok (vs, ts) ->
  let a := varr_size su k in let b := varr_size sv k in
  mesh_ok a b (map snd ts) = true /\ length vs = a * b /\ length ts = 2 * ((a - 1) * (b - 1)) /\
  map fst ts = seq 0 (length ts).
Proof. exact tessellation_valid. Qed.
Print Assumptions C15_tessellation_valid.

(* [G] all sizes (no bound): the generic cell loop with the surface_tessellate callback followed by fix_numbering is
   the closed form (row-major vertex array, two fan triangles per cell) *)
Theorem C15_make_triangle_mesh_closed_form : forall npts su sv k,
  1 <= k -> k <= su - 1 -> k <= sv - 1 -> make_triangle_mesh npts su sv k = plain_mesh npts su sv k.
Proof. exact make_triangle_mesh_closed_form. Qed.
Print Assumptions C15_make_triangle_mesh_closed_form.

(* [G] all sizes: V = a*b, F = 2(a-1)(b-1), consecutive triangle ids, every triangle refers to existing vertices *)
Theorem C15_mesh_counts : forall npts su sv k vs ts,
  1 <= k -> k <= su - 1 -> k <= sv - 1 -> make_triangle_mesh npts su sv k = Ok (vs, ts) ->
  let a := varr_size su k in let b := varr_size sv k in
  length vs = a * b /\ length ts = 2 * ((a - 1) * (b - 1)) /\ map fst ts = seq 0 (length ts) /\
  map snd ts = plain_tris a b /\
  Forall (fun t => let '(x, y, z) := snd t in x < length vs /\ y < length vs /\ z < length vs) ts.
Proof. exact mesh_counts. Qed.
Print Assumptions C15_mesh_counts.

(* [G] stored uv = grid parameter: the accumulated `u += u_jump` after n steps is n*k/(size-1) ... *)
Theorem C15_vertex_uv_is_grid_parameter : forall size k n,
  2 <= size -> uv_acc Rops (uv_jump Rops size k) n = (INR (n * k) / INR (size - 1))%R.
Proof. exact vertex_u_is_grid_parameter. Qed.
Print Assumptions C15_vertex_uv_is_grid_parameter.

(* ... which is the linspace(0,1,size) parameter at which sample n*k (the vertex's preliminary position evalpts[idx]) was
   evaluated; so the vertex position is the surface at its stored parameters (surface evaluation itself: C01) *)
Theorem C15_vertex_uv_is_sample_parameter : forall tol8 size k n,
  2 <= size -> n * k < size -> (0 <= tol8 < 1)%R ->
  uv_acc Rops (uv_jump Rops size k) n = nth (n * k) (linspace Rops tol8 0%R 1%R size) 0%R.
Proof. exact vertex_u_is_linspace_sample. Qed.
Print Assumptions C15_vertex_uv_is_sample_parameter.

(* [G] the two triangles (v1,v2,v3), (v1,v3,v4) of a cell are counter-clockwise, their areas add up to the cell, every
   point of the cell lies in one of them and in both only on the shared diagonal *)
Theorem C15_cell_partition : forall u0 u1 v0 v1 x y,
  (u0 < u1)%R -> (v0 < v1)%R -> (u0 <= x <= u1)%R -> (v0 <= y <= v1)%R ->
  let p1 := [u0; v0] in let p2 := [u1; v0] in let p3 := [u1; v1] in let p4 := [u0; v1] in
  (0 < is_left Rops p1 p2 p3)%R /\ (0 < is_left Rops p1 p3 p4)%R /\
  (is_left Rops p1 p2 p3 + is_left Rops p1 p3 p4 = 2 * ((u1 - u0) * (v1 - v0)))%R /\
  (in_tri p1 p2 p3 [x; y] \/ in_tri p1 p3 p4 [x; y]) /\
  (in_tri p1 p2 p3 [x; y] -> in_tri p1 p3 p4 [x; y] -> is_left Rops p1 p3 [x; y] = 0%R).
Proof. exact cell_partition. Qed.
Print Assumptions C15_cell_partition.

(* trimmed cells.  The full claim (omitted region = trimmed region up to one sampling cell, for arbitrary closed trims) is
   NOT proved; it is checked by the exact oracle of harness/props/C15.py on every run.  It would read: a cell that no
   trim segment meets is either omitted or tessellated by exactly its two fan triangles. *)
Definition seg_meets_cell (p q : list R) (u0 u1 v0 v1 : R) : Prop :=
  exists l, (0 <= l <= 1)%R /\ (u0 <= cx Rops p + l * (cx Rops q - cx Rops p) <= u1)%R /\
            (v0 <= cy Rops p + l * (cy Rops q - cy Rops p) <= v1)%R.
Definition C15_trim_within_one_cell_full : Prop :=
  forall (rtol tol tols : R) (trims : list (@trimc R)) (s : list (@vobj R)) (c1 c2 c3 c4 vidx tidx : nat) (u0 u1 v0 v1 : R),
    (u0 < u1)%R -> (v0 < v1)%R ->
    vuv (vget Rops s c1) = [u0; v0] -> vuv (vget Rops s c2) = [u1; v0] ->
    vuv (vget Rops s c3) = [u1; v1] -> vuv (vget Rops s c4) = [u0; v1] ->
    Forall (fun c => vinside (vget Rops s c) = false /\ vtrim (vget Rops s c) = false /\ vnotrim (vget Rops s c) = false) [c1; c2; c3; c4] ->
    (forall trim p q, In trim trims -> In (p, q) (combine (tpts trim) (tl (tpts trim))) -> ~ seg_meets_cell p q u0 u1 v0 v1) ->
    let ts := snd (surface_trim_tessellate Rops rtol tol tols trims s [c1; c2; c3; c4] vidx tidx) in
    ts = [] \/ ts = [(tidx, (c1, c2, c3)); (S tidx, (c1, c3, c4))].

(* [G, by definition] a cell whose four corners are all classified inside is omitted *)
Theorem C15_trim_cell_all_inside_partial : forall (rtol tol tols : R) trims s corners vidx tidx,
  let s1 := fold_left (fun st p => upd st (snd p) (classify_vertex Rops tols trims (fst p) (vget Rops st (snd p))))
                      (combine (seq 0 4) corners) s in
  forallb vinside (map (vget Rops s1) corners) = true ->
  surface_trim_tessellate Rops rtol tol tols trims s corners vidx tidx = (s1, [], []).
Proof. exact (trim_cell_all_inside Rops). Qed.
Print Assumptions C15_trim_cell_all_inside_partial.

(* [G] the "kept whole" rule: no corner classified inside and no trim segment crossing a cell edge => the four corners
   and exactly the two fan triangles, each kept unless its own centre of mass is trimmed; no vertex is created *)
Theorem C15_trim_cell_no_crossing_partial : forall (rtol tol tols : R) trims s c1 c2 c3 c4 vidx tidx,
  let s1 := fold_left (fun st p => upd st (snd p) (classify_vertex Rops tols trims (fst p) (vget Rops st (snd p))))
                      (combine (seq 0 4) [c1; c2; c3; c4]) s in
  vinside (vget Rops s1 c1) = false -> vinside (vget Rops s1 c2) = false ->
  vinside (vget Rops s1 c3) = false -> vinside (vget Rops s1 c4) = false ->
  cell_intersections Rops rtol tol
    [(vuv (vget Rops s1 c1), vuv (vget Rops s1 c2)); (vuv (vget Rops s1 c2), vuv (vget Rops s1 c3));
     (vuv (vget Rops s1 c3), vuv (vget Rops s1 c4)); (vuv (vget Rops s1 c4), vuv (vget Rops s1 c1))] trims = [] ->
  surface_trim_tessellate Rops rtol tol tols trims s [c1; c2; c3; c4] vidx tidx =
  (s1, [c1; c2; c3; c4], filter (tri_kept Rops trims s1) [(tidx, (c1, c2, c3)); (S tidx, (c1, c3, c4))]).
Proof. exact (trim_cell_no_crossing Rops). Qed.
Print Assumptions C15_trim_cell_no_crossing_partial.

(* [G] without trims the trim-aware callback produces exactly the untrimmed fan, creates no vertex, drops nothing *)
Theorem C15_trim_cell_no_trims_partial : forall (rtol tol tols : R) s c1 c2 c3 c4 vidx tidx,
  vinside (vget Rops s c1) = false -> vinside (vget Rops s c2) = false ->
  vinside (vget Rops s c3) = false -> vinside (vget Rops s c4) = false ->
  surface_trim_tessellate Rops rtol tol tols [] s [c1; c2; c3; c4] vidx tidx =
  (s, [c1; c2; c3; c4], [(tidx, (c1, c2, c3)); (S tidx, (c1, c3, c4))]).
Proof. exact (trim_cell_no_trims Rops). Qed.
Print Assumptions C15_trim_cell_no_trims_partial.

(* [G] OBJ writer, any number of surfaces: the vertex lines are the concatenation of the surfaces' vertices and every
   face index lies in 1 .. #vertex lines (the offset of a surface is the number of vertices before it: obj_step) *)
Theorem C15_export_obj_indices_in_range : forall (ms : list (list (list R) * list tri)),
  Forall smesh_ok ms ->
  fst (export_obj ms) = concat (map fst ms) /\
  Forall (Forall (fun i => 1 <= i <= length (fst (export_obj ms)))) (snd (export_obj ms)).
Proof. exact export_obj_in_range. Qed.
Print Assumptions C15_export_obj_indices_in_range.

(* [G] OFF writer: header = (#vertex lines, #face lines, 0); every face line is `3 i j k` with i,j,k < #vertices *)
Theorem C15_export_off_header_counts : forall (ms : list (list (list R) * list tri)),
  Forall smesh_ok ms ->
  let '(h, v, f) := export_off ms in
  h = (length v, length f, 0) /\ v = concat (map fst ms) /\ length f = length (concat (map snd ms)) /\
  Forall (off_line_ok (length v)) f.
Proof. exact export_off_counts. Qed.
Print Assumptions C15_export_off_header_counts.

(* [G] containers: vertex ids are 0..V-1 in order and every face refers to existing vertices (offsets = prefix sums) *)
Theorem C15_container_ids_in_range : forall ms,
  Forall cmesh_ok ms ->
  let r := container_tessellate ms in
  fst r = seq 0 (length (fst r)) /\ Forall (fun f => tri_lt (length (fst r)) (snd f)) (snd r).
Proof. exact container_tessellate_in_range. Qed.
Print Assumptions C15_container_ids_in_range.

(* [G] STL facet normal = cross product of two edges: orthogonal to all three edges of the facet *)
Theorem C15_stl_normal_is_cross_product : forall x0 y0 z0 x1 y1 z1 x2 y2 z2 : R,
  let p0 := [x0; y0; z0] in let p1 := [x1; y1; z1] in let p2 := [x2; y2; z2] in
  let n := triangle_normal Rops p0 p1 p2 in
  vdot Rops n (vsub Rops p1 p0) = 0%R /\ vdot Rops n (vsub Rops p2 p1) = 0%R /\ vdot Rops n (vsub Rops p0 p2) = 0%R.
Proof. exact triangle_normal_orthogonal. Qed.
Print Assumptions C15_stl_normal_is_cross_product.

(* the vertex-array size of the pinned tree, int(round(size/spacing + 10e-8)) (round half up on these inputs), is wrong
   for a spacing that divides size-1: this is the defect repaired by fixes/C15-vertex-array-size.diff *)
Definition pinned_varr_size (size k : nat) : nat := (2 * size + k) / (2 * k).
Theorem C15_pinned_vertex_array_size_refuted :
  exists size k, 2 <= size <= 40 /\ Nat.divide k (size - 1) /\ pinned_varr_size size k <> length (seq 0 (varr_size size k)).
Proof. exists 4, 3. split; [lia|]. split; [exists 1; reflexivity|]. vm_compute. discriminate. Qed.
Print Assumptions C15_pinned_vertex_array_size_refuted.

(* ---- non-vacuity: concrete non-trivial inputs *)
Example C15_example_spacing3 :      (* 7 x 4 samples, spacing 3: a 3 x 2 vertex array *)
  make_triangle_mesh 28 7 4 3 =
  Ok ([(0, (0, 0)); (3, (0, 1)); (12, (1, 0)); (15, (1, 1)); (24, (2, 0)); (27, (2, 1))],
      [(0, (0, 2, 3)); (1, (0, 3, 1)); (2, (2, 4, 5)); (3, (2, 5, 3))]).
Proof. vm_compute. reflexivity. Qed.
Example C15_example_valid : mesh_ok 3 2 (plain_tris 3 2) = true /\ mesh_ok 3 2 [(0, 2, 3); (0, 1, 3); (2, 4, 5); (2, 5, 3)] = false.
Proof. vm_compute. split; reflexivity. Qed.
Example C15_example_hypotheses : 2 <= 7 <= 40 /\ 2 <= 4 <= 40 /\ 1 <= 3 /\ Nat.divide 3 (7 - 1) /\ Nat.divide 3 (4 - 1).
Proof. repeat split; try lia; [exists 2|exists 1]; reflexivity. Qed.
Example C15_example_container :
  container_tessellate [(4, [(0, (0, 2, 3)); (1, (0, 3, 1))]); (4, [(0, (0, 2, 3)); (1, (0, 3, 1))])] =
  ([0; 1; 2; 3; 4; 5; 6; 7], [(0, (0, 2, 3)); (1, (0, 3, 1)); (2, (4, 6, 7)); (3, (4, 7, 5))]).
Proof. vm_compute. reflexivity. Qed.
Example C15_example_obj :
  snd (export_obj [([[0%R]; [1%R]; [2%R]], [(0, 1, 2)]); ([[3%R]; [4%R]; [5%R]], [(0, 2, 1)])]) = [[1; 2; 3]; [4; 6; 5]].
Proof. reflexivity. Qed.
Example C15_example_uv : uv_acc Rops (uv_jump Rops 7 3) 2 = 1%R.
Proof. rewrite C15_vertex_uv_is_grid_parameter by lia. simpl. lra. Qed.

(* ====================== round 2 (Proofs/WindingRect.v, TrimCells.v): trimmed tessellation, cell-level soundness ('within one cell') ====================== *)


(* [G] the winding test is constant on every closed axis-parallel rectangle that no edge of a CLOSED polyline meets
   (closed_poly vs: last point = first point; no_edge_meets vs ...: forall consecutive p q, ~ seg_meets_rect p q ...) *)
Theorem C15_winding_constant_off_the_trim : forall (vs : list (list R)) (u0 u1 v0 v1 x1 y1 x2 y2 : R),
  closed_poly vs -> no_edge_meets vs u0 u1 v0 v1 ->
  (u0 <= x1 <= u1)%R -> (v0 <= y1 <= v1)%R -> (u0 <= x2 <= u1)%R -> (v0 <= y2 <= v1)%R ->
  wn_poly Rops [x1; y1] vs = wn_poly Rops [x2; y2] vs.
Proof. exact wn_poly_const_on_rect. Qed.
Print Assumptions C15_winding_constant_off_the_trim.

(* [G] (a) every corner's winding test (corner_test: at the corner moved by (+-tols, +-tols), as the code does) succeeds
   for some ordinary trim => the cell contributes no vertex and no triangle *)
Theorem C15_trim_cell_corners_trimmed_omitted : forall (rtol tol tols : R) trims s c1 c2 c3 c4 vidx tidx,
  distinct4 c1 c2 c3 c4 -> c1 < length s -> c2 < length s -> c3 < length s -> c4 < length s ->
  (exists trim, In trim trims /\ treversed trim = false /\ corner_test Rops tols 0 (vget Rops s c1) trim = true) ->
  (exists trim, In trim trims /\ treversed trim = false /\ corner_test Rops tols 1 (vget Rops s c2) trim = true) ->
  (exists trim, In trim trims /\ treversed trim = false /\ corner_test Rops tols 2 (vget Rops s c3) trim = true) ->
  (exists trim, In trim trims /\ treversed trim = false /\ corner_test Rops tols 3 (vget Rops s c4) trim = true) ->
  surface_trim_tessellate Rops rtol tol tols trims s [c1; c2; c3; c4] vidx tidx =
  (cls_fold Rops tols trims [c1; c2; c3; c4] s, [], []).
Proof. exact (trim_cell_corners_trimmed_omitted Rops). Qed.
Print Assumptions C15_trim_cell_corners_trimmed_omitted.

(* [G] (b), structural: no corner classified inside => four corners, the two fan triangles (each kept unless its own
   centre is trimmed), no new vertex - whatever intersections were recorded (strengthens C15_trim_cell_no_crossing_partial) *)
Theorem C15_trim_cell_all_outside : forall (rtol tol tols : R) trims s c1 c2 c3 c4 vidx tidx,
  let s1 := cls_fold Rops tols trims [c1; c2; c3; c4] s in
  vinside (vget Rops s1 c1) = false -> vinside (vget Rops s1 c2) = false ->
  vinside (vget Rops s1 c3) = false -> vinside (vget Rops s1 c4) = false ->
  surface_trim_tessellate Rops rtol tol tols trims s [c1; c2; c3; c4] vidx tidx =
  (s1, [c1; c2; c3; c4], filter (tri_kept Rops trims s1) [(tidx, (c1, c2, c3)); (S tidx, (c1, c3, c4))]).
Proof. exact (trim_cell_all_outside Rops). Qed.
Print Assumptions C15_trim_cell_all_outside.

(* [G] "within one sampling cell" = (1) untouched cells are exact + (2) every cell's output stays in the cell.
   pt_trimmed trims x y: the model's own trimmed-or-not decision of a parametric point (the flag automaton of the code run
   on the winding tests of the point; it is what the code applies to triangle centres).  near_cell: the cell enlarged by
   tol * side + tol (tol = the intersection tolerance 10e-8 of the code). *)
Theorem C15_trim_within_one_cell :
  forall (rtol tol tols : R) (trims : list (@trimc R)) (s : list (@vobj R)) (c1 c2 c3 c4 vidx tidx : nat) (u0 u1 v0 v1 : R),
    (u0 < u1)%R -> (v0 < v1)%R ->
    c1 < length s -> c2 < length s -> c3 < length s -> c4 < length s ->
    vuv (vget Rops s c1) = [u0; v0] -> vuv (vget Rops s c2) = [u1; v0] ->
    vuv (vget Rops s c3) = [u1; v1] -> vuv (vget Rops s c4) = [u0; v1] ->
    ((0 <= tols)%R -> trims_closed trims ->
     trims_miss_rect trims (u0 - tols) (u1 + tols) (v0 - tols) (v1 + tols) ->
     Forall (fun c => vflags (vget Rops s c) = fff \/ vflags (vget Rops s c) = pt_flags trims u0 v0) [c1; c2; c3; c4] ->
     (forall x y, (u0 - tols <= x <= u1 + tols)%R -> (v0 - tols <= y <= v1 + tols)%R -> pt_trimmed trims x y = pt_trimmed trims u0 v0) /\
     surface_trim_tessellate Rops rtol tol tols trims s [c1; c2; c3; c4] vidx tidx =
       if pt_trimmed trims u0 v0 then (cls_fold Rops tols trims [c1; c2; c3; c4] s, [], [])
       else (cls_fold Rops tols trims [c1; c2; c3; c4] s, [c1; c2; c3; c4], [(tidx, (c1, c2, c3)); (S tidx, (c1, c3, c4))])) /\
    ((0 <= tol)%R -> forall s2 tvs keep,
     surface_trim_tessellate Rops rtol tol tols trims s [c1; c2; c3; c4] vidx tidx = (s2, tvs, keep) ->
     forall i x y z, In (i, (x, y, z)) keep ->
       (In x [c1; c2; c3; c4] \/ length s <= x) /\ (In y [c1; c2; c3; c4] \/ length s <= y) /\
       (In z [c1; c2; c3; c4] \/ length s <= z) /\
       near_cell tol u0 u1 v0 v1 (vget Rops s2 x) /\ near_cell tol u0 u1 v0 v1 (vget Rops s2 y) /\
       near_cell tol u0 u1 v0 v1 (vget Rops s2 z)).
Proof. exact trim_within_one_cell. Qed.
Print Assumptions C15_trim_within_one_cell.

(* [G] the corrected C15_trim_within_one_cell_full: corners are objects of the store, trims are closed polylines, tols >= 0,
   and it is the tols-neighbourhood of the cell (where the corner test points live) that no trim segment meets *)
Theorem C15_trim_within_one_cell_v2 :
  forall (rtol tol tols : R) (trims : list (@trimc R)) (s : list (@vobj R)) (c1 c2 c3 c4 vidx tidx : nat) (u0 u1 v0 v1 : R),
    (u0 < u1)%R -> (v0 < v1)%R ->
    c1 < length s -> c2 < length s -> c3 < length s -> c4 < length s ->
    vuv (vget Rops s c1) = [u0; v0] -> vuv (vget Rops s c2) = [u1; v0] ->
    vuv (vget Rops s c3) = [u1; v1] -> vuv (vget Rops s c4) = [u0; v1] ->
    Forall (fun c => vinside (vget Rops s c) = false /\ vtrim (vget Rops s c) = false /\ vnotrim (vget Rops s c) = false) [c1; c2; c3; c4] ->
    (0 <= tols)%R ->
    (forall trim, In trim trims -> closed_poly (tpts trim)) ->
    (forall trim p q, In trim trims -> In (p, q) (combine (tpts trim) (tl (tpts trim))) ->
       ~ seg_meets_cell p q (u0 - tols) (u1 + tols) (v0 - tols) (v1 + tols)) ->
    let ts := snd (surface_trim_tessellate Rops rtol tol tols trims s [c1; c2; c3; c4] vidx tidx) in
    ts = [] \/ ts = [(tidx, (c1, c2, c3)); (S tidx, (c1, c3, c4))].
Proof. exact trim_within_one_cell_v2. Qed.
Print Assumptions C15_trim_within_one_cell_v2.

(* the statement as first written is false: tols is unconstrained there and the corner tests are made at the corners moved
   by (+-tols, +-tols); witness: unit cell, tols = 10, one ordinary trim around (-10,-10): one triangle (c2,c3,c4) comes out *)
Theorem C15_trim_within_one_cell_full_refuted : ~ C15_trim_within_one_cell_full.
Proof. exact trim_within_one_cell_full_refuted. Qed.
Print Assumptions C15_trim_within_one_cell_full_refuted.

(* [G] re-classifying an object against the same winding tests does not change its flags: vertices shared with already
   processed cells behave like fresh ones *)
Theorem C15_trim_flags_idempotent : forall (test : @trimc R -> bool) trims f,
  flag_update (flag_update f trims test) trims test = flag_update f trims test.
Proof. exact flag_update_idem. Qed.
Print Assumptions C15_trim_flags_idempotent.

(* non-vacuity: an untouched, untrimmed cell and a cell inside an ordinary trim *)
Example C15_example_untouched_cell :
  surface_trim_tessellate Rops 1000%R 0%R (1 / 2)%R [far_trim] unit_store [0; 1; 2; 3] 4 0 =
  (cls_fold Rops (1 / 2)%R [far_trim] [0; 1; 2; 3] unit_store, [0; 1; 2; 3], [(0, (0, 1, 2)); (1, (0, 2, 3))]).
Proof. exact untouched_cell_example. Qed.
Example C15_example_trimmed_cell :
  surface_trim_tessellate Rops 1000%R 0%R (1 / 2)%R [big_trim] unit_store [0; 1; 2; 3] 4 0 =
  (cls_fold Rops (1 / 2)%R [big_trim] [0; 1; 2; 3] unit_store, [], []).
Proof. exact trimmed_cell_example. Qed.


From Coq Require Import Sorted.
From NV Require Import Proofs.TrimMesh.


(* ====================== round 3 (Proofs/TrimMesh.v): trimmed tessellation, the WHOLE mesh of make_trim_mesh
   (= make_triangle_mesh with tessellate_func = surface_trim_tessellate, then fix_numbering) ====================== *)

(* [G] structure, all sizes / spacings / trims (no geometric hypothesis): every returned triangle references returned
   vertices only (vertex id = position in the returned list, so ids are 0..V-1); every returned vertex is used by a returned
   triangle (the model, like the code, drops unused vertices); a returned vertex is a grid vertex with its point index and
   grid parameters or has no point attached (created on a cell edge); triangle ids are those of the per-cell outputs *)
Theorem C15_trim_mesh_structure : forall (rtol tol tols : R) trims npts su sv k vs ts,
  make_trim_mesh Rops rtol tol tols trims npts su sv k = Ok (vs, ts) ->
  let a := varr_size su k in let b := varr_size sv k in
  Forall (fun t => tri_lt (length vs) (snd t)) ts /\
  (forall n, n < length vs -> exists t, In t ts /\ In n (tri_ids (snd t))) /\
  (forall n d, n < length vs ->
     (exists g, g < a * b /\ nth n vs d = (Some (grid_point_index sv k b g), vertex_uv Rops su sv k (g / b, g mod b))) \/
     fst (nth n vs d) = None) /\
  map fst ts = map fst (trim_raw_tris Rops rtol tol tols trims su sv k) /\
  length ts = length (trim_raw_tris Rops rtol tol tols trims su sv k).
Proof. exact (trim_mesh_structure Rops). Qed.
Print Assumptions C15_trim_mesh_structure.

(* [G] renumbering: the returned vertices are the images of the duplicate-free object list selected by fix_numbering; the
   object at position n gets the new id n (consecutive ids 0..V-1); selected = occurs in a triangle of some cell *)
Theorem C15_trim_mesh_vertex_ids_consecutive : forall (rtol tol tols : R) trims npts su sv k vs ts,
  make_trim_mesh Rops rtol tol tols trims npts su sv k = Ok (vs, ts) ->
  let final := trim_final Rops rtol tol tols trims su sv k in
  vs = map (vertex_of Rops (trim_store Rops rtol tol tols trims su sv k)) final /\ NoDup final /\
  (forall n, n < length vs -> trim_num Rops rtol tol tols trims su sv k (nth n final 0) = n) /\
  (forall o, In o final <-> exists t, In t (trim_raw_tris Rops rtol tol tols trims su sv k) /\ In o (tri_ids (snd t))).
Proof. exact (trim_mesh_vertex_ids Rops). Qed.
Print Assumptions C15_trim_mesh_vertex_ids_consecutive.

(* [G] order: the returned vertices are in increasing object order: the used grid vertices first, in row-major order of the
   vertex array (object g = j + i * b), then the used created vertices in the order of their creation *)
Theorem C15_trim_mesh_vertex_order : forall (rtol tol tols : R) trims npts su sv k vs ts,
  make_trim_mesh Rops rtol tol tols trims npts su sv k = Ok (vs, ts) ->
  let final := trim_final Rops rtol tol tols trims su sv k in
  StronglySorted lt final /\ forall n1 n2, n1 < n2 -> n2 < length vs -> nth n1 final 0 < nth n2 final 0.
Proof. exact (trim_mesh_vertex_order Rops). Qed.
Print Assumptions C15_trim_mesh_vertex_order.

(* [G] decomposition: the returned triangle list is, cell by cell in the loop's order (trim_trace = the calls of
   surface_trim_tessellate with the store and counters they see), the concatenation of the per-cell outputs with vertex
   objects replaced by their new numbers; membership both ways; every call is for a cell of the vertex array and sees the
   grid objects with id, point index, grid parameters and classification-only flags (grid_object_ok); each vertex of each
   per-cell triangle is returned at the parametric position it had in the store the call returned (so the per-cell
   theorems C15_trim_within_one_cell ... apply to every triangle of the result); the renumbering is injective *)
Theorem C15_trim_mesh_decomposition : forall (rtol tol tols : R) trims npts su sv k vs ts,
  make_trim_mesh Rops rtol tol tols trims npts su sv k = Ok (vs, ts) ->
  let tsl := surface_trim_tessellate Rops rtol tol tols trims in
  let trace := trim_trace Rops rtol tol tols trims su sv k in
  let a := varr_size su k in let b := varr_size sv k in
  let num := trim_num Rops rtol tol tols trims su sv k in
  let ren := fun t : nat * tri => let '(i, (x, y, z)) := t in (i, (num x, num y, num z)) in
  ts = flat_map (fun c => map ren (call_ts tsl b c)) trace /\
  map call_cell trace = cells a b /\
  (forall t', In t' ts <-> exists c t, In c trace /\ In t (call_ts tsl b c) /\ t' = ren t) /\
  (forall c, In c trace ->
     cell_in a b (call_cell c) /\
     (forall g, g < a * b -> grid_object_ok Rops tols trims su sv k (call_store c) g) /\
     forall i x y z, In (i, (x, y, z)) (call_ts tsl b c) ->
       let ok := fun o => o < length (call_out_store tsl b c) /\ num o < length vs /\
                          forall d, snd (nth (num o) vs d) =
                                    (vu (vget Rops (call_out_store tsl b c) o), vv (vget Rops (call_out_store tsl b c) o)) in
       ok x /\ ok y /\ ok z) /\
  (forall c c' t t' o o', In c trace -> In c' trace -> In t (call_ts tsl b c) -> In t' (call_ts tsl b c') ->
     In o (tri_ids (snd t)) -> In o' (tri_ids (snd t')) -> num o = num o' -> o = o').
Proof. exact (trim_mesh_decomposition Rops). Qed.
Print Assumptions C15_trim_mesh_decomposition.

(* [G] the loop itself (any callback): the fold of mesh_step over the cells is the run of its calls; vertex list, triangle
   list and both counters are the concatenations / sums of the calls' outputs *)
Theorem C15_mesh_loop_is_concatenation_of_calls :
  forall (St : Type) (tsl : St -> list nat -> nat -> nat -> St * list nat * list (nat * tri)) b cs s vl ts vi ti,
  let tr := mesh_trace tsl b cs (s, vl, ts, vi, ti) in
  exists s', chain tsl b s vi ti tr s' /\ map call_cell tr = cs /\
    fold_left (mesh_step tsl b) cs (s, vl, ts, vi, ti) =
    (s', vl ++ flat_map (call_vs tsl b) tr, ts ++ flat_map (call_ts tsl b) tr,
     vi + length (flat_map (call_vs tsl b) tr), ti + length (flat_map (call_ts tsl b) tr)).
Proof. intros St tsl. exact (mesh_fold_trace tsl). Qed.
Print Assumptions C15_mesh_loop_is_concatenation_of_calls.

(* [G] 'within one cell', ANY trims, 0 <= tol: every returned triangle comes from one cell (i,j) of the vertex array, its
   three vertices lie in that cell enlarged by tol * side + tol (near_rect; tol = the code's intersection / snap tolerance),
   and its centre of mass is a point that the exact decision pt_trimmed keeps (gu size k n = the accumulated grid parameter,
   = n*k/(size-1) by C15_vertex_uv_is_grid_parameter) *)
Theorem C15_trim_mesh_triangles_within_their_cell : forall (rtol tol tols : R) trims npts su sv k vs ts,
  (0 <= tol)%R -> make_trim_mesh Rops rtol tol tols trims npts su sv k = Ok (vs, ts) ->
  let a := varr_size su k in let b := varr_size sv k in
  forall id x y z, In (id, (x, y, z)) ts ->
  exists i j, i < a - 1 /\ j < b - 1 /\
    let u0 := gu su k i in let u1 := gu su k (i + 1) in let v0 := gu sv k j in let v1 := gu sv k (j + 1) in
    (u0 < u1)%R /\ (v0 < v1)%R /\ (x < length vs /\ y < length vs /\ z < length vs) /\
    forall d, let P := fun n => snd (nth n vs d) in
      near_rect tol u0 u1 v0 v1 (P x) /\ near_rect tol u0 u1 v0 v1 (P y) /\ near_rect tol u0 u1 v0 v1 (P z) /\
      pt_trimmed trims ((fst (P x) + fst (P y) + fst (P z)) / 3)%R ((snd (P x) + snd (P y) + snd (P z)) / 3)%R = false.
Proof. exact trim_mesh_triangles_local. Qed.
Print Assumptions C15_trim_mesh_triangles_within_their_cell.

(* [G] metric form: every point (convex combination of the vertices) of every kept triangle is, in u and in v, within one
   cell size (1 + 2 tol) * side + 2 tol of a point of the exact untrimmed region (the triangle's centre) *)
Theorem C15_trim_mesh_kept_points_within_one_cell_of_untrimmed : forall (rtol tol tols : R) trims npts su sv k vs ts,
  (0 <= tol)%R -> make_trim_mesh Rops rtol tol tols trims npts su sv k = Ok (vs, ts) ->
  let a := varr_size su k in let b := varr_size sv k in
  forall id x y z d, In (id, (x, y, z)) ts ->
  let P := fun n => snd (nth n vs d) in
  exists i j cu cv, i < a - 1 /\ j < b - 1 /\ pt_trimmed trims cu cv = false /\
    forall al be ga : R, (0 <= al)%R -> (0 <= be)%R -> (0 <= ga)%R -> (al + be + ga = 1)%R ->
      let pu := (al * fst (P x) + be * fst (P y) + ga * fst (P z))%R in
      let pv := (al * snd (P x) + be * snd (P y) + ga * snd (P z))%R in
      (Rabs (pu - cu) <= (1 + 2 * tol) * (gu su k (i + 1) - gu su k i) + 2 * tol)%R /\
      (Rabs (pv - cv) <= (1 + 2 * tol) * (gu sv k (j + 1) - gu sv k j) + 2 * tol)%R.
Proof. exact trim_mesh_triangle_points. Qed.
Print Assumptions C15_trim_mesh_kept_points_within_one_cell_of_untrimmed.

(* [G] untouched cells are exact, in the mesh: closed trims, 0 <= tols, the n-th call of the loop (trace = tr1 ++ c :: tr2)
   is for a cell whose tols-neighbourhood no trim segment meets  =>  the exact decision is the same at all points of the
   cell; the call returns nothing if it is `trimmed`, else exactly the two plain triangles numbered ti, ti+1 with
   ti = number of triangles emitted before; in the result they sit between the contributions of the earlier and the later
   cells, on the four grid vertices of the cell (point indices, exact grid parameters).  With C15_cell_partition: a cell
   inside the untrimmed region that the trim boundary does not touch is covered by exactly its two plain triangles;
   with C15_trim_mesh_triangles_within_their_cell: triangles of other cells stay in their own (enlarged) cells *)
Theorem C15_trim_mesh_untouched_cell_exact : forall (rtol tol tols : R) trims npts su sv k vs ts,
  (0 <= tols)%R -> trims_closed trims -> make_trim_mesh Rops rtol tol tols trims npts su sv k = Ok (vs, ts) ->
  let tsl := surface_trim_tessellate Rops rtol tol tols trims in
  let a := varr_size su k in let b := varr_size sv k in
  forall tr1 c tr2, trim_trace Rops rtol tol tols trims su sv k = tr1 ++ c :: tr2 ->
  let i := fst (call_cell c) in let j := snd (call_cell c) in
  let u0 := gu su k i in let u1 := gu su k (i + 1) in let v0 := gu sv k j in let v1 := gu sv k (j + 1) in
  trims_miss_rect trims (u0 - tols) (u1 + tols) (v0 - tols) (v1 + tols) ->
  let c1 := j + i * b in let c2 := j + (i + 1) * b in let c3 := j + 1 + (i + 1) * b in let c4 := j + 1 + i * b in
  let ti := call_ti c in
  let num := trim_num Rops rtol tol tols trims su sv k in
  let ren := fun t : nat * tri => let '(n, (x, y, z)) := t in (n, (num x, num y, num z)) in
  i < a - 1 /\ j < b - 1 /\ (u0 < u1)%R /\ (v0 < v1)%R /\
  (forall x y, (u0 - tols <= x <= u1 + tols)%R -> (v0 - tols <= y <= v1 + tols)%R ->
     pt_trimmed trims x y = pt_trimmed trims u0 v0) /\
  ti = length (flat_map (call_ts tsl b) tr1) /\
  call_ts tsl b c = (if pt_trimmed trims u0 v0 then [] else [(ti, (c1, c2, c3)); (S ti, (c1, c3, c4))]) /\
  ts = flat_map (fun c => map ren (call_ts tsl b c)) tr1 ++
       (if pt_trimmed trims u0 v0 then [] else [(ti, (num c1, num c2, num c3)); (S ti, (num c1, num c3, num c4))]) ++
       flat_map (fun c => map ren (call_ts tsl b c)) tr2 /\
  (pt_trimmed trims u0 v0 = false -> forall d,
     nth (num c1) vs d = (Some (grid_point_index sv k b c1), (u0, v0)) /\
     nth (num c2) vs d = (Some (grid_point_index sv k b c2), (u1, v0)) /\
     nth (num c3) vs d = (Some (grid_point_index sv k b c3), (u1, v1)) /\
     nth (num c4) vs d = (Some (grid_point_index sv k b c4), (u0, v1)) /\
     (num c1 < length vs /\ num c2 < length vs /\ num c3 < length vs /\ num c4 < length vs)).
Proof. exact trim_mesh_untouched_cell. Qed.
Print Assumptions C15_trim_mesh_untouched_cell_exact.

(* [G] every cell of the vertex array has its call in the loop (so the theorem above applies to every cell) *)
Theorem C15_trim_mesh_every_cell_is_called : forall (rtol tol tols : R) trims npts su sv k vs ts i j,
  make_trim_mesh Rops rtol tol tols trims npts su sv k = Ok (vs, ts) ->
  i < varr_size su k - 1 -> j < varr_size sv k - 1 ->
  exists tr1 c tr2, trim_trace Rops rtol tol tols trims su sv k = tr1 ++ c :: tr2 /\ call_cell c = (i, j).
Proof. exact (trim_trace_cell Rops). Qed.
Print Assumptions C15_trim_mesh_every_cell_is_called.

(* triangle ids.  The claim "triangle ids are consecutive" is FALSE for the trimmed tessellation (model and code): a cell
   whose first candidate triangle fails the centre test returns the second with its candidate id.  Witness: 2 x 2 samples,
   one ordinary trim [3/5,4/5] x [1/5,2/5] around the centre of the first fan triangle: the result is the single triangle
   with id 1 (geomdl returns the same: ids [1]; with 3 x 2 samples ids [1; 1; 2]) *)
Theorem C15_trim_mesh_tri_ids_consecutive_refuted :
  exists (rtol tol tols : R) trims npts su sv k vs ts,
    make_trim_mesh Rops rtol tol tols trims npts su sv k = Ok (vs, ts) /\ map fst ts <> seq 0 (length ts).
Proof. exact trim_mesh_tri_ids_refuted. Qed.
Print Assumptions C15_trim_mesh_tri_ids_consecutive_refuted.

(* [G] corrected: ids are 0..F-1 when every call returns consecutively numbered triangles (keeps a prefix of its
   candidates) ... *)
Theorem C15_trim_mesh_tri_ids_consecutive_if_prefix_kept : forall (rtol tol tols : R) trims npts su sv k vs ts,
  make_trim_mesh Rops rtol tol tols trims npts su sv k = Ok (vs, ts) ->
  Forall (fun c => let l := call_ts (surface_trim_tessellate Rops rtol tol tols trims) (varr_size sv k) c in
                   map fst l = seq (call_ti c) (length l))
         (trim_trace Rops rtol tol tols trims su sv k) ->
  map fst ts = seq 0 (length ts).
Proof. exact (trim_mesh_tri_ids Rops). Qed.
Print Assumptions C15_trim_mesh_tri_ids_consecutive_if_prefix_kept.

(* [G] ... in particular when no cell's tols-neighbourhood is touched by the (closed) trims *)
Theorem C15_trim_mesh_tri_ids_consecutive_untouched : forall (rtol tol tols : R) trims npts su sv k vs ts,
  (0 <= tols)%R -> trims_closed trims -> make_trim_mesh Rops rtol tol tols trims npts su sv k = Ok (vs, ts) ->
  (forall c, In c (trim_trace Rops rtol tol tols trims su sv k) ->
     let i := fst (call_cell c) in let j := snd (call_cell c) in
     trims_miss_rect trims (gu su k i - tols) (gu su k (i + 1) + tols) (gu sv k j - tols) (gu sv k (j + 1) + tols)) ->
  map fst ts = seq 0 (length ts).
Proof. exact trim_mesh_tri_ids_untouched. Qed.
Print Assumptions C15_trim_mesh_tri_ids_consecutive_untouched.

(* non-vacuity: 3 x 3 samples, spacing 1, a closed ordinary trim far from the parameter square: the mesh exists and starts
   with the two plain triangles of cell (0,0) on the grid vertices (0,0), (1/2,0), (1/2,1/2), (0,1/2) = points 0, 3, 4, 1 *)
Example C15_example_trim_mesh :
  exists vs ts rest n1 n2 n3 n4,
    make_trim_mesh Rops 1000%R 0%R (1 / 2)%R [far_trim] 9 3 3 1 = Ok (vs, ts) /\ (0 <= 1 / 2)%R /\ trims_closed [far_trim] /\
    ts = (0, (n1, n2, n3)) :: (1, (n1, n3, n4)) :: rest /\
    forall d, nth n1 vs d = (Some 0, (0, 0)%R) /\ nth n2 vs d = (Some 3, (1 / 2, 0)%R) /\
              nth n3 vs d = (Some 4, (1 / 2, 1 / 2)%R) /\ nth n4 vs d = (Some 1, (0, 1 / 2)%R).
Proof. exact trim_mesh_example. Qed.
