(* C01 - evaluated points equal the B-spline/NURBS definition.  Statements only; proofs in Proofs/EvalR.v. *)
From Coq Require Import List QArith Reals Qreals Lia Arith Bool.
From NV Require Import Scalar.Ops Model.Common Model.Basis Model.Knots Model.Eval Proofs.Boehm Proofs.BasisR Proofs.EvalR Transfer.EvalT.
Import ListNotations.
Open Scope R_scope.

(* [G] curves: all degrees, all sorted knot vectors (any multiplicities, clamped or not, any range), all nets of
   points of any dimension, every parameter of the half-open domain [U_p, U_n): the returned point is
   sum over ALL i of N_{i,p}(u) P_i with N the Cox-de Boor recursion (0/0 = 0). *)
Theorem C01_curve_point_is_definition : forall (U : list R) (P : list (list R)) (p dim : nat) (u : R),
  sortedR U -> wf_net P dim -> (p < length P)%nat -> length U = (length P + p + 1)%nat ->
  knR U p <= u < knR U (length P) ->
  let r := curve_point Rops dim p U P u in
  length r = dim /\ forall d, (d < dim)%nat -> nth d r 0 = curve_def U p P d u.
Proof. exact curve_point_is_definition. Qed.
Print Assumptions C01_curve_point_is_definition.

(* [G] right domain end of a clamped curve: exactly the last control point *)
Theorem C01_clamped_right_end : forall (U : list R) (P : list (list R)) (p dim : nat) (u : R),
  sortedR U -> wf_net P dim -> (p < length P)%nat -> length U = (length P + p + 1)%nat ->
  (forall r, (r <= p)%nat -> knR U (length P + r) = u) -> knR U (length P - 1) < u ->
  let r := curve_point Rops dim p U P u in
  length r = dim /\ forall d, (d < dim)%nat -> nth d r 0 = coord P (length P - 1) d.
Proof. exact clamped_right_end. Qed.
Print Assumptions C01_clamped_right_end.

(* [G] rational curves: the point is A(u)/w(u) on the homogeneous net, and w(u) > 0 for positive weights *)
Theorem C01_rational_curve_point_is_quotient : forall (U : list R) (Pw : list (list R)) (p dim : nat) (u : R),
  sortedR U -> wf_net Pw (S dim) -> (p < length Pw)%nat -> length U = (length Pw + p + 1)%nat ->
  knR U p <= u < knR U (length Pw) ->
  forall d, (d < dim)%nat ->
  nth d (obj_curve_point Rops true dim p U Pw u) 0 = curve_def U p Pw d u / curve_def U p Pw dim u.
Proof. exact rational_curve_point_is_quotient. Qed.
Print Assumptions C01_rational_curve_point_is_quotient.

Theorem C01_rational_weight_function_positive : forall (U : list R) (Pw : list (list R)) (p dim : nat) (u : R),
  sortedR U -> (p < length Pw)%nat -> length U = (length Pw + p + 1)%nat ->
  knR U p <= u < knR U (length Pw) ->
  (forall i, (i < length Pw)%nat -> 0 < coord Pw i dim) ->
  0 < curve_def U p Pw dim u.
Proof. exact rational_weight_function_positive. Qed.
Print Assumptions C01_rational_weight_function_positive.

(* [G] surfaces: tensor-product definition over the whole net, flat index v + sv*u *)
Theorem C01_surface_point_is_definition : forall (Uu Uv : list R) (P : list (list R)) (pu pv su sv dim : nat) (u v : R),
  sortedR Uu -> sortedR Uv -> wf_net P dim -> length P = (su * sv)%nat ->
  (pu < su)%nat -> (pv < sv)%nat -> length Uu = (su + pu + 1)%nat -> length Uv = (sv + pv + 1)%nat ->
  knR Uu pu <= u < knR Uu su -> knR Uv pv <= v < knR Uv sv ->
  let r := surface_point Rops dim pu pv Uu Uv su sv P u v in
  length r = dim /\ forall d, (d < dim)%nat -> nth d r 0 = surface_def Uu Uv pu pv su sv P d u v.
Proof. exact surface_point_is_definition. Qed.
Print Assumptions C01_surface_point_is_definition.

(* [G] volumes: flat index v + sv*(u + su*w) *)
Theorem C01_volume_point_is_definition : forall (Uu Uv Uw : list R) (P : list (list R)) (pu pv pw su sv sw dim : nat) (u v w : R),
  sortedR Uu -> sortedR Uv -> sortedR Uw -> wf_net P dim -> length P = (su * sv * sw)%nat ->
  (pu < su)%nat -> (pv < sv)%nat -> (pw < sw)%nat ->
  length Uu = (su + pu + 1)%nat -> length Uv = (sv + pv + 1)%nat -> length Uw = (sw + pw + 1)%nat ->
  knR Uu pu <= u < knR Uu su -> knR Uv pv <= v < knR Uv sv -> knR Uw pw <= w < knR Uw sw ->
  let r := volume_point Rops dim pu pv pw Uu Uv Uw su sv sw P u v w in
  length r = dim /\ forall d, (d < dim)%nat -> nth d r 0 = volume_def Uu Uv Uw pu pv pw su sv sw P d u v w.
Proof. exact volume_point_is_definition. Qed.
Print Assumptions C01_volume_point_is_definition.

(* [G] rational surfaces / volumes: quotient of the homogeneous tensor-product sums *)
Theorem C01_rational_surface_point_is_quotient : forall (Uu Uv : list R) (Pw : list (list R)) (pu pv su sv dim : nat) (u v : R),
  sortedR Uu -> sortedR Uv -> wf_net Pw (S dim) -> length Pw = (su * sv)%nat ->
  (pu < su)%nat -> (pv < sv)%nat -> length Uu = (su + pu + 1)%nat -> length Uv = (sv + pv + 1)%nat ->
  knR Uu pu <= u < knR Uu su -> knR Uv pv <= v < knR Uv sv ->
  forall d, (d < dim)%nat ->
  nth d (obj_surface_point Rops true dim pu pv Uu Uv su sv Pw (u, v)) 0
  = surface_def Uu Uv pu pv su sv Pw d u v / surface_def Uu Uv pu pv su sv Pw dim u v.
Proof. exact rational_surface_point_is_quotient. Qed.
Print Assumptions C01_rational_surface_point_is_quotient.

Theorem C01_rational_volume_point_is_quotient : forall (Uu Uv Uw : list R) (Pw : list (list R)) (pu pv pw su sv sw dim : nat) (u v w : R),
  sortedR Uu -> sortedR Uv -> sortedR Uw -> wf_net Pw (S dim) -> length Pw = (su * sv * sw)%nat ->
  (pu < su)%nat -> (pv < sv)%nat -> (pw < sw)%nat ->
  length Uu = (su + pu + 1)%nat -> length Uv = (sv + pv + 1)%nat -> length Uw = (sw + pw + 1)%nat ->
  knR Uu pu <= u < knR Uu su -> knR Uv pv <= v < knR Uv sv -> knR Uw pw <= w < knR Uw sw ->
  forall d, (d < dim)%nat ->
  nth d (obj_volume_point Rops true dim pu pv pw Uu Uv Uw su sv sw Pw (u, v, w)) 0
  = volume_def Uu Uv Uw pu pv pw su sv sw Pw d u v w / volume_def Uu Uv Uw pu pv pw su sv sw Pw dim u v w.
Proof. exact rational_volume_point_is_quotient. Qed.
Print Assumptions C01_rational_volume_point_is_quotient.

(* [G] sampled grid: n parameters, the first exactly the domain start and the last exactly the domain end *)
Theorem C01_grid_size_and_ends : forall tol8 a b n, tol8 < Rabs (a - b) -> (2 <= n)%nat ->
  length (linspace Rops tol8 a b n) = n /\
  nth 0 (linspace Rops tol8 a b n) 0 = a /\ nth (n - 1) (linspace Rops tol8 a b n) 0 = b.
Proof. intros tol8 a b n Ht Hn. split; [apply linspace_length; assumption|apply linspace_ends; assumption]. Qed.
Print Assumptions C01_grid_size_and_ends.

(* [G] grid ordering: in a sampled surface grid the element for (u_i, v_j) sits at index j + nv*i (v fastest) *)
Theorem C01_surface_grid_layout : forall tol8 dim pu pv Uu Uv su sv P s0 s1 t0 t1 nu nv i j,
  let lu := linspace Rops tol8 s0 s1 nu in let lv := linspace Rops tol8 t0 t1 nv in
  (i < length lu)%nat -> (j < length lv)%nat ->
  nth (j + length lv * i) (surface_evalpts Rops tol8 dim pu pv Uu Uv su sv P s0 s1 t0 t1 nu nv) [] =
  surface_point Rops dim pu pv Uu Uv su sv P (nth i lu 0) (nth j lv 0).
Proof.
  intros. unfold surface_evalpts.
  exact (flat_map_grid (fun u v => surface_point Rops dim pu pv Uu Uv su sv P u v) lu lv 0 0 [] i j H H0).
Qed.
Print Assumptions C01_surface_grid_layout.

(* [G] the executed (rational) instance of the model is the image of the real instance the theorems are about *)
Theorem C01_model_Q_instance_is_R_instance : forall dim p (U : list Q) (P : list (list Q)) (u : Q),
  curve_point Rops dim p (map Q2R U) (map (map Q2R) P) (Q2R u) = map Q2R (curve_point Qops dim p U P u).
Proof. exact curve_point_transfer. Qed.
Print Assumptions C01_model_Q_instance_is_R_instance.

(* non-vacuity: a cubic NURBS-like setting with a double interior knot satisfies the hypotheses *)
Example C01_hypotheses_satisfiable :
  let U := [0;0;0;0;1#4;1#2;1#2;1;1;1;1]%Q in
  let P := [[0;0];[1;2];[2;-1];[3;3];[4;0];[5;1];[6;-2]]%Q in
  (length U = length P + 3 + 1)%nat /\ (3 < length P)%nat /\ (kn Qops U 3 <= 3#10)%Q /\ (3#10 < kn Qops U (length P))%Q /\
  length (curve_point Qops 2 3 U P (3#10)) = 2%nat.
Proof. cbv zeta. repeat split; try (vm_compute; congruence); try (cbn; lia). Qed.
