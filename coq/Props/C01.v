(* C01 - evaluated points equal the B-spline/NURBS definition.  Statements only; proofs in Proofs/EvalR.v. *)
From Coq Require Import List QArith Reals Qreals Lia Arith Bool.
From NV Require Import Scalar.Ops Model.Common Model.Basis Model.Knots Model.Eval Proofs.Boehm Proofs.BasisR Proofs.EvalR Transfer.EvalT.
Import ListNotations.
Open Scope R_scope.

(* [G] curves: all degrees, all sorted knot vectors (any multiplicities, clamped or not, any range), all nets of
   points of any dimension, every parameter of the half-open domain [U_p, U_n): the returned point is
   sum over ALL i of N_{i,p}(u) P_i with N the Cox-de Boor recursion (0/0 = 0). *)
Theorem C01_curve_point_is_definition : forall (U : list R) (P : list (list R)) (p dim : nat) (u : R),
  sortedR U -> wf_net P dim -> (p < length P)%nat -> length U = (length P + p + 1)%nat ->
  knR U p <= u < knR U (length P) ->
  let r := curve_point Rops dim p U P u in
  length r = dim /\ forall d, (d < dim)%nat -> nth d r 0 = curve_def U p P d u.
Proof. exact curve_point_is_definition. Qed.
Print Assumptions C01_curve_point_is_definition.

(* [G] right domain end of a clamped curve: exactly the last control point *)
Theorem C01_clamped_right_end : forall (U : list R) (P : list (list R)) (p dim : nat) (u : R),
  sortedR U -> wf_net P dim -> (p < length P)%nat -> length U = (length P + p + 1)%nat ->
  (forall r, (r <= p)%nat -> knR U (length P + r) = u) -> knR U (length P - 1) < u ->
  let r := curve_point Rops dim p U P u in
  length r = dim /\ forall d, (d < dim)%nat -> nth d r 0 = coord P (length P - 1) d.
Proof. exact clamped_right_end. Qed.
Print Assumptions C01_clamped_right_end.

(* [G] rational curves: the point is A(u)/w(u) on the homogeneous net, and w(u) > 0 for positive weights *)
Theorem C01_rational_curve_point_is_quotient : forall (U : list R) (Pw : list (list R)) (p dim : nat) (u : R),
  sortedR U -> wf_net Pw (S dim) -> (p < length Pw)%nat -> length U = (length Pw + p + 1)%nat ->
  knR U p <= u < knR U (length Pw) ->
  forall d, (d < dim)%nat ->
  nth d (obj_curve_point Rops true dim p U Pw u) 0 = curve_def U p Pw d u / curve_def U p Pw dim u.
Proof. exact rational_curve_point_is_quotient. Qed.
Print Assumptions C01_rational_curve_point_is_quotient.

Theorem C01_rational_weight_function_positive : forall (U : list R) (Pw : list (list R)) (p dim : nat) (u : R),
  sortedR U -> (p < length Pw)%nat -> length U = (length Pw + p + 1)%nat ->
  knR U p <= u < knR U (length Pw) ->
  (forall i, (i < length Pw)%nat -> 0 < coord Pw i dim) ->
  0 < curve_def U p Pw dim u.
Proof. exact rational_weight_function_positive. Qed.
Print Assumptions C01_rational_weight_function_positive.

(* [G] surfaces: tensor-product definition over the whole net, flat index v + sv*u *)
Theorem C01_surface_point_is_definition : forall (Uu Uv : list R) (P : list (list R)) (pu pv su sv dim : nat) (u v : R),
  sortedR Uu -> sortedR Uv -> wf_net P dim -> length P = (su * sv)%nat ->
  (pu < su)%nat -> (pv < sv)%nat -> length Uu = (su + pu + 1)%nat -> length Uv = (sv + pv + 1)%nat ->
  knR Uu pu <= u < knR Uu su -> knR Uv pv <= v < knR Uv sv ->
  let r := surface_point Rops dim pu pv Uu Uv su sv P u v in
  length r = dim /\ forall d, (d < dim)%nat -> nth d r 0 = surface_def Uu Uv pu pv su sv P d u v.
Proof. exact surface_point_is_definition. Qed.
Print Assumptions C01_surface_point_is_definition.

(* [G] volumes: flat index v + sv*(u + su*w) *)
Theorem C01_volume_point_is_definition : forall (Uu Uv Uw : list R) (P : list (list R)) (pu pv pw su sv sw dim : nat) (u v w : R),
  sortedR Uu -> sortedR Uv -> sortedR Uw -> wf_net P dim -> length P = (su * sv * sw)%nat ->
  (pu < su)%nat -> (pv < sv)%nat -> (pw < sw)%nat ->
  length Uu = (su + pu + 1)%nat -> length Uv = (sv + pv + 1)%nat -> length Uw = (sw + pw + 1)%nat ->
  knR Uu pu <= u < knR Uu su -> knR Uv pv <= v < knR Uv sv -> knR Uw pw <= w < knR Uw sw ->
  let r := volume_point Rops dim pu pv pw Uu Uv Uw su sv sw P u v w in
  length r = dim /\ forall d, (d < dim)%nat -> nth d r 0 = volume_def Uu Uv Uw pu pv pw su sv sw P d u v w.
Proof. exact volume_point_is_definition. Qed.
Print Assumptions C01_volume_point_is_definition.

(* [G] rational surfaces / volumes: quotient of the homogeneous tensor-product sums *)
Theorem C01_rational_surface_point_is_quotient : forall (Uu Uv : list R) (Pw : list (list R)) (pu pv su sv dim : nat) (u v : R),
  sortedR Uu -> sortedR Uv -> wf_net Pw (S dim) -> length Pw = (su * sv)%nat ->
  (pu < su)%nat -> (pv < sv)%nat -> length Uu = (su + pu + 1)%nat -> length Uv = (sv + pv + 1)%nat ->
  knR Uu pu <= u < knR Uu su -> knR Uv pv <= v < knR Uv sv ->
  forall d, (d < dim)%nat ->
  nth d (obj_surface_point Rops true dim pu pv Uu Uv su sv Pw (u, v)) 0
  = surface_def Uu Uv pu pv su sv Pw d u v / surface_def Uu Uv pu pv su sv Pw dim u v.
Proof. exact rational_surface_point_is_quotient. Qed.
Print Assumptions C01_rational_surface_point_is_quotient.

Theorem C01_rational_volume_point_is_quotient : forall (Uu Uv Uw : list R) (Pw : list (list R)) (pu pv pw su sv sw dim : nat) (u v w : R),
  sortedR Uu -> sortedR Uv -> sortedR Uw -> wf_net Pw (S dim) -> length Pw = (su * sv * sw)%nat ->
  (pu < su)%nat -> (pv < sv)%nat -> (pw < sw)%nat ->
  length Uu = (su + pu + 1)%nat -> length Uv = (sv + pv + 1)%nat -> length Uw = (sw + pw + 1)%nat ->
  knR Uu pu <= u < knR Uu su -> knR Uv pv <= v < knR Uv sv -> knR Uw pw <= w < knR Uw sw ->
  forall d, (d < dim)%nat ->
  nth d (obj_volume_point Rops true dim pu pv pw Uu Uv Uw su sv sw Pw (u, v, w)) 0
  = volume_def Uu Uv Uw pu pv pw su sv sw Pw d u v w / volume_def Uu Uv Uw pu pv pw su sv sw Pw dim u v w.
Proof. exact rational_volume_point_is_quotient. Qed.
Print Assumptions C01_rational_volume_point_is_quotient.

(* [G] sampled grid: n parameters, the first exactly the domain start and the last exactly the domain end *)
Theorem C01_grid_size_and_ends : forall tol8 a b n, tol8 < Rabs (a - b) -> (2 <= n)%nat ->
  length (linspace Rops tol8 a b n) = n /\
  nth 0 (linspace Rops tol8 a b n) 0 = a /\ nth (n - 1) (linspace Rops tol8 a b n) 0 = b.
Proof. intros tol8 a b n Ht Hn. split; [apply linspace_length; assumption|apply linspace_ends; assumption]. Qed.
Print Assumptions C01_grid_size_and_ends.

(* [G] grid ordering: in a sampled surface grid the element for (u_i, v_j) sits at index j + nv*i (v fastest) *)
Theorem C01_surface_grid_layout : forall tol8 dim pu pv Uu Uv su sv P s0 s1 t0 t1 nu nv i j,
  let lu := linspace Rops tol8 s0 s1 nu in let lv := linspace Rops tol8 t0 t1 nv in
  (i < length lu)%nat -> (j < length lv)%nat ->
  nth (j + length lv * i) (surface_evalpts Rops tol8 dim pu pv Uu Uv su sv P s0 s1 t0 t1 nu nv) [] =
  surface_point Rops dim pu pv Uu Uv su sv P (nth i lu 0) (nth j lv 0).
Proof.
  intros. unfold surface_evalpts.
  exact (flat_map_grid (fun u v => surface_point Rops dim pu pv Uu Uv su sv P u v) lu lv 0 0 [] i j H H0).
Qed.
Print Assumptions C01_surface_grid_layout.

(* [G] the executed (rational) instance of the model is the image of the real instance the theorems are about *)
Theorem C01_model_Q_instance_is_R_instance : forall dim p (U : list Q) (P : list (list Q)) (u : Q),
  curve_point Rops dim p (map Q2R U) (map (map Q2R) P) (Q2R u) = map Q2R (curve_point Qops dim p U P u).
Proof. exact curve_point_transfer. Qed.
Print Assumptions C01_model_Q_instance_is_R_instance.

(* non-vacuity: a cubic NURBS-like setting with a double interior knot satisfies the hypotheses *)
Example C01_hypotheses_satisfiable :
  let U := [0;0;0;0;1#4;1#2;1#2;1;1;1;1]%Q in
  let P := [[0;0];[1;2];[2;-1];[3;3];[4;0];[5;1];[6;-2]]%Q in
  (length U = length P + 3 + 1)%nat /\ (3 < length P)%nat /\ (kn Qops U 3 <= 3#10)%Q /\ (3#10 < kn Qops U (length P))%Q /\
  length (curve_point Qops 2 3 U P (3#10)) = 2%nat.
Proof. cbv zeta. repeat split; try (vm_compute; congruence); try (cbn; lia). Qed.

(* ====================== TRANSLATOR TIE (Proofs/GenTie*.v) ======================
   coq/Gen/*.v is the Gallina rendering of the Python source produced by harness/pytrans.py; every run of ./check regenerates it
   from /repo and compares it function by function with the committed text (evidence: translator_tie).  The theorems below say
   that the hand-written model (the subject of the theorems above) computes, for ALL inputs satisfying the stated
   well-formedness, exactly what the translated source computes.  This block stays LAST in the file: its imports shadow
   model names. *)
From Coq Require Import List QArith Reals Qreals Lia Lra Arith Bool ZArith.
From NV Require Import Scalar.Ops Model.Common Model.Basis Model.Knots Model.KnotIns Model.KnotRem Model.LinAlg Model.Degree
  Gen.Prelude Gen.LinalgInternal Gen.Linalg Gen.Knotvector Gen.Helpers
  Proofs.GenTieSums Proofs.GenTieLinAlg Proofs.GenTieSubst Proofs.GenTieLU Proofs.GenTieLUSolve Proofs.GenTieKnotRem Proofs.GenTieDegree
  Proofs.GenTieLib Proofs.GenTieKnots Proofs.GenTieSpan Proofs.GenTieBasis Proofs.GenTieBasisOne
  Proofs.GenTieDersOne Proofs.GenTieDersLib Proofs.GenTieDers Proofs.GenTieKnotIns.
Local Open Scope nat_scope.
From NV Require Import Gen.PreludeExt Gen.LinalgMat Proofs.GenTieMat Proofs.GenTieMatSolve Proofs.GenTieBinom.
From NV Require Import Gen.PreludeExt Gen.HelpersB Proofs.GenTieKnotRemove.
From NV Require Import Gen.HelpersB Proofs.GenTieElev.
From NV Require Import Model.Geom2D Model.Voxel Gen.PreludeExt Gen.LinalgGeom Gen.Voxelize Proofs.GenTieGeom Proofs.GenTieVoxel
  Proofs.GenTieHull.
From NV Require Import Model.Hull Gen.Utilities Proofs.GenTieBBox.
From NV Require Import Model.Fit Gen.Fitting Proofs.GenTieFit.
From NV Require Import Model.Derivs Proofs.GenTieDerivCpts.
From NV Require Import Proofs.GenTieArr4 Proofs.GenTieDerivSurf.
From NV Require Import Model.KnotRefine Proofs.GenTieRefine.

From NV Require Import Model.Eval Gen.Evaluators Proofs.GenTieEvalLib Proofs.GenTieEvalCurve Proofs.GenTieEvalSurf Proofs.GenTieEvalVol.

(* [G] CurveEvaluator.evaluate (A3.1 on linspace(start, stop, sample_size)) with the default find_span_func *)
Theorem C01_gen_CurveEvaluator_evaluate_R : forall (dd : geomdata R) (p : nat) (U : list R) (P : list (list R)) (n : Z) (start stop : R),
  curve_dd dd p U P -> hd_error (geomdata_sample_size dd) = Some n ->
  p < length P -> length P + p <= length U ->
  Evaluators.CurveEvaluator_evaluate Rops (Helpers.find_span_linear Rops) dd start stop =
  GOk (curve_evalpts Rops (lit_10e_8 Rops) (Z.to_nat (eval_dim dd)) p U P start stop (Z.to_nat n)).
Proof. exact CurveEvaluator_evaluate_tie_R. Qed.
Print Assumptions C01_gen_CurveEvaluator_evaluate_R.
Theorem C01_gen_CurveEvaluator_evaluate_Q : forall (dd : geomdata Q) (p : nat) (U : list Q) (P : list (list Q)) (n : Z) (start stop : Q),
  curve_dd dd p U P -> hd_error (geomdata_sample_size dd) = Some n ->
  p < length P -> length P + p <= length U ->
  Evaluators.CurveEvaluator_evaluate Qops (Helpers.find_span_linear Qops) dd start stop =
  GOk (curve_evalpts Qops (lit_10e_8 Qops) (Z.to_nat (eval_dim dd)) p U P start stop (Z.to_nat n)).
Proof. exact CurveEvaluator_evaluate_tie_Q. Qed.
Print Assumptions C01_gen_CurveEvaluator_evaluate_Q.

(* [G] CurveEvaluatorRational.evaluate: the weighted points divided by their last coordinate *)
Theorem C01_gen_CurveEvaluatorRational_evaluate_R : forall (dd : geomdata R) (p : nat) (U : list R) (P : list (list R)) (n : Z) (start stop : R),
  curve_dd dd p U P -> hd_error (geomdata_sample_size dd) = Some n ->
  p < length P -> length P + p <= length U ->
  (1 <= eval_dim dd)%Z -> (forall pt, In pt P -> Z.of_nat (length pt) = eval_dim dd) ->
  Evaluators.CurveEvaluatorRational_evaluate Rops (Helpers.find_span_linear Rops) dd start stop =
  GOk (map (project Rops) (curve_evalpts Rops (lit_10e_8 Rops) (Z.to_nat (eval_dim dd)) p U P start stop (Z.to_nat n))).
Proof. exact CurveEvaluatorRational_evaluate_tie_R. Qed.
Print Assumptions C01_gen_CurveEvaluatorRational_evaluate_R.
Theorem C01_gen_CurveEvaluatorRational_evaluate_Q : forall (dd : geomdata Q) (p : nat) (U : list Q) (P : list (list Q)) (n : Z) (start stop : Q),
  curve_dd dd p U P -> hd_error (geomdata_sample_size dd) = Some n ->
  p < length P -> length P + p <= length U ->
  (1 <= eval_dim dd)%Z -> (forall pt, In pt P -> Z.of_nat (length pt) = eval_dim dd) ->
  Evaluators.CurveEvaluatorRational_evaluate Qops (Helpers.find_span_linear Qops) dd start stop =
  GOk (map (project Qops) (curve_evalpts Qops (lit_10e_8 Qops) (Z.to_nat (eval_dim dd)) p U P start stop (Z.to_nat n))).
Proof. exact CurveEvaluatorRational_evaluate_tie_Q. Qed.
Print Assumptions C01_gen_CurveEvaluatorRational_evaluate_Q.

(* [G] SurfaceEvaluator.evaluate (A3.5 on the grid linspace x linspace, u outermost) *)
Theorem C01_gen_SurfaceEvaluator_evaluate_R : forall (dd : geomdata R) (pu pv : nat) (Uu Uv : list R) (su sv : nat) (P : list (list R))
    (nu nv : Z) (s0 s1 t0 t1 : R),
  surf_dd dd pu pv Uu Uv su sv P nu nv ->
  pu < su -> su + pu <= length Uu -> pv < sv -> sv + pv <= length Uv -> su * sv <= length P ->
  Evaluators.SurfaceEvaluator_evaluate Rops (Helpers.find_span_linear Rops) dd [s0; t0] [s1; t1] =
  GOk (surface_evalpts Rops (lit_10e_8 Rops) (Z.to_nat (eval_dim dd)) pu pv Uu Uv su sv P s0 s1 t0 t1 (Z.to_nat nu) (Z.to_nat nv)).
Proof. exact SurfaceEvaluator_evaluate_tie_R. Qed.
Print Assumptions C01_gen_SurfaceEvaluator_evaluate_R.

(* [G] SurfaceEvaluator.evaluate (A3.5 on the grid linspace x linspace, u outermost) *)
Theorem C01_gen_SurfaceEvaluator_evaluate_Q : forall (dd : geomdata Q) (pu pv : nat) (Uu Uv : list Q) (su sv : nat) (P : list (list Q))
    (nu nv : Z) (s0 s1 t0 t1 : Q),
  surf_dd dd pu pv Uu Uv su sv P nu nv ->
  pu < su -> su + pu <= length Uu -> pv < sv -> sv + pv <= length Uv -> su * sv <= length P ->
  Evaluators.SurfaceEvaluator_evaluate Qops (Helpers.find_span_linear Qops) dd [s0; t0] [s1; t1] =
  GOk (surface_evalpts Qops (lit_10e_8 Qops) (Z.to_nat (eval_dim dd)) pu pv Uu Uv su sv P s0 s1 t0 t1 (Z.to_nat nu) (Z.to_nat nv)).
Proof. exact SurfaceEvaluator_evaluate_tie_Q. Qed.
Print Assumptions C01_gen_SurfaceEvaluator_evaluate_Q.

(* [G] SurfaceEvaluatorRational.evaluate *)
Theorem C01_gen_SurfaceEvaluatorRational_evaluate_R : forall (dd : geomdata R) (pu pv : nat) (Uu Uv : list R) (su sv : nat) (P : list (list R))
    (nu nv : Z) (s0 s1 t0 t1 : R),
  surf_dd dd pu pv Uu Uv su sv P nu nv ->
  pu < su -> su + pu <= length Uu -> pv < sv -> sv + pv <= length Uv -> su * sv <= length P ->
  (1 <= eval_dim dd)%Z -> (forall pt, In pt P -> Z.of_nat (length pt) = eval_dim dd) ->
  Evaluators.SurfaceEvaluatorRational_evaluate Rops (Helpers.find_span_linear Rops) dd [s0; t0] [s1; t1] =
  GOk (map (project Rops)
        (surface_evalpts Rops (lit_10e_8 Rops) (Z.to_nat (eval_dim dd)) pu pv Uu Uv su sv P s0 s1 t0 t1 (Z.to_nat nu) (Z.to_nat nv))).
Proof. exact SurfaceEvaluatorRational_evaluate_tie_R. Qed.
Print Assumptions C01_gen_SurfaceEvaluatorRational_evaluate_R.

(* [G] SurfaceEvaluatorRational.evaluate *)
Theorem C01_gen_SurfaceEvaluatorRational_evaluate_Q : forall (dd : geomdata Q) (pu pv : nat) (Uu Uv : list Q) (su sv : nat) (P : list (list Q))
    (nu nv : Z) (s0 s1 t0 t1 : Q),
  surf_dd dd pu pv Uu Uv su sv P nu nv ->
  pu < su -> su + pu <= length Uu -> pv < sv -> sv + pv <= length Uv -> su * sv <= length P ->
  (1 <= eval_dim dd)%Z -> (forall pt, In pt P -> Z.of_nat (length pt) = eval_dim dd) ->
  Evaluators.SurfaceEvaluatorRational_evaluate Qops (Helpers.find_span_linear Qops) dd [s0; t0] [s1; t1] =
  GOk (map (project Qops)
        (surface_evalpts Qops (lit_10e_8 Qops) (Z.to_nat (eval_dim dd)) pu pv Uu Uv su sv P s0 s1 t0 t1 (Z.to_nat nu) (Z.to_nat nv))).
Proof. exact SurfaceEvaluatorRational_evaluate_tie_Q. Qed.
Print Assumptions C01_gen_SurfaceEvaluatorRational_evaluate_Q.

(* [G] VolumeEvaluator.evaluate (control points flat: v fastest, then u, then w) *)
Theorem C01_gen_VolumeEvaluator_evaluate_R : forall (dd : geomdata R) (pu pv pw : nat) (Uu Uv Uw : list R) (su sv sw : nat)
    (P : list (list R)) (nu nv nw : Z) (a0 a1 b0 b1 c0 c1 : R),
  vol_dd dd pu pv pw Uu Uv Uw su sv sw P nu nv nw ->
  pu < su -> su + pu <= length Uu -> pv < sv -> sv + pv <= length Uv -> pw < sw -> sw + pw <= length Uw ->
  su * sv * sw <= length P ->
  Evaluators.VolumeEvaluator_evaluate Rops (Helpers.find_span_linear Rops) dd [a0; b0; c0] [a1; b1; c1] =
  GOk (volume_evalpts Rops (lit_10e_8 Rops) (Z.to_nat (eval_dim dd)) pu pv pw Uu Uv Uw su sv sw P a0 a1 b0 b1 c0 c1
         (Z.to_nat nu) (Z.to_nat nv) (Z.to_nat nw)).
Proof. exact VolumeEvaluator_evaluate_tie_R. Qed.
Print Assumptions C01_gen_VolumeEvaluator_evaluate_R.

(* [G] VolumeEvaluator.evaluate (control points flat: v fastest, then u, then w) *)
Theorem C01_gen_VolumeEvaluator_evaluate_Q : forall (dd : geomdata Q) (pu pv pw : nat) (Uu Uv Uw : list Q) (su sv sw : nat)
    (P : list (list Q)) (nu nv nw : Z) (a0 a1 b0 b1 c0 c1 : Q),
  vol_dd dd pu pv pw Uu Uv Uw su sv sw P nu nv nw ->
  pu < su -> su + pu <= length Uu -> pv < sv -> sv + pv <= length Uv -> pw < sw -> sw + pw <= length Uw ->
  su * sv * sw <= length P ->
  Evaluators.VolumeEvaluator_evaluate Qops (Helpers.find_span_linear Qops) dd [a0; b0; c0] [a1; b1; c1] =
  GOk (volume_evalpts Qops (lit_10e_8 Qops) (Z.to_nat (eval_dim dd)) pu pv pw Uu Uv Uw su sv sw P a0 a1 b0 b1 c0 c1
         (Z.to_nat nu) (Z.to_nat nv) (Z.to_nat nw)).
Proof. exact VolumeEvaluator_evaluate_tie_Q. Qed.
Print Assumptions C01_gen_VolumeEvaluator_evaluate_Q.

(* [G] VolumeEvaluatorRational.evaluate *)
Theorem C01_gen_VolumeEvaluatorRational_evaluate_R : forall (dd : geomdata R) (pu pv pw : nat) (Uu Uv Uw : list R) (su sv sw : nat)
    (P : list (list R)) (nu nv nw : Z) (a0 a1 b0 b1 c0 c1 : R),
  vol_dd dd pu pv pw Uu Uv Uw su sv sw P nu nv nw ->
  pu < su -> su + pu <= length Uu -> pv < sv -> sv + pv <= length Uv -> pw < sw -> sw + pw <= length Uw ->
  su * sv * sw <= length P ->
  (1 <= eval_dim dd)%Z -> (forall pt, In pt P -> Z.of_nat (length pt) = eval_dim dd) ->
  Evaluators.VolumeEvaluatorRational_evaluate Rops (Helpers.find_span_linear Rops) dd [a0; b0; c0] [a1; b1; c1] =
  GOk (map (project Rops)
        (volume_evalpts Rops (lit_10e_8 Rops) (Z.to_nat (eval_dim dd)) pu pv pw Uu Uv Uw su sv sw P a0 a1 b0 b1 c0 c1
           (Z.to_nat nu) (Z.to_nat nv) (Z.to_nat nw))).
Proof. exact VolumeEvaluatorRational_evaluate_tie_R. Qed.
Print Assumptions C01_gen_VolumeEvaluatorRational_evaluate_R.

(* [G] VolumeEvaluatorRational.evaluate *)
Theorem C01_gen_VolumeEvaluatorRational_evaluate_Q : forall (dd : geomdata Q) (pu pv pw : nat) (Uu Uv Uw : list Q) (su sv sw : nat)
    (P : list (list Q)) (nu nv nw : Z) (a0 a1 b0 b1 c0 c1 : Q),
  vol_dd dd pu pv pw Uu Uv Uw su sv sw P nu nv nw ->
  pu < su -> su + pu <= length Uu -> pv < sv -> sv + pv <= length Uv -> pw < sw -> sw + pw <= length Uw ->
  su * sv * sw <= length P ->
  (1 <= eval_dim dd)%Z -> (forall pt, In pt P -> Z.of_nat (length pt) = eval_dim dd) ->
  Evaluators.VolumeEvaluatorRational_evaluate Qops (Helpers.find_span_linear Qops) dd [a0; b0; c0] [a1; b1; c1] =
  GOk (map (project Qops)
        (volume_evalpts Qops (lit_10e_8 Qops) (Z.to_nat (eval_dim dd)) pu pv pw Uu Uv Uw su sv sw P a0 a1 b0 b1 c0 c1
           (Z.to_nat nu) (Z.to_nat nv) (Z.to_nat nw))).
Proof. exact VolumeEvaluatorRational_evaluate_tie_Q. Qed.
Print Assumptions C01_gen_VolumeEvaluatorRational_evaluate_Q.

