(* C04 - knot insertion never changes the shape.
   "Inserting any parameter value as a knot, up to degree minus its current multiplicity times, in any parametric
    direction of a curve, surface or volume (rational or not) leaves every evaluated point unchanged.  The knot vector
    gains exactly the requested copies in sorted position, the control net grows by that count in that direction only,
    and a single-direction insertion exceeding the allowed multiplicity is rejected and leaves the object unchanged."
   This file only states the property theorems; proofs live under Proofs/.
   Model: Model/KnotIns.v (helpers.knot_insertion, knot_insertion_kv), Model/InsertKnot.v (operations.insert_knot and
   the object wrappers), tied to /repo by the correspondence families of harness/props/C04.py.
   Curve / surface points are the Cox-de Boor sums (curve_pt, surf_pt); that the evaluators compute these sums is C01.
   Rational shapes: the operation runs the same algorithm on the homogeneous control points (coordinates c < dim
   include the weight coordinate), so every homogeneous coordinate, hence the projected point, is unchanged. *)
From Coq Require Import List QArith Reals Qreals Lia Lra Arith Bool ZArith Permutation.
From NV Require Import Scalar.Ops Model.Common Model.Basis Model.KnotIns Model.InsertKnot
  Proofs.Boehm Proofs.BasisR Proofs.KnotInsR Proofs.InsertKnotR Proofs.KnotInsN Proofs.InsertNR Proofs.InsertDirR Proofs.InsertVolR Proofs.InsertOpR
  Run.InsertKnotH.   (* comparison helpers of the correspondence families: kept in the build closure of this file *)
From NV Require Import Proofs.InsertOpSurf.
Import ListNotations.

(* [G] the knot vector gains exactly r copies of u (multiset), in sorted position, whatever r, the span k being the
   one of u: U_k <= u <= U_{k+1} *)
Theorem C04_knot_vector_spec : forall (U : list R) (u : R) (k r : nat),
  sortedR U -> (k < length U)%nat -> (knR U k <= u)%R -> ((S k < length U)%nat -> (u <= knR U (S k))%R) ->
  let V := knot_insertion_kv U u k r in
  length V = (length U + r)%nat /\ Permutation V (repeat u r ++ U) /\ sortedR V /\
  (forall i, knR V i = if Nat.leb i k then knR U i else if Nat.leb i (k + r) then u else knR U (i - r)).
Proof.
  intros U u k r Hs Hk H1 H2. cbv zeta. split; [apply kv_length|]. split; [apply kv_perm|].
  split; [apply kv_sorted; assumption|]. intros i. apply knot_insertion_kv_nth. exact Hk.
Qed.
Print Assumptions C04_knot_vector_spec.

(* [G] the control net grows by exactly num; the points up to k-p are copied, those from k-s on are shifted by num
   (all degrees, all admissible num <= p - s; any scalar type, stated here for the reals) *)
Theorem C04_net_shape : forall (p : nat) (U : list R) (P : list (list R)) (u : R) (num s k : nat),
  (s <= p)%nat -> (p <= k)%nat -> (k < length P)%nat -> (num <= p - s)%nat ->
  let Q := knot_insertion Rops p U P u num s k in
  length Q = (length P + num)%nat /\
  (forall i, (i <= k - p)%nat -> getp Q i = getp P i) /\
  (forall i, (k - s <= i)%nat -> (i < length P)%nat -> getp Q (i + num) = getp P i).
Proof. intros. apply knot_insertion_frame; assumption. Qed.
Print Assumptions C04_net_shape.

(* [G] a single insertion computes exactly Boehm's points Q_i = a_i P_i + (1 - a_i) P_{i-1}, with a_i = 1 left of the
   window, (u - U_i)/(U_{i+p} - U_i) inside and 0 right of it *)
Theorem C04_single_insertion_is_boehm : forall (p : nat) (U : list R) (P : list (list R)) (u : R) (s k dim : nat),
  (length U = length P + p + 1)%nat -> (s < p)%nat -> (p <= k)%nat -> (k < length P)%nat ->
  (forall i, (k - s < i <= k)%nat -> knR U i = u) ->
  (forall i, (i < length P)%nat -> length (getp P i) = dim) ->
  forall c i, (c < dim)%nat -> (i < S (length P))%nat ->
  coord c (knot_insertion Rops p U P u 1 s k) i =
  (alpha (Ufun U) k u p i * coord c P i + (1 - alpha (Ufun U) k u p i) * coord c P (pred i))%R.
Proof. intros p U P u s k dim H1 H2 H3 H4 H5 H6 c i. apply (insert1_is_boehm p U P u s k dim); assumption. Qed.
Print Assumptions C04_single_insertion_is_boehm.

(* [G] CURVES: a single insertion of the model (knot vector and control points as computed by the code's algorithm)
   leaves every curve point unchanged: all degrees, all sorted knot vectors with any multiplicities, u inside a span
   or on a knot of multiplicity s < p (the s knots U_{k-s+1..k} equal u), every coordinate (incl. the weight
   coordinate of rational curves), every parameter t *)
Theorem C04_single_insertion_preserves_curve : forall (p : nat) (U : list R) (P : list (list R)) (u : R) (s k dim : nat),
  sortedR U -> (length U = length P + p + 1)%nat -> (s < p)%nat -> (p <= k)%nat -> (k < length P)%nat ->
  (knR U k <= u < knR U (k + 1))%R ->
  (forall i, (k - s < i <= k)%nat -> knR U i = u) ->
  (forall i, (i < length P)%nat -> length (getp P i) = dim) ->
  forall c t, (c < dim)%nat ->
  curve_pt p (knot_insertion_kv U u k 1) (knot_insertion Rops p U P u 1 s k) c t = curve_pt p U P c t.
Proof. intros p U P u s k dim H1 H2 H3 H4 H5 H6 H7 H8 c t. apply (insert1_model_preserves_curve p U P u s k dim); assumption. Qed.
Print Assumptions C04_single_insertion_preserves_curve.

(* [G] SURFACES, v-direction: the new net is row-wise the curve algorithm (gather / concatenation are identity index
   maps) ... *)
Theorem C04_surface_v_is_rowwise : forall (g : surf (T:=R)) (t : R) (num s k i j : nat),
  (s <= s_pv g)%nat -> (s_pv g <= k)%nat -> (k < s_sv g)%nat -> (num <= s_pv g - s)%nat -> (i < s_su g)%nat -> (j < s_sv g + num)%nat ->
  getp (surf_net_v Rops g t num s k) (j + (s_sv g + num) * i) = getp (knot_insertion Rops (s_pv g) (s_Uv g) (row_v g i) t num s k) j.
Proof. intros. apply surf_net_v_row; assumption. Qed.
Print Assumptions C04_surface_v_is_rowwise.

(* ... and u-direction: column-wise the curve algorithm (gather, flip_ctrlpts_u scatter) *)
Theorem C04_surface_u_is_columnwise : forall (g : surf (T:=R)) (t : R) (num s k i j : nat),
  (s <= s_pu g)%nat -> (s_pu g <= k)%nat -> (k < s_su g)%nat -> (num <= s_pu g - s)%nat -> (i < s_su g + num)%nat -> (j < s_sv g)%nat ->
  getp (surf_net_u Rops g t num s k) (j + s_sv g * i) = getp (knot_insertion Rops (s_pu g) (s_Uu g) (col_u g j) t num s k) i.
Proof. intros. apply surf_net_u_col; assumption. Qed.
Print Assumptions C04_surface_u_is_columnwise.

(* [G] r-fold insertion is r single insertions: A5.1 with num = r+1 returns exactly what one more single insertion
   (span k+r, multiplicity s+r, knot vector with the r copies already inserted) makes of the num = r result *)
Theorem C04_r_fold_is_iterated_single : forall (p : nat) (U : list R) (P : list (list R)) (u : R) (r s k : nat),
  (s <= p)%nat -> (p <= k)%nat -> (k < length P)%nat -> (k < length U)%nat -> (S r <= p - s)%nat ->
  knot_insertion Rops p U P u (S r) s k =
  knot_insertion Rops p (knot_insertion_kv U u k r) (knot_insertion Rops p U P u r s k) u 1 (s + r) (k + r) /\
  knot_insertion_kv U u k (S r) = knot_insertion_kv (knot_insertion_kv U u k r) u (k + r) 1.
Proof.
  intros p U P u r s k H1 H2 H3 H4 H5. split.
  - exact (ki_succ Rops (lerp Rops) [] p U P u r s k H1 H2 H3 H4 H5).
  - apply kv_succ. exact H4.
Qed.
Print Assumptions C04_r_fold_is_iterated_single.

(* [G] CURVES, every admissible count: inserting u num <= p - s times leaves every curve point unchanged
   (all degrees, all sorted knot vectors, u inside a span (s = 0) or on a knot of multiplicity s) *)
Theorem C04_insertion_preserves_curve : forall (p : nat) (U : list R) (P : list (list R)) (u : R) (num s k dim : nat),
  sortedR U -> (length U = length P + p + 1)%nat -> (s <= p)%nat -> (num <= p - s)%nat -> (p <= k)%nat -> (k < length P)%nat ->
  (knR U k <= u < knR U (k + 1))%R -> (forall i, (k - s < i <= k)%nat -> knR U i = u) ->
  (forall i, (i < length P)%nat -> length (getp P i) = dim) ->
  forall c t, (c < dim)%nat ->
  curve_pt p (knot_insertion_kv U u k num) (knot_insertion Rops p U P u num s k) c t = curve_pt p U P c t.
Proof.
  intros p U P u num s k dim H1 H2 H3 H4 H5 H6 H7 H8 H9 c t Hc.
  exact (insertN_model_preserves_curve p U P u s k dim H1 H2 H3 H5 H6 H7 H8 H9 num H4 c t Hc).
Qed.
Print Assumptions C04_insertion_preserves_curve.

(* [G] SURFACES, every admissible count, either direction: every surface point is unchanged; the other direction's
   degree, knot vector and size are untouched by construction of surf_after_v / surf_after_u (= what insert_knot_surf
   builds: v = row-wise, u = gather columns + flip_ctrlpts_u scatter) *)
Theorem C04_insertion_preserves_surface : forall (g : surf (T:=R)) (t : R) (num s k dim : nat),
  (forall i, (i < s_sv g * s_su g)%nat -> length (getp (s_P g) i) = dim) ->
  (sortedR (s_Uv g) -> (length (s_Uv g) = s_sv g + s_pv g + 1)%nat -> (s <= s_pv g)%nat -> (num <= s_pv g - s)%nat ->
   (s_pv g <= k)%nat -> (k < s_sv g)%nat -> (knR (s_Uv g) k <= t < knR (s_Uv g) (k + 1))%R ->
   (forall i, (k - s < i <= k)%nat -> knR (s_Uv g) i = t) ->
   forall c tu tv, (c < dim)%nat -> surf_pt (surf_after_v g t num s k) c tu tv = surf_pt g c tu tv) /\
  (sortedR (s_Uu g) -> (length (s_Uu g) = s_su g + s_pu g + 1)%nat -> (s <= s_pu g)%nat -> (num <= s_pu g - s)%nat ->
   (s_pu g <= k)%nat -> (k < s_su g)%nat -> (knR (s_Uu g) k <= t < knR (s_Uu g) (k + 1))%R ->
   (forall i, (k - s < i <= k)%nat -> knR (s_Uu g) i = t) ->
   forall c tu tv, (c < dim)%nat -> surf_pt (surf_after_u g t num s k) c tu tv = surf_pt g c tu tv).
Proof.
  intros g t num s k dim H0. split; intros H1 H2 H3 H4 H5 H6 H7 H8 c tu tv.
  - apply (surf_insert_v_preserves g t num s k dim); assumption.
  - apply (surf_insert_u_preserves g t num s k dim); assumption.
Qed.
Print Assumptions C04_insertion_preserves_surface.

(* surf_after_v / surf_after_u are literally the states operations.insert_knot produces (model), given the span and
   multiplicity it computes *)
Theorem C04_surface_states_are_the_operation : forall (tol : R) (g : surf (T:=R)) (t : R) (num : nat),
  (1 <= num)%nat ->
  (num <= s_pu g - find_multiplicity Rops tol t (s_Uu g))%nat ->
  insert_knot_surf Rops tol true g [Some t; None] [Z.of_nat num; 0%Z] =
  (surf_after_u g t num (find_multiplicity Rops tol t (s_Uu g)) (find_span_linear Rops (s_pu g) (s_Uu g) (s_su g) t), false).
Proof. intros. apply insert_knot_surf_accept_u; assumption. Qed.
Print Assumptions C04_surface_states_are_the_operation.

(* [G] THE CURVE OPERATION AS A WHOLE: for every curve (any degree, sorted knot vector of the right length), every
   parameter u in the half-open domain [U_p, U_n) (inside a span or on an interior knot of any multiplicity), every
   count num >= 1 and the code's multiplicity tolerance (provided it does not confuse distinct knots):
   operations.insert_knot (model, check_num) either rejects - exactly when num > p - multiplicity - and returns the
   curve unchanged, or returns a curve of the same degree with num more control points and the same points.
   The span and the multiplicity are the ones the code computes (find_span_linear, find_multiplicity). *)
Theorem C04_insert_knot_curve_correct : forall (tol : R) (c : curve (T:=R)) (u : R) (dim : nat),
  sortedR (c_U c) -> (c_p c < length (c_P c))%nat -> (length (c_U c) = length (c_P c) + c_p c + 1)%nat ->
  (knR (c_U c) (c_p c) <= u < knR (c_U c) (length (c_P c)))%R ->
  (forall i, (i < length (c_U c))%nat -> (Rabs (u - knR (c_U c) i) <= tol)%R -> knR (c_U c) i = u) ->
  (forall i, (i < length (c_P c))%nat -> length (getp (c_P c) i) = dim) ->
  forall num, (1 <= num)%nat ->
  let '(c', raised) := insert_knot_curve Rops tol true c [Some u] [Z.of_nat num] in
  (raised = true -> c' = c /\ (c_p c - find_multiplicity Rops tol u (c_U c) < num)%nat) /\
  (raised = false -> (num <= c_p c - find_multiplicity Rops tol u (c_U c))%nat /\ c_p c' = c_p c /\
     length (c_P c') = (length (c_P c) + num)%nat /\
     forall cc t, (cc < dim)%nat -> curve_pt (c_p c') (c_U c') (c_P c') cc t = curve_pt (c_p c) (c_U c) (c_P c) cc t).
Proof. exact insert_knot_curve_correct. Qed.
Print Assumptions C04_insert_knot_curve_correct.

(* the curve state the theorems speak about is literally what operations.insert_knot (model) returns *)
Theorem C04_curve_state_is_the_operation : forall (tol : R) (c : curve (T:=R)) (t : R) (num : nat),
  (1 <= num)%nat -> (num <= c_p c - find_multiplicity Rops tol t (c_U c))%nat ->
  insert_knot_curve Rops tol true c [Some t] [Z.of_nat num] =
  (mkC (c_p c) (knot_insertion_kv (c_U c) t (find_span_linear Rops (c_p c) (c_U c) (length (c_P c)) t) num)
       (knot_insertion Rops (c_p c) (c_U c) (c_P c) t num (find_multiplicity Rops tol t (c_U c))
          (find_span_linear Rops (c_p c) (c_U c) (length (c_P c)) t)), false).
Proof. intros. apply insert_knot_curve_accept; assumption. Qed.
Print Assumptions C04_curve_state_is_the_operation.

(* [G] VOLUMES: in each direction the new net is fibre-wise the curve algorithm (gather into rows of points, A5.1 on
   rows, scatter back = identity index maps) ... *)
Theorem C04_volume_is_fibrewise : forall (g : vol (T:=R)) (t : R) (num s k i j l : nat),
  ((s <= v_pu g)%nat -> (v_pu g <= k)%nat -> (k < v_su g)%nat -> (num <= v_pu g - s)%nat -> (i < v_su g + num)%nat -> (j < v_sv g)%nat -> (l < v_sw g)%nat ->
     getp (vol_net_u Rops g t num s k) (j + i * v_sv g + l * (v_su g + num) * v_sv g) = getp (knot_insertion Rops (v_pu g) (v_Uu g) (fib_u g j l) t num s k) i) /\
  ((s <= v_pv g)%nat -> (v_pv g <= k)%nat -> (k < v_sv g)%nat -> (num <= v_pv g - s)%nat -> (i < v_su g)%nat -> (j < v_sv g + num)%nat -> (l < v_sw g)%nat ->
     getp (vol_net_v Rops g t num s k) (j + i * (v_sv g + num) + l * v_su g * (v_sv g + num)) = getp (knot_insertion Rops (v_pv g) (v_Uv g) (fib_v g i l) t num s k) j) /\
  ((s <= v_pw g)%nat -> (v_pw g <= k)%nat -> (k < v_sw g)%nat -> (num <= v_pw g - s)%nat -> (i < v_su g)%nat -> (j < v_sv g)%nat -> (l < v_sw g + num)%nat ->
     getp (vol_net_w Rops g t num s k) (j + i * v_sv g + l * v_su g * v_sv g) = getp (knot_insertion Rops (v_pw g) (v_Uw g) (fib_w g i j) t num s k) l).
Proof.
  intros. split; [|split]; intros; [apply vol_net_u_fibre|apply vol_net_v_fibre|apply vol_net_w_fibre]; assumption.
Qed.
Print Assumptions C04_volume_is_fibrewise.

(* ... hence every volume point is unchanged, in each of the three directions, for every admissible count *)
Theorem C04_insertion_preserves_volume : forall (g : vol (T:=R)) (t : R) (num s k dim : nat),
  (forall i, (i < v_su g * v_sv g * v_sw g)%nat -> length (getp (v_P g) i) = dim) ->
  (sortedR (v_Uu g) -> (length (v_Uu g) = v_su g + v_pu g + 1)%nat -> (s <= v_pu g)%nat -> (num <= v_pu g - s)%nat ->
   (v_pu g <= k)%nat -> (k < v_su g)%nat -> (knR (v_Uu g) k <= t < knR (v_Uu g) (k + 1))%R ->
   (forall i, (k - s < i <= k)%nat -> knR (v_Uu g) i = t) ->
   forall c tu tv tw, (c < dim)%nat -> vol_pt (vol_after_u g t num s k) c tu tv tw = vol_pt g c tu tv tw) /\
  (sortedR (v_Uv g) -> (length (v_Uv g) = v_sv g + v_pv g + 1)%nat -> (s <= v_pv g)%nat -> (num <= v_pv g - s)%nat ->
   (v_pv g <= k)%nat -> (k < v_sv g)%nat -> (knR (v_Uv g) k <= t < knR (v_Uv g) (k + 1))%R ->
   (forall i, (k - s < i <= k)%nat -> knR (v_Uv g) i = t) ->
   forall c tu tv tw, (c < dim)%nat -> vol_pt (vol_after_v g t num s k) c tu tv tw = vol_pt g c tu tv tw) /\
  (sortedR (v_Uw g) -> (length (v_Uw g) = v_sw g + v_pw g + 1)%nat -> (s <= v_pw g)%nat -> (num <= v_pw g - s)%nat ->
   (v_pw g <= k)%nat -> (k < v_sw g)%nat -> (knR (v_Uw g) k <= t < knR (v_Uw g) (k + 1))%R ->
   (forall i, (k - s < i <= k)%nat -> knR (v_Uw g) i = t) ->
   forall c tu tv tw, (c < dim)%nat -> vol_pt (vol_after_w g t num s k) c tu tv tw = vol_pt g c tu tv tw).
Proof.
  intros g t num s k dim H0. split; [|split]; intros H1 H2 H3 H4 H5 H6 H7 H8 c tu tv tw.
  - apply (vol_insert_u_preserves g t num s k dim); assumption.
  - apply (vol_insert_v_preserves g t num s k dim); assumption.
  - apply (vol_insert_w_preserves g t num s k dim); assumption.
Qed.
Print Assumptions C04_insertion_preserves_volume.

(* [G] a single-direction insertion exceeding degree - multiplicity is rejected and the object is unchanged
   (operations.insert_knot with check_num; curve, surface u / v, volume u / v / w; and the curve wrapper) *)
Theorem C04_rejected_leaves_curve_unchanged : forall (tol : R) (c : curve (T:=R)) (u : R) (num : nat),
  (c_p c - find_multiplicity Rops tol u (c_U c) < num)%nat ->
  insert_knot_curve Rops tol true c [Some u] [Z.of_nat num] = (c, true) /\
  forall norm, okor_ (curve_insert_knot Rops tol norm c (Some u) (Z.of_nat num) true) c = c.
Proof. intros. split; [apply insert_knot_curve_rejected; assumption|intros; apply curve_wrapper_rejected; assumption]. Qed.
Print Assumptions C04_rejected_leaves_curve_unchanged.

Theorem C04_rejected_leaves_surface_unchanged : forall (tol : R) (g : surf (T:=R)) (t : R) (num n' : nat),
  ((s_pu g - find_multiplicity Rops tol t (s_Uu g) < num)%nat ->
     insert_knot_surf Rops tol true g [Some t; None] [Z.of_nat num; Z.of_nat n'] = (g, true)) /\
  ((s_pv g - find_multiplicity Rops tol t (s_Uv g) < num)%nat ->
     insert_knot_surf Rops tol true g [None; Some t] [Z.of_nat n'; Z.of_nat num] = (g, true)).
Proof. intros. split; intros; [apply insert_knot_surf_rejected_u|apply insert_knot_surf_rejected_v]; assumption. Qed.
Print Assumptions C04_rejected_leaves_surface_unchanged.

Theorem C04_rejected_leaves_volume_unchanged : forall (tol : R) (g : vol (T:=R)) (t : R) (num n1 n2 : nat),
  ((v_pu g - find_multiplicity Rops tol t (v_Uu g) < num)%nat ->
     insert_knot_vol Rops tol true g [Some t; None; None] [Z.of_nat num; Z.of_nat n1; Z.of_nat n2] = (g, true)) /\
  ((v_pv g - find_multiplicity Rops tol t (v_Uv g) < num)%nat ->
     insert_knot_vol Rops tol true g [None; Some t; None] [Z.of_nat n1; Z.of_nat num; Z.of_nat n2] = (g, true)) /\
  ((v_pw g - find_multiplicity Rops tol t (v_Uw g) < num)%nat ->
     insert_knot_vol Rops tol true g [None; None; Some t] [Z.of_nat n1; Z.of_nat n2; Z.of_nat num] = (g, true)).
Proof.
  intros. split; [|split]; intros;
  [apply insert_knot_vol_rejected_u|apply insert_knot_vol_rejected_v|apply insert_knot_vol_rejected_w]; assumption.
Qed.
Print Assumptions C04_rejected_leaves_volume_unchanged.

(* What is NOT a Coq theorem (tied by the correspondence check and the exact oracle only): for surfaces and volumes the
   link from find_span_linear / find_multiplicity to the hypotheses on k and s (proved for curves in
   C04_insert_knot_curve_correct; the searches are the same functions); that vol_after_* / surf_after_v are the states
   insert_knot_vol / insert_knot_surf build (shown for the curve and the surface u-direction, by unfolding); sequences of insertions (each step is covered by the
   theorems, their composition is immediate); the evaluators compute curve_pt / surf_pt / vol_pt (property C01). *)

(* ---- non-vacuity: the hypotheses hold on a concrete cubic with a double interior knot, inserting on that knot ---- *)
Example C04_hypotheses_satisfiable :
  let U := [0;0;0;0;1#4;1#2;1#2;1;1;1;1]%Q in
  let P := [[0;0;1];[1;2;1];[2;1;2];[3;3;1];[4;0;1];[5;2;3];[6;1;1]]%Q in
  (* u = 1/2 has multiplicity s = 2 < p = 3, span k = 6: U_6 <= u < U_7, U_5 = U_6 = u *)
  (length U = length P + 3 + 1)%nat /\ (2 < 3)%nat /\ (3 <= 6)%nat /\ (6 < length P)%nat /\
  (kn Qops U 6 <= 1#2)%Q /\ (1#2 < kn Qops U 7)%Q /\ (kn Qops U 5 == 1#2)%Q /\
  find_multiplicity Qops 0%Q (1#2)%Q U = 2%nat /\ find_span_linear Qops 3 U 7 (1#2) = 6%nat /\
  length (knot_insertion Qops 3 U P (1#2) 1 2 6) = 8%nat /\
  knot_insertion_kv U (1#2) 6 1 = [0;0;0;0;1#4;1#2;1#2;1#2;1;1;1;1]%Q /\
  (* the inserted point is a proper convex combination: Q_4 = 1/3 P_4 + 2/3 P_3 *)
  nth 4 (knot_insertion Qops 3 U P (1#2) 1 2 6) [] = [10#3; 2; 1]%Q.
Proof. cbv zeta. repeat split; try (vm_compute; congruence); try (cbn; lia). Qed.

Example C04_rejection_example :
  let c := mkC 2 [0;0;0;1#2;1#2;1;1;1]%Q [[0];[1];[2];[3];[4]]%Q in
  insert_knot_curve Qops 0%Q true c [Some (1#2)%Q] [1%Z] = (c, true).
Proof. vm_compute. reflexivity. Qed.

(* ====================== round 2 (Proofs/InsertOpSurf.v): the whole insert_knot operation on surfaces and volumes with the code's own searches ====================== *)
(* [G] THE SURFACE OPERATION AS A WHOLE, any combination of directions (a direction with parameter None or count 0 is
   not requested), with the code's own span / multiplicity searches.  Vocabulary (Proofs/InsertOpSurf.v):
     swf g dim        both directions valid (sorted knot vector of length size + degree + 1, degree < size), su*sv points of dimension dim
     par_ok tol p U n o   a requested parameter lies in [U_p, U_n) and tol does not confuse distinct knots
     eff o n          the requested count (0 if o = None);   excess tol p U o n   o = Some t, 1 <= n and p - mult(t) < n
     kv_after p U n o num   knot_insertion_kv U t (find_span_linear p U n t) num  (U itself if not requested)
   insert_knot raises exactly when some requested direction has an excess count; u is processed before v, so the surface
   is the old one when u raises or u was not requested; in every case the points are unchanged. *)
Theorem C04_insert_knot_surf_correct : forall (tol : R) (g : surf (T:=R)) (ou ov : option R) (nu nv dim : nat),
  swf g dim -> par_ok tol (s_pu g) (s_Uu g) (s_su g) ou -> par_ok tol (s_pv g) (s_Uv g) (s_sv g) ov ->
  let '(g', raised) := insert_knot_surf Rops tol true g [ou; ov] [Z.of_nat nu; Z.of_nat nv] in
  let xu := excess tol (s_pu g) (s_Uu g) ou nu in let xv := excess tol (s_pv g) (s_Uv g) ov nv in
  (raised = true <-> xu \/ xv) /\
  (raised = true -> (xu -> g' = g) /\ (eff ou nu = 0%nat -> g' = g) /\
     (~ xu -> s_su g' = (s_su g + eff ou nu)%nat /\ s_Uu g' = kv_after (s_pu g) (s_Uu g) (s_su g) ou nu /\
              s_sv g' = s_sv g /\ s_Uv g' = s_Uv g)) /\
  (raised = false ->
     s_su g' = (s_su g + eff ou nu)%nat /\ s_sv g' = (s_sv g + eff ov nv)%nat /\
     s_Uu g' = kv_after (s_pu g) (s_Uu g) (s_su g) ou nu /\ s_Uv g' = kv_after (s_pv g) (s_Uv g) (s_sv g) ov nv) /\
  s_pu g' = s_pu g /\ s_pv g' = s_pv g /\ swf g' dim /\
  forall c tu tv, (c < dim)%nat -> surf_pt g' c tu tv = surf_pt g c tu tv.
Proof. exact insert_knot_surf_correct. Qed.
Print Assumptions C04_insert_knot_surf_correct.

(* the same with every hypothesis spelled out, one direction requested (u; v is symmetric) *)
Theorem C04_insert_knot_surf_u_correct : forall (tol : R) (g : surf (T:=R)) (t : R) (nu nv dim : nat),
  sortedR (s_Uu g) -> (s_pu g < s_su g)%nat -> length (s_Uu g) = (s_su g + s_pu g + 1)%nat ->
  sortedR (s_Uv g) -> (s_pv g < s_sv g)%nat -> length (s_Uv g) = (s_sv g + s_pv g + 1)%nat ->
  (forall i, (i < s_sv g * s_su g)%nat -> length (getp (s_P g) i) = dim) ->
  (knR (s_Uu g) (s_pu g) <= t < knR (s_Uu g) (s_su g))%R ->
  (forall i, (i < length (s_Uu g))%nat -> (Rabs (t - knR (s_Uu g) i) <= tol)%R -> knR (s_Uu g) i = t) ->
  (1 <= nu)%nat ->
  let '(g', raised) := insert_knot_surf Rops tol true g [Some t; None] [Z.of_nat nu; Z.of_nat nv] in
  (raised = true <-> (s_pu g - find_multiplicity Rops tol t (s_Uu g) < nu)%nat) /\ (raised = true -> g' = g) /\
  (raised = false -> s_su g' = (s_su g + nu)%nat /\ s_sv g' = s_sv g /\ s_Uv g' = s_Uv g /\
     s_Uu g' = knot_insertion_kv (s_Uu g) t (find_span_linear Rops (s_pu g) (s_Uu g) (s_su g) t) nu) /\
  s_pu g' = s_pu g /\ s_pv g' = s_pv g /\
  forall c tu tv, (c < dim)%nat -> surf_pt g' c tu tv = surf_pt g c tu tv.
Proof.
  intros tol g t nu nv dim A1 A2 A3 B1 B2 B3 Hd Hu Hsep Hn.
  apply (insert_knot_surf_u_correct tol g t nu nv dim); [|split; assumption|exact Hn].
  split; [split; [exact A1|split; assumption]|]. split; [split; [exact B1|split; assumption]|exact Hd].
Qed.
Print Assumptions C04_insert_knot_surf_u_correct.

Theorem C04_insert_knot_surf_v_correct : forall (tol : R) (g : surf (T:=R)) (t : R) (nu nv dim : nat),
  sortedR (s_Uu g) -> (s_pu g < s_su g)%nat -> length (s_Uu g) = (s_su g + s_pu g + 1)%nat ->
  sortedR (s_Uv g) -> (s_pv g < s_sv g)%nat -> length (s_Uv g) = (s_sv g + s_pv g + 1)%nat ->
  (forall i, (i < s_sv g * s_su g)%nat -> length (getp (s_P g) i) = dim) ->
  (knR (s_Uv g) (s_pv g) <= t < knR (s_Uv g) (s_sv g))%R ->
  (forall i, (i < length (s_Uv g))%nat -> (Rabs (t - knR (s_Uv g) i) <= tol)%R -> knR (s_Uv g) i = t) ->
  (1 <= nv)%nat ->
  let '(g', raised) := insert_knot_surf Rops tol true g [None; Some t] [Z.of_nat nu; Z.of_nat nv] in
  (raised = true <-> (s_pv g - find_multiplicity Rops tol t (s_Uv g) < nv)%nat) /\ (raised = true -> g' = g) /\
  (raised = false -> s_sv g' = (s_sv g + nv)%nat /\ s_su g' = s_su g /\ s_Uu g' = s_Uu g /\
     s_Uv g' = knot_insertion_kv (s_Uv g) t (find_span_linear Rops (s_pv g) (s_Uv g) (s_sv g) t) nv) /\
  s_pu g' = s_pu g /\ s_pv g' = s_pv g /\
  forall c tu tv, (c < dim)%nat -> surf_pt g' c tu tv = surf_pt g c tu tv.
Proof.
  intros tol g t nu nv dim A1 A2 A3 B1 B2 B3 Hd Hu Hsep Hn.
  apply (insert_knot_surf_v_correct tol g t nu nv dim); [|split; assumption|exact Hn].
  split; [split; [exact A1|split; assumption]|]. split; [split; [exact B1|split; assumption]|exact Hd].
Qed.
Print Assumptions C04_insert_knot_surf_v_correct.

(* [G] THE VOLUME OPERATION AS A WHOLE, any subset of the three directions (vwf: the three directions valid,
   su*sv*sw points of dimension dim); u, v, w are processed in this order and a raise stops the processing *)
Theorem C04_insert_knot_vol_correct : forall (tol : R) (g : vol (T:=R)) (ou ov ow : option R) (nu nv nw dim : nat),
  vwf g dim -> par_ok tol (v_pu g) (v_Uu g) (v_su g) ou -> par_ok tol (v_pv g) (v_Uv g) (v_sv g) ov ->
  par_ok tol (v_pw g) (v_Uw g) (v_sw g) ow ->
  let '(g', raised) := insert_knot_vol Rops tol true g [ou; ov; ow] [Z.of_nat nu; Z.of_nat nv; Z.of_nat nw] in
  let xu := excess tol (v_pu g) (v_Uu g) ou nu in let xv := excess tol (v_pv g) (v_Uv g) ov nv in
  let xw := excess tol (v_pw g) (v_Uw g) ow nw in
  (raised = true <-> xu \/ xv \/ xw) /\
  (raised = true -> (xu -> g' = g) /\ (eff ou nu = 0%nat -> xv -> g' = g) /\
                    (eff ou nu = 0%nat -> eff ov nv = 0%nat -> g' = g)) /\
  (raised = false ->
     v_su g' = (v_su g + eff ou nu)%nat /\ v_sv g' = (v_sv g + eff ov nv)%nat /\ v_sw g' = (v_sw g + eff ow nw)%nat /\
     v_Uu g' = kv_after (v_pu g) (v_Uu g) (v_su g) ou nu /\ v_Uv g' = kv_after (v_pv g) (v_Uv g) (v_sv g) ov nv /\
     v_Uw g' = kv_after (v_pw g) (v_Uw g) (v_sw g) ow nw) /\
  v_pu g' = v_pu g /\ v_pv g' = v_pv g /\ v_pw g' = v_pw g /\ vwf g' dim /\
  forall c tu tv tw, (c < dim)%nat -> vol_pt g' c tu tv tw = vol_pt g c tu tv tw.
Proof. exact insert_knot_vol_correct. Qed.
Print Assumptions C04_insert_knot_vol_correct.

(* one direction of a volume (w shown with all hypotheses spelled out; insert_knot_vol_u_correct / _v_correct are the analogues) *)
Theorem C04_insert_knot_vol_w_correct : forall (tol : R) (g : vol (T:=R)) (t : R) (nu nv nw dim : nat),
  sortedR (v_Uu g) -> (v_pu g < v_su g)%nat -> length (v_Uu g) = (v_su g + v_pu g + 1)%nat ->
  sortedR (v_Uv g) -> (v_pv g < v_sv g)%nat -> length (v_Uv g) = (v_sv g + v_pv g + 1)%nat ->
  sortedR (v_Uw g) -> (v_pw g < v_sw g)%nat -> length (v_Uw g) = (v_sw g + v_pw g + 1)%nat ->
  (forall i, (i < v_su g * v_sv g * v_sw g)%nat -> length (getp (v_P g) i) = dim) ->
  (knR (v_Uw g) (v_pw g) <= t < knR (v_Uw g) (v_sw g))%R ->
  (forall i, (i < length (v_Uw g))%nat -> (Rabs (t - knR (v_Uw g) i) <= tol)%R -> knR (v_Uw g) i = t) ->
  (1 <= nw)%nat ->
  let '(g', raised) := insert_knot_vol Rops tol true g [None; None; Some t] [Z.of_nat nu; Z.of_nat nv; Z.of_nat nw] in
  (raised = true <-> (v_pw g - find_multiplicity Rops tol t (v_Uw g) < nw)%nat) /\ (raised = true -> g' = g) /\
  (raised = false -> v_sw g' = (v_sw g + nw)%nat /\ v_su g' = v_su g /\ v_sv g' = v_sv g /\ v_Uu g' = v_Uu g /\ v_Uv g' = v_Uv g /\
     v_Uw g' = knot_insertion_kv (v_Uw g) t (find_span_linear Rops (v_pw g) (v_Uw g) (v_sw g) t) nw) /\
  v_pu g' = v_pu g /\ v_pv g' = v_pv g /\ v_pw g' = v_pw g /\
  forall c tu tv tw, (c < dim)%nat -> vol_pt g' c tu tv tw = vol_pt g c tu tv tw.
Proof.
  intros tol g t nu nv nw dim A1 A2 A3 B1 B2 B3 C1 C2 C3 Hd Hu Hsep Hn.
  apply (insert_knot_vol_w_correct tol g t nu nv nw dim); [|split; assumption|exact Hn].
  split; [split; [exact A1|split; assumption]|]. split; [split; [exact B1|split; assumption]|].
  split; [split; [exact C1|split; assumption]|exact Hd].
Qed.
Print Assumptions C04_insert_knot_vol_w_correct.

(* non-vacuity: a biquadratic 4 x 3 surface; u = 1/2 is a simple interior knot of Uu (one more copy admissible, two not),
   v = 1/3 lies inside a span of Uv (two copies admissible): both directions at once, and the partial state when v raises *)
Example C04_ex_surface_both_directions :
  let g := mkS 2 2 [0;0;0;1#2;1;1;1]%Q [0;0;0;1;1;1]%Q 4 3
               [[0;0;0];[0;1;1];[0;2;0]; [1;0;1];[1;1;2];[1;2;1]; [2;0;0];[2;1;1];[2;2;3]; [3;0;1];[3;1;0];[3;2;1]]%Q in
  (let '(g', raised) := insert_knot_surf Qops 0%Q true g [Some (1#2)%Q; Some (1#3)%Q] [1%Z; 2%Z] in
     raised = false /\ s_su g' = 5%nat /\ s_sv g' = 5%nat /\ length (s_P g') = 25%nat /\
     s_Uu g' = [0;0;0;1#2;1#2;1;1;1]%Q /\ s_Uv g' = [0;0;0;1#3;1#3;1;1;1]%Q) /\
  (let '(g', raised) := insert_knot_surf Qops 0%Q true g [Some (1#2)%Q; Some (1#3)%Q] [2%Z; 1%Z] in raised = true /\ g' = g) /\
  (let '(g', raised) := insert_knot_surf Qops 0%Q true g [Some (1#2)%Q; Some (1#3)%Q] [1%Z; 3%Z] in
     raised = true /\ s_su g' = 5%nat /\ s_sv g' = 3%nat /\ s_Uv g' = s_Uv g).
Proof. vm_compute. repeat split. Qed.

(* ====================== TRANSLATOR TIE (Proofs/GenTie*.v) ======================
   coq/Gen/*.v is the Gallina rendering of the Python source produced by harness/pytrans.py; every run of ./check regenerates it
   from /repo and compares it function by function with the committed text (evidence: translator_tie).  The theorems below say
   that the hand-written model (the subject of the theorems above) computes, for ALL inputs satisfying the stated
   well-formedness, exactly what the translated source computes.  This block stays LAST in the file: its imports shadow
   model names. *)
From Coq Require Import List QArith Reals Qreals Lia Lra Arith Bool ZArith.
From NV Require Import Scalar.Ops Model.Common Model.Basis Model.Knots Model.KnotIns Model.KnotRem Model.LinAlg Model.Degree
  Gen.Prelude Gen.LinalgInternal Gen.Linalg Gen.Knotvector Gen.Helpers
  Proofs.GenTieSums Proofs.GenTieLinAlg Proofs.GenTieSubst Proofs.GenTieLU Proofs.GenTieLUSolve Proofs.GenTieKnotRem Proofs.GenTieDegree
  Proofs.GenTieLib Proofs.GenTieKnots Proofs.GenTieSpan Proofs.GenTieBasis Proofs.GenTieBasisOne
  Proofs.GenTieDersOne Proofs.GenTieDersLib Proofs.GenTieDers Proofs.GenTieKnotIns.
Local Open Scope nat_scope.



(* [G] helpers.knot_insertion_kv; wf: span < len(knotvector) *)
Theorem C04_gen_knot_insertion_kv_R : forall (U : list R) (u : R) (span r : nat),
  span < length U ->
  Helpers.knot_insertion_kv Rops U u (Z.of_nat span) (Z.of_nat r) = GOk (KnotIns.knot_insertion_kv U u span r).
Proof. exact knot_insertion_kv_tie_R. Qed.
Print Assumptions C04_gen_knot_insertion_kv_R.
Theorem C04_gen_knot_insertion_kv_Q : forall (U : list Q) (u : Q) (span r : nat),
  span < length U ->
  Helpers.knot_insertion_kv Qops U u (Z.of_nat span) (Z.of_nat r) = GOk (KnotIns.knot_insertion_kv U u span r).
Proof. exact knot_insertion_kv_tie_Q. Qed.
Print Assumptions C04_gen_knot_insertion_kv_Q.

(* [G] helpers.knot_insertion (control points = lists of floats), keywords num, s, span given explicitly.
   wf: degree <= span, s + num <= degree (the callers' guard), span - s < len(ctrlpts), span + degree < len(knotvector) + s,
   every point non-empty (isinstance(temp[i][0], float) is evaluated), len(ctrlpts) <= len(knotvector) (the default expression
   find_span_linear(degree, knotvector, len(ctrlpts), u) of the `span` keyword is evaluated even when span is given) *)
Theorem C04_gen_knot_insertion_R : forall (p : nat) (U : list R) (P : list (list R)) (u : R) (num s k : nat),
  p <= k -> s + num <= p -> k - s < length P -> length P <= length U -> k + p < length U + s ->
  Forall (fun pt => pt <> []) P ->
  Helpers.knot_insertion Rops (Z.of_nat p) U P u (Z.of_nat num) (Z.of_nat s) (Z.of_nat k) =
  GOk (KnotIns.knot_insertion Rops p U P u num s k).
Proof. exact knot_insertion_tie_R. Qed.
Print Assumptions C04_gen_knot_insertion_R.
Theorem C04_gen_knot_insertion_Q : forall (p : nat) (U : list Q) (P : list (list Q)) (u : Q) (num s k : nat),
  p <= k -> s + num <= p -> k - s < length P -> length P <= length U -> k + p < length U + s ->
  Forall (fun pt => pt <> []) P ->
  Helpers.knot_insertion Qops (Z.of_nat p) U P u (Z.of_nat num) (Z.of_nat s) (Z.of_nat k) =
  GOk (KnotIns.knot_insertion Qops p U P u num s k).
Proof. exact knot_insertion_tie_Q. Qed.
Print Assumptions C04_gen_knot_insertion_Q.

Example C04_gen_nonvacuous :
  let U := [0; 0; 0; 0; 1#4; 1#2; 1#2; 3#4; 1; 1; 1; 1]%Q in
  let P := [[0; 0]; [1; 2]; [2; 3]; [3; 3]; [4; 1]; [5; 0]; [6; 2]; [7; 3]]%Q in
  (3 <= 4 /\ 0 + 2 <= 3 /\ 4 - 0 < length P /\ length P <= length U /\ 4 + 3 < length U + 0)
  /\ Helpers.knot_insertion Qops 3 U P (3#10)%Q 2 0 4 =
     GOk [[0; 0]; [1; 2]; [8#5; 13#5]; [11#5; 71#25]; [27#10; 74#25]; [31#10; 14#5]; [4; 1]; [5; 0]; [6; 2]; [7; 3]]%Q
  /\ Helpers.knot_insertion_kv Qops U (3#10)%Q 4 2 = GOk [0; 0; 0; 0; 1#4; 3#10; 3#10; 1#2; 1#2; 3#4; 1; 1; 1; 1]%Q.
Proof. cbv zeta. repeat split; try (vm_compute; reflexivity); simpl; lia. Qed.

From NV Require Import Gen.PreludeExt Gen.LinalgMat Proofs.GenTieMat Proofs.GenTieMatSolve Proofs.GenTieBinom.
From NV Require Import Gen.PreludeExt Gen.HelpersB Proofs.GenTieKnotRemove.
From NV Require Import Gen.HelpersB Proofs.GenTieElev.
From NV Require Import Model.Geom2D Model.Voxel Gen.PreludeExt Gen.LinalgGeom Gen.Voxelize Proofs.GenTieGeom Proofs.GenTieVoxel
  Proofs.GenTieHull.
From NV Require Import Model.Hull Gen.Utilities Proofs.GenTieBBox.
From NV Require Import Model.Fit Gen.Fitting Proofs.GenTieFit.
From NV Require Import Model.Derivs Proofs.GenTieDerivCpts.
From NV Require Import Proofs.GenTieArr4 Proofs.GenTieDerivSurf.
From NV Require Import Model.KnotRefine Proofs.GenTieRefine.
From NV Require Import Model.Eval Gen.Evaluators Proofs.GenTieEvalLib Proofs.GenTieEvalCurve Proofs.GenTieEvalSurf Proofs.GenTieEvalVol.
From NV Require Import Model.Derivs Gen.HelpersC Proofs.GenTieBinom Proofs.GenTieBasisAll Proofs.GenTieEvalDerivCurve Proofs.GenTieEvalDerivCurve2.
From NV Require Import Proofs.GenTieEvalDerivSurf Proofs.GenTieEvalDerivSurfRat Proofs.GenTieEvalDerivSurf2.
From NV Require Import Model.Weights Gen.Compatibility Proofs.GenTieCompat.
From NV Require Import Model.Layout Gen.Compatibility Proofs.GenTieFlip.
From NV Require Import Model.Layout Model.Voxel Model.Hull Gen.OperationsInternal Proofs.GenTieFindCtrlpts.
From NV Require Import Model.Layout Model.Hull Gen.OperationsInternal Proofs.GenTieFindCtrlpts.

From NV Require Import Model.InsertKnot Gen.UtilitiesB Proofs.GenTieCheckParams.

(* [G] utilities.check_params: ALL inputs; a parameter is None or a float *)
Theorem C04_gen_check_params_R : forall (params : list (option R)),
  UtilitiesB.check_params Rops params = GOk (InsertKnot.params_in_unit Rops params).
Proof. exact check_params_tie_R. Qed.
Print Assumptions C04_gen_check_params_R.
Theorem C04_gen_check_params_Q : forall (params : list (option Q)),
  UtilitiesB.check_params Qops params = GOk (InsertKnot.params_in_unit Qops params).
Proof. exact check_params_tie_Q. Qed.
Print Assumptions C04_gen_check_params_Q.

